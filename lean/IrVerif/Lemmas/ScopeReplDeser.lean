/-
What the deserializer builds is reloadable: `deserGraph` satisfies the certificate `replG` (the scope
tables of the certificate are the tables of the run), and the values it introduces carry increasing
creation indices.
-/
import IrVerif.Lemmas.ScopeReplIdem
import IrVerif.Lemmas.ScopeTree
namespace IrVerif.Scope

/-! ### increasing lists of creation indices -/

/-- strictly increasing, within `[a, b)` -/
def Incr (a b : Nat) (L : List Nat) : Prop := L.Pairwise (· < ·) ∧ ∀ v ∈ L, a ≤ v ∧ v < b

theorem Incr.nil (a b : Nat) : Incr a b [] := ⟨List.Pairwise.nil, fun _ h => by simp at h⟩

theorem Incr.mono {a b a' b' : Nat} {L : List Nat} (h : Incr a b L) (ha : a' ≤ a) (hb : b ≤ b') : Incr a' b' L :=
  ⟨h.1, fun v hv => ⟨Nat.le_trans ha (h.2 v hv).1, Nat.lt_of_lt_of_le (h.2 v hv).2 hb⟩⟩

theorem Incr.append {a b c : Nat} {L1 L2 : List Nat} (h1 : Incr a b L1) (h2 : Incr b c L2) (hab : a ≤ b)
    (hbc : b ≤ c) : Incr a c (L1 ++ L2) := by
  refine ⟨List.pairwise_append.mpr ⟨h1.1, h2.1, fun x hx y hy => ?_⟩, fun v hv => ?_⟩
  · exact Nat.lt_of_lt_of_le (h1.2 x hx).2 (h2.2 y hy).1
  · rcases List.mem_append.mp hv with hv | hv
    · exact ⟨(h1.2 v hv).1, Nat.lt_of_lt_of_le (h1.2 v hv).2 hbc⟩
    · exact ⟨Nat.le_trans hab (h2.2 v hv).1, (h2.2 v hv).2⟩

theorem Incr.cons {a b v : Nat} {L : List Nat} (hv : a ≤ v) (hvb : v < b) (h : Incr (v + 1) b L) : Incr a b (v :: L) := by
  refine ⟨List.pairwise_cons.mpr ⟨fun y hy => ?_, h.1⟩, fun w hw => ?_⟩
  · have := (h.2 y hy).1; omega
  · simp only [List.mem_cons] at hw
    rcases hw with rfl | hw
    · exact ⟨hv, hvb⟩
    · have := h.2 w hw; omega

theorem Incr.nodup {a b : Nat} {L : List Nat} (h : Incr a b L) : L.Nodup :=
  h.1.imp (fun hlt => Nat.ne_of_lt hlt)

theorem Incr.sublist {a b : Nat} {L L' : List Nat} (h : Incr a b L) (hs : L'.Sublist L) : Incr a b L' :=
  ⟨h.1.sublist hs, fun v hv => h.2 v (hs.subset hv)⟩

theorem Incr.le {a b : Nat} {L : List Nat} (h : Incr a b L) (hne : L ≠ []) : a < b := by
  cases L with
  | nil => exact absurd rfl hne
  | cons v r => have := h.2 v (by simp); omega

theorem incr_range' (a n : Nat) : Incr a (a + n) (List.range' a n) := by
  induction n generalizing a with
  | zero => exact Incr.nil _ _
  | succ n ih =>
    rw [List.range'_succ]
    refine Incr.cons (Nat.le_refl _) (by omega) ?_
    have := ih (a + 1)
    have e : a + 1 + n = a + (n + 1) := by omega
    rw [e] at this
    exact this

/-! ### names as seen from a later store -/

/-- `V` agrees with the store on the names of the allocated values -/
def NamesAgree (V : Nat → ValueS) (st : Store) : Prop := ∀ v, v < st.nv → (V v).name = (st.vals v).name

/-- every entry of the table is keyed by the name its value carries in `V` -/
def NamedV (V : Nat → ValueS) (T : Table) : Prop := ∀ e ∈ T, (V e.2).name = some e.1

theorem NamedV.of_named {V : Nat → ValueS} {st : Store} {T : Table} (h : Named st T) (hlt : TableLt st T)
    (hV : NamesAgree V st) : NamedV V T := fun e he => by rw [hV _ (hlt e he)]; exact h e he

theorem NamedV.nm {V : Nat → ValueS} {T : Table} (h : NamedV V T) {x : Name} {v : Nat} (hm : (x, v) ∈ T) :
    nm V v = x := nm_of_name (h _ hm)

theorem NamedV.cons {V : Nat → ValueS} {T : Table} (h : NamedV V T) {x : Name} {v : Nat}
    (hv : (V v).name = some x) : NamedV V ((x, v) :: T) := fun e he => by
  simp only [List.mem_cons] at he
  rcases he with rfl | he
  · exact hv
  · exact h e he

/-! ### the inputs of a node -/

theorem resolveInputs_names (outer : List Table) (vi : List (Name × Info)) (xs : List Name) :
    ∀ (st : Store) (top : Table),
      st.nv ≤ (resolveInputs st top outer vi xs).1.nv ∧
      ∀ v, v < st.nv → ((resolveInputs st top outer vi xs).1.vals v).name = (st.vals v).name := by
  induction xs with
  | nil => intro st top; exact ⟨Nat.le_refl _, fun _ _ => rfl⟩
  | cons x xs ih =>
    intro st top
    simp only [resolveInputs]
    split
    · exact ih st top
    · split
      · exact ih st top
      · obtain ⟨q, hnv⟩ := newNamed_quiet st vi x
        obtain ⟨h1, h2⟩ := ih (newNamed st vi x) ((x, st.nv) :: top)
        refine ⟨?_, fun v hv => ?_⟩
        · show st.nv ≤ (resolveInputs (newNamed st vi x) ((x, st.nv) :: top) outer vi xs).1.nv
          omega
        · show ((resolveInputs (newNamed st vi x) ((x, st.nv) :: top) outer vi xs).1.vals v).name = _
          rw [h2 v (by omega), q.names v hv]

theorem repl_resolveInputs (V : Nat → ValueS) (outer : List Table) (vi : List (Name × Info))
    (hO : ∀ T ∈ outer, NamedV V T) :
    ∀ (xs : List Name) (st : Store) (top : Table), NamedV V top →
      NamesAgree V (resolveInputs st top outer vi xs).1 →
      (replRes V outer top (resolveInputs st top outer vi xs).2.2).tbl = (resolveInputs st top outer vi xs).2.1 ∧
      (replRes V outer top (resolveInputs st top outer vi xs).2.2).ok ∧
      Incr st.nv (resolveInputs st top outer vi xs).1.nv (replRes V outer top (resolveInputs st top outer vi xs).2.2).new ∧
      NamedV V (resolveInputs st top outer vi xs).2.1 := by
  intro xs
  induction xs with
  | nil => intro st top hT _; exact ⟨rfl, trivial, Incr.nil _ _, hT⟩
  | cons x xs ih =>
    intro st top hT hV
    simp only [resolveInputs] at hV ⊢
    by_cases hx : x = ""
    · simp only [hx, if_true] at hV ⊢
      simp only [replRes]
      exact ih st top hT hV
    · simp only [hx, if_false] at hV ⊢
      cases hr : resolve x (top :: outer) with
      | some v =>
        simp only [hr] at hV ⊢
        obtain ⟨a, b, c, d⟩ := ih st top hT hV
        have hnm : nm V v = x := by
          obtain ⟨T', hT', hm⟩ := resolve_mem _ _ _ hr
          simp only [List.mem_cons] at hT'
          rcases hT' with rfl | hT'
          · exact hT.nm hm
          · exact (hO T' hT').nm hm
        have hname : (V v).name = some x := by
          obtain ⟨T', hT', hm⟩ := resolve_mem _ _ _ hr
          simp only [List.mem_cons] at hT'
          rcases hT' with rfl | hT'
          · exact hT _ hm
          · exact hO T' hT' _ hm
        simp only [replRes, hnm, hr]
        exact ⟨a, ⟨by simp [nameTruthy, hname, hx], trivial, b⟩, c, d⟩
      | none =>
        simp only [hr] at hV ⊢
        obtain ⟨q, hnv⟩ := newNamed_quiet st vi x
        obtain ⟨hle, hkeep⟩ := resolveInputs_names outer vi xs (newNamed st vi x) ((x, st.nv) :: top)
        have hname : (V st.nv).name = some x := by
          rw [hV st.nv (by omega), hkeep st.nv (by omega), newNamed_name]
        have hT' : NamedV V ((x, st.nv) :: top) := hT.cons hname
        obtain ⟨a, b, c, d⟩ := ih (newNamed st vi x) ((x, st.nv) :: top) hT' hV
        have hnm : nm V st.nv = x := nm_of_name hname
        simp only [replRes, hnm, hr]
        refine ⟨a, ⟨by simp [nameTruthy, hname, hx], b⟩, ?_, d⟩
        exact Incr.cons (Nat.le_refl _) (by omega) (by rw [hnv] at c; exact c)

/-! ### the outputs of a node -/

theorem repl_lookupOutputs (V : Nat → ValueS) (top : Table) (hT : NamedV V top) :
    ∀ (ys : List Name) (st st' : Store) (outs : List Nat), lookupOutputs st top ys = .ok (st', outs) →
      NamesAgree V st' →
      (∀ v ∈ outs, (V v).name ≠ none) ∧
      (∀ v ∈ outs, nameTruthy (V v).name = true → top.lookup (nm V v) = some v) ∧
      Incr st.nv st'.nv (outs.filter (fun v => !nameTruthy (V v).name)) ∧
      outs.filter (fun v => nameTruthy (V v).name) = (ys.filter (· ≠ "")).map (fun y => (top.lookup y).getD 0) := by
  intro ys
  induction ys with
  | nil =>
    intro st st' outs h _
    simp only [lookupOutputs, Except.ok.injEq, Prod.mk.injEq] at h
    obtain ⟨rfl, rfl⟩ := h
    exact ⟨by simp, by simp, Incr.nil _ _, rfl⟩
  | cons y ys ih =>
    intro st st' outs h hV
    simp only [lookupOutputs] at h
    by_cases hy : y = ""
    · simp only [hy, if_true] at h
      split at h
      · simp at h
      · rename_i st2 vs hrest
        simp only [Except.ok.injEq, Prod.mk.injEq, alloc_snd] at h
        obtain ⟨rfl, rfl⟩ := h
        obtain ⟨q, _⟩ := lookupOutputs_spec top ys _ _ _ hrest
        have hnv := q.nv_le
        simp only [alloc_nv] at hnv
        have hname : (V st.nv).name = some "" := by
          rw [hV st.nv (by omega), q.names st.nv (by simp)]
          simp
        obtain ⟨a, b, c, d⟩ := ih _ _ _ hrest hV
        have hf : nameTruthy (V st.nv).name = false := by simp [nameTruthy, hname]
        refine ⟨fun v hv => ?_, fun v hv ht => ?_, ?_, ?_⟩
        · simp only [List.mem_cons] at hv
          rcases hv with rfl | hv
          · rw [hname]; simp
          · exact a v hv
        · simp only [List.mem_cons] at hv
          rcases hv with rfl | hv
          · rw [hf] at ht; cases ht
          · exact b v hv ht
        · simp only [List.filter_cons, hf, Bool.not_false, if_true]
          exact Incr.cons (Nat.le_refl _) (by omega) (by simpa using c)
        · simp only [List.filter_cons, hf, hy, ne_eq, not_true_eq_false, decide_false, Bool.false_eq_true, if_false]
          exact d
    · simp only [hy, if_false] at h
      split at h
      · simp at h
      · rename_i v hl
        split at h
        · simp at h
        · rename_i st2 vs hrest
          simp only [Except.ok.injEq, Prod.mk.injEq] at h
          obtain ⟨rfl, rfl⟩ := h
          obtain ⟨a, b, c, d⟩ := ih _ _ _ hrest hV
          have hname : (V v).name = some y := hT _ (lookup_mem _ _ _ hl)
          have ht : nameTruthy (V v).name = true := by simp [nameTruthy, hname, hy]
          refine ⟨fun w hw => ?_, fun w hw htw => ?_, ?_, ?_⟩
          · simp only [List.mem_cons] at hw
            rcases hw with rfl | hw
            · rw [hname]; simp
            · exact a w hw
          · simp only [List.mem_cons] at hw
            rcases hw with rfl | hw
            · rw [nm_of_name hname]; exact hl
            · exact b w hw htw
          · simp only [List.filter_cons, ht, Bool.not_true, Bool.false_eq_true, if_false]
            exact c
          · simp only [List.filter_cons, ht, if_true, hy, ne_eq, not_false_eq_true, decide_true, List.map_cons, hl,
              Option.getD_some, d]

theorem stripTrailing_sublist (V : Nat → ValueS) : ∀ (l : List Nat), (stripTrailing V l).Sublist l := by
  intro l
  induction l with
  | nil => exact List.Sublist.slnil
  | cons a r ih =>
    simp only [stripTrailing]
    cases hs : stripTrailing V r with
    | nil =>
      simp only
      split
      · exact List.Sublist.cons_cons _ (List.nil_sublist _)
      · exact List.nil_sublist _
    | cons b t =>
      simp only
      rw [← hs]
      exact List.Sublist.cons_cons _ ih

theorem stripTrailing_filter_truthy (V : Nat → ValueS) : ∀ (l : List Nat),
    (stripTrailing V l).filter (fun v => nameTruthy (V v).name) = l.filter (fun v => nameTruthy (V v).name) := by
  intro l
  induction l with
  | nil => rfl
  | cons a r ih =>
    by_cases hs : stripTrailing V r = []
    · rw [stripTrailing_cons_nil V a r hs]
      rw [hs] at ih
      by_cases ht : nameTruthy (V a).name = true
      · simp [ht, List.filter_cons, ← ih]
      · have hf : nameTruthy (V a).name = false := by simpa using ht
        simp [hf, List.filter_cons, ← ih]
    · rw [stripTrailing_cons_ne V a r hs]
      simp only [List.filter_cons, ih]

/-! ### graph outputs -/

theorem deserOutputs_frame (tbl : Table) (os : List VInfoP) :
    ∀ (st : Store), ∀ w, w < st.nv → w ∉ tbl.map (·.2) → (deserOutputs st tbl os).1.vals w = st.vals w := by
  induction os with
  | nil => intro st w _ _; rfl
  | cons o os ih =>
    intro st w hw hn
    simp only [deserOutputs]
    split
    · rename_i v hv
      rw [ih _ w (by simpa using hw) hn]
      have hne : w ≠ v := fun e => hn (e ▸ List.mem_map_of_mem (lookup_mem _ _ _ hv))
      rw [modify_vals_ne _ _ _ hne]
    · rw [ih _ w (by simp; omega) hn, alloc_vals_lt _ _ hw]

theorem deserOutputs_names (tbl : Table) (os : List VInfoP) :
    ∀ (st : Store), st.nv ≤ (deserOutputs st tbl os).1.nv ∧
      (∀ w, w < st.nv → ((deserOutputs st tbl os).1.vals w).name = (st.vals w).name) ∧
      (∀ w, w < st.nv → ((deserOutputs st tbl os).1.vals w).const = (st.vals w).const) := by
  induction os with
  | nil => intro st; exact ⟨Nat.le_refl _, fun _ _ => rfl, fun _ _ => rfl⟩
  | cons o os ih =>
    intro st
    simp only [deserOutputs]
    split
    · rename_i v hv
      obtain ⟨a, b, c⟩ := ih (st.modify v fun c => { c with info := o.info })
      refine ⟨a, fun w hw => ?_, fun w hw => ?_⟩
      · rw [b w hw, modify_vals]; split <;> rfl
      · rw [c w hw, modify_vals]; split <;> rfl
    · obtain ⟨a, b, c⟩ := ih (st.alloc { name := some o.name, info := o.info }).1
      simp only [alloc_nv] at a b c
      refine ⟨?_, fun w hw => ?_, fun w hw => ?_⟩
      · show st.nv ≤ (deserOutputs (st.alloc { name := some o.name, info := o.info }).1 tbl os).1.nv
        omega
      · show ((deserOutputs (st.alloc { name := some o.name, info := o.info }).1 tbl os).1.vals w).name = _
        rw [b w (by omega), alloc_vals_lt _ _ hw]
      · show ((deserOutputs (st.alloc { name := some o.name, info := o.info }).1 tbl os).1.vals w).const = _
        rw [c w (by omega), alloc_vals_lt _ _ hw]

theorem repl_deserOutputs (V : Nat → ValueS) (tbl : Table) (hT : NamedV V tbl) :
    ∀ (os : List VInfoP) (st : Store), NamesAgree V (deserOutputs st tbl os).1 →
      (replOuts V tbl (deserOutputs st tbl os).2).ok ∧
      Incr st.nv (deserOutputs st tbl os).1.nv (replOuts V tbl (deserOutputs st tbl os).2).new := by
  intro os
  induction os with
  | nil => intro st _; exact ⟨trivial, Incr.nil _ _⟩
  | cons o os ih =>
    intro st hV
    simp only [deserOutputs] at hV ⊢
    cases hl : tbl.lookup o.name with
    | some v =>
      simp only [hl] at hV ⊢
      obtain ⟨a, b⟩ := ih _ hV
      have hname : (V v).name = some o.name := hT _ (lookup_mem _ _ _ hl)
      simp only [replOuts, nm_of_name hname, hl]
      exact ⟨⟨by rw [hname]; simp, trivial, a⟩, by simpa using b⟩
    | none =>
      simp only [hl, alloc_snd] at hV ⊢
      obtain ⟨a, b⟩ := ih _ hV
      obtain ⟨hle, hnames, _⟩ := deserOutputs_names tbl os (st.alloc { name := some o.name, info := o.info }).1
      simp only [alloc_nv] at hle hnames b
      have hname : (V st.nv).name = some o.name := by
        rw [hV st.nv (by omega), hnames st.nv (by omega)]
        simp
      simp only [replOuts, nm_of_name hname, hl]
      exact ⟨⟨by rw [hname]; simp, a⟩, Incr.cons (Nat.le_refl _) (by omega) b⟩

/-! ### declaring node outputs -/

theorem replDecl_filter (V : Nat → ValueS) : ∀ (L : List Nat) (T : Table),
    (replDecl V T L).tbl = (replDecl V T (L.filter (fun v => nameTruthy (V v).name))).tbl ∧
    (replDecl V T L).new = (replDecl V T (L.filter (fun v => nameTruthy (V v).name))).new ∧
    ((replDecl V T L).ok ↔ (replDecl V T (L.filter (fun v => nameTruthy (V v).name))).ok ∧ ∀ v ∈ L, (V v).name ≠ none) := by
  intro L
  induction L with
  | nil => intro T; simp [replDecl]
  | cons v r ih =>
    intro T
    by_cases ht : nameTruthy (V v).name = true
    · obtain ⟨a, b, c⟩ := ih ((nm V v, v) :: T)
      simp only [List.filter_cons, ht, if_true, replDecl]
      refine ⟨a, by rw [b], ?_⟩
      rw [c]
      constructor
      · rintro ⟨h1, h2, h3⟩
        refine ⟨⟨h1, h2⟩, fun w hw => ?_⟩
        simp only [List.mem_cons] at hw
        rcases hw with rfl | hw
        · exact ne_none_of_truthy ht
        · exact h3 w hw
      · rintro ⟨⟨h1, h2⟩, h3⟩
        exact ⟨h1, h2, fun w hw => h3 w (by simp [hw])⟩
    · have hf : nameTruthy (V v).name = false := by simpa using ht
      obtain ⟨a, b, c⟩ := ih T
      simp only [List.filter_cons, hf, Bool.false_eq_true, if_false, replDecl]
      refine ⟨a, b, ?_⟩
      rw [c]
      constructor
      · rintro ⟨h1, h2, h3⟩
        refine ⟨h2, fun w hw => ?_⟩
        simp only [List.mem_cons] at hw
        rcases hw with rfl | hw
        · exact h1
        · exact h3 w hw
      · rintro ⟨h2, h3⟩
        exact ⟨h3 v (by simp), h2, fun w hw => h3 w (by simp [hw])⟩

theorem declareOutputs_keep (vi : List (Name × Info)) (xs : List Name) :
    ∀ (st : Store) (tbl : Table) (st' : Store) (tbl' : Table), declareOutputs st tbl vi xs = .ok (st', tbl') →
      st.nv ≤ st'.nv ∧ (∀ v, v < st.nv → (st'.vals v).name = (st.vals v).name) ∧
      (∀ x v, tbl.lookup x = some v → tbl'.lookup x = some v) := by
  induction xs with
  | nil =>
    intro st tbl st' tbl' h
    simp only [declareOutputs, Except.ok.injEq, Prod.mk.injEq] at h
    obtain ⟨rfl, rfl⟩ := h
    exact ⟨Nat.le_refl _, fun _ _ => rfl, fun _ _ h => h⟩
  | cons x xs ih =>
    intro st tbl st' tbl' h
    simp only [declareOutputs] at h
    split at h
    · exact ih _ _ _ _ h
    · split at h
      · simp at h
      · rename_i hn
        obtain ⟨q, hnv⟩ := newNamed_quiet st vi x
        obtain ⟨a, b, c⟩ := ih _ _ _ _ h
        refine ⟨by omega, fun v hv => by rw [b v (by omega), q.names v hv], fun y v hy => ?_⟩
        apply c
        have hne : y ≠ x := fun e => by subst e; rw [hn] at hy; cases hy
        rw [lookup_cons_ne _ _ _ _ hne]; exact hy

theorem declareNodes_keep (vi : List (Name × Info)) (ns : List NodeP) :
    ∀ (st : Store) (tbl : Table) (st' : Store) (tbl' : Table), declareNodes st tbl vi ns = .ok (st', tbl') →
      st.nv ≤ st'.nv ∧ (∀ v, v < st.nv → (st'.vals v).name = (st.vals v).name) ∧
      (∀ x v, tbl.lookup x = some v → tbl'.lookup x = some v) := by
  induction ns with
  | nil =>
    intro st tbl st' tbl' h
    simp only [declareNodes, Except.ok.injEq, Prod.mk.injEq] at h
    obtain ⟨rfl, rfl⟩ := h
    exact ⟨Nat.le_refl _, fun _ _ => rfl, fun _ _ h => h⟩
  | cons n ns ih =>
    intro st tbl st' tbl' h
    simp only [declareNodes] at h
    split at h
    · simp at h
    · rename_i st1 tbl1 h1
      obtain ⟨a1, b1, c1⟩ := declareOutputs_keep vi _ _ _ _ _ h1
      obtain ⟨a2, b2, c2⟩ := ih _ _ _ _ h
      exact ⟨by omega, fun v hv => by rw [b2 v (by omega), b1 v hv], fun x v hx => c2 x v (c1 x v hx)⟩

/-- the declared values of the output names `xs`, read from a later scope -/
def declared (T : Table) (xs : List Name) : List Nat :=
  (xs.filter (· ≠ "")).map fun y => (T.lookup y).getD 0

theorem repl_declareOutputs (V : Nat → ValueS) (vi : List (Name × Info)) (Tf : Table) :
    ∀ (xs : List Name) (st : Store) (tbl : Table) (st' : Store) (tbl' : Table),
      declareOutputs st tbl vi xs = .ok (st', tbl') → NamesAgree V st' →
      (∀ x v, tbl'.lookup x = some v → Tf.lookup x = some v) →
      (replDecl V tbl (declared Tf xs)).tbl = tbl' ∧ (replDecl V tbl (declared Tf xs)).ok ∧
      (replDecl V tbl (declared Tf xs)).new = declared Tf xs ∧ Incr st.nv st'.nv (declared Tf xs) := by
  intro xs
  induction xs with
  | nil =>
    intro st tbl st' tbl' h _ _
    simp only [declareOutputs, Except.ok.injEq, Prod.mk.injEq] at h
    obtain ⟨rfl, rfl⟩ := h
    exact ⟨rfl, trivial, rfl, Incr.nil _ _⟩
  | cons x xs ih =>
    intro st tbl st' tbl' h hV hTf
    simp only [declareOutputs] at h
    by_cases hx : x = ""
    · simp only [hx, if_true] at h
      have : declared Tf ("" :: xs) = declared Tf xs := by simp [declared]
      rw [hx, this]
      exact ih _ _ _ _ h hV hTf
    · simp only [hx, if_false] at h
      split at h
      · simp at h
      · rename_i hn
        obtain ⟨q, hnv⟩ := newNamed_quiet st vi x
        obtain ⟨hle, hkeep, hlk⟩ := declareOutputs_keep vi _ _ _ _ _ h
        obtain ⟨a, b, c, d⟩ := ih _ _ _ _ h hV hTf
        have hhead : (Tf.lookup x).getD 0 = st.nv := by
          rw [hTf x st.nv (hlk x st.nv (lookup_cons_self _ _ _))]; rfl
        have hdecl : declared Tf (x :: xs) = st.nv :: declared Tf xs := by
          simp [declared, List.filter_cons, hx, hhead]
        have hname : (V st.nv).name = some x := by
          rw [hV st.nv (by omega), hkeep st.nv (by omega), newNamed_name]
        have ht : nameTruthy (V st.nv).name = true := by simp [nameTruthy, hname, hx]
        rw [hdecl]
        simp only [replDecl, ht, if_true, nm_of_name hname]
        exact ⟨a, ⟨hn, b⟩, by rw [c], Incr.cons (Nat.le_refl _) (by omega) (by rw [hnv] at d; exact d)⟩

theorem repl_declareNodes (V : Nat → ValueS) (vi : List (Name × Info)) (Tf : Table) :
    ∀ (ns : List NodeP) (st : Store) (tbl : Table) (st' : Store) (tbl' : Table),
      declareNodes st tbl vi ns = .ok (st', tbl') → NamesAgree V st' →
      (∀ x v, tbl'.lookup x = some v → Tf.lookup x = some v) →
      (replDecl V tbl (ns.flatMap fun n => declared Tf n.outputs)).tbl = tbl' ∧
      (replDecl V tbl (ns.flatMap fun n => declared Tf n.outputs)).ok ∧
      (replDecl V tbl (ns.flatMap fun n => declared Tf n.outputs)).new = (ns.flatMap fun n => declared Tf n.outputs) ∧
      Incr st.nv st'.nv (ns.flatMap fun n => declared Tf n.outputs) := by
  intro ns
  induction ns with
  | nil =>
    intro st tbl st' tbl' h _ _
    simp only [declareNodes, Except.ok.injEq, Prod.mk.injEq] at h
    obtain ⟨rfl, rfl⟩ := h
    exact ⟨rfl, trivial, rfl, Incr.nil _ _⟩
  | cons n ns ih =>
    intro st tbl st' tbl' h hV hTf
    simp only [declareNodes] at h
    split at h
    · simp at h
    · rename_i st1 tbl1 h1
      obtain ⟨le2, keep2, lk2⟩ := declareNodes_keep vi _ _ _ _ _ h
      obtain ⟨le1, _, _⟩ := declareOutputs_keep vi _ _ _ _ _ h1
      have hV1 : NamesAgree V st1 := fun v hv => by rw [hV v (by omega), keep2 v hv]
      obtain ⟨a1, b1, c1, d1⟩ := repl_declareOutputs V vi Tf n.outputs st tbl st1 tbl1 h1 hV1
        (fun x v hx => hTf x v (lk2 x v hx))
      obtain ⟨a2, b2, c2, d2⟩ := ih st1 tbl1 st' tbl' h hV hTf
      simp only [List.flatMap_cons]
      obtain ⟨at1, an1, ao1⟩ := replDecl_append V (declared Tf n.outputs) (ns.flatMap fun n => declared Tf n.outputs) tbl
      rw [at1, an1, ao1, a1, c1, c2]
      exact ⟨a2, ⟨b1, b2⟩, rfl, d1.append d2 le1 le2⟩

/-! ### initializers -/

/-- `{v.name: v for v in values}` on top of `d`, names read from `V` -/
def dictOf (V : Nat → ValueS) : List (Name × Nat) → List Nat → List (Name × Nat)
  | d, [] => d
  | d, v :: vs => dictOf V (dictInsert d (nm V v) v) vs

theorem initDict_eq_dictOf (V : Nat → ValueS) (st : Store) : ∀ (vs : List Nat) (d : List (Name × Nat)),
    (∀ v ∈ vs, (st.vals v).name = (V v).name) → initDict st d vs = dictOf V d vs := by
  intro vs
  induction vs with
  | nil => intro d _; rfl
  | cons v vs ih =>
    intro d h
    simp only [initDict, dictOf]
    rw [h v (by simp)]
    exact ih _ (fun w hw => h w (by simp [hw]))

theorem replInits_append (V : Nat → ValueS) (go : List Nat) : ∀ (l1 l2 : List (Name × Nat)) (T : Table),
    (replInits V go T (l1 ++ l2)).tbl = (replInits V go (replInits V go T l1).tbl l2).tbl ∧
    (replInits V go T (l1 ++ l2)).new = (replInits V go T l1).new ++ (replInits V go (replInits V go T l1).tbl l2).new ∧
    ((replInits V go T (l1 ++ l2)).ok ↔ (replInits V go T l1).ok ∧ (replInits V go (replInits V go T l1).tbl l2).ok) := by
  intro l1
  induction l1 with
  | nil => intro l2 T; simp [replInits]
  | cons e r ih =>
    obtain ⟨k, v⟩ := e
    intro l2 T
    simp only [List.cons_append, replInits]
    split
    · obtain ⟨a, b, c⟩ := ih l2 T
      refine ⟨a, b, ?_⟩
      rw [c]
      exact ⟨fun h => ⟨⟨h.1, h.2.1, h.2.2.1⟩, h.2.2.2⟩, fun h => ⟨h.1.1, h.1.2.1, h.1.2.2, h.2⟩⟩
    · obtain ⟨a, b, c⟩ := ih l2 ((k, v) :: T)
      refine ⟨a, by simp [b], ?_⟩
      rw [c]
      exact ⟨fun h => ⟨⟨h.1, h.2.1, h.2.2.1⟩, h.2.2.2⟩, fun h => ⟨h.1.1, h.1.2.1, h.1.2.2, h.2⟩⟩

theorem dictInsert_same (d : List (Name × Nat)) (k : Name) (v : Nat) (hm : (k, v) ∈ d) (hnd : (d.map (·.1)).Nodup) :
    dictInsert d k v = d := by
  induction d with
  | nil => simp at hm
  | cons e r ih =>
    obtain ⟨k', v'⟩ := e
    simp only [List.map_cons, List.nodup_cons, List.mem_map, not_exists, not_and] at hnd
    simp only [List.mem_cons, Prod.mk.injEq] at hm
    simp only [dictInsert]
    rcases hm with ⟨rfl, rfl⟩ | hm
    · simp
    · have hne : ¬ k' = k := fun e => hnd.1 (k, v) hm e.symm
      simp [hne, ih hm hnd.2]

theorem initInfo_full (vi : List (Name × Info)) (k : Name) (tp : TensorP) :
    (initInfo vi k tp).ty ≠ none ∧ (initInfo vi k tp).sh ≠ none := by
  unfold initInfo
  split
  · rename_i i _
    cases hty : i.ty <;> cases hsh : i.sh <;> simp [Info.orTensor, tensorInfo, hty, hsh]
  · simp [tensorInfo]

theorem deserInits_keep (vi : List (Name × Info)) (ts : List TensorP) :
    ∀ (st : Store) (tbl : Table),
      st.nv ≤ (deserInits st tbl vi ts).1.nv ∧
      (∀ v, v < st.nv → ((deserInits st tbl vi ts).1.vals v).name = (st.vals v).name) ∧
      (∀ v, v < st.nv → ((deserInits st tbl vi ts).1.vals v).info = (st.vals v).info) ∧
      (∀ v, v < st.nv → (st.vals v).const ≠ none → ((deserInits st tbl vi ts).1.vals v).const ≠ none) := by
  induction ts with
  | nil => intro st tbl; exact ⟨Nat.le_refl _, fun _ _ => rfl, fun _ _ => rfl, fun _ _ h => h⟩
  | cons t ts ih =>
    intro st tbl
    simp only [deserInits]
    split
    · exact ih st tbl
    · split
      · rename_i v hv
        obtain ⟨a, b, c, d⟩ := ih ((st.allocTensor { name := some t.name, data := t.data, ty := t.ty, sh := t.sh }).1.modify v
          fun c => { c with const := some st.nt }) tbl
        refine ⟨a, fun w hw => ?_, fun w hw => ?_, fun w hw hc => ?_⟩
        · rw [b w hw, modify_vals]; split <;> rfl
        · rw [c w hw, modify_vals]; split <;> rfl
        · apply d w hw
          rw [modify_vals]
          split
          · simp
          · exact hc
      · obtain ⟨q, hnv⟩ := newInit_quiet (st.allocTensor { name := some t.name, data := t.data, ty := t.ty, sh := t.sh }).1 vi t st.nt
        obtain ⟨nc1, nc2, nc3, _, _⟩ := newInit_cell (st.allocTensor { name := some t.name, data := t.data, ty := t.ty, sh := t.sh }).1 vi t st.nt
        have h0 : (st.allocTensor { name := some t.name, data := t.data, ty := t.ty, sh := t.sh }).1.nv = st.nv := rfl
        obtain ⟨a, b, c, d⟩ := ih (newInit (st.allocTensor { name := some t.name, data := t.data, ty := t.ty, sh := t.sh }).1 vi t st.nt)
          ((t.name, st.nv) :: tbl)
        rw [hnv, h0] at a b c d
        refine ⟨?_, fun w hw => ?_, fun w hw => ?_, fun w hw hc => ?_⟩
        · show st.nv ≤ (deserInits _ _ vi ts).1.nv
          omega
        · show ((deserInits _ _ vi ts).1.vals w).name = _
          rw [b w (by omega), nc3 w (by rw [h0]; omega)]; rfl
        · show ((deserInits _ _ vi ts).1.vals w).info = _
          rw [c w (by omega), nc3 w (by rw [h0]; omega)]; rfl
        · show ((deserInits _ _ vi ts).1.vals w).const ≠ none
          apply d w (by omega)
          rw [nc3 w (by rw [h0]; omega)]; exact hc

/-- after the initializer phase every initializer value has a tensor, and the values introduced by
    the phase have a type and a shape -/
theorem deserInits_cells (vi : List (Name × Info)) (ts : List TensorP) :
    ∀ (st : Store) (tbl : Table), TableLt st tbl →
      (∀ v ∈ (deserInits st tbl vi ts).2.2, ((deserInits st tbl vi ts).1.vals v).const ≠ none) ∧
      (∀ v ∈ (deserInits st tbl vi ts).2.2, st.nv ≤ v →
        ((deserInits st tbl vi ts).1.vals v).info.ty ≠ none ∧ ((deserInits st tbl vi ts).1.vals v).info.sh ≠ none) ∧
      (∀ v ∈ (deserInits st tbl vi ts).2.2, v < (deserInits st tbl vi ts).1.nv) := by
  induction ts with
  | nil => intro st tbl _; simp [deserInits]
  | cons t ts ih =>
    intro st tbl hlt
    simp only [deserInits]
    split
    · exact ih st tbl hlt
    · split
      · rename_i v hv
        have hvlt : v < st.nv := hlt _ (lookup_mem _ _ _ hv)
        obtain ⟨a, b, c⟩ := ih ((st.allocTensor { name := some t.name, data := t.data, ty := t.ty, sh := t.sh }).1.modify v
          fun c => { c with const := some st.nt }) tbl (fun e he => by simpa using hlt e he)
        obtain ⟨k1, _, _, k4⟩ := deserInits_keep vi ts ((st.allocTensor { name := some t.name, data := t.data, ty := t.ty, sh := t.sh }).1.modify v
          fun c => { c with const := some st.nt }) tbl
        refine ⟨fun w hw => ?_, fun w hw hge => ?_, fun w hw => ?_⟩
        · simp only [List.mem_cons] at hw
          rcases hw with rfl | hw
          · exact k4 w (by simpa using hvlt) (by simp [modify_vals])
          · exact a w hw
        · simp only [List.mem_cons] at hw
          rcases hw with rfl | hw
          · omega
          · exact b w hw (by simpa using hge)
        · simp only [List.mem_cons] at hw
          rcases hw with rfl | hw
          · simp only [modify_nv, allocTensor_nv] at k1
            show w < (deserInits _ _ vi ts).1.nv
            omega
          · exact c w hw
      · obtain ⟨q, hnv⟩ := newInit_quiet (st.allocTensor { name := some t.name, data := t.data, ty := t.ty, sh := t.sh }).1 vi t st.nt
        obtain ⟨nc1, nc2, nc3, _, _⟩ := newInit_cell (st.allocTensor { name := some t.name, data := t.data, ty := t.ty, sh := t.sh }).1 vi t st.nt
        have h0 : (st.allocTensor { name := some t.name, data := t.data, ty := t.ty, sh := t.sh }).1.nv = st.nv := rfl
        obtain ⟨a, b, c⟩ := ih (newInit (st.allocTensor { name := some t.name, data := t.data, ty := t.ty, sh := t.sh }).1 vi t st.nt)
          ((t.name, st.nv) :: tbl) (fun e he => by
            rw [hnv, h0]
            simp only [List.mem_cons] at he
            rcases he with rfl | he
            · simp
            · have := hlt e he; omega)
        obtain ⟨k1, _, k3, k4⟩ := deserInits_keep vi ts (newInit (st.allocTensor { name := some t.name, data := t.data, ty := t.ty, sh := t.sh }).1 vi t st.nt)
          ((t.name, st.nv) :: tbl)
        rw [hnv, h0] at k1 k3 k4 b
        refine ⟨fun w hw => ?_, fun w hw hge => ?_, fun w hw => ?_⟩
        · simp only [List.mem_cons] at hw
          rcases hw with rfl | hw
          · apply k4 st.nv (by omega)
            rw [← h0, nc2]; simp
          · exact a w hw
        · simp only [List.mem_cons] at hw
          rcases hw with rfl | hw
          · show ((deserInits _ _ vi ts).1.vals st.nv).info.ty ≠ none ∧ ((deserInits _ _ vi ts).1.vals st.nv).info.sh ≠ none
            rw [k3 st.nv (by omega), ← h0, nc1]
            exact initInfo_full vi t.name t
          · by_cases hw0 : w = st.nv
            · subst hw0
              show ((deserInits _ _ vi ts).1.vals st.nv).info.ty ≠ none ∧ ((deserInits _ _ vi ts).1.vals st.nv).info.sh ≠ none
              rw [k3 st.nv (by omega), ← h0, nc1]
              exact initInfo_full vi t.name t
            · exact b w hw (by omega)
        · simp only [List.mem_cons] at hw
          rcases hw with rfl | hw
          · show st.nv < (deserInits _ _ vi ts).1.nv
            omega
          · exact c w hw

theorem mem_keys_lookup {d : List (Name × Nat)} {k : Name} (h : k ∈ d.map (·.1)) : ∃ u, (k, u) ∈ d := by
  simp only [List.mem_map] at h
  obtain ⟨e, he, rfl⟩ := h
  exact ⟨e.2, he⟩

theorem repl_deserInits (V : Nat → ValueS) (go : List Nat) (vi : List (Name × Info)) (T0 : Table) :
    ∀ (ts : List TensorP) (st : Store) (tbl : Table) (d0 : List (Name × Nat)),
      (replInits V go T0 d0).tbl = tbl → (replInits V go T0 d0).ok → (d0.map (·.1)).Nodup →
      (∀ e ∈ d0, tbl.lookup e.1 = some e.2) → NamedV V tbl → TableLt st tbl →
      NamesAgree V (deserInits st tbl vi ts).1 →
      (∀ v ∈ (deserInits st tbl vi ts).2.2, (V v).const ≠ none) →
      (∀ v ∈ (deserInits st tbl vi ts).2.2, st.nv ≤ v → v ∉ go → (V v).info.ty ≠ none ∧ (V v).info.sh ≠ none) →
      (replInits V go T0 (dictOf V d0 (deserInits st tbl vi ts).2.2)).tbl = (deserInits st tbl vi ts).2.1 ∧
      (replInits V go T0 (dictOf V d0 (deserInits st tbl vi ts).2.2)).ok ∧
      (∃ N, (replInits V go T0 (dictOf V d0 (deserInits st tbl vi ts).2.2)).new = (replInits V go T0 d0).new ++ N ∧
        Incr st.nv (deserInits st tbl vi ts).1.nv N) ∧
      NamedV V (deserInits st tbl vi ts).2.1 ∧
      ((dictOf V d0 (deserInits st tbl vi ts).2.2).map (·.1)).Nodup := by
  intro ts
  induction ts with
  | nil =>
    intro st tbl d0 h1 h2 h3 _ h5 _ _ _ _
    exact ⟨h1, h2, ⟨[], by simp [deserInits, dictOf], Incr.nil _ _⟩, h5, h3⟩
  | cons t ts ih =>
    intro st tbl d0 h1 h2 h3 h4 h5 hlt hV hc hi
    simp only [deserInits] at hV hc hi ⊢
    by_cases hk : t.name = ""
    · simp only [hk, if_true] at hV hc hi ⊢
      exact ih st tbl d0 h1 h2 h3 h4 h5 hlt hV hc hi
    · simp only [hk, if_false] at hV hc hi ⊢
      cases hl : tbl.lookup t.name with
      | some v =>
        simp only [hl] at hV hc hi ⊢
        have hvname : (V v).name = some t.name := h5 _ (lookup_mem _ _ _ hl)
        have hnmv : nm V v = t.name := nm_of_name hvname
        have hvlt : v < st.nv := hlt _ (lookup_mem _ _ _ hl)
        simp only [dictOf, hnmv]
        have hlt' : TableLt ((st.allocTensor { name := some t.name, data := t.data, ty := t.ty, sh := t.sh }).1.modify v
            fun c => { c with const := some st.nt }) tbl := fun e he => by simpa using hlt e he
        by_cases hmem : t.name ∈ d0.map (·.1)
        · -- the key is already in the dict, with the same value
          obtain ⟨u, hu⟩ := mem_keys_lookup hmem
          have := h4 _ hu
          simp only at this
          rw [hl] at this
          have huv : v = u := Option.some.inj this
          subst huv
          rw [dictInsert_same d0 t.name v hu h3]
          exact ih _ tbl d0 h1 h2 h3 h4 h5 hlt' hV (fun w hw => hc w (by simp [hw]))
            (fun w hw hge => hi w (by simp [hw]) (by simpa using hge))
        · rw [dictInsert_fresh d0 t.name v hmem]
          obtain ⟨at1, an1, ao1⟩ := replInits_append V go d0 [(t.name, v)] T0
          have e1 : (replInits V go tbl [(t.name, v)]).tbl = tbl := by simp [replInits, hl]
          have e2 : (replInits V go tbl [(t.name, v)]).new = [] := by simp [replInits, hl]
          have e3 : (replInits V go tbl [(t.name, v)]).ok := by
            simp only [replInits, hl]
            exact ⟨⟨hvname, hk, hc v (by simp)⟩, trivial, trivial⟩
          rw [h1] at at1 an1 ao1
          have hres := ih _ tbl (d0 ++ [(t.name, v)]) (by rw [at1, e1]) (ao1.mpr ⟨h2, e3⟩)
            (by
              rw [List.map_append, List.nodup_append]
              exact ⟨h3, by simp, fun a ha b hb hab => by
                simp only [List.map_cons, List.map_nil, List.mem_singleton] at hb
                subst hb; subst hab; exact hmem ha⟩)
            (fun e he => by
              simp only [List.mem_append, List.mem_singleton] at he
              rcases he with he | rfl
              · exact h4 e he
              · exact hl)
            h5 hlt' hV (fun w hw => hc w (by simp [hw])) (fun w hw hge => hi w (by simp [hw]) (by simpa using hge))
          obtain ⟨r1, r2, ⟨N, r3, r4⟩, r5, r6⟩ := hres
          refine ⟨r1, r2, ⟨N, ?_, by simpa using r4⟩, r5, r6⟩
          rw [r3, an1, e2]; simp
      | none =>
        simp only [hl] at hV hc hi ⊢
        obtain ⟨q, hnv⟩ := newInit_quiet (st.allocTensor { name := some t.name, data := t.data, ty := t.ty, sh := t.sh }).1 vi t st.nt
        have h0 : (st.allocTensor { name := some t.name, data := t.data, ty := t.ty, sh := t.sh }).1.nv = st.nv := rfl
        obtain ⟨k1, k2, _, _⟩ := deserInits_keep vi ts (newInit (st.allocTensor { name := some t.name, data := t.data, ty := t.ty, sh := t.sh }).1 vi t st.nt)
          ((t.name, st.nv) :: tbl)
        rw [hnv, h0] at k1 k2
        have hvname : (V st.nv).name = some t.name := by
          rw [hV st.nv (by show st.nv < (deserInits _ _ vi ts).1.nv; omega)]
          show ((deserInits _ _ vi ts).1.vals st.nv).name = _
          rw [k2 st.nv (by omega), ← h0, newInit_name]
        have hnmv : nm V st.nv = t.name := nm_of_name hvname
        simp only [dictOf, hnmv]
        have hmem : t.name ∉ d0.map (·.1) := by
          intro hm
          obtain ⟨u, hu⟩ := mem_keys_lookup hm
          have := h4 _ hu
          simp only at this
          rw [hl] at this
          cases this
        rw [dictInsert_fresh d0 t.name st.nv hmem]
        obtain ⟨at1, an1, ao1⟩ := replInits_append V go d0 [(t.name, st.nv)] T0
        rw [h1] at at1 an1 ao1
        have e1 : (replInits V go tbl [(t.name, st.nv)]).tbl = (t.name, st.nv) :: tbl := by simp [replInits, hl]
        have e2 : (replInits V go tbl [(t.name, st.nv)]).new = [st.nv] := by simp [replInits, hl]
        have e3 : (replInits V go tbl [(t.name, st.nv)]).ok := by
          simp only [replInits, hl]
          exact ⟨⟨hvname, hk, hc st.nv (by simp)⟩, fun hgo => hi st.nv (by simp) (Nat.le_refl _) hgo, trivial⟩
        have hlt' : TableLt (newInit (st.allocTensor { name := some t.name, data := t.data, ty := t.ty, sh := t.sh }).1 vi t st.nt)
            ((t.name, st.nv) :: tbl) := fun e he => by
          rw [hnv, h0]
          simp only [List.mem_cons] at he
          rcases he with rfl | he
          · simp
          · have := hlt e he; omega
        have hres := ih _ ((t.name, st.nv) :: tbl) (d0 ++ [(t.name, st.nv)]) (by rw [at1, e1]) (ao1.mpr ⟨h2, e3⟩)
          (by
            rw [List.map_append, List.nodup_append]
            exact ⟨h3, by simp, fun a ha b hb hab => by
              simp only [List.map_cons, List.map_nil, List.mem_singleton] at hb
              subst hb; subst hab; exact hmem ha⟩)
          (fun e he => by
            simp only [List.mem_append, List.mem_singleton] at he
            rcases he with he | rfl
            · have hb := h4 e he
              have hne : e.1 ≠ t.name := fun heq => by rw [heq, hl] at hb; cases hb
              rw [lookup_cons_ne _ _ _ _ hne]; exact hb
            · exact lookup_cons_self _ _ _)
          (h5.cons hvname) hlt' hV (fun w hw => hc w (by simp [hw]))
          (fun w hw hge => hi w (by simp [hw]) (by rw [hnv, h0] at hge; omega))
        obtain ⟨r1, r2, ⟨N, r3, r4⟩, r5, r6⟩ := hres
        refine ⟨r1, r2, ⟨st.nv :: N, ?_, ?_⟩, r5, r6⟩
        · rw [r3, an1, e2]; simp
        · rw [hnv, h0] at r4
          exact Incr.cons (Nat.le_refl _) (by show st.nv < (deserInits _ _ vi ts).1.nv; omega) r4

/-! ### remaining frame facts of a deserializer run -/

theorem deserInputs_name_list (is : List VInfoP) : ∀ (st : Store),
    (deserInputs st is).2.map (fun v => ((deserInputs st is).1.vals v).name) = is.map (fun i => some i.name) := by
  induction is with
  | nil => intro st; rfl
  | cons i is ih =>
    intro st
    simp only [deserInputs, List.map_cons, alloc_snd]
    obtain ⟨q, _, _⟩ := deserInputs_spec (st.alloc { name := some i.name, info := i.info }).1 is
    congr 1
    · rw [q.names st.nv (by simp)]; simp
    · exact ih _

theorem tblIns_eq_inputTable (V : Nat → ValueS) (is : List VInfoP) (ins : List Nat)
    (h : ins.map (fun v => (V v).name) = is.map (fun i => some i.name)) : tblIns V ins = inputTable is ins := by
  have h2 : is.map (·.name) = ins.map (nm V) := by
    have := congrArg (List.map (fun o : Option Name => o.getD "")) h
    rw [List.map_map, List.map_map] at this
    exact this.symm
  simp only [tblIns, inputTable, h2]
  congr 1
  have key : ∀ (l : List Nat), (l.map (nm V)).zip l = l.map fun v => (nm V v, v) := by
    intro l
    induction l with
    | nil => rfl
    | cons a r ih => simp [ih]
  exact (key ins).symm

theorem deserOutputs_frame2 (tbl : Table) (os : List VInfoP) :
    ∀ (st : Store), ∀ w, w < st.nv → w ∉ (deserOutputs st tbl os).2 → (deserOutputs st tbl os).1.vals w = st.vals w := by
  induction os with
  | nil => intro st w _ _; rfl
  | cons o os ih =>
    intro st w hw hn
    simp only [deserOutputs] at hn ⊢
    split
    · rename_i v hv
      simp only [hv, List.mem_cons, not_or] at hn
      rw [ih _ w (by simpa using hw) hn.2, modify_vals_ne _ _ _ hn.1]
    · rename_i hv
      simp only [hv, alloc_snd, List.mem_cons, not_or] at hn
      rw [ih _ w (by simp; omega) hn.2, alloc_vals_lt _ _ hw]

theorem deserNode_prim2 (c : Nat) :
    ∀ (n : NodeP) (st : Store) (top : Table) (outer : List Table) (vi : List (Name × Info)) (b : Nat)
      (st' : Store) (top' : Table) (nt : NodeT),
      Fresh st → TblOK st b top → TablesLt st outer → b ≤ st.nv → c ≤ st.nv →
      deserNode st top outer vi n = .ok (st', top', nt) → Prim c st st'
  | .mk inputs outputs subs, st, top, outer, vi, b, st', top', nt, hf, hok, ho, hb, hc, h => by
    obtain ⟨st2, outs, st3, gs, h2, h3, rfl, rfl, _⟩ := deserNode_inv h
    obtain ⟨q1, ok1, _, _⟩ := resolveInputs_spec outer vi inputs st top b hok ho hb
    have f1 := q1.fresh hf
    obtain ⟨q2, _, _, _, _⟩ := lookupOutputs_spec _ outputs _ _ _ h2
    have f2 := q2.fresh f1
    have le1 : c ≤ (resolveInputs st top outer vi inputs).1.nv := Nat.le_trans hc q1.nv_le
    have le2 : c ≤ st2.nv := Nat.le_trans le1 q2.nv_le
    have hts : TablesLt st2 ((resolveInputs st top outer vi inputs).2.1 :: outer) :=
      TablesLt.cons (ok1.lt.mono q2.nv_le) (ho.mono (Nat.le_trans q1.nv_le q2.nv_le))
    have p1 := resolveInputs_prim c outer vi inputs st top hc
    have p2 := lookupOutputs_prim c _ outputs _ _ _ le1 h2
    have p3 := (deserSubs_prim subs st2 _ st3 gs f2 hts h3).weaken le2
    exact ((p1.trans p2).trans p3).trans (mkNode_prim c st3 _ outs gs)

theorem deserNodes_prim2 (c : Nat) :
    ∀ (ns : List NodeP) (st : Store) (top : Table) (outer : List Table) (vi : List (Name × Info)) (b : Nat)
      (st' : Store) (top' : Table) (nts : List NodeT),
      Fresh st → TblOK st b top → TablesLt st outer → b ≤ st.nv → c ≤ st.nv →
      deserNodes st top outer vi ns = .ok (st', top', nts) → Prim c st st'
  | [], st, top, outer, vi, b, st', top', nts, _, _, _, _, _, h => by
    simp only [deserNodes, Except.ok.injEq, Prod.mk.injEq] at h
    obtain ⟨rfl, rfl, rfl⟩ := h
    exact Prim.refl _ _
  | n :: ns, st, top, outer, vi, b, st', top', nts, hf, hok, ho, hb, hc, h => by
    obtain ⟨st1, top1, nt, nts', h1, h2, _⟩ := deserNodes_inv h
    obtain ⟨f1, m1, ok1, _⟩ := deserNode_struct n st top outer vi b st1 top1 nt hf hok ho hb h1
    have p1 := deserNode_prim2 c n st top outer vi b st1 top1 nt hf hok ho hb hc h1
    have p2 := deserNodes_prim2 c ns st1 top1 outer vi b st' top' nts' f1 ok1 (ho.mono m1.nv_le)
      (Nat.le_trans hb m1.nv_le) (Nat.le_trans hc m1.nv_le) h2
    exact p1.trans p2

/-! ### the certificate does not look at `node.graph` -/

theorem liveOuts_setGraph (V : Nat → ValueS) (gid : Nat) (n : NodeT) : liveOuts V (n.setGraph gid) = liveOuts V n := by
  obtain ⟨i, g, a, b, c⟩ := n; rfl

theorem flatMap_liveOuts_setGraph (V : Nat → ValueS) (gid : Nat) (ns : List NodeT) :
    (ns.map (NodeT.setGraph gid)).flatMap (liveOuts V) = ns.flatMap (liveOuts V) := by
  induction ns with
  | nil => rfl
  | cons n ns ih => simp only [List.map_cons, List.flatMap_cons, liveOuts_setGraph, ih]

theorem replNs_setGraph (V : Nat → ValueS) (outer : List Table) (gid : Nat) : ∀ (ns : List NodeT) (T : Table),
    replNs V outer T (ns.map (NodeT.setGraph gid)) = replNs V outer T ns := by
  intro ns
  induction ns with
  | nil => intro T; rfl
  | cons n ns ih =>
    intro T
    obtain ⟨i, g, a, b, c⟩ := n
    simp only [List.map_cons, NodeT.setGraph, replNs, replN, ih]

theorem replNs_live_names (V : Nat → ValueS) (outer : List Table) : ∀ (ns : List NodeT) (T : Table),
    (replNs V outer T ns).ok → ∀ v ∈ ns.flatMap (liveOuts V), (V v).name ≠ none := by
  intro ns
  induction ns with
  | nil => intro T _ v hv; simp at hv
  | cons n ns ih =>
    intro T hok v hv
    obtain ⟨i, g, a, b, c⟩ := n
    simp only [replNs, replN] at hok
    simp only [List.flatMap_cons, List.mem_append, liveOuts] at hv
    rcases hv with hv | hv
    · exact hok.1.2.1 v hv
    · exact ih _ hok.2 v hv

theorem flatMap_congr_map {α β : Type} {l1 : List α} {l2 : List β} {f : α → List Nat} {g : β → List Nat}
    (h : l1.map f = l2.map g) : l1.flatMap f = l2.flatMap g := by
  show (l1.map f).flatten = (l2.map g).flatten
  rw [h]

/-- `V` agrees with the store on type / shape / documentation and tensor of value `v` -/
def CellAgree (V : Nat → ValueS) (st : Store) (v : Nat) : Prop :=
  (V v).info = (st.vals v).info ∧ (V v).const = (st.vals v).const

theorem named_mono {st st' : Store} {T : Table} (h : Named st T) (hlt : TableLt st T)
    (hn : ∀ v, v < st.nv → (st'.vals v).name = (st.vals v).name) : Named st' T := h.keep hlt hn

/-! ### the deserializer satisfies the certificate -/

mutual
theorem deser_repl_graph :
    ∀ (p : GraphP) (st : Store) (outer : List Table) (st' : Store) (g : GraphT),
      Fresh st → TablesLt st outer → (∀ T ∈ outer, Named st T) → deserGraph st outer p = .ok (st', g) →
      ∀ (V : Nat → ValueS), NamesAgree V st' → (∀ v, st.nv ≤ v → v < st'.nv → CellAgree V st' v) →
        (replG V outer g).ok ∧ Incr st.nv st'.nv (replG V outer g).new
  | .mk inputs inits vinfo nodes outputs, st, outer, st', g, hf, ho, hon, h, V, hV, hC => by
    obtain ⟨st3, tbl3, st4, tbl4, ns, h3, h4, h5⟩ := deserGraph_inv h
    obtain ⟨q1, hnv1, hins⟩ := deserInputs_spec st inputs
    have ok1 := inputTable_ok st inputs
    have f1 := q1.fresh hf
    have n1 := deserInputs_named inputs st
    have hnl := deserInputs_name_list inputs st
    generalize hs1 : (deserInputs st inputs).1 = s1 at *
    generalize hin : (deserInputs st inputs).2 = ins at *
    obtain ⟨q2, ok2, stb2, miv⟩ := deserInits_spec (vinfoTable vinfo) inits s1 (inputTable inputs ins) st.nv ok1 q1.nv_le
    have f2 := q2.fresh f1
    have n2 := deserInits_named (vinfoTable vinfo) inits s1 _ n1 ok1.lt
    obtain ⟨cc1, cc2, cc3⟩ := deserInits_cells (vinfoTable vinfo) inits s1 (inputTable inputs ins) ok1.lt
    generalize hr2 : deserInits s1 (inputTable inputs ins) (vinfoTable vinfo) inits = r2 at *
    have le2 : st.nv ≤ r2.1.nv := Nat.le_trans q1.nv_le q2.nv_le
    obtain ⟨q3, ok3, stb3, m3, _⟩ := declareNodes_spec (vinfoTable vinfo) nodes _ _ st.nv st3 tbl3 ok2 le2 h3
    have f3 := q3.fresh f2
    have n3 := declareNodes_named (vinfoTable vinfo) nodes _ _ st3 tbl3 n2 ok2.lt h3
    have le3 : st.nv ≤ st3.nv := Nat.le_trans le2 q3.nv_le
    obtain ⟨f4, m4, ok4, stb4⟩ := deserNodes_struct nodes st3 tbl3 outer (vinfoTable vinfo) st.nv st4 tbl4 ns f3 ok3
      (ho.mono le3) le3 h4
    obtain ⟨_, n4⟩ := deserNodes_tree nodes st3 tbl3 outer (vinfoTable vinfo) st.nv st4 tbl4 ns f3 ok3
      (ho.mono le3) le3 n3 h4
    have p3 := declareNodes_prim r2.1.nv (vinfoTable vinfo) nodes r2.1 _ st3 _ (Nat.le_refl _) h3
    have p4 := deserNodes_prim2 st3.nv nodes st3 tbl3 outer (vinfoTable vinfo) st.nv st4 tbl4 ns f3 ok3 (ho.mono le3) le3
      (Nat.le_refl _) h4
    obtain ⟨q5, mo⟩ := deserOutputs_spec tbl4 outputs st4 st.nv ok4
    obtain ⟨_, _, o5c⟩ := deserOutputs_names tbl4 outputs st4
    have ofr := deserOutputs_frame tbl4 outputs st4
    have ofr2 := deserOutputs_frame2 tbl4 outputs st4
    generalize hr5 : deserOutputs st4 tbl4 outputs = r5 at *
    have le4 : st.nv ≤ st4.nv := Nat.le_trans le3 m4.nv_le
    obtain ⟨c1, _, _⟩ := mkGraph_fst_counters r5.1 ins r5.2 ns r2.2.2
    have hcell := mkGraph_cell r5.1 ins r5.2 ns r2.2.2
    have hsnd := mkGraph_snd r5.1 ins r5.2 ns r2.2.2
    have e1 : st' = (mkGraph r5.1 ins r5.2 ns r2.2.2).1 := by rw [h5]
    have e2 : g = (mkGraph r5.1 ins r5.2 ns r2.2.2).2 := by rw [h5]
    rw [e1] at hV hC ⊢
    rw [e2, hsnd]
    -- names, seen from `V`, at every stage
    have hV5 : NamesAgree V r5.1 := fun v hv => by rw [hV v (by rw [c1]; exact hv), hcell]
    have hV4 : NamesAgree V st4 := fun v hv => by
      rw [hV5 v (Nat.lt_of_lt_of_le hv q5.nv_le), q5.names v hv]
    have hV3 : NamesAgree V st3 := fun v hv => by
      rw [hV4 v (Nat.lt_of_lt_of_le hv m4.nv_le), m4.names v hv]
    have hV2 : NamesAgree V r2.1 := fun v hv => by
      rw [hV3 v (Nat.lt_of_lt_of_le hv q3.nv_le), q3.names v hv]
    have hV1 : NamesAgree V s1 := fun v hv => by
      rw [hV2 v (Nat.lt_of_lt_of_le hv q2.nv_le), q2.names v hv]
    -- cells, seen from `V`
    have hC5 : ∀ v, st.nv ≤ v → v < r5.1.nv → CellAgree V r5.1 v := fun v h1 h2 => by
      have := hC v h1 (by rw [c1]; exact h2)
      rw [CellAgree, hcell] at this
      exact this
    -- phase 1
    have hinsV : ins.map (fun v => (V v).name) = inputs.map (fun i => some i.name) := by
      rw [← hnl]
      apply List.map_congr_left
      intro v hv
      have hvlt : v < s1.nv := by
        rw [hins, List.mem_range'_1] at hv
        rw [hnv1]; omega
      exact hV1 v hvlt
    have E1 := tblIns_eq_inputTable V inputs ins hinsV
    have hins_n : ∀ v ∈ ins, (V v).name ≠ none := by
      intro v hv
      have : (V v).name ∈ ins.map (fun v => (V v).name) := List.mem_map_of_mem hv
      rw [hinsV, List.mem_map] at this
      obtain ⟨i, _, hi⟩ := this
      rw [← hi]; simp
    have I1 : Incr st.nv s1.nv ins := by
      rw [hins, hnv1]; exact incr_range' _ _
    -- phase 2
    have hinitlt : ∀ v ∈ r2.2.2, st.nv ≤ v ∧ v < r2.1.nv := by
      intro v hv
      obtain ⟨x, _, hx⟩ := miv v hv
      exact ⟨ok2.ge _ hx, ok2.lt _ hx⟩
    have hdict : mkGraphInits r5.1 ins r5.2 r2.2.2 = dictOf V [] r2.2.2 := by
      unfold mkGraphInits
      apply initDict_eq_dictOf
      intro v hv
      have hlt := (hinitlt v hv).2
      have hlt5 : v < r5.1.nv := Nat.lt_of_lt_of_le hlt (Nat.le_trans q3.nv_le (Nat.le_trans m4.nv_le q5.nv_le))
      rw [show ((setOwner (setOwner r5.1 r5.1.ng (fun c => { c with isIn := true }) ins) r5.1.ng
          (fun c => { c with isOut := true }) r5.2).vals v).name = (r5.1.vals v).name from
        (setOwner_name _ _ (fun c => { c with isOut := true }) (fun _ => rfl) _ _).trans
          (setOwner_name _ _ (fun c => { c with isIn := true }) (fun _ => rfl) _ _)]
      exact (hV5 v hlt5).symm
    have hconstV : ∀ v ∈ r2.2.2, (V v).const ≠ none := by
      intro v hv
      obtain ⟨hge, hlt⟩ := hinitlt v hv
      have hlt3 : v < st3.nv := Nat.lt_of_lt_of_le hlt q3.nv_le
      have hlt4 : v < st4.nv := Nat.lt_of_lt_of_le hlt3 m4.nv_le
      rw [(hC5 v hge (Nat.lt_of_lt_of_le hlt4 q5.nv_le)).2, o5c v hlt4, (p4.cell v hlt3).2, (p3.cell v hlt).2]
      exact cc1 v hv
    have hinfoV : ∀ v ∈ r2.2.2, s1.nv ≤ v → v ∉ r5.2 → (V v).info.ty ≠ none ∧ (V v).info.sh ≠ none := by
      intro v hv hge1 hno
      obtain ⟨hge, hlt⟩ := hinitlt v hv
      have hlt3 : v < st3.nv := Nat.lt_of_lt_of_le hlt q3.nv_le
      have hlt4 : v < st4.nv := Nat.lt_of_lt_of_le hlt3 m4.nv_le
      rw [(hC5 v hge (Nat.lt_of_lt_of_le hlt4 q5.nv_le)).1, ofr2 v hlt4 hno, (p4.cell v hlt3).1, (p3.cell v hlt).1]
      exact cc2 v hv hge1
    have RI := repl_deserInits V r5.2 (vinfoTable vinfo) (inputTable inputs ins) inits s1 (inputTable inputs ins) []
      (by simp [replInits]) (by simp [replInits]) (by simp) (fun _ he => by simp at he)
      (NamedV.of_named n1 ok1.lt hV1) ok1.lt (by rw [hr2]; exact hV2) (by rw [hr2]; exact hconstV)
      (by rw [hr2]; exact hinfoV)
    rw [hr2] at RI
    obtain ⟨ri1, ri2, ⟨N2, ri3, I2⟩, nv2, ri5⟩ := RI
    simp only [replInits, List.nil_append] at ri3
    -- phase 3 and the live outputs of the nodes
    have hdeclared : ∀ n ∈ nodes, ∀ y ∈ n.outputs, y ≠ "" → ∃ u, tbl3.lookup y = some u := by
      intro n hn y hy hne
      obtain ⟨_, v, hv, _⟩ := m3 y (by
        simp only [outNames, List.mem_filter, List.mem_flatMap]
        exact ⟨⟨n, hn, hy⟩, by simpa using hne⟩)
      exact ⟨v, hv⟩
    have hCN : ∀ v, st3.nv ≤ v → v < st4.nv → v ∉ tbl4.map (·.2) → CellAgree V st4 v := by
      intro v hge hlt hn
      have := hC5 v (Nat.le_trans le3 hge) (Nat.lt_of_lt_of_le hlt q5.nv_le)
      rw [CellAgree, ofr v hlt hn] at this
      exact this
    obtain ⟨rn1, rn2, I4, rn4⟩ := deser_repl_nodes nodes st3 tbl3 outer (vinfoTable vinfo) st.nv st4 tbl4 ns f3 ok3
      (ho.mono le3) le3 n3
      (fun T hT => named_mono (hon T hT) (ho T hT) (fun v hv => by
        rw [q3.names v (Nat.lt_of_lt_of_le hv le2), q2.names v (Nat.lt_of_lt_of_le hv q1.nv_le), q1.names v hv]))
      h4 hdeclared V hV4 hCN
    have RD := repl_declareNodes V (vinfoTable vinfo) tbl3 nodes r2.1 r2.2.1 st3 tbl3 h3 hV3 (fun _ _ h => h)
    obtain ⟨rd1, rd2, rd3, I3⟩ := RD
    have hlive : (ns.flatMap (liveOuts V)).filter (fun v => nameTruthy (V v).name) =
        nodes.flatMap (fun n => declared tbl3 n.outputs) := by
      rw [List.filter_flatMap]
      exact flatMap_congr_map rn4
    obtain ⟨df1, df2, df3⟩ := replDecl_filter V (ns.flatMap (liveOuts V)) r2.2.1
    rw [hlive] at df1 df2 df3
    -- phase 5
    have RO := repl_deserOutputs V tbl4 (NamedV.of_named n4 ok4.lt hV4) outputs st4 (by rw [hr5]; exact hV5)
    rw [hr5] at RO
    obtain ⟨ro1, I5⟩ := RO
    -- assemble
    simp only [replG, flatMap_liveOuts_setGraph, replNs_setGraph, E1, hdict, ri1, df1, rd1, rn1]
    refine ⟨⟨hins_n, ri5, ri2, ?_, rn2, ro1⟩, ?_⟩
    · exact df3.mpr ⟨rd2, replNs_live_names V outer ns tbl3 rn2⟩
    · rw [ri3, df2, rd3, c1]
      exact (((I1.append I2 q1.nv_le q2.nv_le).append I3 (Nat.le_trans q1.nv_le q2.nv_le) q3.nv_le).append I4
        le3 m4.nv_le).append I5 le4 q5.nv_le
theorem deser_repl_nodes :
    ∀ (nps : List NodeP) (st : Store) (top : Table) (outer : List Table) (vi : List (Name × Info)) (b : Nat)
      (st' : Store) (top' : Table) (nts : List NodeT),
      Fresh st → TblOK st b top → TablesLt st outer → b ≤ st.nv → Named st top → (∀ T ∈ outer, Named st T) →
      deserNodes st top outer vi nps = .ok (st', top', nts) →
      (∀ n ∈ nps, ∀ y ∈ n.outputs, y ≠ "" → ∃ u, top.lookup y = some u) →
      ∀ (V : Nat → ValueS), NamesAgree V st' →
        (∀ v, st.nv ≤ v → v < st'.nv → v ∉ top'.map (·.2) → CellAgree V st' v) →
        (replNs V outer top nts).tbl = top' ∧ (replNs V outer top nts).ok ∧
        Incr st.nv st'.nv (replNs V outer top nts).new ∧
        nts.map (fun n => (liveOuts V n).filter (fun v => nameTruthy (V v).name)) =
          nps.map (fun n => declared top n.outputs)
  | [], st, top, outer, vi, b, st', top', nts, _, _, _, _, _, _, h, _, V, _, _ => by
    simp only [deserNodes, Except.ok.injEq, Prod.mk.injEq] at h
    obtain ⟨rfl, rfl, rfl⟩ := h
    exact ⟨rfl, trivial, Incr.nil _ _, rfl⟩
  | n :: nps, st, top, outer, vi, b, st', top', nts, hf, hok, ho, hb, hn, hon, h, hdecl, V, hV, hC => by
    obtain ⟨st1, top1, nt, nts', h1, h2, rfl⟩ := deserNodes_inv h
    obtain ⟨f1, m1, ok1, stb1⟩ := deserNode_struct n st top outer vi b st1 top1 nt hf hok ho hb h1
    obtain ⟨_, n1⟩ := deserNode_tree n st top outer vi b st1 top1 nt hf hok ho hb hn h1
    obtain ⟨_, m2, _, stb2⟩ := deserNodes_struct nps st1 top1 outer vi b st' top' nts' f1 ok1
      (ho.mono m1.nv_le) (Nat.le_trans hb m1.nv_le) h2
    have p2 := deserNodes_prim2 st1.nv nps st1 top1 outer vi b st' top' nts' f1 ok1 (ho.mono m1.nv_le)
      (Nat.le_trans hb m1.nv_le) (Nat.le_refl _) h2
    have hV1 : NamesAgree V st1 := fun v hv => by rw [hV v (Nat.lt_of_lt_of_le hv m2.nv_le), m2.names v hv]
    have hon1 : ∀ T ∈ outer, Named st1 T := fun T hT => named_mono (hon T hT) (ho T hT) m1.names
    obtain ⟨a1, a2, a3, a4⟩ := deser_repl_node n st top outer vi b st1 top1 nt hf hok ho hb hn hon h1
      (fun y hy hne => hdecl n (by simp) y hy hne) V hV1
      (fun v hge hlt hnt => by
        have hnt' : v ∉ top'.map (·.2) := by
          intro hm
          simp only [List.mem_map] at hm
          obtain ⟨e, he, rfl⟩ := hm
          rcases stb2.grow e he with h' | h'
          · exact hnt (List.mem_map_of_mem h')
          · omega
        have := hC v hge (Nat.lt_of_lt_of_le hlt m2.nv_le) hnt'
        rw [CellAgree, (p2.cell v hlt).1, (p2.cell v hlt).2] at this
        exact this)
    obtain ⟨b1, b2, b3, b4⟩ := deser_repl_nodes nps st1 top1 outer vi b st' top' nts' f1 ok1 (ho.mono m1.nv_le)
      (Nat.le_trans hb m1.nv_le) n1 hon1 h2
      (fun n' hn' y hy hne => by
        obtain ⟨u, hu⟩ := hdecl n' (by simp [hn']) y hy hne
        exact ⟨u, stb1.lookup y u hu⟩)
      V hV
      (fun v hge hlt hnt => hC v (Nat.le_trans m1.nv_le hge) hlt hnt)
    simp only [replNs, a1]
    refine ⟨b1, ⟨a2, b2⟩, a3.append b3 m1.nv_le m2.nv_le, ?_⟩
    simp only [List.map_cons, a4, b4]
    congr 1
    apply List.map_congr_left
    intro n' hn'
    simp only [declared]
    apply List.map_congr_left
    intro y hy
    simp only [List.mem_filter, decide_eq_true_eq] at hy
    obtain ⟨u, hu⟩ := hdecl n' (by simp [hn']) y hy.1 hy.2
    rw [hu, stb1.lookup y u hu]
theorem deser_repl_node :
    ∀ (n : NodeP) (st : Store) (top : Table) (outer : List Table) (vi : List (Name × Info)) (b : Nat)
      (st' : Store) (top' : Table) (nt : NodeT),
      Fresh st → TblOK st b top → TablesLt st outer → b ≤ st.nv → Named st top → (∀ T ∈ outer, Named st T) →
      deserNode st top outer vi n = .ok (st', top', nt) →
      (∀ y ∈ n.outputs, y ≠ "" → ∃ u, top.lookup y = some u) →
      ∀ (V : Nat → ValueS), NamesAgree V st' →
        (∀ v, st.nv ≤ v → v < st'.nv → v ∉ top'.map (·.2) → CellAgree V st' v) →
        (replN V outer top nt).tbl = top' ∧ (replN V outer top nt).ok ∧
        Incr st.nv st'.nv (replN V outer top nt).new ∧
        (liveOuts V nt).filter (fun v => nameTruthy (V v).name) = declared top n.outputs
  | .mk inputs outputs subs, st, top, outer, vi, b, st', top', nt, hf, hok, ho, hb, hn, hon, h, hdecl, V, hV, hC => by
    obtain ⟨st2, outs, st3, gs, h2, h3, rfl, rfl, rfl⟩ := deserNode_inv h
    obtain ⟨q1, ok1, stb1, _⟩ := resolveInputs_spec outer vi inputs st top b hok ho hb
    have f1 := q1.fresh hf
    have n1 := resolveInputs_named outer vi inputs st top hn hok.lt
    obtain ⟨q2, _, _, _, _⟩ := lookupOutputs_spec _ outputs _ _ _ h2
    have f2 := q2.fresh f1
    have hts : TablesLt st2 ((resolveInputs st top outer vi inputs).2.1 :: outer) :=
      TablesLt.cons (ok1.lt.mono q2.nv_le) (ho.mono (Nat.le_trans q1.nv_le q2.nv_le))
    obtain ⟨f3, m3⟩ := deserSubs_struct subs st2 _ st3 gs f2 hts h3
    have hk := mkNode_keeps st3 (resolveInputs st top outer vi inputs).2.2 outs gs
    have hnv4 := mkNode_fst_nv st3 (resolveInputs st top outer vi inputs).2.2 outs gs
    have hV3 : NamesAgree V st3 := fun v hv => by rw [hV v (by rw [hnv4]; exact hv), (hk v).1]
    have hV2 : NamesAgree V st2 := fun v hv => by rw [hV3 v (Nat.lt_of_lt_of_le hv m3.nv_le), m3.names v hv]
    have hV1 : NamesAgree V (resolveInputs st top outer vi inputs).1 := fun v hv => by
      rw [hV2 v (Nat.lt_of_lt_of_le hv q2.nv_le), q2.names v hv]
    have hVst : NamesAgree V st := fun v hv => by rw [hV1 v (Nat.lt_of_lt_of_le hv q1.nv_le), q1.names v hv]
    have hOV : ∀ T ∈ outer, NamedV V T := fun T hT => NamedV.of_named (hon T hT) (ho T hT) hVst
    obtain ⟨a1, a2, a3, a4⟩ := repl_resolveInputs V outer vi hOV inputs st top (NamedV.of_named hn hok.lt hVst) hV1
    obtain ⟨b1, b2, b3, b4⟩ := repl_lookupOutputs V _ a4 outputs _ _ _ h2 hV2
    -- nested graphs
    have hon2 : ∀ T ∈ (resolveInputs st top outer vi inputs).2.1 :: outer, Named st2 T := by
      intro T hT
      simp only [List.mem_cons] at hT
      rcases hT with rfl | hT
      · exact named_mono n1 ok1.lt q2.names
      · exact named_mono (hon T hT) (ho T hT) (fun v hv => by
          rw [q2.names v (Nat.lt_of_lt_of_le hv q1.nv_le), q1.names v hv])
    obtain ⟨c1, c2⟩ := deser_repl_subs subs st2 _ st3 gs f2 hts hon2 h3 V hV3
      (fun v hge hlt => by
        have hnt : v ∉ (resolveInputs st top outer vi inputs).2.1.map (·.2) := by
          intro hm
          simp only [List.mem_map] at hm
          obtain ⟨e, he, rfl⟩ := hm
          have := ok1.lt e he
          have := q2.nv_le
          omega
        have := hC v (Nat.le_trans (Nat.le_trans q1.nv_le q2.nv_le) hge) (by rw [hnv4]; exact hlt) hnt
        rw [CellAgree, (hk v).2.1, (hk v).2.2.1] at this
        exact this)
    rw [mkNode_snd]
    simp only [replN, liveOuts, a1]
    refine ⟨trivial, ⟨a2, ?_, ?_, c1⟩, ?_, ?_⟩
    · intro v hv; exact b1 v (stripTrailing_sub V outs v hv)
    · intro v hv ht; exact b2 v (stripTrailing_sub V outs v hv) ht
    · rw [hnv4]
      refine (a3.append ?_ q1.nv_le q2.nv_le).append c2 (Nat.le_trans q1.nv_le q2.nv_le) m3.nv_le
      exact b3.sublist ((stripTrailing_sublist V outs).filter _)
    · rw [stripTrailing_filter_truthy, b4]
      simp only [declared, NodeP.outputs]
      apply List.map_congr_left
      intro y hy
      simp only [List.mem_filter, decide_eq_true_eq] at hy
      obtain ⟨u, hu⟩ := hdecl y hy.1 hy.2
      rw [hu, stb1.lookup y u hu]
theorem deser_repl_subs :
    ∀ (gps : List GraphP) (st : Store) (scopes : List Table) (st' : Store) (gts : List GraphT),
      Fresh st → TablesLt st scopes → (∀ T ∈ scopes, Named st T) → deserSubs st scopes gps = .ok (st', gts) →
      ∀ (V : Nat → ValueS), NamesAgree V st' → (∀ v, st.nv ≤ v → v < st'.nv → CellAgree V st' v) →
        (replGs V scopes gts).ok ∧ Incr st.nv st'.nv (replGs V scopes gts).new
  | [], st, scopes, st', gts, _, _, _, h, V, _, _ => by
    simp only [deserSubs, Except.ok.injEq, Prod.mk.injEq] at h
    obtain ⟨rfl, rfl⟩ := h
    exact ⟨trivial, Incr.nil _ _⟩
  | gp :: gps, st, scopes, st', gts, hf, hs, hon, h, V, hV, hC => by
    obtain ⟨st1, gt, gts', h1, h2, rfl⟩ := deserSubs_inv h
    obtain ⟨f1, m1⟩ := deserGraph_struct gp st scopes st1 gt hf hs h1
    obtain ⟨_, m2⟩ := deserSubs_struct gps st1 scopes st' gts' f1 (hs.mono m1.nv_le) h2
    have p2 := deserSubs_prim gps st1 scopes st' gts' f1 (hs.mono m1.nv_le) h2
    have hV1 : NamesAgree V st1 := fun v hv => by rw [hV v (Nat.lt_of_lt_of_le hv m2.nv_le), m2.names v hv]
    obtain ⟨a1, a2⟩ := deser_repl_graph gp st scopes st1 gt hf hs hon h1 V hV1
      (fun v hge hlt => by
        have := hC v hge (Nat.lt_of_lt_of_le hlt m2.nv_le)
        rw [CellAgree, (p2.cell v hlt).1, (p2.cell v hlt).2] at this
        exact this)
    obtain ⟨b1, b2⟩ := deser_repl_subs gps st1 scopes st' gts' f1 (hs.mono m1.nv_le)
      (fun T hT => named_mono (hon T hT) (hs T hT) m1.names) h2 V hV
      (fun v hge hlt => hC v (Nat.le_trans m1.nv_le hge) hlt)
    simp only [replGs]
    exact ⟨⟨a1, b1⟩, a2.append b2 m1.nv_le m2.nv_le⟩
end

/-- **every deserialized model is reloadable** -/
theorem deserialize_reloadable (p : GraphP) (w : World) (h : deserialize p = .ok w) : Reloadable w := by
  unfold deserialize at h
  split at h
  · simp at h
  · rename_i st g hg
    simp only [Except.ok.injEq] at h
    subst h
    obtain ⟨h1, h2⟩ := deser_repl_graph p {} [] st g (fun _ _ => rfl) (fun _ ht => by simp at ht)
      (fun _ ht => by simp at ht) hg st.vals (fun _ _ => rfl) (fun _ _ _ => ⟨rfl, rfl⟩)
    exact ⟨h1, h2.nodup⟩

end IrVerif.Scope

/-
Lemmas/InlineCall.lean — one call: the attribute map of the inliner agrees with the attribute binding
of the semantics (`attrSim_call`), and evaluating the instantiated body in the caller's environment
yields the results of the call (`instantiate_sound`).
-/
import IrVerif.Lemmas.InlineClone
namespace IrVerif.Inline
open IrVerif.Sem IrVerif.Passes
variable {Val : Type}

/-! ## attributes -/

theorem lookup_ne_cons {β : Type} {p k : String} {b : β} {l : List (String × β)} (h : p ≠ k) :
    List.lookup p ((k, b) :: l) = List.lookup p l := by
  have : (p == k) = false := by simpa using h
  simp [List.lookup_cons, this]

theorem lookup_eq_cons {β : Type} {p : String} {b : β} {l : List (String × β)} :
    List.lookup p ((p, b) :: l) = some b := by simp [List.lookup_cons]

theorem filterMap_congr' {α β : Type} {f g : α → Option β} : ∀ {l : List α}, (∀ x ∈ l, f x = g x) →
    l.filterMap f = l.filterMap g
  | [], _ => rfl
  | a :: l, h => by
    have h1 := h a (by simp)
    have h2 := filterMap_congr' (l := l) (fun x hx => h x (List.mem_cons_of_mem _ hx))
    cases hf : f a with
    | none => rw [List.filterMap_cons_none hf, List.filterMap_cons_none (h1 ▸ hf), h2]
    | some b => rw [List.filterMap_cons_some hf, List.filterMap_cons_some (h1 ▸ hf), h2]

theorem mem_of_lookup {β : Type} : ∀ {l : List (String × β)} {p : String} {x : β}, l.lookup p = some x → (p, x) ∈ l
  | [], _, _, h => by simp at h
  | (k, b) :: l, p, x, h => by
    by_cases hk : p = k
    · subst hk
      rw [lookup_eq_cons] at h
      simp only [Option.some.injEq] at h
      subst h; simp
    · rw [lookup_ne_cons hk] at h
      exact List.mem_cons_of_mem _ (mem_of_lookup h)

/-- the defaults looked up at a name that neither key set contains: the same default on both sides -/
theorem lookup_defaults (params : List (String × Option AttrData)) (K K' : List String) (p : String)
    (hK : K.contains p = false) (hK' : K'.contains p = false) :
    (params.filterMap (fun q => if K.contains q.1 then none else q.2.map (fun d => (q.1, FAttr.val d)))).lookup p =
    ((params.filterMap (fun q => if K'.contains q.1 then none else q.2.map (fun d => (q.1, d)))).lookup p).map FAttr.val := by
  induction params with
  | nil => simp
  | cons q rest ih =>
    obtain ⟨k, d⟩ := q
    cases d with
    | none =>
      rw [List.filterMap_cons_none (by simp), List.filterMap_cons_none (by simp)]; exact ih
    | some d =>
      by_cases hk : k = p
      · subst hk
        rw [List.filterMap_cons_some (b := (k, FAttr.val d)) (by dsimp only; rw [if_neg (by rw [hK]; exact Bool.false_ne_true)]; rfl),
          List.filterMap_cons_some (b := (k, d)) (by dsimp only; rw [if_neg (by rw [hK']; exact Bool.false_ne_true)]; rfl)]
        simp [lookup_eq_cons]
      · have hne : p ≠ k := fun h => hk h.symm
        have e1 : ((((k, some d) : String × Option AttrData) :: rest).filterMap (fun q => if K.contains q.1 then none
            else q.2.map (fun d => (q.1, FAttr.val d)))).lookup p =
            (rest.filterMap (fun q => if K.contains q.1 then none else q.2.map (fun d => (q.1, FAttr.val d)))).lookup p := by
          by_cases h1 : K.contains k = true
          · rw [List.filterMap_cons_none (by dsimp only; rw [if_pos h1])]
          · rw [List.filterMap_cons_some (b := (k, FAttr.val d)) (by dsimp only; rw [if_neg h1]; rfl), lookup_ne_cons hne]
        have e2 : ((((k, some d) : String × Option AttrData) :: rest).filterMap (fun q => if K'.contains q.1 then none
            else q.2.map (fun d => (q.1, d)))).lookup p =
            (rest.filterMap (fun q => if K'.contains q.1 then none else q.2.map (fun d => (q.1, d)))).lookup p := by
          by_cases h1 : K'.contains k = true
          · rw [List.filterMap_cons_none (by dsimp only; rw [if_pos h1])]
          · rw [List.filterMap_cons_some (b := (k, d)) (by dsimp only; rw [if_neg h1]; rfl), lookup_ne_cons hne]
        rw [e1, e2]; exact ih

theorem lookup_defaults_none (params : List (String × Option AttrData)) (K : List String) (p : String)
    (h : params.any (fun q => q.1 == p && q.2.isSome) = false) :
    (params.filterMap (fun q => if K.contains q.1 then none else q.2.map (fun d => (q.1, d)))).lookup p = none := by
  induction params with
  | nil => simp
  | cons q rest ih =>
    obtain ⟨k, d⟩ := q
    simp only [List.any_cons, Bool.or_eq_false_iff, Bool.and_eq_false_imp, beq_iff_eq] at h
    cases d with
    | none => rw [List.filterMap_cons_none (by simp)]; exact ih h.2
    | some d =>
      have hk : p ≠ k := fun hpk => by have := h.1 hpk.symm; simp at this
      by_cases h1 : K.contains k = true
      · rw [List.filterMap_cons_none (by dsimp only; rw [if_pos h1])]; exact ih h.2
      · rw [List.filterMap_cons_some (b := (k, d)) (by dsimp only; rw [if_neg h1]; rfl), lookup_ne_cons hk]; exact ih h.2

theorem resolve_lookup_none (α : List (String × AttrData)) : ∀ (cattrs : List (String × FAttr)) (p : String),
    (cattrs.map Prod.fst).contains p = false →
    (resolveAttrs α cattrs).lookup p = none ∧ ((resolveAttrs α cattrs).map Prod.fst).contains p = false
  | [], _, _ => by simp [resolveAttrs]
  | (k, x) :: rest, p, h => by
    simp only [List.map_cons, List.contains_cons, Bool.or_eq_false_iff, beq_eq_false_iff_ne] at h
    have ih := resolve_lookup_none α rest p h.2
    simp only [resolveAttrs] at ih ⊢
    simp only [List.filterMap_cons]
    cases hr : resolveAttr α (k, x) with
    | none => exact ih
    | some y =>
      have hy : y.1 = k := by
        cases x with
        | val a => simp only [resolveAttr, Option.some.injEq] at hr; rw [← hr]
        | ref q =>
          simp only [resolveAttr, Option.map_eq_some_iff] at hr
          obtain ⟨a, _, rfl⟩ := hr; rfl
      obtain ⟨y1, y2⟩ := y
      simp only at hy; subst hy
      simp only [List.map_cons, List.contains_cons, Bool.or_eq_false_iff, beq_eq_false_iff_ne]
      exact ⟨by rw [lookup_ne_cons h.1]; exact ih.1, h.1, ih.2⟩

theorem contains_false_of_lookup_none {β : Type} : ∀ (l : List (String × β)) (p : String), l.lookup p = none →
    (l.map Prod.fst).contains p = false
  | [], _, _ => by simp
  | (k, b) :: rest, p, h => by
    by_cases hk : p = k
    · subst hk; simp [lookup_eq_cons] at h
    · rw [lookup_ne_cons hk] at h
      simp only [List.map_cons, List.contains_cons, Bool.or_eq_false_iff, beq_eq_false_iff_ne]
      exact ⟨hk, contains_false_of_lookup_none rest p h⟩

/-- the first entry of the call's attributes named `p`, resolved -/
theorem resolve_lookup_some (α : List (String × AttrData)) : ∀ (cattrs : List (String × FAttr)) (p : String) (x : FAttr),
    (cattrs.map Prod.fst).Nodup → cattrs.lookup p = some x →
    (match x with
     | .val a => (resolveAttrs α cattrs).lookup p = some a
     | .ref q => (α.lookup q = none → (resolveAttrs α cattrs).lookup p = none ∧
          ((resolveAttrs α cattrs).map Prod.fst).contains p = false) ∧
        (∀ b, α.lookup q = some b → (resolveAttrs α cattrs).lookup p = some b))
  | [], _, _, _, h => by simp at h
  | (k, y) :: rest, p, x, hnd, h => by
    simp only [List.map_cons, List.nodup_cons] at hnd
    by_cases hk : p = k
    · subst hk
      rw [lookup_eq_cons] at h
      simp only [Option.some.injEq] at h
      subst h
      have hrest : (rest.map Prod.fst).contains p = false := by simpa using hnd.1
      have hr := resolve_lookup_none α rest p hrest
      cases y with
      | val a => simp [resolveAttrs, List.filterMap_cons, resolveAttr, lookup_eq_cons]
      | ref q =>
        simp only [resolveAttrs, List.filterMap_cons, resolveAttr] at hr ⊢
        refine ⟨fun hq => ?_, fun b hq => ?_⟩
        · simp only [hq, Option.map_none]; exact hr
        · simp only [hq, Option.map_some, lookup_eq_cons]
    · rw [lookup_ne_cons hk] at h
      have ih := resolve_lookup_some α rest p x hnd.2 h
      have hstep : ∀ l : List (String × AttrData), (resolveAttrs α ((k, y) :: rest)).lookup p = (resolveAttrs α rest).lookup p ∧
          (((resolveAttrs α rest).map Prod.fst).contains p = false →
            ((resolveAttrs α ((k, y) :: rest)).map Prod.fst).contains p = false) := by
        intro _
        simp only [resolveAttrs, List.filterMap_cons]
        cases hr : resolveAttr α (k, y) with
        | none => exact ⟨rfl, id⟩
        | some z =>
          have hz : z.1 = k := by
            cases y with
            | val a => simp only [resolveAttr, Option.some.injEq] at hr; rw [← hr]
            | ref q =>
              simp only [resolveAttr, Option.map_eq_some_iff] at hr
              obtain ⟨a, _, rfl⟩ := hr; rfl
          obtain ⟨z1, z2⟩ := z
          simp only at hz; subst hz
          refine ⟨lookup_ne_cons hk, fun h' => ?_⟩
          simp only [List.map_cons, List.contains_cons, Bool.or_eq_false_iff, beq_eq_false_iff_ne]
          exact ⟨hk, h'⟩
      obtain ⟨e1, e2⟩ := hstep []
      cases x with
      | val a => simp only at ih ⊢; rw [e1]; exact ih
      | ref q =>
        simp only at ih ⊢
        refine ⟨fun hq => ?_, fun b hq => ?_⟩
        · rw [e1]; exact ⟨(ih.1 hq).1, e2 (ih.1 hq).2⟩
        · rw [e1]; exact ih.2 b hq

/-- **the attribute map of `_instantiate_call` agrees with the attribute binding of the call**, provided
    the call's attribute names are distinct and no attribute of the call is a reference while the
    function declares a default for it -/
theorem attrSim_call (α : List (String × AttrData)) (params : List (String × Option AttrData))
    (cattrs : List (String × FAttr)) (hnd : (cattrs.map Prod.fst).Nodup)
    (href : ∀ p ∈ cattrs, match p.2 with
      | .val _ => True
      | .ref _ => params.any (fun q => q.1 == p.1 && q.2.isSome) = false) :
    AttrSim α (bindParams params (resolveAttrs α cattrs)) (attrMap params cattrs) := by
  intro attrs
  simp only [resolveAttrs, List.filterMap_filterMap]
  apply filterMap_congr'
  intro ⟨k, x⟩ _
  cases x with
  | val a => simp [cloneAttr, resolveAttr]
  | ref p =>
    simp only [cloneAttr, resolveAttr, attrMap, bindParams, List.lookup_append]
    cases hl : cattrs.lookup p with
    | none =>
      have hc := contains_false_of_lookup_none cattrs p hl
      obtain ⟨r1, r2⟩ := resolve_lookup_none α cattrs p hc
      simp only [resolveAttrs] at r1 r2
      rw [r1]
      simp only [Option.or_none, Option.none_or]
      rw [lookup_defaults params _ _ p hc r2]
      cases (List.filterMap (fun q => if (List.map Prod.fst (List.filterMap (resolveAttr α) cattrs)).contains q.1 = true
        then none else Option.map (fun d => (q.1, d)) q.2) params).lookup p <;> simp [resolveAttr]
    | some x =>
      have hx := resolve_lookup_some α cattrs p x hnd hl
      have hmem : (p, x) ∈ cattrs := mem_of_lookup hl
      simp only [Option.some_or]
      cases x with
      | val a =>
        simp only [resolveAttrs] at hx
        simp [hx, resolveAttr]
      | ref q =>
        simp only [resolveAttrs] at hx
        have hnodef := href (p, .ref q) hmem
        simp only at hnodef
        cases hq : α.lookup q with
        | none =>
          obtain ⟨r1, r2⟩ := hx.1 hq
          rw [r1]
          simp only [Option.none_or]
          rw [lookup_defaults_none params _ p hnodef]
          simp [resolveAttr, hq]
        | some b =>
          rw [hx.2 b hq]
          simp [resolveAttr, hq]


/-! ## function inputs ↦ call inputs -/

theorem bind_cons_ne (ρ : Env Val) {a v : VId} (h : v ≠ a) (vs : List VId) (r : Option Val) (rs : List (Option Val)) :
    ρ.bind (a :: vs) (r :: rs) v = ρ.bind vs rs v := by
  have h2 : (a == v) = false := by simpa using (fun h' : a = v => h h'.symm)
  simp only [Env.bind, List.mem_cons, h, false_or, List.idxOf_cons, h2, cond_false, List.getElem?_cons_succ]

theorem bind_cons_ne_nil (ρ : Env Val) {a v : VId} (h : v ≠ a) (vs : List VId) :
    ρ.bind (a :: vs) [] v = ρ.bind vs [] v := by
  simp [Env.bind, h]

theorem bind_cons_self (ρ : Env Val) (a : VId) (vs : List VId) (rs : List (Option Val)) :
    ρ.bind (a :: vs) rs a = (rs[0]?).join := by
  simp [Env.bind]

theorem mapV_cons_ne {a v : VId} (h : v ≠ a) (c : Option VId) (vm : VMap) : mapV ((a, c) :: vm) v = mapV vm v := by
  have : (v == a) = false := by simpa using h
  simp [mapV, List.lookup_cons, this]

theorem mapV_cons_self (a : VId) (c : Option VId) (vm : VMap) : mapV ((a, c) :: vm) a = c := by
  simp [mapV, List.lookup_cons]

theorem simT_zipPad (ρ : Env Val) : ∀ (vs : List VId) (cs : List (Option VId)),
    SimT (zipPad vs cs) (Env.empty.bind vs (evalArgs ρ cs)) ρ
  | [], cs => by
    intro v
    cases cs <;> simp [zipPad, mapV, Env.bind, Env.empty]
  | a :: vs, [] => by
    intro v
    have ih := simT_zipPad ρ vs [] v
    simp only [evalArgs, List.map_nil] at ih ⊢
    by_cases hv : v = a
    · subst hv
      rw [zipPad, mapV_cons_self, bind_cons_self]; rfl
    · rw [zipPad, mapV_cons_ne hv, bind_cons_ne_nil _ hv]; exact ih
  | a :: vs, c :: cs => by
    intro v
    have ih := simT_zipPad ρ vs cs v
    simp only [evalArgs, List.map_cons] at ih ⊢
    by_cases hv : v = a
    · subst hv
      rw [zipPad, mapV_cons_self, bind_cons_self]; simp
    · rw [zipPad, mapV_cons_ne hv, bind_cons_ne _ hv]; exact ih

theorem zipPad_range : ∀ (vs : List VId) (cs : List (Option VId)) (v w : VId),
    mapV (zipPad vs cs) v = some w → w ∈ cs.filterMap id
  | [], cs, v, w, h => by cases cs <;> simp [zipPad, mapV] at h
  | a :: vs, [], v, w, h => by
    by_cases hv : v = a
    · subst hv; rw [zipPad, mapV_cons_self] at h; simp at h
    · rw [zipPad, mapV_cons_ne hv] at h; exact zipPad_range vs [] v w h
  | a :: vs, c :: cs, v, w, h => by
    by_cases hv : v = a
    · subst hv
      rw [zipPad, mapV_cons_self] at h
      subst h; simp
    · rw [zipPad, mapV_cons_ne hv] at h
      have := zipPad_range vs cs v w h
      cases c with
      | none => simpa using this
      | some c => rw [List.filterMap_cons_some (b := c) (by rfl)]; exact List.mem_cons_of_mem _ this

theorem zipPad_isSome_subst (σ : Subst) : ∀ (vs : List VId) (cs : List (Option VId)) (v : VId),
    (mapV (zipPad vs (substIns σ cs)) v).isSome = (mapV (zipPad vs cs) v).isSome
  | [], cs, v => by cases cs <;> simp [zipPad, mapV, substIns]
  | a :: vs, [], v => by simp [substIns]
  | a :: vs, c :: cs, v => by
    have ih := zipPad_isSome_subst σ vs cs v
    simp only [substIns, List.map_cons] at ih ⊢
    by_cases hv : v = a
    · subst hv
      rw [zipPad, zipPad, mapV_cons_self, mapV_cons_self]
      cases c <;> rfl
    · rw [zipPad, zipPad, mapV_cons_ne hv, mapV_cons_ne hv]; exact ih

/-! ## one instantiated call -/

theorem evalNodesF_append (I : Interp Val) (Φ : FEnv Val) (α : List (String × AttrData)) :
    ∀ (a b : List FNode) (ρ : Env Val), evalNodesF I Φ α (a ++ b) ρ = evalNodesF I Φ α b (evalNodesF I Φ α a ρ)
  | [], _, _ => by simp [evalNodesF]
  | n :: a, b, ρ => by simp [evalNodesF, evalNodesF_append I Φ α a b]

/-- an Identity node that is not a call binds its output to the value of its input, present or absent -/
theorem evalNF_identity (I : Interp Val) (Φ : FEnv Val) (α : List (String × AttrData)) (hΦ : Φ identityOp = none)
    (o : Option VId) (out : VId) (ρ : Env Val) :
    evalNF I Φ α (.mk identityOp [] [o] [out] []) ρ = ρ.bind [out] [o.bind ρ] := by
  simp only [evalNF, hΦ, evalArgs, List.map_cons, List.map_nil]
  cases h : o.bind ρ with
  | none => simp [trimV, nodeResultsF, identityOp, isIdentityOp]
  | some a => simp [trimV, nodeResultsF, nodeResults, identityOp, isIdentityOp]

theorem bind_single_self (ρ : Env Val) (out : VId) (x : Option Val) : ρ.bind [out] [x] out = x := by
  simp [Env.bind]

theorem bind_single_ne (ρ : Env Val) {out u : VId} (x : Option Val) (h : u ≠ out) : ρ.bind [out] [x] u = ρ u := by
  simp [Env.bind, h]

/-- the Identity nodes that forward returned function inputs: each replacement value holds what the value map
    points to; nothing below `next` changes -/
theorem fwdOuts_sound (I : Interp Val) (Φ : FEnv Val) (α : List (String × AttrData)) (hΦ : Φ identityOp = none)
    (vm : VMap) : ∀ (vs produced : List VId) (next : Nat) (ρ : Env Val), VLt vm next →
    (fwdOuts vm produced vs next).outvals.map (evalNodesF I Φ α (fwdOuts vm produced vs next).nodes ρ) =
      vs.map (fun v => (mapV vm v).bind ρ) ∧
    (∀ u, u < next → evalNodesF I Φ α (fwdOuts vm produced vs next).nodes ρ u = ρ u) ∧
    next ≤ (fwdOuts vm produced vs next).next ∧
    (∀ w ∈ (fwdOuts vm produced vs next).outvals, w < (fwdOuts vm produced vs next).next ∧
      ((∃ v, mapV vm v = some w) ∨ next ≤ w))
  | [], produced, next, ρ, _ => by simp [fwdOuts, evalNodesF]
  | v :: vs, produced, next, ρ, hlt => by
    have hlt1 : VLt vm (next + 1) := fun v w hw => Nat.lt_succ_of_lt (hlt v w hw)
    have hstep : ∀ (x : Option Val) (produced' : List VId),
        (fwdOuts vm produced' vs (next + 1)).outvals.map
            (evalNodesF I Φ α (fwdOuts vm produced' vs (next + 1)).nodes (ρ.bind [next] [x])) =
          vs.map (fun v => (mapV vm v).bind ρ) := by
      intro x produced'
      rw [(fwdOuts_sound I Φ α hΦ vm vs produced' (next + 1) (ρ.bind [next] [x]) hlt1).1]
      apply List.map_congr_left
      intro v' _
      cases hm : mapV vm v' with
      | none => rfl
      | some w' =>
        simp only [Option.bind]
        exact bind_single_ne ρ x (Nat.ne_of_lt (hlt v' w' hm))
    rw [fwdOuts]
    split
    · rename_i w hw
      split
      · obtain ⟨h1, h2, h3, h4⟩ := fwdOuts_sound I Φ α hΦ vm vs produced next ρ hlt
        refine ⟨?_, h2, h3, ?_⟩
        · simp only [List.map_cons, h1, hw, Option.bind]
          rw [h2 w (hlt v w hw)]
        · intro u hu
          rcases List.mem_cons.1 hu with hu | hu
          · subst hu; exact ⟨Nat.lt_of_lt_of_le (hlt v u hw) h3, Or.inl ⟨v, hw⟩⟩
          · exact h4 u hu
      · obtain ⟨_, h2, h3, h4⟩ := fwdOuts_sound I Φ α hΦ vm vs (next :: produced) (next + 1)
          (ρ.bind [next] [ρ w]) hlt1
        simp only [evalNodesF, evalNF_identity I Φ α hΦ, Option.bind]
        refine ⟨?_, ?_, Nat.le_of_succ_le h3, ?_⟩
        · simp only [List.map_cons, hstep, hw, Option.bind]
          rw [h2 next (Nat.lt_succ_self _), bind_single_self]
        · intro u hu
          rw [h2 u (Nat.lt_succ_of_lt hu), bind_single_ne ρ _ (Nat.ne_of_lt hu)]
        · intro u hu
          rcases List.mem_cons.1 hu with hu | hu
          · subst hu; exact ⟨h3, Or.inr (Nat.le_refl _)⟩
          · obtain ⟨a, b⟩ := h4 u hu
            exact ⟨a, b.imp id Nat.le_of_succ_le⟩
    · rename_i hw
      obtain ⟨_, h2, h3, h4⟩ := fwdOuts_sound I Φ α hΦ vm vs produced (next + 1) (ρ.bind [next] [none]) hlt1
      simp only [evalNodesF, evalNF_identity I Φ α hΦ, Option.bind]
      refine ⟨?_, ?_, Nat.le_of_succ_le h3, ?_⟩
      · simp only [List.map_cons, hstep, hw, Option.bind]
        rw [h2 next (Nat.lt_succ_self _), bind_single_self]
      · intro u hu
        rw [h2 u (Nat.lt_succ_of_lt hu), bind_single_ne ρ _ (Nat.ne_of_lt hu)]
      · intro u hu
        rcases List.mem_cons.1 hu with hu | hu
        · subst hu; exact ⟨h3, Or.inr (Nat.le_refl _)⟩
        · obtain ⟨a, b⟩ := h4 u hu
          exact ⟨a, b.imp id Nat.le_of_succ_le⟩

/-- what `instantiate_sound` needs of the function -/
structure CallPre (f : Func) : Prop where
  nostoch : opsAllNodes (fun op => !isStochasticOp op) f.nodes = true
  subinits : subInitsOKNodes f.nodes = true
  closed : closedNodes (eraseNodes f.nodes) = true

/-- evaluating the instantiated body in the caller's environment: the values that replace the call's
    outputs hold the results of the call; nothing below `next` changes; the new values are below the new
    `next`, and each of them is new or an input of the call -/
theorem instantiate_sound (I : Interp Val) (Φ : FEnv Val) (α : List (String × AttrData)) (hΦ : Φ identityOp = none)
    (f : Func) (cattrs : List (String × FAttr)) (cins : List (Option VId)) (next : Nat) (ρ : Env Val)
    (hpre : CallPre f)
    (hnd : (cattrs.map Prod.fst).Nodup)
    (href : ∀ p ∈ cattrs, match p.2 with
      | .val _ => True
      | .ref _ => f.params.any (fun q => q.1 == p.1 && q.2.isSome) = false)
    (hins : ∀ v ∈ cins.filterMap id, v < next) :
    funcDen I Φ f (resolveAttrs α cattrs) (trimV (evalArgs ρ cins)) =
      (instantiate f cattrs cins next).outvals.map (fun w => evalNodesF I Φ α (instantiate f cattrs cins next).nodes ρ w) ∧
    (∀ w, w < next → evalNodesF I Φ α (instantiate f cattrs cins next).nodes ρ w = ρ w) ∧
    next ≤ (instantiate f cattrs cins next).next ∧
    (∀ w ∈ (instantiate f cattrs cins next).outvals, w < (instantiate f cattrs cins next).next ∧
      (w ∈ cins.filterMap id ∨ next ≤ w)) := by
  have hA := attrSim_call α f.params cattrs hnd href
  have hvlt : VLt (zipPad f.inputs cins) next := fun v w hw => hins w (zipPad_range _ _ v w hw)
  have hvf : VFrom (· ∈ cins.filterMap id) next (zipPad f.inputs cins) :=
    fun v w hw => Or.inl (zipPad_range _ _ v w hw)
  obtain ⟨k1, k2, k3, k4, _, k6⟩ := cloneNodes_sim I Φ α (bindParams f.params (resolveAttrs α cattrs))
    (attrMap f.params cattrs) hA (· ∈ cins.filterMap id) next f.nodes (zipPad f.inputs cins) next
    (Env.empty.bind f.inputs (evalArgs ρ cins)) ρ (simT_zipPad ρ f.inputs cins) hvlt hvf (Nat.le_refl _)
    hpre.nostoch hpre.subinits hpre.closed
  obtain ⟨f1, f2, f3, f4⟩ := fwdOuts_sound I Φ α hΦ
    (cloneNodes (attrMap f.params cattrs) (zipPad f.inputs cins) next f.nodes).2.1 f.outputs
    (outsTopF (cloneNodes (attrMap f.params cattrs) (zipPad f.inputs cins) next f.nodes).1)
    (cloneNodes (attrMap f.params cattrs) (zipPad f.inputs cins) next f.nodes).2.2
    (evalNodesF I Φ α (cloneNodes (attrMap f.params cattrs) (zipPad f.inputs cins) next f.nodes).1 ρ) k2
  refine ⟨?_, ?_, Nat.le_trans k3 f3, ?_⟩
  · simp only [funcDen, instantiate, bind_trimV, evalNodesF_append]
    rw [f1]
    apply List.map_congr_left
    intro v _
    exact k1 v
  · intro w hw
    simp only [instantiate, evalNodesF_append]
    rw [f2 w (Nat.lt_of_lt_of_le hw k3), k4 w hw]
  · intro w hw
    simp only [instantiate] at hw ⊢
    obtain ⟨a, b⟩ := f4 w hw
    refine ⟨a, ?_⟩
    rcases b with ⟨v, hv⟩ | b
    · exact k6 v w hv
    · exact Or.inr (Nat.le_trans k3 b)

end IrVerif.Inline

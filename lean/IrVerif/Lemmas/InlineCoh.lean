/-
Lemmas/InlineCoh.lean — coherence of the two semantics of C05: on a graph without calls to model-local
functions, without reference attributes and with well-formed Identity nodes, the function-call semantics
(`evalGF`, Model/Inline.lean) under an interpretation `I` IS the semantics of Model/Sem.lean (`evalG`) under the
interpretation `trimI I` that ignores trailing absent arguments.
-/
import IrVerif.Lemmas.InlineSem
namespace IrVerif.Inline
open IrVerif.Sem IrVerif.Passes
variable {Val : Type}

theorem trimV_nil_of_all_none : ∀ (l : List (Option Val)), (∀ a ∈ l, a = none) → trimV l = []
  | [], _ => rfl
  | a :: rest, h => by
    have h1 : a = none := h a (by simp)
    have h2 := trimV_nil_of_all_none rest (fun b hb => h b (List.mem_cons_of_mem _ hb))
    simp [trimV, h1, h2]

/-- trimming the evaluated arguments does not see whether trailing omitted inputs were dropped before -/
theorem trimV_evalArgs_trimNone (ρ : Env Val) : ∀ ins : List (Option VId),
    trimV (evalArgs ρ (trimNone ins)) = trimV (evalArgs ρ ins)
  | [] => rfl
  | a :: rest => by
    have ih := trimV_evalArgs_trimNone ρ rest
    rw [trimNone]
    split
    · rename_i h
      simp only [Bool.and_eq_true, Option.isNone_iff_eq_none, List.isEmpty_iff] at h
      have hr : trimV (evalArgs ρ rest) = [] := by rw [← ih, h.2]; rfl
      simp only [evalArgs, List.map_nil, List.map_cons, h.1, Option.bind] at hr ⊢
      simp [trimV, hr]
    · simp only [evalArgs, List.map_cons] at ih ⊢
      simp only [trimV, ih]

theorem resolveAttrs_noRefs (α : List (String × AttrData)) : ∀ (attrs : List (String × FAttr)),
    attrs.all (fun p => match p.2 with | .val _ => true | .ref _ => false) = true →
    resolveAttrs α attrs = attrs.map (fun p => (p.1, eraseAttr p.2))
  | [], _ => rfl
  | (k, x) :: rest, h => by
    simp only [List.all_cons, Bool.and_eq_true] at h
    have ih := resolveAttrs_noRefs α rest h.2
    cases x with
    | val a =>
      simp only [resolveAttrs] at ih ⊢
      simp [List.filterMap_cons, resolveAttr, eraseAttr, ih]
    | ref q => simp at h

/-- one node that is not a call -/
theorem nodeResultsF_trimI (I : Interp Val) (op : OpId) (attrs : List (String × AttrData)) (outs : List VId)
    (bodies : List (BodyFn Val)) (ρ : Env Val) (ins : List (Option VId))
    (hid : (!isIdentityOp op || (trimNone ins).length == 1) = true) :
    nodeResultsF I op attrs outs bodies (trimV (evalArgs ρ ins)) =
      nodeResults (trimI I) op attrs outs bodies (evalArgs ρ (trimNone ins)) := by
  by_cases hop : isIdentityOp op = true
  · have hlen : (trimNone ins).length = 1 := by simpa [hop] using hid
    obtain ⟨o, ho⟩ : ∃ o, trimNone ins = [o] := by
      cases h : trimNone ins with
      | nil => rw [h] at hlen; cases hlen
      | cons o t =>
        cases t with
        | nil => exact ⟨o, rfl⟩
        | cons _ _ => rw [h] at hlen; simp at hlen
    rw [← trimV_evalArgs_trimNone, ho]
    simp only [evalArgs, List.map_cons, List.map_nil]
    cases hv : o.bind ρ with
    | none => simp [trimV, nodeResultsF, nodeResults, hop]
    | some a => simp [trimV, nodeResultsF, nodeResults, hop]
  · have hop' : isIdentityOp op = false := by simpa using hop
    simp only [nodeResultsF, nodeResults, hop', Bool.false_and, trimI, trimV_evalArgs_trimNone]
    rfl

mutual
theorem evalGF_pure (I : Interp Val) (Φ : FEnv Val) (α : List (String × AttrData)) :
    ∀ (g : FGraph) (ρ : Env Val), opsAllG (fun op => (Φ op).isNone) g = true → noRefsG g = true → identOKG g = true →
    evalGF I Φ α g ρ = evalG (trimI I) (eraseG g) ρ
  | .mk inputs outputs inits nodes, ρ, h1, h2, h3 => by
    simp only [opsAllG] at h1
    simp only [noRefsG] at h2
    simp only [identOKG] at h3
    funext xs
    simp only [evalGF, eraseG, evalG]
    rw [evalNodesF_pure I Φ α nodes _ h1 h2 h3]
    rfl
theorem evalNodesF_pure (I : Interp Val) (Φ : FEnv Val) (α : List (String × AttrData)) :
    ∀ (ns : List FNode) (ρ : Env Val), opsAllNodes (fun op => (Φ op).isNone) ns = true → noRefsNodes ns = true →
    identOKNodes ns = true → evalNodesF I Φ α ns ρ = evalNodes (trimI I) (eraseNodes ns) ρ
  | [], _, _, _, _ => by simp [evalNodesF, evalNodes]
  | n :: ns, ρ, h1, h2, h3 => by
    simp only [opsAllNodes, Bool.and_eq_true] at h1
    simp only [noRefsNodes, Bool.and_eq_true] at h2
    simp only [identOKNodes, Bool.and_eq_true] at h3
    simp only [evalNodesF, eraseNodes_cons, evalNodes]
    rw [evalNF_pure I Φ α n ρ h1.1 h2.1 h3.1, evalNodesF_pure I Φ α ns _ h1.2 h2.2 h3.2]
theorem evalNF_pure (I : Interp Val) (Φ : FEnv Val) (α : List (String × AttrData)) :
    ∀ (n : FNode) (ρ : Env Val), opsAllN (fun op => (Φ op).isNone) n = true → noRefsN n = true →
    identOKN n = true → evalNF I Φ α n ρ = evalN (trimI I) (eraseN n) ρ
  | .mk op attrs ins outs bodies, ρ, h1, h2, h3 => by
    simp only [opsAllN, Bool.and_eq_true, Option.isNone_iff_eq_none] at h1
    simp only [noRefsN, Bool.and_eq_true] at h2
    simp only [identOKN, Bool.and_eq_true] at h3
    simp only [evalNF, eraseN, evalN, h1.1]
    rw [resolveAttrs_noRefs α attrs h2.1, evalBodiesF_pure I Φ α bodies ρ h1.2 h2.2 h3.2,
      nodeResultsF_trimI I op _ outs _ ρ ins h3.1]
theorem evalBodiesF_pure (I : Interp Val) (Φ : FEnv Val) (α : List (String × AttrData)) :
    ∀ (bs : List FGraph) (ρ : Env Val), opsAllBodies (fun op => (Φ op).isNone) bs = true → noRefsBodies bs = true →
    identOKBodies bs = true → evalBodiesF I Φ α bs ρ = evalBodies (trimI I) (eraseBodies bs) ρ
  | [], _, _, _, _ => by simp [evalBodiesF, evalBodies]
  | b :: bs, ρ, h1, h2, h3 => by
    simp only [opsAllBodies, Bool.and_eq_true] at h1
    simp only [noRefsBodies, Bool.and_eq_true] at h2
    simp only [identOKBodies, Bool.and_eq_true] at h3
    simp only [evalBodiesF, eraseBodies_cons, evalBodies]
    rw [evalGF_pure I Φ α b ρ h1.1 h2.1 h3.1, evalBodiesF_pure I Φ α bs ρ h1.2 h2.2 h3.2]
end

/-! ## the embedding of the IR of Model/Sem.lean -/

mutual
def liftG : Graph → FGraph
  | .mk inputs outputs inits nodes => .mk inputs outputs inits (liftNodes nodes)
def liftNodes : List Node → List FNode
  | [] => []
  | n :: ns => liftN n :: liftNodes ns
def liftN : Node → FNode
  | .mk op attrs ins outs bodies => .mk op (attrs.map (fun p => (p.1, FAttr.val p.2))) ins outs (liftBodies bodies)
def liftBodies : List Graph → List FGraph
  | [] => []
  | b :: bs => liftG b :: liftBodies bs
end

mutual
theorem erase_liftG : ∀ g : Graph, eraseG (liftG g) = g
  | .mk inputs outputs inits nodes => by simp only [liftG, eraseG, erase_liftNodes nodes]
theorem erase_liftNodes : ∀ ns : List Node, eraseNodes (liftNodes ns) = ns
  | [] => by simp [liftNodes]
  | n :: ns => by simp only [liftNodes, eraseNodes_cons, erase_liftN n, erase_liftNodes ns]
theorem erase_liftN : ∀ n : Node, eraseN (liftN n) = n
  | .mk op attrs ins outs bodies => by
    simp only [liftN, eraseN, erase_liftBodies bodies, List.map_map]
    congr 1
    conv => rhs; rw [← List.map_id attrs]
    apply List.map_congr_left
    intro p _
    simp [eraseAttr]
theorem erase_liftBodies : ∀ bs : List Graph, eraseBodies (liftBodies bs) = bs
  | [] => by simp [liftBodies]
  | b :: bs => by simp only [liftBodies, eraseBodies_cons, erase_liftG b, erase_liftBodies bs]
end

mutual
theorem noRefs_liftG : ∀ g : Graph, noRefsG (liftG g) = true
  | .mk inputs outputs inits nodes => by simp only [liftG, noRefsG, noRefs_liftNodes nodes]
theorem noRefs_liftNodes : ∀ ns : List Node, noRefsNodes (liftNodes ns) = true
  | [] => by simp [liftNodes, noRefsNodes]
  | n :: ns => by simp only [liftNodes, noRefsNodes, noRefs_liftN n, noRefs_liftNodes ns, Bool.and_self]
theorem noRefs_liftN : ∀ n : Node, noRefsN (liftN n) = true
  | .mk op attrs ins outs bodies => by
    simp only [liftN, noRefsN, noRefs_liftBodies bodies, Bool.and_true, List.all_map]
    simp
theorem noRefs_liftBodies : ∀ bs : List Graph, noRefsBodies (liftBodies bs) = true
  | [] => by simp [liftBodies, noRefsBodies]
  | b :: bs => by simp only [liftBodies, noRefsBodies, noRefs_liftG b, noRefs_liftBodies bs, Bool.and_self]
end

/-- a model of the IR of Model/Sem.lean as a model without functions of the function-call IR (calls to the
    model-local functions of `m` stay what they are in Model/Sem.lean: operators interpreted by `sem`) -/
def liftModel (m : Model) : FModel := ⟨liftG m.graph, [], []⟩

theorem fenv_nil (I : Interp Val) : ∀ d, fenv I [] d = fun _ => none
  | 0 => rfl
  | d + 1 => by funext op; simp [fenv, findFunc]

end IrVerif.Inline

/-
C15 part B+: the postcondition of NameFixPass for an arbitrary name generator — one `_fix_graph_names` call
(`fixTopX`) and the whole pass (`fixModelX`), the analogue of `Lemmas/NamesTotal.lean` / `Lemmas/NamesModel.lean`.
-/
import IrVerif.Lemmas.NamesGenNodes
namespace IrVerif.Names

variable {gen : NameGen}

theorem fixTopX_eq (w : TWorld) (t : Top) (glog : List (Bool × Nat)) :
    fixTopX gen w t glog
      = exitGraphX (runTrX gen t.body (enterGraphX gen (initX w t glog) t.gid t.isGraph t.ins t.outs (bodyOuts t.body))) := rfl

theorem initX_TInvG {w : TWorld} (t : Top) (glog : List (Bool × Nat)) (hok : InitsOk w.toWorld)
    (hf : ∀ v x, w.constOf v = some x → w.frozen x = false) : TInvG (topCfg w.toWorld t) (initX w t glog) :=
  ⟨rfl, hok, rfl, rfl, fun _ => Or.inl rfl, fun _ _ => rfl, fun _ _ => rfl, hf⟩

/-- one `_fix_graph_names` call with an arbitrary generator that never answers the empty string, on a well-scoped
graph without refusing tensors: the invariant holds at the end (no exception, dictionaries keyed by names, values
outside keep their names) and every scope list satisfies the postcondition -/
theorem fixTopX_scopes (hgen : gen.NonEmpty) {w : TWorld} {t : Top} (glog : List (Bool × Nat)) (hok : InitsOk w.toWorld)
    (hcl : Closed w.initOf t) (hf : ∀ v x, w.constOf v = some x → w.frozen x = false)
    (iv : Nat → List Nat) (hiv : ∀ g u, u ∈ iv g ↔ w.initOf u = some g)
    (hsc : scopedB iv t.tr [] [] = true) :
    TInvG (topCfg w.toWorld t) (fixTopX gen w t glog)
    ∧ ∀ L ∈ allScopes iv t.tr [], ScopeOKX (topCfg w.toWorld t) (fixTopX gen w t glog) L := by
  have hc := topCfg_OK hok hcl
  obtain ⟨hC1, hC2, hCb, _⟩ := (topCfg_HC w.toWorld t).graph
  have good0 : GoodX (topCfg w.toWorld t) (initX w t glog) [] :=
    { inj := fun a ha => by simp at ha, seen := fun u hu => by simp at hu, kept := fun v hv => by simp at hv
      first := FirstB.nil _ _
      top_iff := fun s => by simp [initX, topOf] }
  obtain ⟨l1, _⟩ := enterGraphX_Lvl hgen hc iv hiv (initX_TInvG t glog hok hf) good0 (S := []) (fun x => by simp [initX])
    t.gid t.isGraph t.ins t.outs (bodyOuts t.body) hC1 hC2 (fun v _ h => by simp at h)
    (fun v _ _ g u _ _ hu => by simp at hu)
  simp only [Top.tr, scopedB, Bool.and_eq_true] at hsc
  have fut : Fut (topCfg w.toWorld t) iv t.body ([] ++ gvals iv t.gid t.isGraph t.ins t.outs (bodyOuts t.body))
      ([] ++ gvals iv t.gid t.isGraph t.ins t.outs (bodyOuts t.body)) (fun _ => False) := by
    refine ⟨fun g hg => hg.elim, fun v hCv hnS g hg => Or.inl ?_⟩
    have hgt : g ∈ graphsOf t.tr := by
      rcases hCv with hm | ⟨g', hg', hio⟩
      · exact hcl v hm g hg
      · have : g' = g := Option.some.inj (hio.symm.trans hg)
        exact this ▸ hg'
    simp only [Top.tr, graphsOf, List.mem_append, List.not_mem_nil, or_false] at hgt
    rcases hgt with h | h
    · exfalso
      apply hnS
      cases hG : t.isGraph with
      | false => simp [hG] at h
      | true =>
        simp only [hG, if_true, List.mem_singleton] at h
        rw [h] at hg
        exact List.mem_append_right _ (iv_sub_gvals ((hiv t.gid v).mpr hg))
    · exact h
  obtain ⟨l2, _, s2⟩ := runTrX_Lvl hgen hc iv hiv t.body l1.inv l1.good l1.seenEq hCb hsc.1.2 fut
  obtain ⟨e3, _⟩ := exitGraphX_VEq l2.inv.nr
  rw [fixTopX_eq]
  refine ⟨l2.inv.of_VEqX e3, ?_⟩
  intro L hL
  simp only [Top.tr, allScopes, List.append_nil, List.mem_cons] at hL
  rcases hL with rfl | hL
  · exact l2.good.toScopeOKX.of_VEqX e3
  · exact (s2 L hL).of_VEqX e3

theorem fixTopX_nodes (hgen : gen.NonEmpty) {w : TWorld} {t : Top} (glog : List (Bool × Nat))
    (hnr : (fixTopX gen w t glog).raised = false) (hnd : (allNodes t.body).Nodup) :
    (∀ L ∈ allNodeScopes t.tr, NScopeOKX (topNCfg w.toWorld t) (fixTopX gen w t glog) L)
    ∧ ∀ m, m ∉ allNodes t.body → (fixTopX gen w t glog).nname m = w.nname m := by
  rw [fixTopX_eq] at hnr ⊢
  have h2 := raisedX_of (fun s h => exitGraphX_raised h) hnr
  have h1 := raisedX_of (fun s h => runTrX_raised t.body h) h2
  have h0 : (initX w t glog).raised = false := rfl
  obtain ⟨n1, k1, _, r1⟩ := enterGraphX_nodes (gen := gen) h0 t.gid t.isGraph t.ins t.outs (bodyOuts t.body)
  have g1 : NGoodX (topNCfg w.toWorld t) (enterGraphX gen (initX w t glog) t.gid t.isGraph t.ins t.outs (bodyOuts t.body)) [] :=
    { inj := fun a ha => by simp at ha, named := fun a ha => by simp at ha, kept := fun a ha => by simp at ha
      first := FirstB.nil _ _
      top_iff := fun s => by rw [k1]; simp [topOf]
      gen := fun a ha => by simp at ha }
  obtain ⟨g3, _, f3, _, s3⟩ := runTrX_nodes hgen (c := topNCfg w.toWorld t) t.body h2 (by rw [r1]; rfl) g1 hnd
    (fun m _ => ⟨by simp, by rw [n1]; rfl⟩)
    (fun m hm s hs hne => (collectTr_complete w.toWorld t.tr ([], [])).2.2 m (by simp [Top.tr, allNodes, hm]) s hs hne)
  obtain ⟨n4, _, _⟩ := exitGraphX_nodes h2
  refine ⟨?_, fun m hm => by rw [n4, f3 m hm, n1]; rfl⟩
  intro L hL
  simp only [Top.tr, allNodeScopes, List.append_nil, List.mem_cons] at hL
  rcases hL with rfl | hL
  · exact (by simpa using g3.toNScopeOKX : NScopeOKX _ _ (bodyNodes t.body)).of_eq (fun m _ => by rw [n4])
  · exact (s3 L hL).of_eq (fun m _ => by rw [n4])

/-! ### the whole pass -/

theorem fixModelX_cons {w : TWorld} {t : Top} {ts : List Top} {glog : List (Bool × Nat)}
    (h : (fixTopX gen w t glog).raised = false) :
    fixModelX gen w glog (t :: ts) =
      ⟨(fixModelX gen (fixTopX gen w t glog).tw (fixTopX gen w t glog).glog ts).w,
       (fixTopX gen w t glog).modified || (fixModelX gen (fixTopX gen w t glog).tw (fixTopX gen w t glog).glog ts).modified,
       (fixModelX gen (fixTopX gen w t glog).tw (fixTopX gen w t glog).glog ts).raised,
       (fixModelX gen (fixTopX gen w t glog).tw (fixTopX gen w t glog).glog ts).glog⟩ := by
  simp [fixModelX, h]

/-- the postcondition on one list: pairwise different non-empty names, unique names kept, first holder keeps -/
def PostOn (orig fin : Nat → Option String) (L : List Nat) : Prop :=
  InjT fin L ∧ KeptOn orig fin L ∧ FirstB orig fin L

/-- **the whole pass with an arbitrary generator** -/
theorem fixModelX_post (hgen : gen.NonEmpty) (iv : Nat → List Nat) :
    ∀ (tops : List Top) (w : TWorld) (glog : List (Bool × Nat)), InitsOk w.toWorld → (∀ v x, w.constOf v = some x → w.frozen x = false) →
    (∀ g u, u ∈ iv g ↔ w.initOf u = some g) →
    (∀ t ∈ tops, Closed w.initOf t ∧ scopedB iv t.tr [] [] = true ∧ (allNodes t.body).Nodup) →
    tops.Pairwise (TopDisj w.initOf) →
    (fixModelX gen w glog tops).raised = false
    ∧ (∀ u, (∀ t ∈ tops, ¬ TopC w.initOf t u) → (fixModelX gen w glog tops).w.vname u = w.vname u)
    ∧ (∀ m, (∀ t ∈ tops, m ∉ allNodes t.body) → (fixModelX gen w glog tops).w.nname m = w.nname m)
    ∧ ∀ t ∈ tops,
      (∀ L ∈ allScopes iv t.tr [], PostOn w.vname (fixModelX gen w glog tops).w.vname L)
      ∧ (∀ L ∈ allNodeScopes t.tr, PostOn w.nname (fixModelX gen w glog tops).w.nname L)
  | [], _, _, _, _, _, _, _ => ⟨rfl, fun _ _ => rfl, fun _ _ => rfl, fun t ht => by simp at ht⟩
  | t :: ts, w, glog, h, hf, hiv, hyp, hdisj => by
    obtain ⟨hcl, hsc, hnd⟩ := hyp t List.mem_cons_self
    obtain ⟨inv, sc⟩ := fixTopX_scopes hgen glog h hcl hf iv hiv hsc
    have nd := fixTopX_nodes hgen glog inv.nr hnd
    rw [fixModelX_cons inv.nr]
    have hio : (fixTopX gen w t glog).tw.initOf = w.initOf := inv.io
    rw [List.pairwise_cons] at hdisj
    have hyp' : ∀ t' ∈ ts, Closed (fixTopX gen w t glog).tw.initOf t' ∧ scopedB iv t'.tr [] [] = true ∧ (allNodes t'.body).Nodup :=
      fun t' ht' => by rw [hio]; exact hyp t' (List.mem_cons_of_mem _ ht')
    obtain ⟨r, fv, fn, per⟩ := fixModelX_post hgen iv ts (fixTopX gen w t glog).tw (fixTopX gen w t glog).glog inv.ok inv.nofz
      (fun g u => by rw [hio]; exact hiv g u) hyp' (by rw [hio]; exact hdisj.2)
    refine ⟨r, ?_, ?_, ?_⟩
    · intro u hu
      show (fixModelX gen (fixTopX gen w t glog).tw (fixTopX gen w t glog).glog ts).w.vname u = w.vname u
      rw [fv u (fun t' ht' => by rw [hio]; exact hu t' (List.mem_cons_of_mem _ ht'))]
      exact inv.outside u (hu t List.mem_cons_self)
    · intro m hm
      show (fixModelX gen (fixTopX gen w t glog).tw (fixTopX gen w t glog).glog ts).w.nname m = w.nname m
      rw [fn m (fun t' ht' => hm t' (List.mem_cons_of_mem _ ht'))]
      exact nd.2 m (hm t List.mem_cons_self)
    · intro t0 ht0
      rcases List.mem_cons.mp ht0 with rfl | ht0
      · -- the head: established by its own call, untouched afterwards
        constructor
        · intro L hL
          have hsub := scope_sub_TopC hiv hL
          have e : ∀ x ∈ L, (fixModelX gen (fixTopX gen w t0 glog).tw (fixTopX gen w t0 glog).glog ts).w.vname x
              = (fixTopX gen w t0 glog).vname x :=
            fun x hx => fv x (fun t' ht' => by rw [hio]; exact (hdisj.1 t' ht').1 x (hsub x hx))
          refine ⟨(⟨(sc L hL).inj, fun a ha => ((sc L hL).seen a ha).2⟩ : InjT (fixTopX gen w t0 glog).vname L).of_eq e, ?_,
            (sc L hL).first.fin_eq e⟩
          intro v hv h1 h2
          show (fixModelX gen (fixTopX gen w t0 glog).tw (fixTopX gen w t0 glog).glog ts).w.vname v = w.vname v
          rw [e v hv]; exact (sc L hL).kept v hv h1 h2
        · intro L hL
          have hsub : ∀ m ∈ L, m ∈ allNodes t0.body := by
            intro m hm
            have := allNodeScopes_sub t0.tr L hL m hm
            simpa [Top.tr, allNodes] using this
          have e : ∀ m ∈ L, (fixModelX gen (fixTopX gen w t0 glog).tw (fixTopX gen w t0 glog).glog ts).w.nname m
              = (fixTopX gen w t0 glog).nname m :=
            fun m hm => fn m (fun t' ht' => (hdisj.1 t' ht').2 m (hsub m hm))
          refine ⟨(⟨(nd.1 L hL).inj, (nd.1 L hL).named⟩ : InjT (fixTopX gen w t0 glog).nname L).of_eq e, ?_,
            (nd.1 L hL).first.fin_eq e⟩
          intro n hn h1 h2
          show (fixModelX gen (fixTopX gen w t0 glog).tw (fixTopX gen w t0 glog).glog ts).w.nname n = w.nname n
          rw [e n hn]; exact (nd.1 L hL).kept n hn h1 h2
      · -- a later top: by induction, its values were not touched by the head's call
        have ih := per t0 ht0
        constructor
        · intro L hL
          obtain ⟨i1, k1, f1⟩ := ih.1 L hL
          have hsub := scope_sub_TopC hiv hL
          have e : ∀ x ∈ L, (fixTopX gen w t glog).vname x = w.vname x :=
            fun x hx => inv.outside x (fun hc => (hdisj.1 t0 ht0).1 x hc (hsub x hx))
          refine ⟨i1, ?_, f1.orig_eq (fun x hx => (e x hx).symm)⟩
          intro v hv h1 h2
          have := k1 v hv (by rw [show (fixTopX gen w t glog).tw.vname v = (fixTopX gen w t glog).vname v from rfl, e v hv]; exact h1)
            (fun u hu huv => by
              rw [show (fixTopX gen w t glog).tw.vname u = (fixTopX gen w t glog).vname u from rfl,
                show (fixTopX gen w t glog).tw.vname v = (fixTopX gen w t glog).vname v from rfl, e u hu, e v hv]
              exact h2 u hu huv)
          show (fixModelX gen (fixTopX gen w t glog).tw (fixTopX gen w t glog).glog ts).w.vname v = w.vname v
          rw [this]; exact e v hv
        · intro L hL
          obtain ⟨i1, k1, f1⟩ := ih.2 L hL
          have hsub : ∀ m ∈ L, m ∈ allNodes t0.body := by
            intro m hm
            have := allNodeScopes_sub t0.tr L hL m hm
            simpa [Top.tr, allNodes] using this
          have e : ∀ m ∈ L, (fixTopX gen w t glog).nname m = w.nname m :=
            fun m hm => nd.2 m (fun hc => (hdisj.1 t0 ht0).2 m hc (hsub m hm))
          refine ⟨i1, ?_, f1.orig_eq (fun x hx => (e x hx).symm)⟩
          intro n hn h1 h2
          have := k1 n hn (by rw [show (fixTopX gen w t glog).tw.nname n = (fixTopX gen w t glog).nname n from rfl, e n hn]; exact h1)
            (fun u hu hun => by
              rw [show (fixTopX gen w t glog).tw.nname u = (fixTopX gen w t glog).nname u from rfl,
                show (fixTopX gen w t glog).tw.nname n = (fixTopX gen w t glog).nname n from rfl, e u hu, e n hn]
              exact h2 u hu hun)
          show (fixModelX gen (fixTopX gen w t glog).tw (fixTopX gen w t glog).glog ts).w.nname n = w.nname n
          rw [this]; exact e n hn

end IrVerif.Names

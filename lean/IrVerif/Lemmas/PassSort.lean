/-
C14 <-> C12: the flag of TopologicalSortPass on C12's model of the pass (`Sort.passEffect`).
Imports C12's property file read-only.
-/
import IrVerif.Props.C12
import IrVerif.Model.PassInfra
namespace IrVerif.PassInfra
open IrVerif.Sort

theorem zip_any_ne' : ∀ (a b : List Nat), a.length = b.length →
    (a.zip b).any (fun q => q.1 != q.2) = false → a = b
  | [], [], _, _ => rfl
  | [], _ :: _, h, _ => by simp at h
  | _ :: _, [], h, _ => by simp at h
  | x :: a, y :: b, hl, h => by
    simp only [List.zip_cons_cons, List.any_cons, Bool.or_eq_false_iff, bne_eq_false_iff_eq] at h
    rw [h.1, zip_any_ne' a b (by simpa using hl) h.2]

theorem sortFlag_eq_of_false : ∀ (before after : List (List Nat)),
    before.map List.length = after.map List.length →
    sortFlag before after = false → before = after
  | [], [], _, _ => rfl
  | [], _ :: _, h, _ => by simp at h
  | _ :: _, [], h, _ => by simp at h
  | a :: before, b :: after, hl, h => by
    simp only [List.map_cons, List.cons.injEq] at hl
    simp only [sortFlag, List.zip_cons_cons, List.any_cons, Bool.or_eq_false_iff] at h
    rw [zip_any_ne' a b hl.1 h.1, sortFlag_eq_of_false before after hl.2 h.2]

theorem sortFlag_self : ∀ (l : List (List Nat)), sortFlag l l = false
  | [] => rfl
  | a :: l => by
    have ih := sortFlag_self l
    simp only [sortFlag, List.zip_cons_cons, List.any_cons, Bool.or_eq_false_iff] at ih ⊢
    refine ⟨?_, ih⟩
    induction a with
    | nil => rfl
    | cons x a iha => simp [iha]

/-- graph by graph: same graph id, an arrangement of the same nodes -/
def Arr (og cg : Nat × List Nat) : Prop := cg.1 = og.1 ∧ cg.2.Perm og.2

theorem arr_inner_eq : ∀ {xs ys : List (Nat × List Nat)}, List.Forall₂ Arr xs ys →
    xs.map (·.2) = ys.map (·.2) → xs = ys
  | _, _, .nil, _ => rfl
  | _, _, .cons (a := a) (b := b) hab hrest, h => by
    simp only [List.map_cons, List.cons.injEq] at h
    have := arr_inner_eq hrest h.2
    obtain ⟨a1, a2⟩ := a
    obtain ⟨b1, b2⟩ := b
    simp only [Arr] at hab
    simp only at h
    rw [this]
    congr 1
    exact Prod.ext hab.1.symm h.1

theorem arr_lengths : ∀ {xs ys : List (Nat × List Nat)}, List.Forall₂ Arr xs ys →
    (xs.map (·.2)).map List.length = (ys.map (·.2)).map List.length ∧ xs.length = ys.length
  | _, _, .nil => ⟨rfl, rfl⟩
  | _, _, .cons hab hrest => by
    have := arr_lengths hrest
    simp only [List.map_cons, List.length_cons, this.1, this.2, hab.2.length_eq]
    exact ⟨trivial, trivial⟩

theorem arr_outer_lengths : ∀ {X Y : List (List (Nat × List Nat))},
    List.Forall₂ (List.Forall₂ Arr) X Y →
    (flatOrders X).map List.length = (flatOrders Y).map List.length
  | _, _, .nil => rfl
  | _, _, .cons hab hrest => by
    have h1 := (arr_lengths hab).1
    have h2 := arr_outer_lengths hrest
    simp only [flatOrders, List.flatten_cons, List.map_append] at h2 ⊢
    rw [h1, h2]

theorem arr_outer_eq : ∀ {X Y : List (List (Nat × List Nat))},
    List.Forall₂ (List.Forall₂ Arr) X Y → flatOrders X = flatOrders Y → X = Y
  | _, _, .nil, _ => rfl
  | _, _, .cons (a := xs) (b := ys) hab hrest, h => by
    simp only [flatOrders, List.flatten_cons, List.map_append] at h
    have hlen : (xs.map (·.2)).length = (ys.map (·.2)).length := by
      simp [(arr_lengths hab).2]
    obtain ⟨h1, h2⟩ := List.append_inj h hlen
    rw [arr_inner_eq hab h1, arr_outer_eq hrest h2]

/-- what the pass leaves behind is, graph by graph, an arrangement of what was there -/
theorem passEffect_arr (gs : List MGraph) (hwf : ∀ g ∈ gs, WF g) (hok : (passEffect gs).1 = false) :
    (passEffect gs).2 = gs.map (fun g => (sortEffect g).2) ∧
    List.Forall₂ (List.Forall₂ Arr) (gs.map graphsOf) (passEffect gs).2 := by
  have h2 := (C12_pass_result gs).2 hok
  refine ⟨h2, ?_⟩
  rw [h2, List.forall₂_map_left_iff, List.forall₂_map_right_iff, List.forall₂_same]
  intro g hg
  exact (sortEffect_rearranged g (hwf g hg)).imp (fun _ _ h => h.1)

end IrVerif.PassInfra

/-
Lemmas/SemDce.lean — RemoveUnusedNodesPass model (`dceG`, `dceModel`) preserves the denotation.
-/
import IrVerif.Model.Passes
import IrVerif.Lemmas.SemSyntax
namespace IrVerif.Passes
open IrVerif.Sem
variable {Val : Type}

theorem dceRemovable_iff {used outs : List VId} :
    dceRemovable used outs = true ↔ ∀ o ∈ outs, o ∉ used := by
  simp [dceRemovable]

theorem mem_filterMap_trimNone {v : VId} {ins : List (Option VId)}
    (h : v ∈ (trimNone ins).filterMap id) : v ∈ ins.filterMap id := by
  simp only [List.mem_filterMap, id] at h ⊢
  obtain ⟨a, ha, rfl⟩ := h
  exact ⟨_, mem_of_mem_trimNone ha, rfl⟩

/-! ### DCE only removes uses -/
mutual
theorem dceG_uses (v : VId) : ∀ g : Graph, (v ∈ usesG (dceG g).1 ∨ v ∈ (dceG g).2) → v ∈ usesG g
  | .mk inputs outputs inits nodes, h => by
    simp only [dceG, usesG] at h ⊢
    exact dceNodes_uses v outputs [] nodes h
theorem dceNodes_uses (v : VId) : ∀ (gouts pre : List VId) (ns : List Node),
    (v ∈ usesNodes (dceNodes gouts pre ns).1 ∨ v ∈ (dceNodes gouts pre ns).2) → v ∈ usesNodes ns
  | _, _, [], h => by simp [dceNodes, usesNodes] at h
  | gouts, pre, .mk op attrs ins outs bodies :: ns, h => by
    have ih := dceNodes_uses v gouts (pre ++ usesN (.mk op attrs ins outs bodies)) ns
    have ihb := dceBodies_uses v bodies
    simp only [dceNodes] at h
    simp only [usesNodes, usesN, List.mem_append]
    split at h
    · simp only [List.mem_append] at h
      rcases h with h | h | h
      · exact Or.inr (ih (Or.inl h))
      · exact Or.inl (Or.inr h)
      · exact Or.inr (ih (Or.inr h))
    · simp only [usesNodes, usesN, List.mem_append] at h
      rcases h with (((h | h) | h) | (h | h))
      · exact Or.inl (Or.inl (mem_filterMap_trimNone h))
      · exact Or.inl (Or.inr (ihb (Or.inl h)))
      · exact Or.inr (ih (Or.inl h))
      · exact Or.inl (Or.inr (ihb (Or.inr h)))
      · exact Or.inr (ih (Or.inr h))
theorem dceBodies_uses (v : VId) : ∀ bs : List Graph,
    (v ∈ usesBodies (dceBodies bs).1 ∨ v ∈ (dceBodies bs).2) → v ∈ usesBodies bs
  | [], h => by simp [dceBodies, usesBodies] at h
  | b :: bs, h => by
    have ih1 := dceG_uses v b
    have ih2 := dceBodies_uses v bs
    simp only [dceBodies, usesBodies, List.mem_append] at h ⊢
    rcases h with ((h | h) | (h | h))
    · exact Or.inl (ih1 (Or.inl h))
    · exact Or.inr (ih2 (Or.inl h))
    · exact Or.inl (ih1 (Or.inr h))
    · exact Or.inr (ih2 (Or.inr h))
end

/-! ### DCE keeps the output lists of nested bodies -/
mutual
theorem dceG_bouts (v : VId) : ∀ g : Graph, v ∈ boutsG (dceG g).1 → v ∈ boutsG g
  | .mk inputs outputs inits nodes, h => by
    simp only [dceG, boutsG, List.mem_append] at h ⊢
    exact h.imp id (dceNodes_bouts v outputs [] nodes)
theorem dceNodes_bouts (v : VId) : ∀ (gouts pre : List VId) (ns : List Node),
    v ∈ boutsNodes (dceNodes gouts pre ns).1 → v ∈ boutsNodes ns
  | _, _, [], h => by simp [dceNodes, boutsNodes] at h
  | gouts, pre, .mk op attrs ins outs bodies :: ns, h => by
    have ih := dceNodes_bouts v gouts (pre ++ usesN (.mk op attrs ins outs bodies)) ns
    have ihb := dceBodies_bouts v bodies
    simp only [dceNodes] at h
    simp only [boutsNodes, boutsN, List.mem_append]
    split at h
    · exact Or.inr (ih h)
    · simp only [boutsNodes, boutsN, List.mem_append] at h
      exact h.imp ihb ih
theorem dceBodies_bouts (v : VId) : ∀ bs : List Graph, v ∈ boutsBodies (dceBodies bs).1 → v ∈ boutsBodies bs
  | [], h => by simp [dceBodies, boutsBodies] at h
  | b :: bs, h => by
    simp only [dceBodies, boutsBodies, List.mem_append] at h ⊢
    exact h.imp (dceG_bouts v b) (dceBodies_bouts v bs)
end

theorem dceNodes_outsTop (v : VId) : ∀ (gouts pre : List VId) (ns : List Node),
    v ∈ outsTop (dceNodes gouts pre ns).1 → v ∈ outsTop ns
  | _, _, [], h => by simp [dceNodes, outsTop] at h
  | gouts, pre, .mk op attrs ins outs bodies :: ns, h => by
    have ih := dceNodes_outsTop v gouts (pre ++ usesN (.mk op attrs ins outs bodies)) ns
    simp only [dceNodes] at h
    simp only [outsTop, Node.outs, List.mem_append]
    split at h
    · exact Or.inr (ih h)
    · simp only [outsTop, Node.outs, List.mem_append] at h
      exact h.imp id ih

/-- the key property of the removal rule: a node output that is a graph output, is used by a node in
    front, by a kept node or by a ghost, belongs to a kept node -/
theorem dceNodes_closed (v : VId) : ∀ (gouts pre : List VId) (ns : List Node),
    v ∈ outsTop ns →
    v ∈ gouts ++ pre ++ usesNodes (dceNodes gouts pre ns).1 ++ (dceNodes gouts pre ns).2 →
    v ∈ outsTop (dceNodes gouts pre ns).1
  | _, _, [], h, _ => by simp [outsTop] at h
  | gouts, pre, .mk op attrs ins outs bodies :: ns, h, hu => by
    have ih := dceNodes_closed v gouts (pre ++ usesN (.mk op attrs ins outs bodies)) ns
    have hbu := dceBodies_uses v bodies
    simp only [dceNodes] at hu ⊢
    simp only [outsTop, Node.outs, List.mem_append] at h
    split
    · rename_i hrem
      rw [if_pos hrem] at hu
      simp only [List.mem_append] at hu
      rw [dceRemovable_iff] at hrem
      have hu' : v ∈ gouts ++ (pre ++ usesN (.mk op attrs ins outs bodies)) ++
          usesNodes (dceNodes gouts (pre ++ usesN (.mk op attrs ins outs bodies)) ns).1 ++
          (dceNodes gouts (pre ++ usesN (.mk op attrs ins outs bodies)) ns).2 := by
        simp only [List.mem_append, usesN]
        rcases hu with (((hu | hu) | hu) | (hu | hu))
        · exact Or.inl (Or.inl (Or.inl hu))
        · exact Or.inl (Or.inl (Or.inr (Or.inl hu)))
        · exact Or.inl (Or.inr hu)
        · exact Or.inl (Or.inl (Or.inr (Or.inr (Or.inr hu))))
        · exact Or.inr hu
      rcases h with h | h
      · exact absurd hu' (hrem v h)
      · exact ih h hu'
    · rename_i hrem
      rw [if_neg hrem] at hu
      simp only [outsTop, Node.outs, List.mem_append]
      rcases h with h | h
      · exact Or.inl h
      · refine Or.inr (ih h ?_)
        simp only [List.mem_append, usesNodes, usesN] at hu ⊢
        rcases hu with (((hu | hu) | ((hu | hu) | hu)) | (hu | hu))
        · exact Or.inl (Or.inl (Or.inl hu))
        · exact Or.inl (Or.inl (Or.inr (Or.inl hu)))
        · exact Or.inl (Or.inl (Or.inr (Or.inr (Or.inl (mem_filterMap_trimNone hu)))))
        · exact Or.inl (Or.inl (Or.inr (Or.inr (Or.inr (hbu (Or.inl hu))))))
        · exact Or.inl (Or.inr hu)
        · exact Or.inl (Or.inl (Or.inr (Or.inr (Or.inr (hbu (Or.inr hu))))))
        · exact Or.inr hu

/-! ### semantic preservation -/
mutual
theorem dceG_sound (I : Interp Val) : ∀ (g : Graph), ssaG g = true → closedG g = true →
    ∀ ρ : Env Val, evalG I (dceG g).1 ρ = evalG I g ρ
  | .mk inputs outputs inits nodes, hs, hc, ρ => by
    funext xs
    simp only [ssaG, Bool.and_eq_true] at hs
    simp only [closedG, Bool.and_eq_true] at hc
    simp only [dceG, evalG]
    apply List.map_congr_left
    intro v hv
    symm
    refine dceNodes_sound I outputs [] nodes
      (fun w => w ∈ outputs ∨ w ∈ refsNodes (dceNodes outputs [] nodes).1) _ _ hs.2 hc.2
      (fun w hw => Or.inr hw) ?_ (EqOn.refl _ _) v (Or.inl hv)
    intro w hT hw
    apply dceNodes_closed w outputs [] nodes hw
    simp only [List.mem_append]
    rcases hT with hT | hT
    · exact Or.inl (Or.inl (Or.inl hT))
    · rcases (mem_refsNodes w _).1 hT with hT | hT
      · exact Or.inl (Or.inr hT)
      · exact absurd (dceNodes_bouts w _ _ _ hT) (outsTop_not_bouts nodes hs.2 hc.2 hw)
theorem dceNodes_sound (I : Interp Val) : ∀ (gouts pre : List VId) (ns : List Node) (T : VId → Prop)
    (ρ1 ρ2 : Env Val), ssaNodes ns = true → closedNodes ns = true →
    (∀ v ∈ refsNodes (dceNodes gouts pre ns).1, T v) →
    (∀ v, T v → v ∈ outsTop ns → v ∈ outsTop (dceNodes gouts pre ns).1) →
    EqOn T ρ1 ρ2 → EqOn T (evalNodes I ns ρ1) (evalNodes I (dceNodes gouts pre ns).1 ρ2)
  | _, _, [], _, _, _, _, _, _, _, h => by simpa [dceNodes, evalNodes] using h
  | gouts, pre, .mk op attrs ins outs bodies :: ns, T, ρ1, ρ2, hs, hc, hT, hX, h => by
    have ih := dceNodes_sound I gouts (pre ++ usesN (.mk op attrs ins outs bodies)) ns T
    have ihb := dceBodies_sound I bodies
    have hs' := hs
    simp only [ssaNodes, ssaN, Bool.and_eq_true, disj_iff] at hs
    simp only [closedNodes, closedN, Bool.and_eq_true] at hc
    obtain ⟨⟨⟨⟨_, _⟩, hsb⟩, hdn⟩, hsn⟩ := hs
    have hdis : ∀ v ∈ outs, v ∉ outsTop ns := fun v hv hv' =>
      hdn v (by simp [defsN, hv]) (outsTop_sub_defsNodes ns hv')
    simp only [dceNodes] at hT hX ⊢
    simp only [evalNodes]
    split
    · rename_i hrem
      rw [if_pos hrem] at hT hX
      refine ih _ ρ2 hsn hc.2 hT (fun v hv hv' => hX v hv (by simp [outsTop, hv'])) ?_
      intro v hv
      have hvo : v ∉ outs := fun hvo =>
        hdis v hvo (dceNodes_outsTop v _ _ _ (hX v hv (by simp [outsTop, Node.outs, hvo])))
      simp only [evalN]
      rw [Env.bind_of_not_mem _ _ hvo]
      exact h v hv
    · rename_i hrem
      rw [if_neg hrem] at hT hX
      simp only [evalNodes]
      refine ih _ _ hsn hc.2 (fun v hv => hT v (by simp [refsNodes, hv])) ?_ ?_
      · intro v hv hv'
        have := hX v hv (by simp [outsTop, hv'])
        simp only [outsTop, Node.outs, List.mem_append] at this
        rcases this with this | this
        · exact absurd hv' (hdis v this)
        · exact this
      · simp only [evalN]
        have hargs : evalArgs ρ1 (trimNone ins) = evalArgs ρ2 (trimNone (trimNone ins)) := by
          rw [trimNone_idem]
          refine evalArgs_congr h _ (fun v hv => hT v ?_)
          simp only [refsNodes, refsN, List.mem_append]
          exact Or.inl (Or.inl hv)
        have hb : evalBodies I bodies ρ1 = evalBodies I (dceBodies bodies).1 ρ2 := by
          rw [← ihb hsb hc.1 ρ1]
          refine evalBodies_congr I _ ρ1 ρ2 (h.mono (fun v hv => hT v ?_))
          simp only [refsNodes, refsN, List.mem_append]
          exact Or.inl (Or.inr hv)
        rw [hargs, hb]
        exact h.bind _ _
theorem dceBodies_sound (I : Interp Val) : ∀ (bs : List Graph), ssaBodies bs = true →
    closedBodies bs = true → ∀ ρ : Env Val, evalBodies I (dceBodies bs).1 ρ = evalBodies I bs ρ
  | [], _, _, _ => by simp [dceBodies, evalBodies]
  | b :: bs, hs, hc, ρ => by
    simp only [ssaBodies, Bool.and_eq_true] at hs
    simp only [closedBodies, Bool.and_eq_true] at hc
    simp only [dceBodies, evalBodies]
    rw [dceG_sound I b hs.1.1 hc.1 ρ, dceBodies_sound I bs hs.2 hc.2 ρ]
end

/-- dropping initializers that are neither inputs nor read anywhere does not change the denotation -/
theorem evalG_filter_inits (I : Interp Val) (inputs outputs : List VId) (inits : List (VId × Tensor))
    (nodes : List Node) (p : VId × Tensor → Bool) (hnd : (inits.map Prod.fst).Nodup)
    (hdrop : ∀ q ∈ inits, p q = false → q.1 ∉ inputs ∧ q.1 ∉ refsG (.mk inputs outputs inits nodes))
    (ρ : Env Val) :
    evalG I (.mk inputs outputs (inits.filter p) nodes) ρ = evalG I (.mk inputs outputs inits nodes) ρ := by
  funext xs
  simp only [evalG]
  have hfree : inputs.filter (fun v => !((inits.filter p).map Prod.fst).contains v) =
      inputs.filter (fun v => !(inits.map Prod.fst).contains v) := by
    apply List.filter_congr
    intro v hv
    congr 1
    rw [Bool.eq_iff_iff]
    simp only [List.contains_iff_mem, List.mem_map, List.mem_filter]
    constructor
    · rintro ⟨q, ⟨hq, _⟩, rfl⟩; exact ⟨q, hq, rfl⟩
    · rintro ⟨q, hq, rfl⟩
      refine ⟨q, ⟨hq, ?_⟩, rfl⟩
      cases hp : p q with
      | true => rfl
      | false => exact absurd hv (hdrop q hq hp).1
  rw [hfree]
  apply List.map_congr_left
  intro v hv
  refine evalNodes_congr I nodes (· ∈ refsG (.mk inputs outputs inits nodes)) _ _ ?_ ?_ v ?_
  · intro w hw; simp [refsG, hw]
  · apply EqOn.bind
    intro w hw
    simp only [bindInits]
    by_cases hm : w ∈ (inits.filter p).map Prod.fst
    · obtain ⟨q, hq, rfl⟩ := List.mem_map.1 hm
      have hq' := (List.mem_filter.1 hq).1
      rw [Env.bind_map_of_mem ρ Prod.fst (fun p => some (I.tv p.2)) _ q
            ((List.filter_sublist.map Prod.fst).nodup hnd) hq,
          Env.bind_map_of_mem ρ Prod.fst (fun p => some (I.tv p.2)) _ q hnd hq']
    · rw [Env.bind_of_not_mem _ _ hm]
      by_cases hm' : w ∈ inits.map Prod.fst
      · obtain ⟨q, hq, rfl⟩ := List.mem_map.1 hm'
        have hp : p q = false := by
          cases hp : p q with
          | false => rfl
          | true => exact absurd (List.mem_map.2 ⟨q, List.mem_filter.2 ⟨hq, hp⟩, rfl⟩) hm
        exact absurd hw (hdrop q hq hp).2
      · rw [Env.bind_of_not_mem _ _ hm']
  · simp [refsG, hv]

end IrVerif.Passes

/-
C19 — round trips below IR version 11 (helper development for `C19_roundtrip_legacy`): the IR-version
gate of `_serialize_node_multi_device_into` writes no device field, so every deserialized node comes
back without annotations and the new model without configurations; what remains to show is that the
new nodes are well formed (their value ids exist), which is the by-name resolution of `DeviceRT.lean`
without the annotation part.
-/
import IrVerif.Lemmas.DeviceRT
namespace IrVerif.Device

/-- invariant of the deserializer state when the gate applies -/
structure GInv (w : World) (st : DSt) : Prop where
  ext : Ext w st.w
  models : st.w.models = w.models
  nodes : ∃ extra, st.w.nodes = w.nodes ++ extra ∧ ∀ nd ∈ extra, NodeOK st.w nd ∧ nd.dev = []
  newOK : ∀ k ∈ st.newNodes, w.nodes.length ≤ k ∧ k < st.w.nodes.length

theorem GInv.grow {w : World} {st : DSt} (h : GInv w st) {w2 : World}
    (he : VExt st.w w2) (hn : w2.nodes = st.w.nodes) : GInv w { st with w := w2 } := by
  obtain ⟨extra, hex, hok⟩ := h.nodes
  refine ⟨h.ext.trans he.toExt, by show w2.models = _; rw [he.models, h.models],
    ⟨extra, by show w2.nodes = _; rw [hn, hex], ?_⟩, ?_⟩
  · intro nd hnd; exact ⟨(hok nd hnd).1.ext he.toExt, (hok nd hnd).2⟩
  · intro k hk
    obtain ⟨a, b⟩ := h.newOK k hk
    exact ⟨a, by show k < w2.nodes.length; rw [hn]; exact b⟩

def RecSpecG (w : World) (f : Nat) (rec : DSt → Scope → GId → Option (DSt × GId)) : Prop :=
  ∀ st outer g st' g' ov, (∀ vs ∈ chainsF w f ov g, UniqueOn w vs) → rec st outer g = some (st', g') → GInv w st →
    ScopeOK w ov st.w outer → ScopeSrc w ov outer → GInv w st' ∧ VExt st.w st'.w

theorem deserSubgraphs_specG {w : World} {f : Nat} {rec : DSt → Scope → GId → Option (DSt × GId)}
    (hrec : RecSpecG w f rec) (outer : Scope) (ov : List VId) :
    ∀ (gs : List GId) (st st' : DSt) (subs : List GId),
    (∀ g ∈ gs, ∀ vs ∈ chainsF w f ov g, UniqueOn w vs) → deserSubgraphs rec outer st gs = some (st', subs) →
    GInv w st → ScopeOK w ov st.w outer → ScopeSrc w ov outer → GInv w st' ∧ VExt st.w st'.w := by
  intro gs
  induction gs with
  | nil =>
    intro st st' subs _ hc hinv _ _
    simp only [deserSubgraphs, Option.some.injEq, Prod.mk.injEq] at hc
    obtain ⟨rfl, _⟩ := hc
    exact ⟨hinv, VExt.refl _⟩
  | cons g rest ih =>
    intro st st' subs hch hc hinv hsc hsrc
    simp only [deserSubgraphs] at hc
    cases hr : rec st outer g with
    | none => simp [hr] at hc
    | some r =>
      obtain ⟨st1, g1⟩ := r
      simp only [hr] at hc
      cases hr2 : deserSubgraphs rec outer st1 rest with
      | none => simp [hr2] at hc
      | some r2 =>
        obtain ⟨st2, subs2⟩ := r2
        simp only [hr2, Option.map_some, Option.some.injEq, Prod.mk.injEq] at hc
        obtain ⟨rfl, _⟩ := hc
        obtain ⟨b1, e1⟩ := hrec st outer g st1 g1 ov (hch g (by simp)) hr hinv hsc hsrc
        obtain ⟨b2, e2⟩ := ih st1 st2 subs2 (fun x hx => hch x (by simp [hx])) hr2 b1 (hsc.vext e1) hsrc
        exact ⟨b2, e1.trans e2⟩

theorem deserNode_specG {w : World} {f : Nat} {vals : List VId} {rec : DSt → Scope → GId → Option (DSt × GId)}
    (hrec : RecSpecG w f rec) {known : List (String × CId)} {outer : Scope} {st st' : DSt}
    {cur cur1 : Scope} {n k : NId} (hvio : ∀ v, InIO (w.node n) v → v ∈ vals)
    (hsubch : ∀ sg ∈ (w.node n).subgraphs, ∀ vs ∈ chainsF w f vals sg, UniqueOn w vs)
    (hc : deserNode rec w true known outer st cur n = some (st', cur1, k))
    (hinv : GInv w st) (hsc : ScopeOK w vals st.w (cur ++ outer)) (hsrc : ScopeSrc w vals (cur ++ outer)) :
    GInv w st' ∧ VExt st.w st'.w ∧ ScopeOK w vals st'.w (cur1 ++ outer) ∧ ScopeSrc w vals (cur1 ++ outer) ∧
    (∀ x b, slookup cur x = some b → slookup cur1 x = some b) := by
  unfold deserNode at hc
  simp only at hc
  have hsrc1 : ScopeSrc w vals ((deserInputs w outer (st.w, cur) (w.node n).inputs).2.1 ++ outer) := by
    apply hsrc.extend
    intro p hp
    rw [List.mem_append] at hp
    rcases hp with hp | hp
    · rcases deserInputs_names w outer _ _ p hp with h1 | ⟨v, hv, hnm⟩
      · exact Or.inl (List.mem_append_left _ h1)
      · exact Or.inr ⟨v, hvio v (Or.inl hv), hnm⟩
    · exact Or.inl (List.mem_append_right _ hp)
  have h1 := deserInputs_spec w vals outer (w.node n).inputs st.w cur hsc
  generalize hr1 : deserInputs w outer (st.w, cur) (w.node n).inputs = r1 at h1 hc hsrc1
  obtain ⟨wd1, sc1, ins'⟩ := r1
  obtain ⟨e1, n1, ok1, mono1, monoCur1, found1, lt1, _⟩ := h1
  simp only at e1 n1 ok1 mono1 monoCur1 found1 lt1 hc
  have h2 := deserOutputs_spec w sc1 (serOutputs w (w.node n)) wd1
    (fun p hp => ok1.lt p (List.mem_append_left _ hp))
  generalize hr2 : deserOutputs w sc1 wd1 (serOutputs w (w.node n)) = r2 at h2 hc
  obtain ⟨wd2, outs'⟩ := r2
  obtain ⟨e2, n2, found2, lt2⟩ := h2
  simp only at e2 n2 found2 lt2 hc
  have e12 : VExt st.w wd2 := e1.trans e2
  have hn12 : wd2.nodes = st.w.nodes := by rw [n2, n1]
  have ok2 : ScopeOK w vals wd2 (sc1 ++ outer) := ok1.vext e2
  have hgate : (serNodeDev w true (w.node n)).getD [] = [] := by simp [serNodeDev]
  rw [hgate] at hc
  simp only [deserCfgs] at hc
  have hinv2 : GInv w { st with w := wd2 } := hinv.grow e12 hn12
  cases hsub : deserSubgraphs rec (sc1 ++ outer) { st with w := wd2 } (w.node n).subgraphs with
  | none => simp [hsub] at hc
  | some r =>
    obtain ⟨st4, subs⟩ := r
    simp only [hsub, Option.some.injEq, Prod.mk.injEq] at hc
    obtain ⟨hst', hcur1, hk'⟩ := hc
    obtain ⟨hinv4, e4⟩ := deserSubgraphs_specG hrec (sc1 ++ outer) vals _ _ _ _ hsubch hsub hinv2 ok2 hsrc1
    have e4' : VExt wd2 st4.w := e4
    subst hcur1
    have hnd' : NodeOK st4.w { inputs := ins', outputs := outs', dev := [], subgraphs := subs } := by
      refine ⟨⟨?_, ?_⟩, by simp, by simp⟩
      · intro o ho v hov
        subst hov
        exact Nat.lt_of_lt_of_le (lt1 v ho) (e2.trans e4').len
      · intro v hv
        exact Nat.lt_of_lt_of_le (lt2 v hv) e4'.len
    obtain ⟨extra, hex, hok⟩ := hinv4.nodes
    have hvfin : VExt st4.w st'.w := by
      rw [← hst']
      exact ⟨⟨[], by simp⟩, rfl, ⟨[_], rfl⟩, rfl⟩
    have hnodes' : st'.w.nodes = st4.w.nodes ++ [{ inputs := ins', outputs := outs', dev := [], subgraphs := subs }] := by
      rw [← hst']
    have hnn' : st'.newNodes = st4.newNodes ++ [st4.w.nodes.length] := by rw [← hst']
    have hextfin : Ext st4.w st'.w := hvfin.toExt
    refine ⟨⟨hinv4.ext.trans hextfin, by rw [hvfin.models, hinv4.models],
      ⟨extra ++ [{ inputs := ins', outputs := outs', dev := [], subgraphs := subs }], by rw [hnodes', hex, List.append_assoc], ?_⟩, ?_⟩,
      (e12.trans e4').trans hvfin, (ok2.vext e4').vext hvfin, hsrc1, monoCur1⟩
    · intro x hx
      simp only [List.mem_append, List.mem_singleton] at hx
      rcases hx with hx | hx
      · exact ⟨(hok x hx).1.ext hextfin, (hok x hx).2⟩
      · subst hx; exact ⟨hnd'.ext hextfin, rfl⟩
    · intro k hk
      rw [hnn', List.mem_append, List.mem_singleton] at hk
      rcases hk with hk | hk
      · obtain ⟨a, b⟩ := hinv4.newOK k hk
        exact ⟨a, Nat.lt_of_lt_of_le b hvfin.nlen⟩
      · subst hk
        refine ⟨by rw [hex]; simp, by rw [hnodes']; simp⟩

theorem deserNodes_specG {w : World} {f : Nat} {vals : List VId} {rec : DSt → Scope → GId → Option (DSt × GId)}
    (hrec : RecSpecG w f rec) {known : List (String × CId)} (outer : Scope) :
    ∀ (ns : List NId) (st : DSt) (cur : Scope) (acc : List NId) (st' : DSt) (res : List NId),
    (∀ n ∈ ns, (∀ v, InIO (w.node n) v → v ∈ vals) ∧
      ∀ sg ∈ (w.node n).subgraphs, ∀ vs ∈ chainsF w f vals sg, UniqueOn w vs) →
    deserNodes rec w true known outer st cur ns acc = some (st', res) →
    GInv w st → ScopeOK w vals st.w (cur ++ outer) → ScopeSrc w vals (cur ++ outer) →
    GInv w st' ∧ VExt st.w st'.w := by
  intro ns
  induction ns with
  | nil =>
    intro st cur acc st' res _ hc hinv _ _
    simp only [deserNodes, Option.some.injEq, Prod.mk.injEq] at hc
    obtain ⟨rfl, _⟩ := hc
    exact ⟨hinv, VExt.refl _⟩
  | cons n rest ih =>
    intro st cur acc st' res hns hc hinv hsc hsrc
    simp only [deserNodes] at hc
    cases hdn : deserNode rec w true known outer st cur n with
    | none => simp [hdn] at hc
    | some r =>
      obtain ⟨st1, cur1, k⟩ := r
      simp only [hdn] at hc
      obtain ⟨hn2, hn3⟩ := hns n (by simp)
      obtain ⟨b1, e1, sc1, src1, _⟩ := deserNode_specG hrec hn2 hn3 hdn hinv hsc hsrc
      obtain ⟨b2, e2⟩ := ih st1 cur1 _ st' res (fun x hx => hns x (by simp [hx])) hc b1 sc1 src1
      exact ⟨b2, e1.trans e2⟩

theorem deserGraphBody_specG {w : World} {f : Nat} {rec : DSt → Scope → GId → Option (DSt × GId)}
    (hrec : RecSpecG w f rec) (known : List (String × CId)) :
    RecSpecG w (f + 1) (deserGraphBody rec w true known) := by
  intro st outer g st' g' ov hch hc hinv hsc0 hsrc0
  unfold deserGraphBody at hc
  simp only at hc
  have hUv : UniqueOn w (ov ++ ownVals w g) := hch _ (by simp [chainsF])
  have hsubch : ∀ n ∈ (w.graph g).nodes, ∀ sg ∈ (w.node n).subgraphs,
      ∀ vs ∈ chainsF w f (ov ++ ownVals w g) sg, UniqueOn w vs := by
    intro n hn sg hsg vs hvs
    apply hch
    simp only [chainsF, List.mem_cons, List.mem_flatten, List.mem_map]
    right
    exact ⟨_, ⟨n, hn, rfl⟩, by simp only [List.mem_flatten, List.mem_map]; exact ⟨_, ⟨sg, hsg, rfl⟩, hvs⟩⟩
  have hsc : ScopeOK w (ov ++ ownVals w g) st.w outer :=
    hsc0.mono hsrc0 (fun v hv => List.mem_append_left _ hv) hUv
  have hsrc : ScopeSrc w (ov ++ ownVals w g) outer := hsrc0.mono (fun v hv => List.mem_append_left _ hv)
  have h0 := declareInputs_spec w (ov ++ ownVals w g) outer hUv (w.graph g).inputs st.w [] (by simpa using hsc)
    (fun v hv => List.mem_append_right _ (mem_ownVals_of_input hv))
  have hs0 : ScopeSrc w (ov ++ ownVals w g) ((declareInputs w (st.w, []) (w.graph g).inputs).2 ++ outer) := by
    apply hsrc.extend
    intro p hp
    rw [List.mem_append] at hp
    rcases hp with hp | hp
    · rcases declareInputs_names w _ _ p hp with h1 | ⟨v, hv, hnm⟩
      · cases h1
      · exact Or.inr ⟨v, List.mem_append_right _ (mem_ownVals_of_input hv), hnm⟩
    · exact Or.inl hp
  generalize hr00 : declareInputs w (st.w, []) (w.graph g).inputs = r00 at h0 hc hs0
  obtain ⟨e00, n00, ok00⟩ := h0
  have hr00' : r00 = (r00.1, r00.2) := rfl
  rw [hr00'] at hc
  have hI := declareInits_spec w (ov ++ ownVals w g) outer hUv (w.graph g).inits r00.1 r00.2 ok00
    (fun v hv => List.mem_append_right _ (mem_ownVals_of_init hv))
  have hsI : ScopeSrc w (ov ++ ownVals w g) ((declareInits w (r00.1, r00.2) (w.graph g).inits).2 ++ outer) := by
    apply hs0.extend
    intro p hp
    rw [List.mem_append] at hp
    rcases hp with hp | hp
    · rcases declareInits_names w _ _ p hp with h1 | ⟨v, hv, hnm⟩
      · exact Or.inl (List.mem_append_left _ h1)
      · exact Or.inr ⟨v, List.mem_append_right _ (mem_ownVals_of_init hv), hnm⟩
    · exact Or.inl (List.mem_append_right _ hp)
  generalize hr0 : declareInits w (r00.1, r00.2) (w.graph g).inits = r0 at hI hc hsI
  obtain ⟨eI, nI, ok0⟩ := hI
  have e0 : VExt st.w r0.1 := e00.trans eI
  have n0 : r0.1.nodes = st.w.nodes := by rw [nI, n00]
  have hvalsO : ∀ o ∈ (((w.graph g).nodes.map (fun n => serOutputs w (w.node n))).flatten), o ∈ ov ++ ownVals w g := by
    intro o ho
    simp only [List.mem_flatten, List.mem_map] at ho
    obtain ⟨l, ⟨n, hn, rfl⟩, hol⟩ := ho
    exact List.mem_append_right _ (mem_ownVals_of_io hn (Or.inr (serOutputs_sub hol)))
  cases hdo : declareOutputs w r0 (((w.graph g).nodes.map (fun n => serOutputs w (w.node n))).flatten) with
  | none => simp [hdo] at hc
  | some r1 =>
    simp only [hdo] at hc
    have hr0' : r0 = (r0.1, r0.2) := rfl
    have hs1 : ScopeSrc w (ov ++ ownVals w g) (r1.2 ++ outer) := by
      apply hsI.extend
      intro p hp
      rw [List.mem_append] at hp
      rcases hp with hp | hp
      · rcases declareOutputs_names w _ _ _ hdo p hp with h1 | ⟨v, hv, hnm⟩
        · exact Or.inl (List.mem_append_left _ h1)
        · exact Or.inr ⟨v, hvalsO v hv, hnm⟩
      · exact Or.inl (List.mem_append_right _ hp)
    rw [hr0'] at hdo
    obtain ⟨e1, n1, ok1, _, _⟩ := declareOutputs_spec w (ov ++ ownVals w g) outer hUv _ r0.1 r0.2 r1 ok0 hvalsO hdo
    have e01 : VExt st.w r1.1 := e0.trans e1
    have hn01 : r1.1.nodes = st.w.nodes := by rw [n1, n0]
    have hinv1 : GInv w { st with w := r1.1 } := hinv.grow e01 hn01
    cases hdn : deserNodes rec w true known outer { st with w := r1.1 } r1.2 (w.graph g).nodes [] with
    | none => simp [hdn] at hc
    | some r2 =>
      obtain ⟨st2, ns⟩ := r2
      simp only [hdn, Option.some.injEq, Prod.mk.injEq] at hc
      obtain ⟨hst', _⟩ := hc
      obtain ⟨b2, e2⟩ := deserNodes_specG hrec outer _ _ _ _ _ _
        (fun n hn => ⟨fun v hv => List.mem_append_right _ (mem_ownVals_of_io hn hv), hsubch n hn⟩) hdn hinv1 ok1 hs1
      have e2' : VExt r1.1 st2.w := e2
      subst hst'
      have hfin : VExt st2.w { st2.w with graphs := st2.w.graphs ++ [{ inputs := List.range' st.w.values.length (w.graph g).inputs.length, nodes := ns, inits := (w.graph g).inits.filterMap (fun v => slookup r0.2 (w.value v).name) }] } :=
        VExt.of_eq rfl rfl rfl rfl
      refine ⟨?_, (e01.trans e2').trans hfin⟩
      obtain ⟨extra, hex, hok⟩ := b2.nodes
      exact ⟨b2.ext.trans hfin.toExt, b2.models, ⟨extra, hex, fun nd hnd => ⟨(hok nd hnd).1.ext hfin.toExt, (hok nd hnd).2⟩⟩, b2.newOK⟩

theorem deserGraphF_specG {w : World} (known : List (String × CId)) :
    ∀ (f : Nat), RecSpecG w f (deserGraphF w true known f) := by
  intro f
  induction f with
  | zero => intro st outer g st' g' ov _ hc; simp [deserGraphF] at hc
  | succ f ih =>
    intro st outer g st' g' ov hch hc
    simp only [deserGraphF] at hc
    exact deserGraphBody_specG ih known st outer g st' g' ov hch hc

theorem deserRoots_specG {w : World} (known : List (String × CId)) (f : Nat) :
    ∀ (gs : List GId) (st st' : DSt) (res : List GId), (∀ g ∈ gs, ∀ vs ∈ chainsF w f [] g, UniqueOn w vs) →
    deserRoots w true known f st gs = some (st', res) → GInv w st → GInv w st' := by
  intro gs
  induction gs with
  | nil =>
    intro st st' res _ hc hinv
    simp only [deserRoots, Option.some.injEq, Prod.mk.injEq] at hc
    obtain ⟨rfl, _⟩ := hc
    exact hinv
  | cons g rest ih =>
    intro st st' res hgs hc hinv
    simp only [deserRoots] at hc
    cases hr : deserGraphF w true known f st [] g with
    | none => simp [hr] at hc
    | some r =>
      obtain ⟨st1, g1⟩ := r
      simp only [hr] at hc
      cases hr2 : deserRoots w true known f st1 rest with
      | none => simp [hr2] at hc
      | some r2 =>
        obtain ⟨st2, res2⟩ := r2
        simp only [hr2, Option.map_some, Option.some.injEq, Prod.mk.injEq] at hc
        obtain ⟨rfl, _⟩ := hc
        have hsc0 : ScopeOK w [] st.w [] := ⟨by simp, by simp, by simp, by simp⟩
        have hsrc0 : ScopeSrc w [] [] := by intro p hp; cases hp
        obtain ⟨b1, _⟩ := deserGraphF_specG known f st [] g st1 g1 [] (hgs g (by simp)) hr hinv hsc0 hsrc0
        exact ih st1 st2 res2 (fun x hx => hgs x (by simp [hx])) hr2 b1

/-- a round trip below IR version 11: the world reached satisfies the invariant, the new model has no
    configurations and none of its nodes an annotation -/
theorem roundTrip_legacy_core {w : World} (h : DevOK w) (m : MId) (hir : (w.model m).irVersion < 11)
    (hparts : NamesChain w (w.model m)) :
    DevOK (roundTrip w m).1 ∧
    ((roundTrip w m).2 = .ok →
      (roundTrip w m).1.models.length = w.models.length + 1 ∧
      ((roundTrip w m).1.model w.models.length).cfgs = [] ∧
      ∀ n ∈ ((roundTrip w m).1.model w.models.length).nodes, ((roundTrip w m).1.node n).dev = []) := by
  unfold roundTrip
  cases hser : serModelDev w m with
  | none => exact ⟨h, by simp⟩
  | some protos =>
    simp only
    cases hd : deserModel w m with
    | none => exact ⟨h, by simp⟩
    | some w' =>
      simp only
      unfold deserModel at hd
      simp only at hd
      have hgate : decide ((w.model m).irVersion < 11) = true := by simp [hir]
      rw [hgate] at hd
      cases hdg : deserRoots w true (rtKnown w (w.model m)) (w.graphs.length + 1)
          { w := rtWorld0 w (w.model m) } (w.model m).roots with
      | none => simp [hdg] at hd
      | some r =>
        obtain ⟨st, gs'⟩ := r
        simp only [hdg, Option.some.injEq] at hd
        have hregs : rtRegs (w.model m) = [] := by
          have : ¬ 11 ≤ (w.model m).irVersion := by omega
          simp [rtRegs, this]
        have hw0 : rtWorld0 w (w.model m) = w := by simp [rtWorld0, hregs]
        have hinit : GInv w { w := rtWorld0 w (w.model m) } := by
          rw [hw0]
          exact ⟨Ext.refl w, rfl, ⟨[], by simp, by simp⟩, by simp⟩
        have hinv := deserRoots_specG _ _ _ _ _ _ hparts hdg hinit
        obtain ⟨extra, hex, hok⟩ := hinv.nodes
        have hnewc : rtNewCfgs w (w.model m) = [] := by simp [rtNewCfgs, hregs]
        generalize hnm : ({ graph := gs'.headD 0, graphs := st.newGraphs, nodes := st.newNodes, cfgs := rtNewCfgs w (w.model m), irVersion := (w.model m).irVersion, funcs := gs'.tail } : ModelS) = newm at hd
        have hnm1 : newm.nodes = st.newNodes := by rw [← hnm]
        have hnm2 : newm.cfgs = [] := by rw [← hnm]; exact hnewc
        clear hnm
        subst hd
        have hmodel : World.model (rtFinish st.w newm) w.models.length = newm := by
          simp [World.model, rtFinish, hinv.models, List.getD_eq_getElem?_getD]
        have hdev : ∀ k ∈ st.newNodes, k < st.w.nodes.length ∧ (st.w.node k).dev = [] := by
          intro k hk
          obtain ⟨hge, hlt⟩ := hinv.newOK k hk
          refine ⟨hlt, ?_⟩
          have hmem : st.w.node k ∈ extra := by
            have : st.w.node k = st.w.nodes[k] := by simp [World.node, List.getD_eq_getElem?_getD, hlt]
            rw [this]
            have hlt' : k < (w.nodes ++ extra).length := by rw [← hex]; exact hlt
            have : st.w.nodes[k] = (w.nodes ++ extra)[k] := by simp [hex]
            rw [this, List.getElem_append_right hge]
            exact List.getElem_mem _
          exact (hok _ hmem).2
        refine ⟨?_, fun _ => ⟨by simp [rtFinish, hinv.models], by rw [hmodel]; exact hnm2, ?_⟩⟩
        · refine DevOK_extend h (hinv.ext.trans (Ext.of_eq rfl rfl)) ⟨extra, hex, fun nd hnd => ((hok nd hnd).1).ext (Ext.of_eq rfl rfl)⟩ ?_
          intro ms' hms'
          have hms'' : ms' ∈ st.w.models ++ [newm] := hms'
          rw [hinv.models, List.mem_append, List.mem_singleton] at hms''
          rcases hms'' with h1 | h1
          · exact ⟨ms', h.2 ms' h1, rfl, fun n hn => Or.inl hn⟩
          · subst h1
            refine ⟨{}, ModelOK_default w, hnm2, ?_⟩
            intro n hn
            have hn' : n ∈ st.newNodes := hnm1 ▸ hn
            obtain ⟨hlt, hd0⟩ := hdev n hn'
            refine Or.inr ⟨hlt, ?_⟩
            intro nc hnc
            have hnc' : nc ∈ (st.w.node n).dev := hnc
            rw [hd0] at hnc'; cases hnc'
        · rw [hmodel]
          intro n hn
          exact (hdev n (hnm1 ▸ hn)).2

/-- values of a scope chain of a closed model are values of the model -/
theorem chainsF_sub {w : World} {ms : ModelS} (hcl : Closed w ms) : ∀ (f : Nat) (ov : List VId) (g : GId),
    g ∈ ms.graphs → (∀ v ∈ ov, v ∈ modelValues w ms) → ∀ vs ∈ chainsF w f ov g, ∀ v ∈ vs, v ∈ modelValues w ms := by
  intro f
  induction f with
  | zero => intro ov g _ _ vs hvs; simp [chainsF] at hvs
  | succ f ih =>
    intro ov g hg hov vs hvs
    have hown : ∀ v ∈ ov ++ ownVals w g, v ∈ modelValues w ms := by
      intro v hv
      rw [List.mem_append] at hv
      rcases hv with hv | hv
      · exact hov v hv
      · unfold ownVals at hv
        simp only [List.mem_append, List.mem_flatten, List.mem_map] at hv
        rcases hv with (hv | hv) | ⟨l, ⟨n, hn, rfl⟩, hv⟩
        · exact mem_modelValues_of_input hg hv
        · exact mem_modelValues_of_init hg hv
        · apply mem_modelValues_of_io (hcl.2.1 g hg n hn)
          simp only [List.mem_append, List.mem_filterMap, id] at hv
          rcases hv with ⟨o, ho, rfl⟩ | hv
          · exact Or.inl ho
          · exact Or.inr hv
    simp only [chainsF, List.mem_cons, List.mem_flatten, List.mem_map] at hvs
    rcases hvs with rfl | ⟨l, ⟨n, hn, rfl⟩, hvs⟩
    · exact hown
    · simp only [List.mem_flatten, List.mem_map] at hvs
      obtain ⟨l2, ⟨sg, hsg, rfl⟩, hvs2⟩ := hvs
      exact ih _ sg (hcl.2.2.1 n (hcl.2.1 g hg n hn) sg hsg) hown vs hvs2

/-- names unique across the whole (closed) model are unique along every scope chain -/
theorem NamesChain_of_unique {w : World} {ms : ModelS} (hcl : Closed w ms) (hU : NamesUnique w ms) :
    NamesChain w ms := by
  intro r hr vs hvs a ha b hb
  have hsub := chainsF_sub hcl _ [] r (hcl.1 r hr) (by simp) vs hvs
  exact hU a (hsub a ha) b (hb |> hsub b)

/-- a round trip below IR version 11 of a model with globally unique names (hypotheses of `C19_roundtrip_legacy`) -/
theorem roundTrip_legacy {w : World} (h : DevOK w) (m : MId) (hir : (w.model m).irVersion < 11)
    (hcl : Closed w (w.model m)) (hU : NamesUnique w (w.model m)) :
    DevOK (roundTrip w m).1 ∧
    ((roundTrip w m).2 = .ok →
      (roundTrip w m).1.models.length = w.models.length + 1 ∧
      ((roundTrip w m).1.model w.models.length).cfgs = [] ∧
      ∀ n ∈ ((roundTrip w m).1.model w.models.length).nodes, ((roundTrip w m).1.node n).dev = []) :=
  roundTrip_legacy_core h m hir (NamesChain_of_unique hcl hU)

end IrVerif.Device

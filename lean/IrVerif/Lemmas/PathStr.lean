/-
C10 helper lemmas: the shapes of the path strings `posixpath._joinrealpath` builds
(`render l` = "/" + "/".join(l) for absolute ones, `relStr k names` = k times ".." then names for
relative ones) and how `join`, `split`, `abspath` act on them.
-/
import IrVerif.Lemmas.Path
namespace IrVerif.Path

/-- a non-empty piece without separator (names, and also "." and "..") -/
def Piece (c : Str) : Prop := c ≠ [] ∧ '/' ∉ c

theorem Clean.piece {c : Str} (h : Clean c) : Piece c := ⟨h.1, h.2.2.2⟩
theorem piece_dotdot : Piece DOTDOT := by simp [Piece, DOTDOT]
theorem clean_ne_dotdot {c : Str} (h : Clean c) : c ≠ DOTDOT := h.2.2.1

def render (l : Loc) : Str := '/' :: joinSep l
def relStr (k : Nat) (names : List Str) : Str := joinSep (List.replicate k DOTDOT ++ names)

theorem joinSep_append_singleton (l : List Str) (x : Str) (h : l ≠ []) :
    joinSep (l ++ [x]) = joinSep l ++ '/' :: x := by
  induction l with
  | nil => exact absurd rfl h
  | cons a t ih =>
    cases t with
    | nil => simp [joinSep]
    | cons b t =>
      have := ih (by simp)
      simp only [List.cons_append, joinSep] at this ⊢
      rw [this]; simp

theorem splitSep_joinSep (l : List Str) (h : ∀ c ∈ l, '/' ∉ c) (hne : l ≠ []) :
    splitSep (joinSep l) = l := by
  induction l with
  | nil => exact absurd rfl hne
  | cons a t ih =>
    cases t with
    | nil => simpa [joinSep] using splitSep_of_noSep a (h a (by simp))
    | cons b t =>
      simp only [joinSep, splitSep_append_sep]
      rw [ih (fun c hc => h c (by simp [hc])) (by simp), splitSep_of_noSep a (h a (by simp))]
      simp

theorem comps_joinSep_piece (l : List Str) (h : ∀ c ∈ l, Piece c) : comps (joinSep l) = l := by
  cases l with
  | nil => simp [joinSep, comps_nil]
  | cons a t =>
    unfold comps
    rw [splitSep_joinSep _ (fun c hc => (h c hc).2) (by simp)]
    apply List.filter_eq_self.mpr
    intro c hc
    simpa using (h c hc).1

/-- a join of pieces is empty or starts with a non-separator, and never ends with one -/
theorem joinSep_isabs (l : List Str) (h : ∀ c ∈ l, Piece c) : isabs (joinSep l) = false := by
  cases l with
  | nil => simp [joinSep, isabs]
  | cons a t =>
    have ha := h a (by simp)
    cases a with
    | nil => exact absurd rfl ha.1
    | cons c r =>
      have : c ≠ '/' := by
        intro e; subst e; exact ha.2 (by simp)
      cases t <;> simp [joinSep, isabs, this]

theorem getLast?_append_ne_nil (a x : Str) (h : x ≠ []) : (a ++ x).getLast? = x.getLast? := by
  simp only [List.getLast?_append]
  cases hx : x.getLast? with
  | none => simp [List.getLast?_eq_none_iff] at hx; exact absurd hx h
  | some c => simp

theorem endsWithSep_append_piece (a x : Str) (hx : Piece x) : endsWithSep (a ++ x) = false := by
  unfold endsWithSep
  have hne : x ≠ [] := hx.1
  rw [getLast?_append_ne_nil _ _ hne]
  cases hl : x.getLast? with
  | none => simp
  | some c =>
    have hm : c ∈ x := List.mem_of_getLast? hl
    have : c ≠ '/' := by
      intro e; subst e; exact hx.2 hm
    simp [this]

theorem joinSep_endsWithSep (l : List Str) (h : ∀ c ∈ l, Piece c) :
    endsWithSep (joinSep l) = false := by
  induction l with
  | nil => simp [joinSep, endsWithSep]
  | cons a t ih =>
    cases t with
    | nil => simpa [joinSep] using endsWithSep_append_piece [] a (h a (by simp))
    | cons b t =>
      have hj : joinSep (b :: t) ≠ [] := by
        have hb := (h b (by simp)).1
        cases b with
        | nil => exact absurd rfl hb
        | cons c r => cases t <;> simp [joinSep]
      have := ih (fun c hc => h c (by simp [hc]))
      simp only [joinSep]
      unfold endsWithSep at this ⊢
      rw [show a ++ '/' :: joinSep (b :: t) = (a ++ ['/']) ++ joinSep (b :: t) by simp,
        getLast?_append_ne_nil _ _ hj]
      exact this

theorem joinSep_eq_nil (l : List Str) (h : ∀ c ∈ l, Piece c) : joinSep l = [] ↔ l = [] := by
  constructor
  · intro e
    cases l with
    | nil => rfl
    | cons a t =>
      have ha := (h a (by simp)).1
      cases a with
      | nil => exact absurd rfl ha
      | cons c r => cases t <;> simp [joinSep] at e
  · rintro rfl; rfl

/-- `join(path, name)` on a piece-built relative string or on an absolute rendering -/
theorem pjoin_joinSep (l : List Str) (name : Str) (h : ∀ c ∈ l, Piece c) (hn : Piece name) :
    pjoin (joinSep l) name = joinSep (l ++ [name]) := by
  have hnabs : isabs name = false := by
    have := joinSep_isabs [name] (by simpa using hn)
    simpa [joinSep] using this
  unfold pjoin
  simp only [hnabs, Bool.false_eq_true, if_false]
  by_cases hl : l = []
  · subst hl; simp [joinSep]
  · have h1 : joinSep l ≠ [] := fun e => hl ((joinSep_eq_nil l h).mp e)
    have h2 := joinSep_endsWithSep l h
    simp only [h1, h2, Bool.false_eq_true, or_self, if_false]
    rw [joinSep_append_singleton l name hl]

theorem pjoin_render (l : Loc) (name : Str) (h : ∀ c ∈ l, Piece c) (hn : Piece name) :
    pjoin (render l) name = render (l ++ [name]) := by
  have hnabs : isabs name = false := by
    have := joinSep_isabs [name] (by simpa using hn)
    simpa [joinSep] using this
  unfold pjoin render
  simp only [hnabs, Bool.false_eq_true, if_false]
  by_cases hl : l = []
  · subst hl; simp [joinSep, endsWithSep]
  · have h2 : endsWithSep ('/' :: joinSep l) = false := by
      have h1 : joinSep l ≠ [] := fun e => hl ((joinSep_eq_nil l h).mp e)
      have := joinSep_endsWithSep l h
      unfold endsWithSep at this ⊢
      rw [show '/' :: joinSep l = ['/'] ++ joinSep l by simp, getLast?_append_ne_nil _ _ h1]
      exact this
    simp only [h2, Bool.false_eq_true, or_false]
    rw [joinSep_append_singleton l name hl]
    simp

theorem pjoin_relStr (k : Nat) (names : List Str) (name : Str) (h : ∀ c ∈ names, Piece c)
    (hn : Piece name) : pjoin (relStr k names) name = relStr k (names ++ [name]) := by
  unfold relStr
  rw [pjoin_joinSep _ _ _ hn, List.append_assoc]
  intro c hc
  simp only [List.mem_append, List.mem_replicate] at hc
  rcases hc with ⟨_, rfl⟩ | hc
  · exact piece_dotdot
  · exact h c hc

end IrVerif.Path

namespace IrVerif.Path

theorem eq_nil_or_snoc {α : Type} (l : List α) : l = [] ∨ ∃ l' x, l = l' ++ [x] := by
  induction l with
  | nil => left; rfl
  | cons a t ih =>
    right
    rcases ih with rfl | ⟨l', x, rfl⟩
    · exact ⟨[], a, rfl⟩
    · exact ⟨a :: l', x, rfl⟩

theorem dropWhile_nosep (u v : Str) (h : '/' ∉ u) :
    (u ++ '/' :: v).dropWhile (· ≠ '/') = '/' :: v := by
  induction u with
  | nil => simp
  | cons c r ih =>
    simp only [List.mem_cons, not_or] at h
    have hc : c ≠ '/' := fun e => h.1 e.symm
    simpa [List.dropWhile, hc] using ih h.2

theorem takeWhile_nosep (u v : Str) (h : '/' ∉ u) :
    (u ++ '/' :: v).takeWhile (· ≠ '/') = u := by
  induction u with
  | nil => simp
  | cons c r ih =>
    simp only [List.mem_cons, not_or] at h
    have hc : c ≠ '/' := fun e => h.1 e.symm
    simpa [List.takeWhile, hc] using ih h.2

theorem dropWhile_nosep' (u : Str) (h : '/' ∉ u) : u.dropWhile (· ≠ '/') = [] := by
  induction u with
  | nil => rfl
  | cons c r ih =>
    simp only [List.mem_cons, not_or] at h
    have hc : c ≠ '/' := fun e => h.1 e.symm
    simpa [List.dropWhile, hc] using ih h.2

theorem takeWhile_nosep' (u : Str) (h : '/' ∉ u) : u.takeWhile (· ≠ '/') = u := by
  induction u with
  | nil => rfl
  | cons c r ih =>
    simp only [List.mem_cons, not_or] at h
    have hc : c ≠ '/' := fun e => h.1 e.symm
    simpa [List.takeWhile, hc] using ih h.2

theorem headPart_append (a x : Str) (h : '/' ∉ x) : headPart (a ++ '/' :: x) = a ++ ['/'] := by
  unfold headPart
  have : (a ++ '/' :: x).reverse = x.reverse ++ '/' :: a.reverse := by simp
  rw [this, dropWhile_nosep _ _ (by simpa using h)]
  simp

theorem tailPart_append (a x : Str) (h : '/' ∉ x) : tailPart (a ++ '/' :: x) = x := by
  unfold tailPart
  have : (a ++ '/' :: x).reverse = x.reverse ++ '/' :: a.reverse := by simp
  rw [this, takeWhile_nosep _ _ (by simpa using h)]
  simp

theorem headPart_nosep (x : Str) (h : '/' ∉ x) : headPart x = [] := by
  unfold headPart
  rw [dropWhile_nosep' _ (by simpa using h)]; rfl

theorem tailPart_nosep (x : Str) (h : '/' ∉ x) : tailPart x = x := by
  unfold tailPart
  rw [takeWhile_nosep' _ (by simpa using h)]; simp

theorem dirname_nosep (x : Str) (h : '/' ∉ x) : dirname x = [] := by
  unfold dirname
  simp [headPart_nosep x h]

theorem dirname_root (x : Str) (h : '/' ∉ x) : dirname ('/' :: x) = ['/'] := by
  have := headPart_append [] x h
  simp only [List.nil_append] at this
  unfold dirname
  simp [this]

theorem dirname_append (a x : Str) (h : '/' ∉ x) (ha : a ≠ []) (he : endsWithSep a = false) :
    dirname (a ++ '/' :: x) = a := by
  unfold dirname
  rw [headPart_append a x h]
  obtain ⟨c, hc⟩ : ∃ c, a.getLast? = some c := by
    cases hl : a.getLast? with
    | none => simp [List.getLast?_eq_none_iff] at hl; exact absurd hl ha
    | some c => exact ⟨c, rfl⟩
  have hcs : c ≠ '/' := by
    intro e; subst e; simp [endsWithSep, hc] at he
  obtain ⟨q, hq⟩ := List.getLast?_eq_some_iff.mp hc
  have hall : (a ++ ['/']).all (· = '/') = false := by
    rw [hq]; simp [hcs]
  simp only [hall, ne_eq, List.append_eq_nil_iff, List.cons_ne_self, and_false, not_false_eq_true,
    and_self, if_true]
  unfold rstripSep
  rw [hq]
  simp [List.dropWhile, hcs]

theorem render_ne_nil (l : Loc) : render l ≠ [] := by simp [render]

theorem render_endsWithSep (l : Loc) (h : ∀ c ∈ l, Piece c) (hl : l ≠ []) :
    endsWithSep (render l) = false := by
  have h1 : joinSep l ≠ [] := fun e => hl ((joinSep_eq_nil l h).mp e)
  have := joinSep_endsWithSep l h
  unfold endsWithSep at this ⊢
  unfold render
  rw [show '/' :: joinSep l = ['/'] ++ joinSep l by simp, getLast?_append_ne_nil _ _ h1]
  exact this

theorem render_snoc (l : Loc) (x : Str) (hl : l ≠ []) :
    render (l ++ [x]) = render l ++ '/' :: x := by
  simp [render, joinSep_append_singleton l x hl]

theorem parentPath_render (l : Loc) (h : ∀ c ∈ l, Clean c) :
    parentPath (render l) = render l.dropLast := by
  unfold parentPath psplit
  simp only [render_ne_nil, ne_eq, not_false_eq_true, if_true]
  rcases eq_nil_or_snoc l with rfl | ⟨l', x, rfl⟩
  · decide
  · have hx : Clean x := h x (by simp)
    have hl' : ∀ c ∈ l', Piece c := fun c hc => (h c (by simp [hc])).piece
    simp only [List.dropLast_concat]
    by_cases hn : l' = []
    · subst hn
      have : render ([] ++ [x]) = '/' :: x := by simp [render, joinSep]
      rw [this, dirname_root x hx.2.2.2]
      have ht := tailPart_append [] x hx.2.2.2
      simp only [List.nil_append] at ht
      rw [ht]
      simp [hx.2.2.1, render, joinSep]
    · rw [render_snoc l' x hn, dirname_append _ x hx.2.2.2 (render_ne_nil l')
        (render_endsWithSep l' hl' hn), tailPart_append _ x hx.2.2.2]
      simp [hx.2.2.1]

theorem relStr_snoc (k : Nat) (names : List Str) (x : Str)
    (hne : List.replicate k DOTDOT ++ names ≠ []) :
    relStr k (names ++ [x]) = relStr k names ++ '/' :: x := by
  unfold relStr
  rw [← List.append_assoc, joinSep_append_singleton _ x hne]

theorem relPieces (k : Nat) (names : List Str) (h : ∀ c ∈ names, Piece c) :
    ∀ c ∈ List.replicate k DOTDOT ++ names, Piece c := by
  intro c hc
  simp only [List.mem_append, List.mem_replicate] at hc
  rcases hc with ⟨_, rfl⟩ | hc
  · exact piece_dotdot
  · exact h c hc

theorem parentPath_relStr_names (k : Nat) (names : List Str) (x : Str)
    (h : ∀ c ∈ names, Clean c) (hx : Clean x) :
    parentPath (relStr k (names ++ [x])) = relStr k names := by
  have hp := relPieces k names (fun c hc => (h c hc).piece)
  unfold parentPath psplit
  by_cases hne : List.replicate k DOTDOT ++ names = []
  · have hk : k = 0 := by
      cases k with
      | zero => rfl
      | succ k => simp [List.replicate_succ] at hne
    have hn : names = [] := by simpa using (List.append_eq_nil_iff.mp hne).2
    subst hk; subst hn
    have : relStr 0 ([] ++ [x]) = x := by simp [relStr, joinSep]
    rw [this]
    simp only [hx.1, ne_eq, not_false_eq_true, if_true, dirname_nosep x hx.2.2.2,
      tailPart_nosep x hx.2.2.2, hx.2.2.1, if_false]
    simp [relStr, joinSep]
  · rw [relStr_snoc k names x hne]
    have h1 : relStr k names ≠ [] := fun e => hne ((joinSep_eq_nil _ hp).mp e)
    have h2 : endsWithSep (relStr k names) = false := joinSep_endsWithSep _ hp
    have h3 : relStr k names ++ '/' :: x ≠ [] := by simp
    simp only [h3, ne_eq, not_false_eq_true, if_true, dirname_append _ x hx.2.2.2 h1 h2,
      tailPart_append _ x hx.2.2.2, hx.2.2.1, if_false]

theorem relStr_ups (k : Nat) : relStr (k + 1) [] = relStr k [DOTDOT] := by
  simp [relStr, List.replicate_succ']

theorem parentPath_relStr_ups (k : Nat) : parentPath (relStr k []) = relStr (k + 1) [] := by
  cases k with
  | zero => decide
  | succ k =>
    have hp := relPieces k [] (by simp)
    have hpd : Piece DOTDOT := piece_dotdot
    -- relStr (k+1) [] = relStr k [] joined with ".."
    have e1 : relStr (k + 1) [] = joinSep (List.replicate k DOTDOT ++ [DOTDOT]) := by
      simp [relStr, List.replicate_succ']
    have e2 : relStr (k + 2) [] = joinSep ((List.replicate k DOTDOT ++ [DOTDOT]) ++ [DOTDOT]) := by
      simp [relStr, List.replicate_succ']
    have hp1 : ∀ c ∈ List.replicate k DOTDOT ++ [DOTDOT], Piece c := by
      intro c hc
      simp only [List.mem_append, List.mem_replicate, List.mem_singleton] at hc
      rcases hc with ⟨_, rfl⟩ | rfl <;> exact piece_dotdot
    unfold parentPath psplit
    rw [e2, ← pjoin_joinSep _ _ hp1 hpd, e1]
    by_cases hk : List.replicate k DOTDOT = []
    · have : k = 0 := by
        cases k with
        | zero => rfl
        | succ k => simp [List.replicate_succ] at hk
      subst this
      decide
    · have hne : List.replicate k DOTDOT ++ ([] : List Str) ≠ [] := by simpa using hk
      have hj : joinSep (List.replicate k DOTDOT ++ [DOTDOT]) =
          joinSep (List.replicate k DOTDOT) ++ '/' :: DOTDOT :=
        joinSep_append_singleton _ _ hk
      have hp0 : ∀ c ∈ List.replicate k DOTDOT, Piece c := by
        intro c hc
        simp only [List.mem_replicate] at hc
        rcases hc with ⟨_, rfl⟩; exact piece_dotdot
      have h1 : joinSep (List.replicate k DOTDOT) ≠ [] := fun e => hk ((joinSep_eq_nil _ hp0).mp e)
      have h2 := joinSep_endsWithSep _ hp0
      rw [hj]
      have h3 : joinSep (List.replicate k DOTDOT) ++ '/' :: DOTDOT ≠ [] := by simp
      simp only [h3, ne_eq, not_false_eq_true, if_true, dirname_append _ DOTDOT hpd.2 h1 h2,
        tailPart_append _ DOTDOT hpd.2]
      rw [pjoin_joinSep _ _ hp0 hpd, ← hj]

/-- k-th ancestor of a location -/
def up (k : Nat) (l : Loc) : Loc := l.take (l.length - k)

theorem up_zero (l : Loc) : up 0 l = l := by simp [up]

theorem dropLast_up (k : Nat) (l : Loc) : (up k l).dropLast = up (k + 1) l := by
  unfold up
  rw [List.dropLast_eq_take, List.take_take, List.length_take]
  congr 1
  omega

/-- `path` (a string built by `_joinrealpath`) names the location `l` -/
inductive Rep (cwd : Loc) : Str → Loc → Prop
  | abs (l : Loc) : (∀ c ∈ l, Clean c) → Rep cwd (render l) l
  | rel (k : Nat) (names : List Str) : (∀ c ∈ names, Clean c) →
      Rep cwd (relStr k names) (up k cwd ++ names)

theorem Rep.root (cwd : Loc) : Rep cwd ['/'] [] := by
  have := Rep.abs (cwd := cwd) [] (by simp)
  simpa [render, joinSep] using this

theorem Rep.empty (cwd : Loc) : Rep cwd [] cwd := by
  have := Rep.rel (cwd := cwd) 0 [] (by simp)
  simpa [relStr, joinSep, up_zero] using this

theorem Rep.push {cwd : Loc} {path : Str} {l : Loc} (h : Rep cwd path l) {name : Str}
    (hn : Clean name) : Rep cwd (pjoin path name) (l ++ [name]) := by
  cases h with
  | abs l hl =>
    rw [pjoin_render l name (fun c hc => (hl c hc).piece) hn.piece]
    exact Rep.abs _ (by
      intro c hc
      simp only [List.mem_append, List.mem_singleton] at hc
      rcases hc with hc | rfl
      · exact hl c hc
      · exact hn)
  | rel k names hl =>
    rw [pjoin_relStr k names name (fun c hc => (hl c hc).piece) hn.piece, List.append_assoc]
    exact Rep.rel _ _ (by
      intro c hc
      simp only [List.mem_append, List.mem_singleton] at hc
      rcases hc with hc | rfl
      · exact hl c hc
      · exact hn)

theorem Rep.parent {cwd : Loc} {path : Str} {l : Loc} (h : Rep cwd path l) :
    Rep cwd (parentPath path) l.dropLast := by
  cases h with
  | abs l hl =>
    rw [parentPath_render l hl]
    exact Rep.abs _ (fun c hc => hl c (List.dropLast_subset _ hc))
  | rel k names hl =>
    rcases eq_nil_or_snoc names with rfl | ⟨n', x, rfl⟩
    · rw [parentPath_relStr_ups, List.append_nil, dropLast_up]
      have := Rep.rel (cwd := cwd) (k + 1) [] (by simp)
      simpa using this
    · rw [parentPath_relStr_names k n' x (fun c hc => hl c (by simp [hc])) (hl x (by simp)),
        ← List.append_assoc, List.dropLast_concat]
      exact Rep.rel _ _ (fun c hc => hl c (by simp [hc]))

end IrVerif.Path

namespace IrVerif.Path

theorem isabs_render (l : Loc) : isabs (render l) = true := by simp [render, isabs]

theorem replicate_append_inj (k1 k2 : Nat) (n1 n2 : List Str)
    (h1 : ∀ c ∈ n1, c ≠ DOTDOT) (h2 : ∀ c ∈ n2, c ≠ DOTDOT)
    (e : List.replicate k1 DOTDOT ++ n1 = List.replicate k2 DOTDOT ++ n2) : k1 = k2 ∧ n1 = n2 := by
  induction k1 generalizing k2 with
  | zero =>
    cases k2 with
    | zero => simpa using e
    | succ k2 =>
      simp only [List.replicate_zero, List.nil_append, List.replicate_succ, List.cons_append] at e
      exact absurd rfl (h1 DOTDOT (by rw [e]; simp))
  | succ k1 ih =>
    cases k2 with
    | zero =>
      simp only [List.replicate_zero, List.nil_append, List.replicate_succ, List.cons_append] at e
      exact absurd rfl (h2 DOTDOT (by rw [← e]; simp))
    | succ k2 =>
      simp only [List.replicate_succ, List.cons_append, List.cons.injEq, true_and] at e
      have := ih k2 e
      exact ⟨by omega, this.2⟩

theorem Rep.inv {cwd : Loc} {s : Str} {l : Loc} (h : Rep cwd s l) :
    ((∀ c ∈ l, Clean c) ∧ s = render l) ∨
    (∃ k names, (∀ c ∈ names, Clean c) ∧ s = relStr k names ∧ l = up k cwd ++ names) := by
  cases h with
  | abs _ hl => exact Or.inl ⟨hl, rfl⟩
  | rel k names hn => exact Or.inr ⟨k, names, hn, rfl, rfl⟩

/-- a path string names at most one location -/
theorem Rep.functional {cwd : Loc} {s : Str} {l1 l2 : Loc} (h1 : Rep cwd s l1) (h2 : Rep cwd s l2) :
    l1 = l2 := by
  rcases h1.inv with ⟨hl, hs⟩ | ⟨k, names, hn, hs, rfl⟩
  · rcases h2.inv with ⟨hl', hs'⟩ | ⟨k', names', hn', hs', rfl⟩
    · have e : joinSep l1 = joinSep l2 := by
        have := hs.symm.trans hs'
        simpa [render] using this
      have := congrArg comps e
      rwa [comps_joinSep_piece _ (fun c hc => (hl c hc).piece),
        comps_joinSep_piece _ (fun c hc => (hl' c hc).piece)] at this
    · have := congrArg isabs (hs.symm.trans hs')
      rw [isabs_render, relStr, joinSep_isabs _ (relPieces k' names' (fun c hc => (hn' c hc).piece))] at this
      exact absurd this (by simp)
  · rcases h2.inv with ⟨hl', hs'⟩ | ⟨k', names', hn', hs', rfl⟩
    · have := congrArg isabs (hs.symm.trans hs')
      rw [isabs_render, relStr, joinSep_isabs _ (relPieces k names (fun c hc => (hn c hc).piece))] at this
      exact absurd this (by simp)
    · have := congrArg comps (hs.symm.trans hs')
      unfold relStr at this
      rw [comps_joinSep_piece _ (relPieces k names (fun c hc => (hn c hc).piece)),
        comps_joinSep_piece _ (relPieces k' names' (fun c hc => (hn' c hc).piece))] at this
      obtain ⟨hk, hnn⟩ := replicate_append_inj k k' names names'
        (fun c hc => (hn c hc).2.2.1) (fun c hc => (hn' c hc).2.2.1) this
      subst hk; subst hnn; rfl

theorem splitroot_rooted (t : Str) (ht : isabs t = false) : splitroot ('/' :: t) = (1, t) := by
  cases t with
  | nil => simp [splitroot]
  | cons c r =>
    have hc : c ≠ '/' := by simpa [isabs] using ht
    simp [splitroot, hc]

theorem normpath_rooted (t : Str) (ht : isabs t = false) :
    normpath ('/' :: t) = '/' :: joinSep ((splitSep t).foldl (normStep true) []).reverse := by
  have habs : isabs ('/' :: t) = true := by simp [isabs]
  rw [normpath_abs _ habs]
  unfold normStack
  rw [splitroot_rooted t ht]
  simp

theorem foldl_normStep_clean_push (names st : List Str) (h : ∀ c ∈ names, Clean c) :
    names.foldl (normStep true) st = names.reverse ++ st := by
  induction names generalizing st with
  | nil => simp
  | cons a t ih =>
    have ha := h a (by simp)
    simp only [List.foldl_cons]
    have : normStep true st a = a :: st := by
      unfold normStep
      simp [ha.1, ha.2.1, ha.2.2.1]
    rw [this, ih _ (fun c hc => h c (by simp [hc]))]
    simp

theorem foldl_normStep_ups (k : Nat) (st : List Str) (h : ∀ c ∈ st, Clean c) :
    (List.replicate k DOTDOT).foldl (normStep true) st = st.drop k := by
  induction k generalizing st with
  | zero => simp
  | succ k ih =>
    simp only [List.replicate_succ, List.foldl_cons]
    have : normStep true st DOTDOT = st.tail := by
      unfold normStep
      have h1 : ¬ (DOTDOT = ([] : Str) ∨ DOTDOT = DOT) := by decide
      have h2 : ¬ (DOTDOT ≠ DOTDOT ∨ (true = false ∧ st = []) ∨ st.head? = some DOTDOT) := by
        simp only [ne_eq, not_true_eq_false, Bool.true_eq_false, false_and, false_or]
        cases st with
        | nil => simp
        | cons x t =>
          simp only [List.head?_cons, Option.some.injEq]
          exact (h x (by simp)).2.2.1
      simp only [h1, h2, if_false]
    rw [this, ih _ (fun c hc => h c (List.mem_of_mem_tail hc))]
    simp

theorem reverse_drop_reverse (k : Nat) (l : Loc) : (l.reverse.drop k).reverse = up k l := by
  unfold up
  rw [List.drop_reverse]
  simp

theorem normStep_skip (st : List Str) : normStep true st [] = st := by simp [normStep]

/-- `abspath(cwd_string, path)` of a string that names `l` is the rendering of `l`
(the last step of `realpath`, posixpath.py:436) -/
theorem Rep.abspath_eq {cwd : Loc} {path : Str} {l : Loc} (h : Rep cwd path l)
    (hcwd : ∀ c ∈ cwd, Clean c) : abspath (render cwd) path = render l := by
  cases h with
  | abs l hl =>
    unfold abspath
    simp only [isabs_render, if_true]
    unfold render
    rw [normpath_rooted _ (joinSep_isabs l (fun c hc => (hl c hc).piece))]
    by_cases hn : l = []
    · subst hn; simp [joinSep, splitSep, normStep_skip]
    · rw [splitSep_joinSep l (fun c hc => (hl c hc).2.2.2) hn, foldl_normStep_clean_push l [] hl]
      simp
  | rel k names hn =>
    have hp := relPieces k names (fun c hc => (hn c hc).piece)
    have hcp : ∀ c ∈ cwd, Piece c := fun c hc => (hcwd c hc).piece
    unfold abspath
    have hna : isabs (relStr k names) = false := joinSep_isabs _ hp
    simp only [hna, Bool.false_eq_true, if_false]
    -- the joined string is "/" followed by the join of cwd ++ ups ++ names (maybe a trailing "/")
    have key : ∀ M : List Str, (∀ c ∈ M, Piece c) →
        ((splitSep (joinSep M)).foldl (normStep true) []) = (M.foldl (normStep true) []) := by
      intro M hM
      by_cases hMn : M = []
      · subst hMn; simp [joinSep, splitSep, normStep_skip]
      · rw [splitSep_joinSep M (fun c hc => (hM c hc).2) hMn]
    have hfold : ((cwd ++ (List.replicate k DOTDOT ++ names)).foldl (normStep true) []).reverse
        = up k cwd ++ names := by
      rw [List.foldl_append, List.foldl_append, foldl_normStep_clean_push cwd [] hcwd,
        foldl_normStep_ups k _ (by simpa using hcwd), foldl_normStep_clean_push names _ hn]
      simp [reverse_drop_reverse]
    have hMp : ∀ c ∈ cwd ++ (List.replicate k DOTDOT ++ names), Piece c := by
      intro c hc
      rcases List.mem_append.mp hc with hc | hc
      · exact hcp c hc
      · exact hp c hc
    by_cases hL : List.replicate k DOTDOT ++ names = []
    · -- path = "" : join gives cwd + "/" (or "/" itself for the root)
      have hrel : relStr k names = [] := by simp [relStr, hL, joinSep]
      have hk : k = 0 := by
        cases k with
        | zero => rfl
        | succ k => simp [List.replicate_succ] at hL
      have hnm : names = [] := (List.append_eq_nil_iff.mp hL).2
      subst hk; subst hnm
      rw [hrel]
      simp only [up_zero, List.append_nil]
      by_cases hc : cwd = []
      · subst hc; decide
      · have he := render_endsWithSep cwd hcp hc
        unfold pjoin
        simp only [isabs, Bool.false_eq_true, if_false, render_ne_nil, he, or_self]
        unfold render
        simp only [List.cons_append]
        have hab : isabs (joinSep cwd ++ ['/']) = false := by
          have := joinSep_isabs cwd hcp
          have hne : joinSep cwd ≠ [] := fun e => hc ((joinSep_eq_nil cwd hcp).mp e)
          cases hj : joinSep cwd with
          | nil => exact absurd hj hne
          | cons a r => rw [hj] at this; simpa [isabs] using this
        rw [normpath_rooted _ hab, splitSep_append_sep, splitSep_joinSep cwd (fun c hc' => (hcp c hc').2) hc]
        simp only [splitSep, List.foldl_append, List.foldl_cons, List.foldl_nil, normStep_skip]
        rw [foldl_normStep_clean_push cwd [] hcwd]
        simp
    · have hrne : relStr k names ≠ [] := fun e => hL ((joinSep_eq_nil _ hp).mp e)
      have hj : pjoin (render cwd) (relStr k names) =
          '/' :: joinSep (cwd ++ (List.replicate k DOTDOT ++ names)) := by
        unfold pjoin
        simp only [hna, Bool.false_eq_true, if_false, render_ne_nil, false_or]
        by_cases hc : cwd = []
        · subst hc
          simp [render, joinSep, endsWithSep, relStr]
        · have he := render_endsWithSep cwd hcp hc
          simp only [he, Bool.false_eq_true, if_false]
          unfold render relStr
          -- joinSep (cwd ++ L) = joinSep cwd ++ '/' :: joinSep L
          have : ∀ (A B : List Str), A ≠ [] → B ≠ [] →
              joinSep (A ++ B) = joinSep A ++ '/' :: joinSep B := by
            intro A B hA hB
            induction A with
            | nil => exact absurd rfl hA
            | cons a t ih =>
              cases t with
              | nil =>
                cases B with
                | nil => exact absurd rfl hB
                | cons b B' => simp [joinSep]
              | cons a' t' =>
                have := ih (by simp)
                simp only [List.cons_append, joinSep] at this ⊢
                rw [this]; simp
          rw [this cwd _ hc hL]
          simp
      rw [hj, normpath_rooted _ (joinSep_isabs _ hMp), key _ hMp, hfold]
      rfl

end IrVerif.Path

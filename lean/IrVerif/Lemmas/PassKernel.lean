/-
C14 (second deepening): RemoveUnusedNodes / IdentityElimination as kernel programs keep C01's invariant and
are the replay of the calls they issued.
-/
import IrVerif.Model.PassKernel
import IrVerif.Lemmas.KernelOps
namespace IrVerif.PassKernel
open IrVerif.Kernel

/-- what every step of a kernel program keeps: the world is well formed and is the world the issued calls
    produce from the start world -/
structure KInv (w0 : World) (s : KSt) : Prop where
  wf : WF s.w
  rep : s.w = replay w0 s.trace.reverse

theorem KInv.call {w0 : World} {s : KSt} (h : KInv w0 s) (op : AnyOp) : KInv w0 (s.call op) := by
  unfold KSt.call
  split
  · exact h
  · refine ⟨stepAny_WF s.w op h.wf, ?_⟩
    simp only [replay, List.reverse_cons, List.foldl_append, List.foldl_cons, List.foldl_nil]
    have := h.rep
    simp only [replay] at this
    rw [← this]

theorem KInv.fail {w0 : World} {s : KSt} (h : KInv w0 s) : KInv w0 s.fail := ⟨h.wf, h.rep⟩

theorem foldl_kinv {β : Type} (w0 : World) (f : KSt → β → KSt) (hf : ∀ s b, KInv w0 s → KInv w0 (f s b)) :
    ∀ (l : List β) (s : KSt), KInv w0 s → KInv w0 (l.foldl f s)
  | [], _, h => h
  | b :: l, s, h => foldl_kinv w0 f hf l (f s b) (hf s b h)

theorem dceGraphK_inv (w0 : World) : ∀ (fuel : Nat) (s : KSt) (g : Nat), KInv w0 s → KInv w0 (dceGraphK fuel s g)
  | 0, _, _, h => h
  | fuel + 1, s, g, h => by
    simp only [dceGraphK]
    refine foldl_kinv w0 _ (fun s n hs => ?_) _ s h
    split
    · exact hs
    · split
      · exact hs.call _
      · refine foldl_kinv w0 _ (fun s a hs => ?_) _ _ ?_
        · exact foldl_kinv w0 _ (fun s sub hs => dceGraphK_inv w0 fuel s sub hs) _ s hs
        · split
          · exact hs
          · exact hs.call _

theorem dceModelK_inv (fuel : Nat) (w : World) (g : Nat) (funcs : List Nat) (h : WF w) :
    KInv w (dceModelK fuel w g funcs) := by
  have h0 : KInv w ⟨w, false, []⟩ := ⟨h, rfl⟩
  simp only [dceModelK]
  refine foldl_kinv w _ (fun s f hs => dceGraphK_inv w fuel s f hs) _ _ ?_
  refine foldl_kinv w _ (fun s p hs => ?_) _ _ (dceGraphK_inv w fuel _ g h0)
  split
  · exact hs
  · split
    · split
      · exact hs.call _
      · exact hs.fail
    · exact hs

theorem ieNodeK_inv (w0 : World) (exact : Bool) (s : KSt) (n : Nat) (h : KInv w0 s) : KInv w0 (ieNodeK exact s n) := by
  unfold ieNodeK
  split
  · exact h
  · split
    · exact h
    · split
      · split
        · exact h.fail
        · split
          · exact h
          · split
            · exact h
            · split
              · exact h
              · refine KInv.call ?_ _
                split
                · exact (h.call _).call _
                · exact h.call _
      · exact h

theorem ieGraphK_inv (w0 : World) (exact : Bool) : ∀ (fuel : Nat) (s : KSt) (g : Nat), KInv w0 s →
    KInv w0 (ieGraphK exact fuel s g)
  | 0, _, _, h => h
  | fuel + 1, s, g, h => by
    simp only [ieGraphK]
    refine foldl_kinv w0 _ (fun s n hs => ?_) _ s h
    refine foldl_kinv w0 _ (fun s a hs => ?_) _ _ (ieNodeK_inv w0 exact s n hs)
    exact foldl_kinv w0 _ (fun s sub hs => ieGraphK_inv w0 exact fuel s sub hs) _ s hs

theorem ieModelK_inv (exact : Bool) (fuel : Nat) (w : World) (g : Nat) (funcs : List Nat) (h : WF w) :
    KInv w (ieModelK exact fuel w g funcs) := by
  have h0 : KInv w ⟨w, false, []⟩ := ⟨h, rfl⟩
  simp only [ieModelK]
  exact foldl_kinv w _ (fun s f hs => ieGraphK_inv w exact fuel s f hs) _ _ (ieGraphK_inv w exact fuel _ g h0)

theorem rmInitInputsK_inv (w : World) (g : Nat) (h : WF w) : KInv w (rmInitInputsK w g) := by
  have h0 : KInv w ⟨w, false, []⟩ := ⟨h, rfl⟩
  simp only [rmInitInputsK]
  exact (h0.call _).call _

theorem addInitInputsK_inv (w : World) (g : Nat) (h : WF w) : KInv w (addInitInputsK w g) := by
  have h0 : KInv w ⟨w, false, []⟩ := ⟨h, rfl⟩
  simp only [addInitInputsK]
  refine foldl_kinv w _ (fun s v hs => ?_) _ _ h0
  split
  · exact hs
  · exact hs.call _

theorem newIdentity_inv {w0 : World} {s : KSt} (h : KInv w0 s) (o : Nat) : KInv w0 (newIdentity s o) := h.call _

theorem ofixMultiK_inv (w0 : World) (s : KSt) (g : Nat) (h : KInv w0 s) : KInv w0 (ofixMultiK s g) := by
  unfold ofixMultiK
  have key : ∀ (l : List (Nat × Nat)) (p : KSt × List Nat), KInv w0 p.1 →
      KInv w0 (l.foldl (fun (p : KSt × List Nat) (io : Nat × Nat) =>
        if p.1.raised then p
        else if !p.2.contains io.2 then (p.1, io.2 :: p.2)
        else
          (((((newIdentity p.1 io.2).call (.one (.setName p.1.w.vals.length
              (some (nameStr ((newIdentity p.1 io.2).w.val io.2).name ++ "_alias_" ++ toString io.1))))).call
            (.one (.append g p.1.w.nodes.length))).call (.one (.io g .out (.setItem (Int.ofNat io.1) p.1.w.vals.length)))), p.2)) p).1 := by
    intro l
    induction l with
    | nil => intro p hp; exact hp
    | cons io l ih =>
      intro p hp
      simp only [List.foldl_cons]
      apply ih
      split
      · exact hp
      · split
        · exact hp
        · exact (((newIdentity_inv hp _).call _).call _).call _
  exact key _ (s, []) h

theorem ofixDirectK_inv (w0 : World) (s : KSt) (g : Nat) (h : KInv w0 s) : KInv w0 (ofixDirectK s g) := by
  unfold ofixDirectK
  refine foldl_kinv w0 _ (fun s io hs => ?_) _ _ h
  split
  · exact hs
  · exact ((((newIdentity_inv hs _).call _).call _).call _).call _

theorem ofixGraphLikeK_inv (w0 : World) (fuel : Nat) (s : KSt) (g : Nat) (h : KInv w0 s) :
    KInv w0 (ofixGraphLikeK fuel s g) := by
  simp only [ofixGraphLikeK]
  exact foldl_kinv w0 _ (fun s g hs => ofixDirectK_inv w0 s g hs) _ _
    (foldl_kinv w0 _ (fun s g hs => ofixMultiK_inv w0 s g hs) _ _ h)

theorem ofixModelK_inv (fuel : Nat) (w : World) (g : Nat) (funcs : List Nat) (h : WF w) :
    KInv w (ofixModelK fuel w g funcs) := by
  have h0 : KInv w ⟨w, false, []⟩ := ⟨h, rfl⟩
  simp only [ofixModelK]
  exact foldl_kinv w _ (fun s f hs => ofixGraphLikeK_inv w fuel s f hs) _ _ (ofixGraphLikeK_inv w fuel _ g h0)

end IrVerif.PassKernel

/-
The IR version < 10 format in the extended model: what is proved about `deserializeME9` / `serializeME9` beyond
erasure (`ScopeExt9Erase`) and inertness of the experimental entries for the main graph (`ScopeExt9Inert`):

* `post_reloadable` (core): the world that the post-pass of `deserializeM9` leaves satisfies the resolution
  certificate `ReloadableM` (the post-pass writes infos that are a function of the name among a function's values);
* `deserializeME9_core_reloadable`, `deserializeME9_keys`, `deserializeME9_wf`: certificate of the core, the main
  graph's initializers are keyed by the name of their value, representation invariant of the extension state;
* `mem_expOfFuncE`: the experimental entries `serializeME9` writes, exactly;
* `idempotent_ext_ir9_partial`, `roundtrip_ext_ir9_partial`: the parts of the fix-point / round trip that are proved.
-/
import IrVerif.Lemmas.ScopeExt9Erase
import IrVerif.Lemmas.ScopeExt9Inert
import IrVerif.Lemmas.ScopeFunc9Idem
import IrVerif.Lemmas.ScopeExtFuncDeser
import IrVerif.Lemmas.ScopeExtModel
namespace IrVerif.Scope

/-! ### the core certificate after the post-pass -/

/-- the post-pass keeps the certificate: any info that agrees with the store outside the function values and is a
    function of the (truthy) name among the values of a function -/
theorem post_reloadable (w : MWorld) (h : ReloadableM w) (J : Nat → Info)
    (hJ : ∀ v, (∀ f ∈ w.funcs, v ∉ fvals f.2) → J v = (w.st.vals v).info)
    (hSI : ∀ f ∈ w.funcs, ∀ a ∈ fvals f.2, ∀ b ∈ fvals f.2, nameTruthy (w.st.vals a).name = true →
      (w.st.vals a).name = (w.st.vals b).name → (J a).emit = (J b).emit) :
    ReloadableM (withInfo w J) := by
  have h0 := h
  obtain ⟨hok, hfok, hnd, hids⟩ := h
  have agree : ∀ v, nameTruthy (w.st.vals v).name = true → inSB w.st.vals w.funcs v = false →
      J v = (w.st.vals v).info := by
    intro v ht hs
    apply hJ
    intro f hf hvf
    have : inSB w.st.vals w.funcs v = true := (inSB_iff _ _ _).mpr ⟨ht, f, hf, hvf⟩
    rw [hs] at this
    cases this
  obtain ⟨r1, r2⟩ := replG_setInfo w.st.vals J w.root []
    (fun v hv ht => agree v ht (notS_root w h0 v hv))
  have hF : ∀ f ∈ w.funcs, (replF (setInfo w.st.vals J) f.2).new = (replF w.st.vals f.2).new ∧
      ((replF w.st.vals f.2).ok → (replF (setInfo w.st.vals J) f.2).ok) := by
    intro f hf
    obtain ⟨k, gid, ins, inits, nodes, outs⟩ := f
    apply replF_setInfo
    · intro a ha b hb ht hn
      simp only [GraphT.inputs] at ha hb
      exact hSI _ hf a (by simp [fvals, GraphT.inputs, ha]) b (by simp [fvals, GraphT.inputs, hb]) ht hn
    · intro v hv ht
      exact agree v ht (notS_nodes w h0 k gid ins inits nodes outs hf v hv)
  refine ⟨r2 hok, fun f hf => (hF f hf).2 (hfok f hf), ?_, hids⟩
  show ((replG (setInfo w.st.vals J) [] w.root).new ++
    w.funcs.flatMap fun f => (replF (setInfo w.st.vals J) f.2).new).Nodup
  rw [r1, flatMap_congr_mem _ _ w.funcs (fun f hf => (hF f hf).1)]
  exact hnd

/-- every model `deserializeM9` returns satisfies the resolution certificate -/
theorem deserializeM9_reloadable (P : ModelP) (m : MWorld) (hd : deserializeM9 P = .ok m) : ReloadableM m := by
  simp only [deserializeM9] at hd
  split at hd
  · simp at hd
  · rename_i m0 hm0
    simp only [Except.ok.injEq] at hd
    have h0 := deserializeM_reloadable_all P m0 hm0
    have hpost := postFold_setInfo P.graph.vinfo (m0.funcs.map (·.1)) m0.funcs m0.st
    have hJ0 : ∃ J : Nat → Info,
        J = fun v => ((postFold P.graph.vinfo (m0.funcs.map (·.1)) m0.funcs m0.st).vals v).info := ⟨_, rfl⟩
    obtain ⟨J, hJdef⟩ := hJ0
    have e1 : m0.funcs.foldl (applyExpFunc P.graph.vinfo (m0.funcs.map (·.1))) m0.st =
        postFold P.graph.vinfo (m0.funcs.map (·.1)) m0.funcs m0.st := rfl
    rw [e1, hpost] at hd
    have hm : m = withInfo m0 J := by
      rw [← hd, hJdef]
      rfl
    rw [hm]
    apply post_reloadable m0 h0 J
    · intro v h
      rw [hJdef]
      show ((postFold P.graph.vinfo (m0.funcs.map (·.1)) m0.funcs m0.st).vals v).info = _
      rw [postFold_out _ _ v _ _ h]
    · intro f hf a ha b hb ht hn
      have := post_sameInfo m0 h0 P.graph.vinfo (m0.funcs.map (·.1)) f hf a b ha hb ht hn
      rw [hJdef]
      exact this

theorem deserializeME9_core_reloadable (p : ModelE) (w : MWorldE) (hd : deserializeME9 p = .ok w) :
    ReloadableM w.core := by
  have he := deserializeME9_erase p
  rw [hd] at he
  exact deserializeM9_reloadable _ _ he

theorem deserializeME9_keys (p : ModelE) (w : MWorldE) (hd : deserializeME9 p = .ok w) :
    ∀ kv ∈ w.root.inits, (w.st.vals kv.2).name = some kv.1 :=
  hkeys_of_ok w.st.vals w.root [] (deserializeME9_core_reloadable p w hd).1

/-! ### the representation invariant after the post-pass -/

theorem applyInfosE_wf (tbl : List (Name × Info × SS)) : ∀ (vs : List Nat) (st : Store) (x : Ext), ExtWF x →
    ExtWF (applyInfosE st x tbl vs).2
  | [], _, _, h => h
  | v :: vs, st, x, h => by
    simp only [applyInfosE]
    split
    · exact applyInfosE_wf tbl vs st x h
    · split
      · exact applyInfosE_wf tbl vs _ _ (h.merge v _)
      · exact applyInfosE_wf tbl vs st x h

theorem applyExpFuncE_wf (vi : List VInfoE) (fids : List FId) (sx : Store × Ext) (f : FId × GraphT) (h : ExtWF sx.2) :
    ExtWF (applyExpFuncE vi fids sx f).2 := by
  obtain ⟨id, g⟩ := f
  cases g with
  | mk gid ins its nodes outs =>
    simp only [applyExpFuncE]
    exact applyInfosE_wf _ _ _ _ (applyInfosE_wf _ _ _ _ h)

theorem foldl_applyExpFuncE_wf (vi : List VInfoE) (fids : List FId) : ∀ (fs : List (FId × GraphT)) (sx : Store × Ext),
    ExtWF sx.2 → ExtWF (fs.foldl (applyExpFuncE vi fids) sx).2
  | [], _, h => h
  | f :: fs, sx, h => by
    simp only [List.foldl_cons]
    exact foldl_applyExpFuncE_wf vi fids fs _ (applyExpFuncE_wf vi fids sx f h)

theorem deserializeME9_wf (p : ModelE) (w : MWorldE) (hd : deserializeME9 p = .ok w) : ExtWF w.ext := by
  simp only [deserializeME9] at hd
  split at hd
  · simp at hd
  · rename_i m hm
    simp only [Except.ok.injEq] at hd
    rw [← hd]
    exact foldl_applyExpFuncE_wf _ _ _ _ (deserializeME_wf p m hm)

/-! ### the quantization annotations and device configurations are not touched by the post-pass -/

theorem merge_quant (x : Ext) (v : Nat) (es : SS) : (x.merge v es).quant = x.quant ∧ (x.merge v es).devs = x.devs := by
  unfold Ext.merge
  split
  · exact ⟨rfl, rfl⟩
  · exact ⟨rfl, rfl⟩

theorem applyInfosE_quant (tbl : List (Name × Info × SS)) : ∀ (vs : List Nat) (st : Store) (x : Ext),
    (applyInfosE st x tbl vs).2.quant = x.quant ∧ (applyInfosE st x tbl vs).2.devs = x.devs
  | [], _, _ => ⟨rfl, rfl⟩
  | v :: vs, st, x => by
    simp only [applyInfosE]
    split
    · exact applyInfosE_quant tbl vs st x
    · split
      · rename_i e _
        have ih := applyInfosE_quant tbl vs (st.modify v fun c => { c with info := e.1 }) (x.merge v e.2)
        have hm := merge_quant x v e.2
        exact ⟨ih.1.trans hm.1, ih.2.trans hm.2⟩
      · exact applyInfosE_quant tbl vs st x

theorem foldl_applyExpFuncE_quant (vi : List VInfoE) (fids : List FId) : ∀ (fs : List (FId × GraphT)) (sx : Store × Ext),
    (fs.foldl (applyExpFuncE vi fids) sx).2.quant = sx.2.quant ∧ (fs.foldl (applyExpFuncE vi fids) sx).2.devs = sx.2.devs
  | [], _ => ⟨rfl, rfl⟩
  | f :: fs, sx => by
    simp only [List.foldl_cons]
    have ih := foldl_applyExpFuncE_quant vi fids fs (applyExpFuncE vi fids sx f)
    obtain ⟨id, g⟩ := f
    cases g with
    | mk gid ins its nodes outs =>
      have h1 := applyInfosE_quant ((expEntriesForE fids vi id).reverse) ins sx.1 sx.2
      have h2 := applyInfosE_quant ((expEntriesForE fids vi id).reverse) (nodes.flatMap NodeT.outputs)
        (applyInfosE sx.1 sx.2 ((expEntriesForE fids vi id).reverse) ins).1
        (applyInfosE sx.1 sx.2 ((expEntriesForE fids vi id).reverse) ins).2
      simp only [applyExpFuncE] at ih ⊢
      exact ⟨ih.1.trans (h2.1.trans h1.1), ih.2.trans (h2.2.trans h1.2)⟩

/-! ### the experimental entries that are written -/

theorem mem_expVInfoE (V : Nat → ValueS) (x : Ext) (R : List Name) (k : FId) (e : VInfoE) : ∀ (l : List Nat),
    e ∈ expVInfoE V x R k l ↔ ∃ u ∈ l, nameTruthy (V u).name = true ∧ shouldCreateE (V u) (x.vmeta u) = true ∧
      canParseBack R k (nm V u) = true ∧
      e = ⟨formatExp k.domain k.name (nm V u), (V u).info.emit, ssSorted (x.vmeta u)⟩
  | [] => by simp [expVInfoE]
  | v :: vs => by
    simp only [expVInfoE]
    have ih := mem_expVInfoE V x R k e vs
    by_cases hc : (nameTruthy (V v).name && shouldCreateE (V v) (x.vmeta v) &&
        canParseBack R k ((V v).name.getD "")) = true
    · rw [if_pos hc]
      simp only [List.mem_cons, ih]
      simp only [Bool.and_eq_true] at hc
      constructor
      · rintro (rfl | ⟨u, hu, h⟩)
        · exact ⟨v, .inl rfl, hc.1.1, hc.1.2, hc.2, rfl⟩
        · exact ⟨u, .inr hu, h⟩
      · rintro ⟨u, hu | hu, h⟩
        · subst hu; exact .inl h.2.2.2
        · exact .inr ⟨u, hu, h⟩
    · rw [if_neg hc]
      simp only [List.mem_cons, ih]
      constructor
      · rintro ⟨u, hu, h⟩
        exact ⟨u, .inr hu, h⟩
      · rintro ⟨u, hu | hu, h⟩
        · subst hu
          exact absurd (by simp only [Bool.and_eq_true]; exact ⟨⟨h.1, h.2.1⟩, h.2.2.1⟩) hc
        · exact ⟨u, hu, h⟩

theorem mem_expOfFuncE (V : Nat → ValueS) (x : Ext) (R : List Name) (f : FId × GraphT) (e : VInfoE) :
    e ∈ expOfFuncE V x R f ↔ f.1.overload = "" ∧ ∃ u ∈ fvals f.2, nameTruthy (V u).name = true ∧
      shouldCreateE (V u) (x.vmeta u) = true ∧ canParseBack R f.1 (nm V u) = true ∧
      e = ⟨formatExp f.1.domain f.1.name (nm V u), (V u).info.emit, ssSorted (x.vmeta u)⟩ := by
  obtain ⟨k, g⟩ := f
  obtain ⟨gid, ins, inits, nodes, outs⟩ := g
  simp only [expOfFuncE]
  by_cases ho : k.overload = ""
  · simp only [ho, bne_self_eq_false, Bool.false_eq_true, if_false, List.mem_append, mem_expVInfoE, fvals, GraphT.inputs,
      GraphT.nodes, true_and]
    constructor
    · rintro (⟨u, hu, h⟩ | ⟨u, hu, h⟩)
      · exact ⟨u, .inl hu, h⟩
      · exact ⟨u, .inr hu, h⟩
    · rintro ⟨u, hu | hu, h⟩
      · exact .inl ⟨u, hu, h⟩
      · exact .inr ⟨u, hu, h⟩
  · have : (k.overload != "") = true := by simpa using ho
    simp [this, ho]

/-- what one experimental entry is: written for a truthy-named value `u` of a function without overload, under a
    name that parses back to that function and value name and is not looked up by the main graph; it carries the
    emitted info and the metadata sorted by key, which a read into an empty dict and a second write reproduce -/
def ExpEntryOK (w : MWorldE) (e : VInfoE) : Prop :=
  ∃ f ∈ w.funcs, f.1.overload = "" ∧ ∃ u ∈ fvals f.2, nameTruthy (w.st.vals u).name = true ∧
    shouldCreateE (w.st.vals u) (w.ext.vmeta u) = true ∧
    e = ⟨formatExp f.1.domain f.1.name (nm w.st.vals u), (w.st.vals u).info.emit, ssSorted (w.ext.vmeta u)⟩ ∧
    parseExp e.name = some (f.1.domain, f.1.name, nm w.st.vals u) ∧
    e.name ∉ reservedNames w.st.vals w.root ∧
    ssUpdate [] e.mprops = e.mprops ∧ ssSorted (ssUpdate [] e.mprops) = e.mprops ∧ e.info.emit = e.info

theorem expEntryOK_of_mem (w : MWorldE) (hwf : ExtWF w.ext) (e : VInfoE)
    (he : e ∈ w.funcs.flatMap (expOfFuncE w.st.vals w.ext (reservedNames w.st.vals w.root))) : ExpEntryOK w e := by
  rw [List.mem_flatMap] at he
  obtain ⟨f, hf, hef⟩ := he
  obtain ⟨hov, u, hu, ht, hsc, hcp, rfl⟩ := (mem_expOfFuncE _ _ _ f e).mp hef
  have hcp' := hcp
  simp only [canParseBack, Bool.and_eq_true, Bool.not_eq_true', beq_iff_eq] at hcp'
  obtain ⟨hres, hparse⟩ := hcp'
  have hpay := meta_payload_fix (w.ext.vmeta u) (hwf u).1
  refine ⟨f, hf, hov, u, hu, ht, hsc, rfl, hparse, ?_, hpay.1, ?_, emit_emit _⟩
  · simp only [List.contains_eq_mem, decide_eq_false_iff_not] at hres
    exact hres
  · show ssSorted (ssUpdate [] (ssSorted (w.ext.vmeta u))) = ssSorted (w.ext.vmeta u)
    exact hpay.2.2

theorem serializeME9_inv (ver : Option Int) (w w1 : MWorldE) (Q : ModelE) (h : serializeME9 ver w = .ok (w1, Q)) :
    ∃ q, serializeME ver w = .ok (w1, q) ∧
      Q.graph = addVInfoE (w.funcs.flatMap (expOfFuncE w.st.vals w.ext (reservedNames w.st.vals w.root))) q.graph ∧
      Q.funcs = q.funcs.map fun f => { f with vinfo := [] } := by
  simp only [serializeME9] at h
  split at h
  · simp at h
  · rename_i w1' q hq
    simp only [Except.ok.injEq, Prod.mk.injEq] at h
    obtain ⟨rfl, rfl⟩ := h
    exact ⟨q, hq, rfl, rfl⟩

theorem addVInfoE_vinfo (E : List VInfoE) (g : GraphE) : (addVInfoE E g).vinfo = g.vinfo ++ E := by
  cases g; rfl

/-- the part of the fix-point of the IR < 10 format of the extended model that is proved (see
    `C17_idempotent_ext_ir9_partial` in Props/C17.lean) -/
theorem idempotent_ext_ir9_partial (ver : Option Int) (p : ModelE) (w : MWorldE) (hd : deserializeME9 p = .ok w) :
    ReloadableM w.core ∧ ExtWF w.ext ∧
    ((∃ e, serializeME9 ver w = .error e ∧ serializeME ver w = .error e) ∨
     ∃ (w1 : MWorldE) (Q q : ModelE) (E : List VInfoE),
      serializeME9 ver w = .ok (w1, Q) ∧ serializeME ver w = .ok (w1, q) ∧
      Q.funcs = (q.funcs.map fun f => { f with vinfo := [] }) ∧
      Q.graph.vinfo = q.graph.vinfo ++ E ∧
      (∀ (st : Store) (x : Ext) (outer : List Table), deserGraphE st x outer Q.graph = deserGraphE st x outer q.graph) ∧
      (∀ e ∈ E, ExpEntryOK w e)) := by
  have hR := deserializeME9_core_reloadable p w hd
  have hwf := deserializeME9_wf p w hd
  refine ⟨hR, hwf, ?_⟩
  cases hs : serializeME9 ver w with
  | error e =>
    left
    refine ⟨e, rfl, ?_⟩
    simp only [serializeME9] at hs
    split at hs
    · rename_i e' he'
      simp only [Except.error.injEq] at hs
      rw [← hs]
      exact he'
    · simp at hs
  | ok r =>
    obtain ⟨w1, Q⟩ := r
    right
    obtain ⟨q, hq, hg, hf⟩ := serializeME9_inv ver w w1 Q hs
    obtain ⟨q', hq', hin⟩ := ext9_entries_inert ver w w1 Q hs (deserializeME9_keys p w hd)
    have hqq : q' = q := by
      rw [hq] at hq'
      simp only [Except.ok.injEq, Prod.mk.injEq] at hq'
      exact hq'.2.symm
    subst hqq
    refine ⟨w1, Q, q', _, rfl, hq, hf, ?_, hin, fun e he => expEntryOK_of_mem w hwf e he⟩
    rw [hg, addVInfoE_vinfo]

/-- IR side: the part of the IR -> proto (IR < 10 format) -> IR round trip that is proved (see
    `C03_roundtrip_ext_ir9_partial` in Props/C03.lean) -/
theorem roundtrip_ext_ir9_partial (ver : Option Int) (w : MWorldE) (h : ReloadableME w) :
    (∃ e, serializeME9 ver w = .error (.dev e)) ∨
    ∃ (w1 : MWorldE) (Q q : ModelE) (E : List VInfoE) (D : MWorldE) (st : Store) (x : Ext),
      serializeME9 ver w = .ok (w1, Q) ∧ serializeME ver w = .ok (w1, q) ∧
      Q.funcs = (q.funcs.map fun f => { f with vinfo := [] }) ∧ Q.graph.vinfo = q.graph.vinfo ++ E ∧
      (∀ e ∈ E, ExpEntryOK w e) ∧
      (∀ (st : Store) (x : Ext) (outer : List Table), deserGraphE st x outer Q.graph = deserGraphE st x outer q.graph) ∧
      deserializeME q = .ok D ∧ deserGraphE {} {} [] Q.graph = .ok (st, x, D.root) ∧
      deserFuncsE st x [] q.funcs = .ok (D.st, D.ext, D.funcs) ∧ ∃ w2, serializeME ver D = .ok (w2, q) := by
  have hkeys : ∀ kv ∈ w.root.inits, (w.st.vals kv.2).name = some kv.1 := hkeys_of_ok w.st.vals w.root [] h.1.1
  rcases reloadableME_ser ver w h with ⟨w1, q, hs⟩ | ⟨e, he⟩
  · right
    have h9 : serializeME9 ver w = .ok (w1, ⟨addVInfoE (w.funcs.flatMap
        (expOfFuncE w.st.vals w.ext (reservedNames w.st.vals w.root))) q.graph,
        q.funcs.map fun f => { f with vinfo := [] }⟩) := by
      simp only [serializeME9, hs]
    obtain ⟨q', hq', hin⟩ := ext9_entries_inert ver w w1 _ h9 hkeys
    have hqq : q' = q := by
      rw [hs] at hq'
      simp only [Except.ok.injEq, Prod.mk.injEq] at hq'
      exact hq'.2.symm
    subst hqq
    obtain ⟨D, w2, hD, hfix⟩ := reloadableME_fixpoint ver w h w1 q' hs
    have hD' := hD
    simp only [deserializeME] at hD'
    split at hD'
    · simp at hD'
    · rename_i st x g hg
      split at hD'
      · simp at hD'
      · rename_i st1 x1 fs hfs
        simp only [Except.ok.injEq] at hD'
        subst hD'
        refine ⟨w1, _, q', _, _, st, x, h9, hs, rfl, addVInfoE_vinfo _ _, fun e he => expEntryOK_of_mem w h.2.2.2 e he, hin,
          hD, ?_, hfs, w2, hfix⟩
        rw [hin {} {} [], hg]
  · left
    exact ⟨e, by simp only [serializeME9, he]⟩

end IrVerif.Scope

/-
C19 - the weak invariant `Wk.DevOK G`: `DevOK` without "one spec per value" and with the axis clauses of `SpecWF`
only for the specs whose target is outside the ghost predicate `G` - is preserved by every operation of the
alphabet (the operations that create copies - clone, round trip, `Function.clone`, `Graph.clone` - when `G` contains
every value id that does not exist yet).  Port of `Lemmas/Device.lean` to the weakened predicates: inside the
namespace `Wk` the names `SpecWF` / `NodeOK` / `DevOK` denote the weak predicates, so that the proofs of
`Lemmas/Device.lean` go through with local changes.  `True` stands where a clause of the strong predicate is dropped.
Core Lean only.
-/
import IrVerif.Lemmas.Device
namespace IrVerif.Device.Wk

/-- `SpecWF` with the axis clauses only outside the ghost predicate -/
def SpecWF (G : VId → Prop) (w : World) (numDev : Int) (s : Spec) : Prop :=
  (¬ G s.value → ∀ d ∈ s.dims, ¬ AxisBad (rankOf (w.value s.value)) d.axis) ∧
  (¬ G s.value → (s.dims.map (fun d => normAxis (rankOf (w.value s.value)) d.axis)).Nodup) ∧
  (∀ d ∈ s.dims, 1 ≤ d.numShards) ∧
  (∀ d ∈ s.device, 0 ≤ d ∧ d < numDev)

/-- `NodeOK` without "one spec per value" (`True` in its place) -/
def NodeOK (G : VId → Prop) (w : World) (nd : NodeS) : Prop :=
  NodeIds w nd ∧
  (nd.dev.map (·.cfg)).Nodup ∧
  ∀ nc ∈ nd.dev,
    nc.cfg < w.cfgs.length ∧
    (∀ st, nc.stage = some st → 0 ≤ st) ∧
    True ∧
    ∀ s ∈ nc.specs, InIO nd s.value ∧ SpecWF G w (w.cfg nc.cfg).numDevices s

def DevOK (G : VId → Prop) (w : World) : Prop :=
  (∀ nd ∈ w.nodes, NodeOK G w nd) ∧ (∀ ms ∈ w.models, ModelOK w ms)

/-- the ghost predicate contains every value id from `n` on (the ids that do not exist yet) -/
class Fresh (G : VId → Prop) (n : Nat) : Prop where
  out : ∀ v, n ≤ v → G v

variable {G : VId → Prop}

theorem NodeOK_of_strong {w : World} {nd : NodeS} (h : IrVerif.Device.NodeOK w nd) : NodeOK G w nd := by
  obtain ⟨a, b, c⟩ := h
  refine ⟨a, b, ?_⟩
  intro nc hnc
  obtain ⟨c1, c2, _, c4⟩ := c nc hnc
  refine ⟨c1, c2, trivial, ?_⟩
  intro s hs
  obtain ⟨d1, d2, d3, d4, d5⟩ := c4 s hs
  exact ⟨d1, fun _ => d2, fun _ => d3, d4, d5⟩

theorem SpecWF.ext {w w' : World} (h : Ext w w') {k : Int} {s : Spec} (hv : s.value < w.values.length)
    (hs : SpecWF G w k s) : SpecWF G w' k s := by
  unfold SpecWF at *
  rw [h.rank _ hv]; exact hs

theorem NodeOK.ext {w w' : World} (h : Ext w w') {nd : NodeS} (hn : NodeOK G w nd) : NodeOK G w' nd := by
  obtain ⟨hids, hnd, hall⟩ := hn
  refine ⟨hids.ext h, hnd, ?_⟩
  intro nc hnc
  obtain ⟨hc, hst, hvn, hsp⟩ := hall nc hnc
  refine ⟨Nat.lt_of_lt_of_le hc h.clen, hst, hvn, ?_⟩
  intro s hs
  obtain ⟨hio, hwf⟩ := hsp s hs
  refine ⟨hio, ?_⟩
  rw [h.cfg _ hc]
  exact hwf.ext h (InIO.lt hids hio)

theorem NodeOK_default (w : World) : NodeOK G w {} := by
  refine ⟨⟨by simp, by simp⟩, by simp, by simp⟩

theorem DevOK.node {w : World} (h : DevOK G w) (n : NId) : NodeOK G w (w.node n) := by
  rcases node_mem_or_default w n with hm | hd
  · exact h.1 _ hm
  · rw [hd]; exact NodeOK_default w

theorem DevOK.model {w : World} (h : DevOK G w) (m : MId) : ModelOK w (w.model m) := by
  rcases model_mem_or_default w m with hm | hd
  · exact h.2 _ hm
  · rw [hd]; exact ModelOK_default w

/-- replacing one node by a node that is fine and only references configurations registered
    wherever the node is listed -/
theorem DevOK_setNode {w : World} (h : DevOK G w) (n : NId) (nd' : NodeS) (hn : NodeOK G w nd')
    (hreg : ∀ ms ∈ w.models, n ∈ ms.nodes → ∀ nc ∈ nd'.dev, nc.cfg ∈ ms.cfgs) :
    DevOK G (w.setNode n nd') := by
  have hext : Ext w (w.setNode n nd') := Ext.of_eq rfl rfl
  constructor
  · intro nd hnd
    have : nd ∈ w.nodes ∨ nd = nd' := by
      unfold World.setNode at hnd
      exact List.mem_or_eq_of_mem_set hnd
    rcases this with h1 | h1
    · exact (h.1 nd h1).ext hext
    · rw [h1]; exact hn.ext hext
  · intro ms hms
    have hms' : ms ∈ w.models := hms
    obtain ⟨h1, h2, h3⟩ := h.2 ms hms'
    refine ⟨?_, ?_, ?_⟩
    · intro k hk
      refine ⟨by simpa using (h1 k hk).1, ?_⟩
      intro nc hnc
      rw [setNode_node] at hnc
      split at hnc
      · rename_i hc
        rw [hc.1] at hk
        exact hreg ms hms' hk nc hnc
      · exact (h1 k hk).2 nc hnc
    · intro c hc; exact h2 c hc
    · exact h3

/-! ### `shard` -/

/-- the spec `shard` creates for a value not yet sharded under the configuration -/
def newSpec (v : VId) (devs : List Int) (newDim : SDim) : Spec := { value := v, device := devs, dims := [newDim] }

/-- the spec `shard` produces when it extends an existing one -/
def extSpec (s : Spec) (devs : List Int) (newDim : SDim) : Spec :=
  { s with device := s.device ++ devs.filter (fun d => decide (d ∉ s.device)), dims := s.dims ++ [newDim] }

theorem mergeSpecs_mem {rank : Option Nat} {v : VId} {axis : Int} {devs : List Int} {newDim : SDim} :
    ∀ {l sp : List Spec}, mergeSpecs rank v axis devs newDim l = some sp →
    ∀ s' ∈ sp, s' ∈ l ∨ s' = newSpec v devs newDim ∨
      ∃ s ∈ l, s.value = v ∧ (¬ ∃ d ∈ s.dims, normAxis rank d.axis = normAxis rank axis) ∧
        s' = extSpec s devs newDim := by
  intro l
  induction l with
  | nil =>
    intro sp h s' hs'
    simp [mergeSpecs] at h
    subst h
    simp at hs'
    right; left; exact hs'
  | cons s rest ih =>
    intro sp h s' hs'
    simp only [mergeSpecs] at h
    split at h
    · rename_i hv
      split at h
      · cases h
      · rename_i hno
        simp at h
        subst h
        simp only [List.mem_cons] at hs'
        rcases hs' with e | e
        · right; right
          exact ⟨s, by simp, hv, hno, by simpa [extSpec] using e⟩
        · left; simp [e]
    · rename_i hv
      cases hm : mergeSpecs rank v axis devs newDim rest with
      | none => simp [hm] at h
      | some sp0 =>
        simp [hm] at h
        subst h
        simp only [List.mem_cons] at hs'
        rcases hs' with e | e
        · left; simp [e]
        · rcases ih hm s' e with h1 | h1 | ⟨s0, hs0, h2⟩
          · left; simp [h1]
          · right; left; exact h1
          · right; right; exact ⟨s0, by simp [hs0], h2⟩

theorem mergeSpecs_values {rank : Option Nat} {v : VId} {axis : Int} {devs : List Int} {newDim : SDim} :
    ∀ {l sp : List Spec}, mergeSpecs rank v axis devs newDim l = some sp →
    sp.map (·.value) = if v ∈ l.map (·.value) then l.map (·.value) else l.map (·.value) ++ [v] := by
  intro l
  induction l with
  | nil => intro sp h; simp [mergeSpecs] at h; subst h; simp
  | cons s rest ih =>
    intro sp h
    simp only [mergeSpecs] at h
    split at h
    · rename_i hv
      split at h
      · cases h
      · simp at h; subst h; simp [hv]
    · rename_i hv
      cases hm : mergeSpecs rank v axis devs newDim rest with
      | none => simp [hm] at h
      | some sp0 =>
        simp [hm] at h
        subst h
        have := ih hm
        have hne : ¬ (v = s.value) := fun e => hv e.symm
        simp only [List.map_cons, List.mem_cons, this, hne, false_or]
        split <;> simp

theorem mergeSpecs_nodup {rank : Option Nat} {v : VId} {axis : Int} {devs : List Int} {newDim : SDim}
    {l sp : List Spec} (h : mergeSpecs rank v axis devs newDim l = some sp)
    (hl : (l.map (·.value)).Nodup) : (sp.map (·.value)).Nodup := by
  rw [mergeSpecs_values h]
  split
  · exact hl
  · rename_i hv
    rw [List.nodup_append]
    refine ⟨hl, by simp, ?_⟩
    intro a ha b hb
    simp at hb
    subst hb
    intro e; subst e; exact hv ha

theorem shardCfgs_mem {rank : Option Nat} {v : VId} {c : CId} {axis : Int} {devs : List Int}
    {newDim : SDim} {stage : Option Int} :
    ∀ {l d : List NodeCfg}, shardCfgs rank v c axis devs newDim stage l = some d →
    ∀ nc' ∈ d, nc' ∈ l ∨ nc' = { cfg := c, specs := [newSpec v devs newDim], stage := stage } ∨
      ∃ e ∈ l, e.cfg = c ∧ ¬ StageConflict stage e.stage ∧
        ∃ sp, mergeSpecs rank v axis devs newDim e.specs = some sp ∧
          nc' = { e with specs := sp, stage := stage <|> e.stage } := by
  intro l
  induction l with
  | nil =>
    intro d h nc' hnc'
    simp [shardCfgs] at h
    subst h
    simp at hnc'
    right; left; exact hnc'
  | cons e rest ih =>
    intro d h nc' hnc'
    simp only [shardCfgs] at h
    split at h
    · rename_i hc
      split at h
      · cases h
      · rename_i hcf
        cases hm : mergeSpecs rank v axis devs newDim e.specs with
        | none => simp [hm] at h
        | some sp =>
          simp [hm] at h
          subst h
          simp only [List.mem_cons] at hnc'
          rcases hnc' with e1 | e1
          · right; right
            exact ⟨e, by simp, hc, hcf, sp, hm, by simpa using e1⟩
          · left; simp [e1]
    · rename_i hc
      cases hm : shardCfgs rank v c axis devs newDim stage rest with
      | none => simp [hm] at h
      | some d0 =>
        simp [hm] at h
        subst h
        simp only [List.mem_cons] at hnc'
        rcases hnc' with e1 | e1
        · left; simp [e1]
        · rcases ih hm nc' e1 with h1 | h1 | ⟨e0, he0, h2⟩
          · left; simp [h1]
          · right; left; exact h1
          · right; right; exact ⟨e0, by simp [he0], h2⟩

theorem shardCfgs_cfgs {rank : Option Nat} {v : VId} {c : CId} {axis : Int} {devs : List Int}
    {newDim : SDim} {stage : Option Int} :
    ∀ {l d : List NodeCfg}, shardCfgs rank v c axis devs newDim stage l = some d →
    d.map (·.cfg) = if c ∈ l.map (·.cfg) then l.map (·.cfg) else l.map (·.cfg) ++ [c] := by
  intro l
  induction l with
  | nil => intro d h; simp [shardCfgs] at h; subst h; simp
  | cons e rest ih =>
    intro d h
    simp only [shardCfgs] at h
    split at h
    · rename_i hc
      split at h
      · cases h
      · cases hm : mergeSpecs rank v axis devs newDim e.specs with
        | none => simp [hm] at h
        | some sp => simp [hm] at h; subst h; simp [hc]
    · rename_i hc
      cases hm : shardCfgs rank v c axis devs newDim stage rest with
      | none => simp [hm] at h
      | some d0 =>
        simp [hm] at h
        subst h
        have := ih hm
        have hne : ¬ (c = e.cfg) := fun x => hc x.symm
        simp only [List.map_cons, List.mem_cons, this, hne, false_or]
        split <;> simp

theorem shardCfgs_nodup {rank : Option Nat} {v : VId} {c : CId} {axis : Int} {devs : List Int}
    {newDim : SDim} {stage : Option Int} {l d : List NodeCfg}
    (h : shardCfgs rank v c axis devs newDim stage l = some d)
    (hl : (l.map (·.cfg)).Nodup) : (d.map (·.cfg)).Nodup := by
  rw [shardCfgs_cfgs h]
  split
  · exact hl
  · rename_i hv
    rw [List.nodup_append]
    refine ⟨hl, by simp, ?_⟩
    intro a ha b hb
    simp at hb
    subst hb
    intro e; subst e; exact hv ha

theorem InIO_dev (nd : NodeS) (d : List NodeCfg) (v : VId) : InIO { nd with dev := d } v ↔ InIO nd v := Iff.rfl

theorem NodeIds_dev (w : World) (nd : NodeS) (d : List NodeCfg) : NodeIds w { nd with dev := d } ↔ NodeIds w nd := Iff.rfl

theorem stage_or_nonneg {a b : Option Int} (ha : ∀ s, a = some s → 0 ≤ s) (hb : ∀ s, b = some s → 0 ≤ s) :
    ∀ s, (a <|> b) = some s → 0 ≤ s := by
  intro s h
  cases a with
  | none => simp at h; exact hb s h
  | some x => simp at h; subst h; exact ha x rfl

theorem NodeOK_shardCfgs {w : World} {nd : NodeS} {v : VId} {c : CId} {axis k : Int} {devs : List Int}
    {stage : Option Int} {dim : Dim} {d : List NodeCfg} (hn : NodeOK G w nd)
    (h : shardCfgs (rankOf (w.value v)) v c axis devs ⟨axis, dim, k⟩ stage nd.dev = some d)
    (hio : InIO nd v) (hk' : 1 ≤ k) (hst' : ∀ s, stage = some s → 0 ≤ s)
    (hax : ¬ AxisBad (rankOf (w.value v)) axis)
    (hc : c < w.cfgs.length) (hdev : ∀ x ∈ devs, 0 ≤ x ∧ x < (w.cfg c).numDevices) :
    NodeOK G w { nd with dev := d } := by
  obtain ⟨hids, hnd, hall⟩ := hn
  have hnew : SpecWF G w (w.cfg c).numDevices (newSpec v devs ⟨axis, dim, k⟩) := by
    refine ⟨?_, ?_, ?_, ?_⟩
    · intro _ x hx; simp [newSpec] at hx; subst hx; exact hax
    · intro _; simp [newSpec]
    · intro x hx; simp [newSpec] at hx; subst hx; exact hk'
    · exact hdev
  refine ⟨hids, shardCfgs_nodup h hnd, ?_⟩
  intro nc' hnc'
  rcases shardCfgs_mem h nc' hnc' with h1 | h1 | ⟨e, he, hec, hcf, sp, hm, h1⟩
  · exact hall nc' h1
  · subst h1
    refine ⟨hc, hst', by simp, ?_⟩
    intro s hs
    simp at hs
    subst hs
    exact ⟨hio, hnew⟩
  · subst h1
    obtain ⟨hec', hest, hev, hesp⟩ := hall e he
    refine ⟨hec', stage_or_nonneg hst' hest, trivial, ?_⟩
    intro s' hs'
    rcases mergeSpecs_mem hm s' hs' with h2 | h2 | ⟨s, hs, hsv, hno, h2⟩
    · exact hesp s' h2
    · subst h2
      refine ⟨hio, ?_⟩
      show SpecWF G w (w.cfg e.cfg).numDevices _
      rw [hec]; exact hnew
    · subst h2
      obtain ⟨_, hwf1, hwf2, hwf3, hwf4⟩ := hesp s hs
      refine ⟨by show InIO nd s.value; rw [hsv]; exact hio, ?_⟩
      show SpecWF G w (w.cfg e.cfg).numDevices _
      unfold SpecWF
      have hval : (extSpec s devs ⟨axis, dim, k⟩).value = v := hsv
      rw [hval]
      rw [hsv] at hwf1 hwf2
      refine ⟨?_, ?_, ?_, ?_⟩
      · intro hg x hx
        simp only [extSpec, List.mem_append, List.mem_singleton] at hx
        rcases hx with hx | hx
        · exact hwf1 hg x hx
        · subst hx; exact hax
      · intro hg
        simp only [extSpec, List.map_append, List.map_cons, List.map_nil]
        rw [List.nodup_append]
        refine ⟨hwf2 hg, by simp, ?_⟩
        intro a ha b hb
        simp at hb
        subst hb
        simp only [List.mem_map] at ha
        obtain ⟨x, hx, hxa⟩ := ha
        intro e2
        exact hno ⟨x, hx, by rw [hxa, e2]⟩
      · intro x hx
        simp only [extSpec, List.mem_append, List.mem_singleton] at hx
        rcases hx with hx | hx
        · exact hwf3 x hx
        · subst hx; exact hk'
      · intro x hx
        simp only [extSpec, List.mem_append, List.mem_filter] at hx
        rcases hx with hx | hx
        · exact hwf4 x hx
        · rw [hec]; exact hdev x hx.1

theorem shardDev_ok {nd : NodeS} {vs : ValueS} {v : VId} {c : CId} {axis k : Int} {devs : List Int}
    {stage : Option Int} {d : List NodeCfg}
    (h : shardDev nd vs v c axis k devs stage = some d) :
    ¬ ShardArgsBad nd vs v axis k stage ∧
    ∃ dim, shardCfgs (rankOf vs) v c axis devs ⟨axis, dim, k⟩ stage nd.dev = some d := by
  unfold shardDev at h
  split at h
  · cases h
  · rename_i hbad
    exact ⟨hbad, _, h⟩

theorem NodeOK_shard {w : World} {nd : NodeS} {v : VId} {c : CId} {axis k : Int} {devs : List Int}
    {stage : Option Int} {d : List NodeCfg} (hn : NodeOK G w nd)
    (h : shardDev nd (w.value v) v c axis k devs stage = some d)
    (hc : c < w.cfgs.length) (hdev : ∀ x ∈ devs, 0 ≤ x ∧ x < (w.cfg c).numDevices) :
    NodeOK G w { nd with dev := d } := by
  obtain ⟨hbad, dim, h'⟩ := shardDev_ok h
  simp only [ShardArgsBad, not_or, Classical.not_not] at hbad
  obtain ⟨hio, hk, hst, hax⟩ := hbad
  refine NodeOK_shardCfgs hn h' hio (by omega) ?_ hax hc hdev
  intro s hs
  exact Int.not_lt.mp (fun hneg => hst ⟨s, hs, hneg⟩)

/-- the configurations referenced after `shard` are the old ones and `c` -/
theorem shardDev_cfgs {nd : NodeS} {vs : ValueS} {v : VId} {c : CId} {axis k : Int} {devs : List Int}
    {stage : Option Int} {d : List NodeCfg}
    (h : shardDev nd vs v c axis k devs stage = some d) :
    ∀ nc ∈ d, nc.cfg = c ∨ ∃ nc0 ∈ nd.dev, nc0.cfg = nc.cfg := by
  obtain ⟨_, dim, h⟩ := shardDev_ok h
  intro nc hnc
  rcases shardCfgs_mem h nc hnc with h1 | h1 | ⟨e, he, hec, _, sp, _, h1⟩
  · exact Or.inr ⟨nc, h1, rfl⟩
  · subst h1; exact Or.inl rfl
  · subst h1; exact Or.inl hec

theorem DevOK_shardCore {w : World} (h : DevOK G w) (n : NId) (v : VId) (c : CId) (axis k : Int)
    (devs : List Int) (stage : Option Int)
    (hreg : RegOn w n c) (hc : c < w.cfgs.length) (hdev : ∀ d ∈ devs, 0 ≤ d ∧ d < (w.cfg c).numDevices) :
    DevOK G (shardCore w n v c axis k devs stage).1 := by
  unfold shardCore
  split
  · exact h
  · rename_i d hd
    refine DevOK_setNode h n _ (NodeOK_shard (h.node n) hd hc hdev) ?_
    intro ms hms hn nc hnc
    rcases shardDev_cfgs hd nc hnc with h1 | ⟨nc0, h0, he⟩
    · rw [h1]; exact hreg ms hms hn
    · rw [← he]; exact ((h.2 ms hms).1 n hn).2 nc0 h0

/-! ### `set_pipeline_stage` -/

theorem setStageCfgs_mem {c : CId} {stage : Int} :
    ∀ {l : List NodeCfg}, ∀ nc' ∈ setStageCfgs c stage l,
      nc' ∈ l ∨ nc' = { cfg := c, specs := [], stage := some stage } ∨
      ∃ e ∈ l, e.cfg = c ∧ nc' = { e with stage := some stage } := by
  intro l
  induction l with
  | nil => intro nc' h; simp [setStageCfgs] at h; right; left; exact h
  | cons e rest ih =>
    intro nc' h
    simp only [setStageCfgs] at h
    split at h
    · rename_i hc
      simp only [List.mem_cons] at h
      rcases h with h | h
      · right; right; exact ⟨e, by simp, hc, h⟩
      · left; simp [h]
    · simp only [List.mem_cons] at h
      rcases h with h | h
      · left; simp [h]
      · rcases ih nc' h with h1 | h1 | ⟨e0, he0, h2⟩
        · left; simp [h1]
        · right; left; exact h1
        · right; right; exact ⟨e0, by simp [he0], h2⟩

theorem setStageCfgs_cfgs {c : CId} {stage : Int} :
    ∀ {l : List NodeCfg}, (setStageCfgs c stage l).map (·.cfg) =
      if c ∈ l.map (·.cfg) then l.map (·.cfg) else l.map (·.cfg) ++ [c] := by
  intro l
  induction l with
  | nil => simp [setStageCfgs]
  | cons e rest ih =>
    simp only [setStageCfgs]
    split
    · rename_i hc; simp [hc]
    · rename_i hc
      have hne : ¬ (c = e.cfg) := fun x => hc x.symm
      simp only [List.map_cons, List.mem_cons, ih, hne, false_or]
      split <;> simp

theorem nodup_snoc_of_not_mem {α : Type} {l : List α} {a : α} (hl : l.Nodup) (ha : a ∉ l) :
    (l ++ [a]).Nodup := by
  rw [List.nodup_append]
  refine ⟨hl, by simp, ?_⟩
  intro x hx b hb
  simp at hb
  subst hb
  intro e; subst e; exact ha hx

theorem NodeOK_setStage {w : World} {nd : NodeS} {c : CId} {stage : Int} (hn : NodeOK G w nd)
    (hs : 0 ≤ stage) (hc : c < w.cfgs.length) :
    NodeOK G w { nd with dev := setStageCfgs c stage nd.dev } := by
  obtain ⟨hids, hnd, hall⟩ := hn
  refine ⟨hids, ?_, ?_⟩
  · show ((setStageCfgs c stage nd.dev).map (·.cfg)).Nodup
    rw [setStageCfgs_cfgs]
    split
    · exact hnd
    · rename_i hv; exact nodup_snoc_of_not_mem hnd hv
  · intro nc' hnc'
    rcases setStageCfgs_mem nc' hnc' with h1 | h1 | ⟨e, he, hec, h1⟩
    · exact hall nc' h1
    · subst h1
      exact ⟨hc, by intro st h; simp at h; omega, by simp, by simp⟩
    · subst h1
      obtain ⟨a, _, b2, b3⟩ := hall e he
      exact ⟨a, by intro st h; simp at h; omega, b2, b3⟩

theorem DevOK_setStage {w : World} (h : DevOK G w) (n : NId) (c : CId) (stage : Int)
    (hpre : Pre w (.setStage n c stage)) : DevOK G (setStage w n c stage).1 := by
  obtain ⟨hreg, hc⟩ := hpre
  unfold setStage
  split
  · exact h
  · rename_i hs
    refine DevOK_setNode h n _ (NodeOK_setStage (h.node n) (by omega) hc) ?_
    intro ms hms hn nc hnc
    rcases setStageCfgs_mem nc hnc with h1 | h1 | ⟨e, he, hec, h1⟩
    · exact ((h.2 ms hms).1 n hn).2 nc h1
    · subst h1; exact hreg ms hms hn
    · subst h1; exact ((h.2 ms hms).1 n hn).2 e he

/-! ### detaching: `_drop_sharding_for_value`, `replace_input_with`, `resize_*` -/

/-- keep exactly the specs whose target is an input or output of `nd'` -/
def keepIO (nd' : NodeS) (dev : List NodeCfg) : List NodeCfg :=
  dev.map (fun nc => { nc with specs := nc.specs.filter (fun s => decide (InIO nd' s.value)) })

/-- `dev'` is obtained from `dev` by deleting specs and whole records -/
def Shrinks (dev' dev : List NodeCfg) : Prop :=
  (dev'.map (·.cfg)).Sublist (dev.map (·.cfg)) ∧
  ∀ nc' ∈ dev', ∃ nc ∈ dev, nc'.cfg = nc.cfg ∧ nc'.stage = nc.stage ∧ nc'.specs.Sublist nc.specs

theorem Shrinks.refl (dev : List NodeCfg) : Shrinks dev dev :=
  ⟨List.Sublist.refl _, fun nc h => ⟨nc, h, rfl, rfl, List.Sublist.refl _⟩⟩

theorem Shrinks_map_filter (dev : List NodeCfg) (p : NodeCfg → Spec → Bool) :
    Shrinks (dev.map (fun nc => { nc with specs := nc.specs.filter (p nc) })) dev := by
  constructor
  · simp [List.map_map, Function.comp_def]
  · intro nc' h
    simp only [List.mem_map] at h
    obtain ⟨nc, hnc, rfl⟩ := h
    exact ⟨nc, hnc, rfl, rfl, List.filter_sublist⟩

theorem Shrinks_filter (dev : List NodeCfg) (p : NodeCfg → Bool) : Shrinks (dev.filter p) dev := by
  constructor
  · exact List.Sublist.map _ List.filter_sublist
  · intro nc' h
    exact ⟨nc', (List.mem_filter.mp h).1, rfl, rfl, List.Sublist.refl _⟩

/-- shrinking the annotations of a node whose io is otherwise compatible keeps it fine -/
theorem NodeOK_shrink {w : World} {nd nd' : NodeS} (hn : NodeOK G w nd) (hids : NodeIds w nd')
    (hsh : Shrinks nd'.dev nd.dev)
    (hio : ∀ nc' ∈ nd'.dev, ∀ s ∈ nc'.specs, InIO nd' s.value) : NodeOK G w nd' := by
  obtain ⟨_, hnd, hall⟩ := hn
  refine ⟨hids, hsh.1.nodup hnd, ?_⟩
  intro nc' hnc'
  obtain ⟨nc, hnc, h1, h2, h3⟩ := hsh.2 nc' hnc'
  obtain ⟨a, b, c, d⟩ := hall nc hnc
  refine ⟨h1 ▸ a, h2 ▸ b, trivial, ?_⟩
  intro s hs
  exact ⟨hio nc' hnc' s hs, h1 ▸ (d s (h3.subset hs)).2⟩

@[simp] theorem dropSharding_inputs (nd : NodeS) (v : VId) : (dropSharding nd v).inputs = nd.inputs := by
  unfold dropSharding
  split
  · rfl
  · split <;> rfl

@[simp] theorem dropSharding_outputs (nd : NodeS) (v : VId) : (dropSharding nd v).outputs = nd.outputs := by
  unfold dropSharding
  split
  · rfl
  · split <;> rfl

theorem InIO_dropSharding (nd : NodeS) (v x : VId) : InIO (dropSharding nd v) x ↔ InIO nd x := by
  simp [InIO]

theorem map_filter_true (dev : List NodeCfg) :
    dev.map (fun nc => ({ nc with specs := nc.specs.filter (fun _ => true) } : NodeCfg)) = dev := by
  induction dev with
  | nil => rfl
  | cons a l ih =>
    have : a.specs.filter (fun _ => true) = a.specs := List.filter_eq_self.mpr (by simp)
    simp [ih, this]

theorem dropSharding_dev (nd : NodeS) (v : VId) :
    (dropSharding nd v).dev = nd.dev.map (fun nc =>
      { nc with specs := nc.specs.filter (fun s => decide (s.value ≠ v ∨ InIO nd v)) }) := by
  unfold dropSharding
  split
  · rename_i h; simp [h]
  · split
    · rename_i h
      simp only [h, or_true, decide_true]
      exact (map_filter_true _).symm
    · rename_i h
      simp [h]

theorem mem_set_of_mem_ne {α : Type} {l : List α} {i : Nat} {a x : α} (hx : x ∈ l)
    (hne : l[i]? ≠ some x) : x ∈ l.set i a := by
  obtain ⟨j, hj, rfl⟩ := List.getElem_of_mem hx
  have hji : i ≠ j := by
    intro e; subst e; exact hne (by simp [hj])
  have : (l.set i a)[j]? = some l[j] := by
    rw [List.getElem?_set]; simp [hji, hj]
  exact List.mem_of_getElem? this

/-- one `replace_input_with`: given that all specs target the node, the result keeps exactly the
    specs that still do -/
theorem replaceInputNode_dev {nd : NodeS} (i : Nat) (val : Option VId)
    (H : ∀ nc ∈ nd.dev, ∀ s ∈ nc.specs, InIO nd s.value) :
    (replaceInputNode nd i val).dev = keepIO (replaceInputNode nd i val) nd.dev := by
  unfold replaceInputNode
  simp only
  have hkeep : ∀ (nd1 : NodeS) (q : Spec → Bool), (∀ nc ∈ nd.dev, ∀ s ∈ nc.specs, q s = decide (InIO nd1 s.value)) →
      nd.dev.map (fun nc => { nc with specs := nc.specs.filter q }) = keepIO nd1 nd.dev := by
    intro nd1 q hq
    unfold keepIO
    apply List.map_congr_left
    intro nc hnc
    congr 1
    apply List.filter_congr
    intro s hs
    exact hq nc hnc s hs
  have hsame : ∀ (nd1 : NodeS), (∀ nc ∈ nd.dev, ∀ s ∈ nc.specs, InIO nd1 s.value) → nd.dev = keepIO nd1 nd.dev := by
    intro nd1 h1
    rw [← hkeep nd1 (fun _ => true)]
    · exact (map_filter_true _).symm
    · intro nc hnc s hs; simp [h1 nc hnc s hs]
  cases hold : nd.inputs.getD i none with
  | none =>
    simp only
    apply hsame
    intro nc hnc s hs
    rcases H nc hnc s hs with h | h
    · left
      apply mem_set_of_mem_ne h
      intro e
      simp [List.getD_eq_getElem?_getD, e] at hold
    · right; exact h
  | some o =>
    simp only
    split
    · rename_i hne
      rw [dropSharding_dev]
      apply hkeep
      intro nc hnc s hs
      simp only [InIO_dropSharding, decide_eq_decide]
      constructor
      · rintro (h | h)
        · rcases H nc hnc s hs with h2 | h2
          · left
            apply mem_set_of_mem_ne h2
            intro e
            simp [List.getD_eq_getElem?_getD, e] at hold
            exact h hold
          · right; exact h2
        · by_cases e : s.value = o
          · rw [e]; exact h
          · rcases H nc hnc s hs with h2 | h2
            · left
              apply mem_set_of_mem_ne h2
              intro e2
              simp [List.getD_eq_getElem?_getD, e2] at hold
              exact e hold
            · right; exact h2
      · intro h
        by_cases e : s.value = o
        · right; rw [← e]; exact h
        · left; exact e
    · rename_i heq
      simp only [ne_eq, Classical.not_not] at heq
      apply hsame
      intro nc hnc s hs
      rcases H nc hnc s hs with h | h
      · left
        show some s.value ∈ nd.inputs.set i val
        rw [← heq]
        by_cases hi : i < nd.inputs.length
        · have : nd.inputs.set i (some o) = nd.inputs := by
            apply List.ext_getElem?
            intro j
            rw [List.getElem?_set]
            split
            · rename_i hij
              subst hij
              simp [List.getD_eq_getElem?_getD, hi] at hold
              simp [hi, hold]
            · rfl
          rw [this]; exact h
        · rw [List.set_eq_of_length_le (Nat.not_lt.mp hi)]; exact h
      · right; exact h

theorem keepIO_shrinks (nd' : NodeS) (dev : List NodeCfg) : Shrinks (keepIO nd' dev) dev :=
  Shrinks_map_filter dev (fun _ s => decide (InIO nd' s.value))

theorem keepIO_io (nd' : NodeS) (dev : List NodeCfg) :
    ∀ nc' ∈ keepIO nd' dev, ∀ s ∈ nc'.specs, InIO nd' s.value := by
  intro nc' h s hs
  simp only [keepIO, List.mem_map] at h
  obtain ⟨nc, _, rfl⟩ := h
  simpa using (List.mem_filter.mp hs).2

theorem keepIO_congr {a b : NodeS} (dev : List NodeCfg) (h : ∀ v, InIO a v ↔ InIO b v) :
    keepIO a dev = keepIO b dev := by
  unfold keepIO
  apply List.map_congr_left
  intro nc _
  congr 1
  apply List.filter_congr
  intro s _
  simp [h]

/-- filtering twice with a smaller io is filtering once -/
theorem keepIO_keepIO {a b : NodeS} (dev : List NodeCfg) (h : ∀ v, InIO b v → InIO a v) :
    keepIO b (keepIO a dev) = keepIO b dev := by
  unfold keepIO
  rw [List.map_map]
  apply List.map_congr_left
  intro nc _
  simp only [Function.comp]
  congr 1
  rw [List.filter_filter]
  apply List.filter_congr
  intro s _
  by_cases hb : InIO b s.value
  · simp [hb, h _ hb]
  · simp [hb]

theorem replaceInputNode_inputs (nd : NodeS) (i : Nat) (val : Option VId) :
    (replaceInputNode nd i val).inputs = nd.inputs.set i val := by
  unfold replaceInputNode
  simp only
  split
  · split <;> simp
  · rfl

theorem replaceInputNode_outputs (nd : NodeS) (i : Nat) (val : Option VId) :
    (replaceInputNode nd i val).outputs = nd.outputs := by
  unfold replaceInputNode
  simp only
  split
  · split <;> simp
  · rfl

theorem InIO_replace_none {nd : NodeS} {i : Nat} {v : VId} (h : InIO (replaceInputNode nd i none) v) :
    InIO nd v := by
  unfold InIO at *
  rw [replaceInputNode_inputs, replaceInputNode_outputs] at h
  rcases h with h | h
  · rcases List.mem_or_eq_of_mem_set h with h | h
    · exact Or.inl h
    · cases h
  · exact Or.inr h

/-- `for i in idxs: node.replace_input_with(i, None)` -/
def detachInputs (nd : NodeS) (idxs : List Nat) : NodeS :=
  idxs.foldl (fun a i => replaceInputNode a i none) nd

theorem detachInputs_spec (idxs : List Nat) : ∀ (nd : NodeS),
    (∀ nc ∈ nd.dev, ∀ s ∈ nc.specs, InIO nd s.value) →
    (detachInputs nd idxs).dev = keepIO (detachInputs nd idxs) nd.dev ∧
    (detachInputs nd idxs).outputs = nd.outputs ∧
    (∀ v, InIO (detachInputs nd idxs) v → InIO nd v) ∧
    (detachInputs nd idxs).inputs.length = nd.inputs.length ∧
    (∀ p, (detachInputs nd idxs).inputs[p]? =
      if p ∈ idxs then (nd.inputs[p]?).map (fun _ => none) else nd.inputs[p]?) := by
  induction idxs with
  | nil =>
    intro nd H
    refine ⟨?_, rfl, fun _ h => h, rfl, by simp [detachInputs]⟩
    simp only [detachInputs, List.foldl_nil]
    unfold keepIO
    have : ∀ nc ∈ nd.dev, ({ nc with specs := nc.specs.filter (fun s => decide (InIO nd s.value)) } : NodeCfg) = nc := by
      intro nc hnc
      have : nc.specs.filter (fun s => decide (InIO nd s.value)) = nc.specs :=
        List.filter_eq_self.mpr (by intro s hs; simpa using H nc hnc s hs)
      rw [this]
    rw [List.map_congr_left this]; simp
  | cons i rest ih =>
    intro nd H
    have h1 := replaceInputNode_dev i none H
    have H1 : ∀ nc ∈ (replaceInputNode nd i none).dev, ∀ s ∈ nc.specs,
        InIO (replaceInputNode nd i none) s.value := by
      rw [h1]; exact keepIO_io _ _
    obtain ⟨a, b, c, d, e⟩ := ih (replaceInputNode nd i none) H1
    have hfold : detachInputs nd (i :: rest) = detachInputs (replaceInputNode nd i none) rest := rfl
    rw [hfold]
    refine ⟨?_, ?_, ?_, ?_, ?_⟩
    · rw [a, h1]
      exact keepIO_keepIO _ c
    · rw [b, replaceInputNode_outputs]
    · intro v hv; exact InIO_replace_none (c v hv)
    · rw [d, replaceInputNode_inputs]; simp
    · intro p
      rw [e p, replaceInputNode_inputs, List.getElem?_set]
      by_cases hp : p ∈ rest
      · by_cases hip : i = p
        · subst hip
          by_cases hl : i < nd.inputs.length <;> simp [hp, hl]
        · have : p ∈ i :: rest := by simp [hp]
          simp [hp, hip, this]
      · by_cases hip : i = p
        · subst hip
          by_cases hl : i < nd.inputs.length
          · simp [hp, hl]
          · simp [hp, hl]
        · have : ¬ (p ∈ i :: rest) := by
            simp only [List.mem_cons, not_or]
            exact ⟨fun x => hip x.symm, hp⟩
          simp [hp, hip, this]

theorem NodeIds_iff (w : World) (nd : NodeS) : NodeIds w nd ↔ ∀ v, InIO nd v → v < w.values.length := by
  constructor
  · intro h v hv; exact InIO.lt h hv
  · intro h
    exact ⟨fun o ho v hov => h v (Or.inl (hov ▸ ho)), fun v hv => h v (Or.inr hv)⟩

theorem keepIO_self {nd : NodeS} (H : ∀ nc ∈ nd.dev, ∀ s ∈ nc.specs, InIO nd s.value) :
    keepIO nd nd.dev = nd.dev := by
  unfold keepIO
  have : ∀ nc ∈ nd.dev, ({ nc with specs := nc.specs.filter (fun s => decide (InIO nd s.value)) } : NodeCfg) = nc := by
    intro nc hnc
    have : nc.specs.filter (fun s => decide (InIO nd s.value)) = nc.specs :=
      List.filter_eq_self.mpr (by intro s hs; simpa using H nc hnc s hs)
    rw [this]
  rw [List.map_congr_left this]; simp

/-- what a detaching edit does to the annotations of its node -/
structure Detached (nd nd' : NodeS) : Prop where
  dev : nd'.dev = keepIO nd' nd.dev
  io : ∀ v, InIO nd' v → InIO nd v

theorem resizeInputsNode_detached {nd : NodeS} (k : Nat)
    (H : ∀ nc ∈ nd.dev, ∀ s ∈ nc.specs, InIO nd s.value) : Detached nd (resizeInputsNode nd k) := by
  unfold resizeInputsNode
  simp only
  split
  · exact ⟨(keepIO_self H).symm, fun _ h => h⟩
  · split
    · rename_i hne hlt
      obtain ⟨a, b, c, d, e⟩ := detachInputs_spec (List.range' k (nd.inputs.length - k)) nd H
      have hfold : (List.range' k (nd.inputs.length - k)).foldl (fun a i => replaceInputNode a i none) nd
          = detachInputs nd (List.range' k (nd.inputs.length - k)) := rfl
      rw [hfold]
      generalize hD : detachInputs nd (List.range' k (nd.inputs.length - k)) = D at *
      have hio : ∀ v, InIO { D with inputs := D.inputs.take k } v ↔ InIO D v := by
        intro v
        unfold InIO
        simp only
        constructor
        · rintro (h | h)
          · exact Or.inl (List.mem_of_mem_take h)
          · exact Or.inr h
        · rintro (h | h)
          · left
            obtain ⟨p, hp, hpe⟩ := List.getElem_of_mem h
            have hp' : D.inputs[p]? = some (some v) := by simp [hp, hpe]
            have hpk : p < k := by
              apply Classical.byContradiction
              intro hge
              have hmem : p ∈ List.range' k (nd.inputs.length - k) := by
                rw [List.mem_range'_1]; omega
              rw [e p] at hp'
              simp only [hmem, if_true] at hp'
              cases hq : nd.inputs[p]? with
              | none => simp [hq] at hp'
              | some x => simp [hq] at hp'
            have : (D.inputs.take k)[p]? = some (some v) := by
              rw [List.getElem?_take]; simp [hpk, hp']
            exact List.mem_of_getElem? this
          · exact Or.inr h
      refine ⟨?_, ?_⟩
      · show D.dev = keepIO _ nd.dev
        rw [a]
        exact (keepIO_congr _ hio).symm
      · intro v hv; exact c v ((hio v).mp hv)
    · refine ⟨?_, ?_⟩
      · show nd.dev = keepIO _ nd.dev
        have : ∀ v, InIO nd v → InIO { nd with inputs := nd.inputs ++ List.replicate (k - nd.inputs.length) none } v := by
          intro v h
          rcases h with h | h
          · exact Or.inl (List.mem_append_left _ h)
          · exact Or.inr h
        conv => lhs; rw [← keepIO_self H]
        unfold keepIO
        apply List.map_congr_left
        intro nc hnc
        congr 1
        apply List.filter_congr
        intro s hs
        simp [H nc hnc s hs, this _ (H nc hnc s hs)]
      · intro v h
        rcases h with h | h
        · simp only [List.mem_append, List.mem_replicate] at h
          rcases h with h | h
          · exact Or.inl h
          · cases h.2
        · exact Or.inr h

theorem replaceInputNode_detached_none {nd : NodeS} (i : Nat)
    (H : ∀ nc ∈ nd.dev, ∀ s ∈ nc.specs, InIO nd s.value) : Detached nd (replaceInputNode nd i none) :=
  ⟨replaceInputNode_dev i none H, fun _ h => InIO_replace_none h⟩

theorem detachInputs_detached {nd : NodeS} (idxs : List Nat)
    (H : ∀ nc ∈ nd.dev, ∀ s ∈ nc.specs, InIO nd s.value) : Detached nd (detachInputs nd idxs) := by
  obtain ⟨a, _, c, _, _⟩ := detachInputs_spec idxs nd H
  exact ⟨a, c⟩

/-- `for o in removed: node._drop_sharding_for_value(o)` -/
theorem foldl_dropSharding (removed : List VId) : ∀ (a : NodeS),
    (removed.foldl dropSharding a).inputs = a.inputs ∧
    (removed.foldl dropSharding a).outputs = a.outputs ∧
    (removed.foldl dropSharding a).dev = a.dev.map (fun nc =>
      { nc with specs := nc.specs.filter (fun s => decide (∀ o ∈ removed, s.value ≠ o ∨ InIO a o)) }) := by
  induction removed with
  | nil =>
    intro a
    refine ⟨rfl, rfl, ?_⟩
    simp only [List.foldl_nil, List.not_mem_nil, false_imp_iff, implies_true, decide_true]
    exact (map_filter_true _).symm
  | cons o rest ih =>
    intro a
    obtain ⟨h1, h2, h3⟩ := ih (dropSharding a o)
    simp only [List.foldl_cons]
    refine ⟨by rw [h1]; simp, by rw [h2]; simp, ?_⟩
    rw [h3, dropSharding_dev, List.map_map]
    apply List.map_congr_left
    intro nc _
    simp only [Function.comp]
    congr 1
    rw [List.filter_filter]
    apply List.filter_congr
    intro s _
    simp only [InIO_dropSharding, List.mem_cons, forall_eq_or_imp, Bool.decide_and]
    rw [Bool.and_comm]

theorem resizeOutputs_detached {nd : NodeS} (k : Nat)
    (H : ∀ nc ∈ nd.dev, ∀ s ∈ nc.specs, InIO nd s.value) :
    Detached nd ((nd.outputs.drop k).foldl dropSharding { nd with outputs := nd.outputs.take k }) := by
  obtain ⟨h1, h2, h3⟩ := foldl_dropSharding (nd.outputs.drop k) { nd with outputs := nd.outputs.take k }
  generalize hR : (nd.outputs.drop k).foldl dropSharding { nd with outputs := nd.outputs.take k } = R at *
  have hio : ∀ v, InIO R v ↔ InIO { nd with outputs := nd.outputs.take k } v := by
    intro v; unfold InIO; rw [h1, h2]
  have hsub : ∀ v, InIO { nd with outputs := nd.outputs.take k } v → InIO nd v := by
    intro v h
    rcases h with h | h
    · exact Or.inl h
    · exact Or.inr (List.mem_of_mem_take h)
  refine ⟨?_, fun v hv => hsub v ((hio v).mp hv)⟩
  rw [h3]
  unfold keepIO
  apply List.map_congr_left
  intro nc hnc
  congr 1
  apply List.filter_congr
  intro s hs
  simp only [decide_eq_decide, hio]
  constructor
  · intro hall
    rcases H nc hnc s hs with h | h
    · exact Or.inl h
    · -- an output: kept or removed
      have : s.value ∈ nd.outputs.take k ++ nd.outputs.drop k := by rw [List.take_append_drop]; exact h
      rcases List.mem_append.mp this with h' | h'
      · exact Or.inr h'
      · rcases hall s.value h' with h'' | h''
        · exact absurd rfl h''
        · exact h''
  · intro hin o ho
    by_cases e : s.value = o
    · right; rw [← e]; exact hin
    · left; exact e

theorem DevOK.specs_io {w : World} (h : DevOK G w) (n : NId) :
    ∀ nc ∈ (w.node n).dev, ∀ s ∈ nc.specs, InIO (w.node n) s.value := by
  intro nc hnc s hs
  exact (((h.node n).2.2 nc hnc).2.2.2 s hs).1

theorem DevOK_setNode_keep {w : World} (h : DevOK G w) (n : NId) (nd' : NodeS)
    (hdev : nd'.dev = keepIO nd' (w.node n).dev) (hids : NodeIds w nd') :
    DevOK G (w.setNode n nd') := by
  have hsh : Shrinks nd'.dev (w.node n).dev := by rw [hdev]; exact keepIO_shrinks _ _
  refine DevOK_setNode h n nd' (NodeOK_shrink (h.node n) hids hsh ?_) ?_
  · rw [hdev]; exact keepIO_io _ _
  · intro ms hms hn nc hnc
    obtain ⟨nc0, h0, he, _, _⟩ := hsh.2 nc hnc
    rw [he]; exact ((h.2 ms hms).1 n hn).2 nc0 h0

theorem NodeIds_of_sub {w : World} {nd nd' : NodeS} (h : NodeIds w nd) (hio : ∀ v, InIO nd' v → InIO nd v) :
    NodeIds w nd' := by
  rw [NodeIds_iff] at *
  intro v hv; exact h v (hio v hv)

theorem DevOK_replaceInput {w : World} (h : DevOK G w) (n : NId) (i : Int) (val : Option VId)
    (hpre : Pre w (.replaceInput n i val)) : DevOK G (replaceInput w n i val).1 := by
  unfold replaceInput
  split
  · exact h
  · refine DevOK_setNode_keep h n _ (replaceInputNode_dev _ val (h.specs_io n)) ?_
    rw [NodeIds_iff]
    intro v hv
    have hids := (h.node n).1
    rw [NodeIds_iff] at hids
    unfold InIO at hv
    rw [replaceInputNode_inputs, replaceInputNode_outputs] at hv
    rcases hv with hv | hv
    · rcases List.mem_or_eq_of_mem_set hv with hv | hv
      · exact hids v (Or.inl hv)
      · exact hpre v hv.symm
    · exact hids v (Or.inr hv)

theorem DevOK_resizeInputs {w : World} (h : DevOK G w) (n : NId) (k : Nat) :
    DevOK G (resizeInputs w n k).1 := by
  unfold resizeInputs
  have hd := resizeInputsNode_detached k (h.specs_io n)
  exact DevOK_setNode_keep h n _ hd.dev (NodeIds_of_sub (h.node n).1 hd.io)

theorem Ext_append_values (w : World) (extra : List ValueS) :
    Ext w { w with values := w.values ++ extra } := by
  refine ⟨by simp, ?_, Nat.le_refl _, fun _ _ => rfl⟩
  intro v hv
  simp [World.value, List.getD_eq_getElem?_getD, List.getElem?_append_left hv]

theorem DevOK.ext_same_nodes {w w' : World} (h : DevOK G w) (hext : Ext w w') (hn : w'.nodes = w.nodes)
    (hm : w'.models = w.models) : DevOK G w' := by
  constructor
  · intro nd hnd; rw [hn] at hnd; exact (h.1 nd hnd).ext hext
  · intro ms hms
    rw [hm] at hms
    refine (h.2 ms hms).ext hext (by rw [hn]; exact Nat.le_refl _) ?_
    intro n _ _ nc hnc
    have : w'.node n = w.node n := by simp [World.node, hn]
    rw [this] at hnc
    exact ⟨nc, hnc, rfl⟩

theorem DevOK_resizeOutputs {w : World} (h : DevOK G w) (n : NId) (k : Nat) :
    DevOK G (resizeOutputs w n k).1 := by
  unfold resizeOutputs
  simp only
  split
  · exact h
  · split
    · split
      · exact h
      · have hd := resizeOutputs_detached k (h.specs_io n)
        exact DevOK_setNode_keep h n _ hd.dev (NodeIds_of_sub (h.node n).1 hd.io)
    · rename_i hne hlt
      -- growing: fresh anonymous values
      have hext := Ext_append_values w (List.replicate (k - (w.node n).outputs.length) ({} : ValueS))
      have h1 : DevOK G { w with values := w.values ++ List.replicate (k - (w.node n).outputs.length) ({} : ValueS) } :=
        h.ext_same_nodes hext rfl rfl
      have hnode : World.node { w with values := w.values ++ List.replicate (k - (w.node n).outputs.length) ({} : ValueS) } n = w.node n := rfl
      refine DevOK_setNode h1 n _ ?_ ?_
      · obtain ⟨hids, hnd, hall⟩ := (h.node n).ext hext
        refine ⟨?_, hnd, ?_⟩
        · refine ⟨hids.1, ?_⟩
          intro v hv
          simp only [List.mem_append] at hv
          rcases hv with hv | hv
          · exact hids.2 v hv
          · rw [List.mem_range'_1] at hv
            simp only [List.length_append, List.length_replicate]
            exact hv.2
        · intro nc hnc
          obtain ⟨a, b, c, d⟩ := hall nc hnc
          refine ⟨a, b, c, ?_⟩
          intro s hs
          refine ⟨?_, (d s hs).2⟩
          rcases (d s hs).1 with h' | h'
          · exact Or.inl h'
          · exact Or.inr (List.mem_append_left _ h')
      · intro ms hms hn nc hnc
        exact ((h.2 ms hms).1 n hn).2 nc hnc

/-! ### renames and construction -/

theorem DevOK_rename {w : World} (h : DevOK G w) (v : VId) (s : String) : DevOK G (rename w v s).1 := by
  unfold rename
  split
  · exact h
  · split
    · exact h
    · refine h.ext_same_nodes ?_ rfl rfl
      refine ⟨by simp, ?_, Nat.le_refl _, fun _ _ => rfl⟩
      intro x hx
      simp only [World.value, List.getD_eq_getElem?_getD, List.getElem?_set]
      split
      · rename_i hvx
        subst hvx
        simp [hx]
      · rfl

/-- `NodeOK` only reads the rank of the values the node's specs target -/
theorem NodeOK_of_rank {w w' : World} {nd : NodeS} (hn : NodeOK G w nd)
    (hlen : w'.values.length = w.values.length) (hc : w'.cfgs = w.cfgs)
    (hr : ∀ nc ∈ nd.dev, ∀ s ∈ nc.specs, rankOf (w'.value s.value) = rankOf (w.value s.value)) :
    NodeOK G w' nd := by
  obtain ⟨hids, hnd, hall⟩ := hn
  refine ⟨⟨fun o ho v hov => by rw [hlen]; exact hids.1 o ho v hov, fun v hv => by rw [hlen]; exact hids.2 v hv⟩, hnd, ?_⟩
  intro nc hnc
  obtain ⟨a, b, c, d⟩ := hall nc hnc
  refine ⟨by rw [hc]; exact a, b, c, ?_⟩
  intro sp hsp
  refine ⟨(d sp hsp).1, ?_⟩
  have hcfg : w'.cfg nc.cfg = w.cfg nc.cfg := by simp [World.cfg, hc]
  unfold SpecWF
  rw [hr nc hnc sp hsp, hcfg]
  exact (d sp hsp).2

theorem DevOK_setShape {w : World} (h : DevOK G w) (v : VId) (shape : Option (List Dim))
    (hpre : Pre w (.setShape v shape)) : DevOK G (setShape w v shape).1 := by
  unfold setShape
  have hval : ∀ x, x ≠ v → World.value { w with values := w.values.set v { (w.value v) with shape := shape } } x = w.value x := by
    intro x hx
    simp only [World.value, List.getD_eq_getElem?_getD, List.getElem?_set]
    have : ¬ v = x := fun e => hx e.symm
    simp [this]
  constructor
  · intro nd hnd
    refine NodeOK_of_rank (h.1 nd hnd) (by simp) rfl ?_
    intro nc hnc sp hsp
    rw [hval _ (hpre nd hnd nc hnc sp hsp)]
  · intro ms hms
    obtain ⟨a, b, c⟩ := h.2 ms hms
    exact ⟨a, b, c⟩

theorem DevOK_setModel {w : World} (h : DevOK G w) (m : MId) (ms' : ModelS) (hm : ModelOK w ms') :
    DevOK G (w.setModel m ms') := by
  have hext : Ext w (w.setModel m ms') := Ext.of_eq rfl rfl
  constructor
  · intro nd hnd; exact (h.1 nd hnd).ext hext
  · intro ms hms
    have hmo : ModelOK w ms := by
      rcases mem_setModel w m ms' ms hms with h1 | ⟨h1, _⟩
      · exact h.2 ms h1
      · rw [h1]; exact hm
    exact hmo.ext hext (Nat.le_refl _) (fun n _ _ nc hnc => ⟨nc, hnc, rfl⟩)

/-- `DevOK` reads the values, configuration records, nodes and models only (not the graphs) -/
theorem DevOK_of_eq {w w' : World} (h : DevOK G w) (hv : w'.values = w.values) (hc : w'.cfgs = w.cfgs)
    (hn : w'.nodes = w.nodes) (hm : w'.models = w.models) : DevOK G w' :=
  h.ext_same_nodes (Ext.of_eq hv hc) hn hm

theorem DevOK_setGraph {w : World} (h : DevOK G w) (g : GId) (gs : GraphS) : DevOK G (w.setGraph g gs) :=
  DevOK_of_eq h rfl rfl rfl rfl

theorem DevOK_mapModels {w : World} (h : DevOK G w) (f : ModelS → ModelS)
    (hf : ∀ ms ∈ w.models, ModelOK w (f ms)) : DevOK G { w with models := w.models.map f } := by
  have hext : Ext w { w with models := w.models.map f } := Ext.of_eq rfl rfl
  constructor
  · intro nd hnd; exact (h.1 nd hnd).ext hext
  · intro ms' hms'
    simp only [List.mem_map] at hms'
    obtain ⟨ms, hms, rfl⟩ := hms'
    exact (hf ms hms).ext hext (Nat.le_refl _) (fun n _ _ nc hnc => ⟨nc, hnc, rfl⟩)

theorem ModelOK_graphs {w : World} {ms : ModelS} (gs : List GId) (h : ModelOK w ms) :
    ModelOK w { ms with graphs := gs } := h

theorem DevOK_newModel {w : World} (h : DevOK G w) (ir : Nat) : DevOK G (newModel w ir).1 := by
  unfold newModel
  constructor
  · intro nd hnd; exact (h.1 nd hnd).ext (Ext.of_eq rfl rfl)
  · intro ms hms
    simp only [List.mem_append, List.mem_singleton] at hms
    rcases hms with h1 | h1
    · exact (h.2 ms h1).ext (Ext.of_eq rfl rfl) (Nat.le_refl _) (fun n _ _ nc hnc => ⟨nc, hnc, rfl⟩)
    · subst h1; exact ⟨by simp, by simp, by simp⟩

theorem DevOK_newInput {w : World} (h : DevOK G w) (g : GId) (name : String) (shape : Option (List Dim)) :
    DevOK G (newInput w g name shape).1 := by
  unfold newInput
  simp only
  have h1 : DevOK G { w with values := w.values ++ [({ name := name, shape := shape } : ValueS)] } :=
    h.ext_same_nodes (Ext_append_values w _) rfl rfl
  exact DevOK_setGraph h1 g _

theorem DevOK_newSubgraph {w : World} (h : DevOK G w) (n : NId) : DevOK G (newSubgraph w n).1 := by
  unfold newSubgraph
  simp only
  generalize hf : (fun ms : ModelS => if n ∈ ms.nodes then { ms with graphs := ms.graphs ++ [w.graphs.length] } else ms) = f
  have hA : DevOK G { w with models := w.models.map f } := by
    apply DevOK_mapModels h
    intro ms hms
    subst hf
    simp only
    split
    · exact ModelOK_graphs _ (h.2 ms hms)
    · exact h.2 ms hms
  have hB : DevOK G { w with graphs := w.graphs ++ [{}], models := w.models.map f } :=
    DevOK_of_eq hA rfl rfl rfl rfl
  refine DevOK_setNode_keep hB n _ ?_ ?_
  · show (w.node n).dev = keepIO _ (w.node n).dev
    have hio := h.specs_io n
    conv => lhs; rw [← keepIO_self hio]
    exact keepIO_congr _ (fun v => Iff.rfl)
  · exact (h.node n).1

theorem node_append_left (w : World) (extra : List NodeS) (vals : List ValueS) (n : NId)
    (hn : n < w.nodes.length) :
    World.node { w with values := vals, nodes := w.nodes ++ extra } n = w.node n := by
  simp [World.node, List.getD_eq_getElem?_getD, List.getElem?_append_left hn]

theorem DevOK_newNode {w : World} (h : DevOK G w) (g : GId) (ins : List (Option VId))
    (outs : List (String × Option (List Dim))) (hpre : Pre w (.newNode g ins outs)) :
    DevOK G (newNode w g ins outs).1 := by
  unfold newNode
  simp only
  generalize hnew : ({ inputs := ins, outputs := List.range' w.values.length outs.length, dev := [] } : NodeS) = newnd
  generalize hvals : w.values ++ outs.map (fun o => ({ name := o.1, shape := o.2 } : ValueS)) = vals
  have hext : Ext w { w with values := vals, nodes := w.nodes ++ [newnd] } := by
    have := Ext_append_values w (outs.map (fun o => ({ name := o.1, shape := o.2 } : ValueS)))
    rw [hvals] at this
    exact ⟨this.vlen, this.shape, Nat.le_refl _, fun _ _ => rfl⟩
  have hnewok : NodeOK G { w with values := vals, nodes := w.nodes ++ [newnd] } newnd := by
    subst hnew
    refine ⟨⟨?_, ?_⟩, by simp, by simp⟩
    · intro o ho v hov
      exact Nat.lt_of_lt_of_le (hpre o ho v hov) hext.vlen
    · intro v hv
      rw [List.mem_range'_1] at hv
      subst hvals
      simp only [List.length_append, List.length_map]
      exact hv.2
  have hmodel : ∀ ms ∈ w.models, ModelOK { w with values := vals, nodes := w.nodes ++ [newnd] } ms := by
    intro ms hms
    refine (h.2 ms hms).ext hext (by simp) ?_
    intro n _ hn nc hnc
    rw [node_append_left w _ _ n hn] at hnc
    exact ⟨nc, hnc, rfl⟩
  have h1 : DevOK G { w with values := vals, nodes := w.nodes ++ [newnd] } := by
    constructor
    · intro nd hnd
      simp only [List.mem_append, List.mem_singleton] at hnd
      rcases hnd with h' | h'
      · exact (h.1 nd h').ext hext
      · rw [h']; exact hnewok
    · exact hmodel
  generalize hf : (fun ms : ModelS => if g ∈ ms.graphs then { ms with nodes := ms.nodes ++ [w.nodes.length] } else ms) = f
  have h2 : DevOK G { ({ w with values := vals, nodes := w.nodes ++ [newnd] } : World) with models := w.models.map f } := by
    apply DevOK_mapModels h1
    intro ms hms
    subst hf
    simp only
    split
    · obtain ⟨a', b', c'⟩ := hmodel ms hms
      refine ⟨?_, b', c'⟩
      intro n hn
      simp only [List.mem_append, List.mem_singleton] at hn
      rcases hn with hn | hn
      · exact a' n hn
      · subst hn
        refine ⟨by simp, ?_⟩
        intro nc hnc
        have : World.node { w with values := vals, nodes := w.nodes ++ [newnd] } w.nodes.length = newnd := by
          simp [World.node, List.getD_eq_getElem?_getD]
        rw [this] at hnc
        subst hnew
        simp at hnc
    · exact hmodel ms hms
  exact DevOK_setGraph (DevOK_of_eq h2 rfl rfl rfl rfl) g _

theorem ModelOK_nodes_subset {w : World} {ms : ModelS} (l : List NId) (hl : ∀ n ∈ l, n ∈ ms.nodes)
    (h : ModelOK w ms) : ModelOK w { ms with nodes := l } :=
  ⟨fun n hn => h.1 n (hl n hn), h.2.1, h.2.2⟩

theorem DevOK_removeNode {w : World} (h : DevOK G w) (g : GId) (n : NId) (safe : Bool) :
    DevOK G (removeNode w g n safe).1 := by
  unfold removeNode
  simp only
  split
  · exact h
  · split
    · exact h
    · generalize hnd1 : (if safe = true then
          (List.range' 0 (w.node n).inputs.length).foldl (fun a i => replaceInputNode a i none) (w.node n)
          else w.node n) = nd1
      have h1 : DevOK G (w.setNode n nd1) := by
        subst hnd1
        split
        · have hd := detachInputs_detached (List.range' 0 (w.node n).inputs.length) (h.specs_io n)
          exact DevOK_setNode_keep h n _ hd.dev (NodeIds_of_sub (h.node n).1 hd.io)
        · exact DevOK_setNode_keep h n _ (keepIO_self (h.specs_io n)).symm (h.node n).1
      have h2 := DevOK_setGraph h1 g { (w.graph g) with nodes := (w.graph g).nodes.filter (fun k => decide (k ≠ n)) }
      apply DevOK_mapModels h2
      intro ms hms
      by_cases hg : g ∈ ms.graphs
      · rw [if_pos hg]
        exact ModelOK_graphs _ (ModelOK_nodes_subset _ (fun k hk => (List.mem_filter.mp hk).1) (h2.2 ms hms))
      · rw [if_neg hg]; exact h2.2 ms hms

/-! ### `add_device_configuration`, `remove_device_configuration(cascade=True)` -/

theorem Ext_append_cfgs (w : World) (extra : List CfgS) :
    Ext w { w with cfgs := w.cfgs ++ extra } := by
  refine ⟨Nat.le_refl _, fun _ _ => rfl, by simp, ?_⟩
  intro c hc
  simp [World.cfg, List.getD_eq_getElem?_getD, List.getElem?_append_left hc]

theorem DevOK_addCfg {w : World} (h : DevOK G w) (m : MId) (name : String) (num : Option Int)
    (names : List String) : DevOK G (addCfg w m name num names).1 := by
  unfold addCfg
  simp only
  split
  · exact h
  rename_i hname
  split
  · exact h
  rename_i hdup
  split
  · exact h
  split
  · exact h
  generalize hrec : ({ name := name, numDevices := num.getD ↑names.length, deviceNames := names } : CfgS) = rec
  have hrecname : rec.name = name := by rw [← hrec]
  clear hrec
  have hext := Ext_append_cfgs w [rec]
  have h1 : DevOK G { w with cfgs := w.cfgs ++ [rec] } := h.ext_same_nodes hext rfl rfl
  refine DevOK_setModel h1 m _ ?_
  obtain ⟨a, b, c⟩ := h1.model m
  have hmm : World.model { w with cfgs := w.cfgs ++ [rec] } m = w.model m := rfl
  rw [hmm] at a b c
  have hnewcfg : World.cfg { w with cfgs := w.cfgs ++ [rec] } w.cfgs.length = rec := by
    simp [World.cfg, List.getD_eq_getElem?_getD]
  refine ⟨?_, ?_, ?_⟩
  · intro n hn
    refine ⟨(a n hn).1, ?_⟩
    intro nc hnc
    exact List.mem_append_left _ ((a n hn).2 nc hnc)
  · intro c' hc'
    simp only [List.mem_append, List.mem_singleton] at hc'
    rcases hc' with hc' | hc'
    · exact b c' hc'
    · subst hc'
      refine ⟨by simp, ?_⟩
      rw [hnewcfg, hrecname]; exact hname
  · simp only [List.map_append, List.map_cons, List.map_nil]
    apply nodup_snoc_of_not_mem c
    rw [hnewcfg, hrecname]
    simp only [List.mem_map, not_exists, not_and]
    intro c' hc' hn
    apply hdup
    refine ⟨c', hc', ?_⟩
    have hlt := ((h.model m).2.1 c' hc').1
    rw [hext.cfg c' hlt] at hn
    exact hn

theorem mapIdx_node (w : World) (f : Nat → NodeS → NodeS) (k : NId) :
    World.node { w with nodes := w.nodes.mapIdx f } k =
      if k < w.nodes.length then f k (w.node k) else {} := by
  simp only [World.node, List.getD_eq_getElem?_getD, List.getElem?_mapIdx]
  split
  · rename_i hk; simp [hk]
  · rename_i hk; simp [Nat.not_lt.mp hk]

theorem removeTarget_mem {w : World} {ms : ModelS} {r : CfgRef} {t : CId}
    (h : removeTarget w ms r = some t) : t ∈ ms.cfgs := by
  cases r with
  | byName s => exact List.mem_of_find?_eq_some h
  | byObj c =>
    simp only [removeTarget] at h
    split at h
    · cases h; assumption
    · cases h

theorem DevOK_removeCfg {w : World} (h : DevOK G w) (m : MId) (r : CfgRef) :
    DevOK G (removeCfg w m r true).1 := by
  unfold removeCfg
  simp only
  split
  · exact h
  rename_i t ht
  simp only [if_true]
  generalize hf : (fun (i : Nat) (nd : NodeS) =>
      if i ∈ (w.model m).nodes then
        { nd with dev := nd.dev.filter (fun nc => decide (¬ IsTarget w r.isByName t nc)) }
      else nd) = f
  have hfdev : ∀ i nd, Shrinks (f i nd).dev nd.dev ∧ (f i nd).inputs = nd.inputs ∧ (f i nd).outputs = nd.outputs := by
    intro i nd
    subst hf
    simp only
    split
    · exact ⟨Shrinks_filter _ _, rfl, rfl⟩
    · exact ⟨Shrinks.refl _, rfl, rfl⟩
  have hfok : ∀ i nd, NodeOK G w nd → NodeOK G w (f i nd) := by
    intro i nd hnd
    obtain ⟨hs, hi, ho⟩ := hfdev i nd
    refine NodeOK_shrink hnd ?_ hs ?_
    · exact ⟨by rw [hi]; exact hnd.1.1, by rw [ho]; exact hnd.1.2⟩
    · intro nc' hnc' s hs'
      obtain ⟨nc, hnc, _, _, hsub⟩ := hs.2 nc' hnc'
      have := ((hnd.2.2 nc hnc).2.2.2 s (hsub.subset hs')).1
      unfold InIO at *
      rw [hi, ho]; exact this
  generalize hms' : ({ (w.model m) with cfgs := (w.model m).cfgs.filter (fun c => decide (c ≠ t)) } : ModelS) = ms'
  have hnode : ∀ k, World.node { (w.setModel m ms') with nodes := (w.setModel m ms').nodes.mapIdx f } k =
      if k < w.nodes.length then f k (w.node k) else {} := by
    intro k
    exact mapIdx_node (w.setModel m ms') f k
  have hext : Ext w { (w.setModel m ms') with nodes := (w.setModel m ms').nodes.mapIdx f } := Ext.of_eq rfl rfl
  constructor
  · intro nd hnd
    simp only [setModel_nodes, List.mem_mapIdx] at hnd
    obtain ⟨i, hi, rfl⟩ := hnd
    exact (hfok i _ (h.1 _ (List.getElem_mem hi))).ext hext
  · intro ms hms
    have hms2 : ms ∈ (w.setModel m ms').models := hms
    have hshr : ∀ n, n < w.nodes.length → ∀ nc ∈ (World.node { (w.setModel m ms') with nodes := (w.setModel m ms').nodes.mapIdx f } n).dev,
        ∃ nc0 ∈ (w.node n).dev, nc0.cfg = nc.cfg := by
      intro n hn nc hnc
      rw [hnode n] at hnc
      simp only [hn, if_true] at hnc
      obtain ⟨nc0, h0, he, _, _⟩ := (hfdev n (w.node n)).1.2 nc hnc
      exact ⟨nc0, h0, he.symm⟩
    rcases mem_setModel w m ms' ms hms2 with h1 | ⟨h1, _⟩
    · exact (h.2 ms h1).ext hext (by simp) (fun n _ hn => hshr n hn)
    · subst h1
      obtain ⟨a, b, c⟩ := h.model m
      subst hms'
      refine ⟨?_, ?_, ?_⟩
      · intro n hn
        have hn' : n ∈ (w.model m).nodes := hn
        refine ⟨by simpa using (a n hn').1, ?_⟩
        intro nc hnc
        rw [hnode n] at hnc
        simp only [(a n hn').1, if_true] at hnc
        subst hf
        simp only [hn', if_true] at hnc
        obtain ⟨hmem, hnt⟩ := List.mem_filter.mp hnc
        simp only [decide_eq_true_eq] at hnt
        show nc.cfg ∈ (w.model m).cfgs.filter (fun c => decide (c ≠ t))
        rw [List.mem_filter]
        refine ⟨(a n hn').2 nc hmem, ?_⟩
        simp only [decide_eq_true_eq]
        intro e
        exact hnt (Or.inl e)
      · intro c' hc'
        have hc'' : c' ∈ (w.model m).cfgs := (List.mem_filter.mp hc').1
        exact b c' hc''
      · exact (List.Sublist.map _ List.filter_sublist).nodup c

/-! ### clone -/

theorem vlookup_mem {vm : VMap} {a b : VId} (h : vlookup vm a = some b) : (a, b) ∈ vm := by
  unfold vlookup at h
  cases hf : vm.find? (fun p => decide (p.1 = a)) with
  | none => simp [hf] at h
  | some p =>
    simp [hf] at h
    have h1 := List.mem_of_find?_eq_some hf
    have h2 := List.find?_some hf
    simp at h2
    have : p = (a, b) := by cases p; simp_all
    rw [← this]; exact h1

theorem vlookup_isSome_of_mem {vm : VMap} {a b : VId} (h : (a, b) ∈ vm) : ∃ b', vlookup vm a = some b' := by
  unfold vlookup
  cases hf : vm.find? (fun p => decide (p.1 = a)) with
  | none =>
    rw [List.find?_eq_none] at hf
    have := hf (a, b) h
    simp at this
  | some p => exact ⟨p.2, rfl⟩

theorem vlookup_append (l1 l2 : VMap) (a : VId) :
    vlookup (l1 ++ l2) a = (vlookup l1 a).or (vlookup l2 a) := by
  unfold vlookup
  rw [List.find?_append]
  cases List.find? (fun p => decide (p.1 = a)) l1 <;> simp

theorem vlookup_zip {outs news : List VId} (hlen : outs.length = news.length) (vm : VMap) (a b : VId)
    (h : vlookup ((outs.zip news).reverse ++ vm) a = some b) :
    (a ∈ outs ∧ b ∈ news) ∨ (a ∉ outs ∧ vlookup vm a = some b) := by
  rw [vlookup_append] at h
  cases h1 : vlookup (outs.zip news).reverse a with
  | some b' =>
    simp [h1] at h
    subst h
    have := vlookup_mem h1
    rw [List.mem_reverse] at this
    exact Or.inl ⟨(List.of_mem_zip this).1, (List.of_mem_zip this).2⟩
  | none =>
    simp [h1] at h
    refine Or.inr ⟨?_, h⟩
    intro ha
    have hfst : (outs.zip news).map Prod.fst = outs := List.map_fst_zip (by omega)
    rw [← hfst] at ha
    simp only [List.mem_map] at ha
    obtain ⟨p, hp, hpa⟩ := ha
    have : (a, p.2) ∈ (outs.zip news).reverse := by
      rw [List.mem_reverse]; rw [← hpa]; exact hp
    obtain ⟨b', hb'⟩ := vlookup_isSome_of_mem this
    rw [hb'] at h1; cases h1

theorem vlookup_zip_mem {outs news : List VId} (hlen : outs.length = news.length) (vm : VMap) (a : VId)
    (ha : a ∈ outs) : ∃ b, vlookup ((outs.zip news).reverse ++ vm) a = some b := by
  have hfst : (outs.zip news).map Prod.fst = outs := List.map_fst_zip (by omega)
  rw [← hfst] at ha
  simp only [List.mem_map] at ha
  obtain ⟨p, hp, hpa⟩ := ha
  have : (a, p.2) ∈ (outs.zip news).reverse ++ vm := by
    rw [List.mem_append, List.mem_reverse]; left; rw [← hpa]; exact hp
  exact vlookup_isSome_of_mem this

/-- same second component means same pair when the second components are pairwise different -/
theorem vm_inj {vm : VMap} (hinj : (vm.map (·.2)).Nodup) {a1 a2 b : VId}
    (h1 : (a1, b) ∈ vm) (h2 : (a2, b) ∈ vm) : a1 = a2 := by
  induction vm with
  | nil => cases h1
  | cons p rest ih =>
    simp only [List.map_cons, List.nodup_cons, List.mem_map, not_exists, not_and] at hinj
    simp only [List.mem_cons] at h1 h2
    rcases h1 with h1 | h1 <;> rcases h2 with h2 | h2
    · rw [← h1] at h2; exact (Prod.mk.inj h2).1.symm
    · exact absurd (show (a2, b).2 = p.2 by rw [← h1]) (hinj.1 _ h2)
    · exact absurd (show (a1, b).2 = p.2 by rw [← h2]) (hinj.1 _ h1)
    · exact ih hinj.2 h1 h2

/-- where an input of a cloned node goes: through the value map when it has an entry, unchanged
    (an outer-scope value that is passed through) otherwise -/
def tgt (vm : VMap) (v : VId) : VId := (vlookup vm v).getD v

/-- a successful `cloneInputs` maps every input through `tgt` -/
theorem cloneInputs_eq {allow : Bool} {pending : List VId} {vm : VMap} :
    ∀ {ins : List (Option VId)} {res : List (Option VId)},
    cloneInputs allow pending vm ins = some res → res = ins.map (Option.map (tgt vm)) := by
  intro ins
  induction ins with
  | nil => intro res h; simp [cloneInputs] at h; subst h; rfl
  | cons o rest ih =>
    intro res h
    cases o with
    | none =>
      simp only [cloneInputs] at h
      cases hr : cloneInputs allow pending vm rest with
      | none => simp [hr] at h
      | some r =>
        simp [hr] at h
        subst h
        simp [ih hr]
    | some v0 =>
      simp only [cloneInputs] at h
      cases hl : vlookup vm v0 with
      | none =>
        simp only [hl] at h
        split at h
        · cases hr : cloneInputs allow pending vm rest with
          | none => simp [hr] at h
          | some r =>
            simp [hr] at h
            subst h
            simp [ih hr, tgt, hl]
        · cases h
      | some b0 =>
        simp only [hl] at h
        cases hr : cloneInputs allow pending vm rest with
        | none => simp [hr] at h
        | some r =>
          simp [hr] at h
          subst h
          simp [ih hr, tgt, hl]

/-- what is known about the entries of a value map of the cloner, relative to the source world `w` and
    the current world `wc`: the targets exist, are new objects, have the shape of their source and are
    pairwise different -/
structure VmOK (w wc : World) (vm : VMap) : Prop where
  lt : ∀ p ∈ vm, p.2 < wc.values.length
  fresh : ∀ p ∈ vm, w.values.length ≤ p.2
  shape : ∀ p ∈ vm, p.1 < w.values.length → (wc.value p.2).shape = (w.value p.1).shape
  inj : (vm.map (·.2)).Nodup

theorem VmOK.nil (w wc : World) : VmOK w wc [] := ⟨by simp, by simp, by simp, by simp⟩

theorem VmOK.ext {w wc wc' : World} {vm : VMap} (h : VmOK w wc vm) (he : Ext wc wc') : VmOK w wc' vm := by
  refine ⟨fun p hp => Nat.lt_of_lt_of_le (h.lt p hp) he.vlen, h.fresh, ?_, h.inj⟩
  intro p hp hlt
  rw [he.shape p.2 (h.lt p hp)]; exact h.shape p hp hlt

/-- what holds of the world and value map while a graph is being cloned -/
structure CloneInv (G : VId → Prop) (w : World) (cfgs : List CId) (wc : World) (vm : VMap) : Prop where
  ext : Ext w wc
  cfgsEq : wc.cfgs = w.cfgs
  models : wc.models = w.models
  nodes : ∃ extra, wc.nodes = w.nodes ++ extra ∧ ∀ nd ∈ extra, NodeOK G wc nd ∧ ∀ nc ∈ nd.dev, nc.cfg ∈ cfgs
  vmok : VmOK w wc vm
  vals : ∃ extra, wc.values = w.values ++ extra

theorem CloneInv.init (w : World) (cfgs : List CId) : CloneInv G w cfgs w [] :=
  ⟨Ext.refl w, rfl, rfl, ⟨[], by simp, by simp⟩, VmOK.nil w w, ⟨[], by simp⟩⟩

/-- a new `Cloner` on the same world -/
theorem CloneInv.reset {w : World} {cfgs : List CId} {wc : World} {vm : VMap} (h : CloneInv G w cfgs wc vm) :
    CloneInv G w cfgs wc [] := ⟨h.ext, h.cfgsEq, h.models, h.nodes, VmOK.nil w wc, h.vals⟩

theorem value_append_left (w : World) (extra : List ValueS) (v : VId) (hv : v < w.values.length) :
    World.value { w with values := w.values ++ extra } v = w.value v := by
  simp [World.value, List.getD_eq_getElem?_getD, List.getElem?_append_left hv]

theorem cloneValue_ext (st : World × VMap) (v : VId) : Ext st.1 (cloneValue st v).1 := by
  unfold cloneValue
  split
  · exact Ext.refl _
  · exact Ext_append_values st.1 _

theorem cloneValue_inv {w : World} {cfgs : List CId} {wc : World} {vm : VMap}
    (h : CloneInv G w cfgs wc vm) (v : VId) :
    CloneInv G w cfgs (cloneValue (wc, vm) v).1 (cloneValue (wc, vm) v).2 := by
  unfold cloneValue
  simp only
  split
  · exact h
  · have hext : Ext wc { wc with values := wc.values ++ [wc.value v] } := Ext_append_values wc _
    obtain ⟨extra, hex, hok⟩ := h.nodes
    obtain ⟨vex, hvex⟩ := h.vals
    refine ⟨h.ext.trans hext, h.cfgsEq, h.models, ⟨extra, hex, ?_⟩, ⟨?_, ?_, ?_, ?_⟩,
      ⟨vex ++ [wc.value v], by simp [hvex]⟩⟩
    · intro nd hnd; exact ⟨(hok nd hnd).1.ext hext, (hok nd hnd).2⟩
    · intro p hp
      simp only [List.mem_cons] at hp
      rcases hp with hp | hp
      · subst hp; simp
      · have := h.vmok.lt p hp
        simp only [List.length_append, List.length_singleton]; exact Nat.lt_succ_of_lt this
    · intro p hp
      simp only [List.mem_cons] at hp
      rcases hp with hp | hp
      · subst hp; exact h.ext.vlen
      · exact h.vmok.fresh p hp
    · intro p hp hlt
      simp only [List.mem_cons] at hp
      rcases hp with hp | hp
      · subst hp
        simp only
        have : World.value { wc with values := wc.values ++ [wc.value v] } wc.values.length = wc.value v := by
          simp [World.value, List.getD_eq_getElem?_getD]
        rw [this]
        exact h.ext.shape v hlt
      · rw [value_append_left wc _ p.2 (h.vmok.lt p hp)]
        exact h.vmok.shape p hp hlt
    · simp only [List.map_cons, List.nodup_cons]
      refine ⟨?_, h.vmok.inj⟩
      intro hmem
      simp only [List.mem_map] at hmem
      obtain ⟨p, hp, hpe⟩ := hmem
      have := h.vmok.lt p hp
      rw [hpe] at this
      exact Nat.lt_irrefl _ this

theorem foldl_cloneValue_inv {w : World} {cfgs : List CId} (ins : List VId) :
    ∀ {wc : World} {vm : VMap}, CloneInv G w cfgs wc vm →
    CloneInv G w cfgs (ins.foldl cloneValue (wc, vm)).1 (ins.foldl cloneValue (wc, vm)).2 := by
  induction ins with
  | nil => intro wc vm h; exact h
  | cons v rest ih =>
    intro wc vm h
    simp only [List.foldl_cons]
    have := cloneValue_inv h v
    exact ih this

theorem cloneValue_nodes (st : World × VMap) (v : VId) : (cloneValue st v).1.nodes = st.1.nodes := by
  unfold cloneValue
  split <;> rfl

theorem foldl_cloneValue_nodes (ins : List VId) : ∀ (st : World × VMap),
    (ins.foldl cloneValue st).1.nodes = st.1.nodes := by
  induction ins with
  | nil => intro st; rfl
  | cons v rest ih => intro st; simp only [List.foldl_cons]; rw [ih, cloneValue_nodes]

theorem foldl_cloneValue_ext (ins : List VId) : ∀ (st : World × VMap), Ext st.1 (ins.foldl cloneValue st).1 := by
  induction ins with
  | nil => intro st; exact Ext.refl _
  | cons v rest ih =>
    intro st
    simp only [List.foldl_cons]
    exact (cloneValue_ext st v).trans (ih _)

theorem Ext.of_append {w w' : World} (extra : List ValueS) (hv : w'.values = w.values ++ extra)
    (hc : w'.cfgs = w.cfgs) : Ext w w' := by
  refine ⟨by rw [hv]; simp, ?_, by rw [hc]; exact Nat.le_refl _, ?_⟩
  · intro v hlt
    simp [World.value, hv, List.getD_eq_getElem?_getD, List.getElem?_append_left hlt]
  · intro c _; simp [World.cfg, hc]

theorem nodup_reverse' {α : Type} {l : List α} : l.reverse.Nodup ↔ l.Nodup := by
  simp only [List.Nodup, List.pairwise_reverse]
  constructor <;> intro h <;> exact h.imp (fun hab e => hab e.symm)

theorem nodup_map_of_inj_on {α β : Type} {f : α → β} : ∀ {l : List α}, l.Nodup →
    (∀ a ∈ l, ∀ b ∈ l, f a = f b → a = b) → (l.map f).Nodup := by
  intro l
  induction l with
  | nil => intro _ _; simp
  | cons x rest ih =>
    intro hl hinj
    simp only [List.nodup_cons] at hl
    simp only [List.map_cons, List.nodup_cons, List.mem_map, not_exists, not_and]
    refine ⟨?_, ih hl.2 (fun a ha b hb => hinj a (by simp [ha]) b (by simp [hb]))⟩
    intro y hy e
    have := hinj y (by simp [hy]) x (by simp) e
    subst this
    exact hl.1 hy

theorem zip_range'_value {wc : World} {outs : List VId} {a b : VId}
    (h : (a, b) ∈ outs.zip (List.range' wc.values.length outs.length)) (w1 : World)
    (hv : w1.values = wc.values ++ outs.map wc.value) :
    w1.value b = wc.value a ∧ wc.values.length ≤ b ∧ b < wc.values.length + outs.length ∧ a ∈ outs := by
  obtain ⟨i, hi, he⟩ := List.getElem_of_mem h
  simp only [List.length_zip, List.length_range', Nat.min_self] at hi
  rw [List.getElem_zip] at he
  simp only [List.getElem_range', Nat.one_mul, Prod.mk.injEq] at he
  obtain ⟨ha, hb⟩ := he
  refine ⟨?_, by rw [← hb]; exact Nat.le_add_right _ _, by rw [← hb]; exact Nat.add_lt_add_left hi _, by rw [← ha]; exact List.getElem_mem _⟩
  rw [← hb, ← ha]
  have : w1.value (wc.values.length + i) = (w1.values[wc.values.length + i]?).getD {} := by
    simp [World.value, List.getD_eq_getElem?_getD]
  rw [this, hv, List.getElem?_append_right (Nat.le_add_right _ _)]
  simp [hi]

/-- the rewrite of one spec in `_remap_device_configurations` -/
def remapSpec (vm : VMap) (s : Spec) : Spec :=
  match vlookup vm s.value with
  | some v' => { s with value := v' }
  | none => s

theorem remapDev_eq (vm : VMap) (dev : List NodeCfg) :
    remapDev vm dev = dev.map (fun nc => { nc with specs := nc.specs.map (remapSpec vm) }) := rfl

theorem remapSpec_of_lookup {vm : VMap} {s : Spec} {b : VId} (h : vlookup vm s.value = some b) :
    remapSpec vm s = { s with value := b } := by
  simp [remapSpec, h]

/-- the input part of `io_map` -/
def inPart (f : VId → VId) (ins : List (Option VId)) : VMap :=
  ((ins.zip (ins.map (Option.map f))).filterMap (fun p => match p with
    | (some a, some b) => some (a, b)
    | _ => none)).reverse

theorem mem_inPart {f : VId → VId} {ins : List (Option VId)} {a b : VId} :
    (a, b) ∈ inPart f ins ↔ some a ∈ ins ∧ b = f a := by
  unfold inPart
  rw [List.mem_reverse]
  induction ins with
  | nil => simp
  | cons o rest ih =>
    cases o with
    | none =>
      simp only [List.map_cons, List.zip_cons_cons, List.filterMap_cons, Option.map_none]
      rw [ih]; simp
    | some x =>
      simp only [List.map_cons, List.zip_cons_cons, List.filterMap_cons, Option.map_some, List.mem_cons, Prod.mk.injEq]
      rw [ih]
      constructor
      · rintro (⟨rfl, rfl⟩ | ⟨h1, h2⟩)
        · exact ⟨Or.inl rfl, rfl⟩
        · exact ⟨Or.inr h1, h2⟩
      · rintro ⟨h1 | h1, h2⟩
        · cases h1; exact Or.inl ⟨rfl, h2⟩
        · exact Or.inr ⟨h1, h2⟩

theorem vlookup_inPart {f : VId → VId} {ins : List (Option VId)} (x : VId) :
    vlookup (inPart f ins) x = if some x ∈ ins then some (f x) else none := by
  cases hl : vlookup (inPart f ins) x with
  | some b =>
    have := mem_inPart.mp (vlookup_mem hl)
    simp [this.1, this.2]
  | none =>
    split
    · rename_i hx
      obtain ⟨b', hb'⟩ := vlookup_isSome_of_mem (mem_inPart.mpr ⟨hx, rfl⟩)
      rw [hb'] at hl; cases hl
    · rfl

theorem ioMap_eq (f : VId → VId) (ins : List (Option VId)) (outs newOuts : List VId) :
    ioMap ins (ins.map (Option.map f)) outs newOuts = (outs.zip newOuts).reverse ++ inPart f ins := rfl

/-- the `io_map` of the node `clone_node` creates -/
def nodeIoMap (wc : World) (vm0 : VMap) (nd : NodeS) : VMap :=
  ioMap nd.inputs (nd.inputs.map (Option.map (tgt vm0))) nd.outputs
    (List.range' wc.values.length nd.outputs.length)

/-- the node `clone_node` creates (`vm1`: the global value map after the outputs were entered) -/
def clonedNode (wc : World) (vm0 vm1 : VMap) (nd : NodeS) (subs : List GId) : NodeS :=
  { inputs := nd.inputs.map (Option.map (tgt vm0)),
    outputs := List.range' wc.values.length nd.outputs.length,
    dev := remapDev (nodeIoMap wc vm0 nd ++ vm1) nd.dev,
    subgraphs := subs }

/-- creating the clone of node `nd` once its inputs have been resolved (through the map `vm0` the cloner
    had when it looked at the inputs) and its subgraphs cloned (reaching the world `wc` and the map `vm`) -/
theorem buildNode_inv {w : World} [hGf : Fresh G w.values.length] {cfgs : List CId} {wc : World} {vm vm0 : VMap} {nd : NodeS}
    (h : CloneInv G w cfgs wc vm) (h0 : VmOK w wc vm0) (hnd : NodeOK G w nd) (hreg : ∀ nc ∈ nd.dev, nc.cfg ∈ cfgs)
    {subs : List GId} {w1 : World} {vm1 : VMap}
    (hv1 : w1.values = wc.values ++ nd.outputs.map wc.value) (hc1 : w1.cfgs = wc.cfgs)
    (hm1 : w1.models = wc.models) (hn1 : w1.nodes = wc.nodes ++ [(clonedNode wc vm0 vm1 nd subs)])
    (hvm1 : (nd.outputs.zip (List.range' wc.values.length nd.outputs.length)).reverse ++ vm = vm1) :
    CloneInv G w cfgs w1 vm1 ∧ w1.nodes.length = wc.nodes.length + 1 := by
  have hlen : nd.outputs.length = (List.range' wc.values.length nd.outputs.length).length := by simp
  have hext1 : Ext wc w1 := Ext.of_append _ hv1 hc1
  have hextw : Ext w w1 := h.ext.trans hext1
  have hzip : ∀ a b, (a, b) ∈ (nd.outputs.zip (List.range' wc.values.length nd.outputs.length)).reverse →
      w1.value b = wc.value a ∧ wc.values.length ≤ b ∧ b < wc.values.length + nd.outputs.length ∧ a ∈ nd.outputs := by
    intro a b hab
    rw [List.mem_reverse] at hab
    exact zip_range'_value hab w1 hv1
  have hlenv : w1.values.length = wc.values.length + nd.outputs.length := by rw [hv1]; simp
  have hzinj : (((nd.outputs.zip (List.range' wc.values.length nd.outputs.length)).reverse).map (·.2)).Nodup := by
    rw [List.map_reverse, nodup_reverse', List.map_snd_zip (by simp)]
    exact List.nodup_range' (h := by decide)
  -- value map facts
  have hvmok : VmOK w w1 vm1 := by
    refine ⟨?_, ?_, ?_, ?_⟩
    · intro p hp
      rw [← hvm1, List.mem_append] at hp
      rcases hp with hp | hp
      · rw [hlenv]; exact (hzip p.1 p.2 hp).2.2.1
      · rw [hlenv]; exact Nat.lt_of_lt_of_le (h.vmok.lt p hp) (Nat.le_add_right _ _)
    · intro p hp
      rw [← hvm1, List.mem_append] at hp
      rcases hp with hp | hp
      · exact Nat.le_trans h.ext.vlen (hzip p.1 p.2 hp).2.1
      · exact h.vmok.fresh p hp
    · intro p hp hlt
      rw [← hvm1, List.mem_append] at hp
      rcases hp with hp | hp
      · rw [(hzip p.1 p.2 hp).1]; exact h.ext.shape p.1 hlt
      · rw [hext1.shape p.2 (h.vmok.lt p hp)]; exact h.vmok.shape p hp hlt
    · rw [← hvm1, List.map_append, List.nodup_append]
      refine ⟨hzinj, h.vmok.inj, ?_⟩
      intro x hx y hy
      simp only [List.mem_map] at hx hy
      obtain ⟨p, hp, rfl⟩ := hx
      obtain ⟨q, hq, rfl⟩ := hy
      have h1 := (hzip p.1 p.2 hp).2.1
      have h2 := h.vmok.lt q hq
      intro e
      rw [e] at h1
      exact Nat.lt_irrefl _ (Nat.lt_of_lt_of_le h2 h1)
  -- the new node
  have hnewok : NodeOK G w1 (clonedNode wc vm0 vm1 nd subs) ∧ ∀ nc ∈ (clonedNode wc vm0 vm1 nd subs).dev, nc.cfg ∈ cfgs := by
    obtain ⟨hids, hndup, hall⟩ := hnd
    -- where `tgt vm0` sends a value of the source world
    have htgt : ∀ v, v < w.values.length → tgt vm0 v < wc.values.length ∧
        (w1.value (tgt vm0 v)).shape = (w.value v).shape := by
      intro v hv
      unfold tgt
      cases hl : vlookup vm0 v with
      | none =>
        simp only [Option.getD_none]
        exact ⟨Nat.lt_of_lt_of_le hv h.ext.vlen, hextw.shape v hv⟩
      | some b =>
        simp only [Option.getD_some]
        have hm := vlookup_mem hl
        exact ⟨h0.lt _ hm, by rw [hext1.shape b (h0.lt _ hm)]; exact h0.shape _ hm hv⟩
    have htinj : ∀ x y, x < w.values.length → y < w.values.length → tgt vm0 x = tgt vm0 y → x = y := by
      intro x y hx hy e
      cases hlx : vlookup vm0 x with
      | none =>
        have ex : tgt vm0 x = x := by simp [tgt, hlx]
        cases hly : vlookup vm0 y with
        | none =>
          have ey : tgt vm0 y = y := by simp [tgt, hly]
          rw [ex, ey] at e; exact e
        | some b =>
          have ey : tgt vm0 y = b := by simp [tgt, hly]
          rw [ex, ey] at e
          have e' : (x : Nat) = b := e
          have : w.values.length ≤ b := h0.fresh (y, b) (vlookup_mem hly)
          omega
      | some a =>
        have ex : tgt vm0 x = a := by simp [tgt, hlx]
        cases hly : vlookup vm0 y with
        | none =>
          have ey : tgt vm0 y = y := by simp [tgt, hly]
          rw [ex, ey] at e
          have hge : w.values.length ≤ a := h0.fresh (x, a) (vlookup_mem hlx)
          rw [e] at hge
          exact absurd hge (Nat.not_le.mpr hy)
        | some b =>
          have ey : tgt vm0 y = b := by simp [tgt, hly]
          rw [ex, ey] at e
          subst e
          exact vm_inj h0.inj (vlookup_mem hlx) (vlookup_mem hly)
    -- the io map on a value of the node
    have hlook : ∀ v, InIO nd v → ∃ b,
        vlookup (nodeIoMap wc vm0 nd ++ vm1) v = some b ∧
        InIO (clonedNode wc vm0 vm1 nd subs) b ∧ b < w1.values.length ∧ (w1.value b).shape = (w.value v).shape ∧
        ((v ∈ nd.outputs ∧ (v, b) ∈ (nd.outputs.zip (List.range' wc.values.length nd.outputs.length)).reverse) ∨
         (v ∉ nd.outputs ∧ b = tgt vm0 v)) := by
      intro v hv
      have hvlt : v < w.values.length := InIO.lt hids hv
      rw [vlookup_append]
      suffices hs : ∃ b, vlookup (nodeIoMap wc vm0 nd) v = some b ∧
          InIO (clonedNode wc vm0 vm1 nd subs) b ∧ b < w1.values.length ∧ (w1.value b).shape = (w.value v).shape ∧
          ((v ∈ nd.outputs ∧ (v, b) ∈ (nd.outputs.zip (List.range' wc.values.length nd.outputs.length)).reverse) ∨
           (v ∉ nd.outputs ∧ b = tgt vm0 v)) by
        obtain ⟨b, hb, rest⟩ := hs
        exact ⟨b, by simp [hb], rest⟩
      unfold nodeIoMap
      rw [ioMap_eq]
      by_cases hvo : v ∈ nd.outputs
      · obtain ⟨b, hb⟩ := vlookup_zip_mem hlen (inPart (tgt vm0) nd.inputs) v hvo
        have hbz : (v, b) ∈ (nd.outputs.zip (List.range' wc.values.length nd.outputs.length)).reverse := by
          rw [vlookup_append] at hb
          cases hz : vlookup (nd.outputs.zip (List.range' wc.values.length nd.outputs.length)).reverse v with
          | none =>
            exfalso
            have hfst : (nd.outputs.zip (List.range' wc.values.length nd.outputs.length)).map Prod.fst = nd.outputs :=
              List.map_fst_zip (by simp)
            rw [← hfst] at hvo
            simp only [List.mem_map] at hvo
            obtain ⟨p, hp, hpa⟩ := hvo
            have : (v, p.2) ∈ (nd.outputs.zip (List.range' wc.values.length nd.outputs.length)).reverse := by
              rw [List.mem_reverse, ← hpa]; exact hp
            obtain ⟨b', hb'⟩ := vlookup_isSome_of_mem this
            rw [hb'] at hz; cases hz
          | some b' =>
            simp only [hz, Option.or_some] at hb
            cases hb
            exact vlookup_mem hz
        obtain ⟨z1, z2, z3, _⟩ := hzip v b hbz
        refine ⟨b, hb, Or.inr ?_, by rw [hlenv]; exact z3, by rw [z1]; exact h.ext.shape v hvlt, Or.inl ⟨hvo, hbz⟩⟩
        show b ∈ List.range' wc.values.length nd.outputs.length
        rw [List.mem_range'_1]; exact ⟨z2, z3⟩
      · have hvi : some v ∈ nd.inputs := by
          rcases hv with hv | hv
          · exact hv
          · exact absurd hv hvo
        have hz : vlookup (nd.outputs.zip (List.range' wc.values.length nd.outputs.length)).reverse v = none := by
          cases hz : vlookup (nd.outputs.zip (List.range' wc.values.length nd.outputs.length)).reverse v with
          | none => rfl
          | some b' => exact absurd (hzip v b' (vlookup_mem hz)).2.2.2 hvo
        refine ⟨tgt vm0 v, ?_, Or.inl ?_, ?_, (htgt v hvlt).2, Or.inr ⟨hvo, rfl⟩⟩
        · rw [vlookup_append, hz, vlookup_inPart]; simp [hvi]
        · show some (tgt vm0 v) ∈ nd.inputs.map (Option.map (tgt vm0))
          exact List.mem_map.mpr ⟨some v, hvi, rfl⟩
        · rw [hlenv]; exact Nat.lt_of_lt_of_le (htgt v hvlt).1 (Nat.le_add_right _ _)
    refine ⟨⟨⟨?_, ?_⟩, ?_, ?_⟩, ?_⟩
    · intro o ho v hov
      subst hov
      have ho' : some v ∈ nd.inputs.map (Option.map (tgt vm0)) := ho
      simp only [List.mem_map] at ho'
      obtain ⟨o0, ho0, he⟩ := ho'
      cases o0 with
      | none => cases he
      | some v0 =>
        simp only [Option.map_some, Option.some.injEq] at he
        subst he
        have := (htgt v0 (hids.1 _ ho0 v0 rfl)).1
        rw [hlenv]; exact Nat.lt_of_lt_of_le this (Nat.le_add_right _ _)
    · intro v hv
      have hv : v ∈ List.range' wc.values.length nd.outputs.length := hv
      rw [List.mem_range'_1] at hv
      rw [hlenv]; exact hv.2
    · show ((remapDev _ nd.dev).map (·.cfg)).Nodup
      have : ∀ L, (remapDev L nd.dev).map (·.cfg) = nd.dev.map (·.cfg) := by
        intro L; simp [remapDev, List.map_map, Function.comp_def]
      rw [this]; exact hndup
    · intro nc' hnc'
      have hnc' : nc' ∈ remapDev _ nd.dev := hnc'
      rw [remapDev_eq] at hnc'
      simp only [List.mem_map] at hnc'
      obtain ⟨nc, hnc, rfl⟩ := hnc'
      obtain ⟨a, b, c, d⟩ := hall nc hnc
      refine ⟨by rw [hc1, h.cfgsEq]; exact a, b, ?_, ?_⟩
      · trivial
      · intro s' hs'
        have hs'' : s' ∈ nc.specs.map (remapSpec _) := hs'
        simp only [List.mem_map] at hs''
        obtain ⟨s, hs, rfl⟩ := hs''
        obtain ⟨hio, hwf⟩ := d s hs
        obtain ⟨b', hb', hio', _, hsh, hcase⟩ := hlook s.value hio
        rw [remapSpec_of_lookup hb']
        refine ⟨hio', ?_⟩
        have hcfg : w1.cfg nc.cfg = w.cfg nc.cfg := hextw.cfg _ a
        have hgb : G b' ∨ b' = s.value := by
          rcases hcase with ⟨_, z⟩ | ⟨_, e⟩
          · exact Or.inl (hGf.out _ (Nat.le_trans h.ext.vlen (hzip _ _ z).2.1))
          · unfold tgt at e
            cases hl : vlookup vm0 s.value with
            | none => right; rw [e, hl]; rfl
            | some x => left; rw [e, hl]; exact hGf.out _ (h0.fresh _ (vlookup_mem hl))
        have hr : rankOf (w1.value b') = rankOf (w.value s.value) := by simp [rankOf, hsh]
        obtain ⟨q1, q2, q3, q4⟩ := hwf
        show SpecWF G w1 (w1.cfg nc.cfg).numDevices _
        refine ⟨?_, ?_, q3, by rw [hcfg]; exact q4⟩
        · intro hg
          rcases hgb with g | e
          · exact absurd g hg
          · show ∀ d ∈ s.dims, ¬ AxisBad (rankOf (w1.value b')) d.axis
            rw [hr]; exact q1 (fun g => hg (e ▸ g))
        · intro hg
          rcases hgb with g | e
          · exact absurd g hg
          · show (s.dims.map (fun d => normAxis (rankOf (w1.value b')) d.axis)).Nodup
            rw [hr]; exact q2 (fun g => hg (e ▸ g))
    · intro nc' hnc'
      have hnc' : nc' ∈ remapDev _ nd.dev := hnc'
      rw [remapDev_eq] at hnc'
      simp only [List.mem_map] at hnc'
      obtain ⟨nc, hnc, rfl⟩ := hnc'
      exact hreg nc hnc
  obtain ⟨extra, hex, hok⟩ := h.nodes
  obtain ⟨vex, hvex⟩ := h.vals
  refine ⟨⟨hextw, by rw [hc1, h.cfgsEq], by rw [hm1, h.models], ?_, hvmok,
    ⟨vex ++ nd.outputs.map wc.value, by rw [hv1, hvex, List.append_assoc]⟩⟩, by rw [hn1]; simp⟩
  refine ⟨extra ++ [(clonedNode wc vm0 vm1 nd subs)], by rw [hn1, hex, List.append_assoc], ?_⟩
  intro x hx
  simp only [List.mem_append, List.mem_singleton] at hx
  rcases hx with hx | hx
  · exact ⟨(hok x hx).1.ext hext1, (hok x hx).2⟩
  · rw [hx]; exact hnewok

/-- the pieces of a successful `cloneNode` -/
theorem cloneNode_parts {rec : CSt → GId → Option (CSt × GId)} {st st' : CSt} {nd : NodeS} {k : NId}
    (hc : cloneNode rec st nd = some (st', k)) :
    ∃ st1 subs,
      cloneSubgraphs rec st nd.subgraphs = some (st1, subs) ∧
      k = st1.w.nodes.length ∧
      st'.vm = (nd.outputs.zip (List.range' st1.w.values.length nd.outputs.length)).reverse ++ st1.vm ∧
      st'.newNodes = st1.newNodes ++ [st1.w.nodes.length] ∧ st'.newGraphs = st1.newGraphs ∧
      st'.w.values = st1.w.values ++ nd.outputs.map st1.w.value ∧ st'.w.cfgs = st1.w.cfgs ∧
      st'.w.models = st1.w.models ∧
      st'.w.nodes = st1.w.nodes ++ [clonedNode st1.w st.vm st'.vm nd subs] := by
  unfold cloneNode at hc
  cases hci : cloneInputs st.allow st.pending st.vm nd.inputs with
  | none => simp [hci] at hc
  | some ins =>
    simp only [hci] at hc
    have hins := cloneInputs_eq hci
    cases hcs : cloneSubgraphs rec st nd.subgraphs with
    | none => simp [hcs] at hc
    | some r =>
      obtain ⟨st1, subs⟩ := r
      simp only [hcs] at hc
      split at hc
      · cases hc
      · simp only [Option.some.injEq, Prod.mk.injEq] at hc
        obtain ⟨rfl, rfl⟩ := hc
        subst hins
        exact ⟨st1, subs, rfl, rfl, rfl, rfl, rfl, rfl, rfl, rfl, rfl⟩

/-- the pieces of a successful `cloneGraphBody` -/
theorem cloneGraphBody_parts {rec : CSt → GId → Option (CSt × GId)} {src : World} {st st' : CSt}
    {g g' : GId} (hc : cloneGraphBody rec src st g = some (st', g')) :
    ∃ st2 ns, cloneNodes rec src
        { st with w := (((src.graph g).inputs ++ (src.graph g).inits).foldl cloneValue (st.w, st.vm)).1,
                  vm := (((src.graph g).inputs ++ (src.graph g).inits).foldl cloneValue (st.w, st.vm)).2,
                  pending := st.pending ++ ((src.graph g).nodes.map (fun n => (src.node n).outputs)).flatten }
        (src.graph g).nodes [] = some (st2, ns) ∧
      st'.vm = st2.vm ∧ st'.newNodes = st2.newNodes ∧
      st'.w.values = st2.w.values ∧ st'.w.cfgs = st2.w.cfgs ∧ st'.w.nodes = st2.w.nodes ∧
      st'.w.models = st2.w.models := by
  unfold cloneGraphBody at hc
  simp only at hc
  split at hc
  · cases hc
  · rename_i st2 ns hcn
    simp only [Option.some.injEq, Prod.mk.injEq] at hc
    obtain ⟨rfl, _⟩ := hc
    exact ⟨st2, ns, hcn, rfl, rfl, rfl, rfl, rfl, rfl⟩

/-! #### the invariant -/

/-- invariant of the cloner state relative to the source world `w` -/
structure CInv (G : VId → Prop) (w : World) (cfgs : List CId) (st : CSt) : Prop where
  inv : CloneInv G w cfgs st.w st.vm
  newOK : ∀ k ∈ st.newNodes, w.nodes.length ≤ k ∧ k < st.w.nodes.length

/-- what `clone_graph` must satisfy on the graphs of the model `ms` of the source world `w` -/
def RecSpec (G : VId → Prop) (w : World) (ms : ModelS) (rec : CSt → GId → Option (CSt × GId)) : Prop :=
  ∀ st g st' g', g ∈ ms.graphs → rec st g = some (st', g') → CInv G w ms.cfgs st →
    CInv G w ms.cfgs st' ∧ Ext st.w st'.w

theorem CloneInv.len_le {w : World} {cfgs : List CId} {wc : World} {vm : VMap} (h : CloneInv G w cfgs wc vm) :
    w.nodes.length ≤ wc.nodes.length := by
  obtain ⟨extra, hex, _⟩ := h.nodes
  rw [hex]; simp

theorem cloneSubgraphs_spec {w : World} {ms : ModelS} {rec : CSt → GId → Option (CSt × GId)}
    (hrec : RecSpec G w ms rec) : ∀ (gs : List GId) (st st' : CSt) (subs : List GId),
    (∀ g ∈ gs, g ∈ ms.graphs) → cloneSubgraphs rec st gs = some (st', subs) →
    CInv G w ms.cfgs st → CInv G w ms.cfgs st' ∧ Ext st.w st'.w := by
  intro gs
  induction gs with
  | nil =>
    intro st st' subs _ hc hinv
    simp only [cloneSubgraphs, Option.some.injEq, Prod.mk.injEq] at hc
    obtain ⟨rfl, _⟩ := hc
    exact ⟨hinv, Ext.refl _⟩
  | cons g rest ih =>
    intro st st' subs hgs hc hinv
    simp only [cloneSubgraphs] at hc
    cases hr : rec st g with
    | none => simp [hr] at hc
    | some r =>
      obtain ⟨st1, g1⟩ := r
      simp only [hr] at hc
      cases hr2 : cloneSubgraphs rec st1 rest with
      | none => simp [hr2] at hc
      | some r2 =>
        obtain ⟨st2, subs2⟩ := r2
        simp only [hr2, Option.map_some, Option.some.injEq, Prod.mk.injEq] at hc
        obtain ⟨rfl, _⟩ := hc
        obtain ⟨b1, c1⟩ := hrec st g st1 g1 (hgs g (by simp)) hr hinv
        obtain ⟨b2, c2⟩ := ih st1 st2 subs2 (fun x hx => hgs x (by simp [hx])) hr2 b1
        exact ⟨b2, c1.trans c2⟩

theorem cloneNode_spec {w : World} [hGf : Fresh G w.values.length] {ms : ModelS} {rec : CSt → GId → Option (CSt × GId)}
    (hrec : RecSpec G w ms rec) {st st' : CSt} {nd : NodeS} {k : NId}
    (hnd : NodeOK G w nd) (hreg : ∀ nc ∈ nd.dev, nc.cfg ∈ ms.cfgs) (hsub : ∀ g ∈ nd.subgraphs, g ∈ ms.graphs)
    (hc : cloneNode rec st nd = some (st', k)) (hinv : CInv G w ms.cfgs st) :
    CInv G w ms.cfgs st' ∧ Ext st.w st'.w := by
  obtain ⟨st1, subs, hcs, hk, hvm, hnn, hng, hv1, hc1, hm1, hn1⟩ := cloneNode_parts hc
  obtain ⟨hinv1, hext1⟩ := cloneSubgraphs_spec hrec _ _ _ _ hsub hcs hinv
  have hb := buildNode_inv (w1 := st'.w) (vm1 := st'.vm) hinv1.inv (hinv.inv.vmok.ext hext1) hnd hreg
    (subs := subs) hv1 hc1 hm1 hn1 hvm.symm
  refine ⟨⟨hb.1, ?_⟩, hext1.trans (Ext.of_append _ hv1 hc1)⟩
  intro x hx
  rw [hnn, List.mem_append, List.mem_singleton] at hx
  rw [hb.2]
  rcases hx with hx | hx
  · exact ⟨(hinv1.newOK x hx).1, Nat.lt_succ_of_lt (hinv1.newOK x hx).2⟩
  · rw [hx]; exact ⟨hinv1.inv.len_le, Nat.lt_succ_self _⟩

theorem cloneNodes_spec {w : World} [hGf : Fresh G w.values.length] {ms : ModelS} {rec : CSt → GId → Option (CSt × GId)}
    (hrec : RecSpec G w ms rec) (hD : DevOK G w) (hmo : ModelOK w ms) (hcl : Closed w ms) :
    ∀ (ns : List NId) (st st' : CSt) (acc res : List NId), (∀ n ∈ ns, n ∈ ms.nodes) →
    cloneNodes rec w st ns acc = some (st', res) → CInv G w ms.cfgs st →
    CInv G w ms.cfgs st' ∧ Ext st.w st'.w := by
  intro ns
  induction ns with
  | nil =>
    intro st st' acc res _ hc hinv
    simp only [cloneNodes, Option.some.injEq, Prod.mk.injEq] at hc
    obtain ⟨rfl, _⟩ := hc
    exact ⟨hinv, Ext.refl _⟩
  | cons n rest ih =>
    intro st st' acc res hns hc hinv
    simp only [cloneNodes] at hc
    cases hcn : cloneNode rec st (w.node n) with
    | none => simp [hcn] at hc
    | some r =>
      obtain ⟨st1, k⟩ := r
      simp only [hcn] at hc
      have hn : n ∈ ms.nodes := hns n (by simp)
      obtain ⟨b1, c1⟩ := cloneNode_spec hrec (hD.node n) (hmo.1 n hn).2 (hcl.2.2.1 n hn) hcn hinv
      obtain ⟨b2, c2⟩ := ih st1 st' _ res (fun x hx => hns x (by simp [hx])) hc b1
      exact ⟨b2, c1.trans c2⟩

theorem CloneInv.of_eq {w : World} {cfgs : List CId} {wc wc' : World} {vm : VMap}
    (h : CloneInv G w cfgs wc vm) (hv : wc'.values = wc.values) (hc : wc'.cfgs = wc.cfgs)
    (hn : wc'.nodes = wc.nodes) (hm : wc'.models = wc.models) : CloneInv G w cfgs wc' vm := by
  have hext : Ext wc wc' := Ext.of_eq hv hc
  obtain ⟨extra, hex, hok⟩ := h.nodes
  refine ⟨h.ext.trans hext, by rw [hc, h.cfgsEq], by rw [hm, h.models], ⟨extra, by rw [hn, hex], ?_⟩, h.vmok.ext hext,
    by rw [hv]; exact h.vals⟩
  intro nd hnd; exact ⟨(hok nd hnd).1.ext hext, (hok nd hnd).2⟩

theorem cloneGraphBody_spec {w : World} [hGf : Fresh G w.values.length] {ms : ModelS} {rec : CSt → GId → Option (CSt × GId)}
    (hrec : RecSpec G w ms rec) (hD : DevOK G w) (hmo : ModelOK w ms) (hcl : Closed w ms) :
    RecSpec G w ms (cloneGraphBody rec w) := by
  intro st g st' g' hg hc hinv
  obtain ⟨st2, ns, hcn, hvm, hnn, hv, hcf, hnd, hmd⟩ := cloneGraphBody_parts hc
  have hi := foldl_cloneValue_inv (w := w) (cfgs := ms.cfgs) ((w.graph g).inputs ++ (w.graph g).inits) hinv.inv
  have hnodes := foldl_cloneValue_nodes ((w.graph g).inputs ++ (w.graph g).inits) (st.w, st.vm)
  have hext0 := foldl_cloneValue_ext ((w.graph g).inputs ++ (w.graph g).inits) (st.w, st.vm)
  generalize ((w.graph g).inputs ++ (w.graph g).inits).foldl cloneValue (st.w, st.vm) = r at hcn hi hnodes hext0
  have hinv0 : CInv G w ms.cfgs { st with w := r.1, vm := r.2, pending := st.pending ++ ((w.graph g).nodes.map (fun n => (w.node n).outputs)).flatten } := by
    refine ⟨hi, ?_⟩
    intro k hk
    have hk' : k ∈ st.newNodes := hk
    refine ⟨(hinv.newOK k hk').1, ?_⟩
    show k < r.1.nodes.length
    rw [hnodes]; exact (hinv.newOK k hk').2
  obtain ⟨b, c⟩ := cloneNodes_spec hrec hD hmo hcl _ _ _ _ _ (hcl.2.1 g hg) hcn hinv0
  refine ⟨⟨(b.inv.of_eq hv hcf hnd hmd) |> fun x => hvm ▸ x, ?_⟩, ?_⟩
  · intro k hk
    rw [hnn] at hk
    rw [hnd]; exact b.newOK k hk
  · exact (hext0.trans c).trans (Ext.of_eq hv hcf)

theorem cloneGraphF_spec {w : World} [hGf : Fresh G w.values.length] {ms : ModelS} (hD : DevOK G w) (hmo : ModelOK w ms) (hcl : Closed w ms) :
    ∀ (f : Nat), RecSpec G w ms (cloneGraphF w f) := by
  intro f
  induction f with
  | zero => intro st g st' g' _ hc; simp [cloneGraphF] at hc
  | succ f ih =>
    intro st g st' g' hg hc
    simp only [cloneGraphF] at hc
    exact cloneGraphBody_spec ih hD hmo hcl st g st' g' hg hc

/-- one cloner per root graph -/
theorem cloneRoots_spec {w : World} [hGf : Fresh G w.values.length] {ms : ModelS} (hD : DevOK G w) (hmo : ModelOK w ms) (hcl : Closed w ms)
    (f : Nat) : ∀ (gs : List GId) (st st' : CSt) (res : List GId), (∀ g ∈ gs, g ∈ ms.graphs) →
    cloneRoots w f st gs = some (st', res) → CInv G w ms.cfgs st → CInv G w ms.cfgs st' := by
  intro gs
  induction gs with
  | nil =>
    intro st st' res _ hc hinv
    simp only [cloneRoots, Option.some.injEq, Prod.mk.injEq] at hc
    obtain ⟨rfl, _⟩ := hc
    exact hinv
  | cons g rest ih =>
    intro st st' res hgs hc hinv
    simp only [cloneRoots] at hc
    cases hr : cloneGraphF w f { st with vm := [], pending := [] } g with
    | none => simp [hr] at hc
    | some r =>
      obtain ⟨st1, g1⟩ := r
      simp only [hr] at hc
      cases hr2 : cloneRoots w f st1 rest with
      | none => simp [hr2] at hc
      | some r2 =>
        obtain ⟨st2, res2⟩ := r2
        simp only [hr2, Option.map_some, Option.some.injEq, Prod.mk.injEq] at hc
        obtain ⟨rfl, _⟩ := hc
        have hinv0 : CInv G w ms.cfgs { st with vm := [], pending := [] } := ⟨hinv.inv.reset, hinv.newOK⟩
        obtain ⟨b1, _⟩ := cloneGraphF_spec hD hmo hcl f _ g st1 g1 (hgs g (by simp)) hr hinv0
        exact ih st1 st2 res2 (fun x hx => hgs x (by simp [hx])) hr2 b1

/-- a world that extends `w` by values, well-formed nodes and models whose nodes are old nodes of a
    well-formed model with the same configurations or new nodes that only reference its configurations -/
theorem DevOK_extend {w w' : World} (h : DevOK G w) (hext : Ext w w')
    (hnodes : ∃ extra, w'.nodes = w.nodes ++ extra ∧ ∀ nd ∈ extra, NodeOK G w' nd)
    (hmodels : ∀ ms' ∈ w'.models, ∃ ms0, ModelOK w ms0 ∧ ms'.cfgs = ms0.cfgs ∧
      ∀ n ∈ ms'.nodes, n ∈ ms0.nodes ∨ (n < w'.nodes.length ∧ ∀ nc ∈ (w'.node n).dev, nc.cfg ∈ ms'.cfgs)) :
    DevOK G w' := by
  obtain ⟨extra, hex, hok⟩ := hnodes
  have hnode_old : ∀ n, n < w.nodes.length → w'.node n = w.node n := by
    intro n hn
    simp [World.node, hex, List.getD_eq_getElem?_getD, List.getElem?_append_left hn]
  constructor
  · intro nd hnd
    rw [hex, List.mem_append] at hnd
    rcases hnd with h1 | h1
    · exact (h.1 nd h1).ext hext
    · exact hok nd h1
  · intro ms' hms'
    obtain ⟨ms0, ⟨hma, hmb, hmc⟩, hcf, hn⟩ := hmodels ms' hms'
    refine ⟨?_, ?_, ?_⟩
    · intro n hnm
      rcases hn n hnm with h1 | h1
      · have hlt := (hma n h1).1
        refine ⟨Nat.lt_of_lt_of_le hlt (by rw [hex]; simp), ?_⟩
        intro nc hnc
        rw [hnode_old n hlt] at hnc
        rw [hcf]; exact (hma n h1).2 nc hnc
      · exact h1
    · intro c hc
      rw [hcf] at hc
      refine ⟨Nat.lt_of_lt_of_le (hmb c hc).1 hext.clen, ?_⟩
      rw [hext.cfg c (hmb c hc).1]; exact (hmb c hc).2
    · rw [hcf]
      have : ms0.cfgs.map (fun c => (w'.cfg c).name) = ms0.cfgs.map (fun c => (w.cfg c).name) := by
        apply List.map_congr_left
        intro c hc
        rw [hext.cfg c (hmb c hc).1]
      rw [this]; exact hmc

/-- the nodes a cloner created only reference the configurations of the model it cloned from -/
theorem CInv.new_cfgs {w : World} {cfgs : List CId} {st : CSt} (hinv : CInv G w cfgs st) {k : NId}
    (hk : k ∈ st.newNodes) : k < st.w.nodes.length ∧ ∀ nc ∈ (st.w.node k).dev, nc.cfg ∈ cfgs := by
  obtain ⟨hge, hlt⟩ := hinv.newOK k hk
  obtain ⟨extra, hex, hok⟩ := hinv.inv.nodes
  refine ⟨hlt, ?_⟩
  have hmem : st.w.node k ∈ extra := by
    have : st.w.node k = st.w.nodes[k] := by simp [World.node, List.getD_eq_getElem?_getD, hlt]
    rw [this]
    have hlt' : k < (w.nodes ++ extra).length := by rw [← hex]; exact hlt
    have : st.w.nodes[k] = (w.nodes ++ extra)[k] := by simp [hex]
    rw [this, List.getElem_append_right hge]
    exact List.getElem_mem _
  exact (hok _ hmem).2

theorem CInv.nodesOK {w : World} {cfgs : List CId} {st : CSt} (hinv : CInv G w cfgs st) :
    ∃ extra, st.w.nodes = w.nodes ++ extra ∧ ∀ nd ∈ extra, NodeOK G st.w nd := by
  obtain ⟨extra, hex, hok⟩ := hinv.inv.nodes
  exact ⟨extra, hex, fun nd hnd => (hok nd hnd).1⟩

theorem DevOK_clone {w : World} [hGf : Fresh G w.values.length] (h : DevOK G w) (m : MId) (hpre : Pre w (.clone m)) :
    DevOK G (cloneModel w m).1 := by
  have hcl : Closed w (w.model m) := hpre
  unfold cloneModel
  simp only
  cases hcg : cloneRoots w (w.graphs.length + 1) { w := w } (w.model m).roots with
  | none => exact h
  | some r =>
    obtain ⟨st, gs'⟩ := r
    simp only
    have hinit : CInv G w (w.model m).cfgs { w := w } := ⟨CloneInv.init w _, by simp⟩
    have hinv := cloneRoots_spec h (h.model m) hcl _ _ _ _ _ hcl.1 hcg hinit
    obtain ⟨extra, hex, hok⟩ := hinv.nodesOK
    refine DevOK_extend h (hinv.inv.ext.trans (Ext.of_eq rfl rfl)) ⟨extra, hex, fun nd hnd => (hok nd hnd).ext (Ext.of_eq rfl rfl)⟩ ?_
    intro ms' hms'
    have hms'' : ms' ∈ st.w.models ++ [_] := hms'
    rw [hinv.inv.models, List.mem_append, List.mem_singleton] at hms''
    rcases hms'' with h1 | h1
    · exact ⟨ms', h.2 ms' h1, rfl, fun n hn => Or.inl hn⟩
    · subst h1
      refine ⟨w.model m, h.model m, rfl, ?_⟩
      intro n hn
      exact Or.inr (hinv.new_cfgs hn)

theorem DevOK_newFunction {w : World} (h : DevOK G w) (m : MId) : DevOK G (newFunction w m).1 := by
  unfold newFunction
  simp only
  have h1 : DevOK G ({ w with graphs := w.graphs ++ [{}] } : World) := DevOK_of_eq h rfl rfl rfl rfl
  apply DevOK_setModel h1
  obtain ⟨a, b, c⟩ := h.model m
  exact ⟨a, b, c⟩

theorem DevOK_cloneFunc {w : World} [hGf : Fresh G w.values.length] (h : DevOK G w) (m : MId) (i : Nat) (hpre : Pre w (.cloneFunc m i)) :
    DevOK G (cloneFunc w m i).1 := by
  have hcl : Closed w (w.model m) := hpre
  unfold cloneFunc
  simp only
  cases hf : (w.model m).funcs[i]? with
  | none => exact h
  | some g =>
    simp only
    have hgm : g ∈ (w.model m).graphs := hcl.1 g (by
      simp only [ModelS.roots, List.mem_cons]; right; exact List.mem_of_getElem? hf)
    cases hcg : cloneGraphF w (w.graphs.length + 1) { w := w } g with
    | none => exact h
    | some r =>
      obtain ⟨st, g'⟩ := r
      simp only
      have hinit : CInv G w (w.model m).cfgs { w := w } := ⟨CloneInv.init w _, by simp⟩
      obtain ⟨hinv, _⟩ := cloneGraphF_spec h (h.model m) hcl _ _ g st g' hgm hcg hinit
      obtain ⟨extra, hex, hok⟩ := hinv.nodesOK
      refine DevOK_extend h (hinv.inv.ext.trans (Ext.of_eq rfl rfl)) ⟨extra, hex, fun nd hnd => (hok nd hnd).ext (Ext.of_eq rfl rfl)⟩ ?_
      intro ms' hms'
      have hms'' := mem_setModel st.w m _ ms' hms'
      rw [hinv.inv.models] at hms''
      rcases hms'' with h1 | ⟨h1, _⟩
      · exact ⟨ms', h.2 ms' h1, rfl, fun n hn => Or.inl hn⟩
      · subst h1
        refine ⟨w.model m, h.model m, rfl, ?_⟩
        intro n hn
        have hn' : n ∈ (w.model m).nodes ++ st.newNodes := hn
        rw [List.mem_append] at hn'
        rcases hn' with h2 | h2
        · exact Or.inl h2
        · exact Or.inr (hinv.new_cfgs h2)

theorem DevOK_cloneSub {w : World} [hGf : Fresh G w.values.length] (h : DevOK G w) (n : NId) (g : GId) (hpre : Pre w (.cloneSub n g)) :
    DevOK G (cloneSub w n g).1 := by
  obtain ⟨⟨msA, hmsA, hnA⟩, hall⟩ := hpre
  unfold cloneSub
  cases hcg : cloneGraphF w (w.graphs.length + 1) { w := w, allow := true } g with
  | none => exact h
  | some r =>
    obtain ⟨st, g'⟩ := r
    simp only
    have hspec : ∀ ms ∈ w.models, n ∈ ms.nodes → CInv G w ms.cfgs st := by
      intro ms hms hn
      obtain ⟨hg, hcl⟩ := hall ms hms hn
      have hinit : CInv G w ms.cfgs { w := w, allow := true } := ⟨CloneInv.init w _, by simp⟩
      exact (cloneGraphF_spec h (h.2 ms hms) hcl _ _ g st g' hg hcg hinit).1
    have hinvA := hspec msA hmsA hnA
    obtain ⟨extra, hex, hok⟩ := hinvA.nodesOK
    have hw1 : DevOK G ({ st.w with models := st.w.models.map (fun ms =>
        if n ∈ ms.nodes then { ms with nodes := ms.nodes ++ st.newNodes, graphs := ms.graphs ++ st.newGraphs }
        else ms) } : World) := by
      refine DevOK_extend h (hinvA.inv.ext.trans (Ext.of_eq rfl rfl)) ⟨extra, hex, fun nd hnd => (hok nd hnd).ext (Ext.of_eq rfl rfl)⟩ ?_
      intro ms' hms'
      have hms'' : ms' ∈ st.w.models.map _ := hms'
      rw [hinvA.inv.models, List.mem_map] at hms''
      obtain ⟨ms0, hms0, rfl⟩ := hms''
      by_cases hn : n ∈ ms0.nodes
      · simp only [hn, if_true]
        refine ⟨ms0, h.2 ms0 hms0, rfl, ?_⟩
        intro k hk
        have hk' : k ∈ ms0.nodes ++ st.newNodes := hk
        rw [List.mem_append] at hk'
        rcases hk' with h2 | h2
        · exact Or.inl h2
        · exact Or.inr ((hspec ms0 hms0 hn).new_cfgs h2)
      · simp only [hn, if_false]
        exact ⟨ms0, h.2 ms0 hms0, rfl, fun k hk => Or.inl hk⟩
    apply DevOK_setNode hw1
    · exact hw1.node n
    · intro ms hms hn nc hnc
      exact ((hw1.2 ms hms).1 n hn).2 nc hnc

/-! ### the internal checker on a world satisfying the invariant -/
theorem DevOK_shard {w : World} (h : DevOK G w) (n : NId) (v : VId) (c : CId) (axis k : Int)
    (devs : List Int) (stage : Option Int)
    (hpre : Pre w (.shard n v c axis k devs stage)) :
    DevOK G (shard w n v c axis k devs stage).1 := by
  obtain ⟨hreg, hc⟩ := hpre
  unfold shard
  by_cases hd : DevsBad w c devs
  · simp only [hd, if_true]; exact h
  · simp only [hd, if_false]
    refine DevOK_shardCore h n v c axis k devs stage hreg hc ?_
    intro d hdm
    apply Classical.byContradiction
    intro hbad
    exact hd ⟨d, hdm, hbad⟩

/-! ### the added operations preserve the invariant -/

theorem DevOK_newInit {w : World} (h : DevOK G w) (g : GId) (name : String) (shape : Option (List Dim)) :
    DevOK G (newInit w g name shape).1 := by
  unfold newInit
  split
  · exact h
  · split
    · exact h
    · have h1 : DevOK G { w with values := w.values ++ [({ name := name, shape := shape } : ValueS)] } :=
        h.ext_same_nodes (Ext_append_values w _) rfl rfl
      exact DevOK_setGraph h1 g _

theorem DevOK_setDev {w : World} (h : DevOK G w) (n : NId) (dev : List NodeCfg) (hpre : Pre w (.setDev n dev)) :
    DevOK G (setDev w n dev).1 := by
  unfold setDev
  exact DevOK_setNode h n _ (NodeOK_of_strong hpre.1) (fun ms hms hn nc hnc => hpre.2 nc hnc ms hms hn)

theorem DevOK_setModelCfgs {w : World} (h : DevOK G w) (m : MId) (cfgs : List CId)
    (hpre : Pre w (.setModelCfgs m cfgs)) : DevOK G (setModelCfgs w m cfgs).1 := by
  unfold setModelCfgs
  exact DevOK_setModel h m _ hpre

theorem DevOK_attachNode {w : World} (h : DevOK G w) (g : GId) (n : NId) (hpre : Pre w (.attachNode g n)) :
    DevOK G (attachNode w g n).1 := by
  unfold attachNode
  split
  · exact h
  · split
    · exact DevOK_setGraph h g _
    have h2 := DevOK_setGraph h g { (w.graph g) with nodes := (w.graph g).nodes ++ [n] }
    apply DevOK_mapModels h2
    intro ms hms
    by_cases hg : g ∈ ms.graphs
    · rw [if_pos hg]
      obtain ⟨a, b, c⟩ := h.2 ms hms
      refine ⟨?_, b, c⟩
      intro k hk
      simp only [List.mem_append] at hk
      rcases hk with hk | hk
      · exact a k hk
      · exact hpre ms hms hg k hk
    · rw [if_neg hg]; exact h2.2 ms hms

end IrVerif.Device.Wk

/-
Lemmas/InlineFuncs.lean — the loop of InlinePass over the functions that are left in the model (`inlFuncs`):
a function body whose calls are inlined in place denotes the same function (under the function environment of
the model before the pass), and the function environment of the RESULT agrees with it on every function that
is kept.  This is what `C05_inline` needs for a criterion that keeps functions whose bodies contain accepted
calls.
-/
import IrVerif.Lemmas.InlineTop
namespace IrVerif.Inline
open IrVerif.Sem IrVerif.Passes
variable {Val : Type}

/-! ## signatures: what a call site sees of a function -/

def sig (f : Func) : OpId × List (String × Option AttrData) × Nat × Nat :=
  (f.id, f.params, f.inputs.length, f.outputs.length)

def SigEq (a b : List Func) : Prop := a.map sig = b.map sig

theorem SigEq.refl (a : List Func) : SigEq a a := rfl

theorem findFunc_sig : ∀ {a b : List Func}, SigEq a b → ∀ (op : OpId),
    (findFunc a op = none → findFunc b op = none) ∧
    (∀ f, findFunc a op = some f → ∃ f', findFunc b op = some f' ∧ sig f' = sig f)
  | [], [], _, op => by simp [findFunc]
  | [], _ :: _, h, _ => by simp [SigEq] at h
  | _ :: _, [], h, _ => by simp [SigEq] at h
  | x :: a, y :: b, h, op => by
    simp only [SigEq, List.map_cons, List.cons.injEq] at h
    have ih := findFunc_sig (a := a) (b := b) h.2 op
    have hid : x.id = y.id := by have := congrArg Prod.fst h.1; exact this
    simp only [findFunc, List.find?_cons] at ih ⊢
    rw [← hid]
    cases hx : (x.id == op) with
    | true => simp only [Option.some.injEq, reduceCtorEq, false_imp_iff, true_and]; intro f hf; exact ⟨y, rfl, hf ▸ h.1.symm⟩
    | false => exact ih

theorem callOK_sig {f f' : Func} (h : sig f' = sig f) (attrs : List (String × FAttr)) (ins : List (Option VId))
    (outs : List VId) (bodies : List FGraph) : callOK f' attrs ins outs bodies = callOK f attrs ins outs bodies := by
  simp only [sig, Prod.mk.injEq] at h
  simp only [callOK, h.2.1, h.2.2.1, h.2.2.2]

mutual
theorem callsOKG_sig {a b : List Func} (h : SigEq a b) : ∀ g : FGraph, callsOKG a g = callsOKG b g
  | .mk _ _ _ nodes => by simp only [callsOKG]; exact callsOKNodes_sig h nodes
theorem callsOKNodes_sig {a b : List Func} (h : SigEq a b) : ∀ ns : List FNode, callsOKNodes a ns = callsOKNodes b ns
  | [] => by simp [callsOKNodes]
  | n :: ns => by simp only [callsOKNodes, callsOKN_sig h n, callsOKNodes_sig h ns]
theorem callsOKN_sig {a b : List Func} (h : SigEq a b) : ∀ n : FNode, callsOKN a n = callsOKN b n
  | .mk op attrs ins outs bodies => by
    simp only [callsOKN, callsOKBodies_sig h bodies]
    congr 1
    cases hf : findFunc a op with
    | none => rw [(findFunc_sig h op).1 hf]
    | some f =>
      obtain ⟨f', hf', hs⟩ := (findFunc_sig h op).2 f hf
      rw [hf']
      exact (callOK_sig hs attrs ins outs bodies).symm
theorem callsOKBodies_sig {a b : List Func} (h : SigEq a b) : ∀ bs : List FGraph, callsOKBodies a bs = callsOKBodies b bs
  | [] => by simp [callsOKBodies]
  | g :: bs => by simp only [callsOKBodies, callsOKG_sig h g, callsOKBodies_sig h bs]
end

/-! ## replacing a function -/

theorem findFunc_replaceFunc_ne (tbl : List Func) (f' : Func) {op : OpId} (h : op ≠ f'.id) :
    findFunc (replaceFunc tbl f') op = findFunc tbl op := by
  induction tbl with
  | nil => rfl
  | cons g tbl ih =>
    simp only [findFunc, replaceFunc, List.map_cons, List.find?_cons] at ih ⊢
    by_cases hg : g.id = f'.id
    · have h1 : (g.id == f'.id) = true := by simpa using hg
      have h2 : (f'.id == op) = false := by simpa using (fun h' : f'.id = op => h h'.symm)
      have h3 : (g.id == op) = false := by rw [hg]; exact h2
      simp only [h1, if_true, h2, h3]
      exact ih
    · have h1 : (g.id == f'.id) = false := by simpa using hg
      simp only [h1, Bool.false_eq_true, if_false]
      cases (g.id == op) with
      | true => rfl
      | false => exact ih

theorem findFunc_replaceFunc_self (tbl : List Func) (f' : Func) (h : ∃ f ∈ tbl, f.id = f'.id) :
    findFunc (replaceFunc tbl f') f'.id = some f' := by
  induction tbl with
  | nil => obtain ⟨f, hf, _⟩ := h; simp at hf
  | cons g tbl ih =>
    simp only [findFunc, replaceFunc, List.map_cons, List.find?_cons] at ih ⊢
    by_cases hg : g.id = f'.id
    · have h1 : (g.id == f'.id) = true := by simpa using hg
      simp [h1]
    · have h1 : (g.id == f'.id) = false := by simpa using hg
      simp only [h1, Bool.false_eq_true, if_false]
      refine ih ?_
      obtain ⟨f, hf, hid⟩ := h
      rcases List.mem_cons.1 hf with hf | hf
      · exact absurd (hf ▸ hid) hg
      · exact ⟨f, hf, hid⟩

theorem sigEq_replaceFunc (tbl : List Func) (hnd : (tbl.map (·.id)).Nodup) {f f' : Func} (hf : f ∈ tbl)
    (hs : sig f' = sig f) : SigEq (replaceFunc tbl f') tbl := by
  have hid : f'.id = f.id := by have := congrArg Prod.fst hs; exact this
  unfold SigEq replaceFunc
  rw [List.map_map]
  apply List.map_congr_left
  intro g hg
  simp only [Function.comp]
  by_cases h : g.id = f'.id
  · have : g = f := eq_of_nodup_ids hnd hg hf (h.trans hid)
    have h1 : (g.id == f'.id) = true := by simpa using h
    simp only [h1, if_true]
    rw [this]; exact hs
  · have : (g.id == f'.id) = false := by simpa using h
    simp [this]

theorem mem_replaceFunc_of_ne {tbl : List Func} {f' g : Func} (hg : g ∈ tbl) (h : g.id ≠ f'.id) :
    g ∈ replaceFunc tbl f' := by
  unfold replaceFunc
  refine List.mem_map.2 ⟨g, hg, ?_⟩
  have : (g.id == f'.id) = false := by simpa using h
  simp [this]

theorem mem_replaceFunc {tbl : List Func} {f' g : Func} (hg : g ∈ replaceFunc tbl f') : g = f' ∨ g ∈ tbl := by
  unfold replaceFunc at hg
  obtain ⟨x, hx, rfl⟩ := List.mem_map.1 hg
  by_cases h : x.id = f'.id
  · simp [h]
  · have : (x.id == f'.id) = false := by simpa using h
    simp [this, hx]

/-- a function whose turn is over is not touched any more -/
theorem inlFuncs_mem (crit : OpId → Bool) (budget : Nat) : ∀ (ids : List OpId) (st : ISt) (tbl : List Func) (g : Func),
    g ∈ tbl → g.id ∉ ids → g ∈ (inlFuncs crit budget st tbl ids).2
  | [], _, _, _, hg, _ => by simpa [inlFuncs] using hg
  | id :: rest, st, tbl, g, hg, hid => by
    simp only [List.mem_cons, not_or] at hid
    rw [inlFuncs]
    split
    · exact inlFuncs_mem crit budget rest st tbl g hg hid.2
    · split
      · exact inlFuncs_mem crit budget rest st tbl g hg hid.2
      · rename_i f hf
        refine inlFuncs_mem crit budget rest _ _ g (mem_replaceFunc_of_ne hg ?_) hid.2
        have := (findFunc_some hf).2
        simp only
        rw [this]; exact hid.1

/-! ## the loop -/

/-- what is fixed during the loop: the function environment `Φ` of the model before the pass is a fixpoint on its
    function table `T0`; the functions of `T0` are well-formed with value ids below `N`; the function bodies of
    the table at the end of the loop (`fin`) are well-formed (`synOK`, evaluated by the model on its result) -/
structure LoopCtx (I : Interp Val) (Φ : FEnv Val) (T0 fin : List Func) (N : Nat) : Prop where
  den0 : ∀ op f, findFunc T0 op = some f → Φ op = some (funcDen I Φ f)
  nd : (T0.map (·.id)).Nodup
  noidentΦ : Φ identityOp = none
  noident : findFunc T0 identityOp = none
  syn0 : ∀ f ∈ T0, opsAllNodes (fun op => !isStochasticOp op) f.nodes = true ∧ subInitsOKNodes f.nodes = true ∧
    closedNodes (eraseNodes f.nodes) = true ∧ callsOKNodes T0 f.nodes = true
  valid0 : ∀ f ∈ T0, ssaNodes (eraseNodes f.nodes) = true ∧ noFwdNodes (eraseNodes f.nodes) = true ∧
    (∀ v ∈ refsNodes (eraseNodes f.nodes), v < N) ∧ (∀ v ∈ defsNodes (eraseNodes f.nodes), v < N) ∧
    (∀ v ∈ f.outputs, v < N)
  synFin : ∀ f ∈ fin, opsAllNodes (fun op => !isStochasticOp op) f.nodes = true ∧ subInitsOKNodes f.nodes = true ∧
    closedNodes (eraseNodes f.nodes) = true ∧ callsOKNodes T0 f.nodes = true

/-- every function of the table denotes what `Φ` says -/
def DenOK (I : Interp Val) (Φ : FEnv Val) (tbl : List Func) : Prop :=
  ∀ op g, findFunc tbl op = some g → Φ op = some (funcDen I Φ g)

theorem map_app_nil (l : List VId) : l.map (Subst.app []) = l := by
  conv => rhs; rw [← List.map_id l]
  apply List.map_congr_left
  intro v _; exact Subst.app_nil v

/-- the table during the loop is what the call sites need -/
theorem tblOK_loop {I : Interp Val} {Φ : FEnv Val} {T0 fin : List Func} {N : Nat} (ctx : LoopCtx I Φ T0 fin N)
    {tbl : List Func} (hsig : SigEq tbl T0) (hden : DenOK I Φ tbl)
    (hmem : ∀ g ∈ tbl, g ∈ T0 ∨ g ∈ fin) : TblOK I Φ tbl := by
  have hsyn : ∀ op g, findFunc tbl op = some g → opsAllNodes (fun op => !isStochasticOp op) g.nodes = true ∧
      subInitsOKNodes g.nodes = true ∧ closedNodes (eraseNodes g.nodes) = true ∧ callsOKNodes T0 g.nodes = true := by
    intro op g hg
    rcases hmem g (findFunc_some hg).1 with h | h
    · exact ctx.syn0 g h
    · exact ctx.synFin g h
  refine ⟨hden, fun op g hg => (hsyn op g hg).1, fun op g hg => (hsyn op g hg).2.1,
    fun op g hg => (hsyn op g hg).2.2.1, fun op g hg => ?_, (findFunc_sig (Eq.symm hsig) identityOp).1 ctx.noident,
    ctx.noidentΦ⟩
  rw [callsOKNodes_sig hsig]; exact (hsyn op g hg).2.2.2

/-- **the loop over the functions keeps every function's denotation** -/
theorem inlFuncs_den {I : Interp Val} {Φ : FEnv Val} {T0 fin : List Func} {N : Nat} (ctx : LoopCtx I Φ T0 fin N)
    (crit : OpId → Bool) (budget : Nat) : ∀ (ids : List OpId) (st : ISt) (tbl : List Func),
    ids.Nodup → SigEq tbl T0 → N ≤ st.next → (∀ g ∈ tbl, g.id ∈ ids → g ∈ T0) →
    (∀ g ∈ tbl, g.id ∉ ids → g ∈ T0 ∨ g ∈ fin) →
    (inlFuncs crit budget st tbl ids).2 = fin → DenOK I Φ tbl → DenOK I Φ fin
  | [], _, _, _, _, _, _, _, hfin, hden => by
    simp only [inlFuncs] at hfin
    exact hfin ▸ hden
  | id :: rest, st, tbl, hnd, hsig, hN, horig, hdone, hfin, hden => by
    simp only [List.nodup_cons] at hnd
    have horig' : ∀ g ∈ tbl, g.id ∈ rest → g ∈ T0 := fun g hg h => horig g hg (List.mem_cons_of_mem _ h)
    rw [inlFuncs] at hfin
    split at hfin
    · -- already inlined: the function stays as it is (and is deleted at the end)
      refine inlFuncs_den ctx crit budget rest st tbl hnd.2 hsig hN horig' ?_ hfin hden
      intro g hg h
      by_cases hgid : g.id = id
      · exact Or.inl (horig g hg (by rw [hgid]; exact List.mem_cons_self))
      · exact hdone g hg (by simp only [List.mem_cons, not_or]; exact ⟨hgid, h⟩)
    · split at hfin
      · refine inlFuncs_den ctx crit budget rest st tbl hnd.2 hsig hN horig' ?_ hfin hden
        intro g hg h
        by_cases hgid : g.id = id
        · exact Or.inl (horig g hg (by rw [hgid]; exact List.mem_cons_self))
        · exact hdone g hg (by simp only [List.mem_cons, not_or]; exact ⟨hgid, h⟩)
      · rename_i f hf
        obtain ⟨hfmem, hfid⟩ := findFunc_some hf
        have hf0 : f ∈ T0 := horig f hfmem (by rw [hfid]; exact List.mem_cons_self)
        -- every function of the current table is original or final
        have hmem : ∀ g ∈ tbl, g ∈ T0 ∨ g ∈ fin := by
          intro g hg
          by_cases h : g.id ∈ id :: rest
          · exact Or.inl (horig g hg h)
          · exact hdone g hg h
        have ht := tblOK_loop ctx hsig hden hmem
        obtain ⟨v1, v2, v3, v4, v5⟩ := ctx.valid0 f hf0
        obtain ⟨_, _, s3, s4⟩ := ctx.syn0 f hf0
        have hcalls : callsOKNodes tbl f.nodes = true := by rw [callsOKNodes_sig hsig]; exact s4
        have key := fun (α : List (String × AttrData)) (ρ : Env Val) =>
          inlNodes_sound I Φ α tbl crit (inlAt tbl crit budget) N ht (deepOK_inlAt I Φ α tbl crit ht budget)
            f.nodes [] f.outputs st ρ ρ (fun v _ => by rw [Subst.app_nil]) (fun p hp => by simp at hp) v1 s3 v2 v3 v4 hN
            (fun p hp => by simp at hp) hcalls
        simp only [map_app_nil] at key
        generalize hR : inlNodes tbl crit (inlAt tbl crit budget) st [] f.outputs f.nodes = R at hfin key
        -- the rewritten function denotes the same
        have hsame : funcDen I Φ { f with nodes := R.nodes, outputs := R.outs } = funcDen I Φ f := by
          funext cattrs args
          simp only [funcDen]
          obtain ⟨k1, k2, _, _, _⟩ := key (bindParams f.params cattrs) (Env.empty.bind f.inputs args)
          rw [k2, List.map_map]
          apply List.map_congr_left
          intro v hv
          exact (k1 v (v5 v hv)).symm
        have hlen : R.outs.length = f.outputs.length := by
          rw [(key [] Env.empty).2.1, List.length_map]
        have hsig' : sig { f with nodes := R.nodes, outputs := R.outs } = sig f := by
          simp only [sig, hlen]
        have hndt : (tbl.map (·.id)).Nodup := by
          have : tbl.map (·.id) = T0.map (·.id) := by
            have := congrArg (List.map Prod.fst) hsig
            rw [List.map_map, List.map_map] at this
            exact this
          rw [this]; exact ctx.nd
        refine inlFuncs_den ctx crit budget rest _ _ hnd.2
          (Eq.trans (sigEq_replaceFunc tbl hndt hfmem hsig') hsig) (Nat.le_trans hN (key [] Env.empty).2.2.1) ?_ ?_ hfin ?_
        · intro g hg h
          rcases mem_replaceFunc hg with hg | hg
          · rw [hg] at h; simp only at h; rw [hfid] at h; exact absurd h hnd.1
          · exact horig' g hg h
        · intro g hg h
          rcases mem_replaceFunc hg with hg' | hg'
          · right
            rw [← hfin]
            exact inlFuncs_mem crit budget rest _ _ g hg h
          · by_cases hgid : g.id = id
            · right
              rw [← hfin]
              exact inlFuncs_mem crit budget rest _ _ g hg h
            · exact hdone g hg' (by simp only [List.mem_cons, not_or]; exact ⟨hgid, h⟩)
        · intro op g hg
          by_cases hop : op = f.id
          · subst hop
            have := findFunc_replaceFunc_self tbl { f with nodes := R.nodes, outputs := R.outs } ⟨f, hfmem, rfl⟩
            simp only at this
            rw [this] at hg
            simp only [Option.some.injEq] at hg
            rw [← hg, hsame]
            exact hden f.id f (hfid ▸ hf)
          · rw [findFunc_replaceFunc_ne tbl _ (by simpa using hop)] at hg
            exact hden op g hg

/-! ## the function environment of the result -/

theorem opsAllNodes_and {p q : OpId → Bool} {ns : List FNode} (hp : opsAllNodes p ns = true) (hq : opsAllNodes q ns = true) :
    opsAllNodes (fun op => p op && q op) ns = true := by
  rw [opsAllNodes_iff] at hp hq ⊢
  intro op hop
  simp [hp op hop, hq op hop]

/-- the function environment of the table `T` after the pass agrees with `Φ` on every operator that is kept or is
    not a function, at every depth that unrolls its call tree in `T` -/
theorem fenv_result (I : Interp Val) (T : List Func) (Φ : FEnv Val) (ok : OpId → Bool)
    (hden : ∀ op f', findFunc T op = some f' → Φ op = some (funcDen I Φ f'))
    (hnone : ∀ op, findFunc T op = none → ok op = true → Φ op = none)
    (hbody : ∀ f' ∈ T, opsAllNodes ok f'.nodes = true) :
    ∀ (e : Nat) (op : OpId), ok op = true → lvl T e op = true → fenv I T e op = Φ op
  | 0, op, hok, hl => by
    simp only [lvl, Option.isNone_iff_eq_none] at hl
    rw [hnone op hl hok]; rfl
  | e + 1, op, hok, hl => by
    rw [lvl] at hl
    cases hf : findFunc T op with
    | none => rw [fenv_none I T _ hf, hnone op hf hok]
    | some f' =>
      rw [hf] at hl
      simp only [fenv, hf, Option.map_some]
      rw [hden op f' hf]
      congr 1
      refine funcDen_congrΦ I _ _ _ (fun o ho => ?_) f' (opsAllNodes_and hl (hbody f' (findFunc_some hf).1))
      simp only [Bool.and_eq_true] at ho
      exact fenv_result I T Φ ok hden hnone hbody e o ho.2 ho.1

end IrVerif.Inline

/-
Lemmas/InlineFuncs.lean — the loop of InlinePass over the functions that are left in the model (`inlFuncs`):
a function body whose calls are inlined in place denotes the same function (under the function environment of
the model before the pass), and the function environment of the RESULT agrees with it on every function that
is kept.  This is what `C05_inline` needs for a criterion that keeps functions whose bodies contain accepted
calls.
-/
import IrVerif.Lemmas.InlineTop
import IrVerif.Lemmas.InlineSyn
import IrVerif.Lemmas.InlineRun
namespace IrVerif.Inline
open IrVerif.Sem IrVerif.Passes
variable {Val : Type}

/-! ## signatures: what a call site sees of a function -/

def sig (f : Func) : OpId × List (String × Option AttrData) × Nat × Nat :=
  (f.id, f.params, f.inputs.length, f.outputs.length)

def SigEq (a b : List Func) : Prop := a.map sig = b.map sig

theorem SigEq.refl (a : List Func) : SigEq a a := rfl

theorem findFunc_sig : ∀ {a b : List Func}, SigEq a b → ∀ (op : OpId),
    (findFunc a op = none → findFunc b op = none) ∧
    (∀ f, findFunc a op = some f → ∃ f', findFunc b op = some f' ∧ sig f' = sig f)
  | [], [], _, op => by simp [findFunc]
  | [], _ :: _, h, _ => by simp [SigEq] at h
  | _ :: _, [], h, _ => by simp [SigEq] at h
  | x :: a, y :: b, h, op => by
    simp only [SigEq, List.map_cons, List.cons.injEq] at h
    have ih := findFunc_sig (a := a) (b := b) h.2 op
    have hid : x.id = y.id := by have := congrArg Prod.fst h.1; exact this
    simp only [findFunc, List.find?_cons] at ih ⊢
    rw [← hid]
    cases hx : (x.id == op) with
    | true => simp only [Option.some.injEq, reduceCtorEq, false_imp_iff, true_and]; intro f hf; exact ⟨y, rfl, hf ▸ h.1.symm⟩
    | false => exact ih

theorem callOK_sig {f f' : Func} (h : sig f' = sig f) (attrs : List (String × FAttr)) (ins : List (Option VId))
    (outs : List VId) (bodies : List FGraph) : callOK f' attrs ins outs bodies = callOK f attrs ins outs bodies := by
  simp only [sig, Prod.mk.injEq] at h
  simp only [callOK, h.2.1, h.2.2.1, h.2.2.2]

mutual
theorem callsOKG_sig {a b : List Func} (h : SigEq a b) : ∀ g : FGraph, callsOKG a g = callsOKG b g
  | .mk _ _ _ nodes => by simp only [callsOKG]; exact callsOKNodes_sig h nodes
theorem callsOKNodes_sig {a b : List Func} (h : SigEq a b) : ∀ ns : List FNode, callsOKNodes a ns = callsOKNodes b ns
  | [] => by simp [callsOKNodes]
  | n :: ns => by simp only [callsOKNodes, callsOKN_sig h n, callsOKNodes_sig h ns]
theorem callsOKN_sig {a b : List Func} (h : SigEq a b) : ∀ n : FNode, callsOKN a n = callsOKN b n
  | .mk op attrs ins outs bodies => by
    simp only [callsOKN, callsOKBodies_sig h bodies]
    congr 1
    cases hf : findFunc a op with
    | none => rw [(findFunc_sig h op).1 hf]
    | some f =>
      obtain ⟨f', hf', hs⟩ := (findFunc_sig h op).2 f hf
      rw [hf']
      exact (callOK_sig hs attrs ins outs bodies).symm
theorem callsOKBodies_sig {a b : List Func} (h : SigEq a b) : ∀ bs : List FGraph, callsOKBodies a bs = callsOKBodies b bs
  | [] => by simp [callsOKBodies]
  | g :: bs => by simp only [callsOKBodies, callsOKG_sig h g, callsOKBodies_sig h bs]
end

/-! ## replacing a function -/

theorem findFunc_replaceFunc_ne (tbl : List Func) (f' : Func) {op : OpId} (h : op ≠ f'.id) :
    findFunc (replaceFunc tbl f') op = findFunc tbl op := by
  induction tbl with
  | nil => rfl
  | cons g tbl ih =>
    simp only [findFunc, replaceFunc, List.map_cons, List.find?_cons] at ih ⊢
    by_cases hg : g.id = f'.id
    · have h1 : (g.id == f'.id) = true := by simpa using hg
      have h2 : (f'.id == op) = false := by simpa using (fun h' : f'.id = op => h h'.symm)
      have h3 : (g.id == op) = false := by rw [hg]; exact h2
      simp only [h1, if_true, h2, h3]
      exact ih
    · have h1 : (g.id == f'.id) = false := by simpa using hg
      simp only [h1, Bool.false_eq_true, if_false]
      cases (g.id == op) with
      | true => rfl
      | false => exact ih

theorem findFunc_replaceFunc_self (tbl : List Func) (f' : Func) (h : ∃ f ∈ tbl, f.id = f'.id) :
    findFunc (replaceFunc tbl f') f'.id = some f' := by
  induction tbl with
  | nil => obtain ⟨f, hf, _⟩ := h; simp at hf
  | cons g tbl ih =>
    simp only [findFunc, replaceFunc, List.map_cons, List.find?_cons] at ih ⊢
    by_cases hg : g.id = f'.id
    · have h1 : (g.id == f'.id) = true := by simpa using hg
      simp [h1]
    · have h1 : (g.id == f'.id) = false := by simpa using hg
      simp only [h1, Bool.false_eq_true, if_false]
      refine ih ?_
      obtain ⟨f, hf, hid⟩ := h
      rcases List.mem_cons.1 hf with hf | hf
      · exact absurd (hf ▸ hid) hg
      · exact ⟨f, hf, hid⟩

theorem sigEq_replaceFunc (tbl : List Func) (hnd : (tbl.map (·.id)).Nodup) {f f' : Func} (hf : f ∈ tbl)
    (hs : sig f' = sig f) : SigEq (replaceFunc tbl f') tbl := by
  have hid : f'.id = f.id := by have := congrArg Prod.fst hs; exact this
  unfold SigEq replaceFunc
  rw [List.map_map]
  apply List.map_congr_left
  intro g hg
  simp only [Function.comp]
  by_cases h : g.id = f'.id
  · have : g = f := eq_of_nodup_ids hnd hg hf (h.trans hid)
    have h1 : (g.id == f'.id) = true := by simpa using h
    simp only [h1, if_true]
    rw [this]; exact hs
  · have : (g.id == f'.id) = false := by simpa using h
    simp [this]

theorem mem_replaceFunc_of_ne {tbl : List Func} {f' g : Func} (hg : g ∈ tbl) (h : g.id ≠ f'.id) :
    g ∈ replaceFunc tbl f' := by
  unfold replaceFunc
  refine List.mem_map.2 ⟨g, hg, ?_⟩
  have : (g.id == f'.id) = false := by simpa using h
  simp [this]

theorem mem_replaceFunc {tbl : List Func} {f' g : Func} (hg : g ∈ replaceFunc tbl f') : g = f' ∨ g ∈ tbl := by
  unfold replaceFunc at hg
  obtain ⟨x, hx, rfl⟩ := List.mem_map.1 hg
  by_cases h : x.id = f'.id
  · simp [h]
  · have : (x.id == f'.id) = false := by simpa using h
    simp [this, hx]

theorem mem_replaceFunc' {tbl : List Func} {f' g : Func} (hg : g ∈ replaceFunc tbl f') :
    g = f' ∨ (g ∈ tbl ∧ g.id ≠ f'.id) := by
  unfold replaceFunc at hg
  obtain ⟨x, hx, rfl⟩ := List.mem_map.1 hg
  by_cases h : x.id = f'.id
  · simp [h]
  · have : (x.id == f'.id) = false := by simpa using h
    simp [this, hx, h]

/-- a function whose turn is over is not touched any more -/
theorem inlFuncs_mem (crit : OpId → Bool) (budget : Nat) : ∀ (ids : List OpId) (st : ISt) (tbl : List Func) (g : Func),
    g ∈ tbl → g.id ∉ ids → g ∈ (inlFuncs crit budget st tbl ids).2
  | [], _, _, _, hg, _ => by simpa [inlFuncs] using hg
  | id :: rest, st, tbl, g, hg, hid => by
    simp only [List.mem_cons, not_or] at hid
    rw [inlFuncs]
    split
    · exact inlFuncs_mem crit budget rest st tbl g hg hid.2
    · split
      · exact inlFuncs_mem crit budget rest st tbl g hg hid.2
      · rename_i f hf
        refine inlFuncs_mem crit budget rest _ _ g (mem_replaceFunc_of_ne hg ?_) hid.2
        have := (findFunc_some hf).2
        simp only
        rw [this]; exact hid.1

/-! ## the loop -/

/-- what is fixed during the loop: the function environment `Φ` of the model before the pass is a fixpoint on its
    function table `T0`; the functions of `T0` are well-formed with value ids below `N` -/
structure LoopCtx (I : Interp Val) (Φ : FEnv Val) (T0 : List Func) (N : Nat) : Prop where
  den0 : ∀ op f, findFunc T0 op = some f → Φ op = some (funcDen I Φ f)
  nd : (T0.map (·.id)).Nodup
  noidentΦ : Φ identityOp = none
  noident : findFunc T0 identityOp = none
  valid0 : ∀ f ∈ T0, ssaNodes (eraseNodes f.nodes) = true ∧ noFwdNodes (eraseNodes f.nodes) = true ∧
    (∀ v ∈ refsNodes (eraseNodes f.nodes), v < N) ∧ (∀ v ∈ defsNodes (eraseNodes f.nodes), v < N) ∧
    (∀ v ∈ f.outputs, v < N)

/-- every function of the table denotes what `Φ` says -/
def DenOK (I : Interp Val) (Φ : FEnv Val) (tbl : List Func) : Prop :=
  ∀ op g, findFunc tbl op = some g → Φ op = some (funcDen I Φ g)

/-- every function body of the table is what a clone needs (`synOK`) -/
def SynTbl (T0 tbl : List Func) : Prop :=
  ∀ g ∈ tbl, Syn (fun op => !isStochasticOp op) T0 g.nodes ∧ closedNodes (eraseNodes g.nodes) = true

theorem map_app_nil (l : List VId) : l.map (Subst.app []) = l := by
  conv => rhs; rw [← List.map_id l]
  apply List.map_congr_left
  intro v _; exact Subst.app_nil v

/-- the table during the loop is what the call sites need -/
theorem tblOK_loop {I : Interp Val} {Φ : FEnv Val} {T0 : List Func} {N : Nat} (ctx : LoopCtx I Φ T0 N)
    {tbl : List Func} (hsig : SigEq tbl T0) (hden : DenOK I Φ tbl) (hsyn : SynTbl T0 tbl) : TblOK I Φ tbl := by
  refine ⟨hden, fun op g hg => (hsyn g (findFunc_some hg).1).1.1, fun op g hg => (hsyn g (findFunc_some hg).1).1.2.1,
    fun op g hg => (hsyn g (findFunc_some hg).1).2, fun op g hg => ?_,
    (findFunc_sig (Eq.symm hsig) identityOp).1 ctx.noident, ctx.noidentΦ⟩
  rw [callsOKNodes_sig hsig]; exact (hsyn g (findFunc_some hg).1).1.2.2

theorem synTbl_ht {T0 tbl : List Func} (hsig : SigEq tbl T0) (hsyn : SynTbl T0 tbl) :
    ∀ op f, findFunc tbl op = some f → (fun op => !isStochasticOp op) op = true →
      Syn (fun op => !isStochasticOp op) tbl f.nodes := by
  intro op f hf _
  obtain ⟨⟨a, b, c⟩, _⟩ := hsyn f (findFunc_some hf).1
  exact ⟨a, b, by rw [callsOKNodes_sig hsig]; exact c⟩

/-- call depth, measured in `T0`, of the function bodies of the table -/
def LvlTbl (T0 tbl : List Func) : Prop :=
  ∀ g ∈ tbl, ∀ j, lvl T0 (j + 1) g.id = true → opsAllNodes (lvl T0 j) g.nodes = true

theorem isSome_of_sig {tbl T0 : List Func} (hsig : SigEq tbl T0) (op : OpId) :
    (findFunc tbl op).isSome = (findFunc T0 op).isSome := by
  cases h : findFunc tbl op with
  | none => rw [(findFunc_sig hsig op).1 h]
  | some f => obtain ⟨f', hf', _⟩ := (findFunc_sig hsig op).2 f h; rw [hf']; rfl

theorem notAcc_sig {tbl T0 : List Func} (hsig : SigEq tbl T0) (crit : OpId → Bool) :
    notAcc tbl crit = notAcc T0 crit := by
  funext op
  simp only [notAcc, isSome_of_sig hsig]

theorem lvlTbl_ht {T0 tbl : List Func} (hsig : SigEq tbl T0) (hl : LvlTbl T0 tbl) :
    ∀ j op f, findFunc tbl op = some f → lvl T0 (j + 1) op = true → opsAllNodes (lvl T0 j) f.nodes = true := by
  intro j op f hf h
  obtain ⟨hmem, hid⟩ := findFunc_some hf
  exact hl f hmem j (hid ▸ h)

/-- the invariant of Lemmas/InlineSyn.lean for the predicate "call depth at most `j`" -/
theorem lvl_syn_ht {T0 tbl : List Func} (hsig : SigEq tbl T0) (hsyn : SynTbl T0 tbl) (hl : LvlTbl T0 tbl) (j : Nat) :
    ∀ op f, findFunc tbl op = some f → lvl T0 j op = true → Syn (lvl T0 j) tbl f.nodes := by
  intro op f hf h
  obtain ⟨hmem, hid⟩ := findFunc_some hf
  obtain ⟨⟨_, b, c⟩, _⟩ := hsyn f hmem
  refine ⟨?_, b, by rw [callsOKNodes_sig hsig]; exact c⟩
  cases j with
  | zero =>
    -- a function has no call depth 0
    simp only [lvl, Option.isNone_iff_eq_none] at h
    have := isSome_of_sig hsig op
    rw [hf, h] at this
    cases this
  | succ j' => exact opsAllNodes_mono (lvl_mono T0 j') f.nodes (hl f hmem j' (hid ▸ h))

/-- **the loop over the functions**: every function keeps its denotation, the bodies stay well-formed and do not
    get deeper call trees, the budget is not exhausted, only accepted functions are recorded as inlined, and a
    function whose turn is over was recorded as inlined or has no accepted call left -/
theorem inlFuncs_den {I : Interp Val} {Φ : FEnv Val} {T0 : List Func} {N : Nat} (ctx : LoopCtx I Φ T0 N)
    (crit : OpId → Bool) (budget : Nat) (hlb : ∀ f ∈ T0, lvl T0 budget f.id = true) :
    ∀ (ids : List OpId) (st : ISt) (tbl : List Func),
    ids.Nodup → SigEq tbl T0 → N ≤ st.next → (∀ g ∈ tbl, g.id ∈ ids → g ∈ T0) →
    DenOK I Φ tbl → SynTbl T0 tbl → LvlTbl T0 tbl → (∀ op ∈ st.inlined, crit op = true) →
    (∀ g ∈ tbl, g.id ∉ ids → g.id ∈ st.inlined ∨ opsAllNodes (notAcc T0 crit) g.nodes = true) →
    DenOK I Φ (inlFuncs crit budget st tbl ids).2 ∧ SynTbl T0 (inlFuncs crit budget st tbl ids).2 ∧
    LvlTbl T0 (inlFuncs crit budget st tbl ids).2 ∧ (inlFuncs crit budget st tbl ids).1.stuck = st.stuck ∧
    (∀ op ∈ (inlFuncs crit budget st tbl ids).1.inlined, crit op = true) ∧
    (∀ g ∈ (inlFuncs crit budget st tbl ids).2, g.id ∈ (inlFuncs crit budget st tbl ids).1.inlined ∨
      opsAllNodes (notAcc T0 crit) g.nodes = true)
  | [], _, _, _, _, _, _, hden, hsyn, hlv, hinl, hdone => by
    simp only [inlFuncs]
    exact ⟨hden, hsyn, hlv, trivial, hinl, fun g hg => hdone g hg (by simp)⟩
  | id :: rest, st, tbl, hnd, hsig, hN, horig, hden, hsyn, hlv, hinl, hdone => by
    simp only [List.nodup_cons] at hnd
    have horig' : ∀ g ∈ tbl, g.id ∈ rest → g ∈ T0 := fun g hg h => horig g hg (List.mem_cons_of_mem _ h)
    rw [inlFuncs]
    split
    · rename_i hin
      refine inlFuncs_den ctx crit budget hlb rest st tbl hnd.2 hsig hN horig' hden hsyn hlv hinl (fun g hg h => ?_)
      by_cases hgid : g.id = id
      · left; rw [hgid]; simpa using hin
      · exact hdone g hg (by simp only [List.mem_cons, not_or]; exact ⟨hgid, h⟩)
    · split
      · rename_i hnone
        refine inlFuncs_den ctx crit budget hlb rest st tbl hnd.2 hsig hN horig' hden hsyn hlv hinl (fun g hg h => ?_)
        by_cases hgid : g.id = id
        · -- there is no function with this identifier
          exfalso
          have : findFunc tbl g.id ≠ none := by
            unfold findFunc
            intro hn
            rw [List.find?_eq_none] at hn
            exact absurd (by simp) (hn g hg)
          exact this (hgid ▸ hnone)
        · exact hdone g hg (by simp only [List.mem_cons, not_or]; exact ⟨hgid, h⟩)
      · rename_i f hf
        obtain ⟨hfmem, hfid⟩ := findFunc_some hf
        have hf0 : f ∈ T0 := horig f hfmem (by rw [hfid]; exact List.mem_cons_self)
        have ht := tblOK_loop ctx hsig hden hsyn
        obtain ⟨v1, v2, v3, v4, v5⟩ := ctx.valid0 f hf0
        obtain ⟨⟨s1, s2, s4⟩, s3⟩ := hsyn f hfmem
        have hcalls : callsOKNodes tbl f.nodes = true := by rw [callsOKNodes_sig hsig]; exact s4
        have key := fun (α : List (String × AttrData)) (ρ : Env Val) =>
          inlNodes_sound I Φ α tbl crit (inlAt tbl crit budget) N ht (deepOK_inlAt I Φ α tbl crit ht budget)
            f.nodes [] f.outputs st ρ ρ (fun v _ => by rw [Subst.app_nil]) (fun p hp => by simp at hp) v1 s3 v2 v3 v4 hN
            (fun p hp => by simp at hp) hcalls
        simp only [map_app_nil] at key
        have hidt : findFunc tbl identityOp = none := (findFunc_sig (Eq.symm hsig) identityOp).1 ctx.noident
        have hsynR := inlNodes_syn (fun op => !isStochasticOp op) tbl crit (inlAt tbl crit budget) (by decide) hidt
          (synTbl_ht hsig hsyn)
          (deepSyn_inlAt (fun op => !isStochasticOp op) tbl crit (by decide) hidt (synTbl_ht hsig hsyn) budget)
          f.nodes st [] f.outputs ⟨s1, s2, hcalls⟩
        -- call depth of the body: every call tree of `T0` is at most `budget` deep
        have hbody : opsAllNodes (lvl T0 (budget + 1)) f.nodes = true := by
          refine opsAllNodes_mono (p := fun _ => true) (fun op _ => ?_) f.nodes (opsAllNodes_true f.nodes)
          cases hfo : findFunc T0 op with
          | none => exact lvl_mono_le T0 (Nat.zero_le _) op (by simp [lvl, hfo])
          | some g =>
            obtain ⟨hgm, hgid⟩ := findFunc_some hfo
            exact lvl_mono T0 budget op (hgid ▸ hlb g hgm)
        have hlvR := inlNodes_lvl T0 tbl crit (inlAt tbl crit budget) budget ctx.noident (isSome_of_sig hsig)
          (lvlTbl_ht hsig hlv budget)
          (deepL_inlAt T0 tbl crit ctx.noident (isSome_of_sig hsig) (lvlTbl_ht hsig hlv) budget budget (Nat.le_refl _))
          f.nodes st [] f.outputs hbody
        -- the rewritten body is not deeper than the body was
        have hlvl' : ∀ j, lvl T0 (j + 1) f.id = true →
            opsAllNodes (lvl T0 j) (inlNodes tbl crit (inlAt tbl crit budget) st [] f.outputs f.nodes).nodes = true := by
          intro j hj
          have hidl : lvl T0 j identityOp = true := lvl_mono_le T0 (Nat.zero_le _) identityOp (by simp [lvl, ctx.noident])
          have hfj : opsAllNodes (lvl T0 j) f.nodes = true := hlv f hfmem j hj
          exact (inlNodes_syn (lvl T0 j) tbl crit (inlAt tbl crit budget) hidl hidt (lvl_syn_ht hsig hsyn hlv j)
            (deepSyn_inlAt (lvl T0 j) tbl crit hidl hidt (lvl_syn_ht hsig hsyn hlv j) budget)
            f.nodes st [] f.outputs ⟨hfj, s2, hcalls⟩).1
        generalize hR : inlNodes tbl crit (inlAt tbl crit budget) st [] f.outputs f.nodes = R at key hsynR hlvR hlvl'
        -- the rewritten function denotes the same
        have hsame : funcDen I Φ { f with nodes := R.nodes, outputs := R.outs } = funcDen I Φ f := by
          funext cattrs args
          simp only [funcDen]
          obtain ⟨k1, k2, _⟩ := key (bindParams f.params cattrs) (Env.empty.bind f.inputs args)
          rw [k2, List.map_map]
          apply List.map_congr_left
          intro v hv
          exact (k1 v (v5 v hv)).symm
        have hlen : R.outs.length = f.outputs.length := by
          rw [(key [] Env.empty).2.1, List.length_map]
        have hsig' : sig { f with nodes := R.nodes, outputs := R.outs } = sig f := by
          simp only [sig, hlen]
        have hndt : (tbl.map (·.id)).Nodup := by
          have : tbl.map (·.id) = T0.map (·.id) := by
            have := congrArg (List.map Prod.fst) hsig
            rw [List.map_map, List.map_map] at this
            exact this
          rw [this]; exact ctx.nd
        obtain ⟨l1, l2, l3, l4⟩ := hlvR
        obtain ⟨r1, r2, r3, r4, r5, r6⟩ := inlFuncs_den ctx crit budget hlb rest R.st
          (replaceFunc tbl { f with nodes := R.nodes, outputs := R.outs }) hnd.2
          (Eq.trans (sigEq_replaceFunc tbl hndt hfmem hsig') hsig) (Nat.le_trans hN (key [] Env.empty).2.2.1)
          (fun g hg h => by
            rcases mem_replaceFunc hg with hg | hg
            · rw [hg] at h; simp only at h; rw [hfid] at h; exact absurd h hnd.1
            · exact horig' g hg h)
          (fun op g hg => by
            by_cases hop : op = f.id
            · subst hop
              have := findFunc_replaceFunc_self tbl { f with nodes := R.nodes, outputs := R.outs } ⟨f, hfmem, rfl⟩
              simp only at this
              rw [this] at hg
              simp only [Option.some.injEq] at hg
              rw [← hg, hsame]
              exact hden f.id f (hfid ▸ hf)
            · rw [findFunc_replaceFunc_ne tbl _ (by simpa using hop)] at hg
              exact hden op g hg)
          (fun g hg => by
            rcases mem_replaceFunc hg with hg | hg
            · rw [hg]
              simp only
              exact ⟨⟨hsynR.1, hsynR.2.1, by rw [← callsOKNodes_sig hsig]; exact hsynR.2.2⟩, (key [] Env.empty).2.2.2.2.2.1⟩
            · exact hsyn g hg)
          (fun g hg j hj => by
            rcases mem_replaceFunc hg with hg | hg
            · rw [hg] at hj ⊢
              simp only at hj ⊢
              exact hlvl' j hj
            · exact hlv g hg j hj)
          (fun op hop => by
            rcases l3 op hop with h | h
            · exact hinl op h
            · exact h)
          (fun g hg h => by
            rcases mem_replaceFunc hg with hg' | hg'
            · right
              rw [hg']
              simp only
              rw [← notAcc_sig hsig]; exact l2
            · by_cases hgid : g.id = id
              · -- the only function with this identifier is `f`, which was replaced
                rcases mem_replaceFunc' hg with h1 | h1
                · right
                  rw [h1]
                  simp only
                  rw [← notAcc_sig hsig]; exact l2
                · exact absurd (hgid.trans hfid.symm) h1.2
              · rcases hdone g hg' (by simp only [List.mem_cons, not_or]; exact ⟨hgid, h⟩) with h' | h'
                · exact Or.inl (l4 _ h')
                · exact Or.inr h')
        exact ⟨r1, r2, r3, by rw [r4, l1], r5, r6⟩

/-! ## the function environment of the result -/

theorem opsAllNodes_and {p q : OpId → Bool} {ns : List FNode} (hp : opsAllNodes p ns = true) (hq : opsAllNodes q ns = true) :
    opsAllNodes (fun op => p op && q op) ns = true := by
  rw [opsAllNodes_iff] at hp hq ⊢
  intro op hop
  simp [hp op hop, hq op hop]

/-- the function environment of the table `T` after the pass agrees with `Φ` on every operator that is kept or is
    not a function, at every depth that unrolls its call tree in `T` -/
theorem fenv_result (I : Interp Val) (T : List Func) (Φ : FEnv Val) (ok : OpId → Bool)
    (hden : ∀ op f', findFunc T op = some f' → Φ op = some (funcDen I Φ f'))
    (hnone : ∀ op, findFunc T op = none → ok op = true → Φ op = none)
    (hbody : ∀ f' ∈ T, opsAllNodes ok f'.nodes = true) :
    ∀ (e : Nat) (op : OpId), ok op = true → lvl T e op = true → fenv I T e op = Φ op
  | 0, op, hok, hl => by
    simp only [lvl, Option.isNone_iff_eq_none] at hl
    rw [hnone op hl hok]; rfl
  | e + 1, op, hok, hl => by
    rw [lvl] at hl
    cases hf : findFunc T op with
    | none => rw [fenv_none I T _ hf, hnone op hf hok]
    | some f' =>
      rw [hf] at hl
      simp only [fenv, hf, Option.map_some]
      rw [hden op f' hf]
      congr 1
      refine funcDen_congrΦ I _ _ _ (fun o ho => ?_) f' (opsAllNodes_and hl (hbody f' (findFunc_some hf).1))
      simp only [Bool.and_eq_true] at ho
      exact fenv_result I T Φ ok hden hnone hbody e o ho.2 ho.1

/-- call depth in the table `T` after the pass: not deeper than in the table `T0` before, for the operators that
    are kept or are not functions (`ok`) -/
theorem lvl_result (T0 T : List Func) (ok : OpId → Bool)
    (hnone : ∀ op, findFunc T0 op = none → findFunc T op = none)
    (hT : ∀ op g', findFunc T op = some g' →
      (∀ j, lvl T0 (j + 1) op = true → opsAllNodes (lvl T0 j) g'.nodes = true) ∧ opsAllNodes ok g'.nodes = true) :
    ∀ (j : Nat) (op : OpId), lvl T0 j op = true → ok op = true → lvl T j op = true
  | 0, op, h, _ => by
    simp only [lvl, Option.isNone_iff_eq_none] at h ⊢
    exact hnone op h
  | j + 1, op, h, _ => by
    rw [lvl]
    cases hf : findFunc T op with
    | none => rfl
    | some g' =>
      simp only
      obtain ⟨h1, h2⟩ := hT op g' hf
      refine opsAllNodes_mono (fun o ho => ?_) g'.nodes (opsAllNodes_and (h1 j h) h2)
      simp only [Bool.and_eq_true] at ho
      exact lvl_result T0 T ok hnone hT j o ho.1 ho.2

theorem lvlTbl_self (T0 : List Func) (hnd : (T0.map (·.id)).Nodup) : LvlTbl T0 T0 := by
  intro g hg j hj
  rw [lvl] at hj
  cases hf : findFunc T0 g.id with
  | none =>
    exfalso
    unfold findFunc at hf
    rw [List.find?_eq_none] at hf
    exact absurd (by simp) (hf g hg)
  | some g' =>
    rw [hf] at hj
    simp only at hj
    obtain ⟨hm, hid⟩ := findFunc_some hf
    have : g' = g := eq_of_nodup_ids hnd hm hg hid
    rw [← this]; exact hj

end IrVerif.Inline

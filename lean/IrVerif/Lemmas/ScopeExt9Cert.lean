/-
The IR version < 10 format in the extended model: every model `deserializeME9` returns satisfies the certificate
`ReloadableME` of the extended round-trip theorems (`deserializeME9_reloadableME`).

* `extG_setInfo` ...: the certificate of the extension state reads the store only through names and the extension
  state only through the quantization annotations - it survives a change of infos (where the resolution certificate
  allows one) and any change of the merged metadata;
* closed form of the extended post-pass on the merged metadata of a value that is visited once
  (`applyInfosE_vmeta_nodup`, `foldE_vmeta_at`): equally named inputs of a function get the same metadata merged.
-/
import IrVerif.Lemmas.ScopeExt9Top
namespace IrVerif.Scope

/-! ### the certificate of the extension state under a change of infos and metadata -/

mutual
theorem extG_setInfo (V : Nat → ValueS) (I : Nat → Info) (x x' : Ext) (hq : x'.quant = x.quant) :
    ∀ (g : GraphT) (outer : List Table), AgreeT V I (replG V outer g).new → extG V x outer g →
      extG (setInfo V I) x' outer g
  | .mk gid ins inits nodes outs, outer, h, hx => by
    simp only [replG] at h
    obtain ⟨i1, _, _⟩ := replInits_setInfo V I outs inits (tblIns V ins) h.left.left.left.right
    simp only [extG] at hx ⊢
    have hN := extNs_setInfo V I x x' hq nodes outer
      (replDecl V (replInits V outs (tblIns V ins) inits).tbl (nodes.flatMap (liveOuts V))).tbl h.left.right hx.2.2
    simp only [qcRoles, tblIns_setInfo, liveOuts_setInfo, i1, replDecl_setInfo, replOuts_setInfo, replNs_tbl_setInfo,
      setInfo_name, hq]
    exact ⟨hx.1, hx.2.1, hN⟩
theorem extNs_setInfo (V : Nat → ValueS) (I : Nat → Info) (x x' : Ext) (hq : x'.quant = x.quant) :
    ∀ (ns : List NodeT) (outer : List Table) (T : Table), AgreeT V I (replNs V outer T ns).new → extNs V x outer T ns →
      extNs (setInfo V I) x' outer T ns
  | [], _, _, _, _ => by simp only [extNs]
  | n :: ns, outer, T, h, hx => by
    simp only [replNs] at h
    simp only [extNs] at hx ⊢
    rw [replN_tbl_setInfo]
    exact ⟨extN_setInfo V I x x' hq n outer T h.left hx.1,
      extNs_setInfo V I x x' hq ns outer (replN V outer T n).tbl h.right hx.2⟩
theorem extN_setInfo (V : Nat → ValueS) (I : Nat → Info) (x x' : Ext) (hq : x'.quant = x.quant) :
    ∀ (n : NodeT) (outer : List Table) (T : Table), AgreeT V I (replN V outer T n).new → extN V x outer T n →
      extN (setInfo V I) x' outer T n
  | .mk i g ins outs subs, outer, T, h, hx => by
    simp only [replN] at h
    simp only [extN] at hx ⊢
    simp only [setInfo_name, replRes_setInfo, hq]
    exact ⟨hx.1, extGs_setInfo V I x x' hq subs ((replRes V outer T ins).tbl :: outer) h.right hx.2⟩
theorem extGs_setInfo (V : Nat → ValueS) (I : Nat → Info) (x x' : Ext) (hq : x'.quant = x.quant) :
    ∀ (gs : List GraphT) (scopes : List Table), AgreeT V I (replGs V scopes gs).new → extGs V x scopes gs →
      extGs (setInfo V I) x' scopes gs
  | [], _, _, _ => by simp only [extGs]
  | g :: gs, scopes, h, hx => by
    simp only [replGs] at h
    simp only [extGs] at hx ⊢
    exact ⟨extG_setInfo V I x x' hq g scopes h.left hx.1, extGs_setInfo V I x x' hq gs scopes h.right hx.2⟩
end

/-! ### closed form of the post-pass on the metadata -/

/-- `value.metadata_props` after `deserialize_value_info_proto(mapping[value.name], value)`, if the name is mapped -/
def updMeta (tbl : List (Name × Info × SS)) (c : ValueS) (m : SS) : SS :=
  match c.name with
  | none => m
  | some n =>
    match tbl.lookup n with
    | some e => if e.2.isEmpty then m else ssUpdate m e.2
    | none => m

theorem merge_vmeta_self (x : Ext) (v : Nat) (es : SS) :
    (x.merge v es).vmeta v = if es.isEmpty then x.vmeta v else ssUpdate (x.vmeta v) es := by
  unfold Ext.merge
  split
  · rfl
  · simp [Ext.setMeta]

theorem merge_vmeta_other (x : Ext) (u v : Nat) (es : SS) (h : v ≠ u) : (x.merge u es).vmeta v = x.vmeta v := by
  unfold Ext.merge
  split
  · rfl
  · simp [Ext.setMeta, h]

theorem applyInfosE_notin (tbl : List (Name × Info × SS)) (v : Nat) : ∀ (l : List Nat) (st : Store) (x : Ext), v ∉ l →
    (applyInfosE st x tbl l).1.vals v = st.vals v ∧ (applyInfosE st x tbl l).2.vmeta v = x.vmeta v
  | [], _, _, _ => ⟨rfl, rfl⟩
  | u :: l, st, x, h => by
    have hu : v ≠ u := fun e => h (by simp [e])
    have hl : v ∉ l := fun e => h (by simp [e])
    simp only [applyInfosE]
    split
    · exact applyInfosE_notin tbl v l st x hl
    · split
      · rename_i e _
        have ih := applyInfosE_notin tbl v l (st.modify u fun c => { c with info := e.1 }) (x.merge u e.2) hl
        refine ⟨ih.1.trans ?_, ih.2.trans (merge_vmeta_other x u v e.2 hu)⟩
        simp [Store.modify, hu]
      · exact applyInfosE_notin tbl v l st x hl

theorem applyInfosE_vmeta_nodup (tbl : List (Name × Info × SS)) (v : Nat) : ∀ (l : List Nat) (st : Store) (x : Ext),
    l.Nodup → v ∈ l → (applyInfosE st x tbl l).2.vmeta v = updMeta tbl (st.vals v) (x.vmeta v)
  | [], _, _, _, h => by simp at h
  | u :: l, st, x, hnd, h => by
    simp only [List.nodup_cons] at hnd
    by_cases hu : v = u
    · subst hu
      cases hn : (st.vals v).name with
      | none =>
        simp only [applyInfosE, updMeta, hn]
        exact (applyInfosE_notin tbl v l st x hnd.1).2
      | some n =>
        cases hl : tbl.lookup n with
        | none =>
          simp only [applyInfosE, updMeta, hn, hl]
          exact (applyInfosE_notin tbl v l st x hnd.1).2
        | some e =>
          simp only [applyInfosE, updMeta, hn, hl]
          rw [(applyInfosE_notin tbl v l _ _ hnd.1).2, merge_vmeta_self]
    · have hl : v ∈ l := by
        simp only [List.mem_cons] at h
        rcases h with h | h
        · exact absurd h hu
        · exact h
      simp only [applyInfosE]
      split
      · exact applyInfosE_vmeta_nodup tbl v l st x hnd.2 hl
      · split
        · rename_i e _
          rw [applyInfosE_vmeta_nodup tbl v l _ _ hnd.2 hl, merge_vmeta_other x u v e.2 hu]
          have : (st.modify u fun c => { c with info := e.1 }).vals v = st.vals v := by simp [Store.modify, hu]
          rw [this]
        · exact applyInfosE_vmeta_nodup tbl v l st x hnd.2 hl

/-- the mapping of one function with the metadata, newest entry first -/
def tblE (vi : List VInfoE) (fids : List FId) (k : FId) : List (Name × Info × SS) := (expEntriesForE fids vi k).reverse

theorem applyExpFuncE_out (vi : List VInfoE) (fids : List FId) (sx : Store × Ext) (g : FId × GraphT) (v : Nat)
    (h : v ∉ fvals g.2) :
    (applyExpFuncE vi fids sx g).1.vals v = sx.1.vals v ∧ (applyExpFuncE vi fids sx g).2.vmeta v = sx.2.vmeta v := by
  obtain ⟨k, gid, ins, its, nodes, outs⟩ := g
  simp only [fvals, GraphT.inputs, GraphT.nodes, List.mem_append, not_or] at h
  simp only [applyExpFuncE]
  have h1 := applyInfosE_notin ((expEntriesForE fids vi k).reverse) v ins sx.1 sx.2 h.1
  have h2 := applyInfosE_notin ((expEntriesForE fids vi k).reverse) v (nodes.flatMap NodeT.outputs)
    (applyInfosE sx.1 sx.2 ((expEntriesForE fids vi k).reverse) ins).1
    (applyInfosE sx.1 sx.2 ((expEntriesForE fids vi k).reverse) ins).2 h.2
  exact ⟨h2.1.trans h1.1, h2.2.trans h1.2⟩

theorem applyExpFuncE_input (vi : List VInfoE) (fids : List FId) (sx : Store × Ext) (k : FId) (gid : Nat)
    (ins : List Nat) (its : List (Name × Nat)) (nodes : List NodeT) (outs : List Nat) (v : Nat)
    (hnd : ins.Nodup) (hv : v ∈ ins) (hno : v ∉ nodes.flatMap NodeT.outputs) :
    (applyExpFuncE vi fids sx (k, .mk gid ins its nodes outs)).2.vmeta v =
      updMeta (tblE vi fids k) (sx.1.vals v) (sx.2.vmeta v) := by
  simp only [applyExpFuncE, tblE]
  rw [(applyInfosE_notin _ v (nodes.flatMap NodeT.outputs) _ _ hno).2]
  exact applyInfosE_vmeta_nodup _ v ins sx.1 sx.2 hnd hv

theorem foldE_out (vi : List VInfoE) (fids : List FId) (v : Nat) : ∀ (fs : List (FId × GraphT)) (sx : Store × Ext),
    (∀ g ∈ fs, v ∉ fvals g.2) →
    (fs.foldl (applyExpFuncE vi fids) sx).1.vals v = sx.1.vals v ∧
      (fs.foldl (applyExpFuncE vi fids) sx).2.vmeta v = sx.2.vmeta v
  | [], _, _ => ⟨rfl, rfl⟩
  | g :: fs, sx, h => by
    simp only [List.foldl_cons]
    have ih := foldE_out vi fids v fs (applyExpFuncE vi fids sx g) (fun g' hg' => h g' (by simp [hg']))
    have h1 := applyExpFuncE_out vi fids sx g v (h g (by simp))
    exact ⟨ih.1.trans h1.1, ih.2.trans h1.2⟩

/-- the merged metadata of an input of one function after the post-pass of the whole model -/
theorem foldE_vmeta_at (vi : List VInfoE) (fids : List FId) (v : Nat) (k : FId) (gid : Nat) (ins : List Nat)
    (its : List (Name × Nat)) (nodes : List NodeT) (outs : List Nat)
    (hnd : ins.Nodup) (hv : v ∈ ins) (hno : v ∉ nodes.flatMap NodeT.outputs) :
    ∀ (fs : List (FId × GraphT)) (sx : Store × Ext), (fs.map (·.1)).Nodup → (k, GraphT.mk gid ins its nodes outs) ∈ fs →
      (∀ g ∈ fs, g ≠ (k, GraphT.mk gid ins its nodes outs) → v ∉ fvals g.2) →
      (fs.foldl (applyExpFuncE vi fids) sx).2.vmeta v = updMeta (tblE vi fids k) (sx.1.vals v) (sx.2.vmeta v)
  | [], _, _, hf, _ => by simp at hf
  | g :: fs, sx, hids, hf, hother => by
    simp only [List.map_cons, List.nodup_cons] at hids
    simp only [List.foldl_cons]
    by_cases hg : g = (k, GraphT.mk gid ins its nodes outs)
    · subst hg
      rw [(foldE_out vi fids v fs _ (fun g' hg' => hother g' (by simp [hg']) (fun e => by
        subst e; exact hids.1 (List.mem_map_of_mem (f := (·.1)) hg')))).2]
      exact applyExpFuncE_input vi fids sx k gid ins its nodes outs v hnd hv hno
    · have hf' : (k, GraphT.mk gid ins its nodes outs) ∈ fs := by
        simp only [List.mem_cons] at hf
        rcases hf with hf | hf
        · exact absurd hf.symm hg
        · exact hf
      rw [foldE_vmeta_at vi fids v k gid ins its nodes outs hnd hv hno fs _ hids.2 hf'
        (fun g' hg' => hother g' (by simp [hg']))]
      have h1 := applyExpFuncE_out vi fids sx g v (hother g (by simp) hg)
      rw [h1.1, h1.2]

/-! ### the certificate after the post-pass -/

/-- a truthy-named node output of a certified function is declared, hence not an input -/
theorem input_not_output (V : Nat → ValueS) (gid : Nat) (ins : List Nat) (inits : List (Name × Nat))
    (nodes : List NodeT) (outs : List Nat) (hok : (replF V (.mk gid ins inits nodes outs)).ok)
    (hnd : (replF V (.mk gid ins inits nodes outs)).new.Nodup) (v : Nat) (hv : v ∈ ins)
    (ht : nameTruthy (V v).name = true) : v ∉ nodes.flatMap NodeT.outputs := by
  intro ho
  simp only [List.mem_flatMap] at ho
  obtain ⟨n, hn, hvn⟩ := ho
  have hd : v ∈ (replDecl V (tblIns V ins) (nodes.flatMap (liveOuts V))).new := by
    simp only [replF] at hok
    obtain ⟨d1, _, _⟩ := replDecl_new V _ _ hok.2.2.2.1
    rw [d1, List.mem_filter]
    refine ⟨List.mem_flatMap.mpr ⟨n, hn, ?_⟩, ht⟩
    obtain ⟨i, g, a, b, c⟩ := n
    exact truthy_mem_stripTrailing V v b hvn ht
  rw [replF_new_eq, List.nodup_append] at hnd
  have h1 := hnd.1
  rw [List.nodup_append] at h1
  exact h1.2.2 v hv v hd rfl

/-- **every model `deserializeME9` returns satisfies `ReloadableME`** -/
theorem deserializeME9_reloadableME (p : ModelE) (w : MWorldE) (hd : deserializeME9 p = .ok w) : ReloadableME w := by
  have hR := deserializeME9_core_reloadable p w hd
  have hwf := deserializeME9_wf p w hd
  simp only [deserializeME9] at hd
  split at hd
  · simp at hd
  · rename_i m hm
    simp only [Except.ok.injEq] at hd
    have hRm := deserializeME_reloadableME p m hm
    obtain ⟨hM, hxG, hxF, _⟩ := hRm
    have hM0 := hM
    obtain ⟨hok, hfok, hndall, hids⟩ := hM
    -- the store after the post-pass: the infos changed, nothing else
    have hst : (m.funcs.foldl (applyExpFuncE p.graph.vinfo (m.funcs.map (·.1))) (m.st, m.ext)).1 =
        postFold (p.graph.vinfo.map VInfoE.erase) (m.funcs.map (·.1)) m.funcs m.st :=
      foldl_applyExpFuncE_erase _ _ _ _
    have hJ0 : ∃ J : Nat → Info, J = fun v =>
        ((postFold (p.graph.vinfo.map VInfoE.erase) (m.funcs.map (·.1)) m.funcs m.st).vals v).info := ⟨_, rfl⟩
    obtain ⟨J, hJdef⟩ := hJ0
    have hvals : w.st.vals = setInfo m.st.vals J := by
      rw [← hd]
      show (m.funcs.foldl (applyExpFuncE p.graph.vinfo (m.funcs.map (·.1))) (m.st, m.ext)).1.vals = _
      rw [hst, postFold_setInfo, hJdef]
    have hquant : w.ext.quant = m.ext.quant := by
      rw [← hd]
      exact (foldl_applyExpFuncE_quant _ _ _ _).1
    have hroot : w.root = m.root := by rw [← hd]
    have hfuncs : w.funcs = m.funcs := by rw [← hd]
    have hJ : ∀ v, (∀ f ∈ m.funcs, v ∉ fvals f.2) → J v = (m.st.vals v).info := by
      intro v h
      rw [hJdef]
      show ((postFold _ (m.funcs.map (·.1)) m.funcs m.st).vals v).info = _
      rw [postFold_out _ _ v _ _ h]
    have agree : ∀ v, nameTruthy (m.st.vals v).name = true → inSB m.st.vals m.funcs v = false →
        J v = (m.st.vals v).info := by
      intro v ht hs
      apply hJ
      intro f hf hvf
      have : inSB m.st.vals m.funcs v = true := (inSB_iff _ _ _).mpr ⟨ht, f, hf, hvf⟩
      rw [hs] at this
      cases this
    refine ⟨hR, ?_, ?_, hwf⟩
    · rw [hvals, hroot]
      exact extG_setInfo m.st.vals J m.ext w.ext hquant m.root []
        (fun v hv ht => agree v ht (notS_root m.core hM0 v hv)) hxG
    · intro f hf
      rw [hfuncs] at hf
      obtain ⟨k, gid, ins, inits, nodes, outs⟩ := f
      have hxf := hxF _ hf
      simp only [extF] at hxf ⊢
      rw [hvals]
      refine ⟨?_, ?_⟩
      · intro a ha b hb ht hn
        simp only [setInfo_name] at ht hn
        have htb : nameTruthy (m.st.vals b).name = true := by rw [← hn]; exact ht
        have hndf : (replF m.st.vals (GraphT.mk gid ins inits nodes outs)).new.Nodup := by
          rw [List.nodup_append] at hndall
          exact flatMap_nodup_each (fun f => (replF m.st.vals f.2).new) _ hndall.2.1 _ hf
        have hinsnd : ins.Nodup := by
          have h1 := hndf
          rw [replF_new_eq, List.nodup_append] at h1
          have h2 := h1.1
          rw [List.nodup_append] at h2
          exact h2.1
        have key : ∀ c ∈ ins, nameTruthy (m.st.vals c).name = true →
            w.ext.vmeta c = updMeta (tblE p.graph.vinfo (m.funcs.map (·.1)) k) (m.st.vals c) (m.ext.vmeta c) := by
          intro c hc htc
          rw [← hd]
          show (m.funcs.foldl (applyExpFuncE p.graph.vinfo (m.funcs.map (·.1))) (m.st, m.ext)).2.vmeta c = _
          apply foldE_vmeta_at _ _ c k gid ins inits nodes outs hinsnd hc
            (input_not_output m.st.vals gid ins inits nodes outs (hfok _ hf) hndf c hc htc) m.funcs (m.st, m.ext) hids hf
          intro g hg hne hcg
          rw [List.nodup_append] at hndall
          have hc1 : c ∈ (fun f : FId × GraphT => (replF m.st.vals f.2).new) (k, GraphT.mk gid ins inits nodes outs) :=
            fvals_truthy_new m.st.vals (GraphT.mk gid ins inits nodes outs) (hfok _ hf) c
              (by simp [fvals, GraphT.inputs, hc]) htc
          have hc2 : c ∈ (fun f : FId × GraphT => (replF m.st.vals f.2).new) g :=
            fvals_truthy_new m.st.vals g.2 (hfok g hg) c hcg htc
          exact flatMap_nodup_disjoint (fun f : FId × GraphT => (replF m.st.vals f.2).new) _ hndall.2.1 _ hf g hg
            (Ne.symm hne) c hc1 hc2
        rw [key a ha ht, key b hb htb, hxf.1 a ha b hb ht hn]
        simp only [updMeta, hn]
      · rw [tblIns_setInfo, liveOuts_setInfo, replDecl_setInfo]
        exact extNs_setInfo m.st.vals J m.ext w.ext hquant nodes []
          (replDecl m.st.vals (tblIns m.st.vals ins) (nodes.flatMap (liveOuts m.st.vals))).tbl
          (fun v hv ht => agree v ht (notS_nodes m.core hM0 k gid ins inits nodes outs hf v hv)) hxf.2

end IrVerif.Scope

/-
Serializing the round-tripped model gives the same proto: `serGraph` only reads what `Iso` preserves.
-/
import IrVerif.Lemmas.ScopeRTMain
namespace IrVerif.Scope

/-- what `Iso` says about the images of the values in `U` -/
structure Img (V V' : Nat → ValueS) (σ : Nat → Nat) (U : List Nat) : Prop where
  name : ∀ v ∈ U, (V' (σ v)).name = (V v).name
  info : ∀ v ∈ U, (V' (σ v)).info = (V v).info.emit
  inj : ∀ a ∈ U, ∀ b ∈ U, σ a = σ b → a = b

theorem present_emit (i : Info) : i.emit.present = i.present := by
  cases i with
  | mk ty sh doc => simp [Info.emit, Info.present]

theorem Img.viOf {V V' : Nat → ValueS} {σ : Nat → Nat} {U : List Nat} (h : Img V V' σ U) {v : Nat} (hv : v ∈ U) :
    viOf V' (σ v) = viOf V v := by
  simp only [Scope.viOf, nm, h.name v hv, h.info v hv, emit_emit]

theorem Img.shouldCreate {V V' : Nat → ValueS} {σ : Nat → Nat} {U : List Nat} (h : Img V V' σ U) {v : Nat}
    (hv : v ∈ U) : shouldCreate (V' (σ v)) = shouldCreate (V v) := by
  simp only [Scope.shouldCreate, h.name v hv, h.info v hv, present_emit]

theorem Img.nm {V V' : Nat → ValueS} {σ : Nat → Nat} {U : List Nat} (h : Img V V' σ U) {v : Nat} (hv : v ∈ U) :
    Scope.nm V' (σ v) = Scope.nm V v := by simp only [Scope.nm, h.name v hv]

theorem img_serValues {V V' : Nat → ValueS} {σ : Nat → Nat} {U : List Nat} (h : Img V V' σ U) :
    ∀ (vs : List Nat), (∀ v ∈ vs, v ∈ U) → (∀ v ∈ vs, (V v).name ≠ none) →
      serValues V' (vs.map σ) = .ok (vs.map (viOf V)) := by
  intro vs hU hn
  rw [serValues_of_names (V := V') (vs := vs.map σ) (fun w hw => by
    simp only [List.mem_map] at hw
    obtain ⟨v, hv, rfl⟩ := hw
    rw [h.name v (hU v hv)]; exact hn v hv)]
  congr 1
  rw [List.map_map]
  exact List.map_congr_left (fun v hv => h.viOf (hU v hv))

theorem img_serInputs {V V' : Nat → ValueS} {σ : Nat → Nat} {U : List Nat} (h : Img V V' σ U) :
    ∀ (ins : List (Option Nat)), (∀ v, some v ∈ ins → v ∈ U ∧ (V v).name ≠ none) →
      serInputs V' (ins.map (Option.map σ)) = .ok (ins.map (inName V)) := by
  intro ins hU
  rw [serInputs_of_names (V := V') (ins := ins.map (Option.map σ)) (fun w hw => by
    simp only [List.mem_map] at hw
    obtain ⟨o, ho, he⟩ := hw
    cases o with
    | none => simp at he
    | some v =>
      simp only [Option.map_some, Option.some.injEq] at he
      subst he
      rw [h.name v (hU v ho).1]; exact (hU v ho).2)]
  congr 1
  rw [List.map_map]
  apply List.map_congr_left
  intro o ho
  cases o with
  | none => rfl
  | some v => simp [inName, h.nm (hU v ho).1]

theorem img_stripTrailing {V V' : Nat → ValueS} {σ : Nat → Nat} {U : List Nat} (h : Img V V' σ U) :
    ∀ (l : List Nat), (∀ v ∈ l, v ∈ U) → stripTrailing V' (l.map σ) = (stripTrailing V l).map σ := by
  intro l
  induction l with
  | nil => intro _; rfl
  | cons a r ih =>
    intro hU
    have ih' := ih (fun v hv => hU v (by simp [hv]))
    simp only [List.map_cons, stripTrailing, ih']
    cases hs : stripTrailing V r with
    | nil => simp [h.name a (hU a (by simp))]; split <;> simp
    | cons b t => simp

theorem stripTrailing_cons_ne (V : Nat → ValueS) (a : Nat) (r : List Nat) (h : stripTrailing V r ≠ []) :
    stripTrailing V (a :: r) = a :: stripTrailing V r := by
  cases hs : stripTrailing V r with
  | nil => exact absurd hs h
  | cons b t => simp only [stripTrailing, hs]

theorem stripTrailing_cons_nil (V : Nat → ValueS) (a : Nat) (r : List Nat) (h : stripTrailing V r = []) :
    stripTrailing V (a :: r) = if nameTruthy (V a).name then [a] else [] := by
  simp only [stripTrailing, h]

theorem stripTrailing_idem (V : Nat → ValueS) : ∀ (l : List Nat), stripTrailing V (stripTrailing V l) = stripTrailing V l := by
  intro l
  induction l with
  | nil => rfl
  | cons a r ih =>
    by_cases hs : stripTrailing V r = []
    · rw [stripTrailing_cons_nil V a r hs]
      split
      · rename_i ht
        rw [stripTrailing_cons_nil V a [] rfl]; simp [ht]
      · rfl
    · rw [stripTrailing_cons_ne V a r hs, stripTrailing_cons_ne V a _ (by rw [ih]; exact hs), ih]

theorem outVInfo_strip (V : Nat → ValueS) (gouts : List Nat) :
    ∀ (outs : List Nat), outVInfo V gouts (stripTrailing V outs) = outVInfo V gouts outs := by
  intro outs
  induction outs with
  | nil => rfl
  | cons a r ih =>
    by_cases hs : stripTrailing V r = []
    · rw [stripTrailing_cons_nil V a r hs]
      rw [hs] at ih
      have hr : outVInfo V gouts r = [] := by rw [← ih]; rfl
      split
      · simp [outVInfo, hr]
      · rename_i hf
        simp only [outVInfo, hr]
        have : shouldCreate (V a) = false := by
          simp only [shouldCreate, Bool.and_eq_false_iff]
          right; simpa using hf
        simp [this]
    · rw [stripTrailing_cons_ne V a r hs]
      simp only [outVInfo, ih]

theorem img_outVInfo {V V' : Nat → ValueS} {σ : Nat → Nat} {U : List Nat} (h : Img V V' σ U) (gouts : List Nat)
    (hg : ∀ v ∈ gouts, v ∈ U) :
    ∀ (l : List Nat), (∀ v ∈ l, v ∈ U) → outVInfo V' (gouts.map σ) (l.map σ) = outVInfo V gouts l := by
  intro l
  induction l with
  | nil => intro _; rfl
  | cons a r ih =>
    intro hU
    have ha := hU a (by simp)
    simp only [List.map_cons, outVInfo, ih (fun v hv => hU v (by simp [hv])), h.shouldCreate ha, h.name a ha,
      h.info a ha, emit_emit]
    have hc : (gouts.map σ).contains (σ a) = gouts.contains a := by
      simp only [List.contains_eq_mem, List.mem_map, decide_eq_decide]
      constructor
      · rintro ⟨b, hb, he⟩
        rw [← h.inj b (hg b hb) a ha he]; exact hb
      · exact fun hm => ⟨a, hm, rfl⟩
    rw [hc]

theorem img_serOutNames {V V' : Nat → ValueS} {σ : Nat → Nat} {U : List Nat} (h : Img V V' σ U) :
    ∀ (vs : List Nat), (∀ v ∈ vs, v ∈ U) → (∀ v ∈ vs, (V v).name ≠ none) →
      serOutNames V' (vs.map σ) = .ok (vs.map (nm V)) := by
  intro vs hU hn
  rw [serOutNames_of_names (V := V') (vs := vs.map σ) (fun w hw => by
    simp only [List.mem_map] at hw
    obtain ⟨v, hv, rfl⟩ := hw
    rw [h.name v (hU v hv)]; exact hn v hv)]
  congr 1
  rw [List.map_map]
  exact List.map_congr_left (fun v hv => h.nm (hU v hv))

theorem img_serInits {V V' : Nat → ValueS} {td td' : TData} {σ : Nat → Nat} {U : List Nat} (h : Img V V' σ U)
    (inames : List (Option Name)) :
    ∀ (its : List (Name × Nat)), (∀ kv ∈ its, kv.2 ∈ U) → (∀ kv ∈ its, (V kv.2).const ≠ none) →
      (∀ kv ∈ its, ∀ t, (V kv.2).const = some t → ∃ t', (V' (σ kv.2)).const = some t' ∧ td' t' = td t) →
      (serInits V' td' inames (its.map fun kv => (kv.1, σ kv.2))).1 = (serInits V td inames its).1 ∧
      (serInits V' td' inames (its.map fun kv => (kv.1, σ kv.2))).2.1 = (serInits V td inames its).2.1 := by
  intro its
  induction its with
  | nil => intro _ _ _; exact ⟨rfl, rfl⟩
  | cons kv its ih =>
    obtain ⟨k, v⟩ := kv
    intro hU hne hc
    obtain ⟨i1, i2⟩ := ih (fun kv hkv => hU kv (by simp [hkv])) (fun kv hkv => hne kv (by simp [hkv]))
      (fun kv hkv => hc kv (by simp [hkv]))
    have hv := hU (k, v) (by simp)
    obtain ⟨t, h1⟩ : ∃ t, (V v).const = some t := by
      cases hcv : (V v).const with
      | none => exact absurd hcv (hne (k, v) (by simp))
      | some t => exact ⟨t, rfl⟩
    obtain ⟨t', h2, h3⟩ := hc (k, v) (by simp) t h1
    simp only [List.map_cons, serInits, h1, h2, i1, i2, h.shouldCreate hv, h.name v hv, h.info v hv, emit_emit, h3]
    simp

mutual
theorem img_serGraph {V V' : Nat → ValueS} {td td' : TData} {σ : Nat → Nat} {U : List Nat} (h : Img V V' σ U) :
    ∀ (g g' : GraphT) (od : List Nat) (p : GraphP) (ws : Writes), TreeIsoG V σ g g' → SerG V od g →
      (∀ v ∈ od, v ∈ U) → (∀ v ∈ allDefsG V g, v ∈ U) →
      (∀ kv ∈ allInitsG g, ∀ t, (V kv.2).const = some t → ∃ t', (V' (σ kv.2)).const = some t' ∧ td' t' = td t) →
      serGraph V td g = .ok (p, ws) → ∃ ws', serGraph V' td' g' = .ok (p, ws')
  | .mk _ ins inits nodes outs, .mk _ ins' inits' nodes' outs', od, p, ws, ht, hS, hod, hU, hc, hser => by
    simp only [TreeIsoG] at ht
    obtain ⟨rfl, rfl, htn, rfl⟩ := ht
    obtain ⟨nps, vis2, ws2, hn, rfl⟩ := serGraph_inv hser
    simp only [SerG] at hS
    obtain ⟨_, _, hins_t, hinits, _, _, houts, hSN⟩ := hS
    have hD : defsOf V (.mk 0 ins inits nodes outs) = ins ++ newInits ins inits ++ nodes.flatMap (liveOuts V) := rfl
    have hdefs : ∀ v, v ∈ ins ∨ v ∈ newInits ins inits ∨ v ∈ nodes.flatMap (liveOuts V) → v ∈ U := by
      intro v hv
      apply hU
      simp only [allDefsG, defsOf, List.mem_append]
      rcases hv with hv | hv | hv
      · exact .inl (.inl (.inl hv))
      · exact .inl (.inl (.inr hv))
      · exact .inl (.inr hv)
    have hinsU : ∀ v ∈ ins, v ∈ U := fun v hv => hdefs v (.inl hv)
    have hinitU : ∀ kv ∈ inits, kv.2 ∈ U := by
      intro kv hkv
      by_cases hi : kv.2 ∈ ins
      · exact hinsU _ hi
      · refine hdefs _ (.inr (.inl ?_))
        simp only [newInits, List.mem_filter, List.mem_map]
        exact ⟨⟨kv, hkv, rfl⟩, by simpa using hi⟩
    have houtU : ∀ v ∈ outs, v ∈ U := by
      intro v hv
      have := (houts v hv).1
      simp only [defsOf, List.mem_append] at this
      rcases this with (h1 | h1) | h1
      · exact hdefs v (.inl h1)
      · exact hdefs v (.inr (.inl h1))
      · exact hdefs v (.inr (.inr h1))
    have e1 := img_serValues h ins hinsU (fun v hv => ne_none_of_truthy (hins_t v hv))
    have e5 := img_serValues h outs houtU (fun v hv => ne_none_of_truthy (houts v hv).2)
    have hnames : (ins.map σ).map (fun v => (V' v).name) = ins.map (fun v => (V v).name) := by
      rw [List.map_map]
      exact List.map_congr_left (fun v hv => h.name v (hinsU v hv))
    obtain ⟨e2, e3⟩ := img_serInits (td := td) (td' := td') h (ins.map fun v => (V v).name) inits hinitU
      (fun kv hkv => (hinits kv hkv).2.2) (fun kv hkv => hc kv (by simp [allInitsG, hkv]))
    obtain ⟨ws2', e4⟩ := img_serNodes h nodes nodes' (defsOf V (.mk 0 ins inits nodes outs) ++ od) outs nps vis2 ws2 htn hSN
      (fun v hv => by
        simp only [List.mem_append] at hv
        rcases hv with hv | hv
        · simp only [defsOf, List.mem_append] at hv
          rcases hv with (h1 | h1) | h1
          · exact hdefs v (.inl h1)
          · exact hdefs v (.inr (.inl h1))
          · exact hdefs v (.inr (.inr h1))
        · exact hod v hv)
      houtU (fun v hv => hdefs v (.inr (.inr hv)))
      (fun v hv => hU v (by simp [allDefsG, hv]))
      (fun kv hkv => hc kv (by simp [allInitsG, hkv])) hn
    exact ⟨_, by simp only [serGraph, e1, hnames, e2, e3, e4, e5]; rfl⟩
theorem img_serNodes {V V' : Nat → ValueS} {td td' : TData} {σ : Nat → Nat} {U : List Nat} (h : Img V V' σ U) :
    ∀ (ns ns' : List NodeT) (vis gouts : List Nat) (nps : List NodeP) (vi : List VInfoP) (ws : Writes),
      TreeIsoNs V σ ns ns' → SerNs V vis gouts ns → (∀ v ∈ vis, v ∈ U) → (∀ v ∈ gouts, v ∈ U) →
      (∀ v ∈ ns.flatMap (liveOuts V), v ∈ U) → (∀ v ∈ allDefsNs V ns, v ∈ U) →
      (∀ kv ∈ allInitsNs ns, ∀ t, (V kv.2).const = some t → ∃ t', (V' (σ kv.2)).const = some t' ∧ td' t' = td t) →
      serNodes V td gouts ns = .ok (nps, vi, ws) →
      ∃ ws', serNodes V' td' (gouts.map σ) ns' = .ok (nps, vi, ws')
  | [], [], _, _, nps, vi, ws, _, _, _, _, _, _, _, hser => by
    simp only [serNodes, Except.ok.injEq, Prod.mk.injEq] at hser
    obtain ⟨rfl, rfl, _⟩ := hser
    exact ⟨[], rfl⟩
  | n :: ns, n' :: ns', vis, gouts, nps, vi, ws, ht, hS, hvis, hg, hL, hU, hc, hser => by
    simp only [TreeIsoNs] at ht
    simp only [SerNs] at hS
    simp only [serNodes] at hser
    split at hser
    · simp at hser
    · rename_i np vi1 ws1 h1
      split at hser
      · simp at hser
      · rename_i nps' vis' ws2 h2
        simp only [Except.ok.injEq, Prod.mk.injEq] at hser
        obtain ⟨rfl, rfl, _⟩ := hser
        obtain ⟨w1, e1⟩ := img_serNode h n n' vis gouts np vi1 ws1 ht.1 hS.1 hvis hg
          (fun v hv => hL v (by simp [hv]))
          (fun v hv => hU v (by simp [allDefsNs, hv])) (fun kv hkv => hc kv (by simp [allInitsNs, hkv])) h1
        obtain ⟨w2, e2⟩ := img_serNodes h ns ns' vis gouts nps' vis' ws2 ht.2 hS.2 hvis hg
          (fun v hv => hL v (by simp [hv]))
          (fun v hv => hU v (by simp [allDefsNs, hv])) (fun kv hkv => hc kv (by simp [allInitsNs, hkv])) h2
        exact ⟨_, by simp only [serNodes, e1, e2]; rfl⟩
  | [], _ :: _, _, _, _, _, _, ht, _, _, _, _, _, _, _ => by simp [TreeIsoNs] at ht
  | _ :: _, [], _, _, _, _, _, ht, _, _, _, _, _, _, _ => by simp [TreeIsoNs] at ht
theorem img_serNode {V V' : Nat → ValueS} {td td' : TData} {σ : Nat → Nat} {U : List Nat} (h : Img V V' σ U) :
    ∀ (n n' : NodeT) (vis gouts : List Nat) (np : NodeP) (vi : List VInfoP) (ws : Writes),
      TreeIsoN V σ n n' → SerN V vis gouts n → (∀ v ∈ vis, v ∈ U) → (∀ v ∈ gouts, v ∈ U) →
      (∀ v ∈ liveOuts V n, v ∈ U) → (∀ v ∈ allDefsN V n, v ∈ U) →
      (∀ kv ∈ allInitsN n, ∀ t, (V kv.2).const = some t → ∃ t', (V' (σ kv.2)).const = some t' ∧ td' t' = td t) →
      serNode V td gouts n = .ok (np, vi, ws) → ∃ ws', serNode V' td' (gouts.map σ) n' = .ok (np, vi, ws')
  | .mk _ _ ins outs subs, .mk _ _ ins' outs' subs', vis, gouts, np, vi, ws, ht, hS, hvis, hg, hL, hU, hc, hser => by
    simp only [TreeIsoN] at ht
    obtain ⟨rfl, rfl, hts⟩ := ht
    simp only [SerN] at hS
    obtain ⟨hins, houtn, hSG⟩ := hS
    obtain ⟨gps, ws', hs, rfl, rfl⟩ := serNode_inv hser
    simp only [liveOuts] at hL
    have e1 := img_serInputs h ins (fun v hv => ⟨hvis v (hins v hv).1, ne_none_of_truthy (hins v hv).2⟩)
    have e2 : stripTrailing V' ((stripTrailing V outs).map σ) = (stripTrailing V outs).map σ := by
      rw [img_stripTrailing h _ hL, stripTrailing_idem]
    have e3 := img_serOutNames h (stripTrailing V outs) hL (fun v hv => houtn v (stripTrailing_sub V outs v hv))
    obtain ⟨ws'', e4⟩ := img_serSubs h subs subs' vis gps ws' hts hSG hvis
      (fun v hv => hU v (by simpa [allDefsN] using hv)) (fun kv hkv => hc kv (by simpa [allInitsN] using hkv)) hs
    have e5 : outVInfo V' (gouts.map σ) ((stripTrailing V outs).map σ) = outVInfo V gouts outs := by
      rw [img_outVInfo h gouts hg _ hL, outVInfo_strip]
    exact ⟨_, by simp only [serNode, e1, e2, e3, e4, e5]; rfl⟩
theorem img_serSubs {V V' : Nat → ValueS} {td td' : TData} {σ : Nat → Nat} {U : List Nat} (h : Img V V' σ U) :
    ∀ (gs gs' : List GraphT) (vis : List Nat) (gps : List GraphP) (ws : Writes),
      TreeIsoGs V σ gs gs' → SerGs V vis gs → (∀ v ∈ vis, v ∈ U) → (∀ v ∈ allDefsGs V gs, v ∈ U) →
      (∀ kv ∈ allInitsGs gs, ∀ t, (V kv.2).const = some t → ∃ t', (V' (σ kv.2)).const = some t' ∧ td' t' = td t) →
      serSubs V td gs = .ok (gps, ws) → ∃ ws', serSubs V' td' gs' = .ok (gps, ws')
  | [], [], _, gps, ws, _, _, _, _, _, hser => by
    simp only [serSubs, Except.ok.injEq, Prod.mk.injEq] at hser
    obtain ⟨rfl, _⟩ := hser
    exact ⟨[], rfl⟩
  | g :: gs, g' :: gs', vis, gps, ws, ht, hS, hvis, hU, hc, hser => by
    simp only [TreeIsoGs] at ht
    simp only [SerGs] at hS
    obtain ⟨gp, ws1, gps', ws2, h1, h2, rfl⟩ := serSubs_inv hser
    obtain ⟨w1, e1⟩ := img_serGraph h g g' vis gp ws1 ht.1 hS.1 hvis
      (fun v hv => hU v (by simp [allDefsGs, hv])) (fun kv hkv => hc kv (by simp [allInitsGs, hkv])) h1
    obtain ⟨w2, e2⟩ := img_serSubs h gs gs' vis gps' ws2 ht.2 hS.2 hvis
      (fun v hv => hU v (by simp [allDefsGs, hv])) (fun kv hkv => hc kv (by simp [allInitsGs, hkv])) h2
    exact ⟨_, by simp only [serSubs, e1, e2]; rfl⟩
  | [], _ :: _, _, _, _, ht, _, _, _, _, _ => by simp [TreeIsoGs] at ht
  | _ :: _, [], _, _, _, ht, _, _, _, _, _ => by simp [TreeIsoGs] at ht
end

/-- the round trip of a serializable model, without the consistency part (`C03_roundtrip` adds it) -/
theorem roundtrip_core (w : World) (h : Serializable w) :
    ∃ (p : GraphP) (ws : Writes) (D : World) (σ : Nat → Nat),
      serGraph w.st.vals w.st.tdata w.root = .ok (p, ws) ∧ deserialize p = .ok D ∧ Iso w D σ := by
  obtain ⟨hnd, hS, hI⟩ := h
  obtain ⟨p, ws, hp⟩ := serGraph_ok w.st.vals w.st.tdata w.root [] hS
  obtain ⟨s', g', B, hd, hrs, _, hk, ht, _, _, hio, hco⟩ := rt_graph w.st.vals w.st.tdata w.root {} [] [] p ws hp
    (by simpa using hS) hI hnd (fun _ _ => by simp) (fun _ hv => by simp at hv) (fun _ ha => by simp at ha)
    ⟨by simp, fun _ he => by simp at he, by simp, fun _ he => by simp at he⟩ (fun _ _ => rfl)
  simp only [List.map_nil, List.nil_append] at hd hrs ht hio hco
  have hdes : deserialize p = .ok ⟨s', g'⟩ := by simp only [deserialize, hd]
  refine ⟨p, ws, ⟨s', g'⟩, sig B, hp, hdes, ?_⟩
  exact ⟨TreeRelG.iso _ B _ _ ht,
    fun a ha b hb he => hrs.sig_inj ((hk a).mpr ha) ((hk b).mpr hb) he,
    fun v hv => hrs.sig_name ((hk v).mpr hv), hio,
    fun kv hkv t htc => by
      obtain ⟨t', h1, _, h3, h4⟩ := hco kv hkv t htc
      exact ⟨t', h1, h3, h4⟩⟩

/-- serializing the round-tripped model gives the proto it was read from -/
theorem serialize_roundtrip_fixpoint (w : World) (h : Serializable w) :
    ∃ (w1 : World) (q : GraphP) (D : World) (w2 : World),
      serialize w = .ok (w1, q) ∧ deserialize q = .ok D ∧ serialize D = .ok (w2, q) := by
  obtain ⟨q, ws, D, σ, hq, hD, hiso⟩ := roundtrip_core w h
  have himg : Img w.st.vals D.st.vals σ (allDefsG w.st.vals w.root) := ⟨hiso.names, hiso.infos, hiso.inj⟩
  obtain ⟨ws', hq'⟩ := img_serGraph (td := w.st.tdata) (td' := D.st.tdata) himg w.root D.root [] q ws hiso.tree h.2.1
    (fun _ hv => by simp at hv) (fun _ hv => hv)
    (fun kv hkv t ht => by
      obtain ⟨t', h1, _, h3⟩ := hiso.consts kv hkv t ht
      exact ⟨t', h1, h3⟩) hq
  exact ⟨⟨w.st.writes ws, w.root⟩, q, D, ⟨D.st.writes ws', D.root⟩, by simp only [serialize, hq], hD,
    by simp only [serialize, hq']⟩

end IrVerif.Scope

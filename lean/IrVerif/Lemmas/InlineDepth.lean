/-
Lemmas/InlineDepth.lean — the call depth of a non-recursive function table is at most its number of functions
(a chain of calls of strictly decreasing exact depth consists of distinct functions), so the denotation of a model
at its canonical depth (`denoteF`) is the denotation at every larger depth.  Used by `C05_inline_canonical`.
-/
import IrVerif.Lemmas.InlineTop
namespace IrVerif.Inline
open IrVerif.Sem IrVerif.Passes

/-- an operator of exact call depth `d + 1` heads a chain of `d + 1` distinct functions -/
theorem lvl_chain (fs : List Func) : ∀ (d : Nat) (op : OpId), lvl fs (d + 1) op = true → lvl fs d op = false →
    ∃ l : List OpId, l.length = d + 1 ∧ l.Nodup ∧ ∀ x ∈ l, x ∈ fs.map (·.id) ∧ lvl fs (d + 1) x = true
  | 0, op, h1, h0 => by
    refine ⟨[op], rfl, by simp, fun x hx => ?_⟩
    simp only [List.mem_singleton] at hx
    subst hx
    refine ⟨?_, h1⟩
    simp only [lvl] at h0
    cases hf : findFunc fs x with
    | none => rw [hf] at h0; simp at h0
    | some f => exact List.mem_map.2 ⟨f, (findFunc_some hf).1, (findFunc_some hf).2⟩
  | d + 1, op, h1, h0 => by
    rw [lvl] at h1 h0
    cases hf : findFunc fs op with
    | none => rw [hf] at h0; simp at h0
    | some f =>
      rw [hf] at h1 h0
      simp only at h1 h0
      have hex : ∃ op' ∈ opsNodes f.nodes, lvl fs d op' = false := by
        apply Classical.byContradiction
        intro hne
        have : opsAllNodes (lvl fs d) f.nodes = true := by
          rw [opsAllNodes_iff]
          intro op' hop'
          cases hl : lvl fs d op' with
          | true => rfl
          | false => exact absurd ⟨op', hop', hl⟩ hne
        rw [this] at h0; cases h0
      obtain ⟨op', hop', hl'⟩ := hex
      have hl1 : lvl fs (d + 1) op' = true := (opsAllNodes_iff _ _).1 h1 op' hop'
      obtain ⟨l, hlen, hnd, hall⟩ := lvl_chain fs d op' hl1 hl'
      have hopl : lvl fs (d + 1) op = false := by
        rw [lvl, hf]; exact h0
      refine ⟨op :: l, by simp [hlen], List.nodup_cons.2 ⟨fun hmem => ?_, hnd⟩, fun x hx => ?_⟩
      · have := (hall op hmem).2
        rw [hopl] at this; cases this
      · rcases List.mem_cons.1 hx with hx | hx
        · subst hx
          refine ⟨List.mem_map.2 ⟨f, (findFunc_some hf).1, (findFunc_some hf).2⟩, ?_⟩
          rw [lvl, hf]; exact h1
        · exact ⟨(hall x hx).1, lvl_mono fs _ x (hall x hx).2⟩

/-- a finite call tree in a table of `n` functions has depth at most `n` -/
theorem lvl_le_length (fs : List Func) : ∀ (k : Nat) (op : OpId), lvl fs k op = true → lvl fs fs.length op = true
  | 0, op, h => lvl_mono_le fs (Nat.zero_le _) op h
  | k + 1, op, h => by
    cases hk : lvl fs k op with
    | true => exact lvl_le_length fs k op hk
    | false =>
      obtain ⟨l, hlen, hnd, hall⟩ := lvl_chain fs k op h hk
      have hle := List.Nodup.length_le_of_subset hnd (fun x hx => (hall x hx).1)
      rw [hlen, List.length_map] at hle
      exact lvl_mono_le fs hle op h

/-- `depthOK` at any depth gives `depthOK` at the canonical depth -/
theorem depthOK_canonical (fs : List Func) (k : Nat) (h : depthOK k fs = true) : depthOK fs.length fs = true := by
  simp only [depthOK, List.all_eq_true] at h ⊢
  exact fun f hf => lvl_le_length fs k f.id (h f hf)

end IrVerif.Inline

/-
Helper lemmas for C14 (call_onnx_api restore).  Core Lean only.
-/
import IrVerif.Model.PassInfra
namespace IrVerif.PassInfra

theorem sum_map_set {α : Type} (f : α → Nat) : ∀ (l : List α) (i : Nat) (x : α) (h : i < l.length),
    ((l.set i x).map f).sum + f l[i] = (l.map f).sum + f x
  | [], _, _, h => by simp at h
  | a :: l, 0, x, _ => by simp; omega
  | a :: l, i + 1, x, h => by
    have := sum_map_set f l i x (by simpa using h)
    simp only [List.set_cons_succ, List.map_cons, List.sum_cons, List.getElem_cons_succ]
    omega

theorem length_filter_lt {α : Type} (p : α → Bool) : ∀ (l : List α) (x : α), x ∈ l → p x = false →
    (l.filter p).length < l.length
  | a :: l, x, hx, hp => by
    have hle : (l.filter p).length ≤ l.length := List.length_filter_le p l
    rcases List.mem_cons.1 hx with rfl | hx
    · simp only [List.filter_cons, hp, Bool.false_eq_true, if_false, List.length_cons]; omega
    · have := length_filter_lt p l x hx hp
      simp only [List.filter_cons]
      split
      · simp only [List.length_cons]; omega
      · simp only [List.length_cons]; omega

theorem sum_map_filter_le {α : Type} (f : α → Nat) (p : α → Bool) : ∀ (l : List α),
    ((l.filter p).map f).sum ≤ (l.map f).sum
  | [] => by simp
  | a :: l => by
    have := sum_map_filter_le f p l
    simp only [List.filter_cons]
    split <;> simp only [List.map_cons, List.sum_cons] <;> omega

theorem sum_map_map_le {α : Type} (f : α → Nat) (g : α → α) (hle : ∀ x, f (g x) ≤ f x) :
    ∀ (l : List α), ((l.map g).map f).sum ≤ (l.map f).sum
  | [] => by simp
  | a :: l => by
    have := sum_map_map_le f g hle l
    have := hle a
    simp only [List.map_cons, List.sum_cons]; omega

theorem sum_map_map_lt {α : Type} (f : α → Nat) (g : α → α) (hle : ∀ x, f (g x) ≤ f x) :
    ∀ (l : List α) (x : α), x ∈ l → f (g x) < f x → ((l.map g).map f).sum < (l.map f).sum
  | a :: l, x, hx, hlt => by
    have h1 := sum_map_map_le f g hle l
    have h2 := hle a
    simp only [List.map_cons, List.sum_cons]
    rcases List.mem_cons.1 hx with rfl | hx
    · omega
    · have := sum_map_map_lt f g hle l x hx hlt
      omega

end IrVerif.PassInfra

namespace IrVerif.PassInfra.CApi

/-- Well-formed initializer mapping: keys are distinct and every key is the name of its value
    (`GraphInitializers.__setitem__` enforces both). -/
structure WF (g : G) : Prop where
  nodup : (g.inits.map (·.1)).Nodup
  named : ∀ p ∈ g.inits, (g.val p.2).name = p.1

/-- `g'` differs from `g` at most in the const/shape/type fields of the values in `ids`
    (and in `inits` / `inputs`). -/
def Frame (ids : List Nat) (g g' : G) : Prop :=
  ∀ j, (g'.val j).name = (g.val j).name ∧ (j ∉ ids → g'.val j = g.val j)

theorem Frame.refl (ids : List Nat) (g : G) : Frame ids g g := fun _ => ⟨rfl, fun _ => rfl⟩

/-- a primitive only touches values in `ids` -/
def Prim.within (ids : List Nat) : Prim → Prop
  | .setShape v _ => v ∈ ids
  | .setDtype v _ => v ∈ ids
  | .clearConst v => v ∈ ids
  | .appendInput _ => True
  | .popInit _ => True

theorem Frame.apply {ids : List Nat} {g g' : G} (h : Frame ids g g') (p : Prim)
    (hp : Prim.within ids p) : Frame ids g (p.apply g') := by
  intro j
  have hj := h j
  cases p <;> simp only [Prim.apply, setVal, Prim.within] at * <;>
    first
    | exact hj
    | (split
       · next e => subst e; exact ⟨hj.1, fun hn => absurd hp hn⟩
       · exact hj)

theorem Frame.doPrim {ids : List Nat} {g : G} {s : St} (f : Option Fault) (p : Prim)
    (h : Frame ids g s.g) (hp : Prim.within ids p) : Frame ids g (doPrim f p s).g := by
  unfold CApi.doPrim
  split
  · exact h
  · split
    · split
      · split
        · exact h.apply p hp
        · exact h
      · exact h.apply p hp
    · exact h.apply p hp

theorem Frame.stageShape {ids : List Nat} {g : G} {s : St} (f : Option Fault) (i : Nat)
    (hi : i ∈ ids) (h : Frame ids g s.g) : Frame ids g (stageShape f i s).g := by
  unfold CApi.stageShape
  repeat' split
  all_goals first | exact h | exact Frame.doPrim f _ h hi

theorem Frame.stageDtype {ids : List Nat} {g : G} {s : St} (f : Option Fault) (i : Nat)
    (hi : i ∈ ids) (h : Frame ids g s.g) : Frame ids g (stageDtype f i s).g := by
  unfold CApi.stageDtype
  repeat' split
  all_goals first | exact h | exact Frame.doPrim f _ h hi

theorem Frame.stageInput {ids : List Nat} {g : G} {s : St} (f : Option Fault) (i : Nat)
    (h : Frame ids g s.g) : Frame ids g (stageInput f i s).g := by
  unfold CApi.stageInput
  repeat' split
  all_goals first | exact h | exact Frame.doPrim f _ h trivial

theorem Frame.stagePop {ids : List Nat} {g : G} {s : St} (f : Option Fault) (i : Nat)
    (hi : i ∈ ids) (h : Frame ids g s.g) : Frame ids g (stagePop f i s).g := by
  unfold CApi.stagePop
  repeat' split
  all_goals
    first
    | exact h
    | exact Frame.doPrim f _ h trivial
    | exact Frame.doPrim f _ (Frame.doPrim f _ h hi) trivial

theorem Frame.stripOne {ids : List Nat} {g : G} {s : St} (f : Option Fault) (i : Nat)
    (hi : i ∈ ids) (h : Frame ids g s.g) : Frame ids g (stripOne f i s).g :=
  Frame.stagePop f i hi (Frame.stageInput f i (Frame.stageDtype f i hi (Frame.stageShape f i hi h)))

theorem Frame.strip {ids : List Nat} {g : G} (f : Option Fault) :
    ∀ (l : List Nat) (s : St), (∀ i ∈ l, i ∈ ids) → Frame ids g s.g → Frame ids g (strip f l s).g
  | [], _, _, h => h
  | i :: l, s, hl, h => by
    simp only [CApi.strip, List.foldl_cons]
    exact Frame.strip f l _ (fun j hj => hl j (List.mem_cons_of_mem _ hj))
      (Frame.stripOne f i (hl i List.mem_cons_self) h)

/-- value `j` with the three fields taken from `g0` -/
def withFields (g0 : G) (v : Val) (j : Nat) : Val :=
  { v with const := (g0.val j).const, shape := (g0.val j).shape, type := (g0.val j).type }

theorem foldl_stepV (g0 : G) : ∀ (l : List Nat) (g' : G),
    ((l.map (fieldsOf g0)).foldl stepV g').inits = g'.inits ∧
    ((l.map (fieldsOf g0)).foldl stepV g').inputs = g'.inputs ∧
    ∀ j, ((l.map (fieldsOf g0)).foldl stepV g').val j =
      if j ∈ l then withFields g0 (g'.val j) j else g'.val j
  | [], g' => by simp
  | i :: l, g' => by
    have ih := foldl_stepV g0 l (stepV g' (fieldsOf g0 i))
    simp only [List.map_cons, List.foldl_cons]
    refine ⟨ih.1, ih.2.1, fun j => ?_⟩
    rw [ih.2.2 j]
    by_cases hji : j = i
    · subst hji
      simp [stepV, fieldsOf, setVal, withFields]
    · by_cases hjl : j ∈ l <;> simp [stepV, fieldsOf, setVal, withFields, hji, hjl]

theorem foldl_stepK (g0 : G) : ∀ (l : List Nat) (g' : G),
    ((l.map (fieldsOf g0)).foldl stepK g').val = g'.val ∧
    ((l.map (fieldsOf g0)).foldl stepK g').inputs = g'.inputs ∧
    ((l.map (fieldsOf g0)).foldl stepK g').inits =
      l.foldl (fun acc i => setKey acc (g'.val i).name i) g'.inits
  | [], g' => by simp
  | i :: l, g' => by
    have ih := foldl_stepK g0 l (stepK g' (fieldsOf g0 i))
    simp only [List.map_cons, List.foldl_cons]
    refine ⟨ih.1, ih.2.1, ?_⟩
    rw [ih.2.2]
    simp [stepK, fieldsOf]

theorem setKey_fresh : ∀ (l : List (String × Nat)) (k : String) (i : Nat),
    k ∉ l.map (·.1) → setKey l k i = l ++ [(k, i)]
  | [], _, _, _ => rfl
  | (k', i') :: l, k, i, h => by
    have hne : k' ≠ k := fun e => h (by simp [e])
    have := setKey_fresh l k i (fun hm => h (by simp [hm]))
    simp [setKey, hne, this]

/-- re-adding the values in the original order rebuilds the original mapping -/
theorem foldl_setKey (val : Nat → Val) : ∀ (l acc : List (String × Nat)),
    (∀ p ∈ l, (val p.2).name = p.1) → ((acc ++ l).map (·.1)).Nodup →
    (l.map (·.2)).foldl (fun acc i => setKey acc (val i).name i) acc = acc ++ l
  | [], acc, _, _ => by simp
  | (k, i) :: l, acc, hn, hd => by
    have hk : (val i).name = k := hn (k, i) List.mem_cons_self
    have hfresh : k ∉ acc.map (·.1) := by
      intro hm
      rw [List.map_append, List.nodup_append] at hd
      exact hd.2.2 k hm k (by simp) rfl
    simp only [List.map_cons, List.foldl_cons, hk, setKey_fresh acc k i hfresh]
    have := foldl_setKey val l (acc ++ [(k, i)])
      (fun p hp => hn p (List.mem_cons_of_mem _ hp)) (by simpa using hd)
    simpa using this

theorem Val.eq_of_fields {v w : Val} (hn : v.name = w.name) :
    ({ v with const := w.const, shape := w.shape, type := w.type } : Val) = w := by
  cases v; cases w; simp_all

theorem G.ext' {a b : G} (h1 : a.val = b.val) (h2 : a.inits = b.inits) (h3 : a.inputs = b.inputs)
    (h4 : a.tname = b.tname) : a = b := by
  cases a; cases b; simp_all

theorem foldl_stepV_tname : ∀ (l : List (Nat × Option Tensor × Option Nat × Option Nat)) (g' : G),
    (l.foldl stepV g').tname = g'.tname
  | [], _ => rfl
  | p :: l, g' => by simp only [List.foldl_cons]; exact (foldl_stepV_tname l _).trans rfl

theorem foldl_stepK_tname : ∀ (l : List (Nat × Option Tensor × Option Nat × Option Nat)) (g' : G),
    (l.foldl stepK g').tname = g'.tname
  | [], _ => rfl
  | p :: l, g' => by simp only [List.foldl_cons]; exact (foldl_stepK_tname l _).trans rfl

/-- The `finally` block undoes everything the strip loop can have done, wherever it stopped;
    tensor names are not touched by it. -/
theorem restore_of_frame {g g' : G} (hwf : WF g) (hf : Frame (g.inits.map (·.2)) g g') :
    restore ((g.inits.map (·.2)).map (fieldsOf g)) g.inputs g' = { g with tname := g'.tname } := by
  have V := foldl_stepV g (g.inits.map (·.2)) g'
  have hval : (((g.inits.map (·.2)).map (fieldsOf g)).foldl stepV g').val = g.val := by
    funext j
    rw [V.2.2 j]
    split
    · exact Val.eq_of_fields (hf j).1
    · next hn => exact (hf j).2 hn
  have K := foldl_stepK g (g.inits.map (·.2))
    { ((g.inits.map (·.2)).map (fieldsOf g)).foldl stepV g' with inits := [] }
  have hinits := foldl_setKey g.val g.inits [] hwf.named (by simpa using hwf.nodup)
  apply G.ext'
  · exact K.1.trans hval
  · show (List.foldl stepK _ _).inits = g.inits
    rw [K.2.2]
    show List.foldl (fun acc i => setKey acc
      ((List.foldl stepV g' ((g.inits.map (·.2)).map (fieldsOf g))).val i).name i) [] _ = _
    rw [hval]
    simpa using hinits
  · rfl
  · show (List.foldl stepK _ _).tname = g'.tname
    rw [foldl_stepK_tname]
    exact foldl_stepV_tname _ g'

/-! ### what serialization can do to tensor names -/

/-- `g'` (somewhere in the strip loop) has the tensor names of `g`, only initializers of `g`, and
    only tensors that `g` has at the same value -/
structure Keep (g g' : G) : Prop where
  tname : g'.tname = g.tname
  inits : ∀ p ∈ g'.inits, p ∈ g.inits
  const : ∀ i t, (g'.val i).const = some t → (g.val i).const = some t

theorem Keep.refl (g : G) : Keep g g := ⟨rfl, fun _ h => h, fun _ _ h => h⟩

theorem Keep.apply {g g' : G} (h : Keep g g') (p : Prim) : Keep g (p.apply g') := by
  cases p with
  | setShape v s =>
    refine ⟨h.tname, h.inits, fun i t ht => h.const i t ?_⟩
    simp only [Prim.apply, setVal] at ht
    split at ht
    · next e => subst e; exact ht
    · exact ht
  | setDtype v d =>
    refine ⟨h.tname, h.inits, fun i t ht => h.const i t ?_⟩
    simp only [Prim.apply, setVal] at ht
    split at ht
    · next e => subst e; exact ht
    · exact ht
  | appendInput v => exact ⟨h.tname, h.inits, h.const⟩
  | clearConst v =>
    refine ⟨h.tname, h.inits, fun i t ht => ?_⟩
    simp only [Prim.apply, setVal] at ht
    split at ht
    · simp at ht
    · exact h.const i t ht
  | popInit k =>
    refine ⟨h.tname, fun p hp => h.inits p ?_, h.const⟩
    simp only [Prim.apply, popKey] at hp
    exact (List.mem_filter.1 hp).1

theorem Keep.doPrim {g : G} {s : St} (f : Option Fault) (p : Prim) (h : Keep g s.g) :
    Keep g (doPrim f p s).g := by
  unfold CApi.doPrim
  split
  · exact h
  · split
    · split
      · split
        · exact h.apply p
        · exact h
      · exact h.apply p
    · exact h.apply p

theorem Keep.stripOne {g : G} {s : St} (f : Option Fault) (i : Nat) (h : Keep g s.g) :
    Keep g (stripOne f i s).g := by
  have h1 : Keep g (stageShape f i s).g := by
    unfold CApi.stageShape; repeat' split
    all_goals first | exact h | exact Keep.doPrim f _ h
  have h2 : Keep g (stageDtype f i (stageShape f i s)).g := by
    unfold CApi.stageDtype; repeat' split
    all_goals first | exact h1 | exact Keep.doPrim f _ h1
  have h3 : Keep g (stageInput f i (stageDtype f i (stageShape f i s))).g := by
    unfold CApi.stageInput; repeat' split
    all_goals first | exact h2 | exact Keep.doPrim f _ h2
  unfold CApi.stripOne CApi.stagePop
  repeat' split
  all_goals first
    | exact h3
    | exact Keep.doPrim f _ h3
    | exact Keep.doPrim f _ (Keep.doPrim f _ h3)

theorem Keep.strip {g : G} (f : Option Fault) : ∀ (l : List Nat) (s : St),
    Keep g s.g → Keep g (strip f l s).g
  | [], _, h => h
  | i :: l, s, h => by
    simp only [CApi.strip, List.foldl_cons]
    exact Keep.strip f l _ (Keep.stripOne f i h)

/-- `renamePrefix` changes nothing but tensor names, and a name only to the name of an initializer
    value that carries that tensor -/
theorem renamePrefix_spec : ∀ (n : Nat) (l : List (String × Nat)) (g : G),
    (renamePrefix n l g).val = g.val ∧ (renamePrefix n l g).inits = g.inits ∧
    (renamePrefix n l g).inputs = g.inputs ∧
    ∀ j, (renamePrefix n l g).tname j = g.tname j ∨
      ∃ p ∈ l, ∃ t, (g.val p.2).const = some t ∧ t.id = j ∧
        (renamePrefix n l g).tname j = (g.val p.2).name
  | 0, l, g => by simp [renamePrefix]
  | n + 1, [], g => by simp [renamePrefix]
  | n + 1, (k, i) :: l, g => by
    simp only [renamePrefix]
    split
    · next hc =>
      have ih := renamePrefix_spec (n + 1) l g
      refine ⟨ih.1, ih.2.1, ih.2.2.1, fun j => ?_⟩
      rcases ih.2.2.2 j with h | ⟨p, hp, t, h1, h2, h3⟩
      · exact Or.inl h
      · exact Or.inr ⟨p, List.mem_cons_of_mem _ hp, t, h1, h2, h3⟩
    · next t hc =>
      have ih := renamePrefix_spec n l
        { g with tname := fun j => if j = t.id then (g.val i).name else g.tname j }
      refine ⟨ih.1, ih.2.1, ih.2.2.1, fun j => ?_⟩
      rcases ih.2.2.2 j with h | ⟨p, hp, t', h1, h2, h3⟩
      · by_cases hj : j = t.id
        · refine Or.inr ⟨(k, i), List.mem_cons_self, t, hc, hj.symm, ?_⟩
          rw [h]; simp [hj]
        · left; rw [h]; simp [hj]
      · exact Or.inr ⟨p, List.mem_cons_of_mem _ hp, t', h1, h2, h3⟩

/-! ### without an injected fault the strip loop does not raise -/

theorem doPrim_none_raised (p : Prim) (s : St) : (doPrim none p s).raised = s.raised := by
  unfold CApi.doPrim
  split
  · rfl
  · next h => simp at h; simp [h]

theorem stripOne_none_raised (i : Nat) (s : St) : (stripOne none i s).raised = s.raised := by
  have h1 : (stageShape none i s).raised = s.raised := by
    unfold CApi.stageShape; repeat' split
    all_goals first | rfl | exact doPrim_none_raised _ _
  have h2 : ∀ s, (stageDtype none i s).raised = s.raised := by
    intro s; unfold CApi.stageDtype; repeat' split
    all_goals first | rfl | exact doPrim_none_raised _ _
  have h3 : ∀ s, (stageInput none i s).raised = s.raised := by
    intro s; unfold CApi.stageInput; repeat' split
    all_goals first | rfl | exact doPrim_none_raised _ _
  have h4 : ∀ s, (stagePop none i s).raised = s.raised := by
    intro s; unfold CApi.stagePop; repeat' split
    all_goals first
      | rfl
      | exact doPrim_none_raised _ _
      | (rw [doPrim_none_raised, doPrim_none_raised])
  unfold CApi.stripOne
  rw [h4, h3, h2, h1]

theorem strip_none_raised : ∀ (l : List Nat) (s : St), (strip none l s).raised = s.raised
  | [], _ => rfl
  | i :: l, s => by
    simp only [CApi.strip, List.foldl_cons]
    exact (strip_none_raised l _).trans (stripOne_none_raised i s)

end IrVerif.PassInfra.CApi

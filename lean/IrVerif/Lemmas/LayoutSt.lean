/-
Helper lemmas for C07 (safetensors container): contiguity of the header entries, positional
read-back, the writer's order (insertion sort: permutation + sorted), re-pointing by name.
Core Lean only.
-/
import IrVerif.Model.LayoutSt
import IrVerif.Lemmas.Layout
import IrVerif.Lemmas.Pack
namespace IrVerif.Layout

/-! ## entries -/

theorem entriesFrom_length (cur : Nat) (vs : List StView) : (entriesFrom cur vs).length = vs.length := by
  induction vs generalizing cur with
  | nil => rfl
  | cons v vs ih => simp [entriesFrom, ih]

theorem entriesFrom_names (cur : Nat) (vs : List StView) :
    (entriesFrom cur vs).map (·.name) = vs.map (·.name) := by
  induction vs generalizing cur with
  | nil => rfl
  | cons v vs ih => simp [entriesFrom, ih]

theorem entriesFrom_lens (cur : Nat) (vs : List StView) :
    (entriesFrom cur vs).map (fun e => e.stop - e.start) = vs.map (·.bytes.length) := by
  induction vs generalizing cur with
  | nil => rfl
  | cons v vs ih => simp [entriesFrom, ih]

theorem entriesFrom_ge (cur : Nat) (vs : List StView) :
    ∀ e ∈ entriesFrom cur vs, cur ≤ e.start ∧ e.start ≤ e.stop := by
  induction vs generalizing cur with
  | nil => intro e he; simp [entriesFrom] at he
  | cons v vs ih =>
    intro e he
    simp only [entriesFrom, List.mem_cons] at he
    rcases he with rfl | he
    · simp
    · have := ih _ e he; omega

theorem stBuffer_cons (v : StView) (vs : List StView) : stBuffer (v :: vs) = v.bytes ++ stBuffer vs := by
  simp [stBuffer]

theorem entriesFrom_le_end (cur : Nat) (vs : List StView) :
    ∀ e ∈ entriesFrom cur vs, e.stop ≤ cur + (stBuffer vs).length := by
  induction vs generalizing cur with
  | nil => intro e he; simp [entriesFrom] at he
  | cons v vs ih =>
    intro e he
    simp only [entriesFrom, List.mem_cons] at he
    rw [stBuffer_cons, List.length_append]
    rcases he with rfl | he
    · simp <;> omega
    · have := ih _ e he; omega

theorem entriesFrom_disjoint (cur : Nat) (vs : List StView) :
    (entriesFrom cur vs).Pairwise (fun a b => a.stop ≤ b.start) := by
  induction vs generalizing cur with
  | nil => simp [entriesFrom]
  | cons v vs ih =>
    simp only [entriesFrom, List.pairwise_cons]
    exact ⟨fun b hb => (entriesFrom_ge _ _ b hb).1, ih _⟩

/-- adjacent view: every entry starts where the previous one stopped (`cur` for the first) -/
theorem entriesFrom_chain (cur : Nat) (vs : List StView) :
    ∀ p ∈ List.zip (cur :: (entriesFrom cur vs).map (·.stop)) (entriesFrom cur vs),
      p.2.start = p.1 := by
  induction vs generalizing cur with
  | nil => intro p hp; simp [entriesFrom] at hp
  | cons v vs ih =>
    intro p hp
    simp only [entriesFrom, List.map_cons, List.zip_cons_cons, List.mem_cons] at hp
    rcases hp with rfl | hp
    · rfl
    · exact ih _ p hp

theorem entriesFrom_last (cur : Nat) (vs : List StView) :
    ((entriesFrom cur vs).map (·.stop)).getLast?.getD cur = cur + (stBuffer vs).length := by
  induction vs generalizing cur with
  | nil => simp [entriesFrom, stBuffer]
  | cons v vs ih =>
    simp only [entriesFrom, List.map_cons, stBuffer_cons, List.length_append]
    have := ih (cur + v.bytes.length)
    cases hrest : (entriesFrom (cur + v.bytes.length) vs).map (·.stop) with
    | nil =>
      rw [hrest] at this
      simp at this
      simp; omega
    | cons x xs =>
      rw [hrest] at this
      rw [List.getLast?_cons_cons]
      cases hl : (x :: xs).getLast? with
      | none => simp at hl
      | some z => rw [hl] at this; simp at this ⊢; omega

/-- positional read-back: in a file `front ++ buffer` whose front part is `base + cur` bytes long,
    entry `i` (offsets relative to the buffer, shifted by `base`) reads the bytes of view `i` -/
theorem entriesFrom_readback (base cur : Nat) (vs : List StView) (front : List Nat)
    (hfront : front.length = base + cur) :
    ∀ p ∈ (entriesFrom cur vs).zip vs,
      readAt (front ++ stBuffer vs) (p.1.start + base) (p.1.stop - p.1.start) = p.2.bytes := by
  induction vs generalizing cur front with
  | nil => intro p hp; simp [entriesFrom] at hp
  | cons v vs ih =>
    intro p hp
    simp only [entriesFrom, List.zip_cons_cons, List.mem_cons] at hp
    rcases hp with rfl | hp
    · simp only [readAt, stBuffer_cons]
      have h1 : cur + base = front.length := by omega
      rw [h1, List.drop_left']
      · simp
      · rfl
    · have := ih (cur + v.bytes.length) (front ++ v.bytes) (by simp [hfront]; omega) p hp
      simpa [stBuffer_cons, List.append_assoc] using this

theorem stFileOf_length (hdr buf : List Nat) : (stFileOf hdr buf).length = 8 + hdr.length + buf.length := by
  simp [stFileOf, IrVerif.Pack.leBytes_length]; omega

/-! ## the writer's order -/

theorem bytesLe_total (a b : List Nat) : bytesLe a b = true ∨ bytesLe b a = true := by
  induction a generalizing b with
  | nil => left; cases b <;> rfl
  | cons x xs ih =>
    cases b with
    | nil => right; rfl
    | cons y ys =>
      simp only [bytesLe, Bool.or_eq_true, Bool.and_eq_true, decide_eq_true_eq]
      rcases Nat.lt_trichotomy x y with h | h | h
      · left; left; exact h
      · subst h
        rcases ih ys with h | h
        · left; right; exact ⟨rfl, h⟩
        · right; right; exact ⟨rfl, h⟩
      · right; left; exact h

theorem bytesLe_trans (a b c : List Nat) (h1 : bytesLe a b = true) (h2 : bytesLe b c = true) :
    bytesLe a c = true := by
  induction a generalizing b c with
  | nil => cases c <;> rfl
  | cons x xs ih =>
    cases b with
    | nil => simp [bytesLe] at h1
    | cons y ys =>
      cases c with
      | nil => simp [bytesLe] at h2
      | cons z zs =>
        simp only [bytesLe, Bool.or_eq_true, Bool.and_eq_true, decide_eq_true_eq] at h1 h2 ⊢
        rcases h1 with h1 | ⟨rfl, h1⟩
        · rcases h2 with h2 | ⟨rfl, _⟩
          · left; omega
          · left; exact h1
        · rcases h2 with h2 | ⟨rfl, h2⟩
          · left; exact h2
          · right; exact ⟨rfl, ih ys zs h1 h2⟩

theorem viewLe_total (a b : StView) : viewLe a b = true ∨ viewLe b a = true := by
  simp only [viewLe, Bool.or_eq_true, Bool.and_eq_true, decide_eq_true_eq]
  rcases Nat.lt_trichotomy a.sd.rank b.sd.rank with h | h | h
  · right; left; exact h
  · rcases bytesLe_total a.name b.name with hb | hb
    · left; right; exact ⟨h, hb⟩
    · right; right; exact ⟨h.symm, hb⟩
  · left; left; exact h

theorem viewLe_trans (a b c : StView) (h1 : viewLe a b = true) (h2 : viewLe b c = true) :
    viewLe a c = true := by
  simp only [viewLe, Bool.or_eq_true, Bool.and_eq_true, decide_eq_true_eq] at h1 h2 ⊢
  rcases h1 with h1 | ⟨e1, h1⟩
  · rcases h2 with h2 | ⟨e2, _⟩
    · left; omega
    · left; omega
  · rcases h2 with h2 | ⟨e2, h2⟩
    · left; omega
    · right; exact ⟨by omega, bytesLe_trans _ _ _ h1 h2⟩

theorem insertView_perm (v : StView) (l : List StView) : (insertView v l).Perm (v :: l) := by
  induction l with
  | nil => exact List.Perm.refl _
  | cons w ws ih =>
    simp only [insertView]
    split
    · exact List.Perm.refl _
    · exact (List.Perm.cons w ih).trans (List.Perm.swap v w ws)

theorem sortViews_perm (l : List StView) : (sortViews l).Perm l := by
  induction l with
  | nil => exact List.Perm.refl _
  | cons v vs ih =>
    simp only [sortViews]
    exact (insertView_perm v _).trans (List.Perm.cons v ih)

theorem insertView_sorted (v : StView) (l : List StView)
    (h : l.Pairwise (fun a b => viewLe a b = true)) :
    (insertView v l).Pairwise (fun a b => viewLe a b = true) := by
  induction l with
  | nil => simp [insertView]
  | cons w ws ih =>
    simp only [insertView]
    rw [List.pairwise_cons] at h
    split
    · rename_i hvw
      rw [List.pairwise_cons]
      refine ⟨?_, List.pairwise_cons.mpr h⟩
      intro b hb
      rcases List.mem_cons.mp hb with rfl | hb
      · exact hvw
      · exact viewLe_trans _ _ _ hvw (h.1 b hb)
    · rename_i hvw
      have hwv : viewLe w v = true := by
        rcases viewLe_total v w with h' | h'
        · exact absurd h' hvw
        · exact h'
      rw [List.pairwise_cons]
      refine ⟨?_, ih h.2⟩
      intro b hb
      have := (insertView_perm v ws).mem_iff.mp hb
      rcases List.mem_cons.mp this with rfl | hb
      · exact hwv
      · exact h.1 b hb

theorem sortViews_sorted (l : List StView) :
    (sortViews l).Pairwise (fun a b => viewLe a b = true) := by
  induction l with
  | nil => simp [sortViews]
  | cons v vs ih => exact insertView_sorted v _ ih

/-! ## re-pointing by name -/

theorem nodup_map_inj {α β : Type} (f : α → β) (l : List α) (hd : (l.map f).Nodup) :
    ∀ a ∈ l, ∀ b ∈ l, f a = f b → a = b := by
  induction l with
  | nil => intro a ha; simp at ha
  | cons x xs ih =>
    rw [List.map_cons, List.nodup_cons] at hd
    intro a ha b hb hab
    rcases List.mem_cons.mp ha with rfl | ha'
    · rcases List.mem_cons.mp hb with rfl | hb'
      · rfl
      · exact absurd (by rw [hab]; exact List.mem_map.mpr ⟨b, hb', rfl⟩) hd.1
    · rcases List.mem_cons.mp hb with rfl | hb'
      · exact absurd (by rw [← hab]; exact List.mem_map.mpr ⟨a, ha', rfl⟩) hd.1
      · exact ih hd.2 a ha' b hb' hab

theorem lastIdxOf_not_mem (xs : List (List Nat)) (x : List Nat) (h : x ∉ xs) : lastIdxOf xs x = none := by
  induction xs with
  | nil => rfl
  | cons y ys ih =>
    rw [List.mem_cons, not_or] at h
    simp only [lastIdxOf, ih h.2]
    rw [if_neg (fun e => h.1 e.symm)]

/-- in a duplicate-free list the last index of the element at `j` is `j` -/
theorem lastIdxOf_nodup (xs : List (List Nat)) (hd : xs.Nodup) (j : Nat) (hj : j < xs.length) :
    lastIdxOf xs xs[j] = some j := by
  induction xs generalizing j with
  | nil => simp at hj
  | cons y ys ih =>
    rw [List.nodup_cons] at hd
    cases j with
    | zero =>
      simp only [List.getElem_cons_zero, lastIdxOf, lastIdxOf_not_mem ys y hd.1]
      simp
    | succ k =>
      simp only [List.getElem_cons_succ, lastIdxOf]
      rw [ih hd.2 k (by simpa using hj)]

theorem lastIdxOf_some (xs : List (List Nat)) (x : List Nat) (j : Nat) (h : lastIdxOf xs x = some j) :
    ∃ hj : j < xs.length, xs[j] = x := by
  induction xs generalizing j with
  | nil => simp [lastIdxOf] at h
  | cons y ys ih =>
    simp only [lastIdxOf] at h
    cases hr : lastIdxOf ys x with
    | some k =>
      rw [hr] at h
      have : j = k + 1 := (Option.some.inj h).symm
      subst this
      obtain ⟨hk, hx⟩ := ih k hr
      exact ⟨by simp; omega, by simpa using hx⟩
    | none =>
      rw [hr] at h
      simp only at h
      split at h
      · rename_i hyx
        have : j = 0 := (Option.some.inj h).symm
        subst this
        exact ⟨by simp, by simpa using hyx⟩
      · cases h

/-- one step of `_replace_tensors` -/
def replaceStep (names : List (List Nat)) (st : List (Option Placement)) (a : List Nat × Placement) :
    List (Option Placement) :=
  match lastIdxOf names a.1 with
  | some j => st.set j (some a.2)
  | none => st

theorem stReplace_eq (names : List (List Nat)) (assigns : List (List Nat × Placement)) :
    stReplace names assigns = assigns.foldl (replaceStep names) (List.replicate names.length none) := rfl

theorem replaceStep_length (names) (st : List (Option Placement)) (a) :
    (replaceStep names st a).length = st.length := by
  unfold replaceStep; split <;> simp

theorem foldl_replace_untouched (names : List (List Nat)) (A : List (List Nat × Placement))
    (st : List (Option Placement)) (j : Nat) (h : ∀ a ∈ A, lastIdxOf names a.1 ≠ some j) :
    (A.foldl (replaceStep names) st)[j]? = st[j]? := by
  induction A generalizing st with
  | nil => rfl
  | cons a A ih =>
    rw [List.foldl_cons, ih _ (fun a' ha' => h a' (List.mem_cons_of_mem _ ha'))]
    have := h a (List.mem_cons_self ..)
    unfold replaceStep
    split
    · rename_i k hk
      have : k ≠ j := by intro e; subst e; exact this hk
      rw [List.getElem?_set_ne this]
    · rfl

theorem foldl_replace_get (names : List (List Nat)) (A : List (List Nat × Placement))
    (st : List (Option Placement)) (j : Nat) (hj : j < st.length) (v : Placement)
    (hex : ∃ c ∈ A, lastIdxOf names c.1 = some j)
    (hall : ∀ c ∈ A, lastIdxOf names c.1 = some j → c.2 = v) :
    (A.foldl (replaceStep names) st)[j]? = some (some v) := by
  induction A generalizing st with
  | nil => obtain ⟨c, hc, _⟩ := hex; simp at hc
  | cons c0 A ih =>
    rw [List.foldl_cons]
    by_cases hex2 : ∃ c ∈ A, lastIdxOf names c.1 = some j
    · exact ih _ (by rw [replaceStep_length]; exact hj) hex2
        (fun c hc hfc => hall c (List.mem_cons_of_mem _ hc) hfc)
    · have hnone : ∀ c ∈ A, lastIdxOf names c.1 ≠ some j :=
        fun c hc hfc => hex2 ⟨c, hc, hfc⟩
      rw [foldl_replace_untouched _ _ _ _ hnone]
      obtain ⟨c, hc, hfc⟩ := hex
      rcases List.mem_cons.mp hc with rfl | hc
      · have hv := hall c (List.mem_cons_self ..) hfc
        unfold replaceStep
        rw [hfc]
        simp [List.getElem?_set_self hj, hv]
      · exact absurd hfc (hnone c hc)

end IrVerif.Layout

/-
C12 ↔ C11: the re-linking step of `Graph.sort` (`graph.extend(reversed(sorted_nodes))`) on the
pointer-level container of C11 (`Model/LinkedSet.lean`: boxes with prev/next/value, root box,
id->box dict) produces exactly the list-level `relink` of `Model/Sort.lean`.
-/
import IrVerif.Props.C11
import IrVerif.Lemmas.SortPos

namespace IrVerif.Sort
open List
open IrVerif.LinkedSet (LSet toList)

theorem eraseIdx_idxOf_eq_erase (l : List Nat) (x : Nat) (h : x ∈ l) :
    l.eraseIdx (l.idxOf x) = l.erase x := by
  induction l with
  | nil => simp at h
  | cons a l ih =>
    by_cases hax : a = x
    · subst hax; simp
    · have hb : (a == x) = false := by simp [hax]
      have hx : x ∈ l := by
        rcases List.mem_cons.1 h with h1 | h1
        · exact absurd h1.symm hax
        · exact h1
      simp [List.idxOf_cons, hb, ih hx]

/-- on a duplicate-free sequence the abstract `append` of C11 (`Spec.append`: do nothing when the
    value is the last element, else unlink it if present and link it after the last box) is
    `appendMove` -/
theorem spec_append_L (st : LinkedSet.Spec.St) (hnd : st.L.Nodup) (x : Nat) :
    (LinkedSet.Spec.append st x).L = appendMove st.L x := by
  rw [appendMove_eq hnd]
  unfold LinkedSet.Spec.append LinkedSet.Spec.insertOneAfter
  by_cases hlast : st.L.getLast? = some x
  · -- already the last element
    simp only [hlast, if_true]
    obtain ⟨ys, hys⟩ := List.getLast?_eq_some_iff.1 hlast
    have hx : x ∉ ys := by
      intro hm
      rw [hys] at hnd
      exact (List.nodup_append.1 hnd).2.2 x hm x (by simp) rfl
    rw [hys, List.erase_append_right _ hx]; simp
  · simp only [hlast, if_false]
    -- the sequence after unlinking `x`
    have hst1 : (if x ∈ st.L then LinkedSet.Spec.removeIdx st (st.L.idxOf x) else st).L
        = st.L.erase x := by
      split
      · rename_i hm; simp [LinkedSet.Spec.removeIdx, eraseIdx_idxOf_eq_erase _ _ hm]
      · rename_i hm; simp [List.erase_of_not_mem hm]
    cases hl : st.L.getLast? with
    | none =>
      have : st.L = [] := List.getLast?_eq_none_iff.1 hl
      simp [LinkedSet.Spec.insertIdx, this]
    | some a =>
      have hax : a ≠ x := by intro h; apply hlast; rw [hl, h]
      obtain ⟨ys, hys⟩ := List.getLast?_eq_some_iff.1 hl
      have ha : a ∉ ys := by
        intro hm
        rw [hys] at hnd
        exact (List.nodup_append.1 hnd).2.2 a hm a (by simp) rfl
      have herase : st.L.erase x = ys.erase x ++ [a] := by
        rw [hys, List.erase_append]
        split
        · rfl
        · have : [a].erase x = [a] := by
            apply List.erase_of_not_mem; simp; exact fun h => hax h.symm
          rw [this, List.erase_of_not_mem (by assumption)]
      have ha' : a ∉ ys.erase x := fun hm => ha (List.mem_of_mem_erase hm)
      simp only [LinkedSet.Spec.insertIdx, hst1]
      rw [herase, List.idxOf_append, if_neg ha', List.idxOf_cons_self]
      have : 0 + (ys.erase x).length + 1 = (ys.erase x ++ [a]).length := by simp
      rw [this, List.insertIdx_length_self]

theorem spec_extend_L (st : LinkedSet.Spec.St) (hnd : st.L.Nodup) (xs : List Nat) :
    (LinkedSet.Spec.extend st xs).L = relink st.L xs := by
  induction xs generalizing st with
  | nil => simp [LinkedSet.Spec.extend, relink]
  | cons x xs ih =>
    have h1 := spec_append_L st hnd x
    have hnd' : (LinkedSet.Spec.append st x).L.Nodup := by
      rw [h1, appendMove_eq hnd]
      rw [List.nodup_append]
      refine ⟨hnd.erase x, by simp, ?_⟩
      intro a ha b hb
      simp at hb; subst hb
      exact ((hnd.mem_erase_iff).1 ha).1
    simp only [LinkedSet.Spec.extend, relink, List.foldl_cons]
    rw [ih _ hnd', h1]
    rfl

/-- the node sequence of a well-formed pointer structure has no duplicates -/
theorem linked_toList_nodup {s : LSet} (h : LinkedSet.WF s) : (toList s).Nodup := by
  obtain ⟨bs, hi⟩ := h
  rw [hi.toList_eq]
  rw [List.nodup_map_iff_inj_on hi.nodup]
  intro a ha b hb hab
  exact hi.val_inj ha hb (hi.val_eq_vl ha) (by rw [hab]; exact hi.val_eq_vl hb)

end IrVerif.Sort

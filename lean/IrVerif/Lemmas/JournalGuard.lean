import IrVerif.Lemmas.JournalFlat
/-!
Helper development for C20 round 5: the wrappers with the `journal._active` check everywhere (`dispatchG`,
`runBlockG`, `runFlatG`), the invariant "every wrapper installed in the class table belongs to an active
journal", and the equality of the checked and the unchecked semantics wherever that invariant holds.
Core Lean only.
-/
namespace IrVerif.Journal

variable {σ : Type}

/-- every wrapper installed in the class table (every layer of every slot) was made by a journal that is active -/
def TableActive (w : World σ) : Prop := ∀ k, ∀ j ∈ (w.table k).layers, (w.journals j).active = true

theorem record_active (j k t i : Nat) (w : World σ) :
    ((record j k t w).journals i).active = (w.journals i).active := by
  simp only [record, upd]
  split
  · next h => subst h; rfl
  · rfl

theorem tableActive_stable : Stable (TableActive (σ := σ)) where
  put := fun _ _ h => h
  emit := fun _ _ h => h
  record := fun w j k t h k' i hi => by rw [record_active]; exact h k' i hi

theorem TableActive.of_sameCtl {w w' : World σ} (h : SameCtl w w') (ht : TableActive w) : TableActive w' := by
  intro k j hj
  rw [h.table] at hj
  rw [h.active j]
  exact ht k j hj

theorem tableActive_pristine (w : World σ) (h : w.table = pristine) : TableActive w := by
  intro k j hj
  rw [h] at hj
  simp [pristine, Impl.layers] at hj

theorem tableActive_enterRaw (j : Nat) (w : World σ) (h : TableActive w) : TableActive (enterRaw j w) := by
  intro k i hi
  by_cases hij : i = j
  · subst hij; simp [enterRaw, upd]
  · rw [enterRaw_other j i w hij]
    have hi' : i ∈ (Impl.wrap j k (w.table k)).layers := hi
    simp only [Impl.layers, List.mem_cons] at hi'
    rcases hi' with h1 | h1
    · exact absurd h1 hij
    · exact h k i h1

/-! ### two dispatchers that agree on the worlds of an invariant -/

theorem runProg_congr {I : World σ → Prop} (hI : Stable I)
    {d d' : Nat → Obj → Val → World σ → World σ × Outcome}
    (hd : ∀ s o a w, I w → d' s o a w = d s o a w) (hdI : ∀ s o a w, I w → I (d s o a w).1) :
    ∀ (p : Prog σ) (w : World σ), I w → runProg d' p w = runProg d p w := by
  intro p
  induction p with
  | done o => intro w _; rfl
  | get k ih => intro w h; simp only [runProg]; exact ih _ w h
  | put s k ih => intro w h; simp only [runProg]; exact ih _ (hI.put w s h)
  | call slot self arg k ih =>
    intro w h
    simp only [runProg]
    rw [hd slot self arg w h]
    exact ih _ _ (hdI slot self arg w h)

theorem runOrig_congr {I : World σ → Prop} (hI : Stable I) (cfg : Cfg σ)
    {d d' : Nat → Obj → Val → World σ → World σ × Outcome}
    (hd : ∀ s o a w, I w → d' s o a w = d s o a w) (hdI : ∀ s o a w, I w → I (d s o a w).1) :
    ∀ k s a w, I w → runOrig cfg d' k s a w = runOrig cfg d k s a w := by
  intro k s a w h
  simp only [runOrig]
  rw [runProg_congr hI hd hdI _ _ (hI.emit _ _ h)]

/-- the checked wrapper chain is the unchecked one wherever its journals are active: generalises
    `runImplGuarded_eq_of_active` to two bodies that agree on the worlds of a stable invariant `I` which keeps
    the chain's journals active -/
theorem runImplGuarded_eq_inv {I : World σ → Prop} (hI : Stable I) (cfg : Cfg σ)
    {body bodyG : Nat → Obj → Val → World σ → World σ × Outcome}
    (hb : ∀ k s a w, I w → bodyG k s a w = body k s a w)
    (hbI : ∀ k s a w, I w → I (body k s a w).1) :
    ∀ (impl : Impl) (s : Obj) (a : Val) (w : World σ), I w →
      (∀ w', I w' → ∀ j ∈ impl.layers, (w'.journals j).active = true) →
      runImplGuarded cfg bodyG impl s a w = runImpl cfg body impl s a w := by
  intro impl
  induction impl with
  | orig k => intro s a w hw _; simp only [runImplGuarded, runImpl]; exact hb k s a w hw
  | wrap j k inner ih =>
    intro s a w hw hact
    have hj : (w.journals j).active = true := hact w hw j (by simp [Impl.layers])
    have hin : ∀ w', I w' → ∀ i ∈ inner.layers, (w'.journals i).active = true :=
      fun w' hw' i hi => hact w' hw' i (by simp [Impl.layers, hi])
    cases hk : kindOf k
    · -- init: the flag is read after the original returned
      simp only [runImplGuarded, runImpl, hk]
      rw [ih s a w hw hin]
      have hfr : I (runImpl cfg body inner s a w).1 := runImpl_stable hI cfg hbI inner s a w hw
      have : ((runImpl cfg body inner s a w).1.journals j).active = true :=
        hact _ hfr j (by simp [Impl.layers])
      simp [this]
    all_goals
      simp only [runImplGuarded, runImpl, hk, hj]
      simp only [Bool.not_true, Bool.false_eq_true, if_false]
      split
      · rfl
      · next s' _ => rw [ih s a { w with ir := s' } (hI.put w s' hw) hin]

/-- **the link**: in a world where every installed wrapper belongs to an active journal, looking an operation up
    on the class and calling it does exactly the same with the checked wrappers as with the unchecked ones -
    the call itself and, recursively, every nested instrumented call -/
theorem dispatchG_eq (cfg : Cfg σ) : ∀ (f slot : Nat) (s : Obj) (a : Val) (w : World σ), TableActive w →
    dispatchG cfg f slot s a w = dispatch cfg f slot s a w := by
  intro f
  induction f with
  | zero => intro slot s a w _; rfl
  | succ f ih =>
    intro slot s a w ht
    simp only [dispatchG, dispatch]
    refine runImplGuarded_eq_inv (sameCtl_stable w) cfg ?_ ?_ (w.table slot) s a w (SameCtl.refl w) ?_
    · intro k s' a' w' h'
      exact runOrig_congr tableActive_stable cfg ih
        (fun s o a w h => dispatch_stable tableActive_stable cfg f s o a w h) k s' a' w'
        (TableActive.of_sameCtl h' ht)
    · intro k s' a' w' h'
      exact runOrig_stable (sameCtl_stable w) cfg
        (fun s o a w'' h => dispatch_stable (sameCtl_stable w) cfg f s o a w'' h) k s' a' w' h'
    · intro w' h' j hj
      rw [h'.active j]
      exact ht slot j hj

theorem runProgG_eq (cfg : Cfg σ) (f : Nat) (p : Prog σ) (w : World σ) (ht : TableActive w) :
    runProg (dispatchG cfg f) p w = runProg (dispatch cfg f) p w :=
  runProg_congr tableActive_stable (dispatchG_eq cfg f)
    (fun s o a w h => dispatch_stable tableActive_stable cfg f s o a w h) p w ht

/-- a kept callable: with the table's wrappers all active, the nested lookups of the checked code are those of
    `callCapturedGuarded` (which the round-4 theorems are about) -/
theorem callCapturedG_eq (cfg : Cfg σ) (f : Nat) (c : Captured) (arg : Val) (w : World σ) (ht : TableActive w) :
    callCapturedG cfg f c arg w = callCapturedGuarded cfg f c arg w := by
  cases f with
  | zero => rfl
  | succ f =>
    simp only [callCapturedG, callCapturedGuarded]
    have hb : ∀ k s a w', SameCtl w w' →
        runOrig cfg (dispatchG cfg f) k s a w' = runOrig cfg (dispatch cfg f) k s a w' := by
      intro k s a w' h'
      exact runOrig_congr tableActive_stable cfg (dispatchG_eq cfg f)
        (fun s o a w h => dispatch_stable tableActive_stable cfg f s o a w h) k s a w'
        (TableActive.of_sameCtl h' ht)
    have hbI : ∀ k s a w', SameCtl w w' → SameCtl w (runOrig cfg (dispatch cfg f) k s a w').1 := by
      intro k s a w' h'
      exact runOrig_stable (sameCtl_stable w) cfg
        (fun s o a w'' h => dispatch_stable (sameCtl_stable w) cfg f s o a w'' h) k s a w' h'
    -- induction over the chain: both sides run the same checked wrappers, over bodies that agree
    have key : ∀ (impl : Impl) (s : Obj) (a : Val) (w' : World σ), SameCtl w w' →
        runImplGuarded cfg (runOrig cfg (dispatchG cfg f)) impl s a w' =
          runImplGuarded cfg (runOrig cfg (dispatch cfg f)) impl s a w' ∧
        SameCtl w (runImplGuarded cfg (runOrig cfg (dispatch cfg f)) impl s a w').1 := by
      intro impl
      induction impl with
      | orig k =>
        intro s a w' h'
        simp only [runImplGuarded]
        exact ⟨hb k s a w' h', hbI k s a w' h'⟩
      | wrap j k inner ih =>
        intro s a w' h'
        cases hk : kindOf k
        · simp only [runImplGuarded, hk]
          obtain ⟨e1, f1⟩ := ih s a w' h'
          rw [e1]
          refine ⟨rfl, ?_⟩
          split
          · split
            · exact f1
            · split
              · exact (sameCtl_stable w).record _ _ _ _ ((sameCtl_stable w).put _ _ f1)
              · exact f1
          · exact f1
        all_goals
          simp only [runImplGuarded, hk]
          split
          · obtain ⟨e1, f1⟩ := ih s a w' h'
            rw [e1]
            exact ⟨rfl, f1⟩
          · split
            · exact ⟨rfl, h'⟩
            · next s' _ =>
              obtain ⟨e1, f1⟩ := ih s a { w' with ir := s' } ((sameCtl_stable w).put _ _ h')
              rw [e1]
              refine ⟨rfl, ?_⟩
              split
              · exact (sameCtl_stable w).record _ _ _ _ f1
              · exact f1
    exact (key c.impl c.self arg w (SameCtl.refl w)).1

/-! ### blocks -/

theorem tableActive_block (cfg : Cfg σ) (fuel : Nat) (b : Block σ) (w : World σ) (h : TableActive w) :
    TableActive (runBlock cfg fuel b w).1 := by
  intro k j hj
  rw [(block_restore cfg fuel b w).1] at hj
  rw [block_active_restore cfg fuel b w j]
  exact h k j hj

/-- any block of user code, from a world whose installed wrappers all belong to active journals: the code with
    the `_active` check does exactly what the code without it does -/
theorem runBlockG_eq (cfg : Cfg σ) (fuel : Nat) : ∀ (b : Block σ) (w : World σ), TableActive w →
    runBlockG cfg fuel b w = runBlock cfg fuel b w := by
  intro b
  induction b with
  | skip => intro w _; rfl
  | op p => intro w h; simp only [runBlockG, runBlock]; rw [runProgG_eq cfg fuel p w h]
  | seq a b iha ihb =>
    intro w h
    simp only [runBlockG, runBlock]
    rw [iha w h]
    split
    · exact ihb _ (tableActive_block cfg fuel a w h)
    · rfl
  | withJ j body ih =>
    intro w h
    simp only [runBlockG, runBlock]
    cases hj : (w.journals j).active with
    | true => simp [enter, hj]
    | false =>
      simp only [enter, hj, Bool.false_eq_true, if_false]
      rw [ih (enterRaw j w) (tableActive_enterRaw j w h)]
  | attempt body ih =>
    intro w h
    simp only [runBlockG, runBlock]
    rw [ih w h]

/-! ### flat words: the invariant over the stack of open journals -/

/-- every layer of every slot of `t` belongs to a journal of `S` or to one that was active at the start (`A`) -/
def Lay (S : List Nat) (A : Nat → Bool) (t : Table) : Prop :=
  ∀ k, ∀ i ∈ (t k).layers, i ∈ S ∨ A i = true

/-- the class table and what the open journals (innermost first) will put back: the table installed now carries
    wrappers of open journals (or of journals active since the start) only; the innermost open journal will put
    back a table with wrappers of the journals BELOW it only; and so on -/
def StkL (js : Nat → JState) (A : Nat → Bool) : List Nat → Table → Prop
  | [], tb => Lay [] A tb
  | j :: st, tb => Lay (j :: st) A tb ∧ ∃ t, (js j).captured = some t ∧ StkL js A st t

theorem StkL.lay {js : Nat → JState} {A : Nat → Bool} : ∀ {st : List Nat} {tb : Table},
    StkL js A st tb → Lay st A tb
  | [], _, h => h
  | _ :: _, _, h => h.1

theorem StkL_congr (js js' : Nat → JState) (A : Nat → Bool) : ∀ (st : List Nat) (tb : Table),
    (∀ i ∈ st, (js' i).captured = (js i).captured) → StkL js A st tb → StkL js' A st tb := by
  intro st
  induction st with
  | nil => intro tb _ h; exact h
  | cons j st ih =>
    intro tb hc h
    obtain ⟨h1, t, h2, h3⟩ := h
    refine ⟨h1, t, by rw [hc j (List.mem_cons_self ..)]; exact h2, ?_⟩
    exact ih t (fun i hi => hc i (List.mem_cons_of_mem _ hi)) h3

theorem tableActive_of_stk {w : World σ} {A : Nat → Bool} {st : List Nat}
    (hs : StkL w.journals A st w.table)
    (hst : ∀ i ∈ st, (w.journals i).active = true ∧ A i = false)
    (hact : ∀ i, i ∉ st → (w.journals i).active = A i) : TableActive w := by
  intro k i hi
  rcases hs.lay k i hi with h | h
  · exact (hst i h).1
  · by_cases hm : i ∈ st
    · exact (hst i hm).1
    · rw [hact i hm]; exact h

/-- along a properly nested flat word (from stack `st`), at EVERY prefix: the checked code has done exactly what
    the unchecked code does, and every installed wrapper belongs to an active journal -/
theorem flat_guard_inv (cfg : Cfg σ) (fuel : Nat) : ∀ (u : List (FEv σ)) (st : List Nat) (w : World σ)
    (A : Nat → Bool),
    wbAux st u = true → st.Nodup → StkL w.journals A st w.table →
    (∀ i ∈ st, (w.journals i).active = true ∧ A i = false) →
    (∀ i, i ∉ st → (w.journals i).active = A i) →
    (∀ j ∈ flatEnters u, A j = false) →
    ∀ u1 u2, u = u1 ++ u2 →
      runFlatG cfg fuel u1 w = runFlat cfg fuel u1 w ∧ TableActive (runFlat cfg fuel u1 w) := by
  intro u
  induction u with
  | nil =>
    intro st w A _ _ hs hst hact _ u1 u2 hu
    have : u1 = [] := by
      cases u1 with
      | nil => rfl
      | cons a l => simp at hu
    subst this
    exact ⟨rfl, tableActive_of_stk hs hst hact⟩
  | cons e r ih =>
    intro st w A hwb hnd hs hst hact hent u1 u2 hu
    cases u1 with
    | nil => exact ⟨rfl, tableActive_of_stk hs hst hact⟩
    | cons e' u1' =>
      simp only [List.cons_append, List.cons.injEq] at hu
      obtain ⟨he, hr⟩ := hu
      subst he
      cases e with
      | enter j =>
        simp only [wbAux, Bool.and_eq_true, Bool.not_eq_true', List.contains_eq_mem,
          decide_eq_false_iff_not] at hwb
        obtain ⟨hjst, hwb'⟩ := hwb
        have hAj : A j = false := hent j (by simp [flatEnters])
        have hjact : (w.journals j).active = false := by rw [hact j hjst]; exact hAj
        have hen : enter j w = some (enterRaw j w) := by simp [enter, hjact]
        simp only [runFlatG, runFlat, hen, Option.getD_some]
        refine ih (j :: st) (enterRaw j w) A hwb' (List.nodup_cons.mpr ⟨hjst, hnd⟩) ?_ ?_ ?_ ?_ u1' u2 hr
        · refine ⟨?_, w.table, by simp [enterRaw, upd], ?_⟩
          · intro k i hi
            have hi' : i ∈ (Impl.wrap j k (w.table k)).layers := hi
            simp only [Impl.layers, List.mem_cons] at hi'
            rcases hi' with h1 | h1
            · left; rw [h1]; exact List.mem_cons_self ..
            · rcases hs.lay k i h1 with h2 | h2
              · left; exact List.mem_cons_of_mem _ h2
              · right; exact h2
          · refine StkL_congr w.journals _ A st _ ?_ hs
            intro i hi
            have hij : i ≠ j := fun e => hjst (e ▸ hi)
            rw [enterRaw_other j i w hij]
        · intro i hi
          rcases List.mem_cons.mp hi with h | h
          · subst h; exact ⟨by simp [enterRaw, upd], hAj⟩
          · have hij : i ≠ j := fun e => hjst (e ▸ h)
            rw [enterRaw_other j i w hij]
            exact hst i h
        · intro i hi
          have hij : i ≠ j := fun e => hi (e ▸ List.mem_cons_self ..)
          rw [enterRaw_other j i w hij]
          exact hact i (fun h => hi (List.mem_cons_of_mem _ h))
        · intro i hi
          exact hent i (by simp [flatEnters, hi])
      | exit j x =>
        cases st with
        | nil => simp [wbAux] at hwb
        | cons t st' =>
          simp only [wbAux, Bool.and_eq_true, beq_iff_eq] at hwb
          obtain ⟨htj, hwb'⟩ := hwb
          subst htj
          obtain ⟨_, tb, hcap, hs'⟩ := hs
          obtain ⟨htst, hnd'⟩ := List.nodup_cons.mp hnd
          simp only [runFlatG, runFlat]
          refine ih st' (exit t w) A hwb' hnd' ?_ ?_ ?_ ?_ u1' u2 hr
          · have ht : (exit t w).table = tb := by simp [exit, hcap]
            rw [ht]
            refine StkL_congr w.journals _ A st' _ ?_ hs'
            intro i _
            exact exit_captured t i w
          · intro i hi
            have hij : i ≠ t := fun e => htst (e ▸ hi)
            rw [exit_other t i w hij]
            exact hst i (List.mem_cons_of_mem _ hi)
          · intro i hi
            by_cases hij : i = t
            · subst hij
              have : ((exit i w).journals i).active = false := by simp [exit, hcap, upd]
              rw [this]
              exact (hst i (List.mem_cons_self ..)).2.symm
            · rw [exit_other t i w hij]
              exact hact i (fun h => by
                rcases List.mem_cons.mp h with h | h
                · exact hij h
                · exact hi h)
          · intro i hi
            exact hent i (by simp [flatEnters, hi])
      | op p =>
        simp only [wbAux] at hwb
        have hta : TableActive w := tableActive_of_stk hs hst hact
        simp only [runFlatG, runFlat]
        rw [runProgG_eq cfg fuel p w hta]
        obtain ⟨ht, _, hj⟩ := op_frame cfg fuel p w
        refine ih st _ A hwb hnd ?_ ?_ ?_ ?_ u1' u2 hr
        · rw [ht]
          exact StkL_congr w.journals _ A st _ (fun i _ => (hj i).1) hs
        · intro i hi
          rw [(hj i).2.2]
          exact hst i hi
        · intro i hi
          rw [(hj i).2.2]
          exact hact i hi
        · intro i hi
          exact hent i (by simp [flatEnters, hi])

end IrVerif.Journal

/-
Helper development for C13_faithful_serialize: an executable model of what the serializer emits for
a graph (`serGraph`), and the proof that `GraphSim`-related graphs serialize to the same thing.
-/
import IrVerif.Lemmas.CloneSim
namespace IrVerif.Clone

/-! ### related lists serialize alike -/

theorem optMapM_all2 {α β γ : Type} {R : α → β → Prop} {f : α → Option γ} {f' : β → Option γ}
    (h : ∀ a b x, R a b → f a = some x → f' b = some x) :
    ∀ {l : List α} {l' : List β} {xs : List γ}, All2 R l l' → optMapM f l = some xs →
      optMapM f' l' = some xs
  | _, _, _, .nil, hx => hx
  | a :: as, b :: bs, xs, .cons r rs, hx => by
    unfold optMapM at hx ⊢
    cases hfa : f a with
    | none => rw [hfa] at hx; cases hx
    | some y =>
      cases hrest : optMapM f as with
      | none => rw [hfa, hrest] at hx; cases hx
      | some ys =>
        rw [hfa, hrest] at hx
        rw [h a b y r hfa, optMapM_all2 h rs hrest]
        exact hx

theorem vinfo_sim {w : World} {v v' : Nat} {i : VInfo} (h : ValSim w v v') (hv : vinfo w v = some i) :
    vinfo w v' = some i := by
  obtain ⟨j, a, b⟩ := h
  rw [a] at hv
  cases hv
  exact b

theorem cVal_of_vinfo {w : World} {v : Nat} {i : VInfo} (h : vinfo w v = some i) :
    ∃ x, cVal w v = some x ∧ x.name = i.name := by
  unfold vinfo at h
  cases hv : cVal w v with
  | none => rw [hv] at h; cases h
  | some vs =>
    rw [hv] at h
    simp only at h
    split at h
    · cases h; exact ⟨vs, rfl, rfl⟩
    · cases h

theorem serRef_sim {w : World} {r r' : Option Nat} {x : Option (Option String)} (h : RefSim w r r')
    (hx : serRef w r = some x) : serRef w r' = some x := by
  rcases h with h | ⟨v, v', rfl, rfl, hs⟩
  · rw [h]; exact hx
  · obtain ⟨i, a, b⟩ := hs
    obtain ⟨y, hy, hn⟩ := cVal_of_vinfo a
    obtain ⟨y', hy', hn'⟩ := cVal_of_vinfo b
    simp only [serRef, hy, Option.map_some] at hx
    simp only [serRef, hy', Option.map_some]
    rw [← hx, hn, hn']

theorem serDev_sim {w : World} {d d' : List DevCfg} {x : List (Nat × List (Nat × Option (Option String)))}
    (h : DevSim w d d') (hx : serDev w d = some x) : serDev w d' = some x := by
  unfold serDev at *
  refine optMapM_all2 ?_ h hx
  intro c c' y ⟨hc, hs⟩ hy
  cases hsp : optMapM (fun sp => (serRef w sp.value).map fun r => (sp.payload, r)) c.specs with
  | none => rw [hsp] at hy; cases hy
  | some specs =>
    rw [hsp] at hy
    have : optMapM (fun sp => (serRef w sp.value).map fun r => (sp.payload, r)) c'.specs = some specs := by
      refine optMapM_all2 ?_ hs hsp
      intro sp sp' z ⟨hp, hr⟩ hz
      cases hsr : serRef w sp.value with
      | none => rw [hsr] at hz; cases hz
      | some q =>
        rw [hsr] at hz
        rw [serRef_sim hr hsr, hp]
        exact hz
    rw [this, hc]
    exact hy

/-! ### Python dict construction from entries with pairwise different keys keeps them all -/

theorem dictSet_append_new {β : Type} (d : List (String × β)) (k : String) (v : β)
    (h : d.any (fun e => e.1 == k) = false) : dictSet d k v = d ++ [(k, v)] := by
  unfold dictSet
  rw [h]
  rfl

theorem any_key_append {β : Type} (d : List (String × β)) (k k' : String) (v : β) :
    (d ++ [(k', v)]).any (fun e => e.1 == k) = (d.any (fun e => e.1 == k) || (k' == k)) := by
  simp [List.any_append]

theorem foldl_dictSet_distinct {β : Type} : ∀ (xs acc : List (String × β)),
    distinct (xs.map (·.1)) = true →
    (∀ x ∈ xs, acc.any (fun e => e.1 == x.1) = false) →
    xs.foldl (fun d e => dictSet d e.1 e.2) acc = acc ++ xs
  | [], acc, _, _ => by simp
  | x :: xs, acc, hd, hacc => by
    simp only [List.map_cons, distinct, Bool.and_eq_true, Bool.not_eq_true'] at hd
    simp only [List.foldl_cons]
    rw [dictSet_append_new acc x.1 x.2 (hacc x List.mem_cons_self)]
    rw [foldl_dictSet_distinct xs _ hd.2]
    · simp
    · intro y hy
      rw [any_key_append, hacc y (List.mem_cons_of_mem _ hy)]
      simp only [Bool.false_or]
      have hne : (xs.map (·.1)).contains x.1 = false := hd.1
      have : y.1 ∈ xs.map (·.1) := List.mem_map_of_mem hy
      cases hxy : (x.1 == y.1) with
      | false => rfl
      | true =>
        have heq : x.1 = y.1 := by simpa using hxy
        rw [heq] at hne
        have : (xs.map (·.1)).contains y.1 = true := by simpa using this
        rw [this] at hne; cases hne

theorem dictOf_distinct {β : Type} (xs : List (String × β)) (h : distinct (xs.map (·.1)) = true) :
    dictOf xs = xs := by
  unfold dictOf
  rw [foldl_dictSet_distinct xs [] h (by simp)]
  simp

/-! ### attributes, nodes, graphs -/

theorem graphs_ser_sim {w : World} {rec : Nat → Option SGraph}
    (hrec : ∀ g g' x, GraphSim w g g' → rec g = some x → rec g' = some x) :
    ∀ {l l' : List Nat} {xs : List SGraph}, GraphsSim w l l' → optMapM rec l = some xs →
      optMapM rec l' = some xs
  | _, _, _, .nil, hx => hx
  | a :: as, b :: bs, xs, .cons r rs, hx => by
    unfold optMapM at hx ⊢
    cases hfa : rec a with
    | none => rw [hfa] at hx; cases hx
    | some y =>
      cases hrest : optMapM rec as with
      | none => rw [hfa, hrest] at hx; cases hx
      | some ys =>
        rw [hfa, hrest] at hx
        rw [hrec a b y r hfa, graphs_ser_sim hrec rs hrest]
        exact hx

def EntryOk (w : World) (ka : String × Nat) : Prop := ∃ as, cAttr w ka.2 = some as ∧ as.name = ka.1

theorem attr_ser_sim {w : World} {rec : Nat → Option SGraph}
    (hrec : ∀ g g' x, GraphSim w g g' → rec g = some x → rec g' = some x)
    {x y : String × Nat} (h : AttrSim w x y) (hok : EntryOk w x) :
    y.1 = x.1 ∧ EntryOk w y ∧ ∀ z, serAttr rec w x.2 = some z → serAttr rec w y.2 = some z := by
  cases h with
  | shared k a as h1 h2 =>
    obtain ⟨as', ha', hn⟩ := hok
    simp only at ha' hn
    rw [h1] at ha'
    cases ha'
    exact ⟨hn, ⟨as, h1, rfl⟩, fun z hz => hz⟩
  | graph k a a' as g g' h1 h2 h3 h4 =>
    obtain ⟨as', ha', hn⟩ := hok
    simp only at ha' hn
    rw [h1] at ha'
    cases ha'
    refine ⟨rfl, ⟨_, h3, rfl⟩, ?_⟩
    intro z hz
    simp only [serAttr, h1, h2] at hz
    simp only [serAttr, h3]
    cases hg : rec g with
    | none => rw [hg] at hz; cases hz
    | some q =>
      rw [hg] at hz
      rw [hrec g g' q h4 hg, ← hn]
      exact hz
  | graphs k a a' as gs gs' h1 h2 h3 h4 =>
    obtain ⟨as', ha', hn⟩ := hok
    simp only at ha' hn
    rw [h1] at ha'
    cases ha'
    refine ⟨rfl, ⟨_, h3, rfl⟩, ?_⟩
    intro z hz
    simp only [serAttr, h1, h2] at hz
    simp only [serAttr, h3]
    cases hg : optMapM rec gs with
    | none => rw [hg] at hz; cases hz
    | some q =>
      rw [hg] at hz
      rw [graphs_ser_sim hrec h4 hg, ← hn]
      exact hz

theorem attrs_ser_sim {w : World} {rec : Nat → Option SGraph}
    (hrec : ∀ g g' x, GraphSim w g g' → rec g = some x → rec g' = some x) :
    ∀ {l l' : List (String × Nat)}, AttrsSim w l l' → (∀ ka ∈ l, EntryOk w ka) →
      l'.map (·.1) = l.map (·.1) ∧ (∀ ka ∈ l', EntryOk w ka) ∧
      ∀ xs, optMapM (fun ka => serAttr rec w ka.2) l = some xs →
        optMapM (fun ka => serAttr rec w ka.2) l' = some xs
  | _, _, .nil, _ => ⟨rfl, by simp, fun _ h => h⟩
  | x :: xs, y :: ys, .cons r rs, hok => by
    obtain ⟨k1, o1, s1⟩ := attr_ser_sim hrec r (hok x List.mem_cons_self)
    obtain ⟨k2, o2, s2⟩ := attrs_ser_sim hrec rs (fun ka h => hok ka (List.mem_cons_of_mem _ h))
    refine ⟨by simp [k1, k2], ?_, ?_⟩
    · intro ka hka
      rcases List.mem_cons.mp hka with rfl | hka
      · exact o1
      · exact o2 ka hka
    · intro zs hz
      unfold optMapM at hz ⊢
      cases hfa : serAttr rec w x.2 with
      | none => rw [hfa] at hz; cases hz
      | some q =>
        cases hrest : optMapM (fun ka => serAttr rec w ka.2) xs with
        | none => rw [hfa, hrest] at hz; cases hz
        | some qs =>
          rw [hfa, hrest] at hz
          rw [s1 q hfa, s2 qs hrest]
          exact hz

theorem attrsOk_iff {w : World} {attrs : List (String × Nat)} :
    attrsOk w attrs = true ↔ distinct (attrs.map (·.1)) = true ∧ ∀ ka ∈ attrs, EntryOk w ka := by
  unfold attrsOk EntryOk
  rw [Bool.and_eq_true, List.all_eq_true]
  constructor
  · intro ⟨h1, h2⟩
    refine ⟨h1, fun ka hka => ?_⟩
    have := h2 ka hka
    cases hc : cAttr w ka.2 with
    | none => rw [hc] at this; cases this
    | some as => rw [hc] at this; exact ⟨as, rfl, by simpa using this⟩
  · intro ⟨h1, h2⟩
    refine ⟨h1, fun ka hka => ?_⟩
    obtain ⟨as, ha, hn⟩ := h2 ka hka
    rw [ha]; simpa using hn

theorem serNode_sim {w : World} {rec : Nat → Option SGraph}
    (hrec : ∀ g g' x, GraphSim w g g' → rec g = some x → rec g' = some x)
    {n n' : Nat} {y : SNode} (h : NodeSim w n n') (hy : serNode rec w n = some y) :
    serNode rec w n' = some y := by
  cases h with
  | mk _ _ ns ns' newAttrs h1 h2 e1 e2 e3 e4 e5 e6 hin hout hat hd hp hm hdev =>
    unfold serNode at hy ⊢
    rw [h1] at hy
    rw [h2]
    simp only at hy ⊢
    split at hy
    · next hok =>
      obtain ⟨hdist, hent⟩ := attrsOk_iff.mp hok
      obtain ⟨hkeys, hent', hser⟩ := attrs_ser_sim hrec hat hent
      have hdist' : distinct (newAttrs.map (·.1)) = true := by rw [hkeys]; exact hdist
      have hattrs : ns'.attrs = newAttrs := by rw [hd]; exact dictOf_distinct _ hdist'
      have hok' : attrsOk w ns'.attrs = true := by
        rw [hattrs]; exact attrsOk_iff.mpr ⟨hdist', hent'⟩
      rw [if_pos hok']
      split at hy
      · next ins outs attrs p m dev a1 a2 a3 a4 a5 a6 =>
        obtain ⟨xp, xp', p1, p2, p3⟩ := hp
        obtain ⟨xm, xm', m1, m2, m3, m4⟩ := hm
        rw [p1] at a4; cases a4
        rw [m1] at a5; cases a5
        have b1 : optMapM (serRef w) ns'.inputs = some ins :=
          optMapM_all2 (f := serRef w) (f' := serRef w) (fun _ _ _ r h => serRef_sim r h) hin a1
        have b2 : optMapM (vinfo w) ns'.outputs = some outs :=
          optMapM_all2 (f := vinfo w) (f' := vinfo w) (fun _ _ _ r h => vinfo_sim r h) hout a2
        rw [b1, b2, hattrs, hser _ a3, p2, m2, serDev_sim hdev a6]
        simp only
        rw [e1, e2, e3, e4, e5, e6, p3, m3, m4]
        exact hy
      · cases hy
    · cases hy

def nameOf (w : World) (v : Nat) : Option String := (cVal w v).bind (·.name)

theorem initsOk_iff {w : World} {vs : List Nat} :
    initsOk w vs = true ↔ ∃ names, optMapM (nameOf w) vs = some names ∧ distinct names = true := by
  unfold initsOk
  show (match optMapM (nameOf w) vs with
    | some names => distinct names
    | none => false) = true ↔ _
  cases h : optMapM (nameOf w) vs with
  | none => simp
  | some names => simp

theorem initFold_eq {w : World} : ∀ (vs : List Nat) (names : List String) (acc : List (String × Nat)),
    optMapM (nameOf w) vs = some names →
    vs.foldl (initStep w) acc = (names.zip vs).foldl (fun d e => dictSet d e.1 e.2) acc
  | [], names, acc, h => by
    simp only [optMapM, Option.some.injEq] at h
    subst h
    rfl
  | v :: vs, names, acc, h => by
    unfold optMapM at h
    cases hn : nameOf w v with
    | none => rw [hn] at h; cases h
    | some nm =>
      cases hrest : optMapM (nameOf w) vs with
      | none => rw [hn, hrest] at h; cases h
      | some ns =>
        rw [hn, hrest] at h
        simp only [Option.some.injEq] at h
        subst h
        simp only [List.foldl_cons, List.zip_cons_cons]
        have hstep : initStep w acc v = dictSet acc nm v := by
          unfold nameOf at hn
          unfold initStep
          cases hc : cVal w v with
          | none => rw [hc] at hn; cases hn
          | some x =>
            rw [hc] at hn
            simp only [Option.bind_some] at hn
            simp [hn]
        rw [hstep]
        exact initFold_eq vs ns _ hrest

theorem optMapM_length {α β : Type} {f : α → Option β} : ∀ {l : List α} {xs : List β},
    optMapM f l = some xs → xs.length = l.length
  | [], xs, h => by simp only [optMapM, Option.some.injEq] at h; subst h; rfl
  | a :: as, xs, h => by
    unfold optMapM at h
    cases hfa : f a with
    | none => rw [hfa] at h; cases h
    | some y =>
      cases hrest : optMapM f as with
      | none => rw [hfa, hrest] at h; cases h
      | some ys =>
        rw [hfa, hrest] at h
        simp only [Option.some.injEq] at h
        subst h
        simp [optMapM_length hrest]

theorem initDict_of_names {w : World} {vs : List Nat} {names : List String}
    (h : optMapM (nameOf w) vs = some names) (hd : distinct names = true) :
    (initDict w vs).map (·.2) = vs := by
  have hlen := optMapM_length h
  rw [initDict_eq, initFold_eq vs names [] h]
  have hkeys : (names.zip vs).map (·.1) = names := by
    rw [List.map_fst_zip]; omega
  rw [foldl_dictSet_distinct (names.zip vs) [] (by rw [hkeys]; exact hd) (by simp)]
  simp only [List.nil_append]
  rw [List.map_snd_zip]; omega

theorem nameOf_sim {w : World} {v v' : Nat} {nm : String} (h : ValSim w v v')
    (hn : nameOf w v = some nm) : nameOf w v' = some nm := by
  obtain ⟨i, a, b⟩ := h
  obtain ⟨y, hy, e⟩ := cVal_of_vinfo a
  obtain ⟨y', hy', e'⟩ := cVal_of_vinfo b
  unfold nameOf at *
  rw [hy] at hn
  rw [hy']
  simp only [Option.bind_some] at hn ⊢
  rw [e', ← e]; exact hn

theorem nodes_ser_sim {w : World} {rec : Nat → Option SGraph}
    (hrec : ∀ g g' x, GraphSim w g g' → rec g = some x → rec g' = some x) :
    ∀ {l l' : List Nat} {xs : List SNode}, NodesSim w l l' → optMapM (serNode rec w) l = some xs →
      optMapM (serNode rec w) l' = some xs
  | _, _, _, .nil, hx => hx
  | a :: as, b :: bs, xs, .cons r rs, hx => by
    unfold optMapM at hx ⊢
    cases hfa : serNode rec w a with
    | none => rw [hfa] at hx; cases hx
    | some y =>
      cases hrest : optMapM (serNode rec w) as with
      | none => rw [hfa, hrest] at hx; cases hx
      | some ys =>
        rw [hfa, hrest] at hx
        rw [serNode_sim hrec r hfa, nodes_ser_sim hrec rs hrest]
        exact hx

theorem serGraphStep_sim {w : World} {rec : Nat → Option SGraph}
    (hrec : ∀ g g' x, GraphSim w g g' → rec g = some x → rec g' = some x)
    {g g' : Nat} {y : SGraph} (h : GraphSim w g g') (hy : serGraphStep rec w g = some y) :
    serGraphStep rec w g' = some y := by
  cases h with
  | mk _ _ gs gs' inits' h1 h2 e1 e2 e3 hin hinit hd hn hout hp hm =>
    unfold serGraphStep at hy ⊢
    rw [h1] at hy
    rw [h2]
    simp only at hy ⊢
    split at hy
    · next hok =>
      obtain ⟨names, hnames, hdist⟩ := initsOk_iff.mp hok
      have hnames' : optMapM (nameOf w) inits' = some names :=
        optMapM_all2 (f := nameOf w) (f' := nameOf w) (fun _ _ _ r h => nameOf_sim r h) hinit hnames
      have hinits : gs'.inits.map (·.2) = inits' := by
        rw [hd]; exact initDict_of_names hnames' hdist
      have hok' : initsOk w (gs'.inits.map (·.2)) = true := by
        rw [hinits]; exact initsOk_iff.mpr ⟨names, hnames', hdist⟩
      rw [if_pos hok']
      split at hy
      · next ins inits nodes outs p m a1 a2 a3 a4 a5 a6 =>
        obtain ⟨xp, xp', p1, p2, p3⟩ := hp
        obtain ⟨xm, xm', m1, m2, m3, m4⟩ := hm
        rw [p1] at a5; cases a5
        rw [m1] at a6; cases a6
        have b1 : optMapM (vinfo w) gs'.inputs = some ins :=
          optMapM_all2 (f := vinfo w) (f' := vinfo w) (fun _ _ _ r h => vinfo_sim r h) hin a1
        have b2 : optMapM (vinfo w) (gs'.inits.map (·.2)) = some inits := by
          rw [hinits]
          exact optMapM_all2 (f := vinfo w) (f' := vinfo w) (fun _ _ _ r h => vinfo_sim r h) hinit a2
        have b4 : optMapM (vinfo w) gs'.outputs = some outs :=
          optMapM_all2 (f := vinfo w) (f' := vinfo w) (fun _ _ _ r h => vinfo_sim r h) hout a4
        have b3 : optMapM (serNode rec w) gs'.nodes = some nodes := nodes_ser_sim hrec hn a3
        rw [b1, b2, b3, b4, p2, m2]
        simp only
        rw [e1, e2, e3, p3, m3, m4]
        exact hy
      · cases hy
    · cases hy

/-- related graphs serialize to the same thing (when the original serializes at all) -/
theorem serGraph_sim {w : World} : ∀ (k : Nat) {g g' : Nat} {y : SGraph}, GraphSim w g g' →
    serGraph k w g = some y → serGraph k w g' = some y
  | 0, _, _, _, _, h => by cases h
  | k + 1, _, _, _, hs, h =>
    serGraphStep_sim (fun _ _ _ hs' h' => serGraph_sim k hs' h') hs h

/-! ### what is serialized does not change when the heap grows and back links change -/

theorem optMapM_mono {α β : Type} {f f' : α → Option β} :
    ∀ {l : List α} {xs : List β}, (∀ a ∈ l, ∀ x, f a = some x → f' a = some x) →
      optMapM f l = some xs → optMapM f' l = some xs
  | [], _, _, h => h
  | a :: as, xs, hf, h => by
    unfold optMapM at h ⊢
    cases hfa : f a with
    | none => rw [hfa] at h; cases h
    | some y =>
      cases hrest : optMapM f as with
      | none => rw [hfa, hrest] at h; cases h
      | some ys =>
        rw [hfa, hrest] at h
        rw [hf a List.mem_cons_self y hfa,
          optMapM_mono (fun a' ha' => hf a' (List.mem_cons_of_mem _ ha')) hrest]
        exact h

section
variable {w1 w2 : World} (hle : CoreLe w1 w2)
include hle

theorem serRef_mono {r : Option Nat} {x : Option (Option String)} (h : serRef w1 r = some x) :
    serRef w2 r = some x := by
  cases r with
  | none => exact h
  | some v =>
    simp only [serRef] at h ⊢
    cases hc : cVal w1 v with
    | none => rw [hc] at h; cases h
    | some y => rw [cVal_mono hle hc]; rw [hc] at h; exact h

theorem serDev_mono {d : List DevCfg} {x : List (Nat × List (Nat × Option (Option String)))}
    (h : serDev w1 d = some x) : serDev w2 d = some x := by
  unfold serDev at *
  refine optMapM_mono ?_ h
  intro c _ y hy
  cases hsp : optMapM (fun sp => (serRef w1 sp.value).map fun r => (sp.payload, r)) c.specs with
  | none => rw [hsp] at hy; cases hy
  | some specs =>
    rw [hsp] at hy
    have : optMapM (fun sp => (serRef w2 sp.value).map fun r => (sp.payload, r)) c.specs = some specs := by
      refine optMapM_mono ?_ hsp
      intro sp _ z hz
      cases hsr : serRef w1 sp.value with
      | none => rw [hsr] at hz; cases hz
      | some q => rw [hsr] at hz; rw [serRef_mono hle hsr]; exact hz
    rw [this]; exact hy

theorem attrsOk_mono {attrs : List (String × Nat)} (h : attrsOk w1 attrs = true) :
    attrsOk w2 attrs = true := by
  obtain ⟨a, b⟩ := attrsOk_iff.mp h
  exact attrsOk_iff.mpr ⟨a, fun ka hka => by
    obtain ⟨as, x, y⟩ := b ka hka
    exact ⟨as, cAttr_mono hle x, y⟩⟩

theorem nameOf_mono {v : Nat} {nm : String} (h : nameOf w1 v = some nm) : nameOf w2 v = some nm := by
  unfold nameOf at *
  cases hc : cVal w1 v with
  | none => rw [hc] at h; cases h
  | some y => rw [cVal_mono hle hc]; rw [hc] at h; exact h

theorem initsOk_mono {vs : List Nat} (h : initsOk w1 vs = true) : initsOk w2 vs = true := by
  obtain ⟨names, a, b⟩ := initsOk_iff.mp h
  exact initsOk_iff.mpr ⟨names, optMapM_mono (fun v _ x hx => nameOf_mono hle hx) a, b⟩

theorem serAttr_mono {rec1 rec2 : Nat → Option SGraph}
    (hrec : ∀ g x, rec1 g = some x → rec2 g = some x) {a : Nat} {z : SAttr}
    (h : serAttr rec1 w1 a = some z) : serAttr rec2 w2 a = some z := by
  unfold serAttr at *
  cases hc : cAttr w1 a with
  | none => rw [hc] at h; cases h
  | some as =>
    rw [hc] at h
    rw [cAttr_mono hle hc]
    simp only at h ⊢
    cases hv : as.v with
    | plain p => rw [hv] at h; exact h
    | ref p => rw [hv] at h; exact h
    | graph g =>
      rw [hv] at h
      simp only at h ⊢
      cases hr : rec1 g with
      | none => rw [hr] at h; cases h
      | some q => rw [hr] at h; rw [hrec g q hr]; exact h
    | graphs gs =>
      rw [hv] at h
      simp only at h ⊢
      cases hr : optMapM rec1 gs with
      | none => rw [hr] at h; cases h
      | some q =>
        rw [hr] at h
        rw [optMapM_mono (fun g _ x hx => hrec g x hx) hr]; exact h

theorem serNode_mono {rec1 rec2 : Nat → Option SGraph}
    (hrec : ∀ g x, rec1 g = some x → rec2 g = some x) {n : Nat} {y : SNode}
    (h : serNode rec1 w1 n = some y) : serNode rec2 w2 n = some y := by
  unfold serNode at *
  cases hc : cNode w1 n with
  | none => rw [hc] at h; cases h
  | some ns =>
    rw [hc] at h
    rw [cNode_mono hle hc]
    simp only at h ⊢
    split at h
    · next hok =>
      rw [if_pos (attrsOk_mono hle hok)]
      split at h
      · next ins outs attrs p m dev a1 a2 a3 a4 a5 a6 =>
        rw [optMapM_mono (fun r _ x hx => serRef_mono hle hx) a1,
          optMapM_mono (fun v _ x hx => vinfo_mono hle hx) a2,
          optMapM_mono (fun ka _ x hx => serAttr_mono hle hrec hx) a3,
          cDict_mono hle a4, cDict_mono hle a5, serDev_mono hle a6]
        exact h
      · cases h
    · cases h

theorem serGraphStep_mono {rec1 rec2 : Nat → Option SGraph}
    (hrec : ∀ g x, rec1 g = some x → rec2 g = some x) {g : Nat} {y : SGraph}
    (h : serGraphStep rec1 w1 g = some y) : serGraphStep rec2 w2 g = some y := by
  unfold serGraphStep at *
  cases hc : cGraph w1 g with
  | none => rw [hc] at h; cases h
  | some gs =>
    rw [hc] at h
    rw [cGraph_mono hle hc]
    simp only at h ⊢
    split at h
    · next hok =>
      rw [if_pos (initsOk_mono hle hok)]
      split at h
      · next ins inits nodes outs p m a1 a2 a3 a4 a5 a6 =>
        rw [optMapM_mono (fun v _ x hx => vinfo_mono hle hx) a1,
          optMapM_mono (fun v _ x hx => vinfo_mono hle hx) a2,
          optMapM_mono (fun n _ x hx => serNode_mono hle hrec hx) a3,
          optMapM_mono (fun v _ x hx => vinfo_mono hle hx) a4,
          cDict_mono hle a5, cDict_mono hle a6]
        exact h
      · cases h
    · cases h

end

theorem serGraph_mono {w1 w2 : World} (hle : CoreLe w1 w2) : ∀ (k : Nat) {g : Nat} {y : SGraph},
    serGraph k w1 g = some y → serGraph k w2 g = some y
  | 0, _, _, h => by cases h
  | k + 1, _, _, h => serGraphStep_mono hle (fun _ _ hx => serGraph_mono hle k hx) h

end IrVerif.Clone

/-
Helper development for C13_wiring_image: the clone's wiring is the image of the source's wiring
under the cloner's value map.  `GraphWire allow w vm g g'` relates a source graph `g` and its clone
`g'` in a heap `w` through an explicit value map `vm`: inputs, initializers, outputs and node
outputs of the clone are the `vm`-images (exact lookups) of the source's, every node input and
sharding target is the image (`RefImg`), attributes are shared or hold graphs that are again
related, scalar fields and metadata are equal.  The cloner establishes it for every value map
that extends its own at the front and has pairwise different keys (`Fut`): that is what the
walker's invariant (`TInv.nodup`) provides at the end.
-/
import IrVerif.Lemmas.CloneSim
import IrVerif.Lemmas.CloneTotal
namespace IrVerif.Clone

/-! ### the relation -/

/-- image of a value under a value map (a value the map does not bind is its own image) -/
def img (vm : List (Nat × Nat)) (v : Nat) : Nat := (vm.lookup v).getD v

/-- a reference of the clone (node input, sharding target) is the image of the source's reference
    under the value map; with `allow_outer_scope_values` it may also have been passed through -/
def RefImg (allow : Bool) (vm : List (Nat × Nat)) (r r' : Option Nat) : Prop :=
  r' = r.map (img vm) ∨ (allow = true ∧ r' = r)

def SpecImg (allow : Bool) (vm : List (Nat × Nat)) (sp sp' : DevSpec) : Prop :=
  sp'.payload = sp.payload ∧ RefImg allow vm sp.value sp'.value

def DevImg (allow : Bool) (vm : List (Nat × Nat)) (d d' : List DevCfg) : Prop :=
  All2 (fun c c' => c'.cfg = c.cfg ∧ All2 (SpecImg allow vm) c.specs c'.specs) d d'

/-- defined values (graph inputs, initializers, outputs, node outputs): bound in the map -/
def ValsImg (vm : List (Nat × Nat)) (l l' : List Nat) : Prop :=
  All2 (fun v v' => vm.lookup v = some v') l l'

mutual
inductive AttrWire (allow : Bool) (w : World) (vm : List (Nat × Nat)) : String × Nat → String × Nat → Prop
  | shared (k : String) (a : Nat) (as : AttrS) :
      cAttr w a = some as → as.v.isGraphy = false → AttrWire allow w vm (k, a) (as.name, a)
  | graph (k : String) (a a' : Nat) (as : AttrS) (g g' : Nat) :
      cAttr w a = some as → as.v = .graph g →
      cAttr w a' = some { name := k, doc := as.doc, v := .graph g' } →
      GraphWire allow w vm g g' → AttrWire allow w vm (k, a) (k, a')
  | graphs (k : String) (a a' : Nat) (as : AttrS) (gs gs' : List Nat) :
      cAttr w a = some as → as.v = .graphs gs →
      cAttr w a' = some { name := k, doc := as.doc, v := .graphs gs' } →
      GraphsWire allow w vm gs gs' → AttrWire allow w vm (k, a) (k, a')
inductive AttrsWire (allow : Bool) (w : World) (vm : List (Nat × Nat)) :
    List (String × Nat) → List (String × Nat) → Prop
  | nil : AttrsWire allow w vm [] []
  | cons {x y : String × Nat} {xs ys : List (String × Nat)} :
      AttrWire allow w vm x y → AttrsWire allow w vm xs ys → AttrsWire allow w vm (x :: xs) (y :: ys)
/-- the clone `n'` of node `n`: same operator fields, inputs and sharding targets are images,
    outputs are the bound clones, attributes shared or re-made around the cloned graphs -/
inductive NodeWire (allow : Bool) (w : World) (vm : List (Nat × Nat)) : Nat → Nat → Prop
  | mk (n n' : Nat) (ns ns' : NodeS) (newAttrs : List (String × Nat)) :
      cNode w n = some ns → cNode w n' = some ns' →
      ns'.name = ns.name → ns'.doc = ns.doc → ns'.domain = ns.domain → ns'.opType = ns.opType →
      ns'.overload = ns.overload → ns'.version = ns.version →
      All2 (RefImg allow vm) ns.inputs ns'.inputs →
      ValsImg vm ns.outputs ns'.outputs →
      AttrsWire allow w vm ns.attrs newAttrs → ns'.attrs = dictOf newAttrs →
      PropsSim w ns.props ns'.props → MetaSim w ns.mstore ns'.mstore →
      DevImg allow vm ns.dev ns'.dev → NodeWire allow w vm n n'
inductive NodesWire (allow : Bool) (w : World) (vm : List (Nat × Nat)) : List Nat → List Nat → Prop
  | nil : NodesWire allow w vm [] []
  | cons {x y : Nat} {xs ys : List Nat} :
      NodeWire allow w vm x y → NodesWire allow w vm xs ys → NodesWire allow w vm (x :: xs) (y :: ys)
inductive GraphWire (allow : Bool) (w : World) (vm : List (Nat × Nat)) : Nat → Nat → Prop
  | mk (g g' : Nat) (gs gs' : GraphS) (inits' : List Nat) :
      cGraph w g = some gs → cGraph w g' = some gs' →
      gs'.name = gs.name → gs'.doc = gs.doc → gs'.opsets = gs.opsets →
      ValsImg vm gs.inputs gs'.inputs →
      ValsImg vm (gs.inits.map (·.2)) inits' → (∀ v ∈ inits', ∃ x, cVal w v = some x) →
      gs'.inits = initDict w inits' →
      NodesWire allow w vm gs.nodes gs'.nodes →
      ValsImg vm gs.outputs gs'.outputs →
      PropsSim w gs.props gs'.props → MetaSim w gs.mstore gs'.mstore → GraphWire allow w vm g g'
inductive GraphsWire (allow : Bool) (w : World) (vm : List (Nat × Nat)) : List Nat → List Nat → Prop
  | nil : GraphsWire allow w vm [] []
  | cons {x y : Nat} {xs ys : List Nat} :
      GraphWire allow w vm x y → GraphsWire allow w vm xs ys → GraphsWire allow w vm (x :: xs) (y :: ys)
end

/-! ### stability when the heap grows (back links may change) -/

mutual
theorem AttrWire.mono {allow : Bool} {vm : List (Nat × Nat)} {w1 w2 : World} (hle : CoreLe w1 w2) :
    ∀ {x y : String × Nat}, AttrWire allow w1 vm x y → AttrWire allow w2 vm x y
  | _, _, .shared k a as h1 h2 => .shared k a as (cAttr_mono hle h1) h2
  | _, _, .graph k a a' as g g' h1 h2 h3 h4 =>
    .graph k a a' as g g' (cAttr_mono hle h1) h2 (cAttr_mono hle h3) (GraphWire.mono hle h4)
  | _, _, .graphs k a a' as gs gs' h1 h2 h3 h4 =>
    .graphs k a a' as gs gs' (cAttr_mono hle h1) h2 (cAttr_mono hle h3) (GraphsWire.mono hle h4)
theorem AttrsWire.mono {allow : Bool} {vm : List (Nat × Nat)} {w1 w2 : World} (hle : CoreLe w1 w2) :
    ∀ {x y : List (String × Nat)}, AttrsWire allow w1 vm x y → AttrsWire allow w2 vm x y
  | _, _, .nil => .nil
  | _, _, .cons a b => .cons (AttrWire.mono hle a) (AttrsWire.mono hle b)
theorem NodeWire.mono {allow : Bool} {vm : List (Nat × Nat)} {w1 w2 : World} (hle : CoreLe w1 w2) :
    ∀ {x y : Nat}, NodeWire allow w1 vm x y → NodeWire allow w2 vm x y
  | _, _, .mk n n' ns ns' na h1 h2 e1 e2 e3 e4 e5 e6 hin hout hat hd hp hm hdev =>
    .mk n n' ns ns' na (cNode_mono hle h1) (cNode_mono hle h2) e1 e2 e3 e4 e5 e6 hin hout
      (AttrsWire.mono hle hat) hd (hp.mono hle) (hm.mono hle) hdev
theorem NodesWire.mono {allow : Bool} {vm : List (Nat × Nat)} {w1 w2 : World} (hle : CoreLe w1 w2) :
    ∀ {x y : List Nat}, NodesWire allow w1 vm x y → NodesWire allow w2 vm x y
  | _, _, .nil => .nil
  | _, _, .cons a b => .cons (NodeWire.mono hle a) (NodesWire.mono hle b)
theorem GraphWire.mono {allow : Bool} {vm : List (Nat × Nat)} {w1 w2 : World} (hle : CoreLe w1 w2) :
    ∀ {x y : Nat}, GraphWire allow w1 vm x y → GraphWire allow w2 vm x y
  | _, _, .mk g g' gs gs' inits' h1 h2 e1 e2 e3 hin hinit hr hd hn hout hp hm =>
    .mk g g' gs gs' inits' (cGraph_mono hle h1) (cGraph_mono hle h2) e1 e2 e3 hin hinit
      (fun v hv => (hr v hv).imp fun _ hx => cVal_mono hle hx)
      (by rw [hd]; exact (initDict_mono hle hr).symm)
      (NodesWire.mono hle hn) hout (hp.mono hle) (hm.mono hle)
theorem GraphsWire.mono {allow : Bool} {vm : List (Nat × Nat)} {w1 w2 : World} (hle : CoreLe w1 w2) :
    ∀ {x y : List Nat}, GraphsWire allow w1 vm x y → GraphsWire allow w2 vm x y
  | _, _, .nil => .nil
  | _, _, .cons a b => .cons (GraphWire.mono hle a) (GraphsWire.mono hle b)
end


namespace Wire

/-! ### triples on the state function, and "the value map only grows at the front" -/

def Sfx (vm vm' : List (Nat × Nat)) : Prop := ∃ ext, vm' = ext ++ vm

theorem Sfx.refl (vm : List (Nat × Nat)) : Sfx vm vm := ⟨[], rfl⟩
theorem Sfx.trans {a b c : List (Nat × Nat)} (h1 : Sfx a b) (h2 : Sfx b c) : Sfx a c := by
  obtain ⟨e1, rfl⟩ := h1
  obtain ⟨e2, rfl⟩ := h2
  exact ⟨e2 ++ e1, by rw [List.append_assoc]⟩

/-- partial correctness: whenever `m` returns `a` in state `s1`, `P a s1` -/
def Post {α : Type} (m : M α) (s : St) (P : α → St → Prop) : Prop :=
  ∀ a s1, m s = (.ok a, s1) → P a s1

theorem Post.bind {α β : Type} {m : M α} {f : α → M β} {s : St} {P : α → St → Prop} {Q : β → St → Prop}
    (hm : Post m s P) (hf : ∀ a s1, P a s1 → Post (f a) s1 Q) : Post (m >>= f) s Q := by
  intro b s2 h
  change M.bind m f s = _ at h
  unfold M.bind at h
  rcases hms : m s with ⟨r, s1⟩
  rw [hms] at h
  cases r with
  | error e => simp at h
  | ok a => exact hf a s1 (hm a s1 hms) b s2 h

theorem Post.mono {α : Type} {m : M α} {s : St} {P Q : α → St → Prop} (hm : Post m s P)
    (h : ∀ a s1, P a s1 → Q a s1) : Post m s Q := fun a s1 e => h a s1 (hm a s1 e)

theorem Post.and {α : Type} {m : M α} {s : St} {P Q : α → St → Prop} (h1 : Post m s P) (h2 : Post m s Q) :
    Post m s (fun a s1 => P a s1 ∧ Q a s1) := fun a s1 e => ⟨h1 a s1 e, h2 a s1 e⟩

theorem Post.pure {α : Type} {a : α} {s : St} {P : α → St → Prop} (h : P a s) :
    Post (Pure.pure a : M α) s P := by
  intro b s1 e
  cases e
  exact h

theorem Post.trivial {α : Type} {m : M α} {s : St} : Post m s (fun _ _ => True) := fun _ _ _ => True.intro

theorem Post.eq {α : Type} (m : M α) (s : St) : Post m s (fun a s1 => m s = (.ok a, s1)) := fun _ _ e => e

theorem Post.ofSim {α : Type} {m : M α} {s : St} {Q : α → St → Prop} (h : SGoodAt m s Q) :
    Post m s (fun a s1 => K s1 ∧ CoreLe s.w s1.w ∧ Q a s1) := by
  intro a s1 e
  have := h a (by rw [e])
  rw [e] at this
  exact this

theorem Post.vmGet (v : Nat) (s : St) : Post (vmGet v) s (fun r s1 => s1 = s ∧ r = s.vm.lookup v) := by
  intro r s1 e
  simp only [Clone.vmGet, Prod.mk.injEq, Except.ok.injEq] at e
  exact ⟨e.2.symm, e.1.symm⟩

theorem Post.vmSet (a b : Nat) (s : St) :
    Post (vmSet a b) s (fun _ s1 => s1 = { s with vm := (a, b) :: s.vm }) := by
  intro r s1 e
  simp only [Clone.vmSet, Prod.mk.injEq] at e
  exact e.2.symm

theorem Post.getVm (s : St) : Post getVm s (fun r s1 => s1 = s ∧ r = s.vm) := by
  intro r s1 e
  simp only [Clone.getVm, Prod.mk.injEq, Except.ok.injEq] at e
  exact ⟨e.2.symm, e.1.symm⟩

/-- whatever `m` does and however it ends, the value map only gains bindings at the front -/
def VmMono {α : Type} (m : M α) : Prop := ∀ s, Sfx s.vm (m s).2.vm

theorem VmMono.post {α : Type} {m : M α} (h : VmMono m) (s : St) : Post m s (fun _ s1 => Sfx s.vm s1.vm) := by
  intro a s1 e
  have := h s
  rw [e] at this
  exact this

theorem VmMono.bind {α β : Type} {m : M α} {f : α → M β} (hm : VmMono m) (hf : ∀ a, VmMono (f a)) :
    VmMono (m >>= f) := by
  intro s
  change Sfx _ (M.bind m f s).2.vm
  unfold M.bind
  have h1 := hm s
  rcases hms : m s with ⟨r, s1⟩
  rw [hms] at h1
  cases r with
  | error e => exact h1
  | ok a => exact h1.trans (hf a s1)

theorem VmMono.pure {α : Type} (a : α) : VmMono (Pure.pure a : M α) := fun s => Sfx.refl _
theorem VmMono.fail {α : Type} (e : Err) : VmMono (Clone.fail e : M α) := fun s => Sfx.refl _
theorem VmMono.raise {α : Type} (why : String) : VmMono (Clone.raise why : M α) := fun s => Sfx.refl _
theorem VmMono.unsupported {α : Type} (why : String) : VmMono (Clone.unsupported why : M α) := fun s => Sfx.refl _

/-- an operation that leaves the value map alone -/
theorem VmMono.same {α : Type} {m : M α} (h : ∀ s, (m s).2.vm = s.vm) : VmMono m :=
  fun s => by rw [h s]; exact Sfx.refl _

theorem VmMono.alloc (c : Cell) : VmMono (alloc c) := VmMono.same fun _ => rfl
theorem VmMono.setCell (i : Nat) (c : Cell) : VmMono (setCell i c) := VmMono.same fun _ => rfl
theorem VmMono.vmGet (v : Nat) : VmMono (vmGet v) := VmMono.same fun _ => rfl
theorem VmMono.getVm : VmMono getVm := VmMono.same fun _ => rfl
theorem VmMono.vmSet (a b : Nat) : VmMono (vmSet a b) := fun s => ⟨[(a, b)], rfl⟩
theorem VmMono.pendHas (v : Nat) : VmMono (pendHas v) := VmMono.same fun _ => rfl
theorem VmMono.pendAdd (vs : List Nat) : VmMono (pendAdd vs) := VmMono.same fun _ => rfl
theorem VmMono.pendDiscard (v : Nat) : VmMono (pendDiscard v) := VmMono.same fun _ => rfl
theorem VmMono.createdAdd (v : Nat) : VmMono (createdAdd v) := VmMono.same fun _ => rfl
theorem VmMono.readVal (i : Nat) : VmMono (readVal i) :=
  VmMono.same fun s => by unfold Clone.readVal; split <;> rfl
theorem VmMono.readNode (i : Nat) : VmMono (readNode i) :=
  VmMono.same fun s => by unfold Clone.readNode; split <;> rfl
theorem VmMono.readGraph (i : Nat) : VmMono (readGraph i) :=
  VmMono.same fun s => by unfold Clone.readGraph; split <;> rfl
theorem VmMono.readType (i : Nat) : VmMono (readType i) :=
  VmMono.same fun s => by unfold Clone.readType; split <;> rfl
theorem VmMono.readShape (i : Nat) : VmMono (readShape i) :=
  VmMono.same fun s => by unfold Clone.readShape; split <;> rfl
theorem VmMono.readDict (i : Nat) : VmMono (readDict i) :=
  VmMono.same fun s => by unfold Clone.readDict; split <;> rfl
theorem VmMono.readAttr (i : Nat) : VmMono (readAttr i) :=
  VmMono.same fun s => by unfold Clone.readAttr; split <;> rfl
theorem VmMono.unUse (v n : Nat) : VmMono (unUse v n) :=
  VmMono.same fun s => by unfold Clone.unUse; split <;> rfl

theorem VmMono.mapM' {α β : Type} {f : α → M β} (hf : ∀ a, VmMono (f a)) : ∀ l : List α, VmMono (mapM' f l)
  | [] => VmMono.pure _
  | a :: as => by
    unfold Clone.mapM'
    exact VmMono.bind (hf a) fun _ => VmMono.bind (VmMono.mapM' hf as) fun _ => VmMono.pure _

theorem VmMono.forM' {α : Type} {f : α → M Unit} (hf : ∀ a, VmMono (f a)) : ∀ l : List α, VmMono (forM' f l)
  | [] => VmMono.pure _
  | a :: as => by
    unfold Clone.forM'
    exact VmMono.bind (hf a) fun _ => VmMono.forM' hf as

/-- the workhorse: decompose `do` blocks, `if`s and `match`es -/
syntax "vmm" : tactic
macro_rules
  | `(tactic| vmm) => `(tactic| first
    | assumption
    | exact VmMono.pure _
    | exact VmMono.fail _
    | exact VmMono.raise _
    | exact VmMono.unsupported _
    | exact VmMono.alloc _
    | exact VmMono.setCell _ _
    | exact VmMono.vmGet _
    | exact VmMono.getVm
    | exact VmMono.vmSet _ _
    | exact VmMono.pendHas _
    | exact VmMono.pendAdd _
    | exact VmMono.pendDiscard _
    | exact VmMono.createdAdd _
    | exact VmMono.readVal _
    | exact VmMono.readNode _
    | exact VmMono.readGraph _
    | exact VmMono.readType _
    | exact VmMono.readShape _
    | exact VmMono.readDict _
    | exact VmMono.readAttr _
    | exact VmMono.unUse _ _
    | (refine VmMono.bind ?_ (fun _ => ?_) <;> vmm)
    | (split <;> vmm))

theorem VmMono.copyShape (o : Option Nat) : VmMono (copyShape o) := by
  cases o <;> unfold Clone.copyShape <;> vmm
theorem VmMono.copyType (o : Option Nat) : VmMono (copyType o) := by
  cases o <;> unfold Clone.copyType <;> vmm
theorem VmMono.copyProps (d : Nat) : VmMono (copyProps d) := by unfold Clone.copyProps; vmm
theorem VmMono.copyMeta (d : Nat) : VmMono (copyMeta d) := by unfold Clone.copyMeta; vmm

theorem VmMono.cloneOrGetValue (v : Nat) : VmMono (cloneOrGetValue v) := by
  unfold Clone.cloneOrGetValue
  have := VmMono.copyShape; have := VmMono.copyType; have := VmMono.copyProps; have := VmMono.copyMeta
  refine VmMono.bind (VmMono.vmGet v) fun o => ?_
  cases o with
  | some v' => exact VmMono.pure _
  | none =>
    exact VmMono.bind (VmMono.readVal _) fun _ => VmMono.bind (VmMono.copyShape _) fun _ =>
      VmMono.bind (VmMono.copyType _) fun _ => VmMono.bind (VmMono.copyProps _) fun _ =>
      VmMono.bind (VmMono.copyMeta _) fun _ => VmMono.bind (VmMono.alloc _) fun _ =>
      VmMono.bind (VmMono.vmSet _ _) fun _ => VmMono.pure _

theorem VmMono.cloneOutput (i o : Nat) : VmMono (cloneOutput i o) := by
  unfold Clone.cloneOutput
  exact VmMono.bind (VmMono.readVal _) fun _ => VmMono.bind (VmMono.copyShape _) fun _ =>
    VmMono.bind (VmMono.copyType _) fun _ => VmMono.bind (VmMono.copyProps _) fun _ =>
    VmMono.bind (VmMono.copyMeta _) fun _ => VmMono.bind (VmMono.alloc _) fun _ =>
    VmMono.bind (VmMono.vmSet _ _) fun _ => VmMono.bind (VmMono.pendDiscard _) fun _ => VmMono.pure _

theorem VmMono.cloneOutputs : ∀ (os : List Nat) (i : Nat), VmMono (cloneOutputs i os)
  | [], i => by unfold Clone.cloneOutputs; exact VmMono.pure _
  | o :: os, i => by
    unfold Clone.cloneOutputs
    exact VmMono.bind (VmMono.cloneOutput i o) fun _ =>
      VmMono.bind (VmMono.cloneOutputs os (i + 1)) fun _ => VmMono.pure _

theorem VmMono.mapInputs (allow : Bool) (l : List (Option Nat)) : VmMono (mapInputs allow l) :=
  VmMono.same fun s => by rw [mapInputs_eq_pure]

theorem VmMono.addUse (v n i : Nat) : VmMono (addUse v n i) := by unfold Clone.addUse; vmm

theorem VmMono.addUses (n : Nat) : ∀ (l : List (Option Nat)) (i : Nat), VmMono (addUses n i l)
  | [], i => by unfold Clone.addUses; exact VmMono.pure _
  | none :: rest, i => by unfold Clone.addUses; exact VmMono.addUses n rest (i + 1)
  | some v :: rest, i => by
    unfold Clone.addUses
    exact VmMono.bind (VmMono.addUse v n i) fun _ => VmMono.addUses n rest (i + 1)

theorem VmMono.setProducer (n v : Nat) : VmMono (setProducer n v) := by unfold Clone.setProducer; vmm

theorem VmMono.checkSpecs (allow : Bool) (ns : NodeS) (vm : List (Nat × Nat)) : VmMono (checkSpecs allow ns vm) :=
  VmMono.same fun s => by rw [checkSpecs_state]

theorem VmMono.allocNode (c : NodeS) : VmMono (allocNode c) := by unfold Clone.allocNode; vmm

theorem VmMono.cloneAttr {rec : Nat → M Nat} (hrec : ∀ g, VmMono (rec g)) (key : String) (a : Nat) :
    VmMono (cloneAttr rec key a) := by
  unfold Clone.cloneAttr
  refine VmMono.bind (VmMono.readAttr a) fun as => ?_
  split
  · exact VmMono.bind (hrec _) fun _ => VmMono.bind (VmMono.alloc _) fun _ => VmMono.pure _
  · exact VmMono.bind (VmMono.mapM' hrec _) fun _ => VmMono.bind (VmMono.alloc _) fun _ => VmMono.pure _
  · exact VmMono.pure _

theorem VmMono.cloneNode {allow : Bool} {rec : Nat → M Nat} (hrec : ∀ g, VmMono (rec g)) (n : Nat) :
    VmMono (cloneNode allow rec n) := by
  unfold Clone.cloneNode
  exact VmMono.bind (VmMono.readNode n) fun ns => VmMono.bind (VmMono.mapInputs _ _) fun _ =>
    VmMono.bind (VmMono.mapM' (fun (ka : String × Nat) => VmMono.cloneAttr hrec ka.1 ka.2) _) fun _ =>
    VmMono.bind (VmMono.copyProps _) fun _ => VmMono.bind (VmMono.copyMeta _) fun _ =>
    VmMono.bind (VmMono.cloneOutputs _ _) fun _ => VmMono.bind VmMono.getVm fun _ =>
    VmMono.bind (VmMono.checkSpecs _ _ _) fun _ => VmMono.bind (VmMono.allocNode _) fun _ =>
    VmMono.bind (VmMono.forM' (fun v => VmMono.setProducer _ v) _) fun _ =>
    VmMono.bind (VmMono.addUses _ _ _) fun _ => VmMono.pure _

theorem VmMono.getMapped (v : Nat) : VmMono (getMapped v) := by
  unfold Clone.getMapped
  refine VmMono.bind (VmMono.vmGet v) fun o => ?_
  cases o <;> vmm

theorem VmMono.initEntries : ∀ (l : List Nat) (acc : List (String × Nat)), VmMono (initEntries acc l)
  | [], acc => by unfold Clone.initEntries; exact VmMono.pure _
  | v :: rest, acc => by
    unfold Clone.initEntries
    refine VmMono.bind (VmMono.readVal v) fun vs => ?_
    split
    · exact VmMono.raise _
    · exact VmMono.initEntries rest _

theorem VmMono.setValueOwner (g : Nat) (f : ValueS → ValueS) (v : Nat) : VmMono (setValueOwner g f v) := by
  unfold Clone.setValueOwner; vmm
theorem VmMono.checkInput (g v : Nat) : VmMono (checkInput g v) := by unfold Clone.checkInput; vmm
theorem VmMono.checkOwned (g v : Nat) : VmMono (checkOwned g v) := by unfold Clone.checkOwned; vmm
theorem VmMono.checkInitEntry (e : String × Nat) : VmMono (checkInitEntry e) := by
  unfold Clone.checkInitEntry; vmm
theorem VmMono.checkNodeFree (g n : Nat) : VmMono (checkNodeFree g n) := by unfold Clone.checkNodeFree; vmm
theorem VmMono.checkNamed (v : Nat) : VmMono (checkNamed v) := by unfold Clone.checkNamed; vmm
theorem VmMono.setNodeGraph (g n : Nat) : VmMono (setNodeGraph g n) := by
  unfold Clone.setNodeGraph
  exact VmMono.bind (VmMono.readNode n) fun _ =>
    VmMono.bind (VmMono.forM' VmMono.checkNamed _) fun _ => VmMono.setCell _ _

theorem VmMono.mkGraph (src : GraphS) (inputs outputs nodes inits : List Nat) :
    VmMono (mkGraph src inputs outputs nodes inits) := by
  unfold Clone.mkGraph
  exact VmMono.bind (VmMono.initEntries _ _) fun _ => VmMono.bind (VmMono.copyProps _) fun _ =>
    VmMono.bind (VmMono.copyMeta _) fun _ => VmMono.bind (VmMono.alloc _) fun g =>
    VmMono.bind (VmMono.forM' (VmMono.checkInput g) _) fun _ =>
    VmMono.bind (VmMono.forM' (VmMono.setValueOwner g _) _) fun _ =>
    VmMono.bind (VmMono.forM' (VmMono.checkOwned g) _) fun _ =>
    VmMono.bind (VmMono.forM' (VmMono.setValueOwner g _) _) fun _ =>
    VmMono.bind (VmMono.forM' (VmMono.checkOwned g) _) fun _ =>
    VmMono.bind (VmMono.forM' (VmMono.setValueOwner g _) _) fun _ =>
    VmMono.bind (VmMono.forM' VmMono.checkInitEntry _) fun _ =>
    VmMono.bind (VmMono.forM' VmMono.checkNamed _) fun _ =>
    VmMono.bind (VmMono.forM' (VmMono.checkNodeFree g) _) fun _ =>
    VmMono.bind (VmMono.forM' (VmMono.setNodeGraph g) _) fun _ => VmMono.pure _

theorem VmMono.allOutputs : ∀ l : List Nat, VmMono (allOutputs l)
  | [] => VmMono.pure _
  | n :: ns => by
    unfold Clone.allOutputs
    exact VmMono.bind (VmMono.readNode n) fun _ => VmMono.bind (VmMono.allOutputs ns) fun _ => VmMono.pure _

theorem VmMono.cloneGraphStep {allow : Bool} {rec : Nat → M Nat} (hrec : ∀ g, VmMono (rec g)) (g : Nat) :
    VmMono (cloneGraphStep allow rec g) := by
  unfold Clone.cloneGraphStep
  exact VmMono.bind (VmMono.readGraph g) fun gs =>
    VmMono.bind (VmMono.mapM' VmMono.cloneOrGetValue _) fun _ =>
    VmMono.bind (VmMono.mapM' VmMono.cloneOrGetValue _) fun _ =>
    VmMono.bind (VmMono.allOutputs _) fun _ => VmMono.bind (VmMono.pendAdd _) fun _ =>
    VmMono.bind (VmMono.mapM' (VmMono.cloneNode hrec) _) fun _ =>
    VmMono.bind (VmMono.mapM' VmMono.getMapped _) fun _ => VmMono.mkGraph _ _ _ _ _

theorem VmMono.unUses (n : Nat) : ∀ l : List (Option Nat), VmMono (unUses n l)
  | [] => VmMono.pure _
  | none :: rest => by unfold Clone.unUses; exact VmMono.unUses n rest
  | some v :: rest => by
    unfold Clone.unUses
    exact VmMono.bind (VmMono.unUse v n) fun _ => VmMono.unUses n rest

theorem VmMono.detachNode (n : Nat) : VmMono (detachNode n) := by
  unfold Clone.detachNode
  exact VmMono.bind (VmMono.readNode n) fun _ => VmMono.bind (VmMono.unUses n _) fun _ =>
    VmMono.bind (VmMono.readNode n) fun _ => VmMono.setCell _ _

theorem VmMono.guarded {body : M Nat} (hb : VmMono body) : VmMono (guarded body) := by
  intro s
  have h1 := hb s
  unfold Clone.guarded onError
  rcases hbs : body s with ⟨r, s'⟩
  rw [hbs] at h1
  cases r with
  | ok a => exact h1
  | error e =>
    simp only
    exact h1.trans (VmMono.forM' VmMono.detachNode _ s')

theorem VmMono.cloneGraph (allow : Bool) : ∀ (fuel g : Nat), VmMono (cloneGraph allow fuel g)
  | 0, _ => VmMono.fail _
  | f + 1, g => VmMono.guarded (VmMono.cloneGraphStep (VmMono.cloneGraph allow f) g)

/-! ### bindings that survive: `Bnd v r vm` says every future value map (front extension with
pairwise different keys) binds `v` to `r` -/

def Fut (vm vmF : List (Nat × Nat)) : Prop := Sfx vm vmF ∧ (vmF.map (·.1)).Nodup

theorem Fut.mono {vm vm' vmF : List (Nat × Nat)} (hs : Sfx vm vm') (h : Fut vm' vmF) : Fut vm vmF :=
  ⟨hs.trans h.1, h.2⟩

def Bnd (v r : Nat) (vm : List (Nat × Nat)) : Prop := ∀ vmF, Fut vm vmF → vmF.lookup v = some r

theorem Bnd.of_lookup {v r : Nat} {vm : List (Nat × Nat)} (h : vm.lookup v = some r) : Bnd v r vm := by
  intro vmF hF
  obtain ⟨⟨ext, rfl⟩, hn⟩ := hF
  exact Total.lookup_ext hn h

theorem Bnd.mono {v r : Nat} {vm vm' : List (Nat × Nat)} (h : Bnd v r vm) (hs : Sfx vm vm') : Bnd v r vm' :=
  fun vmF hF => h vmF (hF.mono hs)

theorem all2_bnd_mono {vm vm' : List (Nat × Nat)} (hs : Sfx vm vm') {l l' : List Nat}
    (h : All2 (fun v r => Bnd v r vm) l l') : All2 (fun v r => Bnd v r vm') l l' :=
  All2.mono (fun _ _ hb => hb.mono hs) h

theorem all2_bnd_vals {vm vmF : List (Nat × Nat)} (hF : Fut vm vmF) {l l' : List Nat}
    (h : All2 (fun v r => Bnd v r vm) l l') : ValsImg vmF l l' :=
  All2.mono (fun _ _ hb => hb vmF hF) h

theorem cloneOrGetValue_bnd (v : Nat) (s : St) : Post (cloneOrGetValue v) s (fun r s1 => Bnd v r s1.vm) := by
  unfold Clone.cloneOrGetValue
  refine Post.bind (Post.vmGet v s) ?_
  rintro o s1 ⟨rfl, rfl⟩
  cases hlk : s1.vm.lookup v with
  | some v' => exact Post.pure (Bnd.of_lookup hlk)
  | none =>
    simp only
    refine Post.bind Post.trivial fun vs s2 _ => ?_
    refine Post.bind Post.trivial fun sh s3 _ => ?_
    refine Post.bind Post.trivial fun ty s4 _ => ?_
    refine Post.bind Post.trivial fun pr s5 _ => ?_
    refine Post.bind Post.trivial fun me s6 _ => ?_
    refine Post.bind Post.trivial fun v' s7 _ => ?_
    refine Post.bind (Post.vmSet v v' s7) ?_
    rintro _ s8 rfl
    exact Post.pure (Bnd.of_lookup (by simp [List.lookup_cons]))

theorem cloneOutput_bnd (i o : Nat) (s : St) : Post (cloneOutput i o) s (fun r s1 => Bnd o r s1.vm) := by
  unfold Clone.cloneOutput
  refine Post.bind Post.trivial fun vs s2 _ => ?_
  refine Post.bind Post.trivial fun sh s3 _ => ?_
  refine Post.bind Post.trivial fun ty s4 _ => ?_
  refine Post.bind Post.trivial fun pr s5 _ => ?_
  refine Post.bind Post.trivial fun me s6 _ => ?_
  refine Post.bind Post.trivial fun v' s7 _ => ?_
  refine Post.bind (Post.vmSet o v' s7) ?_
  rintro _ s8 rfl
  refine Post.bind ((VmMono.pendDiscard o).post _) ?_
  intro _ s9 hs
  exact Post.pure (Bnd.mono (Bnd.of_lookup (by simp [List.lookup_cons])) hs)

theorem cloneOutputs_bnd : ∀ (os : List Nat) (i : Nat) (s : St),
    Post (cloneOutputs i os) s (fun rs s1 => All2 (fun o r => Bnd o r s1.vm) os rs)
  | [], i, s => by unfold Clone.cloneOutputs; exact Post.pure .nil
  | o :: os, i, s => by
    unfold Clone.cloneOutputs
    refine Post.bind (cloneOutput_bnd i o s) fun o' s1 h1 => ?_
    refine Post.bind ((cloneOutputs_bnd os (i + 1) s1).and ((VmMono.cloneOutputs os (i + 1)).post s1)) ?_
    rintro rest s2 ⟨h2, hs⟩
    exact Post.pure (.cons (h1.mono hs) h2)

/-- the general list rule: facts that are stable along `CoreLe` and front extension -/
theorem mapM'_post {α β : Type} {f : α → M β} {R : α → β → St → Prop} (hv : ∀ a, VmMono (f a))
    (hR : ∀ a b s s', R a b s → CoreLe s.w s'.w → Sfx s.vm s'.vm → R a b s') :
    ∀ (l : List α) (s : St), K s → (∀ a ∈ l, ∀ s1, K s1 → Post (f a) s1 (fun b s2 => K s2 ∧ CoreLe s1.w s2.w ∧ R a b s2)) →
      Post (mapM' f l) s (fun r s1 => K s1 ∧ CoreLe s.w s1.w ∧ All2 (fun a b => R a b s1) l r)
  | [], s, hK, _ => Post.pure ⟨hK, CoreLe.refl _, .nil⟩
  | a :: as, s, hK, hf => by
    unfold Clone.mapM'
    refine Post.bind (hf a List.mem_cons_self s hK) ?_
    rintro b s1 ⟨hK1, hl1, hb⟩
    refine Post.bind ((mapM'_post hv hR as s1 hK1 (fun a' ha' s2 hK2 => hf a' (List.mem_cons_of_mem _ ha') s2 hK2)).and
      ((VmMono.mapM' hv as).post s1)) ?_
    rintro bs s2 ⟨⟨hK2, hl2, hbs⟩, hs⟩
    exact Post.pure ⟨hK2, hl1.trans hl2, .cons (hR _ _ _ _ hb hl2 hs) hbs⟩

/-! ### node inputs -/

/-- what the node-input loop does with one input -/
def InRel (allow : Bool) (vm : List (Nat × Nat)) (o o' : Option Nat) : Prop :=
  (∃ v v', o = some v ∧ o' = some v' ∧ vm.lookup v = some v') ∨ (o' = o ∧ (o = none ∨ allow = true))

theorem mapInputsPure_rel (allow : Bool) (s : St) :
    ∀ (l r : List (Option Nat)), mapInputsPure allow s l = .ok r → All2 (InRel allow s.vm) l r
  | [], r, h => by simp [mapInputsPure] at h; subst h; exact .nil
  | none :: rest, r, h => by
    unfold mapInputsPure at h
    cases h1 : mapInputsPure allow s rest with
    | error e => rw [h1] at h; cases h
    | ok r1 =>
      rw [h1] at h
      simp [Except.map] at h
      subst h
      exact .cons (.inr ⟨rfl, .inl rfl⟩) (mapInputsPure_rel allow s rest r1 h1)
  | some v :: rest, r, h => by
    unfold mapInputsPure at h
    have key : ∀ (x : Nat), InRel allow s.vm (some v) (some x) →
        (mapInputsPure allow s rest).map (some x :: ·) = .ok r → All2 (InRel allow s.vm) (some v :: rest) r := by
      intro x hrel hx
      cases h1 : mapInputsPure allow s rest with
      | error e => rw [h1] at hx; cases hx
      | ok r1 =>
        rw [h1] at hx
        simp [Except.map] at hx
        subst hx
        exact .cons hrel (mapInputsPure_rel allow s rest r1 h1)
    split at h
    · next v' hlk => exact key v' (.inl ⟨v, v', rfl, rfl, hlk⟩) h
    · split at h
      · next ha =>
        split at h
        · cases h
        · exact key v (.inr ⟨rfl, .inr ha⟩) h
      · cases h

theorem mapInputs_rel (allow : Bool) (l : List (Option Nat)) (s : St) :
    Post (mapInputs allow l) s (fun r s1 => s1 = s ∧ All2 (InRel allow s.vm) l r) := by
  intro r s1 e
  rw [mapInputs_eq_pure] at e
  simp only [Prod.mk.injEq] at e
  exact ⟨e.2.symm, mapInputsPure_rel allow s l r e.1⟩

theorem InRel.refImg {allow : Bool} {vm vmF : List (Nat × Nat)} (hF : Fut vm vmF) {o o' : Option Nat}
    (h : InRel allow vm o o') : RefImg allow vmF o o' := by
  rcases h with ⟨v, v', rfl, rfl, hlk⟩ | ⟨rfl, h2⟩
  · left
    have := Bnd.of_lookup hlk vmF hF
    simp [img, this]
  · rcases h2 with rfl | ha
    · left; rfl
    · right; exact ⟨ha, rfl⟩

theorem all2_length {α β : Type} {R : α → β → Prop} : ∀ {l : List α} {l' : List β}, All2 R l l' → l'.length = l.length
  | _, _, .nil => rfl
  | _, _, .cons _ t => by simp [all2_length t]

theorem inRel_shape {allow : Bool} {vm : List (Nat × Nat)} :
    ∀ {l l' : List (Option Nat)}, All2 (InRel allow vm) l l' → l'.map Option.isSome = l.map Option.isSome
  | _, _, .nil => rfl
  | _, _, .cons h t => by
    simp only [List.map_cons, inRel_shape t, List.cons.injEq, and_true]
    rcases h with ⟨v, v', rfl, rfl, _⟩ | ⟨rfl, _⟩ <;> rfl

/-! ### device annotations -/

theorem lookup_append_eq_none {l1 l2 : List (Nat × Nat)} {v : Nat} (h : (l1 ++ l2).lookup v = none) :
    l1.lookup v = none ∧ l2.lookup v = none := by
  cases h1 : l1.lookup v with
  | some x => rw [lookup_append_some h1] at h; cases h
  | none => rw [lookup_append_none h1] at h; exact ⟨rfl, h⟩

theorem remapSpec_img {allow : Bool} {ns : NodeS} {ins : List (Option Nat)} {outs : List Nat}
    {vmIn vmOut vmF : List (Nat × Nat)}
    (hins : All2 (InRel allow vmIn) ns.inputs ins) (hFin : Fut vmIn vmF)
    (houts : All2 (fun o r => Bnd o r vmOut) ns.outputs outs) (hFout : Fut vmOut vmF)
    (sp : DevSpec) (hchk : allow = false → specOuter ns vmOut sp = false) :
    SpecImg allow vmF sp (remapSpec (ioMap ns.inputs ins ns.outputs outs ++ vmOut) sp) := by
  unfold remapSpec
  split
  · next hnone => exact ⟨rfl, .inl (by rw [hnone]; rfl)⟩
  · next v hv =>
    split
    · next hlk =>
      refine ⟨rfl, ?_⟩
      cases ha : allow with
      | true => exact .inr ⟨rfl, rfl⟩
      | false =>
        exfalso
        have hso := hchk ha
        obtain ⟨h1, h2⟩ := lookup_append_eq_none hlk
        simp only [specOuter, hv, h2, Option.isNone_none, Bool.and_true] at hso
        have hl : some v ∈ ns.inputs ∨ v ∈ ns.outputs := by
          cases hc1 : ns.inputs.contains (some v) with
          | true => exact .inl (by simpa using hc1)
          | false =>
            cases hc2 : ns.outputs.contains v with
            | true => exact .inr (by simpa using hc2)
            | false => rw [hc1, hc2] at hso; simp at hso
        obtain ⟨x, hx⟩ := ioMap_local (all2_length houts) (inRel_shape hins) hl
        rw [h1] at hx
        cases hx
    · next v' hlk =>
      refine ⟨rfl, ?_⟩
      simp only [hv]
      cases hio : List.lookup v (ioMap ns.inputs ins ns.outputs outs) with
      | none =>
        rw [lookup_append_none hio] at hlk
        left
        have := Bnd.of_lookup hlk vmF hFout
        simp [img, this]
      | some x =>
        rw [lookup_append_some hio] at hlk
        cases hlk
        have hmem := mem_of_lookup hio
        unfold ioMap at hmem
        rcases List.mem_append.mp hmem with h1 | h1
        · have := all2_zip houts _ h1 vmF hFout
          left
          simp only at this
          simp [img, this]
        · obtain ⟨q, hq, hqe⟩ := List.mem_filterMap.mp h1
          have hr := all2_zip hins q hq
          rcases q with ⟨qa, qb⟩
          cases qa with
          | none => simp at hqe
          | some a =>
            cases qb with
            | none => simp at hqe
            | some b =>
              simp at hqe
              obtain ⟨rfl, rfl⟩ := hqe
              exact hr.refImg hFin

theorem remapDev_img {allow : Bool} {ns : NodeS} {ins : List (Option Nat)} {outs : List Nat}
    {vmIn vmOut vmF : List (Nat × Nat)}
    (hins : All2 (InRel allow vmIn) ns.inputs ins) (hFin : Fut vmIn vmF)
    (houts : All2 (fun o r => Bnd o r vmOut) ns.outputs outs) (hFout : Fut vmOut vmF)
    (hchk : allow = false → ns.dev.any (fun c => c.specs.any (specOuter ns vmOut)) = false) :
    DevImg allow vmF ns.dev (remapDev (ioMap ns.inputs ins ns.outputs outs ++ vmOut) ns.dev) := by
  have key : ∀ (d : List DevCfg), (∀ c ∈ d, c ∈ ns.dev) →
      DevImg allow vmF d (remapDev (ioMap ns.inputs ins ns.outputs outs ++ vmOut) d) := by
    intro d
    induction d with
    | nil => intro _; exact .nil
    | cons c cs ih =>
      intro hsub
      refine .cons ⟨rfl, ?_⟩ (ih fun c' hc' => hsub c' (List.mem_cons_of_mem _ hc'))
      have hc : c ∈ ns.dev := hsub c List.mem_cons_self
      have key2 : ∀ (l : List DevSpec), (∀ sp ∈ l, sp ∈ c.specs) →
          All2 (SpecImg allow vmF) l (l.map (remapSpec (ioMap ns.inputs ins ns.outputs outs ++ vmOut))) := by
        intro l
        induction l with
        | nil => intro _; exact .nil
        | cons sp sps ih2 =>
          intro hsub2
          refine .cons (remapSpec_img hins hFin houts hFout sp ?_) (ih2 fun x hx => hsub2 x (List.mem_cons_of_mem _ hx))
          intro ha
          have h1 := hchk ha
          rw [List.any_eq_false] at h1
          have h2 := h1 c hc
          simp only [Bool.not_eq_true] at h2
          rw [List.any_eq_false] at h2
          simpa using h2 sp (hsub2 sp List.mem_cons_self)
      exact key2 c.specs fun _ h => h
  exact key ns.dev fun _ h => h

theorem checkSpecs_post (allow : Bool) (ns : NodeS) (vm : List (Nat × Nat)) (s : St) :
    Post (checkSpecs allow ns vm) s (fun _ s1 => s1 = s ∧
      (allow = false → ns.dev.any (fun c => c.specs.any (specOuter ns vm)) = false)) := by
  intro u s1 e
  unfold checkSpecs at e
  split at e
  · simp [raise, Clone.fail] at e
  · next hcond =>
    simp only [Pure.pure, M.pure, Prod.mk.injEq] at e
    refine ⟨e.2.symm, fun ha => ?_⟩
    subst ha
    simpa using hcond

/-! ### attributes, nodes, graphs -/

theorem Post.simV {α : Type} {m : M α} {s : St} {Q : α → St → Prop} (h : SGoodAt m s Q) (hv : VmMono m) :
    Post m s (fun a s1 => K s1 ∧ CoreLe s.w s1.w ∧ Sfx s.vm s1.vm ∧ Q a s1) :=
  ((Post.ofSim h).and (hv.post s)).mono fun _ _ ⟨⟨a, b, c⟩, d⟩ => ⟨a, b, d, c⟩

theorem graphsWire_of_all2 {allow : Bool} {w : World} {vm : List (Nat × Nat)} :
    ∀ {l l' : List Nat}, All2 (GraphWire allow w vm) l l' → GraphsWire allow w vm l l'
  | _, _, .nil => .nil
  | _, _, .cons a b => .cons a (graphsWire_of_all2 b)
theorem nodesWire_of_all2 {allow : Bool} {w : World} {vm : List (Nat × Nat)} :
    ∀ {l l' : List Nat}, All2 (NodeWire allow w vm) l l' → NodesWire allow w vm l l'
  | _, _, .nil => .nil
  | _, _, .cons a b => .cons a (nodesWire_of_all2 b)
theorem attrsWire_of_all2 {allow : Bool} {w : World} {vm : List (Nat × Nat)} :
    ∀ {l l' : List (String × Nat)}, All2 (AttrWire allow w vm) l l' → AttrsWire allow w vm l l'
  | _, _, .nil => .nil
  | _, _, .cons a b => .cons a (attrsWire_of_all2 b)

/-- what the recursive call establishes -/
def GW (allow : Bool) (g g' : Nat) (s : St) : Prop := ∀ vmF, Fut s.vm vmF → GraphWire allow s.w vmF g g'

theorem GW.stable {allow : Bool} {g g' : Nat} {s s' : St} (h : GW allow g g' s) (hl : CoreLe s.w s'.w)
    (hs : Sfx s.vm s'.vm) : GW allow g g' s' := fun vmF hF => (h vmF (hF.mono hs)).mono hl

theorem cloneAttr_wire {allow : Bool} {rec : Nat → M Nat} (hv : ∀ g, VmMono (rec g))
    (hrec : ∀ g s, K s → Post (rec g) s (fun g' s1 => K s1 ∧ CoreLe s.w s1.w ∧ GW allow g g' s1))
    (key : String) (a : Nat) {s : St} (hK : K s) :
    Post (cloneAttr rec key a) s (fun r s1 => K s1 ∧ CoreLe s.w s1.w ∧
      ∀ vmF, Fut s1.vm vmF → AttrWire allow s1.w vmF (key, a) r) := by
  unfold Clone.cloneAttr
  refine Post.bind (Post.ofSim (SGoodAt.readAttr hK)) ?_
  rintro as s1 ⟨hK1, hl1, rfl, ha⟩
  split
  · next g hg =>
    refine Post.bind (hrec g s1 hK1) ?_
    rintro g' s2 ⟨hK2, hl2, hg'⟩
    refine Post.bind (Post.simV (SGoodAt.alloc _ hK2) (VmMono.alloc _)) ?_
    rintro a' s3 ⟨hK3, hl3, hs3, ha'⟩
    refine Post.pure ⟨hK3, hl2.trans hl3, fun vmF hF => ?_⟩
    exact .graph key a a' as g g' (cAttr_mono (hl2.trans hl3) (cAttr_of ha)) hg (cAttr_ofCore ha'.2.1)
      (hg'.stable hl3 hs3 vmF hF)
  · next gs hg =>
    refine Post.bind ((mapM'_post (R := fun g g' s => GW allow g g' s) hv
      (fun _ _ _ _ h hl hs => h.stable hl hs) gs s1 hK1 (fun g _ s2 hK2 => hrec g s2 hK2))) ?_
    rintro gs' s2 ⟨hK2, hl2, hgs'⟩
    refine Post.bind (Post.simV (SGoodAt.alloc _ hK2) (VmMono.alloc _)) ?_
    rintro a' s3 ⟨hK3, hl3, hs3, ha'⟩
    refine Post.pure ⟨hK3, hl2.trans hl3, fun vmF hF => ?_⟩
    exact .graphs key a a' as gs gs' (cAttr_mono (hl2.trans hl3) (cAttr_of ha)) hg (cAttr_ofCore ha'.2.1)
      (graphsWire_of_all2 (All2.mono (fun _ _ h => h.stable hl3 hs3 vmF hF) hgs'))
  · next h1 h2 =>
    refine Post.pure ⟨hK1, CoreLe.refl _, fun vmF _ => .shared key a as (cAttr_of ha) ?_⟩
    cases hv : as.v with
    | plain p => rfl
    | ref p => rfl
    | graph g => exact absurd hv (h1 g)
    | graphs gs => exact absurd hv (h2 gs)

theorem cloneNode_wire {allow : Bool} {rec : Nat → M Nat} (hv : ∀ g, VmMono (rec g))
    (hrec : ∀ g s, K s → Post (rec g) s (fun g' s1 => K s1 ∧ CoreLe s.w s1.w ∧ GW allow g g' s1))
    (n : Nat) {s : St} (hK : K s) :
    Post (cloneNode allow rec n) s (fun n' s1 => K s1 ∧ CoreLe s.w s1.w ∧
      ∀ vmF, Fut s1.vm vmF → NodeWire allow s1.w vmF n n') := by
  unfold Clone.cloneNode
  refine Post.bind (Post.ofSim (SGoodAt.readNode hK)) ?_
  rintro ns s1 ⟨hK1, hl1, rfl, hns⟩
  refine Post.bind ((Post.ofSim (mapInputs_sim (allow := allow) ns.inputs s1 hK1)).and (mapInputs_rel allow ns.inputs s1)) ?_
  rintro ins s2 ⟨⟨hK2, hl2, -, -⟩, rfl, hins⟩
  refine Post.bind ((mapM'_post (R := fun (ka : String × Nat) r s => ∀ vmF, Fut s.vm vmF → AttrWire allow s.w vmF ka r)
    (fun (ka : String × Nat) => VmMono.cloneAttr hv ka.1 ka.2)
    (fun _ _ _ _ h hl hs vmF hF => (h vmF (hF.mono hs)).mono hl) ns.attrs s2 hK2
    (fun ka _ s3 hK3 => cloneAttr_wire hv hrec ka.1 ka.2 hK3)).and
    ((VmMono.mapM' (fun (ka : String × Nat) => VmMono.cloneAttr hv ka.1 ka.2) ns.attrs).post s2)) ?_
  rintro attrs s3 ⟨⟨hK3, hl3, hattrs⟩, hs3⟩
  refine Post.bind (Post.simV (copyProps_sim ns.props hK3) (VmMono.copyProps _)) ?_
  rintro pr s4 ⟨hK4, hl4, hs4, hpr⟩
  refine Post.bind (Post.simV (copyMeta_sim ns.mstore hK4) (VmMono.copyMeta _)) ?_
  rintro me s5 ⟨hK5, hl5, hs5, hme⟩
  refine Post.bind ((Post.simV (cloneOutputs_sim ns.outputs 0 s5 hK5) (VmMono.cloneOutputs _ _)).and
    (cloneOutputs_bnd ns.outputs 0 s5)) ?_
  rintro outs s6 ⟨⟨hK6, hl6, hs6, -⟩, houts⟩
  refine Post.bind (Post.getVm s6) ?_
  rintro vm s7 ⟨rfl, rfl⟩
  refine Post.bind (checkSpecs_post allow ns s7.vm s7) ?_
  rintro u0 s7' ⟨rfl, hchk⟩
  refine Post.bind (Post.simV (allocNode_sim _ hK6) (VmMono.allocNode _)) ?_
  rintro n' s8 ⟨hK8, hl8, hs8, hn'⟩
  refine Post.bind (Post.simV (forM'_sim outs s8 hK8 (fun v _ s9 hK9 => setProducer_sim n' v hK9))
    (VmMono.forM' (fun v => VmMono.setProducer n' v) outs)) ?_
  rintro u s9 ⟨hK9, hl9, hs9, -⟩
  refine Post.bind (Post.simV (addUses_sim n' ins 0 s9 hK9) (VmMono.addUses n' ins 0)) ?_
  rintro u2 s10 ⟨hK10, hl10, hs10, -⟩
  have l2 : CoreLe s2.w s10.w := hl3.trans (hl4.trans (hl5.trans (hl6.trans (hl8.trans (hl9.trans hl10)))))
  have l3 : CoreLe s3.w s10.w := hl4.trans (hl5.trans (hl6.trans (hl8.trans (hl9.trans hl10))))
  have l4 : CoreLe s4.w s10.w := hl5.trans (hl6.trans (hl8.trans (hl9.trans hl10)))
  have l5 : CoreLe s5.w s10.w := hl6.trans (hl8.trans (hl9.trans hl10))
  have l8 : CoreLe s8.w s10.w := hl9.trans hl10
  have v6 : Sfx s7'.vm s10.vm := hs8.trans (hs9.trans hs10)
  have v3 : Sfx s3.vm s10.vm := hs4.trans (hs5.trans (hs6.trans v6))
  have v2 : Sfx s2.vm s10.vm := hs3.trans v3
  refine Post.pure ⟨hK10, l2, fun vmF hF => ?_⟩
  have hF6 : Fut s7'.vm vmF := hF.mono v6
  have hF2 : Fut s2.vm vmF := hF.mono v2
  have hattrs' : All2 (AttrWire allow s10.w vmF) ns.attrs attrs :=
    All2.mono (fun _ _ h => (h vmF (hF.mono v3)).mono l3) hattrs
  refine NodeWire.mk n n' _ _ attrs (cNode_mono l2 (cNode_of hns)) (cNode_mono l8 (cNode_ofCore hn'))
    rfl rfl rfl rfl rfl rfl (All2.mono (fun _ _ h => h.refImg hF2) hins) (all2_bnd_vals hF6 houts)
    (attrsWire_of_all2 hattrs') rfl ?_ ?_ (remapDev_img hins hF2 houts hF6 hchk)
  · obtain ⟨d, a, b⟩ := hpr
    exact ⟨d, _, cDict_mono l4 a, cDict_mono l4 b, rfl⟩
  · obtain ⟨d, a, b⟩ := hme
    exact ⟨d, _, cDict_mono l5 a, cDict_mono l5 b, rfl, rfl⟩

theorem getMapped_bnd (v : Nat) (s : St) : Post (getMapped v) s (fun r s1 => s1 = s ∧ Bnd v r s.vm) := by
  unfold Clone.getMapped
  refine Post.bind (Post.vmGet v s) ?_
  rintro o s1 ⟨rfl, rfl⟩
  cases hlk : s1.vm.lookup v with
  | some v' => exact Post.pure ⟨rfl, Bnd.of_lookup hlk⟩
  | none =>
    intro r s2 e
    simp [raise, Clone.fail] at e

/-- a bound, readable clone of a defined value -/
def VB (v r : Nat) (s : St) : Prop := Bnd v r s.vm ∧ ValSim s.w v r

theorem VB.stable {v r : Nat} {s s' : St} (h : VB v r s) (hl : CoreLe s.w s'.w) (hs : Sfx s.vm s'.vm) :
    VB v r s' := ⟨h.1.mono hs, h.2.mono hl⟩

theorem cloneOrGetValue_vb (v : Nat) {s : St} (hK : K s) :
    Post (cloneOrGetValue v) s (fun r s1 => K s1 ∧ CoreLe s.w s1.w ∧ VB v r s1) :=
  ((Post.ofSim (cloneOrGetValue_sim v hK)).and (cloneOrGetValue_bnd v s)).mono
    fun _ _ ⟨⟨a, b, c⟩, d⟩ => ⟨a, b, d, c⟩

theorem cloneGraphStep_wire {allow : Bool} {rec : Nat → M Nat} (hv : ∀ g, VmMono (rec g))
    (hrec : ∀ g s, K s → Post (rec g) s (fun g' s1 => K s1 ∧ CoreLe s.w s1.w ∧ GW allow g g' s1))
    (g : Nat) {s : St} (hK : K s) :
    Post (cloneGraphStep allow rec g) s (fun g' s1 => K s1 ∧ CoreLe s.w s1.w ∧ GW allow g g' s1) := by
  unfold Clone.cloneGraphStep
  refine Post.bind (Post.ofSim (SGoodAt.readGraph hK)) ?_
  rintro gs s1 ⟨hK1, hl1, rfl, hgs⟩
  refine Post.bind ((mapM'_post (R := fun v r s => VB v r s) VmMono.cloneOrGetValue
    (fun _ _ _ _ h hl hs => h.stable hl hs) gs.inputs s1 hK1 (fun v _ s2 hK2 => cloneOrGetValue_vb v hK2))) ?_
  rintro inputs s2 ⟨hK2, hl2, hin⟩
  refine Post.bind ((mapM'_post (R := fun v r s => VB v r s) VmMono.cloneOrGetValue
    (fun _ _ _ _ h hl hs => h.stable hl hs) (gs.inits.map (fun e => e.2)) s2 hK2
    (fun v _ s3 hK3 => cloneOrGetValue_vb v hK3)).and
    ((VmMono.mapM' VmMono.cloneOrGetValue (gs.inits.map (fun e => e.2))).post s2)) ?_
  rintro inits s3a ⟨⟨hK3a, hl3a, hinits⟩, hs3a⟩
  refine Post.bind (Post.ofSim (allOutputs_sim gs.nodes s3a hK3a)) ?_
  rintro pouts s3b ⟨hK3b, hl3b, rfl⟩
  refine Post.bind (Post.simV (SGoodAt.bookkeeping (m := pendAdd pouts) hK3b (fun _ => ⟨rfl, rfl⟩)) (VmMono.pendAdd _)) ?_
  rintro u0 s3 ⟨hK3, hl3c, hs3c, -⟩
  refine Post.bind ((mapM'_post (R := fun n n' s => ∀ vmF, Fut s.vm vmF → NodeWire allow s.w vmF n n')
    (VmMono.cloneNode hv) (fun _ _ _ _ h hl hs vmF hF => (h vmF (hF.mono hs)).mono hl) gs.nodes s3 hK3
    (fun n _ s4 hK4 => cloneNode_wire hv hrec n hK4)).and
    ((VmMono.mapM' (VmMono.cloneNode (allow := allow) hv) gs.nodes).post s3)) ?_
  rintro nodes s4 ⟨⟨hK4, hl4, hnodes⟩, hs4⟩
  refine Post.bind ((mapM'_post (R := fun v r s => Bnd v r s.vm) VmMono.getMapped
    (fun _ _ _ _ h _ hs => h.mono hs) gs.outputs s4 hK4
    (fun v _ s5 hK5 => ((Post.ofSim (getMapped_sim v hK5)).and (getMapped_bnd v s5)).mono
      fun _ _ ⟨⟨a, b, _⟩, rfl, d⟩ => ⟨a, b, d⟩)).and
    ((VmMono.mapM' VmMono.getMapped gs.outputs).post s4)) ?_
  rintro outputs s5 ⟨⟨hK5, hl5, hout⟩, hs5⟩
  refine (Post.simV (mkGraph_sim gs inputs outputs nodes inits hK5) (VmMono.mkGraph _ _ _ _ _)).mono ?_
  rintro g' s6 ⟨hK6, hl6, hs6, gs', hg', e1, e2, e3, e4, e5, e6, e7, e8, e9⟩
  have l3 : CoreLe s3b.w s6.w := hl3c.trans (hl4.trans (hl5.trans hl6))
  have v3 : Sfx s3b.vm s6.vm := hs3c.trans (hs4.trans (hs5.trans hs6))
  refine ⟨hK6, hl2.trans (hl3a.trans l3), fun vmF hF => ?_⟩
  refine .mk g g' gs gs' inits (cGraph_mono (hl2.trans (hl3a.trans l3)) (cGraph_of hgs)) hg' e1 e2 e3 ?_ ?_ ?_ e7 ?_ ?_ e8 e9
  · rw [e4]
    exact All2.mono (fun _ _ h => h.1 vmF (hF.mono (hs3a.trans v3))) hin
  · exact All2.mono (fun _ _ h => h.1 vmF (hF.mono v3)) hinits
  · exact All2.right_forall (fun _ _ h => (h.2.mono l3).readable_right) hinits
  · rw [e6]
    exact nodesWire_of_all2 (All2.mono (fun _ _ h => (h vmF (hF.mono (hs5.trans hs6))).mono (hl5.trans hl6)) hnodes)
  · rw [e5]
    exact All2.mono (fun _ _ h => h vmF (hF.mono hs6)) hout

theorem Post.guarded {body : M Nat} {s : St} {P : Nat → St → Prop} (h : Post body s P) :
    Post (guarded body) s P := by
  intro a s1 e
  rcases hbs : body s with ⟨r, s'⟩
  cases r with
  | ok x =>
    rw [guarded_ok hbs] at e
    exact h a s1 (by rw [hbs]; exact e)
  | error er =>
    have := guarded_err hbs
    rw [e] at this
    cases this

theorem cloneGraph_wire (allow : Bool) : ∀ (fuel g : Nat) (s : St), K s →
    Post (cloneGraph allow fuel g) s (fun g' s1 => K s1 ∧ CoreLe s.w s1.w ∧ GW allow g g' s1)
  | 0, _, s, _ => by
    intro a s1 e
    simp [Clone.cloneGraph, Clone.fail] at e
  | f + 1, g, s, hK =>
    Post.guarded (cloneGraphStep_wire (VmMono.cloneGraph allow f)
      (fun g' s' hK' => cloneGraph_wire allow f g' s' hK') g hK)

end Wire

/-! ### from the wiring image to the observational simulation -/

theorem RefImg.toSim {allow : Bool} {w : World} {vm : List (Nat × Nat)} (hK : ∀ p ∈ vm, ValSim w p.1 p.2)
    {r r' : Option Nat} (h : RefImg allow vm r r') : RefSim w r r' := by
  rcases h with h | ⟨_, h⟩
  · cases r with
    | none => exact .inl h
    | some v =>
      cases hlk : vm.lookup v with
      | none => exact .inl (by rw [h]; simp [img, hlk])
      | some v' =>
        exact .inr ⟨v, v', rfl, by rw [h]; simp [img, hlk], hK (v, v') (mem_of_lookup hlk)⟩
  · exact .inl h

theorem ValsImg.toSim {w : World} {vm : List (Nat × Nat)} (hK : ∀ p ∈ vm, ValSim w p.1 p.2)
    {l l' : List Nat} (h : ValsImg vm l l') : All2 (ValSim w) l l' :=
  All2.mono (fun v v' hlk => hK (v, v') (mem_of_lookup hlk)) h

theorem DevImg.toSim {allow : Bool} {w : World} {vm : List (Nat × Nat)} (hK : ∀ p ∈ vm, ValSim w p.1 p.2)
    {d d' : List DevCfg} (h : DevImg allow vm d d') : DevSim w d d' :=
  All2.mono (fun _ _ ⟨a, b⟩ => ⟨a, All2.mono (fun _ _ ⟨x, y⟩ => ⟨x, y.toSim hK⟩) b⟩) h

mutual
theorem AttrWire.toSim {allow : Bool} {w : World} {vm : List (Nat × Nat)} (hK : ∀ p ∈ vm, ValSim w p.1 p.2) :
    ∀ {x y : String × Nat}, AttrWire allow w vm x y → AttrSim w x y
  | _, _, .shared k a as h1 h2 => .shared k a as h1 h2
  | _, _, .graph k a a' as g g' h1 h2 h3 h4 => .graph k a a' as g g' h1 h2 h3 (GraphWire.toSim hK h4)
  | _, _, .graphs k a a' as gs gs' h1 h2 h3 h4 => .graphs k a a' as gs gs' h1 h2 h3 (GraphsWire.toSim hK h4)
theorem AttrsWire.toSim {allow : Bool} {w : World} {vm : List (Nat × Nat)} (hK : ∀ p ∈ vm, ValSim w p.1 p.2) :
    ∀ {x y : List (String × Nat)}, AttrsWire allow w vm x y → AttrsSim w x y
  | _, _, .nil => .nil
  | _, _, .cons a b => .cons (AttrWire.toSim hK a) (AttrsWire.toSim hK b)
theorem NodeWire.toSim {allow : Bool} {w : World} {vm : List (Nat × Nat)} (hK : ∀ p ∈ vm, ValSim w p.1 p.2) :
    ∀ {x y : Nat}, NodeWire allow w vm x y → NodeSim w x y
  | _, _, .mk n n' ns ns' na h1 h2 e1 e2 e3 e4 e5 e6 hin hout hat hd hp hm hdev =>
    .mk n n' ns ns' na h1 h2 e1 e2 e3 e4 e5 e6 (All2.mono (fun _ _ h => h.toSim hK) hin) (ValsImg.toSim hK hout)
      (AttrsWire.toSim hK hat) hd hp hm (hdev.toSim hK)
theorem NodesWire.toSim {allow : Bool} {w : World} {vm : List (Nat × Nat)} (hK : ∀ p ∈ vm, ValSim w p.1 p.2) :
    ∀ {x y : List Nat}, NodesWire allow w vm x y → NodesSim w x y
  | _, _, .nil => .nil
  | _, _, .cons a b => .cons (NodeWire.toSim hK a) (NodesWire.toSim hK b)
theorem GraphWire.toSim {allow : Bool} {w : World} {vm : List (Nat × Nat)} (hK : ∀ p ∈ vm, ValSim w p.1 p.2) :
    ∀ {x y : Nat}, GraphWire allow w vm x y → GraphSim w x y
  | _, _, .mk g g' gs gs' inits' h1 h2 e1 e2 e3 hin hinit _ hd hn hout hp hm =>
    .mk g g' gs gs' inits' h1 h2 e1 e2 e3 (ValsImg.toSim hK hin) (ValsImg.toSim hK hinit) hd
      (NodesWire.toSim hK hn) (ValsImg.toSim hK hout) hp hm
theorem GraphsWire.toSim {allow : Bool} {w : World} {vm : List (Nat × Nat)} (hK : ∀ p ∈ vm, ValSim w p.1 p.2) :
    ∀ {x y : List Nat}, GraphsWire allow w vm x y → GraphsSim w x y
  | _, _, .nil => .nil
  | _, _, .cons a b => .cons (GraphWire.toSim hK a) (GraphsWire.toSim hK b)
end

/-- when the walker accepts, the clone's wiring is the image of the source's wiring under the
    cloner's final value map, every pair of which relates equally observed values -/
theorem graphClone_wiring {w : World} {fuel : Nat} {allow : Bool} {g : Nat} {A : Sc}
    (h : cloneVerdict fuel allow w g = .ok A) :
    ∃ g' s', cloneGraph allow fuel g { w := w } = (.ok g', s') ∧
      run (graphClone fuel allow g) w = (.ok g', s'.w) ∧ GraphWire allow s'.w s'.vm g g' ∧
      (∀ p ∈ s'.vm, ValSim s'.w p.1 p.2) ∧ CoreLe w s'.w := by
  have := Total.graphClone_verdict fuel allow w g
  rw [h] at this
  obtain ⟨g', s', h1, h2, hT⟩ := this
  have hK0 : K { w := w } := by intro p hp; cases hp
  obtain ⟨hK, hle, hW⟩ := Wire.cloneGraph_wire allow fuel g { w := w } hK0 g' s' h1
  refine ⟨g', s', h1, h2, hW s'.vm ⟨Wire.Sfx.refl _, ?_⟩, hK, hle⟩
  rw [hT.keys]
  exact hT.nodup

end IrVerif.Clone

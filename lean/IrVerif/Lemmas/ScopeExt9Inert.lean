/-
The IR version < 10 format in the EXTENDED model: the experimental `domain::function/value` entries (info AND
metadata) that `serializeME9` appends to the main graph's value_info are INERT for the main graph's extended run
`deserGraphE`: same store, same extension state (merged metadata, annotations, device configurations), same tree,
same error with or without them.  Extended analogue of `Lemmas/ScopeFunc9Inert.lean`.
-/
import IrVerif.Model.ScopeExt9
import IrVerif.Lemmas.ScopeExtSer
import IrVerif.Lemmas.ScopeFunc9Inert
namespace IrVerif.Scope

/-! ### (1) the extended deserializer reads its value_info table only at the names it looks up -/

theorem eraseVT_lookup9 (n : Name) : ∀ (vt : List (Name × Info × SS)), (eraseVT vt).lookup n = (vt.lookup n).map (·.1)
  | [] => rfl
  | (k, i, m) :: vt => by
    simp only [eraseVT, List.map_cons, List.lookup_cons]
    cases n == k with
    | true => rfl
    | false => exact eraseVT_lookup9 n vt

theorem newNamedX_congr {vt vt' : List (Name × Info × SS)} (n : Name) (h : vt.lookup n = vt'.lookup n)
    (qt : List (Name × SS)) (x : Ext) (v : Nat) : x.newNamed vt qt v n = x.newNamed vt' qt v n := by
  simp only [Ext.newNamed, h]

theorem newNamedE_congr {vt vt' : List (Name × Info × SS)} (n : Name) (h : vt.lookup n = vt'.lookup n) (st : Store) :
    newNamed st (eraseVT vt) n = newNamed st (eraseVT vt') n :=
  newNamed_congr n (by rw [eraseVT_lookup9, eraseVT_lookup9, h]) st

theorem newInitE_congr {vt vt' : List (Name × Info × SS)} (t : TensorP) (h : vt.lookup t.name = vt'.lookup t.name)
    (st : Store) (tid : Nat) : newInit st (eraseVT vt) t tid = newInit st (eraseVT vt') t tid :=
  newInit_congr t (by rw [eraseVT_lookup9, eraseVT_lookup9, h]) st tid

theorem deserInitsE_congr {vt vt' : List (Name × Info × SS)} (qt : List (Name × SS)) :
    ∀ (ts : List TensorP) (st : Store) (x : Ext) (tbl : Table),
      (∀ t ∈ ts, vt.lookup t.name = vt'.lookup t.name) → deserInitsE st x tbl vt qt ts = deserInitsE st x tbl vt' qt ts
  | [], _, _, _, _ => rfl
  | t :: ts, st, x, tbl, h => by
    have ih := fun st x tbl => deserInitsE_congr qt ts st x tbl (fun u hu => h u (by simp [hu]))
    have hn1 := newInitE_congr t (h t (by simp))
    have hn2 := newNamedX_congr t.name (h t (by simp)) qt
    simp only [deserInitsE, ih, hn1, hn2]

theorem declareOutputsE_congr {vt vt' : List (Name × Info × SS)} (qt : List (Name × SS)) :
    ∀ (xs : List Name) (st : Store) (x : Ext) (tbl : Table),
      (∀ n ∈ xs, vt.lookup n = vt'.lookup n) → declareOutputsE st x tbl vt qt xs = declareOutputsE st x tbl vt' qt xs
  | [], _, _, _, _ => rfl
  | n :: xs, st, x, tbl, h => by
    have ih := fun st x tbl => declareOutputsE_congr qt xs st x tbl (fun u hu => h u (by simp [hu]))
    have hn1 := newNamedE_congr n (h n (by simp))
    have hn2 := newNamedX_congr n (h n (by simp)) qt
    simp only [declareOutputsE, ih, hn1, hn2]

theorem declareNodesE_congr {vt vt' : List (Name × Info × SS)} (qt : List (Name × SS)) :
    ∀ (ns : List NodeE) (st : Store) (x : Ext) (tbl : Table),
      (∀ n ∈ ns, ∀ y ∈ n.outputs, vt.lookup y = vt'.lookup y) →
      declareNodesE st x tbl vt qt ns = declareNodesE st x tbl vt' qt ns
  | [], _, _, _, _ => rfl
  | n :: ns, st, x, tbl, h => by
    have ih := fun st x tbl => declareNodesE_congr qt ns st x tbl (fun m hm => h m (by simp [hm]))
    have hn := fun st x tbl => declareOutputsE_congr qt n.outputs st x tbl (h n (by simp))
    simp only [declareNodesE, ih, hn]

theorem resolveInputsE_congr {vt vt' : List (Name × Info × SS)} (outer : List Table) (qt : List (Name × SS)) :
    ∀ (xs : List Name) (st : Store) (x : Ext) (top : Table),
      (∀ n ∈ xs, vt.lookup n = vt'.lookup n) →
      resolveInputsE st x top outer vt qt xs = resolveInputsE st x top outer vt' qt xs
  | [], _, _, _, _ => rfl
  | n :: xs, st, x, top, h => by
    have ih := fun st x top => resolveInputsE_congr outer qt xs st x top (fun u hu => h u (by simp [hu]))
    have hn1 := newNamedE_congr n (h n (by simp))
    have hn2 := newNamedX_congr n (h n (by simp)) qt
    simp only [resolveInputsE, ih, hn1, hn2]

def NodeE.inputs : NodeE → List Name | .mk i _ _ _ => i

theorem deserNodeE_congr {vt vt' : List (Name × Info × SS)} (outer : List Table) (qt : List (Name × SS)) (n : NodeE)
    (st : Store) (x : Ext) (top : Table) (h : ∀ y ∈ n.inputs, vt.lookup y = vt'.lookup y) :
    deserNodeE st x top outer vt qt n = deserNodeE st x top outer vt' qt n := by
  obtain ⟨i, o, d, s⟩ := n
  simp only [deserNodeE, resolveInputsE_congr outer qt i st x top h]

theorem deserNodesE_congr {vt vt' : List (Name × Info × SS)} (outer : List Table) (qt : List (Name × SS)) :
    ∀ (ns : List NodeE) (st : Store) (x : Ext) (top : Table),
      (∀ n ∈ ns, ∀ y ∈ n.inputs, vt.lookup y = vt'.lookup y) →
      deserNodesE st x top outer vt qt ns = deserNodesE st x top outer vt' qt ns
  | [], _, _, _, _ => by simp only [deserNodesE]
  | n :: ns, st, x, top, h => by
    have ih := fun st x top => deserNodesE_congr outer qt ns st x top (fun m hm => h m (by simp [hm]))
    have hn := fun st x top => deserNodeE_congr outer qt n st x top (h n (by simp))
    simp only [deserNodesE, ih, hn]

/-- the names the value_info table of an extended graph is looked up with -/
def lookupNamesE (its : List TensorP) (nodes : List NodeE) : List Name :=
  its.map (·.name) ++ nodes.flatMap fun n => n.inputs ++ n.outputs

theorem deserGraphE_vinfo_congr (st : Store) (x : Ext) (outer : List Table) (ins : List VInfoE) (its : List TensorP)
    (vi vi' : List VInfoE) (nodes : List NodeE) (outs : List VInfoE) (quant : List QuantP)
    (h : ∀ n ∈ lookupNamesE its nodes, (vinfoTableE vi).lookup n = (vinfoTableE vi').lookup n) :
    deserGraphE st x outer (.mk ins its vi nodes outs quant) = deserGraphE st x outer (.mk ins its vi' nodes outs quant) := by
  have h1 := fun qt st x tbl => deserInitsE_congr (vt := vinfoTableE vi) (vt' := vinfoTableE vi') qt its st x tbl
    (fun t ht => h _ (by simp only [lookupNamesE, List.mem_append, List.mem_map]; exact .inl ⟨t, ht, rfl⟩))
  have h2 := fun qt st x tbl => declareNodesE_congr (vt := vinfoTableE vi) (vt' := vinfoTableE vi') qt nodes st x tbl
    (fun n hn y hy => h _ (by
      simp only [lookupNamesE, List.mem_append, List.mem_flatMap]
      exact .inr ⟨n, hn, .inr hy⟩))
  have h3 := fun qt st x top => deserNodesE_congr (vt := vinfoTableE vi) (vt' := vinfoTableE vi') outer qt nodes st x top
    (fun n hn y hy => h _ (by
      simp only [lookupNamesE, List.mem_append, List.mem_flatMap]
      exact .inr ⟨n, hn, .inl hy⟩))
  simp only [deserGraphE, h1, h2, h3]

/-- entries (with any info and metadata) appended to the value_info of a graph under names the graph is never
    looked up with change nothing: store, extension state and tree -/
theorem deserGraphE_vinfo_extra (st : Store) (x : Ext) (outer : List Table) (ins : List VInfoE) (its : List TensorP)
    (vi extra : List VInfoE) (nodes : List NodeE) (outs : List VInfoE) (quant : List QuantP)
    (h : ∀ e ∈ extra, e.name ∉ lookupNamesE its nodes) :
    deserGraphE st x outer (.mk ins its (vi ++ extra) nodes outs quant) =
      deserGraphE st x outer (.mk ins its vi nodes outs quant) := by
  apply deserGraphE_vinfo_congr
  intro n hn
  simp only [vinfoTableE, List.map_append, List.reverse_append]
  apply lookup_append_of_not_key
  intro e he
  simp only [List.mem_reverse, List.mem_map] at he
  obtain ⟨y, hy, rfl⟩ := he
  intro heq
  exact h y hy (by simpa [← heq] using hn)

/-! ### (2) the names of the experimental entries are never looked up -/

theorem expVInfoE_mem (vals : Nat → ValueS) (x : Ext) (reserved : List Name) (id : FId) :
    ∀ (vs : List Nat), ∀ e ∈ expVInfoE vals x reserved id vs, reserved.contains e.name = false ∧ parseExp e.name ≠ none
  | [], e, he => by simp [expVInfoE] at he
  | v :: vs, e, he => by
    simp only [expVInfoE] at he
    split at he
    · rename_i hc
      simp only [List.mem_cons] at he
      rcases he with rfl | he
      · simp only [Bool.and_eq_true, canParseBack, Bool.not_eq_true', beq_iff_eq] at hc
        exact ⟨hc.2.1, by rw [hc.2.2]; simp⟩
      · exact expVInfoE_mem vals x reserved id vs e he
    · exact expVInfoE_mem vals x reserved id vs e he

theorem expOfFuncE_mem (vals : Nat → ValueS) (x : Ext) (reserved : List Name) (f : FId × GraphT) :
    ∀ e ∈ expOfFuncE vals x reserved f, reserved.contains e.name = false ∧ parseExp e.name ≠ none := by
  intro e he
  unfold expOfFuncE at he
  split at he
  · simp at he
  · obtain ⟨id, g⟩ := f
    cases g with
    | mk gid ins its nodes outs =>
      simp only [List.mem_append] at he
      rcases he with he | he
      · exact expVInfoE_mem _ _ _ _ _ e he
      · exact expVInfoE_mem _ _ _ _ _ e he

theorem xserNodes_names (V : Nat → ValueS) (x : Ext) (td : TData) (ver : Option Int) (annot : Bool) (go : List Nat) :
    ∀ (nodes : List NodeT) (nps : List NodeE) (qs : List QuantP) (vis : List VInfoE) (ws : Writes),
      serNodesE V x td ver annot go nodes = .ok (nps, qs, vis, ws) →
      ∀ np ∈ nps, ∃ n ∈ nodes, np.inputs = n.inputs.map (inName V) ∧ np.outputs = (stripTrailing V n.outputs).map (nm V)
  | [], nps, qs, vis, ws, h => by
    simp only [serNodesE, Except.ok.injEq, Prod.mk.injEq] at h
    obtain ⟨rfl, _⟩ := h
    intro np hnp
    simp at hnp
  | n :: ns, nps, qs, vis, ws, h => by
    obtain ⟨np0, q1, vi1, ws1, nps', qs', vis', ws2, h1, h2, rfl, _, _⟩ := xserNodes_inv h
    intro np hnp
    simp only [List.mem_cons] at hnp
    rcases hnp with rfl | hnp
    · obtain ⟨i, g, a, b, c⟩ := n
      obtain ⟨gps, ds, _, _, _, rfl, _, _⟩ := xserNode_inv h1
      exact ⟨.mk i g a b c, by simp, rfl, rfl⟩
    · obtain ⟨m, hm, e⟩ := xserNodes_names V x td ver annot go ns nps' qs' vis' ws2 h2 np hnp
      exact ⟨m, by simp [hm], e⟩

theorem lookupNamesE_reserved (V : Nat → ValueS) (x : Ext) (td : TData) (ver : Option Int) (gid : Nat) (ins : List Nat)
    (inits : List (Name × Nat)) (nodes : List NodeT) (outs : List Nat) (nps : List NodeE) (qs : List QuantP)
    (vis : List VInfoE) (ws : Writes)
    (hn : serNodesE V x td ver true outs nodes = .ok (nps, qs, vis, ws))
    (hkeys : ∀ kv ∈ inits, (V kv.2).name = some kv.1) :
    ∀ y ∈ lookupNamesE (serInitsE V x td (ins.map fun v => (V v).name) inits).2.1 nps, y ≠ "" →
      y ∈ reservedNames V (.mk gid ins inits nodes outs) := by
  intro y hy hne
  simp only [lookupNamesE, List.mem_append, List.mem_map, List.mem_flatMap] at hy
  simp only [reservedNames, List.mem_append, List.mem_filterMap, List.mem_filter, List.mem_map, List.mem_flatMap]
  rcases hy with ⟨t, ht, rfl⟩ | ⟨np, hnp, hy⟩
  · rw [xserInits_tensors] at ht
    obtain ⟨kv, hkv, hname⟩ := serInits_tensor_names V td _ inits t ht
    have hk := hkeys kv hkv
    have : t.name = kv.1 := by rw [hname]; simp [nm, hk]
    right
    exact ⟨⟨kv, hkv, this.symm⟩, by simpa [this] using hne⟩
  · obtain ⟨n, hnm, e1, e2⟩ := xserNodes_names V x td ver true outs nodes nps qs vis ws hn np hnp
    left
    have key : ∀ v, (some v ∈ n.inputs ∨ v ∈ n.outputs) → nm V v = y →
        ∃ a, (∃ n ∈ nodes, (∃ o ∈ n.inputs, id o = some a) ∨ a ∈ n.outputs) ∧
          (match (V a).name with | some s => if s = "" then none else some s | none => none) = some y := by
      intro v hv hvy
      refine ⟨v, ⟨n, hnm, ?_⟩, ?_⟩
      · rcases hv with hv | hv
        · left; exact ⟨some v, hv, rfl⟩
        · right; exact hv
      · cases hname : (V v).name with
        | none => exact absurd (show y = "" by rw [← hvy]; simp [nm, hname]) hne
        | some s =>
          have : s = y := by simpa [nm, hname] using hvy
          subst this
          simp [hne]
    rcases hy with hy | hy
    · rw [e1, List.mem_map] at hy
      obtain ⟨o, ho, hoy⟩ := hy
      cases o with
      | none => exact absurd hoy.symm hne
      | some v => exact key v (.inl ho) hoy
    · rw [e2, List.mem_map] at hy
      obtain ⟨v, hv, hvy⟩ := hy
      exact key v (.inr (stripTrailing_sub V _ v hv)) hvy

/-- **the experimental entries of `serializeME9` are inert for the main graph's extended run**: with or without them
    the main graph deserializes to the same store, the same extension state (merged metadata, annotations, device
    configurations) and the same tree, or the same error, in every store / extension state / scope stack -/
theorem ext9_entries_inert (ver : Option Int) (m w1 : MWorldE) (Q : ModelE) (h : serializeME9 ver m = .ok (w1, Q))
    (hkeys : ∀ kv ∈ m.root.inits, (m.st.vals kv.2).name = some kv.1) :
    ∃ q, serializeME ver m = .ok (w1, q) ∧
      ∀ (st : Store) (x : Ext) (outer : List Table), deserGraphE st x outer Q.graph = deserGraphE st x outer q.graph := by
  simp only [serializeME9] at h
  split at h
  · simp at h
  · rename_i w1' q hq
    simp only [Except.ok.injEq, Prod.mk.injEq] at h
    obtain ⟨rfl, rfl⟩ := h
    refine ⟨q, hq, fun st x outer => ?_⟩
    simp only [serializeME] at hq
    split at hq
    · simp at hq
    · rename_i p ws1 hp
      split at hq
      · simp at hq
      · simp only [Except.ok.injEq, Prod.mk.injEq] at hq
        obtain ⟨_, rfl⟩ := hq
        obtain ⟨st0, x0, root, funcs⟩ := m
        obtain ⟨gid, ins, inits, nodes, outs⟩ := root
        obtain ⟨qIn, seen1, qInit, seen2, nps, qNodes, vis2, ws2, qOut, seen3, _, _, _, _, hn, _, rfl⟩ := xserGraph_inv hp
        simp only [addVInfoE]
        apply deserGraphE_vinfo_extra
        intro e he hmem
        simp only [List.mem_flatMap] at he
        obtain ⟨f, _, hef⟩ := he
        obtain ⟨hres, hparse⟩ := expOfFuncE_mem _ _ _ f e hef
        have hne : e.name ≠ "" := fun h0 => hparse (by rw [h0]; exact parseExp_empty)
        have := lookupNamesE_reserved st0.vals x0 st0.tdata ver gid ins inits nodes outs nps qNodes vis2 ws2 hn hkeys
          e.name hmem hne
        simp only [List.contains_eq_mem, decide_eq_false_iff_not] at hres
        exact hres this

end IrVerif.Scope

/-
Frame lemma for the fourth editing alphabet `IrVerif.Clone.Edit4` (Model/Clone4.lean): item-level
calls on `graph.inputs` / `graph.outputs` (`insert`, `remove`, `del lst[i]`, `lst[i] = v`, `extend`,
`clear`), `initializers.setdefault`, extended slices (assignment and deletion) and
`convenience.replace_nodes_and_values` with several old and several freshly built new nodes.  With
the extended separation (`CellOutX true`), a call whose receivers and arguments are outside the
protected region `B` leaves every cell of `B` as it was and re-establishes the separation; proved BY
COMPOSITION from the pieces of the older alphabets (`fsetSliceG_good`, `funsetSeq_good`,
`fsetInitCore_good`, `fcopyInfo_good`, `applyEdit2_frame`, `fremoveSafeM_good`, ...).  Then the
history form (`runHistory4_inv`) and the general frame theorem `Frame4.frame_ext4`.
-/
import IrVerif.Model.Clone4
import IrVerif.Lemmas.CloneFrame3
namespace IrVerif.Clone

section
variable {strict : Bool} {B : Nat → Prop} {wB : World}

def ArgsOut4 (B : Nat → Prop) (e : Edit4) : Prop := ∀ a ∈ e.args, ¬ B a

/-! ### the two tracked lists -/

/-- what the frame argument needs to know about a tracked list -/
structure IOGood (strict : Bool) (B : Nat → Prop) (sel : IOSel) : Prop where
  hcheck : ∀ g v, Quiet (sel.check g v)
  hclear : ∀ x, CellOutX true strict B (.val x) → CellOutX true strict B (.val (sel.clear x))
  hmark : ∀ x, CellOutX true strict B (.val x) → CellOutX true strict B (.val (sel.mark x))
  hget : ∀ gs, CellOutX true strict B (.graph gs) → ∀ v ∈ sel.get gs, ¬ B v
  hput : ∀ gs l, CellOutX true strict B (.graph gs) → (∀ v ∈ l, ¬ B v) →
    CellOutX true strict B (.graph (sel.put gs l))

theorem ioSel_good (inp : Bool) : IOGood strict B (ioSel inp) := by
  cases inp with
  | true =>
    refine ⟨fun g v => Quiet.checkInput g v, ?_, ?_, ?_, ?_⟩
    · rintro x ⟨a1, a2, a3, a4, a5, a6, a7⟩; exact ⟨a1, a2, a3, a4, a5, a6, a7⟩
    · rintro x ⟨a1, a2, a3, a4, a5, a6, a7⟩; exact ⟨a1, a2, a3, a4, a5, a6, a7⟩
    · rintro gs ⟨_, _, _, gx⟩; exact (gx rfl).1
    · rintro gs l ⟨go, gp, gm, gx⟩ hl; exact ⟨go, gp, gm, fun hu => ⟨hl, (gx hu).2⟩⟩
  | false =>
    refine ⟨fun g v => Quiet.checkOwned g v, ?_, ?_, ?_, ?_⟩
    · rintro x ⟨a1, a2, a3, a4, a5, a6, a7⟩; exact ⟨a1, a2, a3, a4, a5, a6, a7⟩
    · rintro x ⟨a1, a2, a3, a4, a5, a6, a7⟩; exact ⟨a1, a2, a3, a4, a5, a6, a7⟩
    · rintro gs ⟨go, _, _, _⟩; exact go
    · rintro gs l ⟨go, gp, gm, gx⟩ hl; exact ⟨hl, gp, gm, gx⟩

theorem mem_dropAt {idx : List Nat} : ∀ (l : List Nat) (k x : Nat), x ∈ dropAt idx k l → x ∈ l
  | [], _, _, h => by simp [dropAt] at h
  | y :: ys, k, x, h => by
    unfold dropAt at h
    split at h
    · exact List.mem_cons_of_mem _ (mem_dropAt ys (k + 1) x h)
    · rcases List.mem_cons.mp h with rfl | h1
      · exact List.mem_cons_self
      · exact List.mem_cons_of_mem _ (mem_dropAt ys (k + 1) x h1)

theorem mem_pickAt {data idx : List Nat} {x : Nat} (h : x ∈ pickAt data idx) : x ∈ data := by
  unfold pickAt at h
  obtain ⟨p, _, hp⟩ := List.mem_filterMap.mp h
  exact List.mem_of_getElem? hp

theorem mem_setAt : ∀ (pv : List (Nat × Nat)) (data : List Nat) (x : Nat),
    x ∈ setAt data pv → x ∈ data ∨ ∃ p ∈ pv, p.2 = x
  | [], _, _, h => .inl h
  | p :: rest, data, x, h => by
    have h' : x ∈ setAt (data.set p.1 p.2) rest := h
    rcases mem_setAt rest (data.set p.1 p.2) x h' with h1 | ⟨q, hq, rfl⟩
    · rcases List.mem_or_eq_of_mem_set h1 with h2 | h2
      · exact .inl h2
      · exact .inr ⟨p, List.mem_cons_self, h2.symm⟩
    · exact .inr ⟨q, List.mem_cons_of_mem _ hq, rfl⟩

theorem fsetSliceSel_good {s : St} {sel : IOSel} (hs : IOGood strict B sel) (g a b : Nat) (vs : List Nat)
    (hI : FInv true strict B wB s) (hg : ¬ B g) (hvs : ∀ v ∈ vs, ¬ B v) :
    FGoodAt true strict B wB (setSliceG (sel.check g) sel.clear sel.mark sel.get sel.put g a b vs) s
      (fun _ _ => True) :=
  fsetSliceG_good g a b vs (hs.hcheck g) hs.hclear hs.hmark hs.hget hs.hput hI hg hvs

theorem fdelIdxG_good {s : St} {sel : IOSel} (hs : IOGood strict B sel) (g : Nat) (gs : GraphS) (idx : List Nat)
    (hI : FInv true strict B wB s) (hg : ¬ B g) (hgs : s.w[g]? = some (.graph gs)) :
    FGoodAt true strict B wB (delIdxG sel g gs idx) s (fun _ _ => True) := by
  unfold delIdxG
  have hc := hI.sep g (.graph gs) hg hgs
  have hdata := hs.hget gs hc
  fbind (FGoodAt.set hI hg (hs.hput gs _ hc (fun v hv => hdata v (mem_dropAt _ _ _ hv)))) with u s1 hI1 hl1 hq1
  exact funsetSeq_good g sel.clear hs.hclear _ _ s1 hI1 (fun v hv => hdata v (mem_pickAt hv))

theorem fioInsert_good {s : St} {sel : IOSel} (hs : IOGood strict B sel) (g : Nat) (i : Int) (v : Nat)
    (hI : FInv true strict B wB s) (hg : ¬ B g) (hv : ¬ B v) :
    FGoodAt true strict B wB (ioInsert sel g i v) s (fun _ _ => True) := by
  unfold ioInsert
  fbind (FGoodAt.readGraph hI) with gs s1 hI1 hl1 hq1
  split
  · exact FGoodAt.unsupported hI1
  · exact fsetSliceSel_good hs g _ _ [v] hI1 hg (fun x hx => by simp at hx; subst hx; exact hv)

theorem fioRemove_good {s : St} {sel : IOSel} (hs : IOGood strict B sel) (g v : Nat)
    (hI : FInv true strict B wB s) (hg : ¬ B g) :
    FGoodAt true strict B wB (ioRemove sel g v) s (fun _ _ => True) := by
  unfold ioRemove
  fbind (FGoodAt.readGraph hI) with gs s1 hI1 hl1 hq1
  obtain ⟨rfl, hgs⟩ := hq1
  split
  · exact FGoodAt.unsupported hI1
  · split
    · exact FGoodAt.raise hI1
    · exact fdelIdxG_good hs g gs _ hI1 hg hgs

theorem fioDelAt_good {s : St} {sel : IOSel} (hs : IOGood strict B sel) (g : Nat) (i : Int)
    (hI : FInv true strict B wB s) (hg : ¬ B g) :
    FGoodAt true strict B wB (ioDelAt sel g i) s (fun _ _ => True) := by
  unfold ioDelAt
  fbind (FGoodAt.readGraph hI) with gs s1 hI1 hl1 hq1
  obtain ⟨rfl, hgs⟩ := hq1
  split
  · exact FGoodAt.unsupported hI1
  · split
    · exact FGoodAt.raise hI1
    · exact fdelIdxG_good hs g gs _ hI1 hg hgs

theorem fioSetAt_good {s : St} {sel : IOSel} (hs : IOGood strict B sel) (g : Nat) (i : Int) (v : Nat)
    (hI : FInv true strict B wB s) (hg : ¬ B g) (hv : ¬ B v) :
    FGoodAt true strict B wB (ioSetAt sel g i v) s (fun _ _ => True) := by
  unfold ioSetAt
  fbind (FGoodAt.readGraph hI) with gs s1 hI1 hl1 hq1
  split
  · exact FGoodAt.unsupported hI1
  · split
    · exact FGoodAt.raise hI1
    · exact fsetSliceSel_good hs g _ _ [v] hI1 hg (fun x hx => by simp at hx; subst hx; exact hv)

theorem fioExtend_good {s : St} {sel : IOSel} (hs : IOGood strict B sel) (g : Nat) (vs : List Nat)
    (hI : FInv true strict B wB s) (hg : ¬ B g) (hvs : ∀ v ∈ vs, ¬ B v) :
    FGoodAt true strict B wB (ioExtend sel g vs) s (fun _ _ => True) := by
  unfold ioExtend
  fbind (FGoodAt.readGraph hI) with gs s1 hI1 hl1 hq1
  split
  · exact FGoodAt.unsupported hI1
  · exact fsetSliceSel_good hs g _ _ vs hI1 hg hvs

theorem fioClear_good {s : St} {sel : IOSel} (hs : IOGood strict B sel) (g : Nat)
    (hI : FInv true strict B wB s) (hg : ¬ B g) :
    FGoodAt true strict B wB (ioClear sel g) s (fun _ _ => True) := by
  unfold ioClear
  fbind (FGoodAt.readGraph hI) with gs s1 hI1 hl1 hq1
  split
  · exact FGoodAt.unsupported hI1
  · exact fsetSliceSel_good hs g _ _ [] hI1 hg (fun x hx => by cases hx)

theorem fioSetStep_good {s : St} {sel : IOSel} (hs : IOGood strict B sel) (g : Nat) (a b : Option Int) (st : Int)
    (vs : List Nat) (hI : FInv true strict B wB s) (hg : ¬ B g) (hvs : ∀ v ∈ vs, ¬ B v) :
    FGoodAt true strict B wB (ioSetStep sel g a b st vs) s (fun _ _ => True) := by
  unfold ioSetStep
  fbind (FGoodAt.readGraph hI) with gs s1 hI1 hl1 hq1
  obtain ⟨rfl, hgs⟩ := hq1
  have hdata := hs.hget gs (hI1.sep g (.graph gs) hg hgs)
  split
  · exact FGoodAt.unsupported hI1
  · split
    · exact fsetSliceSel_good hs g _ _ vs hI1 hg hvs
    · fbind (fforM'_good (f := sel.check g) _ _ hI1
        (fun v _ s3 hI3 => ((hs.hcheck g v).good hI3).mono fun _ _ _ _ _ => trivial)) with u0 s2 hI2 hl2 hq2
      split
      · exact FGoodAt.raise hI2
      · dsimp only
        split
        · exact FGoodAt.raise hI2
        · fbind (funsetSeq_good g sel.clear hs.hclear _ _ s2 hI2 (fun v hv => hdata v (mem_pickAt hv)))
            with u1 s3 hI3 hl3 hq3
          have hset : FGoodAt true strict B wB (forM' (fun v => do
                sel.check g v
                setValueOwner g sel.mark v) vs) s3 (fun _ _ => True) := by
            refine fforM'_good _ _ hI3 (fun v hv s4 hI4 => ?_)
            fbind ((hs.hcheck g v).good hI4) with u s5 hI5 hl5 hq5
            exact fsetValueOwner_good g sel.mark v hI5 hg (hvs v hv) hs.hmark
          fbind hset with u2 s4 hI4 hl4 hq4
          fbind (FGoodAt.readGraph hI4) with gs2 s5 hI5 hl5 hq5
          obtain ⟨rfl, hgs2⟩ := hq5
          refine FGoodAt.set hI5 hg (hs.hput gs2 _ (hI5.sep g (.graph gs2) hg hgs2) ?_)
          intro v hv
          rcases mem_setAt _ _ v hv with h1 | ⟨p, hp, rfl⟩
          · exact hdata v h1
          · exact hvs _ (List.of_mem_zip hp).2

theorem fioDelStep_good {s : St} {sel : IOSel} (hs : IOGood strict B sel) (g : Nat) (a b : Option Int) (st : Int)
    (hI : FInv true strict B wB s) (hg : ¬ B g) :
    FGoodAt true strict B wB (ioDelStep sel g a b st) s (fun _ _ => True) := by
  unfold ioDelStep
  fbind (FGoodAt.readGraph hI) with gs s1 hI1 hl1 hq1
  obtain ⟨rfl, hgs⟩ := hq1
  split
  · exact FGoodAt.unsupported hI1
  · split
    · exact FGoodAt.raise hI1
    · exact fdelIdxG_good hs g gs _ hI1 hg hgs

/-! ### `replace_nodes_and_values` with several nodes -/

/-- the nodes built so far and their outputs are outside `B` -/
def BuiltOut (B : Nat → Prop) (built : List (Nat × List Nat)) : Prop :=
  ∀ b ∈ built, ¬ B b.1 ∧ ∀ o ∈ b.2, ¬ B o

theorem resolveRef_out {built : List (Nat × List Nat)} {r : InRef} {v : Nat}
    (h : resolveRef built r = some (some v)) : r.arg = some v ∨ ∃ b ∈ built, v ∈ b.2 := by
  cases r with
  | absent => simp [resolveRef] at h
  | old x =>
    simp only [resolveRef, Option.some.injEq] at h
    subst h
    exact .inl rfl
  | fresh k j =>
    simp only [resolveRef] at h
    split at h
    · next b hb =>
      cases hj : b.2[j]? with
      | none => rw [hj] at h; cases h
      | some y =>
        rw [hj] at h
        simp only [Option.map_some, Option.some.injEq] at h
        subst h
        exact .inr ⟨b, List.mem_of_getElem? hb, List.mem_of_getElem? hj⟩
    · cases h

theorem resolveRefs_out {built : List (Nat × List Nat)} (hb : BuiltOut B built) :
    ∀ (refs : List InRef) (ins : List (Option Nat)), (∀ r ∈ refs, ∀ v, r.arg = some v → ¬ B v) →
      resolveRefs built refs = some ins → ∀ v, some v ∈ ins → ¬ B v
  | [], ins, _, h, v, hv => by
    simp only [resolveRefs, Option.some.injEq] at h
    subst h
    cases hv
  | r :: rest, ins, hr, h, v, hv => by
    unfold resolveRefs at h
    split at h
    · next x xs hx hxs =>
      simp only [Option.some.injEq] at h
      subst h
      rcases List.mem_cons.mp hv with h1 | h1
      · rcases resolveRef_out (h1 ▸ hx) with h2 | ⟨b, hbm, hvb⟩
        · exact hr r List.mem_cons_self v h2
        · exact (hb b hbm).2 v hvb
      · exact resolveRefs_out hb rest xs (fun r' hr' => hr r' (List.mem_cons_of_mem _ hr')) hxs v h1
    · cases h

theorem resolveOuts_out {built : List (Nat × List Nat)} (hb : BuiltOut B built) :
    ∀ (refs : List (Nat × Nat)) (nvs : List Nat), resolveOuts built refs = some nvs → ∀ v ∈ nvs, ¬ B v
  | [], nvs, h, v, hv => by
    simp only [resolveOuts, Option.some.injEq] at h
    subst h
    cases hv
  | r :: rest, nvs, h, v, hv => by
    unfold resolveOuts at h
    split at h
    · next x xs hx hxs =>
      simp only [Option.some.injEq] at h
      subst h
      rcases List.mem_cons.mp hv with h1 | h1
      · subst h1
        unfold outRef at hx
        split at hx
        · next b hbm => exact (hb b (List.mem_of_getElem? hbm)).2 v (List.mem_of_getElem? hx)
        · cases hx
      · exact resolveOuts_out hb rest xs hxs v h1
    · cases h

theorem fbuildNode_good {s : St} (built : List (Nat × List Nat)) (nn : NewNode) (hb : BuiltOut B built)
    (hin : ∀ r ∈ nn.inputs, ∀ v, r.arg = some v → ¬ B v) (hI : FInv true strict B wB s) :
    FGoodAt true strict B wB (buildNode built nn) s (fun r _ => ¬ B r.1 ∧ ∀ o ∈ r.2, ¬ B o) := by
  unfold buildNode
  split
  · exact FGoodAt.unsupported hI
  · next inputs hres =>
    have hins : ∀ v, some v ∈ inputs → ¬ B v := resolveRefs_out hb nn.inputs inputs hin hres
    fbind (FGoodAt.alloc hI (c := .dict {}) trivial) with pr s2 hI2 hl2 hpr
    fbind (FGoodAt.alloc hI2 (c := .dict {}) trivial) with me s3 hI3 hl3 hme
    have hc : CellOutX true strict B
        (.node { name := some nn.name, opType := nn.op, inputs := inputs, props := pr, mstore := me }) :=
      ⟨fun _ => hins, hpr.1, hme.1, fun _ o ho => by cases ho⟩
    fbind (FGoodAt.alloc hI3 hc) with n' s4 hI4 hl4 hn'
    fbind (fmkOutputs_good n' nn.outNames.length 0 s4 hI4) with outs s5 hI5 hl5 houts
    fbind (FGoodAt.readNode hI5) with x s6 hI6 hl6 hq6
    obtain ⟨rfl, hx⟩ := hq6
    obtain ⟨b1, b2, b3, _⟩ := hI6.sep n' (.node x) hn'.1 hx
    fbind (FGoodAt.set hI6 hn'.1 (show CellOutX true strict B (.node { x with outputs := outs }) from
      ⟨b1, b2, b3, fun _ => houts⟩)) with u s7 hI7 hl7 hq7
    fbind (faddUses_good n' hn'.1 inputs 0 s7 hI7 hins) with u2 s8 hI8 hl8 hq8
    fbind (fsetOutputNames_good outs nn.outNames s8 hI8 houts) with u3 s9 hI9 hl9 hq9
    exact FGoodAt.pure hI9 ⟨hn'.1, houts⟩

theorem fbuildNodes_good : ∀ (news : List NewNode) (built : List (Nat × List Nat)) (s : St),
    BuiltOut B built → (∀ nn ∈ news, ∀ r ∈ nn.inputs, ∀ v, r.arg = some v → ¬ B v) → FInv true strict B wB s →
    FGoodAt true strict B wB (buildNodes built news) s (fun r _ => BuiltOut B r)
  | [], built, s, hb, _, hI => FGoodAt.pure hI hb
  | nn :: rest, built, s, hb, hin, hI => by
    unfold buildNodes
    fbind (fbuildNode_good built nn hb (hin nn List.mem_cons_self) hI) with b s1 hI1 hl1 hq1
    refine fbuildNodes_good rest (built ++ [b]) s1 ?_ (fun nn' h' => hin nn' (List.mem_cons_of_mem _ h')) hI1
    intro b' hb'
    rcases List.mem_append.mp hb' with h1 | h1
    · exact hb b' h1
    · simp at h1; subst h1; exact hq1

theorem finsertManyAfter_good {s : St} (g anchor : Nat) (news : List Nat)
    (hI : FInv true strict B wB s) (hg : ¬ B g) (hnews : ∀ n ∈ news, ¬ B n) :
    FGoodAt true strict B wB (insertManyAfter g anchor news) s (fun _ _ => True) := by
  unfold insertManyAfter
  fbind (FGoodAt.readGraph hI) with gs s1 hI1 hl1 hq1
  split
  · exact FGoodAt.unsupported hI1
  · fbind (FGoodAt.readNode hI1) with as s2 hI2 hl2 hq2
    split
    · exact FGoodAt.raise hI2
    · split
      · exact FGoodAt.unsupported hI2
      · fbind (fgetWorld_good hI2) with w s3 hI3 hl3 hq3
        subst hq3
        fbind (fforM'_good (f := fun n => liftE (nodeAddable w g n)) _ _ hI3
          (fun n _ s4 hI4 => ((Quiet.liftE _).good hI4).mono fun _ _ _ _ _ => trivial)) with u s4 hI4 hl4 hq4
        have hset : FGoodAt true strict B wB (forM' (fun n => do
              let x ← readNode n
              setCell n (.node { x with graph := some g })) news) s4 (fun _ _ => True) := by
          refine fforM'_good _ _ hI4 (fun n hn s5 hI5 => ?_)
          have hnB : ¬ B n := hnews n hn
          fbind (FGoodAt.readNode hI5) with x s6 hI6 hl6 hq6
          obtain ⟨rfl, hx⟩ := hq6
          exact FGoodAt.set hI6 hnB (show CellOutX true strict B (.node { x with graph := some g }) from
            hI6.sep n (.node x) hnB hx)
        fbind hset with u2 s5 hI5 hl5 hq5
        fbind (FGoodAt.readGraph hI5) with gs2 s6 hI6 hl6 hq6
        obtain ⟨rfl, hgs2⟩ := hq6
        split
        · exact FGoodAt.set hI6 hg (show CellOutX true strict B (.graph { gs2 with nodes := _ }) from
            hI6.sep g (.graph gs2) hg hgs2)
        · exact FGoodAt.raise hI6

theorem freplaceMany_good {s : St} (g ip : Nat) (olds news oldVals newVals : List Nat)
    (hI : FInv true strict B wB s) (hg : ¬ B g) (holds : ∀ n ∈ olds, ¬ B n) (hnews : ∀ n ∈ news, ¬ B n)
    (hov : ∀ o ∈ oldVals, ¬ B o) (hnv : ∀ o ∈ newVals, ¬ B o) :
    FGoodAt true strict B wB (replaceMany g ip olds news oldVals newVals) s (fun _ _ => True) := by
  unfold replaceMany
  fbind (fforM'_good (f := copyInfo) _ _ hI (fun p hp s2 hI2 =>
    fcopyInfo_good p hI2 (hov _ (List.of_mem_zip hp).1) (hnv _ (List.of_mem_zip hp).2))) with u s1 hI1 hl1 hq1
  split
  · exact FGoodAt.raise hI1
  · fbind ((Quiet.rauwChecks true (oldVals.zip newVals) []).good hI1) with u1 s2 hI2 hl2 hq2
    fbind (fforM'_good (f := fun (p : Nat × Nat) => applyEdit2 (.replaceAllUses p.1 p.2 true)) _ _ hI2
      (fun p hp s3 hI3 => applyEdit2_frame (.replaceAllUses p.1 p.2 true) hI3 (by
        intro a haa
        simp [Edit2.args] at haa
        rcases haa with rfl | rfl
        · exact hov _ (List.of_mem_zip hp).1
        · exact hnv _ (List.of_mem_zip hp).2))) with u2 s3 hI3 hl3 hq3
    fbind (finsertManyAfter_good g ip news hI3 hg hnews) with u3 s4 hI4 hl4 hq4
    exact fremoveSafeM_good g olds hI4 hg holds

/-! ### the frame lemma -/

theorem applyEdit4_frame (e : Edit4) {s : St} (hI : FInv true strict B wB s) (ha : ArgsOut4 B e) :
    FGoodAt true strict B wB (applyEdit4 e) s (fun _ _ => True) := by
  cases e with
  | base3 e => exact applyEdit3_frame e hI ha
  | ioInsert inp g i v =>
    exact fioInsert_good (ioSel_good inp) g i v hI (ha g (by simp [Edit4.args])) (ha v (by simp [Edit4.args]))
  | ioRemove inp g v => exact fioRemove_good (ioSel_good inp) g v hI (ha g (by simp [Edit4.args]))
  | ioDelAt inp g i => exact fioDelAt_good (ioSel_good inp) g i hI (ha g (by simp [Edit4.args]))
  | ioSetAt inp g i v =>
    exact fioSetAt_good (ioSel_good inp) g i v hI (ha g (by simp [Edit4.args])) (ha v (by simp [Edit4.args]))
  | ioExtend inp g vs =>
    exact fioExtend_good (ioSel_good inp) g vs hI (ha g (by simp [Edit4.args]))
      (fun v hv => ha v (by simp [Edit4.args, hv]))
  | ioClear inp g => exact fioClear_good (ioSel_good inp) g hI (ha g (by simp [Edit4.args]))
  | setdefaultInit g key v =>
    have hg : ¬ B g := ha g (by simp [Edit4.args])
    have hv : ¬ B v := ha v (by simp [Edit4.args])
    unfold applyEdit4
    fbind (FGoodAt.readGraph hI) with gs s1 hI1 hl1 hq1
    split
    · exact FGoodAt.unsupported hI1
    · split
      · exact FGoodAt.pure hI1 trivial
      · exact fsetInitCore_good g key v hI1 hg hv
  | ioSetStep inp g a b st vs =>
    exact fioSetStep_good (ioSel_good inp) g a b st vs hI (ha g (by simp [Edit4.args]))
      (fun v hv => ha v (by simp [Edit4.args, hv]))
  | ioDelStep inp g a b st => exact fioDelStep_good (ioSel_good inp) g a b st hI (ha g (by simp [Edit4.args]))
  | replaceNodes g ip olds news oldVals newVals =>
    have hg : ¬ B g := ha g (by simp [Edit4.args])
    have holds : ∀ n ∈ olds, ¬ B n := fun n hn => ha n (by simp [Edit4.args, hn])
    have hov : ∀ o ∈ oldVals, ¬ B o := fun o ho => ha o (by simp [Edit4.args, ho])
    have hin : ∀ nn ∈ news, ∀ r ∈ nn.inputs, ∀ v, r.arg = some v → ¬ B v := by
      intro nn hnn r hr v hv
      apply ha v
      simp only [Edit4.args, List.mem_cons, List.mem_append, List.mem_flatMap, List.mem_filterMap]
      exact .inr (.inr (.inr ⟨nn, hnn, r, hr, hv⟩))
    unfold applyEdit4
    fbind (FGoodAt.readGraph hI) with gs s1 hI1 hl1 hq1
    split
    · exact FGoodAt.unsupported hI1
    · fbind (fbuildNodes_good news [] s1 (fun b hb => by cases hb) hin hI1) with built s2 hI2 hl2 hq2
      split
      · exact FGoodAt.unsupported hI2
      · next nvs hnvs =>
        refine freplaceMany_good g ip olds _ oldVals nvs hI2 hg holds ?_ hov (resolveOuts_out hq2 newVals nvs hnvs)
        intro n hn
        obtain ⟨b, hb, rfl⟩ := List.mem_map.mp hn
        exact (hq2 b hb).1

/-! ### histories -/

theorem runHistory4_inv :
    ∀ (es : List Edit4) (w : World), FInv true strict B wB { w := w } → (∀ e ∈ es, ArgsOut4 B e) →
      FInv true strict B wB { w := (runHistory4 es w).2 }
  | [], _, h, _ => h
  | e :: es, w, h, ha => by
    have h1 := (applyEdit4_frame e h (ha e List.mem_cons_self)).1
    unfold runHistory4 run
    rcases hm : applyEdit4 e { w := w } with ⟨r, s1⟩
    rw [hm] at h1
    simp only
    have h2 := runHistory4_inv es s1.w ⟨h1.bound, h1.same, h1.sep⟩
      (fun e' he' => ha e' (List.mem_cons_of_mem _ he'))
    rcases hr : runHistory4 es s1.w with ⟨rs, w2⟩
    rw [hr] at h2
    exact h2

end

namespace Frame4

/-- **frame_ext4** (general form, fourth alphabet).  Let `B` be any set of cells of a heap `w` such
    that no cell outside `B` has a pointer into `B` among the pointers the editing calls follow (as in
    `C13_frame_ext`).  Then for EVERY history of the calls of `Edit4` whose receivers and arguments
    are outside `B` — however long, whether the calls succeed or raise half-way — every cell of `B`
    is afterwards exactly what it was. -/
theorem frame_ext4 (B : Nat → Prop) (w : World) (es : List Edit4)
    (hb : ∀ i, B i → i < w.length)
    (hsep : ∀ (i : Nat) (c : Cell), ¬ B i → w[i]? = some c → CellOutX true true B c)
    (hargs : ∀ e ∈ es, ∀ a ∈ e.args, ¬ B a) :
    ∀ i, B i → (runHistory4 es w).2[i]? = w[i]? := by
  intro i hi
  have := (runHistory4_inv (strict := true) (wB := w) es w
    ⟨hb, fun _ _ => OptRel.refl _ _ _, hsep⟩ hargs).same i hi
  simp only at this
  cases h1 : w[i]? with
  | none =>
    rw [h1] at this
    cases h2 : (runHistory4 es w).2[i]? with
    | none => rfl
    | some c => rw [h2] at this; exact this.elim
  | some c0 =>
    rw [h1] at this
    cases h2 : (runHistory4 es w).2[i]? with
    | none => rw [h2] at this; exact this.elim
    | some c =>
      rw [h2] at this
      have : c = c0 := by simpa [OptRel, CellRel] using this
      rw [this]

end Frame4
end IrVerif.Clone

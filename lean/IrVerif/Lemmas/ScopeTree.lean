/-
Tree-level consistency of a deserialized graph: every node carries the id of the graph that lists it,
every initializer is keyed by the name of its value, keys are distinct.
-/
import IrVerif.Lemmas.ScopeWF
namespace IrVerif.Scope

/-- every binding `x -> v` of the scope binds a value named `x` -/
def Named (st : Store) (t : Table) : Prop := ∀ e ∈ t, (st.vals e.2).name = some e.1

theorem Named.keep {st st' : Store} {t : Table} (h : Named st t) (hlt : TableLt st t)
    (hn : ∀ v, v < st.nv → (st'.vals v).name = (st.vals v).name) : Named st' t :=
  fun e he => by rw [hn _ (hlt e he)]; exact h e he

theorem Named.cons {st st' : Store} {t : Table} {x : Name} (h : Named st t) (hlt : TableLt st t)
    (hn : ∀ v, v < st.nv → (st'.vals v).name = (st.vals v).name) (hx : (st'.vals st.nv).name = some x) :
    Named st' ((x, st.nv) :: t) := by
  intro e he
  simp only [List.mem_cons] at he
  rcases he with rfl | he
  · exact hx
  · exact h.keep hlt hn e he

theorem newNamed_name (st : Store) (vi : List (Name × Info)) (x : Name) :
    ((newNamed st vi x).vals st.nv).name = some x := by
  unfold newNamed
  split <;> simp [modify_vals]

theorem newInit_name (st : Store) (vi : List (Name × Info)) (t : TensorP) (tid : Nat) :
    ((newInit st vi t tid).vals st.nv).name = some t.name := by
  unfold newInit
  split <;> simp [modify_vals]

theorem deserInputs_named (is : List VInfoP) :
    ∀ (st : Store), Named (deserInputs st is).1 (inputTable is (deserInputs st is).2) := by
  -- generalised: any table extended by the zipped entries
  have key : ∀ (is : List VInfoP) (st : Store) (t : Table), Named st t → TableLt st t →
      Named (deserInputs st is).1 (((is.map (·.name)).zip (deserInputs st is).2).reverse ++ t) ∧
      TableLt (deserInputs st is).1 (((is.map (·.name)).zip (deserInputs st is).2).reverse ++ t) := by
    intro is
    induction is with
    | nil => intro st t h hl; simpa [deserInputs] using ⟨h, hl⟩
    | cons i is ih =>
      intro st t h hl
      simp only [deserInputs, List.map_cons, List.zip_cons_cons, List.reverse_cons, List.append_assoc,
        List.singleton_append, alloc_snd]
      have q := Quiet.alloc st { name := some i.name, info := i.info } rfl
      have h1 : Named (st.alloc { name := some i.name, info := i.info }).1 ((i.name, st.nv) :: t) :=
        h.cons hl q.names (by simp)
      have hl1 : TableLt (st.alloc { name := some i.name, info := i.info }).1 ((i.name, st.nv) :: t) := by
        intro e he
        simp only [List.mem_cons] at he
        rcases he with rfl | he
        · simp
        · have := hl e he; simp; omega
      exact ih _ _ h1 hl1
  intro st
  have := (key is st [] (fun _ he => by simp at he) (fun _ he => by simp at he)).1
  simpa [inputTable] using this

theorem deserInits_named (vi : List (Name × Info)) (ts : List TensorP) :
    ∀ (st : Store) (tbl : Table), Named st tbl → TableLt st tbl →
      Named (deserInits st tbl vi ts).1 (deserInits st tbl vi ts).2.1 := by
  induction ts with
  | nil => intro st tbl h _; simpa [deserInits] using h
  | cons t ts ih =>
    intro st tbl h hl
    simp only [deserInits]
    split
    · exact ih st tbl h hl
    · split
      · rename_i v hv
        apply ih
        · refine h.keep hl (fun w _ => ?_)
          rw [modify_vals]; split <;> rfl
        · exact hl
      · have q := (newInit_quiet (st.allocTensor { name := some t.name, data := t.data, ty := t.ty, sh := t.sh }).1
          vi t st.nt)
        apply ih
        · exact Named.cons (st := (st.allocTensor { name := some t.name, data := t.data, ty := t.ty, sh := t.sh }).1)
            h hl q.1.names (newInit_name _ vi t st.nt)
        · intro e he
          simp only [List.mem_cons] at he
          rw [q.2]
          rcases he with rfl | he
          · simp
          · have := hl e he; simp; omega

theorem declareOutputs_named (vi : List (Name × Info)) (xs : List Name) :
    ∀ (st : Store) (tbl : Table) (st' : Store) (tbl' : Table), Named st tbl → TableLt st tbl →
      declareOutputs st tbl vi xs = .ok (st', tbl') → Named st' tbl' ∧ TableLt st' tbl' := by
  induction xs with
  | nil =>
    intro st tbl st' tbl' h hl he
    simp only [declareOutputs, Except.ok.injEq, Prod.mk.injEq] at he
    obtain ⟨rfl, rfl⟩ := he
    exact ⟨h, hl⟩
  | cons x xs ih =>
    intro st tbl st' tbl' h hl he
    simp only [declareOutputs] at he
    split at he
    · exact ih st tbl st' tbl' h hl he
    · split at he
      · simp at he
      · have q := newNamed_quiet st vi x
        apply ih _ _ st' tbl' _ _ he
        · exact h.cons hl q.1.names (newNamed_name st vi x)
        · intro e he'
          simp only [List.mem_cons] at he'
          rw [q.2]
          rcases he' with rfl | he'
          · simp
          · have := hl e he'; omega

theorem declareNodes_named (vi : List (Name × Info)) (ns : List NodeP) :
    ∀ (st : Store) (tbl : Table) (st' : Store) (tbl' : Table), Named st tbl → TableLt st tbl →
      declareNodes st tbl vi ns = .ok (st', tbl') → Named st' tbl' := by
  induction ns with
  | nil =>
    intro st tbl st' tbl' h _ he
    simp only [declareNodes, Except.ok.injEq, Prod.mk.injEq] at he
    obtain ⟨rfl, rfl⟩ := he
    exact h
  | cons n ns ih =>
    intro st tbl st' tbl' h hl he
    simp only [declareNodes] at he
    split at he
    · simp at he
    · rename_i st1 tbl1 h1
      obtain ⟨a, b⟩ := declareOutputs_named vi n.outputs st tbl st1 tbl1 h hl h1
      exact ih st1 tbl1 st' tbl' a b he

theorem resolveInputs_named (outer : List Table) (vi : List (Name × Info)) (xs : List Name) :
    ∀ (st : Store) (top : Table), Named st top → TableLt st top →
      Named (resolveInputs st top outer vi xs).1 (resolveInputs st top outer vi xs).2.1 := by
  induction xs with
  | nil => intro st top h _; simpa [resolveInputs] using h
  | cons x xs ih =>
    intro st top h hl
    simp only [resolveInputs]
    split
    · exact ih st top h hl
    · split
      · exact ih st top h hl
      · have q := newNamed_quiet st vi x
        apply ih
        · exact h.cons hl q.1.names (newNamed_name st vi x)
        · intro e he
          simp only [List.mem_cons] at he
          rw [q.2]
          rcases he with rfl | he
          · simp
          · have := hl e he; omega

/-! ### the tree predicate -/

mutual
/-- nodes point to the graph that lists them; initializers are keyed by the (allocated) value's name;
    keys are distinct -/
def TreeOKG (st : Store) : GraphT → Prop
  | .mk gid _ inits nodes _ =>
    (∀ kv ∈ inits, kv.2 < st.nv ∧ (st.vals kv.2).name = some kv.1 ∧ kv.1 ≠ "") ∧ (inits.map (·.1)).Nodup ∧
    TreeOKNs st (some gid) nodes
def TreeOKNs (st : Store) (owner : Option Nat) : List NodeT → Prop
  | [] => True
  | n :: ns => TreeOKN st owner n ∧ TreeOKNs st owner ns
def TreeOKN (st : Store) (owner : Option Nat) : NodeT → Prop
  | .mk _ gr _ _ subs => gr = owner ∧ TreeOKGs st subs
def TreeOKGs (st : Store) : List GraphT → Prop
  | [] => True
  | g :: gs => TreeOKG st g ∧ TreeOKGs st gs
end

mutual
theorem TreeOKG.keep {st st' : Store} (hle : st.nv ≤ st'.nv)
    (hn : ∀ v, v < st.nv → (st'.vals v).name = (st.vals v).name) :
    ∀ (g : GraphT), TreeOKG st g → TreeOKG st' g
  | .mk gid _ inits nodes _, h => by
    simp only [TreeOKG] at h ⊢
    exact ⟨fun kv hkv => ⟨Nat.lt_of_lt_of_le (h.1 kv hkv).1 hle, by rw [hn _ (h.1 kv hkv).1]; exact (h.1 kv hkv).2.1,
        (h.1 kv hkv).2.2⟩,
      h.2.1, TreeOKNs.keep hle hn _ nodes h.2.2⟩
theorem TreeOKNs.keep {st st' : Store} (hle : st.nv ≤ st'.nv)
    (hn : ∀ v, v < st.nv → (st'.vals v).name = (st.vals v).name) :
    ∀ (o : Option Nat) (ns : List NodeT), TreeOKNs st o ns → TreeOKNs st' o ns
  | _, [], _ => by simp [TreeOKNs]
  | o, n :: ns, h => by
    simp only [TreeOKNs] at h ⊢
    exact ⟨TreeOKN.keep hle hn o n h.1, TreeOKNs.keep hle hn o ns h.2⟩
theorem TreeOKN.keep {st st' : Store} (hle : st.nv ≤ st'.nv)
    (hn : ∀ v, v < st.nv → (st'.vals v).name = (st.vals v).name) :
    ∀ (o : Option Nat) (n : NodeT), TreeOKN st o n → TreeOKN st' o n
  | _, .mk _ gr _ _ subs, h => by
    simp only [TreeOKN] at h ⊢
    exact ⟨h.1, TreeOKGs.keep hle hn subs h.2⟩
theorem TreeOKGs.keep {st st' : Store} (hle : st.nv ≤ st'.nv)
    (hn : ∀ v, v < st.nv → (st'.vals v).name = (st.vals v).name) :
    ∀ (gs : List GraphT), TreeOKGs st gs → TreeOKGs st' gs
  | [], _ => by simp [TreeOKGs]
  | g :: gs, h => by
    simp only [TreeOKGs] at h ⊢
    exact ⟨TreeOKG.keep hle hn g h.1, TreeOKGs.keep hle hn gs h.2⟩
end

theorem TreeOKNs_setGraph (st : Store) (gid : Nat) :
    ∀ (ns : List NodeT), TreeOKNs st none ns → TreeOKNs st (some gid) (ns.map (NodeT.setGraph gid))
  | [], _ => by simp [TreeOKNs]
  | n :: ns, h => by
    simp only [TreeOKNs, List.map_cons] at h ⊢
    obtain ⟨i, g, a, b, c⟩ := n
    refine ⟨?_, TreeOKNs_setGraph st gid ns h.2⟩
    simp only [TreeOKN, NodeT.setGraph] at h ⊢
    exact ⟨trivial, h.1.2⟩

/-- distinct keys, each the name of its value -/
theorem dictInsert_keys (d : List (Name × Nat)) (k : Name) (v : Nat) (hd : (d.map (·.1)).Nodup) :
    ((dictInsert d k v).map (·.1)).Nodup ∧ ∀ e ∈ dictInsert d k v, e ∈ d ∨ e = (k, v) := by
  induction d with
  | nil => simp [dictInsert]
  | cons a r ih =>
    obtain ⟨k', v'⟩ := a
    simp only [List.map_cons, List.nodup_cons] at hd
    simp only [dictInsert]
    split
    · rename_i hk
      subst hk
      refine ⟨by simpa using hd, fun e he => ?_⟩
      simp only [List.mem_cons] at he
      rcases he with rfl | he
      · exact .inr rfl
      · exact .inl (by simp [he])
    · rename_i hk
      obtain ⟨ih1, ih2⟩ := ih hd.2
      refine ⟨?_, fun e he => ?_⟩
      · simp only [List.map_cons, List.nodup_cons]
        refine ⟨fun hm => ?_, ih1⟩
        simp only [List.mem_map] at hm
        obtain ⟨e, he, hek⟩ := hm
        rcases ih2 e he with h | h
        · exact hd.1 (List.mem_map.mpr ⟨e, h, hek⟩)
        · subst h; exact hk hek.symm
      · simp only [List.mem_cons] at he
        rcases he with rfl | he
        · exact .inl (by simp)
        · rcases ih2 e he with h | h
          · exact .inl (by simp [h])
          · exact .inr h

theorem initDict_keys (st : Store) :
    ∀ (vs : List Nat) (d : List (Name × Nat)), (d.map (·.1)).Nodup →
      (∀ e ∈ d, (st.vals e.2).name = some e.1 ∧ e.1 ≠ "") → (∀ v ∈ vs, ∃ x, x ≠ "" ∧ (st.vals v).name = some x) →
      ((initDict st d vs).map (·.1)).Nodup ∧ ∀ e ∈ initDict st d vs, (st.vals e.2).name = some e.1 ∧ e.1 ≠ "" := by
  intro vs
  induction vs with
  | nil => intro d hd hn _; exact ⟨hd, hn⟩
  | cons v vs ih =>
    intro d hd hn hv
    simp only [initDict]
    obtain ⟨x, hxne, hx⟩ := hv v (by simp)
    obtain ⟨k1, k2⟩ := dictInsert_keys d ((st.vals v).name.getD "") v hd
    apply ih _ k1
    · intro e he
      rcases k2 e he with h | h
      · exact hn e h
      · subst h; simp [hx, hxne]
    · exact fun w hw => hv w (by simp [hw])

/-! ### the mutual induction -/

mutual
theorem deserGraph_tree :
    ∀ (p : GraphP) (st : Store) (outer : List Table) (st' : Store) (g : GraphT),
      Fresh st → TablesLt st outer → deserGraph st outer p = .ok (st', g) → TreeOKG st' g
  | .mk inputs inits vinfo nodes outputs, st, outer, st', g, hf, ho, h => by
    obtain ⟨st3, tbl3, st4, tbl4, ns, h3, h4, h5⟩ := deserGraph_inv h
    obtain ⟨q1, _, _⟩ := deserInputs_spec st inputs
    have ok1 := inputTable_ok st inputs
    have f1 := q1.fresh hf
    have n1 := deserInputs_named inputs st
    obtain ⟨q2, ok2, _, miv⟩ := deserInits_spec (vinfoTable vinfo) inits _ _ st.nv ok1 q1.nv_le
    have f2 := q2.fresh f1
    have n2 := deserInits_named (vinfoTable vinfo) inits _ _ n1 ok1.lt
    have le2 : st.nv ≤ (deserInits (deserInputs st inputs).1 (inputTable inputs (deserInputs st inputs).2)
        (vinfoTable vinfo) inits).1.nv := Nat.le_trans q1.nv_le q2.nv_le
    obtain ⟨q3, ok3, _, _, _⟩ := declareNodes_spec (vinfoTable vinfo) nodes _ _ st.nv st3 tbl3 ok2 le2 h3
    have f3 := q3.fresh f2
    have n3 := declareNodes_named (vinfoTable vinfo) nodes _ _ st3 tbl3 n2 ok2.lt h3
    have le3 : st.nv ≤ st3.nv := Nat.le_trans le2 q3.nv_le
    obtain ⟨f4, m4, ok4, _⟩ := deserNodes_struct nodes st3 tbl3 outer (vinfoTable vinfo) st.nv st4 tbl4 ns f3 ok3
      (ho.mono le3) le3 h4
    obtain ⟨t4, _⟩ := deserNodes_tree nodes st3 tbl3 outer (vinfoTable vinfo) st.nv st4 tbl4 ns f3 ok3
      (ho.mono le3) le3 n3 h4
    obtain ⟨q5, _⟩ := deserOutputs_spec tbl4 outputs st4 st.nv ok4
    -- names of the initializer values, seen from the store handed to `mkGraph`
    have hiv : ∀ v ∈ (deserInits (deserInputs st inputs).1 (inputTable inputs (deserInputs st inputs).2)
        (vinfoTable vinfo) inits).2.2, v < (deserOutputs st4 tbl4 outputs).1.nv ∧
        ∃ x, x ≠ "" ∧ ((deserOutputs st4 tbl4 outputs).1.vals v).name = some x := by
      intro v hv
      obtain ⟨x, hxne, hx⟩ := miv v hv
      have hlt := ok2.lt _ hx
      have h23 := q3.names v hlt
      have h34 := m4.names v (Nat.lt_of_lt_of_le hlt q3.nv_le)
      have h45 := q5.names v (Nat.lt_of_lt_of_le hlt (Nat.le_trans q3.nv_le m4.nv_le))
      refine ⟨Nat.lt_of_lt_of_le hlt (Nat.le_trans q3.nv_le (Nat.le_trans m4.nv_le q5.nv_le)), x, hxne, ?_⟩
      rw [h45, h34, h23]
      exact n2 _ hx
    have e1 : st' = (mkGraph (deserOutputs st4 tbl4 outputs).1 (deserInputs st inputs).2
        (deserOutputs st4 tbl4 outputs).2 ns (deserInits (deserInputs st inputs).1
          (inputTable inputs (deserInputs st inputs).2) (vinfoTable vinfo) inits).2.2).1 := by rw [h5]
    have e2 : g = (mkGraph (deserOutputs st4 tbl4 outputs).1 (deserInputs st inputs).2
        (deserOutputs st4 tbl4 outputs).2 ns (deserInits (deserInputs st inputs).1
          (inputTable inputs (deserInputs st inputs).2) (vinfoTable vinfo) inits).2.2).2 := by rw [h5]
    have hnm6 : ∀ w, ((mkGraph (deserOutputs st4 tbl4 outputs).1 (deserInputs st inputs).2
        (deserOutputs st4 tbl4 outputs).2 ns (deserInits (deserInputs st inputs).1
          (inputTable inputs (deserInputs st inputs).2) (vinfoTable vinfo) inits).2.2).1.vals w).name =
        ((deserOutputs st4 tbl4 outputs).1.vals w).name := fun w => by rw [mkGraph_cell]
    obtain ⟨c1, _, _⟩ := mkGraph_fst_counters (deserOutputs st4 tbl4 outputs).1 (deserInputs st inputs).2
      (deserOutputs st4 tbl4 outputs).2 ns (deserInits (deserInputs st inputs).1
        (inputTable inputs (deserInputs st inputs).2) (vinfoTable vinfo) inits).2.2
    rw [e1, e2, mkGraph_snd]
    simp only [TreeOKG]
    -- the dict
    have hnmS : ∀ w, ((setOwner (setOwner (deserOutputs st4 tbl4 outputs).1 (deserOutputs st4 tbl4 outputs).1.ng
        (fun c => { c with isIn := true }) (deserInputs st inputs).2) (deserOutputs st4 tbl4 outputs).1.ng
        (fun c => { c with isOut := true }) (deserOutputs st4 tbl4 outputs).2).vals w).name =
        ((deserOutputs st4 tbl4 outputs).1.vals w).name := fun w =>
      (setOwner_name _ _ (fun c => { c with isOut := true }) (fun _ => rfl) _ _).trans
        (setOwner_name _ _ (fun c => { c with isIn := true }) (fun _ => rfl) _ _)
    obtain ⟨k1, k2⟩ := initDict_keys (setOwner (setOwner (deserOutputs st4 tbl4 outputs).1
        (deserOutputs st4 tbl4 outputs).1.ng (fun c => { c with isIn := true }) (deserInputs st inputs).2)
        (deserOutputs st4 tbl4 outputs).1.ng (fun c => { c with isOut := true }) (deserOutputs st4 tbl4 outputs).2)
      (deserInits (deserInputs st inputs).1 (inputTable inputs (deserInputs st inputs).2)
        (vinfoTable vinfo) inits).2.2 [] (by simp) (fun _ he => by simp at he)
      (fun v hv => by
        obtain ⟨_, x, hxne, hx⟩ := hiv v hv
        exact ⟨x, hxne, by rw [hnmS]; exact hx⟩)
    refine ⟨fun kv hkv => ?_, k1, ?_⟩
    · have hm := mkGraphInits_sub _ _ _ _ kv hkv
      refine ⟨by rw [c1]; exact (hiv _ hm).1, ?_, (k2 kv hkv).2⟩
      rw [hnm6, ← hnmS]
      exact (k2 kv hkv).1
    · apply TreeOKNs_setGraph
      refine TreeOKNs.keep (st := st4) ?_ ?_ none ns t4
      · rw [c1]; exact q5.nv_le
      · intro v hv
        rw [hnm6, q5.names v hv]
theorem deserNodes_tree :
    ∀ (ns : List NodeP) (st : Store) (top : Table) (outer : List Table) (vi : List (Name × Info)) (b : Nat)
      (st' : Store) (top' : Table) (nts : List NodeT),
      Fresh st → TblOK st b top → TablesLt st outer → b ≤ st.nv → Named st top →
      deserNodes st top outer vi ns = .ok (st', top', nts) → TreeOKNs st' none nts ∧ Named st' top'
  | [], st, top, outer, vi, b, st', top', nts, _, _, _, _, hn, h => by
    simp only [deserNodes, Except.ok.injEq, Prod.mk.injEq] at h
    obtain ⟨rfl, rfl, rfl⟩ := h
    exact ⟨by simp [TreeOKNs], hn⟩
  | n :: ns, st, top, outer, vi, b, st', top', nts, hf, hok, ho, hb, hn, h => by
    obtain ⟨st1, top1, nt, nts', h1, h2, rfl⟩ := deserNodes_inv h
    obtain ⟨f1, m1, ok1, _⟩ := deserNode_struct n st top outer vi b st1 top1 nt hf hok ho hb h1
    obtain ⟨t1, n1⟩ := deserNode_tree n st top outer vi b st1 top1 nt hf hok ho hb hn h1
    obtain ⟨_, m2, _, _⟩ := deserNodes_struct ns st1 top1 outer vi b st' top' nts' f1 ok1
      (ho.mono m1.nv_le) (Nat.le_trans hb m1.nv_le) h2
    obtain ⟨t2, n2⟩ := deserNodes_tree ns st1 top1 outer vi b st' top' nts' f1 ok1 (ho.mono m1.nv_le)
      (Nat.le_trans hb m1.nv_le) n1 h2
    simp only [TreeOKNs]
    exact ⟨⟨TreeOKN.keep m2.nv_le m2.names none nt t1, t2⟩, n2⟩
theorem deserNode_tree :
    ∀ (n : NodeP) (st : Store) (top : Table) (outer : List Table) (vi : List (Name × Info)) (b : Nat)
      (st' : Store) (top' : Table) (nt : NodeT),
      Fresh st → TblOK st b top → TablesLt st outer → b ≤ st.nv → Named st top →
      deserNode st top outer vi n = .ok (st', top', nt) → TreeOKN st' none nt ∧ Named st' top'
  | .mk inputs outputs subs, st, top, outer, vi, b, st', top', nt, hf, hok, ho, hb, hn, h => by
    obtain ⟨st2, outs, st3, gs, h2, h3, rfl, rfl, rfl⟩ := deserNode_inv h
    obtain ⟨q1, ok1, _, _⟩ := resolveInputs_spec outer vi inputs st top b hok ho hb
    have f1 := q1.fresh hf
    have n1 := resolveInputs_named outer vi inputs st top hn hok.lt
    obtain ⟨q2, _, _, _, _⟩ := lookupOutputs_spec _ outputs _ _ _ h2
    have f2 := q2.fresh f1
    have hts : TablesLt st2 ((resolveInputs st top outer vi inputs).2.1 :: outer) :=
      TablesLt.cons (ok1.lt.mono q2.nv_le) (ho.mono (Nat.le_trans q1.nv_le q2.nv_le))
    obtain ⟨_, m3⟩ := deserSubs_struct subs st2 _ st3 gs f2 hts h3
    have t3 := deserSubs_tree subs st2 _ st3 gs f2 hts h3
    have hk := mkNode_keeps st3 (resolveInputs st top outer vi inputs).2.2 outs gs
    refine ⟨?_, ?_⟩
    · rw [mkNode_snd]
      simp only [TreeOKN]
      exact ⟨trivial, TreeOKGs.keep (st := st3) (by rw [mkNode_fst_nv]; exact Nat.le_refl _)
        (fun v _ => (hk v).1) gs t3⟩
    · intro e he
      have hlt := ok1.lt e he
      rw [(hk e.2).1, m3.names e.2 (Nat.lt_of_lt_of_le hlt q2.nv_le), q2.names e.2 hlt]
      exact n1 e he
theorem deserSubs_tree :
    ∀ (gs : List GraphP) (st : Store) (scopes : List Table) (st' : Store) (gts : List GraphT),
      Fresh st → TablesLt st scopes → deserSubs st scopes gs = .ok (st', gts) → TreeOKGs st' gts
  | [], st, scopes, st', gts, _, _, h => by
    simp only [deserSubs, Except.ok.injEq, Prod.mk.injEq] at h
    obtain ⟨rfl, rfl⟩ := h
    simp [TreeOKGs]
  | g :: gs, st, scopes, st', gts, hf, hs, h => by
    obtain ⟨st1, gt, gts', h1, h2, rfl⟩ := deserSubs_inv h
    obtain ⟨f1, m1⟩ := deserGraph_struct g st scopes st1 gt hf hs h1
    have t1 := deserGraph_tree g st scopes st1 gt hf hs h1
    obtain ⟨_, m2⟩ := deserSubs_struct gs st1 scopes st' gts' f1 (hs.mono m1.nv_le) h2
    have t2 := deserSubs_tree gs st1 scopes st' gts' f1 (hs.mono m1.nv_le) h2
    simp only [TreeOKGs]
    exact ⟨TreeOKG.keep m2.nv_le m2.names gt t1, t2⟩
end

end IrVerif.Scope

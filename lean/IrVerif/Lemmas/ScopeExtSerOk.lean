/-
The extended serializer (`serGraphE` of `Model/ScopeExt.lean`) never raises for lack of a name on a reloadable
extended model: every value it takes the name of has one (certificate `replG`), and the node outputs it asks the
annotation of without having a name (the trailing outputs dropped by `stripTrailing`) carry none (certificate
`extG`).  What remains is an error of the device configurations (`EErr.dev`), which propagates unchanged.
-/
import IrVerif.Lemmas.ScopeExtTop
namespace IrVerif.Scope

/-! ### the list phases -/

theorem serValuesE_of_names {V : Nat → ValueS} {x : Ext} {vs : List Nat} (h : ∀ v ∈ vs, (V v).name ≠ none) :
    serValuesE V x vs = .ok (vs.map (viOfE V x)) := by
  induction vs with
  | nil => rfl
  | cons v vs ih =>
    have hv := h v (by simp)
    have := ih (fun w hw => h w (by simp [hw]))
    cases hn : (V v).name with
    | none => exact absurd hn hv
    | some n => simp [serValuesE, serValueE, hn, this, viOfE, nm]

theorem quantOfE_of_name {V : Nat → ValueS} {x : Ext} {v : Nat} (h : (V v).name ≠ none) :
    ∃ q, quantOfE V x v = .ok q := by
  simp only [quantOfE]
  split
  · exact ⟨_, rfl⟩
  · split
    · exact ⟨_, rfl⟩
    · split
      · rename_i hn; exact absurd hn h
      · exact ⟨_, rfl⟩

theorem quantOfE_of_quiet {V : Nat → ValueS} {x : Ext} {v : Nat} (h : x.quant v = none) :
    quantOfE V x v = .ok [] := by
  simp only [quantOfE, h]

theorem quantInputsE_of_names (V : Nat → ValueS) (x : Ext) (keys : List Name) :
    ∀ (l : List Nat), (∀ v ∈ l, (V v).name ≠ none) → ∀ (seen : List Nat),
      ∃ r seen', quantInputsE V x keys l seen = .ok (r, seen') := by
  intro l
  induction l with
  | nil => intro _ seen; exact ⟨[], seen, rfl⟩
  | cons a r ih =>
    intro h seen
    have ih' := ih (fun v hv => h v (by simp [hv]))
    simp only [quantInputsE]
    change ∃ r' seen', (if (!skipIn V keys a && !seen.contains a) = true then _ else _) = _
    by_cases hc : (!skipIn V keys a && !seen.contains a) = true
    · obtain ⟨q, hq⟩ := quantOfE_of_name (x := x) (h a (by simp))
      obtain ⟨r', s', hr⟩ := ih' (a :: seen)
      exact ⟨_, _, by simp only [hc, if_true, hq, hr]; rfl⟩
    · simp only [hc]
      exact ih' seen

theorem quantOnceE_of_names (V : Nat → ValueS) (x : Ext) :
    ∀ (l : List Nat), (∀ v ∈ l, (V v).name ≠ none) → ∀ (seen : List Nat),
      ∃ r seen', quantOnceE V x l seen = .ok (r, seen') := by
  intro l
  induction l with
  | nil => intro _ seen; exact ⟨[], seen, rfl⟩
  | cons a r ih =>
    intro h seen
    have ih' := ih (fun v hv => h v (by simp [hv]))
    simp only [quantOnceE]
    split
    · obtain ⟨q, hq⟩ := quantOfE_of_name (x := x) (h a (by simp))
      obtain ⟨r', s', hr⟩ := ih' (a :: seen)
      exact ⟨_, _, by simp only [hq, hr]; rfl⟩
    · exact ih' seen

/-- the loop over ALL the outputs of a node: an output either has a name or carries no annotation -/
theorem nodeOutsE_of_names (V : Nat → ValueS) (x : Ext) (annot : Bool) (go : List Nat) :
    ∀ (l : List Nat), (∀ v ∈ l, (V v).name ≠ none ∨ x.quant v = none) →
      ∃ q vi, nodeOutsE V x annot go l = .ok (q, vi) := by
  intro l
  induction l with
  | nil => intro _; exact ⟨[], [], rfl⟩
  | cons a r ih =>
    intro h
    obtain ⟨qs, vis, hr⟩ := ih (fun v hv => h v (by simp [hv]))
    simp only [nodeOutsE]
    split
    · exact ⟨_, _, hr⟩
    · have hq : ∃ q, (if annot then quantOfE V x a else .ok []) = .ok q := by
        cases annot with
        | false => exact ⟨[], rfl⟩
        | true =>
          simp only [if_true]
          rcases h a (by simp) with hn | hn
          · exact quantOfE_of_name hn
          · exact ⟨[], quantOfE_of_quiet hn⟩
      obtain ⟨q, hq⟩ := hq
      exact ⟨_, _, by simp only [hq, hr]; rfl⟩

/-- an output of a node without a truthy name is quiet (first clause of `extN`) -/
theorem extN_outs_named_or_quiet {V : Nat → ValueS} {x : Ext} {outs : List Nat}
    (h : ∀ v ∈ outs, nameTruthy (V v).name = false → x.quant v = none) :
    ∀ v ∈ outs, (V v).name ≠ none ∨ x.quant v = none := by
  intro v hv
  cases ht : nameTruthy (V v).name with
  | true => exact .inl (ne_none_of_truthy ht)
  | false => exact .inr (h v hv ht)

/-! ### the mutual induction -/

mutual
theorem extG_ser_ok (V : Nat → ValueS) (x : Ext) (td : TData) (ver : Option Int) :
    ∀ (g : GraphT) (outer : List Table), (replG V outer g).ok → extG V x outer g →
      (∃ q ws, serGraphE V x td ver g = .ok (q, ws)) ∨ (∃ e, serGraphE V x td ver g = .error (.dev e))
  | .mk gid ins inits nodes outs, outer, h, hx => by
    simp only [replG] at h
    obtain ⟨hins, _, hI, _, hN, hO⟩ := h
    simp only [extG] at hx
    obtain ⟨_, _, hxN⟩ := hx
    have houts := replOuts_names V _ outs hO
    have hinit : ∀ v ∈ inits.map (·.2), (V v).name ≠ none := by
      intro v hv
      simp only [List.mem_map] at hv
      obtain ⟨kv, hkv, rfl⟩ := hv
      rw [(replInits_base V outs inits _ hI kv hkv).1]
      simp
    have e1 := serValuesE_of_names (V := V) (x := x) (vs := ins) hins
    have e5 := serValuesE_of_names (V := V) (x := x) (vs := outs) houts
    obtain ⟨qIn, seen1, e2⟩ := quantInputsE_of_names V x (inits.map (·.1)) ins hins []
    obtain ⟨qInit, seen2, e3⟩ := quantOnceE_of_names V x (inits.map (·.2)) hinit seen1
    obtain ⟨qOut, seen3, e6⟩ := quantOnceE_of_names V x outs houts seen2
    rcases extNs_ser_ok V x td ver nodes outer _ outs true hN hxN with ⟨nps, qs, vis, ws, e4⟩ | ⟨e, e4⟩
    · exact .inl ⟨_, _, by simp only [serGraphE, e1, e2, e3, e4, e5, e6, liftS]; rfl⟩
    · exact .inr ⟨e, by simp only [serGraphE, e1, e2, e3, e4, liftS]⟩
theorem extNs_ser_ok (V : Nat → ValueS) (x : Ext) (td : TData) (ver : Option Int) :
    ∀ (ns : List NodeT) (outer : List Table) (T : Table) (gouts : List Nat) (annot : Bool),
      (replNs V outer T ns).ok → extNs V x outer T ns →
      (∃ nps qs vis ws, serNodesE V x td ver annot gouts ns = .ok (nps, qs, vis, ws)) ∨
      (∃ e, serNodesE V x td ver annot gouts ns = .error (.dev e))
  | [], _, _, _, _, _, _ => .inl ⟨[], [], [], [], rfl⟩
  | n :: ns, outer, T, gouts, annot, h, hx => by
    simp only [replNs] at h
    simp only [extNs] at hx
    rcases extN_ser_ok V x td ver n outer T gouts annot h.1 hx.1 with ⟨np, q1, vi1, ws1, e1⟩ | ⟨e, e1⟩
    · rcases extNs_ser_ok V x td ver ns outer _ gouts annot h.2 hx.2 with ⟨nps, qs, vis, ws2, e2⟩ | ⟨e, e2⟩
      · exact .inl ⟨_, _, _, _, by simp only [serNodesE, e1, e2]; rfl⟩
      · exact .inr ⟨e, by simp only [serNodesE, e1, e2]⟩
    · exact .inr ⟨e, by simp only [serNodesE, e1]⟩
theorem extN_ser_ok (V : Nat → ValueS) (x : Ext) (td : TData) (ver : Option Int) :
    ∀ (n : NodeT) (outer : List Table) (T : Table) (gouts : List Nat) (annot : Bool),
      (replN V outer T n).ok → extN V x outer T n →
      (∃ np q vi ws, serNodeE V x td ver annot gouts n = .ok (np, q, vi, ws)) ∨
      (∃ e, serNodeE V x td ver annot gouts n = .error (.dev e))
  | .mk i g ins outs subs, outer, T, gouts, annot, h, hx => by
    simp only [replN] at h
    obtain ⟨hR, houts, _, hS⟩ := h
    simp only [extN] at hx
    obtain ⟨hq, hxS⟩ := hx
    have e1 := serInputs_of_names (V := V) (ins := ins)
      (fun v hv => ne_none_of_truthy (replRes_truthy V outer ins T hR v hv))
    have e2 := serOutNames_of_names (V := V) (vs := stripTrailing V outs) houts
    obtain ⟨q, vi, e5⟩ := nodeOutsE_of_names V x annot gouts outs (extN_outs_named_or_quiet hq)
    rcases extGs_ser_ok V x td ver subs _ hS hxS with ⟨gps, ws, e3⟩ | ⟨e, e3⟩
    · cases e4 : serDevRsGated V ver (x.devs i) with
      | error e => exact .inr ⟨e, by simp only [serNodeE, e1, e2, e3, e4, liftS]⟩
      | ok ds => exact .inl ⟨_, _, _, _, by simp only [serNodeE, e1, e2, e3, e4, e5, liftS]; rfl⟩
    · exact .inr ⟨e, by simp only [serNodeE, e1, e2, e3, liftS]⟩
theorem extGs_ser_ok (V : Nat → ValueS) (x : Ext) (td : TData) (ver : Option Int) :
    ∀ (gs : List GraphT) (scopes : List Table), (replGs V scopes gs).ok → extGs V x scopes gs →
      (∃ gps ws, serSubsE V x td ver gs = .ok (gps, ws)) ∨ (∃ e, serSubsE V x td ver gs = .error (.dev e))
  | [], _, _, _ => .inl ⟨[], [], rfl⟩
  | g :: gs, scopes, h, hx => by
    simp only [replGs] at h
    simp only [extGs] at hx
    rcases extG_ser_ok V x td ver g scopes h.1 hx.1 with ⟨gp, ws1, e1⟩ | ⟨e, e1⟩
    · rcases extGs_ser_ok V x td ver gs scopes h.2 hx.2 with ⟨gps, ws2, e2⟩ | ⟨e, e2⟩
      · exact .inl ⟨_, _, by simp only [serSubsE, e1, e2]; rfl⟩
      · exact .inr ⟨e, by simp only [serSubsE, e1, e2]⟩
    · exact .inr ⟨e, by simp only [serSubsE, e1]⟩
end

/-- serializing a reloadable extended model does not raise for lack of a name: it succeeds, or a device
    configuration cannot be written -/
theorem reloadableE_ser (ver : Option Int) (w : WorldE) (h : ReloadableE w) :
    (∃ q ws, serGraphE w.st.vals w.ext w.st.tdata ver w.root = .ok (q, ws)) ∨
    (∃ e, serGraphE w.st.vals w.ext w.st.tdata ver w.root = .error (.dev e)) := by
  obtain ⟨⟨hok, _⟩, hext, _⟩ := h
  exact extG_ser_ok w.st.vals w.ext w.st.tdata ver w.root [] hok hext

end IrVerif.Scope

/-
C15 part B: what NameFixPass guarantees **without the scoping rule** (ill-scoped models: values shared by sibling
subgraphs, used outside the graph that first mentions them, ...): every value the call meets ends with a non-empty
name, and the values *recorded* in one scope (`recScopes`) end with pairwise different names.  Same induction as
`Lemmas/NamesScope.lean`, with the list of visible values replaced by the list of recorded values; lists are
compared by membership only.
-/
import IrVerif.Lemmas.NamesGenStep
namespace IrVerif.Names

theorem mem_recVals {S V vs : List Nat} {x : Nat} : x ∈ recVals S V vs ↔ x ∈ V ∨ (x ∈ vs ∧ x ∉ S) := by
  simp [recVals, List.mem_filter]

/-- what a run of steps on one level guarantees, without scoping: `V'` = the values recorded in the innermost scope
(any list with the right members), `named` = every value met on the way has a non-empty name -/
structure LvlR (c : Cfg) (st st' : FixSt) (V' S S' : List Nat) : Prop where
  inv : TInv c st'
  good : Good c st' V'
  seenEq : ∀ x, x ∈ st'.seen ↔ x ∈ S'
  frame : Frame st st'
  named : ∀ x, x ∈ S' → x ∉ S → truthy (st'.vname x) = true

theorem LvlR.refl {c : Cfg} {st : FixSt} {V S : List Nat} (inv : TInv c st) (good : Good c st V)
    (hS : ∀ x, x ∈ st.seen ↔ x ∈ S) : LvlR c st st V S S :=
  ⟨inv, good, hS, Frame.refl st, fun x h1 h2 => absurd h1 h2⟩

/-- composition of two runs -/
theorem LvlR.trans {c : Cfg} {a b d : FixSt} {V1 V2 S0 S1 S2 : List Nat} (h1 : LvlR c a b V1 S0 S1) (h2 : LvlR c b d V2 S1 S2)
    (hmono : ∀ x, x ∈ S0 → x ∈ S1) : LvlR c a d V2 S0 S2 := by
  refine ⟨h2.inv, h2.good, h2.seenEq, h1.frame.trans h2.frame, ?_⟩
  intro x hx hn
  by_cases h : x ∈ S1
  · rw [h2.frame.names x ((h1.seenEq x).mpr h)]
    exact h1.named x h hn
  · exact h2.named x hx h

theorem processValues_LvlR {c : Cfg} (hc : c.OK) : ∀ (vs : List Nat) {st : FixSt} {V S : List Nat},
    TInv c st → Good c st V → (∀ x, x ∈ st.seen ↔ x ∈ S) → (∀ v ∈ vs, c.C v) →
    ∃ V', (∀ x, x ∈ V' ↔ x ∈ V ∨ (x ∈ vs ∧ x ∉ S))
      ∧ LvlR c st (processValues st vs) V' S (S ++ vs) ∧ (processValues st vs).vstack.tail = st.vstack.tail
  | [], st, V, S, inv, good, hS, _ => by
    refine ⟨V, fun x => by simp, ?_, rfl⟩
    simpa [processValues] using LvlR.refl inv good hS
  | v :: vs, st, V, S, inv, good, hS, hC => by
    have pv := processValue_PV hc inv (hC v List.mem_cons_self)
    have e : processValues st (v :: vs) = processValues (processValue st v) vs := by simp [processValues]
    rw [e]
    by_cases hv : v ∈ st.seen
    · -- already seen (here or in a scope that is not visible): skipped
      have hvS : v ∈ S := (hS v).mp hv
      rw [pv.noop hv]
      obtain ⟨V', hV', l, t⟩ := processValues_LvlR hc vs inv good hS (fun u hu => hC u (List.mem_cons_of_mem _ hu))
      refine ⟨V', ?_, ⟨l.inv, l.good, ?_, l.frame, ?_⟩, t⟩
      · intro x; rw [hV' x]; simp only [List.mem_cons]
        constructor
        · rintro (h | ⟨h1, h2⟩)
          · exact Or.inl h
          · exact Or.inr ⟨Or.inr h1, h2⟩
        · rintro (h | ⟨h1 | h1, h2⟩)
          · exact Or.inl h
          · exact absurd (h1 ▸ hvS) h2
          · exact Or.inr ⟨h1, h2⟩
      · intro x; rw [l.seenEq x]; simp only [List.mem_append, List.mem_cons]
        constructor
        · rintro (h | h)
          · exact Or.inl h
          · exact Or.inr (Or.inr h)
        · rintro (h | h | h)
          · exact Or.inl h
          · exact Or.inl (h ▸ hvS)
          · exact Or.inr h
      · intro x hx hn
        refine l.named x ?_ hn
        simp only [List.mem_append, List.mem_cons] at hx ⊢
        rcases hx with h | h | h
        · exact Or.inl h
        · exact absurd (h ▸ hvS) hn
        · exact Or.inr h
    · have hvS : v ∉ S := fun h => hv ((hS v).mpr h)
      have g1 := processValue_Good hc inv good (hC v List.mem_cons_self) (fun h => absurd h hv)
      have hS1 : ∀ x, x ∈ (processValue st v).seen ↔ x ∈ S ++ [v] := by
        intro x; rw [pv.seen_iff x, hS x]; simp
      obtain ⟨V', hV', l, t⟩ := processValues_LvlR hc vs pv.inv g1 hS1 (fun u hu => hC u (List.mem_cons_of_mem _ hu))
      have l0 : LvlR c st (processValue st v) (V ++ [v]) S (S ++ [v]) := by
        refine ⟨pv.inv, g1, hS1, pv.frame, ?_⟩
        intro x hx hn
        have : x = v := by
          simp only [List.mem_append, List.mem_singleton] at hx
          exact hx.elim (fun h => absurd h hn) id
        subst this
        exact (g1.seen x (by simp)).2
      have l2 := l0.trans l (fun x h => List.mem_append_left _ h)
      refine ⟨V', ?_, ⟨l2.inv, l2.good, ?_, l2.frame, ?_⟩, t.trans pv.tail⟩
      · intro x; rw [hV' x]; simp only [List.mem_append, List.mem_singleton, List.mem_cons, List.not_mem_nil, or_false, not_or]
        constructor
        · rintro ((h | h) | ⟨h1, h2, h3⟩)
          · exact Or.inl h
          · exact Or.inr ⟨Or.inl h, h ▸ hvS⟩
          · exact Or.inr ⟨Or.inr h1, h2⟩
        · rintro (h | ⟨h1 | h1, h2⟩)
          · exact Or.inl (Or.inl h)
          · exact Or.inl (Or.inr h1)
          · by_cases hxv : x = v
            · exact Or.inl (Or.inr hxv)
            · exact Or.inr ⟨h1, h2, hxv⟩
      · intro x; rw [l2.seenEq x]; simp [List.append_assoc]
      · intro x hx hn
        exact l2.named x (by simpa [List.append_assoc] using hx) hn

theorem enterGraph_LvlR {c : Cfg} (hc : c.OK) (iv : Nat → List Nat) (hiv : ∀ g u, u ∈ iv g ↔ c.io u = some g)
    {st : FixSt} {V S : List Nat} (inv : TInv c st) (good : Good c st V) (hS : ∀ x, x ∈ st.seen ↔ x ∈ S)
    (g : Nat) (isG : Bool) (ins outs bouts : List Nat)
    (hC1 : ∀ v ∈ ins ++ outs ++ bouts, c.C v) (hC2 : isG = true → ∀ u, c.io u = some g → c.C u) :
    ∃ V', (∀ x, x ∈ V' ↔ x ∈ V ∨ (x ∈ gvals iv g isG ins outs bouts ∧ x ∉ S))
      ∧ LvlR c st (enterGraph st g isG ins outs bouts) V' S (S ++ gvals iv g isG ins outs bouts)
      ∧ (enterGraph st g isG ins outs bouts).vstack.tail = st.vstack := by
  rw [enterGraph_eq inv.nr]
  generalize hst0 : pushScope st = st0
  have e0 : VEq st st0 := by subst hst0; exact ⟨rfl, rfl, rfl, rfl, rfl, rfl, rfl⟩
  have etop : topOf st0.vstack = topOf st.vstack := by subst hst0; rfl
  have etail : st0.vstack.tail = st.vstack := by subst hst0; rfl
  have inv0 : TInv c st0 := inv.of_VEq e0
  have good0 : Good c st0 V := good.of_VEq e0 etop
  have hS0 : ∀ x, x ∈ st0.seen ↔ x ∈ S := by rw [e0.seen]; exact hS
  have hg : ∀ v, v ∈ gvals iv g isG ins outs bouts ↔ (v ∈ ins ∨ v ∈ outs ∨ (isG = true ∧ v ∈ iv g) ∨ v ∈ bouts) := by
    intro v; unfold gvals; cases isG <;> simp
  obtain ⟨V1, hV1, l1, t1⟩ := processValues_LvlR hc ins inv0 good0 hS0
    (fun v hv => hC1 v (List.mem_append_left _ (List.mem_append_left _ hv)))
  obtain ⟨V2, hV2, l2, t2⟩ := processValues_LvlR hc outs l1.inv l1.good l1.seenEq
    (fun v hv => hC1 v (List.mem_append_left _ (List.mem_append_right _ hv)))
  have l12 := l1.trans l2 (fun x h => List.mem_append_left _ h)
  -- initializers (a snapshot read now), uniformly for both cases of `isG`
  have step3 : ∃ (X V3 : List Nat), (∀ x, x ∈ X ↔ (isG = true ∧ x ∈ iv g))
      ∧ (∀ x, x ∈ V3 ↔ x ∈ V2 ∨ (x ∈ X ∧ x ∉ S ++ ins ++ outs))
      ∧ LvlR c st0
        (if isG = true then
          processValues (processValues (processValues st0 ins) outs)
            (((processValues (processValues st0 ins) outs).dicts g).map (·.2))
        else processValues (processValues st0 ins) outs) V3 S (S ++ ins ++ outs ++ X)
      ∧ (if isG = true then
          processValues (processValues (processValues st0 ins) outs)
            (((processValues (processValues st0 ins) outs).dicts g).map (·.2))
        else processValues (processValues st0 ins) outs).vstack.tail = (processValues (processValues st0 ins) outs).vstack.tail := by
    cases isG with
    | false =>
      refine ⟨[], V2, fun x => by simp, fun x => by simp, ?_, rfl⟩
      simpa using l12
    | true =>
      simp only [if_true]
      have hdict : ∀ u, u ∈ ((processValues (processValues st0 ins) outs).dicts g).map (·.2) ↔ u ∈ iv g := by
        intro u
        rw [l2.inv.ok.mem_iff g u, hiv g u, l2.inv.io]
      obtain ⟨V3, hV3, l3, t3⟩ := processValues_LvlR hc (((processValues (processValues st0 ins) outs).dicts g).map (·.2))
        l2.inv l2.good l2.seenEq (fun v hv => hC2 rfl v ((hiv g v).mp ((hdict v).mp hv)))
      exact ⟨_, V3, fun x => by rw [hdict x]; simp, hV3,
        l12.trans l3 (fun x h => List.mem_append_left _ (List.mem_append_left _ h)), t3⟩
  obtain ⟨X, V3, hX, hV3, l3, t3⟩ := step3
  obtain ⟨V4, hV4, l4, t4⟩ := processValues_LvlR hc bouts l3.inv l3.good l3.seenEq
    (fun v hv => hC1 v (List.mem_append_right _ hv))
  have l34 := l3.trans l4 (fun x h => by simp only [List.mem_append]; exact Or.inl (Or.inl (Or.inl h)))
  have hmem : ∀ x, x ∈ S ++ ins ++ outs ++ X ++ bouts ↔ x ∈ S ++ gvals iv g isG ins outs bouts := by
    intro x; simp only [List.mem_append, hg x, hX x, or_assoc]
  refine ⟨V4, ?_, ⟨l34.inv, l34.good, fun x => (l34.seenEq x).trans (hmem x), (Frame.of_VEq e0).trans l34.frame, ?_⟩, ?_⟩
  · intro x
    rw [hV4 x, hV3 x, hV2 x, hV1 x, hg x]
    simp only [List.mem_append, hX x, not_or]
    constructor
    · rintro ((((h | ⟨h1, h2⟩) | ⟨h1, h2, _⟩) | ⟨h1, ⟨h2, _⟩, _⟩) | ⟨h1, ⟨⟨h2, _⟩, _⟩, _⟩)
      · exact Or.inl h
      · exact Or.inr ⟨Or.inl h1, h2⟩
      · exact Or.inr ⟨Or.inr (Or.inl h1), h2⟩
      · exact Or.inr ⟨Or.inr (Or.inr (Or.inl h1)), h2⟩
      · exact Or.inr ⟨Or.inr (Or.inr (Or.inr h1)), h2⟩
    · rintro (h | ⟨h1, h2⟩)
      · exact Or.inl (Or.inl (Or.inl (Or.inl h)))
      · by_cases a1 : x ∈ ins
        · exact Or.inl (Or.inl (Or.inl (Or.inr ⟨a1, h2⟩)))
        · by_cases a2 : x ∈ outs
          · exact Or.inl (Or.inl (Or.inr ⟨a2, h2, a1⟩))
          · by_cases a3 : isG = true ∧ x ∈ iv g
            · exact Or.inl (Or.inr ⟨a3, ⟨h2, a1⟩, a2⟩)
            · rcases h1 with h1 | h1 | h1 | h1
              · exact absurd h1 a1
              · exact absurd h1 a2
              · exact absurd h1 a3
              · exact Or.inr ⟨h1, ⟨⟨h2, a1⟩, a2⟩, a3⟩
  · intro x hx hn
    exact l34.named x ((hmem x).mpr hx) hn
  · rw [t4, t3, t2, t1, etail]

/-- **the induction over the traversal without the scoping rule** -/
theorem runTr_LvlR {c : Cfg} (hc : c.OK) (iv : Nat → List Nat) (hiv : ∀ g u, u ∈ iv g ↔ c.io u = some g) :
    ∀ (t : Tr) {st : FixSt} {V0 V S : List Nat}, TInv c st → Good c st V0 → (∀ x, x ∈ V0 ↔ x ∈ V) →
      (∀ x, x ∈ st.seen ↔ x ∈ S) → HC c t →
      ∃ V', (∀ x, x ∈ V' ↔ x ∈ bodyVisR iv t S V)
        ∧ LvlR c st (runTr t st) V' S (seenAfter iv t S)
        ∧ (runTr t st).vstack.tail = st.vstack.tail
        ∧ ∀ L ∈ recScopes iv t S V, ∃ L', (∀ x, x ∈ L' ↔ x ∈ L) ∧ ScopeOK c (runTr t st) L' := by
  intro t
  induction t with
  | nil =>
    intro st V0 V S inv good hV hS _
    exact ⟨V0, hV, LvlR.refl inv good hS, rfl, fun L hL => by simp [recScopes] at hL⟩
  | node n ins outs subs rest ihs ihr =>
    intro st V0 V S inv good hV hS hC
    obtain ⟨hC1, hCs, hCr⟩ := hC.node
    simp only [runTr, visitNode, bodyVisR, seenAfter, recScopes]
    obtain ⟨e1, ev1⟩ := fixNodeName_VEq (st := st) n
    have inv1 := inv.of_VEq e1
    have good1 : Good c (fixNodeName st n) V0 := good.of_VEq e1 (by rw [ev1])
    have hS1 : ∀ x, x ∈ (fixNodeName st n).seen ↔ x ∈ S := by rw [e1.seen]; exact hS
    obtain ⟨V2, hV2, l2, t2⟩ := processValues_LvlR hc (nodeVals ins outs) inv1 good1 hS1 hC1
    have hV2' : ∀ x, x ∈ V2 ↔ x ∈ recVals S V (nodeVals ins outs) := by
      intro x; rw [hV2 x, mem_recVals, hV x]
    obtain ⟨V3, hV3, l3, t3, s3⟩ := ihs l2.inv l2.good hV2' l2.seenEq hCs
    obtain ⟨V4, hV4, l4, t4, s4⟩ := ihr l3.inv l3.good hV3 l3.seenEq hCr
    have l23 := l2.trans l3 (fun x h => List.mem_append_left _ h)
    have l24 := l23.trans l4 (fun x h => seenAfter_mono iv subs _ x (List.mem_append_left _ h))
    refine ⟨V4, hV4, ⟨l24.inv, l24.good, l24.seenEq, (Frame.of_VEq e1).trans l24.frame, l24.named⟩, ?_, ?_⟩
    · rw [t4, t3, t2, ev1]
    · intro L hL
      rcases List.mem_append.mp hL with hL | hL
      · obtain ⟨L', hL', ok⟩ := s3 L hL
        exact ⟨L', hL', ok.frame l4.frame⟩
      · exact s4 L hL
  | graph g isG ins outs body rest ihb ihr =>
    intro st V0 V S inv good hV hS hC
    obtain ⟨hC1, hC2, hCb, hCr⟩ := hC.graph
    simp only [runTr, bodyVisR, seenAfter, recScopes]
    obtain ⟨V1, hV1, l1, t1⟩ := enterGraph_LvlR hc iv hiv inv good hS g isG ins outs (bodyOuts body) hC1 hC2
    -- entered again by the nested iterator: everything is seen already
    obtain ⟨V2, hV2, l2, t2⟩ := enterGraph_LvlR hc iv hiv l1.inv l1.good l1.seenEq g isG ins outs (bodyOuts body) hC1 hC2
    have hV2' : ∀ x, x ∈ V2 ↔ x ∈ recVals S V (gvals iv g isG ins outs (bodyOuts body)) := by
      intro x; rw [hV2 x, hV1 x, mem_recVals, hV x]
      simp only [List.mem_append, not_or]
      constructor
      · rintro (h | ⟨h1, _, h3⟩)
        · exact h
        · exact absurd h1 h3
      · exact Or.inl
    have hS2 : ∀ x, x ∈ (enterGraph (enterGraph st g isG ins outs (bodyOuts body)) g isG ins outs (bodyOuts body)).seen ↔ x ∈ S ++ gvals iv g isG ins outs (bodyOuts body) := by
      intro x; rw [l2.seenEq x]; simp only [List.mem_append]; exact ⟨fun h => h.elim id Or.inr, Or.inl⟩
    obtain ⟨V3, hV3, l3, t3, s3⟩ := ihb l2.inv l2.good hV2' hS2 hCb
    obtain ⟨e4, ev4⟩ := exitGraph_VEq l3.inv.nr
    have inv4 := l3.inv.of_VEq e4
    obtain ⟨e5, ev5⟩ := exitGraph_VEq inv4.nr
    have inv5 := inv4.of_VEq e5
    have e35 := e4.trans e5
    have hstk : (exitGraph (exitGraph (runTr body (enterGraph (enterGraph st g isG ins outs (bodyOuts body)) g isG ins outs (bodyOuts body))))).vstack = st.vstack := by
      rw [ev5, ev4, t3, t2, t1]
    have fr05 : Frame st (exitGraph (exitGraph (runTr body (enterGraph (enterGraph st g isG ins outs (bodyOuts body)) g isG ins outs (bodyOuts body))))) :=
      l1.frame.trans (l2.frame.trans (l3.frame.trans (Frame.of_VEq e35)))
    have good5 : Good c (exitGraph (exitGraph (runTr body (enterGraph (enterGraph st g isG ins outs (bodyOuts body)) g isG ins outs (bodyOuts body))))) V0 :=
      { toScopeOK := good.toScopeOK.frame fr05
        top_iff := fun s => by
          rw [hstk, good.top_iff s]
          constructor
          · rintro ⟨u, hu, hs⟩; exact ⟨u, hu, by rw [fr05.names u (good.seen u hu).1]; exact hs⟩
          · rintro ⟨u, hu, hs⟩; exact ⟨u, hu, by rw [← fr05.names u (good.seen u hu).1]; exact hs⟩ }
    have hS5 : ∀ x, x ∈ (exitGraph (exitGraph (runTr body (enterGraph (enterGraph st g isG ins outs (bodyOuts body)) g isG ins outs (bodyOuts body))))).seen
        ↔ x ∈ seenAfter iv body (S ++ gvals iv g isG ins outs (bodyOuts body)) := by
      rw [e35.seen]; exact l3.seenEq
    obtain ⟨V6, hV6, l6, t6, s6⟩ := ihr inv5 good5 hV hS5 hCr
    -- everything met up to the second exit has a non-empty name
    have hS12 : ∀ x, x ∈ S ++ gvals iv g isG ins outs (bodyOuts body) ++ gvals iv g isG ins outs (bodyOuts body)
        ↔ x ∈ S ++ gvals iv g isG ins outs (bodyOuts body) := by
      intro x; simp only [List.mem_append]; exact ⟨fun h => h.elim id Or.inr, Or.inl⟩
    have l12 : LvlR c st _ V2 S (S ++ gvals iv g isG ins outs (bodyOuts body)) :=
      let l := l1.trans l2 (fun x h => List.mem_append_left _ h)
      ⟨l.inv, l.good, hS2, l.frame, fun x hx hn => l.named x ((hS12 x).mpr hx) hn⟩
    have l13 := l12.trans l3 (fun x h => List.mem_append_left _ h)
    have l15 : LvlR c st (exitGraph (exitGraph (runTr body (enterGraph (enterGraph st g isG ins outs (bodyOuts body)) g isG ins outs (bodyOuts body))))) V0 S
        (seenAfter iv body (S ++ gvals iv g isG ins outs (bodyOuts body))) :=
      ⟨inv5, good5, hS5, fr05, fun x hx hn => by rw [e35.vname]; exact l13.named x hx hn⟩
    have l16 := l15.trans l6 (fun x h => seenAfter_mono iv body _ x (List.mem_append_left _ h))
    refine ⟨V6, hV6, l16, ?_, ?_⟩
    · rw [t6, hstk]
    · intro L hL
      rcases List.mem_cons.mp hL with rfl | hL
      · exact ⟨V3, hV3, ((l3.good.toScopeOK).of_VEq e35).frame l6.frame⟩
      · rcases List.mem_append.mp hL with hL | hL
        · obtain ⟨L', hL', ok⟩ := s3 L hL
          exact ⟨L', hL', (ok.of_VEq e35).frame l6.frame⟩
        · exact s6 L hL


/-! ### one call, the whole pass -/

theorem mentioned_seen (iv : Nat → List Nat) : ∀ (t : Tr) (S : List Nat) (v : Nat), v ∈ mentioned t → v ∈ seenAfter iv t S := by
  intro t
  induction t with
  | nil => intro S v h; simp [mentioned] at h
  | node n ins outs subs rest ihs ihr =>
    intro S v h
    simp only [mentioned, List.mem_append] at h
    simp only [seenAfter]
    rcases h with h | h | h
    · exact seenAfter_mono iv rest _ v (seenAfter_mono iv subs _ v (List.mem_append_right _ h))
    · exact seenAfter_mono iv rest _ v (ihs _ v h)
    · exact ihr _ v h
  | graph g isG ins outs body rest ihb ihr =>
    intro S v h
    simp only [mentioned, List.mem_append] at h
    simp only [seenAfter]
    rcases h with (h | h) | h | h
    · exact seenAfter_mono iv rest _ v (seenAfter_mono iv body _ v (List.mem_append_right _ (by simp [gvals, h])))
    · exact seenAfter_mono iv rest _ v (seenAfter_mono iv body _ v (List.mem_append_right _ (by simp [gvals, h])))
    · exact seenAfter_mono iv rest _ v (ihb _ v h)
    · exact ihr _ v h

theorem seenAfter_sub (iv : Nat → List Nat) : ∀ (t : Tr) (S : List Nat) (x : Nat), x ∈ seenAfter iv t S →
    x ∈ S ∨ x ∈ mentioned t ∨ ∃ g ∈ graphsOf t, x ∈ iv g := by
  intro t
  induction t with
  | nil => intro S x h; exact Or.inl h
  | node n ins outs subs rest ihs ihr =>
    intro S x h
    simp only [seenAfter] at h
    simp only [mentioned, graphsOf, List.mem_append]
    rcases ihr _ x h with h | h | ⟨g, hg, h⟩
    · rcases ihs _ x h with h | h | ⟨g, hg, h⟩
      · rcases List.mem_append.mp h with h | h
        · exact Or.inl h
        · exact Or.inr (Or.inl (Or.inl h))
      · exact Or.inr (Or.inl (Or.inr (Or.inl h)))
      · exact Or.inr (Or.inr ⟨g, Or.inl hg, h⟩)
    · exact Or.inr (Or.inl (Or.inr (Or.inr h)))
    · exact Or.inr (Or.inr ⟨g, Or.inr hg, h⟩)
  | graph g0 isG ins outs body rest ihb ihr =>
    intro S x h
    simp only [seenAfter] at h
    simp only [mentioned, graphsOf, List.mem_append]
    rcases ihr _ x h with h | h | ⟨g, hg, h⟩
    · rcases ihb _ x h with h | h | ⟨g, hg, h⟩
      · rcases List.mem_append.mp h with h | h
        · exact Or.inl h
        · rcases gvals_mem h with h | ⟨hG, h⟩
          · rcases List.mem_append.mp h with h | h
            · exact Or.inr (Or.inl (Or.inl (List.mem_append.mp h)))
            · exact Or.inr (Or.inl (Or.inr (Or.inl (bodyOuts_sub_mentioned body x h))))
          · exact Or.inr (Or.inr ⟨g0, Or.inl (by simp [hG]), h⟩)
      · exact Or.inr (Or.inl (Or.inr (Or.inl h)))
      · exact Or.inr (Or.inr ⟨g, Or.inr (Or.inl hg), h⟩)
    · exact Or.inr (Or.inl (Or.inr (Or.inr h)))
    · exact Or.inr (Or.inr ⟨g, Or.inr (Or.inr hg), h⟩)

/-- one `_fix_graph_names` call, **no scoping hypothesis**: the values recorded in every scope end with pairwise
different non-empty names, and every value the call can meet ends with a non-empty name -/
theorem fixTop_rec {w : World} {t : Top} (hok : InitsOk w) (hcl : Closed w.initOf t)
    (iv : Nat → List Nat) (hiv : ∀ g u, u ∈ iv g ↔ w.initOf u = some g) :
    (∀ L ∈ recScopes iv t.tr [] [], InjT (fixTop w t).vname L ∧ ∀ x ∈ L, TopC w.initOf t x)
    ∧ (∀ u, TopC w.initOf t u → truthy ((fixTop w t).vname u) = true) := by
  have hc := topCfg_OK hok hcl
  obtain ⟨hC1, hC2, hCb, _⟩ := (topCfg_HC w t).graph
  have good0 : Good (topCfg w t) (topInit w t) [] :=
    { inj := fun a ha => by simp at ha, seen := fun u hu => by simp at hu, kept := fun v hv => by simp at hv
      first := FirstB.nil _ _
      top_iff := fun s => by simp [topInit, topOf] }
  obtain ⟨V1, hV1, l1, _⟩ := enterGraph_LvlR hc iv hiv (topInit_TInv t hok) good0 (S := []) (fun x => by simp [topInit])
    t.gid t.isGraph t.ins t.outs (bodyOuts t.body) hC1 hC2
  have hV1' : ∀ x, x ∈ V1 ↔ x ∈ recVals [] [] (gvals iv t.gid t.isGraph t.ins t.outs (bodyOuts t.body)) := by
    intro x; rw [hV1 x, mem_recVals]
  obtain ⟨V2, hV2, l2, _, s2⟩ := runTr_LvlR hc iv hiv t.body l1.inv l1.good hV1' l1.seenEq hCb
  obtain ⟨e3, _⟩ := exitGraph_VEq l2.inv.nr
  have l12 := l1.trans l2 (fun x h => List.mem_append_left _ h)
  have hseen : ∀ x, x ∈ seenAfter iv t.tr [] → TopC w.initOf t x := by
    intro x hx
    rcases seenAfter_sub iv t.tr [] x hx with h | h | ⟨g, hg, h⟩
    · simp at h
    · exact Or.inl h
    · exact Or.inr ⟨g, hg, (hiv g x).mp h⟩
  have hsa : seenAfter iv t.tr [] = seenAfter iv t.body ([] ++ gvals iv t.gid t.isGraph t.ins t.outs (bodyOuts t.body)) := by
    simp [Top.tr, seenAfter]
  rw [fixTop_eq]
  constructor
  · intro L hL
    have key : ∀ L', (∀ x, x ∈ L' ↔ x ∈ L) → ScopeOK (topCfg w t) (runTr t.body (enterGraph (topInit w t) t.gid t.isGraph t.ins t.outs (bodyOuts t.body))) L' →
        InjT (exitGraph (runTr t.body (enterGraph (topInit w t) t.gid t.isGraph t.ins t.outs (bodyOuts t.body)))).vname L ∧ ∀ x ∈ L, TopC w.initOf t x := by
      intro L' hL' ok
      have ok3 := ok.of_VEq e3
      refine ⟨⟨fun a ha b hb hab => ok3.inj a ((hL' a).mpr ha) b ((hL' b).mpr hb) hab,
        fun a ha => (ok3.seen a ((hL' a).mpr ha)).2⟩, ?_⟩
      intro x hx
      apply hseen x
      rw [hsa]
      exact (l2.seenEq x).mp (ok.seen x ((hL' x).mpr hx)).1
    simp only [Top.tr, recScopes, List.append_nil, List.mem_cons] at hL
    rcases hL with rfl | hL
    · exact key V2 hV2 l2.good.toScopeOK
    · obtain ⟨L', hL', ok⟩ := s2 L hL
      exact key L' hL' ok
  · intro u hu
    have hin : u ∈ seenAfter iv t.tr [] := by
      rcases hu with h | ⟨g, hg, h⟩
      · exact mentioned_seen iv t.tr [] u h
      · exact graph_inits_seen iv t.tr [] g u hg ((hiv g u).mpr h)
    rw [hsa] at hin
    rw [e3.vname]
    exact l12.named u hin (by simp)

/-- the whole pass, **no scoping hypothesis** -/
theorem fixModel_rec (iv : Nat → List Nat) : ∀ (tops : List Top) (w : World), InitsOk w →
    (∀ g u, u ∈ iv g ↔ w.initOf u = some g) →
    (∀ t ∈ tops, Closed w.initOf t ∧ (allNodes t.body).Nodup) →
    tops.Pairwise (TopDisj w.initOf) →
    ∀ t ∈ tops,
      (∀ L ∈ recScopes iv t.tr [] [], InjT (fixModel w tops).1.vname L)
      ∧ (∀ u, TopC w.initOf t u → truthy ((fixModel w tops).1.vname u) = true)
  | [], _, _, _, _, _ => fun t ht => by simp at ht
  | t :: ts, w, h, hiv, hyp, hdisj => by
    obtain ⟨hcl, hnd⟩ := hyp t List.mem_cons_self
    have inv := fixTop_TInv h hcl
    rw [fixModel_cons inv.nr]
    have hio : (fixTop w t).toWorld.initOf = w.initOf := inv.io
    rw [List.pairwise_cons] at hdisj
    have hyp' : ∀ t' ∈ ts, Closed (fixTop w t).toWorld.initOf t' ∧ (allNodes t'.body).Nodup :=
      fun t' ht' => by rw [hio]; exact hyp t' (List.mem_cons_of_mem _ ht')
    obtain ⟨fv, _⟩ := fixModel_frame ts (fixTop w t).toWorld inv.ok hyp'
    intro t0 ht0
    rcases List.mem_cons.mp ht0 with rfl | ht0
    · obtain ⟨r1, r2⟩ := fixTop_rec h hcl iv hiv
      have e : ∀ x, TopC w.initOf t0 x → (fixModel (fixTop w t0).toWorld ts).1.vname x = (fixTop w t0).vname x :=
        fun x hx => fv x (fun t' ht' => by rw [hio]; exact (hdisj.1 t' ht').1 x hx)
      constructor
      · intro L hL
        exact (r1 L hL).1.of_eq (fun x hx => e x ((r1 L hL).2 x hx))
      · intro u hu
        show truthy ((fixModel (fixTop w t0).toWorld ts).1.vname u) = true
        rw [e u hu]; exact r2 u hu
    · have ih := fixModel_rec iv ts (fixTop w t).toWorld inv.ok (fun g u => by rw [hio]; exact hiv g u) hyp'
        (by rw [hio]; exact hdisj.2) t0 ht0
      exact ⟨ih.1, fun u hu => ih.2 u (by rw [hio]; exact hu)⟩

end IrVerif.Names

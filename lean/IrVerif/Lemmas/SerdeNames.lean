import IrVerif.Lemmas.SerdeNormIdem
/-! C02: nothing named is lost — annotations (as a map keyed by tensor name), value names, node
names, function identifiers. -/
namespace IrVerif.Serde
open IrVerif.Proto

/-! ### quantization annotations -/

theorem nodup_of_nodup_map {α β : Type} (f : α → β) {l : List α} (h : (l.map f).Nodup) : l.Nodup :=
  nodup_of_map f h

theorem annotEntry_names_sublist (q : List AnnotP) : ∀ K : List String,
    ((K.filterMap (annotEntry q)).map (·.tensorName)).Sublist K
  | [] => List.Sublist.slnil
  | k :: ks => by
    simp only [List.filterMap_cons]
    cases h : annotEntry q k with
    | none => exact List.Sublist.cons _ (annotEntry_names_sublist q ks)
    | some a =>
      simp only [List.map_cons, annotEntry_name h]
      exact List.Sublist.cons₂ _ (annotEntry_names_sublist q ks)

/-- the annotations of the canonical form: exactly the (normalised) annotations of the input, each
once -/
theorem annotations_perm {inits : List TensorP} {inputs outputs vis : List ValueInfoP}
    {quant : List AnnotP} {outs : List String} (hw : GraphWF inits inputs outputs vis quant outs) :
    (normQuantFor quant
      ((inputs.map (·.name)).filter (fun n => !(inits.map (·.name)).contains n) ++ inits.map (·.name)
        ++ outs.filter (fun n => !(outputs.map (·.name)).contains n)
        ++ (dedupStr (outputs.map (·.name))).filter
            (fun n => !(inputs.map (·.name)).contains n && !(inits.map (·.name)).contains n))).Perm
      (quant.map normAnnot) := by
  have hK := quantKeys_nodup hw
  obtain ⟨_, _, hdis⟩ := nodupNames_parts hw
  rw [normQuantFor_eq]
  rw [List.perm_ext_iff_of_nodup]
  · intro a'
    simp only [List.mem_filterMap, List.mem_map]
    constructor
    · rintro ⟨n, _, hn⟩
      unfold annotEntry at hn
      cases hf : findAnnot quant n with
      | none => rw [hf] at hn; cases hn
      | some a =>
        rw [hf] at hn
        simp only at hn
        split at hn
        · cases hn
        · cases hn; exact ⟨a, (findAnnot_name hf).1, rfl⟩
    · rintro ⟨a, ha, rfl⟩
      obtain ⟨hname, hne, _⟩ := hw.quantOK a ha
      have hfa0 : findAnnot quant a.tensorName = some a := by
        unfold findAnnot
        rw [findLast?_eq_find? (fun x : AnnotP => x.tensorName) a.tensorName _ hw.nodupQuant]
        exact find?_of_nodup (fun x : AnnotP => x.tensorName) hw.nodupQuant ha
      refine ⟨a.tensorName, ?_, ?_⟩
      · -- every declared name is among the keys
        rcases mem_scopeNames.1 hname with h | h | h
        · by_cases hi : a.tensorName ∈ inits.map (·.name)
          · exact List.mem_append_left _ (List.mem_append_left _ (List.mem_append_right _ hi))
          · exact List.mem_append_left _ (List.mem_append_left _ (List.mem_append_left _
              (List.mem_filter.2 ⟨h, by simpa using hi⟩)))
        · exact List.mem_append_left _ (List.mem_append_left _ (List.mem_append_right _ h.1))
        · by_cases ho : a.tensorName ∈ outputs.map (·.name)
          · exact List.mem_append_right _ (List.mem_filter.2 ⟨mem_dedupStr.2 ho, by
              have := hdis _ h
              simp [this.1, this.2]⟩)
          · exact List.mem_append_left _ (List.mem_append_right _ (List.mem_filter.2 ⟨h, by simpa using ho⟩))
      · have hfa : findAnnot quant a.tensorName = some a := by
          unfold findAnnot
          rw [findLast?_eq_find? (fun x : AnnotP => x.tensorName) a.tensorName _ hw.nodupQuant]
          exact find?_of_nodup (fun x : AnnotP => x.tensorName) hw.nodupQuant ha
        have : a.params.isEmpty = false := by simpa [List.isEmpty_iff] using hne
        simp [annotEntry, hfa, this]
  · exact nodup_of_nodup_map (·.tensorName) (List.Nodup.sublist (annotEntry_names_sublist quant _) hK)
  · apply nodup_of_nodup_map (·.tensorName)
    simp only [List.map_map]
    have : ((fun x : AnnotP => x.tensorName) ∘ normAnnot) = (fun x : AnnotP => x.tensorName) := by
      funext a; rfl
    rw [this]
    exact hw.nodupQuant

theorem normGraph_quant (outer : Scopes) (g : GraphP) (h : wfGraph outer g = true) :
    (normGraph g).quant.Perm (g.quant.map normAnnot) := by
  cases g with
  | mk name doc nodes inits inputs outputs vis quant md =>
    obtain ⟨hw, _⟩ := graphWF_of_wf outer name doc nodes inits inputs outputs vis quant md h
    simp only [normGraph, GraphP.quant]
    exact annotations_perm hw

/-! ### names -/

mutual
/-- all value names a graph mentions, in order of appearance: inputs, initializers, per node its
inputs / outputs (unnamed ones aside) and the names inside its subgraphs, graph outputs -/
def attrValueNames : AttrP → List String
  | .graph _ _ g => graphValueNames g
  | .graphs _ _ gs => graphsValueNames gs
  | _ => []
def graphsValueNames : List GraphP → List String
  | [] => []
  | g :: gs => graphValueNames g ++ graphsValueNames gs
def attrsValueNames : List AttrP → List String
  | [] => []
  | a :: as => attrValueNames a ++ attrsValueNames as
def nodeValueNames : NodeP → List String
  | .mk inputs outputs _ _ _ _ _ attrs _ _ =>
    inputs.filter (· ≠ "") ++ outputs.filter (· ≠ "") ++ attrsValueNames attrs
def nodesValueNames : List NodeP → List String
  | [] => []
  | n :: ns => nodeValueNames n ++ nodesValueNames ns
def graphValueNames : GraphP → List String
  | .mk _ _ nodes inits inputs outputs _ _ _ =>
    inputs.map (·.name) ++ inits.map (·.name) ++ nodesValueNames nodes ++ outputs.map (·.name)
end

mutual
/-- all node names, nested subgraphs included -/
def attrNodeNames : AttrP → List String
  | .graph _ _ g => graphNodeNames g
  | .graphs _ _ gs => graphsNodeNames gs
  | _ => []
def graphsNodeNames : List GraphP → List String
  | [] => []
  | g :: gs => graphNodeNames g ++ graphsNodeNames gs
def attrsNodeNames : List AttrP → List String
  | [] => []
  | a :: as => attrNodeNames a ++ attrsNodeNames as
def nodeNodeNames : NodeP → List String
  | .mk _ _ name _ _ _ _ attrs _ _ => name :: attrsNodeNames attrs
def nodesNodeNames : List NodeP → List String
  | [] => []
  | n :: ns => nodeNodeNames n ++ nodesNodeNames ns
def graphNodeNames : GraphP → List String
  | .mk _ _ nodes .. => nodesNodeNames nodes
end

mutual
theorem attrValueNames_norm : ∀ a : AttrP, attrValueNames (normAttr a) = attrValueNames a
  | .graph n d g => by simp [normAttr, attrValueNames, graphValueNames_norm g]
  | .graphs n d gs => by simp [normAttr, attrValueNames, graphsValueNames_norm gs]
  | .tensor .. | .tensors .. | .ref .. | .int .. | .float .. | .string .. | .ints .. | .floats ..
  | .strings .. | .typeProto .. | .typeProtos .. | .undefined .. | .sparse .. | .unknown .. => by
    simp [normAttr, attrValueNames]
theorem graphsValueNames_norm : ∀ gs : List GraphP, graphsValueNames (normGraphs gs) = graphsValueNames gs
  | [] => rfl
  | g :: gs => by simp [normGraphs, graphsValueNames, graphValueNames_norm g, graphsValueNames_norm gs]
theorem attrsValueNames_norm : ∀ as : List AttrP, attrsValueNames (normAttrs as) = attrsValueNames as
  | [] => rfl
  | a :: as => by simp [normAttrs, attrsValueNames, attrValueNames_norm a, attrsValueNames_norm as]
theorem nodeValueNames_norm : ∀ n : NodeP, nodeValueNames (normNode n) = nodeValueNames n
  | .mk inputs outputs name op domain overload doc attrs md dev => by
    simp only [normNode, nodeValueNames, trim_filter, attrsValueNames_norm attrs]
theorem nodesValueNames_norm : ∀ ns : List NodeP, nodesValueNames (normNodes ns) = nodesValueNames ns
  | [] => rfl
  | n :: ns => by simp [normNodes, nodesValueNames, nodeValueNames_norm n, nodesValueNames_norm ns]
theorem graphValueNames_norm : ∀ g : GraphP, graphValueNames (normGraph g) = graphValueNames g
  | .mk name doc nodes inits inputs outputs vis quant md => by
    simp [normGraph, graphValueNames, nodesValueNames_norm nodes, List.map_map, Function.comp_def,
      normInputVI_name, normOutputVI_name, normTensor]
end

mutual
theorem attrNodeNames_norm : ∀ a : AttrP, attrNodeNames (normAttr a) = attrNodeNames a
  | .graph n d g => by simp [normAttr, attrNodeNames, graphNodeNames_norm g]
  | .graphs n d gs => by simp [normAttr, attrNodeNames, graphsNodeNames_norm gs]
  | .tensor .. | .tensors .. | .ref .. | .int .. | .float .. | .string .. | .ints .. | .floats ..
  | .strings .. | .typeProto .. | .typeProtos .. | .undefined .. | .sparse .. | .unknown .. => by
    simp [normAttr, attrNodeNames]
theorem graphsNodeNames_norm : ∀ gs : List GraphP, graphsNodeNames (normGraphs gs) = graphsNodeNames gs
  | [] => rfl
  | g :: gs => by simp [normGraphs, graphsNodeNames, graphNodeNames_norm g, graphsNodeNames_norm gs]
theorem attrsNodeNames_norm : ∀ as : List AttrP, attrsNodeNames (normAttrs as) = attrsNodeNames as
  | [] => rfl
  | a :: as => by simp [normAttrs, attrsNodeNames, attrNodeNames_norm a, attrsNodeNames_norm as]
theorem nodeNodeNames_norm : ∀ n : NodeP, nodeNodeNames (normNode n) = nodeNodeNames n
  | .mk inputs outputs name op domain overload doc attrs md dev => by
    simp [normNode, nodeNodeNames, attrsNodeNames_norm attrs]
theorem nodesNodeNames_norm : ∀ ns : List NodeP, nodesNodeNames (normNodes ns) = nodesNodeNames ns
  | [] => rfl
  | n :: ns => by simp [normNodes, nodesNodeNames, nodeNodeNames_norm n, nodesNodeNames_norm ns]
theorem graphNodeNames_norm : ∀ g : GraphP, graphNodeNames (normGraph g) = graphNodeNames g
  | .mk name doc nodes inits inputs outputs vis quant md => by
    simp [normGraph, graphNodeNames, nodesNodeNames_norm nodes]
end

/-- value names of a model: main graph, then per function its inputs, node values, outputs -/
def modelValueNames (m : ModelP) : List String :=
  graphValueNames m.graph ++ m.functions.flatMap fun f => f.inputs ++ nodesValueNames f.nodes ++ f.outputs

def modelNodeNames (m : ModelP) : List String :=
  graphNodeNames m.graph ++ m.functions.flatMap fun f => nodesNodeNames f.nodes

def modelFunctionIds (m : ModelP) : List (String × String × String) :=
  m.functions.map fun f => (f.domain, f.name, f.overload)

theorem graphNames_addValueInfo (g : GraphP) (X : List ValueInfoP) :
    graphValueNames (GraphP.addValueInfo g X) = graphValueNames g ∧
    graphNodeNames (GraphP.addValueInfo g X) = graphNodeNames g := by
  cases g; simp [GraphP.addValueInfo, graphValueNames, graphNodeNames]

theorem normModel_names (m : ModelP) :
    modelValueNames (normModel m) = modelValueNames m ∧
    modelNodeNames (normModel m) = modelNodeNames m ∧
    modelFunctionIds (normModel m) = modelFunctionIds m := by
  have hg : graphValueNames (normModel m).graph = graphValueNames m.graph ∧
      graphNodeNames (normModel m).graph = graphNodeNames m.graph := by
    simp only [normModel]
    split
    · exact ⟨graphValueNames_norm _, graphNodeNames_norm _⟩
    · rw [(graphNames_addValueInfo _ _).1, (graphNames_addValueInfo _ _).2]
      exact ⟨graphValueNames_norm _, graphNodeNames_norm _⟩
  refine ⟨?_, ?_, ?_⟩
  · simp only [modelValueNames, hg.1]
    simp [normModel, List.flatMap_map, normFunction, nodesValueNames_norm]
  · simp only [modelNodeNames, hg.2]
    simp [normModel, List.flatMap_map, normFunction, nodesNodeNames_norm]
  · simp [modelFunctionIds, normModel, List.map_map, Function.comp_def, normFunction]

end IrVerif.Serde

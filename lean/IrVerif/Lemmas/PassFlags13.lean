/-
C14 (second deepening): CSE - in a round all of whose rewrites are "stalled" the total Identity-chain depth of the
main graph grows by the number of rewrites; it is bounded by the square of the weighted node count.
-/
import IrVerif.Lemmas.PassFlags12
import IrVerif.Lemmas.SemValid3
import IrVerif.Model.PassFlags3
namespace IrVerif.PassFlags
open IrVerif.Sem IrVerif.Passes

/-! ## the depth map -/

theorem dget_cons (δ : DMap) (k : VId) (d : Nat) (v : VId) :
    dget ((k, d) :: δ) v = if v = k then d else dget δ v := by
  simp only [dget, List.lookup_cons]
  by_cases h : v = k
  · simp [h]
  · have : (v == k) = false := by simpa using h
    simp [h, this]

theorem dget_zero_append (vs : List VId) (δ : DMap) (v : VId) :
    dget (vs.map (fun v => (v, 0)) ++ δ) v = if v ∈ vs then 0 else dget δ v := by
  induction vs with
  | nil => simp
  | cons a l ih =>
    simp only [List.map_cons, List.cons_append, dget_cons, ih, List.mem_cons]
    by_cases h : v = a
    · simp [h]
    · simp [h]

theorem idShape_some {n : Node} {x y : VId} (h : idShape n = some (x, y)) :
    isIdentityOp n.op = true ∧ n.ins = [some x] ∧ n.outs = [y] := ieCandidate_some h

theorem dstep_other (δ : DMap) (n : Node) (v : VId) (hv : v ∉ n.outs) : dget (dstep δ n) v = dget δ v := by
  unfold dstep
  cases h : idShape n with
  | none => simp only [dget_zero_append, if_neg hv]
  | some p =>
    obtain ⟨x, y⟩ := p
    have := (idShape_some h).2.2
    rw [this] at hv
    simp only [dget_cons]
    rw [if_neg (by simpa using hv)]

theorem dstep_id (δ : DMap) (n : Node) (x y : VId) (h : idShape n = some (x, y)) :
    dget (dstep δ n) y = dget δ x + 1 := by
  simp only [dstep, h, dget_cons, if_true]

theorem dstep_plain (δ : DMap) (n : Node) (v : VId) (h : idShape n = none) (hv : v ∈ n.outs) :
    dget (dstep δ n) v = 0 := by
  simp only [dstep, h, dget_zero_append, if_pos hv]

theorem dstep_bound (δ : DMap) (n : Node) (b : Nat) (hb : ∀ v, dget δ v ≤ b) : ∀ v, dget (dstep δ n) v ≤ b + 1 := by
  intro v
  unfold dstep
  cases h : idShape n with
  | none =>
    simp only [dget_zero_append]
    split
    · omega
    · have := hb v; omega
  | some p =>
    obtain ⟨x, y⟩ := p
    simp only [dget_cons]
    split
    · have := hb x; omega
    · have := hb v; omega

theorem dcontrib_bound (δ : DMap) (n : Node) (b : Nat) (hb : ∀ v, dget δ v ≤ b) : dcontrib δ n ≤ b + 1 := by
  unfold dcontrib
  cases h : idShape n with
  | none => simp
  | some p => obtain ⟨x, y⟩ := p; have := hb x; simp only; omega

/-- the total depth is at most quadratic in the number of nodes -/
theorem phiSum_bound : ∀ (ns : List Node) (δ : DMap) (b : Nat), (∀ v, dget δ v ≤ b) →
    phiSum δ ns ≤ ns.length * (b + ns.length)
  | [], _, _, _ => by simp [phiSum]
  | n :: ns, δ, b, hb => by
    have h1 := dcontrib_bound δ n b hb
    have h2 := phiSum_bound ns (dstep δ n) (b + 1) (dstep_bound δ n b hb)
    simp only [phiSum, List.length_cons]
    have e : (ns.length + 1) * (b + (ns.length + 1)) = ns.length * (b + 1 + ns.length) + (b + 1 + ns.length) := by
      rw [Nat.succ_mul]
      have : b + (ns.length + 1) = b + 1 + ns.length := by omega
      rw [this]
    rw [e]
    omega

theorem length_le_cseW : ∀ ns : List Node, ns.length ≤ cseW ns
  | [] => by simp [cseW]
  | n :: ns => by
    have ih := length_le_cseW ns
    have h1 : 1 ≤ cseWt n := by
      cases n with
      | mk op attrs ins outs bodies => simp only [cseWt]; split <;> omega
    simp only [cseW, List.map_cons, List.sum_cons, List.length_cons] at ih ⊢
    omega

theorem cseDepth_le (m : Model) : cseDepth m ≤ cseW m.graph.nodes * cseW m.graph.nodes := by
  have h := phiSum_bound m.graph.nodes [] 0 (fun v => by simp [dget])
  have hl := length_le_cseW m.graph.nodes
  simp only [Nat.zero_add] at h
  exact Nat.le_trans h (Nat.mul_le_mul hl hl)

/-! ## substitution and the Identity shape -/

theorem ieCandidate_subst (σ : Subst) (op : OpId) (ins : List (Option VId)) (nouts : List VId) :
    ieCandidate op (substIns σ ins) nouts = (ieCandidate op ins nouts).map (fun p => (σ.app p.1, p.2)) := by
  unfold ieCandidate
  by_cases hop : isIdentityOp op = true
  · simp only [hop, if_true]
    rcases ins with _ | ⟨a, _ | ⟨b, l⟩⟩ <;> rcases nouts with _ | ⟨y, _ | ⟨y2, l2⟩⟩ <;>
      first
      | rfl
      | (cases a <;> simp [substIns])
  · simp only [hop, Bool.false_eq_true, if_false, Option.map_none]

/-! ## the walk -/

theorem mem_defs_of_outs {op : OpId} {attrs : List (String × AttrData)} {ins : List (Option VId)} {nouts : List VId}
    {bodies : List Graph} {ns : List Node} {v : VId} (h : v ∈ nouts) :
    v ∈ defsNodes (.mk op attrs ins nouts bodies :: ns) := by
  simp only [defsNodes, defsN, List.mem_append]
  exact Or.inl (Or.inl h)

theorem mem_defs_tail {n : Node} {ns : List Node} {v : VId} (h : v ∈ defsNodes ns) : v ∈ defsNodes (n :: ns) := by
  simp only [defsNodes, List.mem_append]
  exact Or.inr h

/-- in a walk all of whose rewrites are stalled the total chain depth grows by the number of rewrites -/
theorem cseNodes_depth (limit : Nat) (gins : List VId) :
    ∀ (ns tbl : List Node) (σ : Subst) (outs : List VId) (δi δo : DMap),
    ssaNodes ns = true → noFwdNodes ns = true →
    (∀ p ∈ σ, p.1 ∉ defsNodes ns ∧ p.2 ∉ defsNodes ns) →
    (∀ n1 ∈ tbl, (∀ v ∈ n1.outs, v ∉ defsNodes ns) ∧ (∀ v ∈ n1.ins.filterMap id, v ∉ defsNodes ns)) →
    (∀ v, dget δi v ≤ dget δo (σ.app v)) →
    (∀ n1 ∈ tbl, ∀ x z, idShape n1 = some (x, z) → dget δo x + 1 ≤ dget δo z) →
    cseCnt limit gins tbl σ outs ns ≤ cseStall limit gins tbl σ outs ns →
    phiSum δi ns + cseCnt limit gins tbl σ outs ns ≤ phiSum δo (cseNodes limit gins tbl σ outs ns).nodes
  | [], _, _, _, _, _, _, _, _, _, _, _, _ => by simp [phiSum, cseCnt, cseNodes]
  | .mk op attrs ins nouts bodies :: ns, tbl, σ, outs, δi, δo, hs, hf, hσ, htbl, hmain, hti, hcs => by
    simp only [ssaNodes, ssaN, Bool.and_eq_true, disj_iff] at hs
    simp only [noFwdNodes, noFwdN, Bool.and_eq_true, disj_iff, Node.ins, Node.outs, Node.bodies] at hf
    obtain ⟨⟨_, hsd⟩, hsn⟩ := hs
    obtain ⟨⟨⟨hfi, _⟩, _⟩, hfn⟩ := hf
    -- freshness facts
    have hout_tail : ∀ v ∈ nouts, v ∉ defsNodes ns := fun v hv => hsd v (by simp only [defsN, List.mem_append]; exact Or.inl hv)
    have hσn : ∀ p ∈ σ, p.1 ∉ defsNodes ns ∧ p.2 ∉ defsNodes ns :=
      fun p hp => ⟨fun h => (hσ p hp).1 (mem_defs_tail h), fun h => (hσ p hp).2 (mem_defs_tail h)⟩
    have hσo : ∀ p ∈ σ, p.1 ∉ nouts ∧ p.2 ∉ nouts :=
      fun p hp => ⟨fun h => (hσ p hp).1 (mem_defs_of_outs h), fun h => (hσ p hp).2 (mem_defs_of_outs h)⟩
    have happ_out : ∀ v ∈ nouts, σ.app v = v := fun v hv => app_of_not_key (fun p hp h => (hσo p hp).1 (h ▸ hv))
    have happ_nout : ∀ v, v ∉ nouts → σ.app v ∉ nouts := by
      intro v hv
      rcases Subst.app_cases σ v with h | ⟨p, hp, _, h2⟩
      · rw [h]; exact hv
      · rw [← h2]; exact (hσo p hp).2
    have htbln : ∀ n1 ∈ tbl, (∀ v ∈ n1.outs, v ∉ defsNodes ns) ∧ (∀ v ∈ n1.ins.filterMap id, v ∉ defsNodes ns) :=
      fun n1 h1 => ⟨fun v hv h => (htbl n1 h1).1 v hv (mem_defs_tail h), fun v hv h => (htbl n1 h1).2 v hv (mem_defs_tail h)⟩
    have htblo : ∀ n1 ∈ tbl, (∀ v ∈ n1.outs, v ∉ nouts) ∧ (∀ v ∈ n1.ins.filterMap id, v ∉ nouts) :=
      fun n1 h1 => ⟨fun v hv h => (htbl n1 h1).1 v hv (mem_defs_of_outs h), fun v hv h => (htbl n1 h1).2 v hv (mem_defs_of_outs h)⟩
    have hins_sub : ∀ w ∈ (substIns σ ins).filterMap id, w ∉ defsNodes (.mk op attrs ins nouts bodies :: ns) := by
      intro w hw
      obtain ⟨v, hv, rfl⟩ := mem_substIns' hw
      rcases Subst.app_cases σ v with h | ⟨p, hp, _, h2⟩
      · rw [h]; exact hfi v hv
      · rw [← h2]; exact (hσ p hp).2
    -- the node as it is emitted
    have hshape : idShape (.mk op attrs (substIns σ ins) nouts (substBodies σ bodies)) =
        (idShape (.mk op attrs ins nouts bodies)).map (fun p => (σ.app p.1, p.2)) := by
      simp only [idShape, Node.op, Node.ins, Node.outs]
      exact ieCandidate_subst σ op ins nouts
    have hcontrib : dcontrib δi (.mk op attrs ins nouts bodies) ≤
        dcontrib δo (.mk op attrs (substIns σ ins) nouts (substBodies σ bodies)) := by
      unfold dcontrib
      rw [hshape]
      cases idShape (.mk op attrs ins nouts bodies) with
      | none => simp
      | some p => obtain ⟨x, y⟩ := p; simp only [Option.map_some]; have := hmain x; omega
    -- invariants after a node that is kept
    have keep_main : ∀ v, dget (dstep δi (.mk op attrs ins nouts bodies)) v ≤
        dget (dstep δo (.mk op attrs (substIns σ ins) nouts (substBodies σ bodies))) (σ.app v) := by
      intro v
      by_cases hv : v ∈ nouts
      · rw [happ_out v hv]
        cases hsh : idShape (.mk op attrs ins nouts bodies) with
        | none =>
          rw [dstep_plain δi _ v hsh hv]; omega
        | some p =>
          obtain ⟨x, y⟩ := p
          have hy := (idShape_some hsh).2.2
          simp only [Node.outs] at hy
          rw [hy, List.mem_singleton] at hv
          subst hv
          rw [dstep_id δi _ x v hsh, dstep_id δo _ (σ.app x) v (by rw [hshape, hsh]; rfl)]
          have := hmain x; omega
      · rw [dstep_other δi (.mk op attrs ins nouts bodies) v hv,
          dstep_other δo (.mk op attrs (substIns σ ins) nouts (substBodies σ bodies)) (σ.app v) (happ_nout v hv)]
        exact hmain v
    have keep_tbl : ∀ n1 ∈ tbl, ∀ x z, idShape n1 = some (x, z) →
        dget (dstep δo (.mk op attrs (substIns σ ins) nouts (substBodies σ bodies))) x + 1 ≤
          dget (dstep δo (.mk op attrs (substIns σ ins) nouts (substBodies σ bodies))) z := by
      intro n1 h1 x z hsh
      obtain ⟨_, hi1, ho1⟩ := idShape_some hsh
      have hz : z ∉ nouts := (htblo n1 h1).1 z (by rw [ho1]; simp)
      have hx : x ∉ nouts := (htblo n1 h1).2 x (by rw [hi1]; simp)
      rw [dstep_other δo (.mk op attrs (substIns σ ins) nouts (substBodies σ bodies)) z hz,
        dstep_other δo (.mk op attrs (substIns σ ins) nouts (substBodies σ bodies)) x hx]
      exact hti n1 h1 x z hsh
    by_cases hskip : cseSkip limit op attrs bodies = true
    · -- control flow / large tensor / random: kept, not recorded
      simp only [cseCnt, cseStall, hskip, if_true] at hcs
      have ih := cseNodes_depth limit gins ns tbl σ outs _ _ hsn hfn hσn htbln keep_main keep_tbl hcs
      simp only [cseNodes, cseCnt, hskip, if_true, phiSum]
      omega
    · cases hfind : tbl.find? (fun n1 => cseKeyMatch n1 (.mk op attrs (substIns σ ins) nouts (substBodies σ bodies))) with
      | none =>
        simp only [cseCnt, cseStall, hskip, Bool.false_eq_true, if_false, hfind] at hcs
        have ih := cseNodes_depth limit gins ns (tbl ++ [.mk op attrs (substIns σ ins) nouts (substBodies σ bodies)]) σ outs
          _ _ hsn hfn hσn
          (by
            intro n1 h1
            rcases List.mem_append.1 h1 with h1 | h1
            · exact htbln n1 h1
            · rw [List.mem_singleton] at h1
              subst h1
              refine ⟨fun v hv => hout_tail v hv, fun v hv h => hins_sub v hv (mem_defs_tail h)⟩)
          keep_main
          (by
            intro n1 h1 x z hsh
            rcases List.mem_append.1 h1 with h1 | h1
            · exact keep_tbl n1 h1 x z hsh
            · rw [List.mem_singleton] at h1
              subst h1
              obtain ⟨_, hi1, ho1⟩ := idShape_some hsh
              simp only [Node.ins, Node.outs] at hi1 ho1
              have hx : x ∉ nouts := fun h => hins_sub x (by rw [hi1]; simp) (mem_defs_of_outs h)
              rw [dstep_id δo _ x z hsh,
                dstep_other δo (.mk op attrs (substIns σ ins) nouts (substBodies σ bodies)) x hx]
              omega)
          hcs
        simp only [cseNodes, cseCnt, hskip, Bool.false_eq_true, if_false, hfind, phiSum]
        omega
      | some n1 =>
        have hn1 : n1 ∈ tbl := List.mem_of_find?_eq_some hfind
        have hkey := List.find?_some hfind
        simp only [cseKeyMatch, Bool.and_eq_true, beq_iff_eq] at hkey
        have hkop : n1.op = op := hkey.1.1.1
        have hklen : n1.outs.length = nouts.length := hkey.1.1.2
        have hkins : n1.ins = substIns σ ins := hkey.1.2
        have hsl := cseStall_le_cnt limit gins ns tbl (nouts.zip n1.outs ++ σ)
          (cseFixOuts gins (nouts.zip n1.outs) [] [] outs).1
        simp only [cseCnt, cseStall, hskip, Bool.false_eq_true, if_false, hfind] at hcs
        -- the rewrite is stalled
        have hst : (isIdentityOp op && nouts.length == 1 &&
            !(cseFixOuts gins (nouts.zip n1.outs) [] [] outs).2.isEmpty) = true := by
          cases hb : (isIdentityOp op && nouts.length == 1 &&
            !(cseFixOuts gins (nouts.zip n1.outs) [] [] outs).2.isEmpty) with
          | true => rfl
          | false => simp only [hb, Bool.false_eq_true, if_false] at hcs; omega
        have hcs' : cseCnt limit gins tbl (nouts.zip n1.outs ++ σ) (cseFixOuts gins (nouts.zip n1.outs) [] [] outs).1 ns ≤
            cseStall limit gins tbl (nouts.zip n1.outs ++ σ) (cseFixOuts gins (nouts.zip n1.outs) [] [] outs).1 ns := by
          simp only [hst, if_true] at hcs; omega
        simp only [Bool.and_eq_true, beq_iff_eq, Bool.not_eq_true', List.isEmpty_eq_false_iff] at hst
        obtain ⟨⟨hid, hlen1⟩, hne⟩ := hst
        -- one output on each side
        obtain ⟨o, rfl⟩ : ∃ o, nouts = [o] := by
          match nouts, hlen1 with
          | [o], _ => exact ⟨o, rfl⟩
        obtain ⟨z, hz⟩ : ∃ z, n1.outs = [z] := by
          have : n1.outs.length = 1 := by rw [hklen]; rfl
          match h : n1.outs, this with
          | [z], _ => exact ⟨z, rfl⟩
        rw [hz] at hne hcs' hsl
        simp only [List.zip_cons_cons, List.zip_nil_right, List.singleton_append] at hne hcs' hsl
        -- exactly one Identity node is inserted: `o = Identity(z)`
        have hle := cseFixOuts_le_nouts gins [o] [z] outs
        simp only [List.zip_cons_cons, List.zip_nil_right, List.length_singleton] at hle
        obtain ⟨hidp, _, _, _⟩ := cseFixOuts_wf gins [(o, z)] outs [] [] (fun _ => True) (fun _ _ _ => trivial)
        obtain ⟨mnode, hfx⟩ : ∃ mnode, (cseFixOuts gins [(o, z)] [] [] outs).2 = [mnode] := by
          generalize (cseFixOuts gins [(o, z)] [] [] outs).2 = l at hne hle
          match l, hne, hle with
          | [mnode], _, _ => exact ⟨mnode, rfl⟩
          | [], hne, _ => exact absurd rfl hne
          | _ :: _ :: _, _, hle => simp at hle
        have hm : mnode = identityNode z o := by
          obtain ⟨z', o', e, hl⟩ := hidp mnode (by rw [hfx]; simp)
          simp only [List.lookup_cons, List.lookup_nil] at hl
          by_cases hoo : o' = o
          · subst hoo
            simp at hl
            rw [e, hl]
          · have : (o' == o) = false := by simpa using hoo
            simp [this] at hl
        -- depth of the kept node's output
        have hzo : z ≠ o := fun h => (htblo n1 hn1).1 z (by rw [hz]; simp) (by rw [h]; simp)
        have hold : dcontrib δi (.mk op attrs ins [o] bodies) ≤ dget δo z := by
          unfold dcontrib
          cases hsh : idShape (.mk op attrs ins [o] bodies) with
          | none => simp
          | some p =>
            obtain ⟨x, y⟩ := p
            simp only
            have hs1 : idShape n1 = some (σ.app x, z) := by
              show ieCandidate n1.op n1.ins n1.outs = some (σ.app x, z)
              rw [hkop, hkins, hz]
              have h' : ieCandidate op (substIns σ ins) [o] = some (σ.app x, y) := by
                have h2 := hshape
                rw [hsh] at h2
                exact h2
              obtain ⟨_, hi, _⟩ := ieCandidate_some h'
              rw [hi]
              simp [ieCandidate, hid]
            have := hti n1 hn1 (σ.app x) z hs1
            have := hmain x
            omega
        -- invariants after the rewrite
        have ih := cseNodes_depth limit gins ns tbl ((o, z) :: σ) (cseFixOuts gins [(o, z)] [] [] outs).1
          (dstep δi (.mk op attrs ins [o] bodies)) ((o, dget δo z + 1) :: δo) hsn hfn
          (by
            intro p hp
            rcases List.mem_cons.1 hp with hp | hp
            · subst hp
              exact ⟨hout_tail o (by simp), (htbln n1 hn1).1 z (by rw [hz]; simp)⟩
            · exact hσn p hp)
          htbln
          (by
            intro v
            rw [Subst.app_cons]
            by_cases hv : v = o
            · subst hv
              simp only [if_true, dget_cons, if_neg hzo]
              cases hsh : idShape (.mk op attrs ins [v] bodies) with
              | none => rw [dstep_plain δi _ v hsh (by simp [Node.outs])]; omega
              | some p =>
                obtain ⟨x, y⟩ := p
                have hy : y = v := by
                  have := (idShape_some hsh).2.2
                  simp only [Node.outs, List.cons.injEq, and_true] at this
                  exact this.symm
                subst hy
                rw [dstep_id δi _ x y hsh]
                have := hold
                simp only [dcontrib, hsh] at this
                exact this
            · simp only [if_neg hv]
              rw [dstep_other δi (.mk op attrs ins [o] bodies) v (by simpa [Node.outs] using hv)]
              have hne' : σ.app v ≠ o := fun h => happ_nout v (by simpa using hv) (by rw [h]; simp)
              rw [dget_cons, if_neg hne']
              exact hmain v)
          (by
            intro n1' h1' x z' hsh
            obtain ⟨_, hi1, ho1⟩ := idShape_some hsh
            have hz' : z' ≠ o := fun h => (htblo n1' h1').1 z' (by rw [ho1]; simp) (by rw [h]; simp)
            have hx' : x ≠ o := fun h => (htblo n1' h1').2 x (by rw [hi1]; simp) (by rw [h]; simp)
            rw [dget_cons, dget_cons, if_neg hz', if_neg hx']
            exact hti n1' h1' x z' hsh)
          hcs'
        simp only [cseNodes, cseCnt, hskip, Bool.false_eq_true, if_false, hfind, hz, List.zip_cons_cons,
          List.zip_nil_right, List.singleton_append, hfx, hm, phiSum, List.cons_append, List.nil_append]
        have hdi : dcontrib δo (identityNode z o) = dget δo z + 1 := by
          simp [dcontrib, idShape, identityNode, ieCandidate, isIdentityOp, Node.op, Node.ins, Node.outs]
        have hds : dstep δo (identityNode z o) = (o, dget δo z + 1) :: δo := by
          simp [dstep, idShape, identityNode, ieCandidate, isIdentityOp, Node.op, Node.ins, Node.outs]
        rw [hdi, hds]
        omega

end IrVerif.PassFlags

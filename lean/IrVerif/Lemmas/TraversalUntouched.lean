/-
Recursive iteration while node sequences are edited: the nodes outside a closed set `X` that contains
every touched node are yielded exactly as scheduled at the start (`tRunY` / `tAdm` of
Model/Traversal.lean).

* a `next()` consumes a prefix of the remaining stream (`spec_split`: determinism of `TSteps`);
* an edit of one graph's node sequence leaves the remaining stream unchanged outside `X`
  (`fut_local`: the list-level `untouched` lemma per frame, and locality of the pre-order listing).
-/
import IrVerif.Lemmas.TraversalTree
import IrVerif.Lemmas.TraversalRefine
namespace IrVerif.LinkedSet

/-! ### a `next()` consumes a prefix of the remaining stream -/

theorem tStep_stop_nil (w : TWorld) (d : Dir) (st st' : List TFrame) (o : List Out)
    (e : tStep w d st = (st', o, some .stop)) : st = [] ∧ st' = [] ∧ o = [] := by
  cases st with
  | nil =>
    simp only [tStep, Prod.mk.injEq] at e
    exact ⟨rfl, e.1.symm, e.2.1.symm⟩
  | cons fr rest =>
    exfalso
    cases hm : fr.mode with
    | last v =>
      rw [tStep_last w d fr rest v hm] at e
      simp at e
    | expand v it pend =>
      cases pend with
      | cons h ps =>
        rw [tStep_pend w d fr rest v it h ps hm] at e
        simp at e
      | nil =>
        cases hx : it.next (w.dictOf v) with
        | mk it' res =>
          cases res with
          | item k a =>
            rw [tStep_entry w d fr rest v it it' k a hm hx] at e
            cases a <;> simp at e
          | stop =>
            rw [tStep_entries_end w d fr rest v it hm (by rw [hx])] at e
            simp at e
          | raised => simp [tStep, hm, hx] at e
    | loop =>
      cases hres : iterNext (w.setOf fr.g) d fr.c with
      | mk c' res =>
        cases res with
        | yield v => rw [tStep_yield w d fr rest c' v hm hres] at e; simp at e
        | stop => rw [tStep_stop w d fr rest c' hm hres] at e; simp at e
        | raised => simp [tStep, hm, hres] at e
        | fuel => simp [tStep, hm, hres] at e

theorem tNext_steps (w : TWorld) (d : Dir) : ∀ (f : Nat) (st st' : List TFrame) (o : List Out) (r : Res),
    tNext w d f st = (st', o, r) →
    (∀ v, r = .yield v → TSteps w d st o st') ∧ (r = .stop → TSteps w d st o [] ∧ st' = [])
  | 0, st, st', o, r, e => by
      simp only [tNext, Prod.mk.injEq] at e
      obtain ⟨_, _, rfl⟩ := e
      exact ⟨fun v h => (by cases h), fun h => (by cases h)⟩
  | f + 1, st, st', o, r, e => by
      cases hs : tStep w d st with
      | mk st1 p =>
        obtain ⟨o1, r1⟩ := p
        cases r1 with
        | some r1 =>
          simp only [tNext, hs, Prod.mk.injEq] at e
          obtain ⟨rfl, rfl, rfl⟩ := e
          refine ⟨fun v h => TSteps.one hs (Or.inr ⟨v, by rw [h]⟩), fun h => ?_⟩
          subst h
          obtain ⟨rfl, rfl, rfl⟩ := tStep_stop_nil w d st st1 o1 hs
          exact ⟨.refl _, rfl⟩
        | none =>
          simp only [tNext, hs, Prod.mk.injEq] at e
          obtain ⟨e1, e2, e3⟩ := e
          obtain ⟨i1, i2⟩ := tNext_steps w d f st1 (tNext w d f st1).1 (tNext w d f st1).2.1
            (tNext w d f st1).2.2 rfl
          subst e1 e2 e3
          refine ⟨fun v h => TSteps.step hs (Or.inl rfl) (i1 v h), fun h => ?_⟩
          obtain ⟨j1, j2⟩ := i2 h
          exact ⟨TSteps.step hs (Or.inl rfl) j1, j2⟩

/-- complete runs are unique -/
theorem TSteps.det_nil {w : TWorld} {d : Dir} {st : List TFrame} {a b : List Out}
    (h1 : TSteps w d st a []) (h2 : TSteps w d st b []) : a = b := by
  generalize hn : ([] : List TFrame) = fin at h1
  induction h1 generalizing b with
  | refl st =>
    subst hn
    cases h2 with
    | refl => rfl
    | step e hr _ =>
      simp only [tStep, Prod.mk.injEq] at e
      obtain ⟨_, _, rfl⟩ := e
      rcases hr with h | ⟨_, h⟩ <;> cases h
  | @step st st1 st' o outs r e hr _ ih =>
    subst hn
    cases h2 with
    | refl =>
      simp only [tStep, Prod.mk.injEq] at e
      obtain ⟨_, _, rfl⟩ := e
      rcases hr with h | ⟨_, h⟩ <;> cases h
    | step e' hr' h2' =>
      rw [e] at e'
      simp only [Prod.mk.injEq] at e'
      obtain ⟨rfl, rfl, rfl⟩ := e'
      rw [ih h2' rfl]

/-- **a `next()` consumes a prefix of the remaining stream** (no graph nested in itself, dict
    iterators in step, the call returns a node or StopIteration) -/
theorem spec_split {w : TWorld} {d : Dir} (hw : TWorldWF w) (ha : w.acyclic d = true) (f : Nat)
    {st : List TFrame} (ok : TStackOK w st) (hs : ∀ fr ∈ st, fr.synced w = true)
    (hr : (tNext w d f st).2.2 = .stop ∨ ∃ v, (tNext w d f st).2.2 = .yield v) :
    tStackSpec (tVisit w d (w.sets.length + 1)) w d st =
      (tNext w d f st).2.1 ++ tStackSpec (tVisit w d (w.sets.length + 1)) w d (tNext w d f st).1 := by
  have hnf : (tNext w d f st).2.2 ≠ .fuel := by
    rcases hr with h | ⟨v, h⟩ <;> rw [h] <;> simp
  have ok' := (tNext_ok (d := d) hw f st ok).1
  have hs' := (tNext_refines w d f st hs hnf).1
  obtain ⟨i1, i2⟩ := tNext_steps w d f st _ _ _ rfl
  have full := tsteps_stack hw ha st ok hs
  rcases hr with h | ⟨v, h⟩
  · obtain ⟨j1, j2⟩ := i2 h
    rw [j2]
    simpa [tStackSpec] using TSteps.det_nil full j1
  · have rest := tsteps_stack hw ha _ ok' hs'
    exact TSteps.det_nil full ((i1 v h).trans rest)

/-! ### `untouched` on lists built by `flatMap` -/

theorem untouched_flatMap {α : Type} (X : List Nat) (f : α → List Nat) : ∀ (l : List α),
    untouched X (l.flatMap f) = l.flatMap (fun x => untouched X (f x))
  | [] => rfl
  | a :: l => by
      simp only [List.flatMap_cons]
      rw [← untouched_flatMap X f l]
      simp [untouched]

theorem untouched_app (X l1 l2 : List Nat) : untouched X (l1 ++ l2) = untouched X l1 ++ untouched X l2 := by
  simp [untouched]

theorem untouched_nil_of_subset (X l : List Nat) (h : ∀ u ∈ l, u ∈ X) : untouched X l = [] := by
  simp only [untouched]
  apply List.filter_eq_nil_iff.2
  intro u hu
  simpa using h u hu

/-- a listing in blocks `v :: B v`, where the block of a node of `X` lies in `X`: filtering the
    listing is filtering the heads and the blocks -/
theorem untouched_blocks (X : List Nat) (B : Nat → List Nat) (hB : ∀ v, v ∈ X → ∀ u ∈ B v, u ∈ X) :
    ∀ (l : List Nat), untouched X (l.flatMap (fun v => v :: B v)) =
      (untouched X l).flatMap (fun v => v :: untouched X (B v))
  | [] => rfl
  | a :: l => by
      have ih := untouched_blocks X B hB l
      simp only [List.flatMap_cons]
      rw [untouched_app, ih]
      by_cases ha : a ∈ X
      · have h1 : untouched X (a :: B a) = [] :=
          untouched_nil_of_subset X _ (fun u hu => by
            rcases List.mem_cons.1 hu with rfl | hu
            · exact ha
            · exact hB a ha u hu)
        have h2 : untouched X (a :: l) = untouched X l := by simp [untouched, ha]
        rw [h1, h2]; rfl
      · have h1 : untouched X (a :: B a) = a :: untouched X (B a) := by simp [untouched, ha]
        have h2 : untouched X (a :: l) = a :: untouched X l := by simp [untouched, ha]
        rw [h1, h2]; rfl

theorem untouched_mono' {T T' l l' : List Nat} (hT : ∀ x ∈ T, x ∈ T')
    (h : untouched T l = untouched T l') : untouched T' l = untouched T' l' := by
  have key : ∀ m : List Nat, untouched T' m = untouched T' (untouched T m) := by
    intro m
    simp only [untouched, List.filter_filter]
    apply List.filter_congr
    intro x _
    by_cases hx : x ∈ T
    · simp [hx, hT x hx]
    · simp [hx]
  rw [key l, key l', h]

/-! ### locality of the pre-order listing -/

/-- the pre-order listing restricted to the nodes outside `X` does not change when the node lists
    change only inside `X` (and `X` is closed under "nested below" before and after) -/
theorem preord_local (X : List Nat) {nodes nodes' sub : Nat → List Nat}
    (hn : ∀ g, untouched X (nodes' g) = untouched X (nodes g))
    (hc : ∀ k v, v ∈ X → ∀ u ∈ (sub v).flatMap (preord nodes sub k), u ∈ X)
    (hc' : ∀ k v, v ∈ X → ∀ u ∈ (sub v).flatMap (preord nodes' sub k), u ∈ X) :
    ∀ (k h : Nat), untouched X (preord nodes' sub k h) = untouched X (preord nodes sub k h)
  | 0, _ => rfl
  | k + 1, h => by
      have ih : (fun h => untouched X (preord nodes' sub k h)) = fun h => untouched X (preord nodes sub k h) :=
        funext (preord_local X hn hc hc' k)
      simp only [preord]
      rw [untouched_blocks X _ (hc' k), untouched_blocks X _ (hc k), hn h]
      congr 1
      funext v
      rw [untouched_flatMap, untouched_flatMap, ih]

/-! ### the yields of the remaining-stream specification -/

/-- what a frame still yields because of the node it has yielded last / is expanding -/
def modeY (P : Nat → List Nat) (w : TWorld) (d : Dir) (fr : TFrame) : List Nat :=
  match fr.mode with
  | .last v => (w.subD d v).flatMap P
  | .expand v it pend => pend.flatMap P ++ (itRest (w.dictOf v) it).flatMap (fun e => (e.2.graphsOf d).flatMap P)
  | .loop => []

theorem yieldsOf_tFrameSpec (w : TWorld) (d : Dir) (k : Nat) (fr : TFrame) :
    yieldsOf (tFrameSpec (tVisit w d k) w d fr) =
      modeY (preord (w.nodesD d) (w.subD d) k) w d fr ++
      (rest (w.setOf fr.g) d fr.c).flatMap
        (fun v => v :: (w.subD d v).flatMap (preord (w.nodesD d) (w.subD d) k)) := by
  have ih : (fun h => yieldsOf (tVisit w d k h)) = preord (w.nodesD d) (w.subD d) k :=
    funext (yieldsOf_tVisit w d k)
  unfold tFrameSpec
  rw [yieldsOf_append, yieldsOf_append, yieldsOf_tLoop, ih]
  have e0 : yieldsOf (if fr.c = .notStarted then [Out.enter fr.g] else []) = [] := by split <;> rfl
  rw [e0, List.append_nil]
  congr 1
  unfold modeY
  cases fr.mode with
  | loop => rfl
  | last v => simp only [yieldsOf_tAfter, ih]
  | expand v it pend =>
    simp only [yieldsOf_append, yieldsOf_flatMap]
    congr 1
    · exact congrArg (fun f => pend.flatMap f) ih
    · congr 1
      funext e
      exact congrArg (fun f => (e.2.graphsOf d).flatMap f) ih

theorem yieldsOf_tPop (rest : List TFrame) (g : Nat) : yieldsOf (tPop rest g) = [] := by
  unfold tPop; split <;> rfl

/-! ### an edit of a node sequence leaves the remaining stream unchanged outside `X` -/

theorem untouched_step' {s : LSet} (h : WF s) (op : Op) (d : Dir) (c : Cursor) (hc : c.Valid s) :
    untouched (touched op) (rest (apply s op).1 d c) = untouched (touched op) (rest s d c) := by
  obtain ⟨bs, hi⟩ := h
  obtain ⟨bs', hi', hs, _, hsz⟩ := sim_apply hi op d c hc
  have hc' : c.Valid (apply s op).1 := Nat.lt_of_lt_of_le hc hsz
  have ok : (absSt s bs d c).OK := ⟨hi.vals_nodup, acur_inRange hi d c hc⟩
  obtain ⟨_, u⟩ := Spec.apply_spec ok op
  rw [(hi'.rest_eq d c hc').1, (hi.rest_eq d c hc).1]
  have e1 : Spec.rest (bs'.map (vl (apply s op).1)) d (acur (apply s op).1 bs' d c) =
      (Spec.apply (absSt s bs d c) op).1.rest := by
    rw [← hs]; rfl
  rw [e1, u]; rfl

theorem closed_of_good {w : TWorld} {d : Dir} {X : List Nat} (hw : TWorldWF w) (hg : w.good d X = true) :
    ∀ k v, v ∈ X → ∀ u ∈ (w.subD d v).flatMap (preord (w.nodesD d) (w.subD d) k), u ∈ X := by
  simp only [TWorld.good, Bool.and_eq_true] at hg
  obtain ⟨ha, hc⟩ := hg
  intro k v hv u hu
  obtain ⟨h, hh, hu⟩ := List.mem_flatMap.1 hu
  obtain ⟨j, _, x, r, hx⟩ := mem_preord (E := fun a b => b ∈ w.kids d a) (mem_kids_iff hw d) k h u hu
  have hb := hgt_reachN hw ha r
  have hle := thgt_le w d h
  have hm := preord_mem (E := fun a b => b ∈ w.kids d a) (mem_kids_iff hw d) (w.sets.length + 1) j h x u
    (by omega) r hx
  have := List.all_eq_true.1 hc v hv
  have := List.all_eq_true.1 this u (List.mem_flatMap.2 ⟨h, hh, hm⟩)
  simpa using this

theorem applyAt_sets_length (w : TWorld) (g : Nat) (op : Op) : (w.applyAt g op).1.sets.length = w.sets.length := by
  simp [TWorld.applyAt]

theorem subD_applyAt (w : TWorld) (d : Dir) (g : Nat) (op : Op) : (w.applyAt g op).1.subD d = w.subD d := rfl

theorem rest_applyAt {w : TWorld} (hw : TWorldWF w) (d : Dir) (g : Nat) (op : Op) (X : List Nat)
    (hX : ∀ v ∈ touched op, v ∈ X) (g' : Nat) (c : Cursor) (hc : c.Valid (w.setOf g')) :
    untouched X (rest ((w.applyAt g op).1.setOf g') d c) = untouched X (rest (w.setOf g') d c) := by
  by_cases hg : g < w.sets.length
  · by_cases hgg : g' = g
    · subst hgg
      rw [tsetOf_applyAt_same w g' op hg]
      exact untouched_mono' hX (untouched_step' (hw.setOf g') op d c hc)
    · rw [tsetOf_applyAt_other w g g' op hgg]
  · rw [tapplyAt_oob w g op hg]

/-- **locality of the remaining stream under an edit of a node sequence** -/
theorem fut_local {w : TWorld} {d : Dir} {X : List Nat} (hw : TWorldWF w) (g : Nat) (op : Op)
    (hg : w.good d X = true) (hg' : (w.applyAt g op).1.good d X = true)
    (hX : ∀ v ∈ touched op, v ∈ X) :
    ∀ (st : List TFrame), TStackOK w st →
      untouched X ((w.applyAt g op).1.fut d st) = untouched X (w.fut d st) := by
  have hw' : TWorldWF (w.applyAt g op).1 := (tapplyAt_ok hw (st := []) (fun _ h => by cases h) g op).1
  have hc := closed_of_good hw hg
  have hc' := closed_of_good hw' hg'
  rw [subD_applyAt] at hc'
  have hn : ∀ g', untouched X ((w.applyAt g op).1.nodesD d g') = untouched X (w.nodesD d g') := by
    intro g'
    obtain ⟨bs, hi⟩ := hw.setOf g'
    exact rest_applyAt hw d g op X hX g' .notStarted (by simpa [Cursor.Valid, Cursor.pos] using hi.size_pos)
  have hP := preord_local X hn hc hc' (w.sets.length + 1)
  have hPf : (fun h => untouched X (preord ((w.applyAt g op).1.nodesD d) (w.subD d) (w.sets.length + 1) h)) =
      fun h => untouched X (preord (w.nodesD d) (w.subD d) (w.sets.length + 1) h) := funext hP
  intro st
  induction st with
  | nil => intro _; rfl
  | cons fr rest ih =>
    intro ok
    have okf := ok fr (by simp)
    have ihr := ih (fun x hx => ok x (by simp [hx]))
    unfold TWorld.fut at ihr ⊢
    simp only [tStackSpec, yieldsOf_append, yieldsOf_tPop, List.append_nil, untouched_app]
    rw [ihr]
    congr 1
    rw [applyAt_sets_length, yieldsOf_tFrameSpec, yieldsOf_tFrameSpec, subD_applyAt]
    simp only [untouched_app]
    congr 1
    · -- the part that depends on the node yielded last / being expanded
      unfold modeY
      cases fr.mode with
      | loop => rfl
      | last v => simp only [untouched_flatMap]; exact congrArg (fun f => (w.subD d v).flatMap f) hPf
      | expand v it pend =>
        simp only [untouched_app, untouched_flatMap, dictOf_applyAt]
        congr 1
        · exact congrArg (fun f => pend.flatMap f) hPf
        · congr 1
          funext e
          exact congrArg (fun f => (e.2.graphsOf d).flatMap f) hPf
    · -- the nodes still to be yielded by this frame's own loop
      rw [untouched_blocks X _ (hc' _), untouched_blocks X _ (hc _),
        rest_applyAt hw d g op X hX fr.g fr.c okf.valid]
      congr 1
      funext v
      rw [untouched_flatMap, untouched_flatMap, hPf]

/-! ### histories -/

theorem tAdm_good (X : List Nat) (d : Dir) (fuel : Nat) (w : TWorld) (st : List TFrame) (es : List TEv)
    (h : tAdm X d fuel w st es = true) : w.good d X = true := by
  cases es with
  | nil => exact h
  | cons e es =>
    cases e with
    | next => simp only [tAdm, Bool.and_eq_true] at h; exact h.1.1
    | edit g op => simp only [tAdm, Bool.and_eq_true] at h; exact h.1.1
    | setAttr v k a => simp [tAdm] at h
    | delAttr v k => simp [tAdm] at h

/-- **nodes outside `X` are yielded exactly as scheduled**: along an admissible history, the nodes
    yielded so far followed by the nodes still to be yielded, both restricted to the nodes outside
    `X`, is what was to be yielded at the start restricted in the same way -/
theorem trav_untouched (X : List Nat) (d : Dir) (fuel : Nat) : ∀ (es : List TEv) (w : TWorld) (st : List TFrame),
    TWorldWF w → TStackOK w st → (∀ fr ∈ st, fr.synced w = true) → tAdm X d fuel w st es = true →
    TWorldWF (tRunY d fuel w st es).1 ∧ TStackOK (tRunY d fuel w st es).1 (tRunY d fuel w st es).2.1 ∧
    (∀ fr ∈ (tRunY d fuel w st es).2.1, fr.synced (tRunY d fuel w st es).1 = true) ∧
    untouched X ((tRunY d fuel w st es).2.2 ++ (tRunY d fuel w st es).1.fut d (tRunY d fuel w st es).2.1) =
      untouched X (w.fut d st)
  | [], w, st, hw, ok, hs, _ => ⟨hw, ok, hs, rfl⟩
  | .next :: es, w, st, hw, ok, hs, adm => by
      simp only [tAdm, Bool.and_eq_true] at adm
      obtain ⟨⟨hg, hres⟩, adm'⟩ := adm
      have ha : w.acyclic d = true := by
        simp only [TWorld.good, Bool.and_eq_true] at hg; exact hg.1
      have hr : (tNext w d fuel st).2.2 = .stop ∨ ∃ v, (tNext w d fuel st).2.2 = .yield v := by
        cases h : (tNext w d fuel st).2.2 with
        | yield v => exact Or.inr ⟨v, rfl⟩
        | stop => exact Or.inl rfl
        | raised => rw [h] at hres; simp at hres
        | fuel => rw [h] at hres; simp at hres
      have hnf : (tNext w d fuel st).2.2 ≠ .fuel := by
        rcases hr with h | ⟨v, h⟩ <;> rw [h] <;> simp
      have ok' := (tNext_ok (d := d) hw fuel st ok).1
      have hs' := (tNext_refines w d fuel st hs hnf).1
      have split := spec_split hw ha fuel ok hs hr
      obtain ⟨i1, i2, i3, i4⟩ := trav_untouched X d fuel es w (tNext w d fuel st).1 hw ok' hs' adm'
      refine ⟨i1, i2, i3, ?_⟩
      simp only [tRunY]
      rw [List.append_assoc, untouched_app, i4]
      unfold TWorld.fut
      rw [split, yieldsOf_append, untouched_app]
  | .edit g op :: es, w, st, hw, ok, hs, adm => by
      simp only [tAdm, Bool.and_eq_true] at adm
      obtain ⟨⟨hg, hX⟩, adm'⟩ := adm
      have hg' := tAdm_good X d fuel _ st es adm'
      have hX' : ∀ v ∈ touched op, v ∈ X := by
        intro v hv
        have := List.all_eq_true.1 hX v hv
        simpa using this
      obtain ⟨hw', ok'⟩ := tapplyAt_ok hw ok g op
      have hs' : ∀ fr ∈ st, fr.synced (w.applyAt g op).1 = true := by
        intro fr hfr; rw [synced_applyAt]; exact hs fr hfr
      obtain ⟨i1, i2, i3, i4⟩ := trav_untouched X d fuel es (w.applyAt g op).1 st hw' ok' hs' adm'
      refine ⟨i1, i2, i3, ?_⟩
      simp only [tRunY]
      rw [i4]
      exact fut_local hw g op hg hg' hX' st ok
  | .setAttr v k a :: es, w, st, _, _, _, adm => by simp [tAdm] at adm
  | .delAttr v k :: es, w, st, _, _, _, adm => by simp [tAdm] at adm

end IrVerif.LinkedSet

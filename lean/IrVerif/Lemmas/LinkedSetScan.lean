/-
The scan loop of the generators over tombstones: a fuel-free resolution relation `Tgt`, the
termination measure, and how the two primitive transitions change resolution.
-/
import IrVerif.Lemmas.LinkedSetIter
namespace IrVerif.LinkedSet

/-- `Tgt s bs d x t`: started at box `x`, the loop `while box is not root: if not erased: yield;
    box = box.next/prev` stops at `t` (0 = leaves the loop at the root, otherwise the live box it
    yields at). -/
inductive Tgt (s : LSet) (bs : List Nat) (d : Dir) : Nat → Nat → Prop
  | root : Tgt s bs d 0 0
  | live {x : Nat} : x ∈ bs → Tgt s bs d x x
  | hop {x t : Nat} : x ≠ 0 → x ∉ bs → Tgt s bs d (hop s d x) t → Tgt s bs d x t

theorem Tgt.node {s : LSet} {bs : List Nat} {d : Dir} {x t : Nat} (h : Tgt s bs d x t) :
    IsNode bs t := by
  induction h with
  | root => exact Or.inl rfl
  | live hx => exact Or.inr hx
  | hop _ _ _ ih => exact ih

theorem Tgt.det {s : LSet} {bs : List Nat} {d : Dir} {x t t' : Nat} (h0 : 0 ∉ bs)
    (h : Tgt s bs d x t) (h' : Tgt s bs d x t') : t = t' := by
  induction h with
  | root =>
    cases h' with
    | root => rfl
    | live hx => exact absurd hx h0
    | hop hx _ _ => exact absurd rfl hx
  | live hx =>
    cases h' with
    | root => exact absurd hx h0
    | live _ => rfl
    | hop _ hx' _ => exact absurd hx hx'
  | hop hx hxb _ ih =>
    cases h' with
    | root => exact absurd rfl hx
    | live hx' => exact absurd hx' hxb
    | hop _ _ ht => exact ih ht

theorem Tgt.of_node {s : LSet} {bs : List Nat} {d : Dir} {x : Nat} (h : IsNode bs x) :
    Tgt s bs d x x := by
  rcases h with rfl | h
  · exact .root
  · exact .live h

/-- termination measure of the scan loop: 0 on nodes, time since erasure on tombstones -/
def rank (s : LSet) (bs : List Nat) (x : Nat) : Nat :=
  if x = 0 ∨ x ∈ bs then 0 else s.clock - stp s x

theorem Inv.rank_hop_lt {s : LSet} {bs : List Nat} (h : Inv s bs) (d : Dir) {x : Nat}
    (hx : x < size s) (hx0 : x ≠ 0) (hxb : x ∉ bs) :
    hop s d x < size s ∧ rank s bs (hop s d x) < rank s bs x := by
  have hb := h.bound x hx
  have ht := h.tomb x hx hx0 hxb
  have hr : rank s bs x = s.clock - stp s x := by simp [rank, hx0, hxb]
  cases d with
  | fwd =>
    refine ⟨hb.1, ?_⟩
    have hb' := h.bound _ hb.1
    simp only [hop]
    rw [hr]
    unfold rank
    split
    · omega
    · rename_i hc
      rcases ht.1 with t | t | t
      · exact absurd (Or.inl t) hc
      · exact absurd (Or.inr t) hc
      · omega
  | rev =>
    refine ⟨hb.2.1, ?_⟩
    have hb' := h.bound _ hb.2.1
    simp only [hop]
    rw [hr]
    unfold rank
    split
    · omega
    · rename_i hc
      rcases ht.2 with t | t | t
      · exact absurd (Or.inl t) hc
      · exact absurd (Or.inr t) hc
      · omega

theorem Inv.rank_le {s : LSet} {bs : List Nat} (h : Inv s bs) (x : Nat) : rank s bs x < size s + 1 := by
  have := h.clk
  unfold rank; split <;> omega

/-- every box resolves (the loop terminates): by induction on the measure -/
theorem Inv.tgt_exists {s : LSet} {bs : List Nat} (h : Inv s bs) (d : Dir) :
    ∀ (n x : Nat), rank s bs x ≤ n → x < size s → ∃ t, Tgt s bs d x t
  | n, x, hr, hx => by
    by_cases hn : x = 0 ∨ x ∈ bs
    · exact ⟨x, Tgt.of_node hn⟩
    · have hx0 : x ≠ 0 := fun e => hn (Or.inl e)
      have hxb : x ∉ bs := fun e => hn (Or.inr e)
      have hl := h.rank_hop_lt d hx hx0 hxb
      match n with
      | 0 => omega
      | n + 1 =>
        obtain ⟨t, ht⟩ := Inv.tgt_exists h d n (hop s d x) (by omega) hl.1
        exact ⟨t, .hop hx0 hxb ht⟩

/-- what `scan` returns when the loop stops at `t` -/
def scanRes (s : LSet) (t : Nat) : Cursor × Res :=
  if t = 0 then (.done, .stop) else (.at t, .yield (vl s t))

/-- with enough fuel `scan` and `target` compute the resolution -/
theorem Inv.scan_of_tgt {s : LSet} {bs : List Nat} (h : Inv s bs) (d : Dir) {x t : Nat}
    (ht : Tgt s bs d x t) : x < size s → ∀ f, rank s bs x < f →
      scan s d f x = scanRes s t ∧ target s d f x = t := by
  induction ht with
  | root =>
    intro _ f hf
    obtain ⟨f, rfl⟩ : ∃ g, f = g + 1 := ⟨f - 1, by omega⟩
    simp [scan_root, scanRes, target]
  | @live x hx =>
    intro _ f hf
    obtain ⟨f, rfl⟩ : ∃ g, f = g + 1 := ⟨f - 1, by omega⟩
    have hl := h.live x hx
    have hx0 : x ≠ 0 := by omega
    simp [scan_node h d f x hx, scanRes, hx0, target, hl.2.2]
  | @hop x t hx0 hxb _ ih =>
    intro hx f hf
    obtain ⟨f, rfl⟩ : ∃ g, f = g + 1 := ⟨f - 1, by omega⟩
    have hl := h.rank_hop_lt d hx hx0 hxb
    have := ih hl.1 f (by omega)
    have hv : val s x = none := h.dead x hxb
    simp [scan, target, hx0, h.owned x, hv, this]

/-- resolution as a function (ghost; equals the model's `target` with the standard fuel) -/
def tg (s : LSet) (d : Dir) (x : Nat) : Nat := target s d (size s + 1) x

theorem Inv.tg_spec {s : LSet} {bs : List Nat} (h : Inv s bs) (d : Dir) {x : Nat} (hx : x < size s) :
    Tgt s bs d x (tg s d x) := by
  obtain ⟨t, ht⟩ := h.tgt_exists d _ x (Nat.le_refl _) hx
  have := (h.scan_of_tgt d ht hx (size s + 1) (h.rank_le x)).2
  unfold tg; rw [this]; exact ht

theorem Inv.tg_eq {s : LSet} {bs : List Nat} (h : Inv s bs) {d : Dir} {x t : Nat} (hx : x < size s)
    (ht : Tgt s bs d x t) : tg s d x = t :=
  Tgt.det h.zero_notin (h.tg_spec d hx) ht

theorem Inv.scan_eq {s : LSet} {bs : List Nat} (h : Inv s bs) (d : Dir) {x : Nat} (hx : x < size s) :
    scan s d (size s + 1) x = scanRes s (tg s d x) :=
  (h.scan_of_tgt d (h.tg_spec d hx) hx (size s + 1) (h.rank_le x)).1

theorem Inv.hop_lt {s : LSet} {bs : List Nat} (h : Inv s bs) (d : Dir) {x : Nat} (hx : x < size s) :
    hop s d x < size s := by
  have := h.bound x hx
  cases d <;> simp [hop, this]

/-- one `next()`: resolve from the box after the cursor -/
theorem Inv.iterNext_eq {s : LSet} {bs : List Nat} (h : Inv s bs) (d : Dir) {c : Cursor}
    (hc : c ≠ .done) (hp : c.pos < size s) :
    iterNext s d c = scanRes s (tg s d (hop s d c.pos)) := by
  rw [iterNext_of_pos s d c hc, h.scan_eq d (h.hop_lt d hp)]

theorem HopLinks_suffix {s : LSet} {d : Dir} : ∀ (A B : List Nat), HopLinks s d (A ++ B) → HopLinks s d B
  | [], _, h => h
  | [a], B, h => by
      cases B with
      | nil => simp [HopLinks]
      | cons b B => simp only [List.cons_append, List.nil_append, HopLinks_cons2] at h; exact h.2
  | a :: a' :: A, B, h => by
      simp only [List.cons_append, HopLinks_cons2] at h
      exact HopLinks_suffix (a' :: A) B (by simpa using h.2)

theorem idxOf_mid {A B : List Nat} {t : Nat} (h : t ∉ A) : (A ++ t :: B).idxOf t = A.length := by
  rw [List.idxOf_append]; simp [h]

theorem seqD_nodup {bs : List Nat} (d : Dir) (h : bs.Nodup) : (seqD d bs).Nodup := by
  cases d
  · simpa [seqD] using h
  · simp only [seqD]; grind

theorem mem_seqD {bs : List Nat} (d : Dir) (x : Nat) : x ∈ seqD d bs ↔ x ∈ bs := by
  cases d <;> simp [seqD]

theorem length_seqD {bs : List Nat} (d : Dir) : (seqD d bs).length = bs.length := by
  cases d <;> simp [seqD]

/-- what any live cursor still yields: the values from its resolution point on; it then stops -/
theorem Inv.drain_eq {s : LSet} {bs : List Nat} (h : Inv s bs) (d : Dir) {c : Cursor}
    (hc : c ≠ .done) (hp : c.pos < size s) :
    drain s d (size s + 1) c =
      (((seqD d bs).drop ((seqD d bs).idxOf (tg s d (hop s d c.pos)))).map (vl s), .stop) := by
  have hn := (h.tg_spec d (h.hop_lt d hp)).node
  have hit := h.iterNext_eq d hc hp
  generalize tg s d (hop s d c.pos) = t at hn hit
  rcases hn with rfl | ht
  · have h0 : 0 ∉ seqD d bs := by rw [mem_seqD]; exact h.zero_notin
    simp [drain, hit, scanRes, List.idxOf_eq_length h0]
  · have ht0 : t ≠ 0 := by rintro rfl; exact h.zero_notin ht
    obtain ⟨A, B, hAB⟩ := List.append_of_mem ((mem_seqD d t).2 ht)
    have hnd := seqD_nodup d h.nodup
    rw [hAB] at hnd
    have htA : t ∉ A := by grind
    have hl := h.hopLinks d
    rw [hAB] at hl ⊢
    rw [idxOf_mid htA]
    have hl' : HopLinks s d (t :: B ++ [0]) := by
      apply HopLinks_suffix (0 :: A)
      simpa using hl
    have hlen : B.length < size s := by
      have := h.length_le
      have e := length_seqD (bs := bs) d
      rw [hAB] at e
      simp at e; omega
    have hB : ∀ y ∈ B, y ∈ bs := by
      intro y hy; rw [← mem_seqD d, hAB]; simp [hy]
    have := drain_links h d B (.at t) (size s) (by simp) (by simpa [Cursor.pos] using hl') hB hlen
    simp [drain, hit, scanRes, ht0, this]

theorem Inv.drain_done (s : LSet) (d : Dir) : drain s d (size s + 1) .done = ([], .stop) := by
  simp [drain, iterNext]

/-- a `next()` that yields: it yields the value of a live box and parks there -/
theorem Inv.iterNext_yield {s : LSet} {bs : List Nat} (h : Inv s bs) (d : Dir) {c c' : Cursor} {v : Nat}
    (hp : c.pos < size s) (hy : iterNext s d c = (c', .yield v)) :
    ∃ t ∈ bs, c' = .at t ∧ val s t = some v := by
  have hc : c ≠ .done := by rintro rfl; simp [iterNext] at hy
  rw [h.iterNext_eq d hc hp] at hy
  have hn := (h.tg_spec d (h.hop_lt d hp)).node
  generalize tg s d (hop s d c.pos) = t at hn hy
  unfold scanRes at hy
  split at hy
  · simp at hy
  · rename_i ht0
    rcases hn with rfl | ht
    · exact absurd rfl ht0
    · simp only [Prod.mk.injEq, Res.yield.injEq] at hy
      refine ⟨t, ht, hy.1.symm, ?_⟩
      rw [h.val_eq_vl ht, hy.2]

/-- a `next()` never raises and never exhausts the step bound -/
theorem Inv.iterNext_ok {s : LSet} {bs : List Nat} (h : Inv s bs) (d : Dir) (c : Cursor)
    (hp : c.pos < size s) :
    (iterNext s d c).2 = .stop ∨ ∃ v, (iterNext s d c).2 = .yield v := by
  by_cases hc : c = .done
  · subst hc; left; simp [iterNext]
  · rw [h.iterNext_eq d hc hp]
    unfold scanRes; split
    · left; rfl
    · right; exact ⟨_, rfl⟩

end IrVerif.LinkedSet

/-
C18: a real semantics for nested graphs (the idea of Model/Sem.lean of C05, on the C18 model's types) and
its locality: a node reads the environment only at its lexical free variables.
-/
import IrVerif.Lemmas.ExtractEval
import IrVerif.Lemmas.ExtractScope
namespace IrVerif.Extract

/-- denotation of a graph attribute: values of the body inputs ↦ values of the body outputs -/
abbrev BodyFn (α : Type) := List α → List α

/-- an interpretation of the operators: ANY function of the node (its operator, attributes, ... — the
    syntactic node stands for all of that), the denotations of its graph attributes under the environment
    that holds at the node, and the values of its inputs, giving the value of each output; plus the values of
    the constant tensors of initializers.  A nested graph is evaluated under the environment of its
    enclosing scopes, so captured outer values are visible to it. -/
structure Sem (α : Type) where
  op : NodeT → List (BodyFn α) → List (Option α) → VId → α
  const : VId → α

variable {α : Type}

def bindConst (S : Sem α) (ρ : Env α) (inits : List VId) : Env α :=
  fun u => if u ∈ inits then S.const u else ρ u

/-- bind the graph inputs position by position (an input without an argument reads its constant) -/
def bindArgs (S : Sem α) (ρ : Env α) (ins : List VId) (xs : List α) : Env α :=
  fun u => if u ∈ ins then (xs[ins.idxOf u]?).getD (S.const u) else ρ u

mutual
  def evalG (S : Sem α) : GraphT → Env α → BodyFn α
    | .mk _ ins inits outs ns, ρ, xs =>
      outs.map (evalNs S ns (bindArgs S (bindConst S ρ inits) ins xs))
  def evalNs (S : Sem α) : List NodeT → Env α → Env α
    | [], ρ => ρ
    | n :: ns, ρ => evalNs S ns (evalN S n ρ)
  def evalN (S : Sem α) : NodeT → Env α → Env α
    | .mk ins outs bs, ρ =>
      fun u => if u ∈ outs then
        S.op (.mk ins outs bs) (evalBs S bs ρ) (ins.map (fun o => o.map ρ)) u else ρ u
  def evalBs (S : Sem α) : List GraphT → Env α → List (BodyFn α)
    | [], _ => []
    | b :: bs, ρ => evalG S b ρ :: evalBs S bs ρ
end

theorem evalN_not_out (S : Sem α) (n : NodeT) (ρ : Env α) {u : VId} (h : ¬ u ∈ n.outputs) :
    evalN S n ρ u = ρ u := by
  cases n with
  | mk ins outs bs => simp only [NodeT.outputs_mk] at h; simp [evalN, h]

mutual
  theorem evalG_local (S : Sem α) : ∀ (g : GraphT) (ρ ρ' : Env α),
      (∀ v, v ∈ freeG g → ρ v = ρ' v) → evalG S g ρ = evalG S g ρ'
    | .mk gid ins inits outs ns, ρ, ρ', h => by
      funext xs
      simp only [evalG]
      apply List.map_congr_left
      intro o ho
      have hb : ∀ v, (v ∈ ins ∨ v ∈ inits) →
          bindArgs S (bindConst S ρ inits) ins xs v = bindArgs S (bindConst S ρ' inits) ins xs v := by
        intro v hv
        by_cases h1 : v ∈ ins
        · simp [bindArgs, h1]
        · have h2 : v ∈ inits := hv.resolve_left h1
          simp [bindArgs, bindConst, h1, h2]
      have hnb : ∀ v, ¬ v ∈ ins → ¬ v ∈ inits → ρ v = ρ' v →
          bindArgs S (bindConst S ρ inits) ins xs v = bindArgs S (bindConst S ρ' inits) ins xs v := by
        intro v h1 h2 h3
        simp [bindArgs, bindConst, h1, h2, h3]
      have hfree : ∀ v, v ∈ freeG (.mk gid ins inits outs ns) ↔
          (v ∈ freeNs ns ∨ (v ∈ outs ∧ ¬ v ∈ outsTop ns)) ∧ ¬ v ∈ ins ∧ ¬ v ∈ inits := by
        intro v
        simp only [freeG, List.mem_filter, List.mem_append, List.contains_eq_mem, Bool.not_eq_eq_eq_not,
          Bool.not_true, decide_eq_false_iff_not, not_or]
      apply evalNs_local S ns
      · intro v hv
        by_cases h1 : v ∈ ins ∨ v ∈ inits
        · exact hb v h1
        · have h1' : ¬ v ∈ ins ∧ ¬ v ∈ inits := ⟨fun x => h1 (Or.inl x), fun x => h1 (Or.inr x)⟩
          exact hnb v h1'.1 h1'.2 (h v ((hfree v).mpr ⟨Or.inl hv, h1'⟩))
      · by_cases ht : o ∈ outsTop ns
        · exact Or.inl ht
        · right
          by_cases h1 : o ∈ ins ∨ o ∈ inits
          · exact hb o h1
          · have h1' : ¬ o ∈ ins ∧ ¬ o ∈ inits := ⟨fun x => h1 (Or.inl x), fun x => h1 (Or.inr x)⟩
            exact hnb o h1'.1 h1'.2 (h o ((hfree o).mpr ⟨Or.inr ⟨ho, ht⟩, h1'⟩))
  theorem evalNs_local (S : Sem α) : ∀ (ns : List NodeT) (ρ ρ' : Env α),
      (∀ v, v ∈ freeNs ns → ρ v = ρ' v) → ∀ v, (v ∈ outsTop ns ∨ ρ v = ρ' v) →
      evalNs S ns ρ v = evalNs S ns ρ' v
    | [], ρ, ρ', _, v, hv => by
      simp only [evalNs]
      rcases hv with hv | hv
      · simp [outsTop] at hv
      · exact hv
    | n :: ns, ρ, ρ', h, v, hv => by
      simp only [evalNs]
      have hN := evalN_local S n ρ ρ' (fun u hu => h u (by
        rw [freeNs, List.mem_append]; exact Or.inl hu))
      apply evalNs_local S ns
      · intro u hu
        by_cases huo : u ∈ n.outputs
        · exact hN u huo
        · rw [evalN_not_out S n ρ huo, evalN_not_out S n ρ' huo]
          apply h u
          rw [freeNs, List.mem_append]
          right
          rw [List.mem_filter]
          exact ⟨hu, by simpa using huo⟩
      · by_cases ht : v ∈ outsTop ns
        · exact Or.inl ht
        · right
          by_cases huo : v ∈ n.outputs
          · exact hN v huo
          · rw [evalN_not_out S n ρ huo, evalN_not_out S n ρ' huo]
            rcases hv with hv | hv
            · rw [outsTop, List.mem_append] at hv
              rcases hv with hv | hv
              · exact absurd hv huo
              · exact absurd hv ht
            · exact hv
  theorem evalN_local (S : Sem α) : ∀ (n : NodeT) (ρ ρ' : Env α),
      (∀ v, v ∈ freeN n → ρ v = ρ' v) → ∀ u, u ∈ n.outputs → evalN S n ρ u = evalN S n ρ' u
    | .mk ins outs bs, ρ, ρ', h, u, hu => by
      simp only [NodeT.outputs_mk] at hu
      simp only [evalN, hu, if_true]
      have hargs : ins.map (fun o => o.map ρ) = ins.map (fun o => o.map ρ') := by
        apply List.map_congr_left
        intro o ho
        cases o with
        | none => rfl
        | some v =>
          simp only [Option.map_some]
          congr 1
          apply h v
          rw [freeN, List.mem_append]
          left
          simp only [List.mem_filterMap, id]
          exact ⟨some v, ho, rfl⟩
      have hbs : evalBs S bs ρ = evalBs S bs ρ' :=
        evalBs_local S bs ρ ρ' (fun v hv => h v (by rw [freeN, List.mem_append]; exact Or.inr hv))
      rw [hargs, hbs]
  theorem evalBs_local (S : Sem α) : ∀ (bs : List GraphT) (ρ ρ' : Env α),
      (∀ v, v ∈ freeGs bs → ρ v = ρ' v) → evalBs S bs ρ = evalBs S bs ρ'
    | [], _, _, _ => rfl
    | b :: bs, ρ, ρ', h => by
      simp only [evalBs]
      rw [evalG_local S b ρ ρ' (fun v hv => h v (by rw [freeGs, List.mem_append]; exact Or.inl hv)),
        evalBs_local S bs ρ ρ' (fun v hv => h v (by rw [freeGs, List.mem_append]; exact Or.inr hv))]
end

/-- the abstract interpretation of the table nodes induced by a semantics -/
def Sem.interp (S : Sem α) (W : World) : Interp α := fun n e v => evalN S (W.nodeD n) e v

/-- running the source node list: every node in order -/
def evalTop (S : Sem α) (W : World) (ns : List NId) (ρ : Env α) : Env α :=
  ns.foldl (fun ρ n => evalN S (W.nodeD n) ρ) ρ

/-- running the extracted graph: its nodes in order; the rewired boundary inputs `fz` keep the supplied
    value (D153) -/
def evalRegion (S : Sem α) (W : World) (fz : List VId) (ns : List NId) (ρ : Env α) : Env α :=
  ns.foldl (fun ρ n => fun u => if u ∈ fz then ρ u else evalN S (W.nodeD n) ρ u) ρ

theorem evalTop_eq (S : Sem α) (W : World) (ns : List NId) (ρ : Env α) :
    evalTop S W ns ρ = evalNodes W (S.interp W) ns ρ := by
  unfold evalTop evalNodes
  congr 1
  funext e n v
  unfold evalNode Sem.interp
  by_cases h : v ∈ (W.nodeD n).outputs
  · simp [h]
  · simp [h, evalN_not_out S _ e h]

theorem evalRegion_eq (S : Sem α) (W : World) (fz : List VId) (ns : List NId) (ρ : Env α) :
    evalRegion S W fz ns ρ = evalNodesFz W (S.interp W) fz ns ρ := by
  unfold evalRegion evalNodesFz
  congr 1
  funext e n v
  unfold evalNodeFz Sem.interp
  by_cases hf : v ∈ fz
  · simp [hf]
  · by_cases h : v ∈ (W.nodeD n).outputs
    · simp [hf, h]
    · simp [hf, h, evalN_not_out S _ e h]

/-- locality of the induced interpretation from `CapturesCover` -/
theorem interp_localAt (S : Sem α) {W : World} {p : GId} {n : NId} (h : CapturesCover W p n) :
    LocalAt W p (S.interp W) n := by
  intro e e' hagree o ho
  unfold Sem.interp
  exact evalN_local S (W.nodeD n) e e' (fun v hv => hagree v (h v hv)) o ho

end IrVerif.Extract

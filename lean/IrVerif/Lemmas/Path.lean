/-
Helper lemmas for C10 about the string-level path algebra (`IrVerif.Path`).
-/
import IrVerif.Model.Path
namespace IrVerif.Path

theorem splitSep_ne_nil (s : Str) : splitSep s ≠ [] := by
  cases s with
  | nil => simp [splitSep]
  | cons c cs =>
    simp only [splitSep]
    split
    · simp
    · split <;> simp

/-- splitting distributes over a separator -/
theorem splitSep_append_sep (a r : Str) :
    splitSep (a ++ '/' :: r) = splitSep a ++ splitSep r := by
  induction a with
  | nil =>
    have := splitSep_ne_nil r
    simp only [List.nil_append, splitSep]
    cases h : splitSep r with
    | nil => exact absurd h this
    | cons x t => simp
  | cons c a ih =>
    have hne := splitSep_ne_nil a
    simp only [List.cons_append, splitSep, ih]
    cases h : splitSep a with
    | nil => exact absurd h hne
    | cons x t =>
      simp only [List.cons_append]
      split <;> simp

theorem comps_nil : comps [] = [] := by simp [comps, splitSep]

theorem comps_append_sep (a r : Str) : comps (a ++ '/' :: r) = comps a ++ comps r := by
  simp [comps, splitSep_append_sep]

theorem endsWithSep_iff (p : Str) : endsWithSep p = true ↔ ∃ q, p = q ++ ['/'] := by
  unfold endsWithSep
  constructor
  · intro h
    cases hl : p.getLast? with
    | none => simp [hl] at h
    | some c =>
      simp [hl] at h
      subst h
      rcases List.getLast?_eq_some_iff.mp hl with ⟨q, hq⟩
      exact ⟨q, hq⟩
  · rintro ⟨q, rfl⟩
    simp

/-- components of the base with a separator appended are the components of the base -/
theorem comps_sepBase (b : Str) : comps (sepBase b) = comps b := by
  unfold sepBase
  split
  · rfl
  · have := comps_append_sep b []
    simpa [comps_nil] using this

/-- character-level containment implies component-level containment -/
theorem contained_comps (b p : Str) (h : contained b p = true) : comps b <+: comps p := by
  unfold contained at h
  simp only [Bool.or_eq_true, beq_iff_eq] at h
  rcases h with h | h
  · subst h; exact List.prefix_refl _
  · rw [List.isPrefixOf_iff_prefix] at h
    obtain ⟨r, hr⟩ := h
    have hsb : ∃ q, sepBase b = q ++ ['/'] := by
      unfold sepBase
      split
      · rename_i he; exact (endsWithSep_iff b).mp he
      · exact ⟨b, rfl⟩
    obtain ⟨q, hq⟩ := hsb
    have : p = q ++ '/' :: r := by rw [← hr, hq]; simp
    rw [this, comps_append_sep, ← comps_sepBase b, hq]
    have := comps_append_sep q []
    simp only [comps_nil, List.append_nil] at this
    rw [this]
    exact List.prefix_append _ _

end IrVerif.Path

namespace IrVerif.Path

/-- a component that names a directory entry: not empty, not "." / "..", no separator -/
def Clean (c : Str) : Prop := c ≠ [] ∧ c ≠ DOT ∧ c ≠ DOTDOT ∧ '/' ∉ c

theorem splitSep_noSep (s : Str) : ∀ x ∈ splitSep s, '/' ∉ x := by
  induction s with
  | nil => simp [splitSep]
  | cons c cs ih =>
    have hne := splitSep_ne_nil cs
    simp only [splitSep]
    cases h : splitSep cs with
    | nil => exact absurd h hne
    | cons y t =>
      rw [h] at ih
      simp only
      split
      · intro x hx
        simp only [List.mem_cons] at hx
        rcases hx with rfl | hx
        · simp
        · exact ih x (by simpa using hx)
      · rename_i hc
        intro x hx
        simp only [List.mem_cons] at hx
        rcases hx with rfl | hx
        · have := ih y (by simp)
          simp only [List.mem_cons, not_or]
          exact ⟨fun e => hc e.symm, this⟩
        · exact ih x (by simp [hx])

theorem splitSep_of_noSep (a : Str) (h : '/' ∉ a) : splitSep a = [a] := by
  induction a with
  | nil => simp [splitSep]
  | cons c cs ih =>
    simp only [List.mem_cons, not_or] at h
    have hc : ¬ c = '/' := fun e => h.1 e.symm
    simp only [splitSep, ih h.2]
    simp [hc]

theorem comps_of_clean (a : Str) (h : Clean a) : comps a = [a] := by
  simp [comps, splitSep_of_noSep a h.2.2.2, h.1]

theorem comps_cons_sep (x : Str) : comps ('/' :: x) = comps x := by
  have := comps_append_sep [] x
  simpa [comps_nil] using this

theorem comps_replicate_sep (n : Nat) (x : Str) : comps (List.replicate n '/' ++ x) = comps x := by
  induction n with
  | zero => simp
  | succ n ih => simp [List.replicate_succ, comps_cons_sep, ih]

theorem comps_joinSep (l : List Str) (h : ∀ c ∈ l, Clean c) : comps (joinSep l) = l := by
  induction l with
  | nil => simp [joinSep, comps_nil]
  | cons a t ih =>
    cases t with
    | nil => simpa [joinSep] using comps_of_clean a (h a (by simp))
    | cons b t =>
      simp only [joinSep, comps_append_sep]
      rw [ih (fun c hc => h c (by simp [hc])), comps_of_clean a (h a (by simp))]
      simp

theorem normStep_clean (stack : List Str) (comp : Str) (hs : ∀ c ∈ stack, Clean c)
    (hc : '/' ∉ comp) : ∀ c ∈ normStep true stack comp, Clean c := by
  unfold normStep
  split
  · exact hs
  · rename_i h1
    simp only [not_or] at h1
    split
    · rename_i h2
      have hdd : comp ≠ DOTDOT := by
        rcases h2 with h2 | h2 | h2
        · exact h2
        · simp at h2
        · cases stack with
          | nil => simp at h2
          | cons x t =>
            simp at h2
            exact absurd h2 (hs x (by simp)).2.2.1
      intro c hcm
      simp only [List.mem_cons] at hcm
      rcases hcm with rfl | hcm
      · exact ⟨h1.1, h1.2, hdd, hc⟩
      · exact hs c hcm
    · intro c hcm
      exact hs c (List.mem_of_mem_tail hcm)

theorem foldl_normStep_clean (l : List Str) (stack : List Str) (hs : ∀ c ∈ stack, Clean c)
    (hl : ∀ x ∈ l, '/' ∉ x) : ∀ c ∈ l.foldl (normStep true) stack, Clean c := by
  induction l generalizing stack with
  | nil => simpa using hs
  | cons x t ih =>
    simp only [List.foldl_cons]
    exact ih _ (normStep_clean stack x hs (hl x (by simp))) (fun y hy => hl y (by simp [hy]))

theorem splitroot_abs (p : Str) (h : isabs p = true) : (splitroot p).1 ≠ 0 := by
  cases p with
  | nil => simp [isabs] at h
  | cons c r =>
    simp [isabs] at h
    subst h
    unfold splitroot
    simp only [if_true]
    split
    · simp
    · split
      · split
        · simp
        · split <;> simp
      · simp

/-- the stack computed by `normpath` for an absolute path -/
def normStack (p : Str) : List Str :=
  ((splitSep (splitroot p).2).foldl (normStep true) []).reverse

theorem normStack_clean (p : Str) : ∀ c ∈ normStack p, Clean c := by
  intro c hc
  unfold normStack at hc
  rw [List.mem_reverse] at hc
  exact foldl_normStep_clean _ [] (by simp) (splitSep_noSep _) c hc

/-- for an absolute path the components of the normal form are exactly the normalisation stack,
and `normpath` renders them after 1 or 2 slashes -/
theorem normpath_abs (p : Str) (h : isabs p = true) :
    normpath p = List.replicate (splitroot p).1 '/' ++ joinSep (normStack p) := by
  have h0 := splitroot_abs p h
  have hp : p ≠ [] := by intro e; subst e; simp [isabs] at h
  unfold normpath normStack
  simp only [hp, if_false]
  have hb : ((splitroot p).1 != 0) = true := by simpa using h0
  rw [hb]
  have : List.replicate (splitroot p).1 '/' ++
      joinSep ((splitSep (splitroot p).2).foldl (normStep true) []).reverse ≠ [] := by
    cases hn : (splitroot p).1 with
    | zero => exact absurd hn h0
    | succ n => simp [List.replicate_succ]
  simp only [this, if_false]

theorem comps_normpath_abs (p : Str) (h : isabs p = true) : comps (normpath p) = normStack p := by
  rw [normpath_abs p h, comps_replicate_sep, comps_joinSep _ (normStack_clean p)]

theorem isabs_abspath_arg (cwd p : Str) (hcwd : isabs cwd = true) :
    isabs (if isabs p then p else pjoin cwd p) = true := by
  split
  · assumption
  · rename_i hp
    unfold pjoin
    simp only [hp]
    have hne : cwd ≠ [] := by intro e; subst e; simp [isabs] at hcwd
    cases cwd with
    | nil => exact absurd rfl hne
    | cons c r =>
      simp [isabs] at hcwd
      subst hcwd
      simp only [Bool.false_eq_true, if_false]
      split <;> simp [isabs]

end IrVerif.Path

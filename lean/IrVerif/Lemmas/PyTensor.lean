/-
Helper development for the `ir.tensor(python data)` theorems of C04 (`Model/PyTensor.lean`):
the nested value against the row-major specification (`indices` / `unravel` of
`Lemmas/Strided.lean`), the element-wise view of `castAll`, and the range of every conversion.
-/
import IrVerif.Model.PyTensor
import IrVerif.Lemmas.Strided
namespace IrVerif.PyTensor
open IrVerif.Pack IrVerif.TensorRepr IrVerif.Strided

/-! ## list views of the mutual functions -/

theorem leavesL_eq : ∀ xs : PyList, leavesL xs = xs.toList.flatMap leaves
  | .nil => by simp [leavesL, PyList.toList]
  | .cons x xs => by simp [leavesL, PyList.toList, leavesL_eq xs]

theorem flatMap_range_getElem {α β : Type} (g : Option α → List β) :
    ∀ l : List α, (List.range l.length).flatMap (fun i => g l[i]?) = l.flatMap (fun x => g (some x)) := by
  intro l
  induction l with
  | nil => simp
  | cons x xs ih =>
    rw [List.length_cons, List.range_succ_eq_map, List.flatMap_cons, List.flatMap_map, List.flatMap_cons]
    simp only [List.getElem?_cons_zero]
    congr 1

/-! ## the nested value is the row-major array of its scalars -/

mutual
  theorem getAt_leaves : ∀ (v : PyVal) (dims : List Nat), npShape v = some dims →
      (indices dims).map (getAt v) = (leaves v).map some
    | .leaf l, dims, h => by
      simp only [npShape, Option.some.injEq] at h
      subst h
      simp [indices, getAt, leaves]
    | .seq xs, dims, h => by
      simp only [npShape] at h
      split at h
      · cases h
      · rename_i hss
        simp only [Option.some.injEq] at h
        subst h
        have Q := getAt_leavesL xs [] [] hss (by simp)
        have hnil : xs.toList = [] := List.eq_nil_of_length_eq_zero Q.2.symm
        simp [indices, leaves, leavesL_eq, hnil]
      · rename_i s ss hss
        split at h
        · rename_i hall
          simp only [Option.some.injEq] at h
          subst h
          have hall' : ∀ t ∈ s :: ss, t = s := by
            intro t ht
            simp only [List.mem_cons] at ht
            rcases ht with rfl | ht
            · rfl
            · have := List.all_eq_true.mp hall t ht
              simpa using this
          have Q := getAt_leavesL xs (s :: ss) s hss hall'
          have hn : ss.length + 1 = xs.toList.length := by simpa using Q.2
          simp only [indices, List.map_flatMap, List.map_map, leaves]
          rw [← Q.1, hn]
          have key : ∀ i : Nat, (getAt (.seq xs) ∘ fun is => i :: is) =
              fun is => (match xs.toList[i]? with
                | some x => getAt x is
                | none => none) := by
            intro i; funext is; simp only [Function.comp_apply, getAt]; first | rfl | (cases xs.toList[i]? <;> rfl)
          simp only [key]
          exact flatMap_range_getElem
            (fun (o : Option PyVal) => (indices s).map (fun is => match o with
              | some x => getAt x is
              | none => none)) xs.toList
        · cases h
  theorem getAt_leavesL : ∀ (xs : PyList) (ss : List (List Nat)) (s : List Nat),
      npShapes xs = some ss → (∀ t ∈ ss, t = s) →
      xs.toList.flatMap (fun x => (indices s).map (getAt x)) = (leavesL xs).map some ∧
      ss.length = xs.toList.length
    | .nil, ss, s, h, _ => by
      simp only [npShapes, Option.some.injEq] at h
      subst h
      simp [PyList.toList, leavesL]
    | .cons x xs, ss, s, h, hall => by
      simp only [npShapes] at h
      split at h
      · rename_i t ts hx hxs
        simp only [Option.some.injEq] at h
        subst h
        have ht : t = s := hall t (by simp)
        subst ht
        have P := getAt_leaves x t hx
        have Q := getAt_leavesL xs ts t hxs (fun u hu => hall u (by simp [hu]))
        simp [PyList.toList, leavesL, P, Q.1, Q.2]
      · cases h
end

theorem leaves_length {v : PyVal} {dims : List Nat} (h : npShape v = some dims) :
    (leaves v).length = prod dims := by
  have := congrArg List.length (getAt_leaves v dims h)
  simpa [indices_length] using this.symm

/-- the `k`-th scalar in assignment order is the one at the multi-index `unravel dims k` -/
theorem leaves_getElem {v : PyVal} {dims : List Nat} (h : npShape v = some dims) (k : Nat)
    (hk : k < prod dims) : ∃ l, (leaves v)[k]? = some l ∧ getAt v (unravel dims k) = some l := by
  have E := congrArg (fun l => l[k]?) (getAt_leaves v dims h)
  simp only [List.getElem?_map, indices_getElem dims k hk, Option.map_some] at E
  cases hl : (leaves v)[k]? with
  | none => rw [hl] at E; simp at E
  | some l => rw [hl] at E; exact ⟨l, rfl, by simpa using E⟩

/-! ## `castAll` element by element -/

theorem castAll_ok (d : DType) : ∀ (ls : List Leaf) (xs : List Nat), castAll d ls = .ok xs →
    xs.length = ls.length ∧ ∀ (k : Nat) (l : Leaf), ls[k]? = some l → ∃ x, xs[k]? = some x ∧ castLeaf d l = .ok x := by
  intro ls
  induction ls with
  | nil =>
    intro xs h
    simp only [castAll, Except.ok.injEq] at h
    subst h
    simp
  | cons l ls ih =>
    intro xs h
    simp only [castAll] at h
    split at h
    · rename_i x hx
      split at h
      · rename_i ys hys
        simp only [Except.ok.injEq] at h
        subst h
        obtain ⟨hl, hk⟩ := ih ys hys
        refine ⟨by simp [hl], ?_⟩
        intro k l' hk'
        cases k with
        | zero => simp only [List.getElem?_cons_zero, Option.some.injEq] at hk'; subst hk'; exact ⟨x, by simp, hx⟩
        | succ k => simpa using hk k l' (by simpa using hk')
      · cases h
    · cases h

theorem castAll_mem (d : DType) {ls : List Leaf} {xs : List Nat} (h : castAll d ls = .ok xs) :
    ∀ x ∈ xs, ∃ l ∈ ls, castLeaf d l = .ok x := by
  obtain ⟨hl, hk⟩ := castAll_ok d ls xs h
  intro x hx
  obtain ⟨k, hklt, hkx⟩ := List.getElem_of_mem hx
  have hkl : k < ls.length := by omega
  obtain ⟨y, hy, hc⟩ := hk k ls[k] (List.getElem?_eq_getElem hkl)
  rw [List.getElem?_eq_getElem hklt, hkx] at hy
  simp only [Option.some.injEq] at hy
  subst hy
  exact ⟨ls[k], List.getElem_mem hkl, hc⟩

/-! ## the range of the conversions -/

theorem wrap_lt (k : Nat) (x : Int) : wrap k x < 2 ^ k := by
  unfold wrap
  have hp : (0 : Int) < 2 ^ k := Int.pow_pos (by decide)
  have h1 := Int.emod_lt_of_pos x hp
  have h0 := Int.emod_nonneg x (Int.ne_of_gt hp)
  have : ((x % 2 ^ k).toNat : Int) < ((2 ^ k : Nat) : Int) := by
    rw [Int.toNat_of_nonneg h0]; simpa using h1
  exact Int.ofNat_lt.mp this

theorem roundMag_le (eb mb m : Nat) (e : Int) : roundMag eb mb m e ≤ (2 ^ eb - 1) * 2 ^ mb := by
  simp only [roundMag]
  exact Nat.min_le_right _ _

theorem pow_split (eb mb : Nat) : (2 ^ eb - 1) * 2 ^ mb + 2 ^ mb = 2 ^ (eb + mb) := by
  have h1 : 1 ≤ 2 ^ eb := Nat.one_le_two_pow
  rw [Nat.pow_add, Nat.sub_mul, Nat.one_mul]
  have : 2 ^ mb ≤ 2 ^ eb * 2 ^ mb := Nat.le_mul_of_pos_left _ (by omega)
  omega

theorem encodeF_lt (eb mb : Nat) (hmb : 1 ≤ mb) (f : F64) : encodeF eb mb f < 2 ^ (eb + mb + 1) := by
  have hs := pow_split eb mb
  have hh : 2 ^ (mb - 1) < 2 ^ mb := Nat.pow_lt_pow_right (by decide) (by omega)
  have hp : 2 ^ (eb + mb + 1) = 2 * 2 ^ (eb + mb) := by rw [Nat.pow_succ]; omega
  have hpos : 0 < 2 ^ mb := Nat.two_pow_pos mb
  cases f with
  | zero neg => simp only [encodeF]; split <;> omega
  | fin neg m e =>
    have := roundMag_le eb mb m e
    simp only [encodeF]; split <;> omega
  | inf neg => simp only [encodeF]; split <;> omega
  | nan neg => simp only [encodeF]; split <;> omega

theorem castBool_lt {l : Leaf} {x : Nat} (h : castBool l = .ok x) : x < 2 := by
  cases l <;> simp only [castBool, Cast.ok.injEq] at h <;>
    first | (subst h; split <;> omega) | (subst h; omega) | cases h

theorem fitInt_lt {bits : Nat} {s : Bool} {i : Int} {x : Nat} (h : fitInt bits s i = .ok x) : x < 2 ^ bits := by
  simp only [fitInt] at h
  split at h
  · simp only [Cast.ok.injEq] at h; subst h; exact wrap_lt _ _
  · cases h

theorem castNpInt_lt {bits : Nat} {s : Bool} {l : Leaf} {x : Nat} (hb : 1 ≤ bits)
    (h : castNpInt bits s l = .ok x) : x < 2 ^ bits := by
  have h2 : 2 ≤ 2 ^ bits := by
    calc 2 = 2 ^ 1 := rfl
      _ ≤ 2 ^ bits := Nat.pow_le_pow_right (by decide) hb
  cases l with
  | bool b => simp only [castNpInt, Cast.ok.injEq] at h; subst h; split <;> omega
  | int i => exact fitInt_lt (by simpa [castNpInt] using h)
  | float b =>
    simp only [castNpInt] at h
    split at h
    · exact fitInt_lt h
    · cases h
  | none => simp [castNpInt] at h
  | complex _ _ => simp [castNpInt] at h
  | str _ => simp [castNpInt] at h
  | bytes _ => simp [castNpInt] at h

theorem castMlInt_lt {bits : Nat} {s : Bool} {l : Leaf} {x : Nat} (hb : 1 ≤ bits)
    (h : castMlInt bits s l = .ok x) : x < 2 ^ bits := by
  have h2 : 2 ≤ 2 ^ bits := by
    calc 2 = 2 ^ 1 := rfl
      _ ≤ 2 ^ bits := Nat.pow_le_pow_right (by decide) hb
  cases l with
  | bool b => simp only [castMlInt, Cast.ok.injEq] at h; subst h; split <;> omega
  | int i =>
    simp only [castMlInt] at h
    split at h
    · simp only [Cast.ok.injEq] at h; subst h; exact wrap_lt _ _
    · cases h
  | float b =>
    simp only [castMlInt] at h
    split at h
    · split at h
      · exact fitInt_lt h
      · cases h
    · cases h
  | none => simp [castMlInt] at h
  | complex _ _ => simp [castMlInt] at h
  | str _ => simp [castMlInt] at h
  | bytes _ => simp [castMlInt] at h

theorem pyFloatOfInt_lt {i : Int} {b : Nat} (h : pyFloatOfInt i = some b) : b < 2 ^ 64 := by
  simp only [pyFloatOfInt] at h
  split at h
  · cases h
  · simp only [Option.some.injEq] at h
    subst h
    exact encodeF_lt 11 52 (by decide) _

theorem leafToF64_lt {l : Leaf} {b : Nat} (hw : l.wf = true) (h : leafToF64 l = .ok b) : b < 2 ^ 64 := by
  cases l with
  | bool c => simp only [leafToF64, Cast.ok.injEq] at h; subst h; split <;> decide
  | int i =>
    simp only [leafToF64] at h
    split at h
    · rename_i hb; simp only [Cast.ok.injEq] at h; subst h; exact pyFloatOfInt_lt hb
    · cases h
  | float c => simp only [leafToF64, Cast.ok.injEq] at h; subst h; simpa [Leaf.wf] using hw
  | none => simp only [leafToF64, Cast.ok.injEq] at h; subst h; decide
  | complex _ _ => simp [leafToF64] at h
  | str _ => simp [leafToF64] at h
  | bytes _ => simp [leafToF64] at h

/-- the float formats of the model: exponent bits, fraction bits, total bits -/
theorem castNpFloat_lt {eb mb : Nat} {l : Leaf} {x : Nat} (hmb : 1 ≤ mb) (hw : l.wf = true)
    (h : castNpFloat eb mb l = .ok x) : x < 2 ^ (if eb = 11 then 64 else eb + mb + 1) := by
  cases hL : leafToF64 l with
  | ok b =>
    simp only [castNpFloat, hL, Cast.ok.injEq] at h
    subst h
    split
    · exact leafToF64_lt hw hL
    · exact encodeF_lt eb mb hmb _
  | err e => simp [castNpFloat, hL] at h
  | unmodelled => simp [castNpFloat, hL] at h

theorem castBf16_lt {l : Leaf} {x : Nat} (h : castBf16 l = .ok x) : x < 2 ^ 16 := by
  cases l with
  | bool b => simp only [castBf16, Cast.ok.injEq] at h; subst h; split <;> decide
  | int i =>
    simp only [castBf16] at h
    split at h
    · simp only [Cast.ok.injEq] at h; subst h; exact encodeF_lt 8 7 (by decide) _
    · cases h
  | float b => simp only [castBf16, Cast.ok.injEq] at h; subst h; exact encodeF_lt 8 7 (by decide) _
  | none => simp [castBf16] at h
  | complex _ _ => simp [castBf16] at h
  | str _ => simp [castBf16] at h
  | bytes _ => simp [castBf16] at h

theorem castComplex_lt {eb mb half : Nat} {l : Leaf} {x : Nat} (hmb : 1 ≤ mb) (hw : l.wf = true)
    (hhalf : half = if eb = 11 then 64 else eb + mb + 1)
    (h : castComplex eb mb half l = .ok x) : x < 2 ^ (2 * half) := by
  have hpart : ∀ b, b < 2 ^ 64 → (if eb = 11 then b else encodeF eb mb (decode64 b)) < 2 ^ half := by
    intro b hb
    rw [hhalf]
    split
    · exact hb
    · exact encodeF_lt eb mb hmb _
  have hdouble : 2 ^ (2 * half) = 2 ^ half * 2 ^ half := by rw [Nat.two_mul, Nat.pow_add]
  have hpos : 0 < 2 ^ half := Nat.two_pow_pos half
  cases l with
  | complex re im =>
    simp only [castComplex, Cast.ok.injEq] at h
    subst h
    simp only [Leaf.wf, Bool.and_eq_true, decide_eq_true_eq] at hw
    have h1 := hpart re hw.1
    have h2 := hpart im hw.2
    rw [hdouble]
    have : (if eb = 11 then im else encodeF eb mb (decode64 im)) * 2 ^ half + 2 ^ half ≤ 2 ^ half * 2 ^ half := by
      have := Nat.mul_le_mul_right (2 ^ half) (Nat.succ_le_of_lt h2)
      simpa [Nat.succ_mul] using this
    omega
  | bool c =>
    cases hL : leafToF64 (.bool c) with
    | ok b =>
      simp only [castComplex, hL, Cast.ok.injEq] at h; subst h
      have := hpart b (leafToF64_lt hw hL)
      rw [hdouble]
      have : 2 ^ half ≤ 2 ^ half * 2 ^ half := Nat.le_mul_of_pos_left _ hpos
      omega
    | err e => simp [castComplex, hL] at h
    | unmodelled => simp [castComplex, hL] at h
  | int i =>
    cases hL : leafToF64 (.int i) with
    | ok b =>
      simp only [castComplex, hL, Cast.ok.injEq] at h; subst h
      have := hpart b (leafToF64_lt hw hL)
      rw [hdouble]
      have : 2 ^ half ≤ 2 ^ half * 2 ^ half := Nat.le_mul_of_pos_left _ hpos
      omega
    | err e => simp [castComplex, hL] at h
    | unmodelled => simp [castComplex, hL] at h
  | float f =>
    cases hL : leafToF64 (.float f) with
    | ok b =>
      simp only [castComplex, hL, Cast.ok.injEq] at h; subst h
      have := hpart b (leafToF64_lt hw hL)
      rw [hdouble]
      have : 2 ^ half ≤ 2 ^ half * 2 ^ half := Nat.le_mul_of_pos_left _ hpos
      omega
    | err e => simp [castComplex, hL] at h
    | unmodelled => simp [castComplex, hL] at h
  | none =>
    simp only [castComplex, Cast.ok.injEq] at h
    subst h
    have h1 := hpart 0x7FF8000000000000 (by decide)
    rw [hdouble]
    have : (if eb = 11 then 0x7FF8000000000000 else encodeF eb mb (decode64 0x7FF8000000000000)) * 2 ^ half + 2 ^ half
        ≤ 2 ^ half * 2 ^ half := by
      have := Nat.mul_le_mul_right (2 ^ half) (Nat.succ_le_of_lt h1)
      simpa [Nat.succ_mul] using this
    omega
  | str _ => simp [castComplex, leafToF64] at h
  | bytes _ => simp [castComplex, leafToF64] at h

theorem encF8_lt (k : F8) (f : F64) : encF8 k f < 256 := by
  rcases f with (_|_) | ⟨(_|_), m, e⟩ | (_|_) | (_|_) <;> cases k <;> simp only [encF8, sgn8] <;>
    (try decide) <;> (repeat' split) <;> omega

theorem encF8_e2m1_lt (f : F64) : encF8 .e2m1 f < 16 := by
  rcases f with (_|_) | ⟨(_|_), m, e⟩ | (_|_) | (_|_) <;> simp only [encF8] <;>
    (try decide) <;> (repeat' split) <;> omega

theorem encF8_lt_bits (k : F8) (f : F64) : encF8 k f < 2 ^ k.bits := by
  cases k
  case e2m1 => exact encF8_e2m1_lt f
  all_goals exact encF8_lt _ f

/-- ml_dtypes' float types: total on bool / int64 / float scalars, `TypeError` on everything else -/
theorem castF8_total (k : F8) (l : Leaf) :
    (l.isReal64 = true → ∃ f, castF8 k l = .ok (encF8 k f)) ∧
    (l.isReal64 = false → castF8 k l = .err "TypeError") := by
  cases l with
  | bool b => exact ⟨fun _ => ⟨_, rfl⟩, fun h => by simp [Leaf.isReal64] at h⟩
  | float b => exact ⟨fun _ => ⟨_, rfl⟩, fun h => by simp [Leaf.isReal64] at h⟩
  | int i =>
    refine ⟨fun h => ?_, fun h => ?_⟩
    · simp only [Leaf.isReal64, decide_eq_true_eq] at h
      exact ⟨decode32 (encodeF 8 23 (ofInt i)), by simp only [castF8, h, and_self, if_true]⟩
    · simp only [Leaf.isReal64, decide_eq_false_iff_not] at h
      simp only [castF8, h, if_false]
  | none => exact ⟨fun h => by simp [Leaf.isReal64] at h, fun _ => rfl⟩
  | complex _ _ => exact ⟨fun h => by simp [Leaf.isReal64] at h, fun _ => rfl⟩
  | str _ => exact ⟨fun h => by simp [Leaf.isReal64] at h, fun _ => rfl⟩
  | bytes _ => exact ⟨fun h => by simp [Leaf.isReal64] at h, fun _ => rfl⟩

theorem castLeaf_f8 (k : F8) (l : Leaf) : castLeaf k.dtype l = castF8 k l := by
  cases k <;> rfl

theorem castAll_f8 (k : F8) : ∀ (ls : List Leaf), ls.all Leaf.isReal64 = true →
    ∃ xs, castAll k.dtype ls = .ok xs ∧ ∀ x ∈ xs, x < 2 ^ k.bits
  | [], _ => ⟨[], rfl, by simp⟩
  | l :: ls, h => by
    simp only [List.all_cons, Bool.and_eq_true] at h
    obtain ⟨xs, hxs, hb⟩ := castAll_f8 k ls h.2
    obtain ⟨f, hf⟩ := (castF8_total k l).1 h.1
    refine ⟨encF8 k f :: xs, by simp [castAll, castLeaf_f8, hf, hxs], ?_⟩
    intro x hx
    simp only [List.mem_cons] at hx
    rcases hx with rfl | hx
    · exact encF8_lt_bits k f
    · exact hb x hx

theorem castF8_lt {k : F8} {l : Leaf} {x : Nat} (h : castF8 k l = .ok x) : x < 256 := by
  cases l with
  | bool b => simp only [castF8, Cast.ok.injEq] at h; subst h; exact encF8_lt _ _
  | int i =>
    simp only [castF8] at h
    split at h
    · simp only [Cast.ok.injEq] at h; subst h; exact encF8_lt _ _
    · cases h
  | float b => simp only [castF8, Cast.ok.injEq] at h; subst h; exact encF8_lt _ _
  | none => simp [castF8] at h
  | complex _ _ => simp [castF8] at h
  | str _ => simp [castF8] at h
  | bytes _ => simp [castF8] at h

/-- every converted scalar fits the item of the numpy type -/
theorem castLeaf_lt {d : DType} {l : Leaf} {x : Nat} (hw : l.wf = true) (h : castLeaf d l = .ok x) :
    x < 256 ^ npItemBytes d := by
  cases d <;> simp only [castLeaf] at h <;> try (cases h; done)
  case bool => have := castBool_lt h; have e : npItemBytes .bool = 1 := by decide
               rw [e]; omega
  case int8 => have := castNpInt_lt (by decide) h; have e : npItemBytes .int8 = 1 := by decide
               rw [e]; omega
  case uint8 => have := castNpInt_lt (by decide) h; have e : npItemBytes .uint8 = 1 := by decide
                rw [e]; omega
  case int16 => have := castNpInt_lt (by decide) h; have e : npItemBytes .int16 = 2 := by decide
                rw [e]; omega
  case uint16 => have := castNpInt_lt (by decide) h; have e : npItemBytes .uint16 = 2 := by decide
                 rw [e]; omega
  case int32 => have := castNpInt_lt (by decide) h; have e : npItemBytes .int32 = 4 := by decide
                rw [e]; omega
  case uint32 => have := castNpInt_lt (by decide) h; have e : npItemBytes .uint32 = 4 := by decide
                 rw [e]; omega
  case int64 => have := castNpInt_lt (by decide) h; have e : npItemBytes .int64 = 8 := by decide
                rw [e]; omega
  case uint64 => have := castNpInt_lt (by decide) h; have e : npItemBytes .uint64 = 8 := by decide
                 rw [e]; omega
  case int4 => have := castMlInt_lt (by decide) h; have e : npItemBytes .int4 = 1 := by decide
               rw [e]; omega
  case uint4 => have := castMlInt_lt (by decide) h; have e : npItemBytes .uint4 = 1 := by decide
                rw [e]; omega
  case int2 => have := castMlInt_lt (by decide) h; have e : npItemBytes .int2 = 1 := by decide
               rw [e]; omega
  case uint2 => have := castMlInt_lt (by decide) h; have e : npItemBytes .uint2 = 1 := by decide
                rw [e]; omega
  case float16 => have := castNpFloat_lt (by decide) hw h; have e : npItemBytes .float16 = 2 := by decide
                  rw [e]; simpa using this
  case float => have := castNpFloat_lt (by decide) hw h; have e : npItemBytes .float = 4 := by decide
                rw [e]; simpa using this
  case double => have := castNpFloat_lt (by decide) hw h; have e : npItemBytes .double = 8 := by decide
                 rw [e]; simpa using this
  case bfloat16 => have := castBf16_lt h; have e : npItemBytes .bfloat16 = 2 := by decide
                   rw [e]; omega
  case complex64 => have := castComplex_lt (half := 32) (by decide) hw (by decide) h
                    have e : npItemBytes .complex64 = 8 := by decide
                    rw [e]; simpa using this
  case complex128 => have := castComplex_lt (half := 64) (by decide) hw (by decide) h
                     have e : npItemBytes .complex128 = 16 := by decide
                     rw [e]; simpa using this
  case float8e4m3fn => have := castF8_lt h; have e : npItemBytes .float8e4m3fn = 1 := by decide
                       rw [e]; omega
  case float8e4m3fnuz => have := castF8_lt h; have e : npItemBytes .float8e4m3fnuz = 1 := by decide
                         rw [e]; omega
  case float8e5m2 => have := castF8_lt h; have e : npItemBytes .float8e5m2 = 1 := by decide
                     rw [e]; omega
  case float8e5m2fnuz => have := castF8_lt h; have e : npItemBytes .float8e5m2fnuz = 1 := by decide
                         rw [e]; omega
  case float8e8m0 => have := castF8_lt h; have e : npItemBytes .float8e8m0 = 1 := by decide
                     rw [e]; omega
  case float4e2m1 => have := castF8_lt h; have e : npItemBytes .float4e2m1 = 1 := by decide
                     rw [e]; omega

/-! ## the inference chain on uniform data -/

theorem allFloat_append (a b : List Leaf) : allFloat (a ++ b) = (allFloat a && allFloat b) := by
  simp [allFloat, List.all_append]

theorem allInt64_append (a b : List Leaf) : allInt64 (a ++ b) = (allInt64 a && allInt64 b) := by
  simp [allInt64, List.all_append]

theorem castAll_double_float : ∀ (ls : List Leaf), allFloat ls = true →
    castAll .double ls = .ok (ls.map Leaf.floatBits)
  | [], _ => rfl
  | l :: ls, h => by
    simp only [allFloat, List.all_cons, Bool.and_eq_true] at h
    have ih := castAll_double_float ls h.2
    cases l <;> simp at h
    simp [castAll, castLeaf, castNpFloat, leafToF64, ih, Leaf.floatBits]

theorem castAll_float_float : ∀ (ls : List Leaf), allFloat ls = true →
    ∃ elems, castAll .float ls = .ok elems
  | [], _ => ⟨[], rfl⟩
  | l :: ls, h => by
    simp only [allFloat, List.all_cons, Bool.and_eq_true] at h
    obtain ⟨es, ih⟩ := castAll_float_float ls h.2
    cases l <;> simp at h
    rename_i b
    exact ⟨encodeF 8 23 (decode64 b) :: es, by simp [castAll, castLeaf, castNpFloat, leafToF64, ih]⟩

theorem castAll_int64 : ∀ (ls : List Leaf), allInt64 ls = true →
    castAll .int64 ls = .ok (ls.map (fun l => wrap 64 l.intValue))
  | [], _ => rfl
  | l :: ls, h => by
    simp only [allInt64, List.all_cons, Bool.and_eq_true] at h
    have ih := castAll_int64 ls h.2
    cases l <;> simp at h
    rename_i i
    have hr : inRange 64 true i = true := by
      simp only [inRange, intLo, intHi, Bool.and_eq_true, decide_eq_true_eq, ↓reduceIte]
      omega
    simp [castAll, castLeaf, castNpInt, fitInt, hr, ih, Leaf.intValue]

theorem foldl_join_const (k : Kind) (hk : k.join k = k) : ∀ (ls : List Leaf), (∀ l ∈ ls, l.kind = k) →
    ls.foldl (fun a x => a.join x.kind) k = k
  | [], _ => rfl
  | l :: ls, h => by
    simp only [List.foldl_cons, h l (by simp), hk]
    exact foldl_join_const k hk ls (fun x hx => h x (by simp [hx]))

theorem discover_float (ls : List Leaf) (hne : ls ≠ []) (h : allFloat ls = true) : discover ls = .float64 := by
  cases ls with
  | nil => exact absurd rfl hne
  | cons l ls =>
    have hk : ∀ x ∈ l :: ls, x.kind = .float64 := by
      intro x hx
      have := List.all_eq_true.mp h x hx
      cases x <;> simp at this
      rfl
    simp only [discover, hk l (by simp)]
    exact foldl_join_const .float64 rfl ls (fun x hx => hk x (by simp [hx]))

theorem discover_int64 (ls : List Leaf) (hne : ls ≠ []) (h : allInt64 ls = true) : discover ls = .int64 := by
  cases ls with
  | nil => exact absurd rfl hne
  | cons l ls =>
    have hk : ∀ x ∈ l :: ls, x.kind = .int64 := by
      intro x hx
      have := List.all_eq_true.mp h x hx
      cases x <;> simp at this
      simp [Leaf.kind, this]
    simp only [discover, hk l (by simp)]
    exact foldl_join_const .int64 rfl ls (fun x hx => hk x (by simp [hx]))

/-- the first-element descent of `_maybe_string_tensor` ends at a non-text scalar or an empty list -/
theorem firstIsText_of_no_text : ∀ v : PyVal, (leaves v).all (fun l => !l.isText) = true → firstIsText v = false
  | .leaf l, h => by simpa [leaves, firstIsText] using h
  | .seq .nil, _ => rfl
  | .seq (.cons x xs), h => by
    simp only [leaves, leavesL, List.all_append, Bool.and_eq_true] at h
    simpa [firstIsText] using firstIsText_of_no_text x h.1

theorem no_text_of_allFloat {ls : List Leaf} (h : allFloat ls = true) : ls.all (fun l => !l.isText) = true := by
  apply List.all_eq_true.mpr
  intro l hl
  have := List.all_eq_true.mp h l hl
  cases l <;> simp at this <;> rfl

theorem no_text_of_allInt64 {ls : List Leaf} (h : allInt64 ls = true) : ls.all (fun l => !l.isText) = true := by
  apply List.all_eq_true.mpr
  intro l hl
  have := List.all_eq_true.mp h l hl
  cases l <;> simp at this <;> rfl

theorem maybeString_none_of_no_text (v : PyVal) (h : (leaves v).all (fun l => !l.isText) = true) :
    maybeString v none = none := by
  simp [maybeString, firstIsText_of_no_text v h]

theorem pyTensor_scalar_float (b : Nat) :
    pyTensor (.leaf (.float b)) none = .numeric .float [] [encodeF 8 23 (decode64 b)] := by
  simp [pyTensor, maybeString, firstIsText, Leaf.isText, inferChain, build, npShape, leaves, castAll,
    castLeaf, castNpFloat, leafToF64]

theorem flat_float_shape : ∀ xs : PyList, xs.toList.all PyVal.isFloatLeaf = true →
    npShapes xs = some (List.replicate xs.toList.length []) ∧ allFloat (leavesL xs) = true
  | .nil, _ => by simp [npShapes, PyList.toList, leavesL, allFloat]
  | .cons x xs, h => by
    simp only [PyList.toList, List.all_cons, Bool.and_eq_true] at h
    obtain ⟨ih1, ih2⟩ := flat_float_shape xs h.2
    cases x with
    | seq _ => simp [PyVal.isFloatLeaf] at h
    | leaf l =>
      cases l <;> simp [PyVal.isFloatLeaf] at h
      refine ⟨by simp [npShapes, npShape, ih1, PyList.toList, List.replicate_succ], ?_⟩
      simp only [leavesL, leaves, allFloat_append, ih2, Bool.and_true]
      rfl

theorem pyTensor_flat_float (xs : PyList) (hne : xs ≠ .nil) (h : xs.toList.all PyVal.isFloatLeaf = true) :
    ∃ elems, pyTensor (.seq xs) none = .numeric .float [xs.toList.length] elems := by
  obtain ⟨hsh, hfl⟩ := flat_float_shape xs h
  cases xs with
  | nil => exact absurd rfl hne
  | cons x0 xs' =>
    have h0 : x0.isFloatLeaf = true ∧ xs'.toList.all PyVal.isFloatLeaf = true := by
      simpa [PyList.toList] using h
    have hi0 : x0.isIntLeaf = false := by
      cases x0 with
      | seq _ => rfl
      | leaf l => cases l <;> simp [PyVal.isFloatLeaf] at h0 <;> rfl
    obtain ⟨elems, hc⟩ := castAll_float_float (leavesL (.cons x0 xs')) hfl
    have hms := maybeString_none_of_no_text (.seq (.cons x0 xs')) (no_text_of_allFloat (by simpa [leaves] using hfl))
    have hshape : npShape (.seq (.cons x0 xs')) = some [(PyList.cons x0 xs').toList.length] := by
      simp only [npShape, hsh, PyList.toList, List.length_cons, List.replicate_succ]
      simp
    refine ⟨elems, ?_⟩
    simp [pyTensor, hms, inferChain, PyList.toList, hi0, h0.1, h0.2, build, hshape, leaves, hc]

theorem pyTensor_nested_float (v : PyVal) (n m : Nat) (rest : List Nat)
    (hs : npShape v = some (n :: m :: rest)) (hne : leaves v ≠ []) (hf : allFloat (leaves v) = true) :
    pyTensor v none = .numeric .double (n :: m :: rest) ((leaves v).map Leaf.floatBits) := by
  have hms := maybeString_none_of_no_text v (no_text_of_allFloat hf)
  cases v with
  | leaf l => simp [npShape] at hs
  | seq xs =>
    cases xs with
    | nil => simp [npShape, npShapes] at hs
    | cons x0 xs' =>
      have hx0 : x0.isIntLeaf = false ∧ x0.isFloatLeaf = false := by
        cases x0 with
        | seq _ => exact ⟨rfl, rfl⟩
        | leaf l =>
          exfalso
          simp only [npShape, npShapes] at hs
          split at hs
          · cases hs
          · cases hs
          · rename_i s ss hss
            split at hss
            · rename_i t ts ht hts
              simp only [Option.some.injEq, List.cons.injEq] at hss
              obtain ⟨rfl, rfl⟩ := hss
              simp only [Option.some.injEq] at ht
              subst ht
              split at hs
              · simp at hs
              · cases hs
            · cases hss
      simp [pyTensor, hms, inferChain, PyList.toList, hx0.1, hx0.2, hs, discover_float _ hne hf, Kind.dtype,
        build, castAll_double_float _ hf]

theorem inferChain_int64 (v : PyVal) (hi : allInt64 (leaves v) = true) (hne : leaves v ≠ []) :
    inferChain v = .ok (some .int64) ∨ inferChain v = .ok none := by
  cases v with
  | leaf l =>
    simp only [leaves, allInt64, List.all_cons, List.all_nil, Bool.and_true] at hi
    cases l <;> simp at hi
    left; rfl
  | seq xs =>
    cases xs with
    | nil => simp [leaves, leavesL] at hne
    | cons x0 xs' =>
      simp only [inferChain]
      split
      · left; rfl
      · split
        · -- all items are float scalars: impossible, the first one is an int
          rename_i hfl
          exfalso
          simp only [PyList.toList, List.all_cons, Bool.and_eq_true] at hfl
          cases x0 with
          | seq _ => simp [PyVal.isFloatLeaf] at hfl
          | leaf l =>
            cases l <;> simp [PyVal.isFloatLeaf] at hfl
            simp [leaves, leavesL, allInt64] at hi
        · right; rfl

theorem pyTensor_int64 (v : PyVal) (dims : List Nat) (hs : npShape v = some dims)
    (hne : leaves v ≠ []) (hi : allInt64 (leaves v) = true) :
    pyTensor v none = .numeric .int64 dims ((leaves v).map (fun l => wrap 64 l.intValue)) := by
  have hms := maybeString_none_of_no_text v (no_text_of_allInt64 hi)
  rcases inferChain_int64 v hi hne with hc | hc
  · simp [pyTensor, hms, hc, build, hs, castAll_int64 _ hi]
  · simp [pyTensor, hms, hc, hs, discover_int64 _ hne hi, Kind.dtype, build, castAll_int64 _ hi]

theorem pyTensor_ragged (v : PyVal) (dt : Option DType) (hs : npShape v = none) (h1 : dt ≠ some .string)
    (h2 : dt ≠ some .undefined) : pyTensor v dt = .raised "ValueError" := by
  have hms : maybeString v dt = none := by
    simp only [maybeString, hs]
    split <;> try rfl
    split <;> rfl
  cases dt with
  | some d =>
    cases d <;> first | exact absurd rfl h1 | exact absurd rfl h2 | simp [pyTensor, hms, build, hs]
  | none =>
    simp only [pyTensor, hms]
    cases hc : inferChain v with
    | error e =>
      -- only the empty top-level sequence, whose shape is [0]
      cases v with
      | leaf l => cases l <;> simp [inferChain] at hc
      | seq xs =>
        cases xs with
        | nil => simp [npShape, npShapes] at hs
        | cons x xs' =>
          simp only [inferChain] at hc
          split at hc <;> try cases hc
          split at hc <;> cases hc
    | ok o =>
      cases o with
      | some d => simp [build, hs]
      | none => simp [hs]

theorem firstIsText_of_text : ∀ (v : PyVal) (dims : List Nat), npShape v = some dims → leaves v ≠ [] →
    (leaves v).all Leaf.isText = true → firstIsText v = true
  | .leaf l, _, _, _, h => by simpa [leaves, firstIsText] using h
  | .seq .nil, _, _, hne, _ => by simp [leaves, leavesL] at hne
  | .seq (.cons x xs), dims, hs, hne, h => by
    simp only [firstIsText]
    simp only [leaves, leavesL, List.all_append, Bool.and_eq_true] at h
    -- the first item has the common shape s; the whole has (len) :: s with a non-zero product
    simp only [npShape, npShapes] at hs
    cases hx : npShape x with
    | none => simp [hx] at hs
    | some s =>
      have hlen := leaves_length hx
      by_cases hx0 : leaves x = []
      · -- then prod s = 0 and every item has no scalar: contradiction with hne
        exfalso
        cases hxs : npShapes xs with
        | none => simp [hx, hxs] at hs
        | some ss =>
          simp only [hx, hxs] at hs
          split at hs
          · rename_i hall
            simp only [Option.some.injEq] at hs
            subst hs
            have htot := leaves_length (v := .seq (.cons x xs)) (dims := (ss.length + 1) :: s)
              (by simp [npShape, npShapes, hx, hxs, hall])
            have hp : prod s = 0 := by rw [← hlen, hx0]; rfl
            have : prod ((ss.length + 1) :: s) = 0 := by
              show (ss.length + 1) * prod s = 0
              rw [hp]; rfl
            rw [this] at htot
            exact hne (List.eq_nil_of_length_eq_zero htot)
          · cases hs
      · exact firstIsText_of_text x s hx hx0 h.1

theorem pyTensor_text (v : PyVal) (dt : Option DType) (dims : List Nat) (hs : npShape v = some dims)
    (ht : (leaves v).all Leaf.isText = true) (hdt : dt = none ∨ dt = some .string)
    (hne : leaves v ≠ [] ∨ dt = some .string) :
    pyTensor v dt = .str (.objArr ((leaves v).map Leaf.encode) dims) := by
  have hm : maybeString v dt = some (.objArr ((leaves v).map Leaf.encode) dims) := by
    rcases hdt with rfl | rfl
    · rcases hne with hne | h
      · simp [maybeString, firstIsText_of_text v dims hs hne ht, hs, ht]
      · cases h
    · simp [maybeString, hs, ht]
  simp [pyTensor, hm]

end IrVerif.PyTensor

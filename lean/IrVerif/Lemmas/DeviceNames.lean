/-
C19 — names: which operations can change the name of an existing value (helper development for
`C19_names_current`).  Only `Value.name = s` does; every other operation of the alphabet keeps the
value heap as a prefix (clone / round trip / Function.clone / Graph.clone only append objects).
-/
import IrVerif.Lemmas.DeviceRT
namespace IrVerif.Device

/-- the operation is an assignment to the name of the value `v` -/
def Op.renames (v : VId) : Op → Prop
  | .rename v' _ => v' = v
  | _ => False

instance (v : VId) (op : Op) : Decidable (op.renames v) := by
  cases op <;> unfold Op.renames <;> infer_instance

/-- the value `v` of `w` still exists in `w'` and has the same name -/
def NameKept (w w' : World) (v : VId) : Prop :=
  v < w'.values.length ∧ (w'.value v).name = (w.value v).name

theorem NameKept.of_append {w w' : World} {v : VId} (hv : v < w.values.length) (extra : List ValueS)
    (h : w'.values = w.values ++ extra) : NameKept w w' v := by
  refine ⟨by rw [h, List.length_append]; exact Nat.lt_of_lt_of_le hv (Nat.le_add_right _ _), ?_⟩
  simp [World.value, h, List.getD_eq_getElem?_getD, List.getElem?_append_left hv]

theorem NameKept.of_eq {w w' : World} {v : VId} (hv : v < w.values.length)
    (h : w'.values = w.values) : NameKept w w' v :=
  NameKept.of_append hv [] (by simp [h])

/-- a successful `Value.name = s` makes `s` the name -/
theorem rename_name (w : World) (v : VId) (s : String) (hv : v < w.values.length)
    (hok : (rename w v s).2 = .ok) :
    v < (rename w v s).1.values.length ∧ ((rename w v s).1.value v).name = s := by
  unfold rename at hok ⊢
  split
  · rename_i h; exact ⟨hv, h⟩
  · split
    · rename_i h1 h2; simp [h1, h2] at hok
    · refine ⟨by simpa using hv, ?_⟩
      simp [World.value, List.getD_eq_getElem?_getD, List.getElem?_set, hv]

/-- every operation other than an assignment to the name of `v` keeps the name of `v` -/
theorem stepD_name (w : World) (op : Op) (h : DevOK w) (hpre : Pre w op) (v : VId)
    (hv : v < w.values.length) (hnr : ¬ op.renames v) : NameKept w (stepD w op).1 v := by
  cases op with
  | newModel ir => exact NameKept.of_eq hv (by simp [stepD, newModel])
  | newInput g name shape => exact NameKept.of_append hv _ rfl
  | newSubgraph n => exact NameKept.of_eq hv (by simp [stepD, newSubgraph, World.setNode])
  | newNode g ins outs => exact NameKept.of_append hv _ rfl
  | removeNode g n safe =>
    apply NameKept.of_eq hv
    simp only [stepD, removeNode]
    split
    · rfl
    · split
      · rfl
      · rfl
  | attachNode g n =>
    apply NameKept.of_eq hv
    simp only [stepD, attachNode]
    split
    · rfl
    · split <;> rfl
  | newInit g name shape =>
    simp only [stepD, newInit]
    split
    · exact NameKept.of_eq hv rfl
    · split
      · exact NameKept.of_eq hv rfl
      · exact NameKept.of_append hv _ rfl
  | setShape v' shape =>
    simp only [stepD, setShape]
    refine ⟨by simpa using hv, ?_⟩
    simp only [World.value, List.getD_eq_getElem?_getD, List.getElem?_set]
    split
    · rename_i hvv; subst hvv; simp [hv, World.value, List.getD_eq_getElem?_getD]
    · rfl
  | setDev n dev => exact NameKept.of_eq hv (by simp [stepD, setDev, World.setNode])
  | setModelCfgs m cfgs => exact NameKept.of_eq hv (by simp [stepD, setModelCfgs, World.setModel])
  | rename v' s =>
    have hne : v' ≠ v := hnr
    simp only [stepD, rename]
    split
    · exact NameKept.of_eq hv rfl
    · split
      · exact NameKept.of_eq hv rfl
      · refine ⟨by simpa using hv, ?_⟩
        simp [World.value, List.getD_eq_getElem?_getD, List.getElem?_set, hne]
  | addCfg m name num names =>
    apply NameKept.of_eq hv
    simp only [stepD, addCfg]
    split
    · rfl
    · split
      · rfl
      · split
        · rfl
        · split <;> rfl
  | removeCfg m r cascade =>
    apply NameKept.of_eq hv
    simp only [stepD, removeCfg]
    split
    · rfl
    · split <;> rfl
  | shard n v' c axis k devs stage =>
    apply NameKept.of_eq hv
    simp only [stepD, shard, shardCore]
    split
    · rfl
    · split <;> rfl
  | setStage n c stage =>
    apply NameKept.of_eq hv
    simp only [stepD, setStage]
    split <;> rfl
  | replaceInput n i val =>
    apply NameKept.of_eq hv
    simp only [stepD, replaceInput]
    split <;> rfl
  | resizeInputs n k => exact NameKept.of_eq hv (by simp [stepD, resizeInputs, World.setNode])
  | resizeOutputs n k =>
    simp only [stepD, resizeOutputs]
    split
    · exact NameKept.of_eq hv rfl
    · split
      · split
        · exact NameKept.of_eq hv rfl
        · exact NameKept.of_eq hv rfl
      · exact NameKept.of_append hv _ rfl
  | newFunction m => exact NameKept.of_eq hv (by simp [stepD, newFunction, World.setModel])
  | clone m =>
    have hcl : Closed w (w.model m) := hpre
    simp only [stepD, cloneModel]
    cases hcg : cloneRoots w (w.graphs.length + 1) { w := w } (w.model m).roots with
    | none => exact NameKept.of_eq hv rfl
    | some r =>
      obtain ⟨st, gs'⟩ := r
      have hinit : CInv w (w.model m).cfgs { w := w } := ⟨CloneInv.init w _, by simp⟩
      have hinv := cloneRoots_spec h (h.model m) hcl _ _ _ _ _ hcl.1 hcg hinit
      obtain ⟨extra, hex⟩ := hinv.inv.vals
      exact NameKept.of_append hv extra hex
  | cloneFunc m i =>
    have hcl : Closed w (w.model m) := hpre
    simp only [stepD, cloneFunc]
    cases hf : (w.model m).funcs[i]? with
    | none => exact NameKept.of_eq hv rfl
    | some g =>
      simp only
      have hgm : g ∈ (w.model m).graphs := hcl.1 g (by
        simp only [ModelS.roots, List.mem_cons]; right; exact List.mem_of_getElem? hf)
      cases hcg : cloneGraphF w (w.graphs.length + 1) { w := w } g with
      | none => exact NameKept.of_eq hv rfl
      | some r =>
        obtain ⟨st, g'⟩ := r
        have hinit : CInv w (w.model m).cfgs { w := w } := ⟨CloneInv.init w _, by simp⟩
        obtain ⟨hinv, _⟩ := cloneGraphF_spec h (h.model m) hcl _ _ g st g' hgm hcg hinit
        obtain ⟨extra, hex⟩ := hinv.inv.vals
        exact NameKept.of_append hv extra (by simpa [World.setModel] using hex)
  | cloneSub n g =>
    obtain ⟨⟨msA, hmsA, hnA⟩, hall⟩ := hpre
    simp only [stepD, cloneSub]
    cases hcg : cloneGraphF w (w.graphs.length + 1) { w := w, allow := true } g with
    | none => exact NameKept.of_eq hv rfl
    | some r =>
      obtain ⟨st, g'⟩ := r
      obtain ⟨hg, hcl⟩ := hall msA hmsA hnA
      have hinit : CInv w msA.cfgs { w := w, allow := true } := ⟨CloneInv.init w _, by simp⟩
      obtain ⟨hinv, _⟩ := cloneGraphF_spec h (h.2 msA hmsA) hcl _ _ g st g' hg hcg hinit
      obtain ⟨extra, hex⟩ := hinv.inv.vals
      exact NameKept.of_append hv extra (by simpa [World.setNode] using hex)
  | roundTrip m =>
    obtain ⟨hir, hcl, hU⟩ := hpre
    simp only [stepD, roundTrip]
    cases hser : serModelDev w m with
    | none => exact NameKept.of_eq hv rfl
    | some protos =>
      simp only
      cases hd : deserModel w m with
      | none => exact NameKept.of_eq hv rfl
      | some w' =>
        obtain ⟨st, newm, rfl, _, _, _, _, _, extra, hex⟩ := deserModel_spec h m hir hcl hU hser hd
        exact NameKept.of_append hv extra (by simpa [rtFinish] using hex)

end IrVerif.Device

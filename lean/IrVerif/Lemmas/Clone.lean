/-
Helper development for C13: a small Hoare logic for the cloner monad `IrVerif.Clone.M` and the
invariant that every function of the cloner maintains:
  * the heap only grows; pre-existing cells keep their content, except that the usage list of a
    pre-existing value may gain records of *new* nodes (a captured outer value);
  * every binding of the value map maps to a new value;
  * every new cell refers (through the ownership pointers) only to new cells.
-/
import IrVerif.Model.Clone
namespace IrVerif.Clone

/-! ### cells -/

def Cell.eraseUses : Cell → Cell
  | .val v => .val { v with uses := [] }
  | c => c

def Cell.usesOf : Cell → List (Nat × Nat)
  | .val v => v.uses
  | _ => []

/-- `c` is `c0` except for usage records by new nodes (`n0 ≤ id`): those may have been added to
    its users (and removed again when a clone is abandoned) -/
def OldSame (n0 : Nat) (c0 c : Cell) : Prop :=
  c.eraseUses = c0.eraseUses ∧
    c.usesOf.filter (fun u => u.1 < n0) = c0.usesOf.filter (fun u => u.1 < n0)

theorem OldSame.refl (n0 : Nat) (c : Cell) : OldSame n0 c c := ⟨rfl, rfl⟩

theorem OldSame.trans {n0 : Nat} {a b c : Cell} (h1 : OldSame n0 a b) (h2 : OldSame n0 b c) :
    OldSame n0 a c := ⟨h2.1.trans h1.1, h2.2.trans h1.2⟩

/-- `x` is a new id -/
abbrev In (lo hi : Nat) (x : Nat) : Prop := lo ≤ x ∧ x < hi
def OptIn (lo hi : Nat) : Option Nat → Prop
  | none => True
  | some x => In lo hi x

theorem In.mono {lo hi hi' x} (h : In lo hi x) (hh : hi ≤ hi') : In lo hi' x := by
  obtain ⟨h1, h2⟩ := h
  exact ⟨h1, by omega⟩
theorem OptIn.mono {lo hi hi' x} (h : OptIn lo hi x) (hh : hi ≤ hi') : OptIn lo hi' x := by
  cases x with
  | none => trivial
  | some x => exact In.mono h hh

def AttrV.isGraphy : AttrV → Bool
  | .graph _ => true
  | .graphs _ => true
  | _ => false

/-- a pre-existing attribute object that holds no graph (the cloner shares those) -/
def SharedAttr (w0 : World) (a : Nat) : Prop :=
  ∃ as, w0[a]? = some (.attr as) ∧ as.v.isGraphy = false

/-- `i` is the `const_value` of a value of heap `w` -/
def ConstTarget (w : World) (i : Nat) : Prop :=
  ∃ (j : Nat) (vs : ValueS), w[j]? = some (Cell.val vs) ∧ vs.const = some i

/-- the tensor of a new value is new or the tensor of a pre-existing value (tensors are shared) -/
def ConstOk (w0 : World) (lo : Nat) : Option Nat → Prop
  | none => True
  | some c => lo ≤ c ∨ ConstTarget w0 c

/-- every sharding spec of the node targets one of the node's own inputs or outputs -/
def DevLocal (n : NodeS) : Prop :=
  ∀ c ∈ n.dev, ∀ sp ∈ c.specs, ∀ v, sp.value = some v → some v ∈ n.inputs ∨ v ∈ n.outputs

theorem devLocalB_spec {n : NodeS} (h : devLocalB n = true) : DevLocal n := by
  intro c hc sp hsp v hv
  unfold devLocalB at h
  rw [List.all_eq_true] at h
  have h1 := h c hc
  rw [List.all_eq_true] at h1
  have h2 := h1 sp hsp
  rw [hv] at h2
  simpa using h2

theorem devLocalW_spec {w : World} (h : devLocalW w = true) {i : Nat} {n : NodeS}
    (hi : w[i]? = some (.node n)) : DevLocal n := by
  unfold devLocalW at h
  rw [List.all_eq_true] at h
  exact devLocalB_spec (h _ (List.mem_of_getElem? hi))

/-- the ownership pointers of a new cell stay inside the new part `[lo, hi)` of the heap; node
    inputs too unless outer-scope values are allowed -/
def CellOk (w0 : World) (lo hi : Nat) (allow : Bool) : Cell → Prop
  | .val v => OptIn lo hi v.type ∧ OptIn lo hi v.shape ∧ In lo hi v.props ∧ In lo hi v.mstore ∧
      OptIn lo hi v.graph ∧ OptIn lo hi v.producer ∧ ConstOk w0 lo v.const ∧ (∀ u ∈ v.uses, lo ≤ u.1)
  | .node n => (∀ v ∈ n.outputs, In lo hi v) ∧ In lo hi n.props ∧ In lo hi n.mstore ∧
      OptIn lo hi n.graph ∧ (∀ ka ∈ n.attrs, In lo hi ka.2 ∨ SharedAttr w0 ka.2) ∧
      (allow = false → ∀ v, some v ∈ n.inputs → In lo hi v) ∧ (devLocalW w0 = true → DevLocal n) ∧
      (allow = false → ∀ c ∈ n.dev, ∀ sp ∈ c.specs, ∀ v, sp.value = some v → In lo hi v)
  | .graph g => (∀ v ∈ g.inputs, In lo hi v) ∧ (∀ v ∈ g.outputs, In lo hi v) ∧
      (∀ e ∈ g.inits, In lo hi e.2) ∧ (∀ v ∈ g.nodes, In lo hi v) ∧ In lo hi g.props ∧
      In lo hi g.mstore
  | .attr a => match a.v with
      | .graph g => In lo hi g
      | .graphs gs => ∀ g ∈ gs, In lo hi g
      | _ => True
  | .func f => In lo hi f.graph ∧ (∀ ka ∈ f.attrs, In lo hi ka.2 ∨ SharedAttr w0 ka.2)
  | .model m => In lo hi m.graph ∧ (∀ f ∈ m.funcs, In lo hi f) ∧ In lo hi m.props ∧
      In lo hi m.mstore
  | .type _ => True
  | .shape _ => True
  | .dict _ => True
  | .tensor _ => True

theorem CellOk.mono {w0 lo hi hi' allow c} (h : CellOk w0 lo hi allow c) (hh : hi ≤ hi') :
    CellOk w0 lo hi' allow c := by
  cases c with
  | val v =>
    obtain ⟨a, b, c, d, e, f, k⟩ := h
    exact ⟨a.mono hh, b.mono hh, c.mono hh, d.mono hh, e.mono hh, f.mono hh, k⟩
  | node n =>
    obtain ⟨a, b, c, d, e, f, f2, f3⟩ := h
    refine ⟨fun v hv => (a v hv).mono hh, b.mono hh, c.mono hh, d.mono hh, ?_, fun ha v hv => (f ha v hv).mono hh, f2,
      fun ha c hc sp hsp v hv => (f3 ha c hc sp hsp v hv).mono hh⟩
    intro ka hka
    rcases e ka hka with h | h
    · exact .inl (h.mono hh)
    · exact .inr h
  | graph g =>
    obtain ⟨a, b, c, d, e, f⟩ := h
    exact ⟨fun v hv => (a v hv).mono hh, fun v hv => (b v hv).mono hh, fun v hv => (c v hv).mono hh,
      fun v hv => (d v hv).mono hh, e.mono hh, f.mono hh⟩
  | attr a =>
    obtain ⟨nm, doc, v⟩ := a
    cases v with
    | plain p => trivial
    | ref p => trivial
    | graph g => exact In.mono h hh
    | graphs gs => exact fun g hgm => In.mono (h g hgm) hh
  | func f =>
    obtain ⟨a, e⟩ := h
    refine ⟨a.mono hh, ?_⟩
    intro ka hka
    rcases e ka hka with h | h
    · exact .inl (h.mono hh)
    · exact .inr h
  | model m =>
    obtain ⟨a, b, c, d⟩ := h
    exact ⟨a.mono hh, fun v hv => (b v hv).mono hh, c.mono hh, d.mono hh⟩
  | type _ => trivial
  | shape _ => trivial
  | dict _ => trivial
  | tensor _ => trivial

/-! ### the invariant of the cloner and a pointwise Hoare logic -/

theorem lt_of_getElem? {w : World} {i : Nat} {c : Cell} (h : w[i]? = some c) : i < w.length := by
  rcases Nat.lt_or_ge i w.length with h' | h'
  · exact h'
  · rw [List.getElem?_eq_none h'] at h; cases h

theorem mem_of_lookup {v x : Nat} : ∀ {l : List (Nat × Nat)}, l.lookup v = some x → (v, x) ∈ l
  | [], h => by simp at h
  | (a, b) :: ps, h => by
    rw [List.lookup_cons] at h
    by_cases hva : v = a
    · subst hva
      simp at h
      subst h
      exact List.mem_cons_self
    · have : (v == a) = false := by simpa using hva
      rw [this] at h
      exact List.mem_cons_of_mem _ (mem_of_lookup h)

structure Inv (w0 : World) (allow : Bool) (s : St) : Prop where
  len : w0.length ≤ s.w.length
  old : ∀ (i : Nat) (c0 : Cell), w0[i]? = some c0 → ∃ c, s.w[i]? = some c ∧ OldSame w0.length c0 c
  vm : ∀ p ∈ s.vm, In w0.length s.w.length p.2
  cells : ∀ (i : Nat) (c : Cell), w0.length ≤ i → s.w[i]? = some c → CellOk w0 w0.length s.w.length allow c
  /-- without outer-scope values nothing pre-existing changes at all -/
  oldEq : allow = false → ∀ (i : Nat) (c0 : Cell), w0[i]? = some c0 → s.w[i]? = some c0
  /-- the nodes this cloner created are new -/
  created : ∀ n ∈ s.created, In w0.length s.w.length n

/-- running `m` from `s` keeps the invariant (also when it raises), never shrinks the heap, and a
    normal result satisfies `Q` -/
def GoodAt (w0 : World) (allow : Bool) (m : M α) (s : St) (Q : α → St → Prop) : Prop :=
  Inv w0 allow (m s).2 ∧ s.w.length ≤ (m s).2.w.length ∧ ∀ a, (m s).1 = .ok a → Q a (m s).2

def Good (w0 : World) (allow : Bool) (m : M α) (Q : St → α → St → Prop) : Prop :=
  ∀ s, Inv w0 allow s → GoodAt w0 allow m s (Q s)

section
variable {w0 : World} {allow : Bool}

theorem GoodAt.pure {a : α} {s : St} {Q : α → St → Prop} (hI : Inv w0 allow s) (hQ : Q a s) :
    GoodAt w0 allow (Pure.pure a : M α) s Q :=
  ⟨hI, Nat.le_refl _, by intro b hb; cases hb; exact hQ⟩

theorem GoodAt.fail {e : Err} {s : St} {Q : α → St → Prop} (hI : Inv w0 allow s) :
    GoodAt w0 allow (fail e : M α) s Q :=
  ⟨hI, Nat.le_refl _, by intro b hb; cases hb⟩

theorem GoodAt.raise {why : String} {s : St} {Q : α → St → Prop} (hI : Inv w0 allow s) :
    GoodAt w0 allow (raise why : M α) s Q := GoodAt.fail hI

theorem GoodAt.unsupported {why : String} {s : St} {Q : α → St → Prop} (hI : Inv w0 allow s) :
    GoodAt w0 allow (unsupported why : M α) s Q := GoodAt.fail hI

theorem GoodAt.bind {m : M α} {f : α → M β} {s : St} {Q : α → St → Prop} {R : β → St → Prop}
    (hm : GoodAt w0 allow m s Q)
    (hf : ∀ a s1, Inv w0 allow s1 → s.w.length ≤ s1.w.length → Q a s1 → GoodAt w0 allow (f a) s1 R) :
    GoodAt w0 allow (m >>= f) s R := by
  obtain ⟨hI, hl, hq⟩ := hm
  show GoodAt w0 allow (M.bind m f) s R
  unfold GoodAt M.bind
  rcases hms : m s with ⟨r, s1⟩
  rw [hms] at hI hl hq
  cases r with
  | error e => exact ⟨hI, hl, by intro b hb; cases hb⟩
  | ok a =>
    obtain ⟨hI2, hl2, hq2⟩ := hf a s1 hI hl (hq a rfl)
    exact ⟨hI2, Nat.le_trans hl hl2, hq2⟩

theorem GoodAt.mono {m : M α} {s : St} {Q R : α → St → Prop} (hm : GoodAt w0 allow m s Q)
    (h : ∀ a s1, Inv w0 allow s1 → s.w.length ≤ s1.w.length → Q a s1 → R a s1) :
    GoodAt w0 allow m s R :=
  ⟨hm.1, hm.2.1, fun a ha => h a _ hm.1 hm.2.1 (hm.2.2 a ha)⟩

/-! primitives -/

theorem Inv.alloc {s : St} {c : Cell} (hI : Inv w0 allow s)
    (hc : CellOk w0 w0.length (s.w.length + 1) allow c) :
    Inv w0 allow { s with w := s.w ++ [c] } := by
  refine ⟨by simp; have := hI.len; omega, ?_, ?_, ?_, ?_, ?_⟩
  rotate_left 3
  · intro ha i c0 h0
    have h1 := hI.oldEq ha i c0 h0
    simp only; rw [List.getElem?_append_left (lt_of_getElem? h1)]; exact h1
  · intro n hn
    have := hI.created n hn
    simp only [List.length_append, List.length_cons, List.length_nil]
    exact ⟨this.1, by have := this.2; omega⟩
  · intro i c0 h0
    obtain ⟨c', h1, h2⟩ := hI.old i c0 h0
    exact ⟨c', by simp only; rw [List.getElem?_append_left (lt_of_getElem? h1)]; exact h1, h2⟩
  · intro p hp
    have := hI.vm p hp
    simp only [List.length_append, List.length_cons, List.length_nil]
    exact ⟨this.1, by have := this.2; omega⟩
  · intro i c' hi hc'
    simp only [List.length_append, List.length_cons, List.length_nil] at *
    rcases Nat.lt_or_ge i s.w.length with h | h
    · rw [List.getElem?_append_left h] at hc'
      exact (hI.cells i c' hi hc').mono (by omega)
    · rw [List.getElem?_append_right h] at hc'
      have : i - s.w.length = 0 := by
        rcases Nat.eq_zero_or_pos (i - s.w.length) with h0 | h0
        · exact h0
        · rw [List.getElem?_eq_none (by simp; omega)] at hc'; cases hc'
      rw [this] at hc'
      simp at hc'
      subst hc'
      exact hc

theorem GoodAt.alloc {s : St} {c : Cell} (hI : Inv w0 allow s)
    (hc : CellOk w0 w0.length (s.w.length + 1) allow c) :
    GoodAt w0 allow (alloc c) s (fun r s1 => r = s.w.length ∧ s1.w.length = s.w.length + 1 ∧
      s1.vm = s.vm) := by
  refine ⟨hI.alloc hc, by simp [Clone.alloc], ?_⟩
  intro a ha
  simp only [Clone.alloc, Except.ok.injEq] at ha
  subst ha
  simp [Clone.alloc]

/-- overwriting a *new* cell by a well-formed cell -/
theorem Inv.setNew {s : St} {i : Nat} {c : Cell} (hI : Inv w0 allow s) (hi : w0.length ≤ i)
    (hc : CellOk w0 w0.length s.w.length allow c) :
    Inv w0 allow { s with w := s.w.set i c } := by
  refine ⟨by simp; exact hI.len, ?_, ?_, ?_, ?_, ?_⟩
  rotate_left 3
  · intro ha j c0 h0
    have hj : j < w0.length := lt_of_getElem? h0
    simp only; rw [List.getElem?_set_ne (by omega)]; exact hI.oldEq ha j c0 h0
  · intro n hn
    simpa using hI.created n hn
  · intro j c0 h0
    obtain ⟨c', h1, h2⟩ := hI.old j c0 h0
    have hj : j < w0.length := lt_of_getElem? h0
    exact ⟨c', by simp only; rw [List.getElem?_set_ne (by omega)]; exact h1, h2⟩
  · intro p hp
    simpa using hI.vm p hp
  · intro j c' hj hc'
    simp only [List.length_set] at *
    rw [List.getElem?_set] at hc'
    split at hc'
    · split at hc'
      · cases hc'; exact hc
      · cases hc'
    · exact hI.cells j c' hj hc'

theorem GoodAt.setNew {s : St} {i : Nat} {c : Cell} (hI : Inv w0 allow s) (hi : w0.length ≤ i)
    (hc : CellOk w0 w0.length s.w.length allow c) :
    GoodAt w0 allow (setCell i c) s (fun _ s1 => s1.w.length = s.w.length ∧ s1.vm = s.vm) :=
  ⟨hI.setNew hi hc, by simp [setCell], by intro a _; simp [setCell]⟩

theorem GoodAt.vmGet {s : St} {v : Nat} (hI : Inv w0 allow s) :
    GoodAt w0 allow (vmGet v) s (fun r s1 => s1 = s ∧ ∀ x, r = some x → In w0.length s.w.length x) := by
  refine ⟨hI, Nat.le_refl _, ?_⟩
  intro a ha
  simp only [Clone.vmGet, Except.ok.injEq] at ha
  refine ⟨rfl, ?_⟩
  intro x hx
  subst ha
  have hmem : (v, x) ∈ s.vm := mem_of_lookup hx
  exact hI.vm _ hmem

theorem GoodAt.getVm {s : St} (hI : Inv w0 allow s) :
    GoodAt w0 allow getVm s (fun r s1 => s1 = s ∧ r = s.vm) :=
  ⟨hI, Nat.le_refl _, by intro a ha; simp only [Clone.getVm, Except.ok.injEq] at ha; exact ⟨rfl, ha.symm⟩⟩

theorem GoodAt.vmSet {s : St} {a b : Nat} (hI : Inv w0 allow s) (hb : In w0.length s.w.length b) :
    GoodAt w0 allow (vmSet a b) s (fun _ s1 => s1.w = s.w) := by
  refine ⟨⟨hI.len, hI.old, ?_, hI.cells, hI.oldEq, hI.created⟩, Nat.le_refl _, by intro _ _; rfl⟩
  intro p hp
  simp only [Clone.vmSet, List.mem_cons] at hp
  rcases hp with h | h
  · subst h; exact hb
  · exact hI.vm p h

end

section
variable {w0 : World} {allow : Bool}

macro "mbind " h:term " with " a:ident s1:ident hI:ident hl:ident hq:ident : tactic =>
  `(tactic| (refine GoodAt.bind $h ?_; intro $a $s1 $hI $hl $hq))

theorem GoodAt.readVal {s : St} {i : Nat} (hI : Inv w0 allow s) :
    GoodAt w0 allow (readVal i) s (fun r s1 => s1 = s ∧ s.w[i]? = some (.val r)) := by
  unfold GoodAt Clone.readVal
  split
  · next v h => exact ⟨hI, Nat.le_refl _, by intro a ha; cases ha; exact ⟨rfl, h⟩⟩
  · exact ⟨hI, Nat.le_refl _, by intro a ha; cases ha⟩

theorem GoodAt.readNode {s : St} {i : Nat} (hI : Inv w0 allow s) :
    GoodAt w0 allow (readNode i) s (fun r s1 => s1 = s ∧ s.w[i]? = some (.node r)) := by
  unfold GoodAt Clone.readNode
  split
  · next v h => exact ⟨hI, Nat.le_refl _, by intro a ha; cases ha; exact ⟨rfl, h⟩⟩
  · exact ⟨hI, Nat.le_refl _, by intro a ha; cases ha⟩

theorem GoodAt.readGraph {s : St} {i : Nat} (hI : Inv w0 allow s) :
    GoodAt w0 allow (readGraph i) s (fun r s1 => s1 = s ∧ s.w[i]? = some (.graph r)) := by
  unfold GoodAt Clone.readGraph
  split
  · next v h => exact ⟨hI, Nat.le_refl _, by intro a ha; cases ha; exact ⟨rfl, h⟩⟩
  · exact ⟨hI, Nat.le_refl _, by intro a ha; cases ha⟩

theorem GoodAt.readType {s : St} {i : Nat} (hI : Inv w0 allow s) :
    GoodAt w0 allow (readType i) s (fun r s1 => s1 = s ∧ s.w[i]? = some (.type r)) := by
  unfold GoodAt Clone.readType
  split
  · next v h => exact ⟨hI, Nat.le_refl _, by intro a ha; cases ha; exact ⟨rfl, h⟩⟩
  · exact ⟨hI, Nat.le_refl _, by intro a ha; cases ha⟩

theorem GoodAt.readShape {s : St} {i : Nat} (hI : Inv w0 allow s) :
    GoodAt w0 allow (readShape i) s (fun r s1 => s1 = s ∧ s.w[i]? = some (.shape r)) := by
  unfold GoodAt Clone.readShape
  split
  · next v h => exact ⟨hI, Nat.le_refl _, by intro a ha; cases ha; exact ⟨rfl, h⟩⟩
  · exact ⟨hI, Nat.le_refl _, by intro a ha; cases ha⟩

theorem GoodAt.readDict {s : St} {i : Nat} (hI : Inv w0 allow s) :
    GoodAt w0 allow (readDict i) s (fun r s1 => s1 = s ∧ s.w[i]? = some (.dict r)) := by
  unfold GoodAt Clone.readDict
  split
  · next v h => exact ⟨hI, Nat.le_refl _, by intro a ha; cases ha; exact ⟨rfl, h⟩⟩
  · exact ⟨hI, Nat.le_refl _, by intro a ha; cases ha⟩

theorem GoodAt.readAttr {s : St} {i : Nat} (hI : Inv w0 allow s) :
    GoodAt w0 allow (readAttr i) s (fun r s1 => s1 = s ∧ s.w[i]? = some (.attr r)) := by
  unfold GoodAt Clone.readAttr
  split
  · next v h => exact ⟨hI, Nat.le_refl _, by intro a ha; cases ha; exact ⟨rfl, h⟩⟩
  · exact ⟨hI, Nat.le_refl _, by intro a ha; cases ha⟩

theorem GoodAt.readFunc {s : St} {i : Nat} (hI : Inv w0 allow s) :
    GoodAt w0 allow (readFunc i) s (fun r s1 => s1 = s ∧ s.w[i]? = some (.func r)) := by
  unfold GoodAt Clone.readFunc
  split
  · next v h => exact ⟨hI, Nat.le_refl _, by intro a ha; cases ha; exact ⟨rfl, h⟩⟩
  · exact ⟨hI, Nat.le_refl _, by intro a ha; cases ha⟩

theorem GoodAt.readModel {s : St} {i : Nat} (hI : Inv w0 allow s) :
    GoodAt w0 allow (readModel i) s (fun r s1 => s1 = s ∧ s.w[i]? = some (.model r)) := by
  unfold GoodAt Clone.readModel
  split
  · next v h => exact ⟨hI, Nat.le_refl _, by intro a ha; cases ha; exact ⟨rfl, h⟩⟩
  · exact ⟨hI, Nat.le_refl _, by intro a ha; cases ha⟩

/-- the result is a new id -/
abbrev NewId (w0 : World) : Nat → St → Prop := fun r s1 => In w0.length s1.w.length r
abbrev NewOpt (w0 : World) : Option Nat → St → Prop := fun r s1 => OptIn w0.length s1.w.length r

theorem GoodAt.allocNew {s : St} {c : Cell} (hI : Inv w0 allow s)
    (hc : CellOk w0 w0.length (s.w.length + 1) allow c) :
    GoodAt w0 allow (Clone.alloc c) s (NewId w0) :=
  (GoodAt.alloc hI hc).mono (by
    intro a s1 _ _ ⟨h1, h2, _⟩
    have := hI.len
    subst h1
    exact ⟨by omega, by omega⟩)

theorem copyShape_good {s : St} (o : Option Nat) (hI : Inv w0 allow s) :
    GoodAt w0 allow (copyShape o) s (NewOpt w0) := by
  cases o with
  | none => exact GoodAt.pure hI trivial
  | some sh =>
    unfold copyShape
    mbind (GoodAt.readShape hI) with ss s1 hI1 hl1 hq1
    mbind (GoodAt.allocNew hI1 (by trivial)) with i s2 hI2 hl2 hq2
    exact GoodAt.pure hI2 hq2

theorem copyType_good {s : St} (o : Option Nat) (hI : Inv w0 allow s) :
    GoodAt w0 allow (copyType o) s (NewOpt w0) := by
  cases o with
  | none => exact GoodAt.pure hI trivial
  | some sh =>
    unfold copyType
    mbind (GoodAt.readType hI) with ss s1 hI1 hl1 hq1
    mbind (GoodAt.allocNew hI1 (by trivial)) with i s2 hI2 hl2 hq2
    exact GoodAt.pure hI2 hq2

theorem copyProps_good {s : St} (o : Nat) (hI : Inv w0 allow s) :
    GoodAt w0 allow (copyProps o) s (NewId w0) := by
  unfold copyProps
  mbind (GoodAt.readDict hI) with ss s1 hI1 hl1 hq1
  exact GoodAt.allocNew hI1 (by trivial)

theorem copyMeta_good {s : St} (o : Nat) (hI : Inv w0 allow s) :
    GoodAt w0 allow (copyMeta o) s (NewId w0) := by
  unfold copyMeta
  mbind (GoodAt.readDict hI) with ss s1 hI1 hl1 hq1
  exact GoodAt.allocNew hI1 (by trivial)

/-- the tensor of a value the cloner reads is a legitimate tensor for a new value -/
theorem constOk_of_read {s : St} {v : Nat} {vs : ValueS} (hI : Inv w0 allow s)
    (h : s.w[v]? = some (.val vs)) : ConstOk w0 w0.length vs.const := by
  rcases Nat.lt_or_ge v w0.length with hlt | hge
  · obtain ⟨c0, hc0⟩ : ∃ c0, w0[v]? = some c0 := ⟨w0[v], List.getElem?_eq_getElem hlt⟩
    obtain ⟨c, h1, h2⟩ := hI.old v c0 hc0
    rw [h] at h1
    cases h1
    have := h2.1
    cases c0 <;> simp [Cell.eraseUses] at this
    next v0 =>
      cases hc : vs.const with
      | none => trivial
      | some t =>
        right
        refine ⟨v, v0, hc0, ?_⟩
        rw [← this.2.2.2.2.2.2.2.2.2.2.1]; exact hc
  · obtain ⟨_, _, _, _, _, _, k, _⟩ := hI.cells v _ hge h
    exact k

theorem cloneOrGetValue_good {s : St} (v : Nat) (hI : Inv w0 allow s) :
    GoodAt w0 allow (cloneOrGetValue v) s (NewId w0) := by
  unfold cloneOrGetValue
  mbind (GoodAt.vmGet hI) with o s1 hI1 hl1 hq1
  obtain ⟨rfl, hq1⟩ := hq1
  cases o with
  | some v' => exact GoodAt.pure hI1 (hq1 v' rfl)
  | none =>
    simp only
    mbind (GoodAt.readVal hI1) with vs s2 hI2 hl2 hq2
    have hconst := constOk_of_read hI2 (by rw [hq2.1] at *; exact hq2.2)
    mbind (copyShape_good vs.shape hI2) with sh s3 hI3 hl3 hsh
    mbind (copyType_good vs.type hI3) with ty s4 hI4 hl4 hty
    mbind (copyProps_good vs.props hI4) with pr s5 hI5 hl5 hpr
    mbind (copyMeta_good vs.mstore hI5) with me s6 hI6 hl6 hme
    have hc : CellOk w0 w0.length (s6.w.length + 1) allow
        (.val { name := vs.name, doc := vs.doc, type := ty, shape := sh, const := vs.const,
                props := pr, mstore := me }) :=
      ⟨OptIn.mono hty (by omega), OptIn.mono hsh (by omega), In.mono hpr (by omega),
        In.mono hme (by omega), trivial, trivial, hconst, fun u hu => by cases hu⟩
    mbind (GoodAt.allocNew hI6 hc) with v' s7 hI7 hl7 hv'
    mbind (GoodAt.vmSet hI7 hv') with u s8 hI8 hl8 hq8
    exact GoodAt.pure hI8 (by rw [NewId, hq8]; exact hv')

end

section
variable {w0 : World} {allow : Bool}

theorem mapM'_good {f : α → M β} {Q : β → St → Prop}
    (hQ : ∀ b s s', Q b s → s.w.length ≤ s'.w.length → Q b s') :
    ∀ (l : List α) (s : St), Inv w0 allow s →
      (∀ a ∈ l, ∀ s1, Inv w0 allow s1 → s.w.length ≤ s1.w.length → GoodAt w0 allow (f a) s1 Q) →
      GoodAt w0 allow (mapM' f l) s (fun r s1 => ∀ b ∈ r, Q b s1)
  | [], s, hI, _ => GoodAt.pure hI (by simp)
  | a :: as, s, hI, hf => by
    unfold mapM'
    mbind (hf a List.mem_cons_self s hI (Nat.le_refl _)) with b s1 hI1 hl1 hb
    mbind (mapM'_good hQ as s1 hI1 (fun a' ha' s2 hI2 hl2 =>
      hf a' (List.mem_cons_of_mem _ ha') s2 hI2 (by omega))) with bs s2 hI2 hl2 hbs
    refine GoodAt.pure hI2 ?_
    intro x hx
    rcases List.mem_cons.mp hx with h | h
    · subst h; exact hQ _ _ _ hb hl2
    · exact hbs x h

theorem forM'_good {f : α → M Unit} :
    ∀ (l : List α) (s : St), Inv w0 allow s →
      (∀ a ∈ l, ∀ s1, Inv w0 allow s1 → s.w.length ≤ s1.w.length →
        GoodAt w0 allow (f a) s1 (fun _ _ => True)) →
      GoodAt w0 allow (forM' f l) s (fun _ _ => True)
  | [], s, hI, _ => GoodAt.pure hI trivial
  | a :: as, s, hI, hf => by
    unfold forM'
    mbind (hf a List.mem_cons_self s hI (Nat.le_refl _)) with b s1 hI1 hl1 hb
    exact forM'_good as s1 hI1 (fun a' ha' s2 hI2 hl2 =>
      hf a' (List.mem_cons_of_mem _ ha') s2 hI2 (by omega))

theorem NewId.stable (b : Nat) (s s' : St) (h : NewId w0 b s) (hl : s.w.length ≤ s'.w.length) :
    NewId w0 b s' := In.mono h hl

/-- adding a usage record by a new node keeps the invariant, whether the value is new or old -/
theorem Inv.setUses {s : St} {v : Nat} {vs : ValueS} {us : List (Nat × Nat)} (hI : Inv w0 allow s)
    (hv : s.w[v]? = some (.val vs))
    (hus : us.filter (fun u => u.1 < w0.length) = vs.uses.filter (fun u => u.1 < w0.length))
    (hva : allow = false → w0.length ≤ v) :
    Inv w0 allow { s with w := s.w.set v (.val { vs with uses := us }) } := by
  rcases Nat.lt_or_ge v w0.length with hlt | hge
  · refine ⟨by simp; exact hI.len, ?_, ?_, ?_, ?_, ?_⟩
    rotate_left 3
    · intro ha
      have := hva ha
      omega
    · intro n hn
      simpa using hI.created n hn
    · intro j c0 h0
      obtain ⟨c', h1, h2⟩ := hI.old j c0 h0
      by_cases hj : v = j
      · subst hj
        rw [hv] at h1
        cases h1
        refine ⟨.val { vs with uses := us }, by simp only; exact List.getElem?_set_self (lt_of_getElem? hv), ?_⟩
        exact OldSame.trans h2 ⟨rfl, hus⟩
      · exact ⟨c', by simp only; rw [List.getElem?_set_ne hj]; exact h1, h2⟩
    · intro p hp
      simpa using hI.vm p hp
    · intro j c' hj hc'
      simp only [List.length_set] at *
      rw [List.getElem?_set_ne (by omega)] at hc'
      exact hI.cells j c' hj hc'
  · obtain ⟨a1, a2, a3, a4, a5, a6, a7, a8⟩ := hI.cells v (.val vs) hge hv
    refine hI.setNew hge (show CellOk _ _ _ _ (.val { vs with uses := us }) from
      ⟨a1, a2, a3, a4, a5, a6, a7, fun u hu => ?_⟩)
    rcases Nat.lt_or_ge u.1 w0.length with hlt | hge'
    · have hm : u ∈ us.filter (fun u => decide (u.1 < w0.length)) := List.mem_filter.mpr ⟨hu, by simpa using hlt⟩
      rw [hus] at hm
      have := a8 u (List.mem_filter.mp hm).1
      omega
    · exact hge'

theorem addUse_good {s : St} (v n : Nat) (i : Nat) (hI : Inv w0 allow s) (hn : w0.length ≤ n)
    (hva : allow = false → w0.length ≤ v) :
    GoodAt w0 allow (addUse v n i) s (fun _ _ => True) := by
  unfold addUse
  mbind (GoodAt.readVal hI) with vs s1 hI1 hl1 hq1
  obtain ⟨rfl, hv⟩ := hq1
  refine ⟨hI1.setUses hv ?_ hva, by simp [setCell], fun _ _ => trivial⟩
  split
  · rfl
  · rw [List.filter_append]
    have : List.filter (fun u => decide (u.1 < w0.length)) [(n, i)] = [] := by
      simp [List.filter, Nat.not_lt.mpr hn]
    rw [this]; simp

theorem addUses_good (n : Nat) (hn : w0.length ≤ n) :
    ∀ (l : List (Option Nat)) (i : Nat) (s : St), Inv w0 allow s →
      (allow = false → ∀ v, some v ∈ l → w0.length ≤ v) →
      GoodAt w0 allow (addUses n i l) s (fun _ _ => True)
  | [], i, s, hI, _ => GoodAt.pure hI trivial
  | none :: rest, i, s, hI, hl => by
    unfold addUses
    exact addUses_good n hn rest (i + 1) s hI (fun ha v hv => hl ha v (List.mem_cons_of_mem _ hv))
  | some v :: rest, i, s, hI, hl => by
    unfold addUses
    mbind (addUse_good v n i hI hn (fun ha => hl ha v List.mem_cons_self)) with u s1 hI1 hl1 hq1
    exact addUses_good n hn rest (i + 1) s1 hI1 (fun ha v hv => hl ha v (List.mem_cons_of_mem _ hv))

theorem mkOutputs_good (n : Nat) (hn0 : w0.length ≤ n) :
    ∀ (k i : Nat) (s : St), Inv w0 allow s → n < s.w.length →
      GoodAt w0 allow (mkOutputs n i k) s (fun r s1 => ∀ v ∈ r, In w0.length s1.w.length v)
  | 0, i, s, hI, _ => GoodAt.pure hI (by simp)
  | k + 1, i, s, hI, hn => by
    unfold mkOutputs
    mbind (GoodAt.allocNew hI (by trivial)) with pr s1 hI1 hl1 hpr
    mbind (GoodAt.allocNew hI1 (by trivial)) with me s2 hI2 hl2 hme
    have hc : CellOk w0 w0.length (s2.w.length + 1) allow
        (.val { producer := some n, index := some i, props := pr, mstore := me }) :=
      ⟨trivial, trivial, In.mono hpr (by omega), In.mono hme (by omega), trivial,
        ⟨hn0, by omega⟩, trivial, fun u hu => by cases hu⟩
    mbind (GoodAt.allocNew hI2 hc) with v s3 hI3 hl3 hv
    mbind (mkOutputs_good n hn0 k (i + 1) s3 hI3 (by omega)) with rest s4 hI4 hl4 hrest
    refine GoodAt.pure hI4 ?_
    intro x hx
    rcases List.mem_cons.mp hx with h | h
    · subst h; exact In.mono hv hl4
    · exact hrest x h

theorem Inv.pendSet {s : St} (hI : Inv w0 allow s) (pd : List Nat) :
    Inv w0 allow { s with pend := pd } :=
  ⟨hI.len, hI.old, hI.vm, hI.cells, hI.oldEq, hI.created⟩

theorem GoodAt.pendHas {s : St} (v : Nat) (hI : Inv w0 allow s) :
    GoodAt w0 allow (pendHas v) s (fun _ s1 => s1 = s) :=
  ⟨hI, Nat.le_refl _, fun _ _ => rfl⟩

theorem GoodAt.pendAdd {s : St} (vs : List Nat) (hI : Inv w0 allow s) :
    GoodAt w0 allow (pendAdd vs) s (fun _ s1 => s1.w = s.w) :=
  ⟨hI.pendSet _, Nat.le_refl _, fun _ _ => rfl⟩

theorem GoodAt.pendDiscard {s : St} (v : Nat) (hI : Inv w0 allow s) :
    GoodAt w0 allow (pendDiscard v) s (fun _ s1 => s1.w = s.w) :=
  ⟨hI.pendSet _, Nat.le_refl _, fun _ _ => rfl⟩

theorem GoodAt.createdAdd {s : St} (n : Nat) (hI : Inv w0 allow s) (hn : In w0.length s.w.length n) :
    GoodAt w0 allow (createdAdd n) s (fun _ s1 => s1.w = s.w) := by
  refine ⟨⟨hI.len, hI.old, hI.vm, hI.cells, hI.oldEq, ?_⟩, Nat.le_refl _, fun _ _ => rfl⟩
  intro x hx
  simp only [Clone.createdAdd, List.mem_append, List.mem_singleton] at hx
  rcases hx with h | h
  · exact hI.created x h
  · subst h; exact hn

theorem mapInputs_good :
    ∀ (l : List (Option Nat)) (s : St), Inv w0 allow s →
      GoodAt w0 allow (mapInputs allow l) s
        (fun r s1 => s1 = s ∧ (allow = false → ∀ v, some v ∈ r → In w0.length s.w.length v))
  | [], s, hI => GoodAt.pure hI ⟨rfl, by simp⟩
  | none :: rest, s, hI => by
    unfold mapInputs
    mbind (mapInputs_good rest s hI) with r s1 hI1 hl1 hq1
    obtain ⟨rfl, hq1⟩ := hq1
    refine GoodAt.pure hI1 ⟨rfl, ?_⟩
    intro ha v hv
    rcases List.mem_cons.mp hv with h | h
    · cases h
    · exact hq1 ha v h
  | some v :: rest, s, hI => by
    unfold mapInputs
    mbind (GoodAt.vmGet hI) with o s1 hI1 hl1 hq1
    obtain ⟨rfl, hq1⟩ := hq1
    cases o with
    | some v' =>
      simp only
      mbind (mapInputs_good rest s1 hI1) with r s2 hI2 hl2 hq2
      obtain ⟨rfl, hq2⟩ := hq2
      refine GoodAt.pure hI2 ⟨rfl, ?_⟩
      intro ha x hx
      rcases List.mem_cons.mp hx with h | h
      · cases h; exact hq1 v' rfl
      · exact hq2 ha x h
    | none =>
      simp only
      by_cases hallow : allow = true
      · rw [if_pos hallow]
        mbind (GoodAt.pendHas v hI1) with b s1' hI1' hl1' hq1'
        subst hq1'
        split
        · exact GoodAt.raise hI1'
        · mbind (mapInputs_good rest s1' hI1') with r s2 hI2 hl2 hq2
          obtain ⟨rfl, hq2⟩ := hq2
          exact GoodAt.pure hI2 ⟨rfl, by intro h; rw [hallow] at h; cases h⟩
      · rw [if_neg hallow]
        exact GoodAt.raise hI1

end

section
variable {w0 : World} {allow : Bool}

theorem mem_dictSet {β : Type} {d : List (String × β)} {k : String} {v : β} {e : String × β}
    (h : e ∈ dictSet d k v) : e ∈ d ∨ e = (k, v) := by
  unfold dictSet at h
  split at h
  · rcases List.mem_map.mp h with ⟨x, hx, rfl⟩
    split
    · exact .inr rfl
    · exact .inl hx
  · rcases List.mem_append.mp h with h | h
    · exact .inl h
    · exact .inr (by simpa using h)

theorem mem_dictOf_aux {β : Type} (xs : List (String × β)) :
    ∀ (acc : List (String × β)) (e : String × β),
      e ∈ xs.foldl (fun d e => dictSet d e.1 e.2) acc → e ∈ acc ∨ e ∈ xs := by
  induction xs with
  | nil => intro acc e h; exact .inl h
  | cons x xs ih =>
    intro acc e h
    simp only [List.foldl_cons] at h
    rcases ih _ e h with h | h
    · rcases mem_dictSet h with h | h
      · exact .inl h
      · exact .inr (by rw [h]; exact List.mem_cons_self)
    · exact .inr (List.mem_cons_of_mem _ h)

theorem mem_dictOf {β : Type} {xs : List (String × β)} {e : String × β} (h : e ∈ dictOf xs) :
    e ∈ xs := by
  rcases mem_dictOf_aux xs [] e h with h | h
  · cases h
  · exact h

/-- an attribute entry of a new node: a new attribute object or a shared graph-free one -/
abbrev AttrOk (w0 : World) : String × Nat → St → Prop :=
  fun r s1 => In w0.length s1.w.length r.2 ∨ SharedAttr w0 r.2

theorem AttrOk.stable (b : String × Nat) (s s' : St) (h : AttrOk w0 b s)
    (hl : s.w.length ≤ s'.w.length) : AttrOk w0 b s' := by
  rcases h with h | h
  · exact .inl (In.mono h hl)
  · exact .inr h

theorem sharedAttr_of_read {s : St} {a : Nat} {as : AttrS} (hI : Inv w0 allow s)
    (ha : s.w[a]? = some (.attr as)) (hg : as.v.isGraphy = false) :
    In w0.length s.w.length a ∨ SharedAttr w0 a := by
  rcases Nat.lt_or_ge a w0.length with hlt | hge
  · right
    obtain ⟨c0, hc0⟩ : ∃ c0, w0[a]? = some c0 := ⟨w0[a], List.getElem?_eq_getElem hlt⟩
    obtain ⟨c, h1, h2⟩ := hI.old a c0 hc0
    rw [ha] at h1
    cases h1
    have := h2.1
    cases c0 <;> simp [Cell.eraseUses] at this
    subst this
    exact ⟨_, hc0, hg⟩
  · exact .inl ⟨hge, lt_of_getElem? ha⟩

theorem cloneAttr_good {rec : Nat → M Nat}
    (hrec : ∀ g s, Inv w0 allow s → GoodAt w0 allow (rec g) s (NewId w0))
    (key : String) (a : Nat) {s : St} (hI : Inv w0 allow s) :
    GoodAt w0 allow (cloneAttr rec key a) s (AttrOk w0) := by
  unfold cloneAttr
  mbind (GoodAt.readAttr hI) with as s1 hI1 hl1 hq1
  obtain ⟨rfl, ha⟩ := hq1
  split
  · next g hg =>
    mbind (hrec g s1 hI1) with g' s2 hI2 hl2 hg'
    have hc : CellOk w0 w0.length (s2.w.length + 1) allow
        (.attr { name := key, doc := as.doc, v := .graph g' }) := In.mono hg' (by omega)
    mbind (GoodAt.allocNew hI2 hc) with a' s3 hI3 hl3 ha'
    exact GoodAt.pure hI3 (.inl ha')
  · next gs hg =>
    mbind (mapM'_good (NewId.stable) gs s1 hI1 (fun g _ s2 hI2 _ => hrec g s2 hI2)) with gs' s2 hI2 hl2 hgs'
    have hc : CellOk w0 w0.length (s2.w.length + 1) allow
        (.attr { name := key, doc := as.doc, v := .graphs gs' }) :=
      fun g hg => In.mono (hgs' g hg) (by omega)
    mbind (GoodAt.allocNew hI2 hc) with a' s3 hI3 hl3 ha'
    exact GoodAt.pure hI3 (.inl ha')
  · next h1 h2 =>
    refine GoodAt.pure hI1 (sharedAttr_of_read hI1 ha ?_)
    cases hv : as.v with
    | plain p => rfl
    | ref p => rfl
    | graph g => exact absurd hv (h1 g)
    | graphs gs => exact absurd hv (h2 gs)

theorem cloneOutput_good (i o : Nat) {s : St} (hI : Inv w0 allow s) :
    GoodAt w0 allow (cloneOutput i o) s (NewId w0) := by
  unfold cloneOutput
  mbind (GoodAt.readVal hI) with os s1 hI1 hl1 hq1
  have hconst := constOk_of_read hI1 (by rw [hq1.1] at *; exact hq1.2)
  mbind (copyShape_good os.shape hI1) with sh s2 hI2 hl2 hsh
  mbind (copyType_good os.type hI2) with ty s3 hI3 hl3 hty
  mbind (copyProps_good os.props hI3) with pr s4 hI4 hl4 hpr
  mbind (copyMeta_good os.mstore hI4) with me s5 hI5 hl5 hme
  have hc : CellOk w0 w0.length (s5.w.length + 1) allow
      (.val { name := os.name, doc := os.doc, index := some i, type := ty, shape := sh,
              const := os.const, props := pr, mstore := me }) :=
    ⟨OptIn.mono hty (by omega), OptIn.mono hsh (by omega), In.mono hpr (by omega),
      In.mono hme (by omega), trivial, trivial, hconst, fun u hu => by cases hu⟩
  mbind (GoodAt.allocNew hI5 hc) with o' s6 hI6 hl6 ho'
  mbind (GoodAt.vmSet hI6 ho') with u s7 hI7 hl7 hq7
  mbind (GoodAt.pendDiscard o hI7) with u2 s8 hI8 hl8 hq8
  exact GoodAt.pure hI8 (by rw [NewId, hq8, hq7]; exact ho')

theorem cloneOutputs_good :
    ∀ (os : List Nat) (i : Nat) (s : St), Inv w0 allow s →
      GoodAt w0 allow (cloneOutputs i os) s (fun r s1 => ∀ v ∈ r, In w0.length s1.w.length v)
  | [], i, s, hI => by unfold cloneOutputs; exact GoodAt.pure hI (by simp)
  | o :: os, i, s, hI => by
    unfold cloneOutputs
    mbind (cloneOutput_good i o hI) with o' s1 hI1 hl1 ho'
    mbind (cloneOutputs_good os (i + 1) s1 hI1) with rest s2 hI2 hl2 hrest
    refine GoodAt.pure hI2 ?_
    intro x hx
    rcases List.mem_cons.mp hx with h | h
    · subst h; exact In.mono ho' hl2
    · exact hrest x h

theorem setProducer_good (n v : Nat) {s : St} (hI : Inv w0 allow s)
    (hn : In w0.length s.w.length n) (hv : w0.length ≤ v) :
    GoodAt w0 allow (setProducer n v) s (fun _ _ => True) := by
  unfold setProducer
  mbind (GoodAt.readVal hI) with vs s1 hI1 hl1 hq1
  obtain ⟨rfl, hvs⟩ := hq1
  obtain ⟨a, b, c, d, e, _, k⟩ := hI1.cells v _ hv hvs
  exact (GoodAt.setNew hI1 hv (c := .val { vs with producer := some n }) ⟨a, b, c, d, e, hn, k⟩).mono
    (fun _ _ _ _ _ => trivial)

theorem allocNode_good {s : St} {c : NodeS} (hI : Inv w0 allow s)
    (hc : CellOk w0 w0.length (s.w.length + 1) allow (.node c)) :
    GoodAt w0 allow (allocNode c) s (NewId w0) := by
  unfold allocNode
  mbind (GoodAt.allocNew hI hc) with n' s1 hI1 hl1 hn'
  mbind (GoodAt.createdAdd n' hI1 hn') with u s2 hI2 hl2 hq2
  exact GoodAt.pure hI2 (by rw [NewId, hq2]; exact hn')

/-- what `mapInputs` (the node-input loop of `clone_node`, `_cloner.py` 171-193) answers -/
def mapInputsPure (allow : Bool) (s : St) : List (Option Nat) → Except Err (List (Option Nat))
  | [] => .ok []
  | none :: rest => (mapInputsPure allow s rest).map (none :: ·)
  | some v :: rest =>
    match s.vm.lookup v with
    | some v' => (mapInputsPure allow s rest).map (some v' :: ·)
    | none =>
      if allow then
        if s.pend.contains v then .error (.raised "value defined by a later node of the graph being cloned")
        else (mapInputsPure allow s rest).map (some v :: ·)
      else .error (.raised "outer-scope value")

theorem mapInputs_eq_pure (allow : Bool) (s : St) :
    ∀ l, mapInputs allow l s = (mapInputsPure allow s l, s)
  | [] => rfl
  | none :: rest => by
    have ih := mapInputs_eq_pure allow s rest
    unfold mapInputs mapInputsPure
    show M.bind (mapInputs allow rest) _ s = _
    unfold M.bind
    rw [ih]
    cases mapInputsPure allow s rest <;> rfl
  | some v :: rest => by
    have ih := mapInputs_eq_pure allow s rest
    unfold mapInputs mapInputsPure
    show M.bind (vmGet v) _ s = _
    unfold M.bind vmGet
    simp only
    cases hlk : s.vm.lookup v with
    | some v' =>
      simp only
      show M.bind (mapInputs allow rest) _ s = _
      unfold M.bind
      rw [ih]
      cases mapInputsPure allow s rest <;> rfl
    | none =>
      simp only
      cases allow with
      | false => rfl
      | true =>
        simp only [if_true]
        show M.bind (pendHas v) _ s = _
        unfold M.bind pendHas
        simp only
        cases hp : s.pend.contains v with
        | true => rfl
        | false =>
          simp only [Bool.false_eq_true, if_false]
          show M.bind (mapInputs true rest) _ s = _
          unfold M.bind
          rw [ih]
          cases mapInputsPure true s rest <;> rfl


theorem GoodAt.and_ok {m : M α} {s : St} {Q : α → St → Prop} {P : α → Prop}
    (h : GoodAt w0 allow m s Q) (hp : ∀ a, (m s).1 = .ok a → P a) :
    GoodAt w0 allow m s (fun a s1 => Q a s1 ∧ P a) :=
  ⟨h.1, h.2.1, fun a ha => ⟨h.2.2 a ha, hp a ha⟩⟩

/-- the node-input loop keeps the positions of the `None` inputs -/
theorem mapInputsPure_shape (allow : Bool) (s : St) :
    ∀ (l r : List (Option Nat)), mapInputsPure allow s l = .ok r →
      r.map Option.isSome = l.map Option.isSome
  | [], r, h => by simp [mapInputsPure] at h; subst h; rfl
  | none :: rest, r, h => by
    unfold mapInputsPure at h
    cases h1 : mapInputsPure allow s rest with
    | error e => rw [h1] at h; cases h
    | ok r1 =>
      rw [h1] at h
      simp [Except.map] at h
      subst h
      simp [mapInputsPure_shape allow s rest r1 h1]
  | some v :: rest, r, h => by
    unfold mapInputsPure at h
    have key : ∀ (x : Nat), (mapInputsPure allow s rest).map (some x :: ·) = .ok r →
        r.map Option.isSome = (some v :: rest).map Option.isSome := by
      intro x hx
      cases h1 : mapInputsPure allow s rest with
      | error e => rw [h1] at hx; cases hx
      | ok r1 =>
        rw [h1] at hx
        simp [Except.map] at hx
        subst hx
        simp [mapInputsPure_shape allow s rest r1 h1]
    split at h
    · exact key _ h
    · split at h
      · split at h
        · cases h
        · exact key _ h
      · cases h

theorem mapInputs_shape {allow : Bool} {s : St} {l r : List (Option Nat)}
    (h : (mapInputs allow l s).1 = .ok r) : r.map Option.isSome = l.map Option.isSome := by
  rw [mapInputs_eq_pure] at h
  exact mapInputsPure_shape allow s l r h

theorem cloneOutputs_length :
    ∀ (os : List Nat) (i : Nat) (s : St) (r : List Nat), (cloneOutputs i os s).1 = .ok r →
      r.length = os.length
  | [], i, s, r, h => by
    simp [cloneOutputs, pure, M.pure] at h
    subst h; rfl
  | o :: os, i, s, r, h => by
    unfold cloneOutputs at h
    change (M.bind (cloneOutput i o) _ s).1 = _ at h
    unfold M.bind at h
    rcases h1 : cloneOutput i o s with ⟨r1, s1⟩
    rw [h1] at h
    cases r1 with
    | error e => cases h
    | ok o' =>
      simp only at h
      change (M.bind (cloneOutputs (i + 1) os) _ s1).1 = _ at h
      unfold M.bind at h
      rcases h2 : cloneOutputs (i + 1) os s1 with ⟨r2, s2⟩
      rw [h2] at h
      cases r2 with
      | error e => cases h
      | ok rest =>
        simp only [pure, M.pure] at h
        cases h
        have := cloneOutputs_length os (i + 1) s1 rest (by rw [h2])
        simp [this]

theorem lookup_isSome_of_mem {v x : Nat} : ∀ {l : List (Nat × Nat)}, (v, x) ∈ l → (l.lookup v).isSome
  | [], h => by cases h
  | (a, b) :: ps, h => by
    rw [List.lookup_cons]
    by_cases hva : v = a
    · subst hva; simp
    · have : (v == a) = false := by simpa using hva
      rw [this]
      rcases List.mem_cons.mp h with h1 | h1
      · cases h1; exact absurd rfl hva
      · exact lookup_isSome_of_mem h1

theorem lookup_append_some {l1 l2 : List (Nat × Nat)} {v x : Nat} (h : l1.lookup v = some x) :
    (l1 ++ l2).lookup v = some x := by
  induction l1 with
  | nil => simp at h
  | cons p ps ih =>
    rcases p with ⟨a, b⟩
    rw [List.cons_append, List.lookup_cons]
    rw [List.lookup_cons] at h
    cases hva : v == a with
    | true => rw [hva] at h; exact h
    | false => rw [hva] at h; exact ih h

theorem lookup_append_none {l1 l2 : List (Nat × Nat)} {v : Nat} (h : l1.lookup v = none) :
    (l1 ++ l2).lookup v = l2.lookup v := by
  induction l1 with
  | nil => rfl
  | cons p ps ih =>
    rcases p with ⟨a, b⟩
    rw [List.cons_append, List.lookup_cons]
    rw [List.lookup_cons] at h
    cases hva : v == a with
    | true => rw [hva] at h; cases h
    | false => rw [hva] at h; exact ih h

/-- the pairs of `ioMap` map into the new node's inputs and outputs -/
theorem ioMap_mem {ins0 ins : List (Option Nat)} {outs0 outs : List Nat} {a b : Nat}
    (hab : (a, b) ∈ ioMap ins0 ins outs0 outs) : some b ∈ ins ∨ b ∈ outs := by
  unfold ioMap at hab
  rcases List.mem_append.mp hab with h1 | h1
  · exact .inr (List.of_mem_zip h1).2
  · obtain ⟨q, hq, hqe⟩ := List.mem_filterMap.mp h1
    rcases q with ⟨qa, qb⟩
    cases qa with
    | none => simp at hqe
    | some a' =>
      cases qb with
      | none => simp at hqe
      | some b' =>
        simp at hqe
        obtain ⟨_, rfl⟩ := hqe
        exact .inl (List.of_mem_zip hq).2

/-- a value that is an input or output of the source node is a key of `ioMap` -/
theorem ioMap_local {ns : NodeS} {ins : List (Option Nat)} {outs : List Nat}
    (hlen : outs.length = ns.outputs.length)
    (hpos : ins.map Option.isSome = ns.inputs.map Option.isSome) {v0 : Nat}
    (hl : some v0 ∈ ns.inputs ∨ v0 ∈ ns.outputs) :
    ∃ x, List.lookup v0 (ioMap ns.inputs ins ns.outputs outs) = some x := by
  apply Option.isSome_iff_exists.mp
  rcases hl with h1 | h1
  · obtain ⟨i, hi, hget⟩ := List.getElem_of_mem h1
    have hilen : i < ins.length := by
      have := congrArg List.length hpos
      simp at this
      omega
    have hsome : (ins[i]).isSome := by
      have h1' : (ins.map Option.isSome)[i]'(by simpa using hilen) = (ns.inputs.map Option.isSome)[i]'(by simpa using hi) := by
        simp only [hpos]
      simp only [List.getElem_map] at h1'
      rw [h1', hget]; rfl
    obtain ⟨x, hx⟩ := Option.isSome_iff_exists.mp hsome
    apply lookup_isSome_of_mem (x := x)
    unfold ioMap
    apply List.mem_append_right
    apply List.mem_filterMap.mpr
    refine ⟨(some v0, some x), ?_, rfl⟩
    rw [List.mem_iff_getElem]
    refine ⟨i, by simp; omega, ?_⟩
    simp [hget, hx]
  · obtain ⟨i, hi, hget⟩ := List.getElem_of_mem h1
    apply lookup_isSome_of_mem (x := outs[i]'(by omega))
    unfold ioMap
    apply List.mem_append_left
    rw [List.mem_iff_getElem]
    refine ⟨i, by simp; omega, ?_⟩
    simp [hget]

/-- remapping local sharding specs through the correspondence of the node's own inputs and outputs
    (completed by any other map) yields specs that are local to the new node -/
theorem devLocal_remap {ns : NodeS} {ins : List (Option Nat)} {outs : List Nat} (vm : List (Nat × Nat))
    (hloc : DevLocal ns) (hlen : outs.length = ns.outputs.length)
    (hpos : ins.map Option.isSome = ns.inputs.map Option.isSome) :
    ∀ c ∈ remapDev (ioMap ns.inputs ins ns.outputs outs ++ vm) ns.dev, ∀ sp ∈ c.specs, ∀ v,
      sp.value = some v → some v ∈ ins ∨ v ∈ outs := by
  intro c hc sp hsp v hv
  unfold remapDev at hc
  obtain ⟨c0, hc0, rfl⟩ := List.mem_map.mp hc
  simp only at hsp
  obtain ⟨sp0, hsp0, rfl⟩ := List.mem_map.mp hsp
  unfold remapSpec at hv
  split at hv
  · next hnone => rw [hnone] at hv; cases hv
  · next v0 hv0 =>
    obtain ⟨x, hx⟩ := ioMap_local hlen hpos (hloc c0 hc0 sp0 hsp0 v0 hv0)
    rw [lookup_append_some hx] at hv
    simp only at hv
    cases hv
    exact ioMap_mem (mem_of_lookup hx)

/-- when no spec is outer (`checkSpecs` passed), every remapped spec value is an image of `ioMap` or
    of the global value map -/
theorem remap_resolved {ns : NodeS} {ins : List (Option Nat)} {outs : List Nat} {vm : List (Nat × Nat)}
    (hlen : outs.length = ns.outputs.length)
    (hpos : ins.map Option.isSome = ns.inputs.map Option.isSome)
    (hno : ns.dev.any (fun c => c.specs.any (specOuter ns vm)) = false) :
    ∀ c ∈ remapDev (ioMap ns.inputs ins ns.outputs outs ++ vm) ns.dev, ∀ sp ∈ c.specs, ∀ v,
      sp.value = some v → (some v ∈ ins ∨ v ∈ outs) ∨ ∃ a, (a, v) ∈ vm := by
  intro c hc sp hsp v hv
  unfold remapDev at hc
  obtain ⟨c0, hc0, rfl⟩ := List.mem_map.mp hc
  simp only at hsp
  obtain ⟨sp0, hsp0, rfl⟩ := List.mem_map.mp hsp
  have hso : specOuter ns vm sp0 = false := by
    rw [List.any_eq_false] at hno
    have := hno c0 hc0
    simp only [Bool.not_eq_true] at this
    rw [List.any_eq_false] at this
    simpa using this sp0 hsp0
  unfold remapSpec at hv
  split at hv
  · next hnone => rw [hnone] at hv; cases hv
  · next v0 hv0 =>
    simp only [specOuter, hv0] at hso
    by_cases hloc : some v0 ∈ ns.inputs ∨ v0 ∈ ns.outputs
    · obtain ⟨x, hx⟩ := ioMap_local hlen hpos hloc
      rw [lookup_append_some hx] at hv
      simp only at hv
      cases hv
      exact .inl (ioMap_mem (mem_of_lookup hx))
    · have h1 : ns.inputs.contains (some v0) = false := by
        cases h : ns.inputs.contains (some v0) with
        | false => rfl
        | true => exact absurd (.inl (by simpa using h)) hloc
      have h2 : ns.outputs.contains v0 = false := by
        cases h : ns.outputs.contains v0 with
        | false => rfl
        | true => exact absurd (.inr (by simpa using h)) hloc
      rw [h1, h2] at hso
      simp only [Bool.not_false, Bool.true_and] at hso
      cases hvm : vm.lookup v0 with
      | none => rw [hvm] at hso; simp at hso
      | some b =>
        split at hv
        · next hlk =>
          -- the spec is kept: only possible when the lookup fails, but the global map has it
          exfalso
          cases hio : List.lookup v0 (ioMap ns.inputs ins ns.outputs outs) with
          | none => rw [lookup_append_none hio, hvm] at hlk; cases hlk
          | some x => rw [lookup_append_some hio] at hlk; cases hlk
        · next v' hlk =>
          simp only at hv
          cases hv
          cases hio : List.lookup v0 (ioMap ns.inputs ins ns.outputs outs) with
          | none =>
            rw [lookup_append_none hio, hvm] at hlk
            cases hlk
            exact .inr ⟨v0, mem_of_lookup hvm⟩
          | some x =>
            rw [lookup_append_some hio] at hlk
            cases hlk
            exact .inl (ioMap_mem (mem_of_lookup hio))

theorem devLocal_of_read {s : St} {n : Nat} {ns : NodeS} (hI : Inv w0 allow s)
    (hd : devLocalW w0 = true) (h : s.w[n]? = some (.node ns)) : DevLocal ns := by
  rcases Nat.lt_or_ge n w0.length with hlt | hge
  · obtain ⟨c, h1, h2⟩ := hI.old n _ (List.getElem?_eq_getElem hlt)
    rw [h] at h1
    cases h1
    have := h2.1
    cases hc0 : w0[n] with
    | node n0 =>
      rw [hc0] at this
      simp [Cell.eraseUses] at this
      subst this
      exact devLocalW_spec hd (by rw [List.getElem?_eq_getElem hlt, hc0])
    | val _ => rw [hc0] at this; simp [Cell.eraseUses] at this
    | graph _ => rw [hc0] at this; simp [Cell.eraseUses] at this
    | type _ => rw [hc0] at this; simp [Cell.eraseUses] at this
    | shape _ => rw [hc0] at this; simp [Cell.eraseUses] at this
    | dict _ => rw [hc0] at this; simp [Cell.eraseUses] at this
    | attr _ => rw [hc0] at this; simp [Cell.eraseUses] at this
    | func _ => rw [hc0] at this; simp [Cell.eraseUses] at this
    | model _ => rw [hc0] at this; simp [Cell.eraseUses] at this
    | tensor _ => rw [hc0] at this; simp [Cell.eraseUses] at this
  · obtain ⟨_, _, _, _, _, _, f2, _⟩ := hI.cells n _ hge h
    exact f2 hd

theorem checkSpecs_state (allow : Bool) (ns : NodeS) (vm : List (Nat × Nat)) (s : St) :
    (checkSpecs allow ns vm s).2 = s := by
  unfold checkSpecs
  split <;> rfl

theorem checkSpecs_good {s : St} (ns : NodeS) (vm : List (Nat × Nat)) (hI : Inv w0 allow s) :
    GoodAt w0 allow (checkSpecs allow ns vm) s (fun _ s1 => s1 = s ∧
      (allow = false → ns.dev.any (fun c => c.specs.any (specOuter ns vm)) = false)) := by
  unfold checkSpecs
  split
  · exact GoodAt.raise hI
  · next hcond =>
    refine GoodAt.pure hI ⟨rfl, fun ha => ?_⟩
    subst ha
    simpa using hcond

theorem cloneNode_good {rec : Nat → M Nat}
    (hrec : ∀ g s, Inv w0 allow s → GoodAt w0 allow (rec g) s (NewId w0))
    (n : Nat) {s : St} (hI : Inv w0 allow s) :
    GoodAt w0 allow (cloneNode allow rec n) s (NewId w0) := by
  unfold cloneNode
  mbind (GoodAt.readNode hI) with ns s1 hI1 hl1 hq1
  mbind ((mapInputs_good ns.inputs s1 hI1).and_ok (fun a h => mapInputs_shape h)) with ins s2 hI2 hl2 hins
  obtain ⟨⟨rfl, hins⟩, hshape⟩ := hins
  mbind (mapM'_good (AttrOk.stable) ns.attrs s2 hI2
    (fun ka _ s3 hI3 _ => cloneAttr_good hrec ka.1 ka.2 hI3)) with attrs s3 hI3 hl3 hattrs
  mbind (copyProps_good ns.props hI3) with pr s4 hI4 hl4 hpr
  mbind (copyMeta_good ns.mstore hI4) with me s5 hI5 hl5 hme
  mbind ((cloneOutputs_good ns.outputs 0 s5 hI5).and_ok (fun a h => cloneOutputs_length _ _ _ a h))
    with outs s6 hI6 hl6 houts
  obtain ⟨houts, hlen⟩ := houts
  mbind (GoodAt.getVm hI6) with vm s7 hI7 hl7 hq7
  obtain ⟨rfl, rfl⟩ := hq7
  mbind (checkSpecs_good ns s7.vm hI7) with u0 s7' hI7' hl7' hq7'
  obtain ⟨rfl, hno⟩ := hq7'
  have hc : CellOk w0 w0.length (s7'.w.length + 1) allow
      (.node { name := ns.name, doc := ns.doc, domain := ns.domain, opType := ns.opType,
               overload := ns.overload, version := ns.version, inputs := ins, outputs := outs,
               attrs := dictOf attrs, dev := remapDev (ioMap ns.inputs ins ns.outputs outs ++ s7'.vm) ns.dev,
               props := pr, mstore := me }) := by
    refine ⟨fun v hv => In.mono (houts v hv) (by omega), In.mono hpr (by omega),
      In.mono hme (by omega), trivial, ?_, ?_, ?_, ?_⟩
    · intro ka hka
      rcases hattrs ka (mem_dictOf hka) with h | h
      · exact .inl (In.mono h (by omega))
      · exact .inr h
    · intro ha v hv
      exact In.mono (hins ha v hv) (by omega)
    · intro hd
      exact devLocal_remap _ (devLocal_of_read hI (by exact hd) hq1.2) hlen hshape
    · intro ha c hc sp hsp v hv
      rcases remap_resolved hlen hshape (hno ha) c hc sp hsp v hv with (h1 | h1) | ⟨a, h1⟩
      · exact In.mono (hins ha v h1) (by omega)
      · exact In.mono (houts v h1) (by omega)
      · exact In.mono (hI7'.vm _ h1) (by omega)
  mbind (allocNode_good hI7' hc) with n' s8 hI8 hl8 hn'
  mbind (forM'_good outs s8 hI8 (fun v hv s9 hI9 hl9 =>
    setProducer_good n' v hI9 (In.mono hn' hl9) (houts v hv).1)) with u s9 hI9 hl9 hq9
  mbind (addUses_good n' hn'.1 ins 0 s9 hI9 (fun ha v hv => (hins ha v hv).1)) with u2 s10 hI10 hl10 hq10
  exact GoodAt.pure hI10 (In.mono hn' (by omega))

end

section
variable {w0 : World} {allow : Bool}

theorem getMapped_good (v : Nat) {s : St} (hI : Inv w0 allow s) :
    GoodAt w0 allow (getMapped v) s (NewId w0) := by
  unfold getMapped
  mbind (GoodAt.vmGet hI) with o s1 hI1 hl1 hq1
  obtain ⟨rfl, hq1⟩ := hq1
  cases o with
  | some v' => exact GoodAt.pure hI1 (hq1 v' rfl)
  | none => exact GoodAt.raise hI1

theorem setValueOwner_good (g : Nat) (f : ValueS → ValueS) (v : Nat) {s : St}
    (hf : ∀ x hi, CellOk w0 w0.length hi allow (.val x) → CellOk w0 w0.length hi allow (.val (f x)))
    (hI : Inv w0 allow s) (hg : In w0.length s.w.length g) (hv : w0.length ≤ v) :
    GoodAt w0 allow (setValueOwner g f v) s (fun _ _ => True) := by
  unfold setValueOwner
  mbind (GoodAt.readVal hI) with vs s1 hI1 hl1 hq1
  obtain ⟨rfl, hvs⟩ := hq1
  obtain ⟨a, b, c, d, _, e⟩ := hI1.cells v _ hv hvs
  exact (GoodAt.setNew hI1 hv (hf { vs with graph := some g } _ ⟨a, b, c, d, hg, e⟩)).mono (fun _ _ _ _ _ => trivial)

theorem checkInput_good (g v : Nat) {s : St} (hI : Inv w0 allow s) :
    GoodAt w0 allow (checkInput g v) s (fun _ _ => True) := by
  unfold checkInput
  mbind (GoodAt.readVal hI) with vs s1 hI1 hl1 hq1
  split
  · exact GoodAt.raise hI1
  · split
    · exact GoodAt.raise hI1
    · exact GoodAt.pure hI1 trivial

theorem checkOwned_good (g v : Nat) {s : St} (hI : Inv w0 allow s) :
    GoodAt w0 allow (checkOwned g v) s (fun _ _ => True) := by
  unfold checkOwned
  mbind (GoodAt.readVal hI) with vs s1 hI1 hl1 hq1
  split
  · exact GoodAt.raise hI1
  · exact GoodAt.pure hI1 trivial

theorem checkNamed_good (v : Nat) {s : St} (hI : Inv w0 allow s) :
    GoodAt w0 allow (checkNamed v) s (fun _ _ => True) := by
  unfold checkNamed
  mbind (GoodAt.readVal hI) with vs s1 hI1 hl1 hq1
  split
  · exact GoodAt.unsupported hI1
  · exact GoodAt.pure hI1 trivial

theorem checkNodeFree_good (g n : Nat) {s : St} (hI : Inv w0 allow s) :
    GoodAt w0 allow (checkNodeFree g n) s (fun _ _ => True) := by
  unfold checkNodeFree
  mbind (GoodAt.readNode hI) with ns s1 hI1 hl1 hq1
  split
  · exact GoodAt.raise hI1
  · exact GoodAt.pure hI1 trivial

theorem checkInitEntry_good (e : String × Nat) {s : St} (hI : Inv w0 allow s) :
    GoodAt w0 allow (checkInitEntry e) s (fun _ _ => True) := by
  unfold checkInitEntry
  mbind (GoodAt.readVal hI) with vs s1 hI1 hl1 hq1
  split
  · exact GoodAt.raise hI1
  · split
    · exact GoodAt.raise hI1
    · exact GoodAt.pure hI1 trivial

theorem initEntries_good :
    ∀ (l : List Nat) (acc : List (String × Nat)) (s : St), Inv w0 allow s →
      (∀ e ∈ acc, In w0.length s.w.length e.2) → (∀ v ∈ l, In w0.length s.w.length v) →
      GoodAt w0 allow (initEntries acc l) s
        (fun r s1 => s1 = s ∧ ∀ e ∈ r, In w0.length s.w.length e.2)
  | [], acc, s, hI, hacc, _ => by unfold initEntries; exact GoodAt.pure hI ⟨rfl, hacc⟩
  | v :: rest, acc, s, hI, hacc, hl => by
    unfold initEntries
    mbind (GoodAt.readVal hI) with vs s1 hI1 hl1 hq1
    obtain ⟨rfl, _⟩ := hq1
    split
    · exact GoodAt.raise hI1
    · next nm _ =>
      refine initEntries_good rest _ s1 hI1 ?_ (fun x hx => hl x (List.mem_cons_of_mem _ hx))
      intro e he
      rcases mem_dictSet he with h | h
      · exact hacc e h
      · rw [h]; exact hl v List.mem_cons_self

theorem setNodeGraph_good (g n : Nat) {s : St} (hI : Inv w0 allow s)
    (hg : In w0.length s.w.length g) (hn : w0.length ≤ n) :
    GoodAt w0 allow (setNodeGraph g n) s (fun _ _ => True) := by
  unfold setNodeGraph
  mbind (GoodAt.readNode hI) with ns s1 hI1 hl1 hq1
  obtain ⟨rfl, hns⟩ := hq1
  obtain ⟨a, b, c, _, d, e⟩ := hI1.cells n _ hn hns
  mbind (forM'_good ns.outputs s1 hI1 (fun v _ s2 hI2 _ => checkNamed_good v hI2)) with u s2 hI2 hl2 hq2
  refine (GoodAt.setNew hI2 hn (c := .node { ns with graph := some g }) ?_).mono (fun _ _ _ _ _ => trivial)
  exact CellOk.mono ⟨a, b, c, hg, d, e⟩ hl2

/-- a step that may only run on new ids, applied to a list of new ids -/
theorem forNew_good {f : Nat → M Unit} (l : List Nat) {s : St} (hI : Inv w0 allow s)
    (hl : ∀ v ∈ l, In w0.length s.w.length v)
    (hf : ∀ v s1, Inv w0 allow s1 → s.w.length ≤ s1.w.length → In w0.length s1.w.length v →
      GoodAt w0 allow (f v) s1 (fun _ _ => True)) :
    GoodAt w0 allow (forM' f l) s (fun _ _ => True) :=
  forM'_good l s hI (fun v hv s1 hI1 hl1 => hf v s1 hI1 hl1 (In.mono (hl v hv) hl1))

theorem mkGraph_good (src : GraphS) (inputs outputs nodes inits : List Nat) {s : St}
    (hI : Inv w0 allow s)
    (hin : ∀ v ∈ inputs, In w0.length s.w.length v)
    (hout : ∀ v ∈ outputs, In w0.length s.w.length v)
    (hnodes : ∀ v ∈ nodes, In w0.length s.w.length v)
    (hinits : ∀ v ∈ inits, In w0.length s.w.length v) :
    GoodAt w0 allow (mkGraph src inputs outputs nodes inits) s (NewId w0) := by
  unfold mkGraph
  mbind (initEntries_good inits [] s hI (by simp) hinits) with entries s0 hI0 hl0 hent
  obtain ⟨rfl, hent⟩ := hent
  mbind (copyProps_good src.props hI0) with pr s3 hI3 hl3 hpr
  mbind (copyMeta_good src.mstore hI3) with me s4 hI4 hl4 hme
  have hc : CellOk w0 w0.length (s4.w.length + 1) allow
      (.graph { name := src.name, doc := src.doc, inputs := inputs, outputs := outputs,
                inits := entries, nodes := nodes, opsets := src.opsets, props := pr, mstore := me }) :=
    ⟨fun v hv => In.mono (hin v hv) (by omega), fun v hv => In.mono (hout v hv) (by omega),
      fun e he => In.mono (hent e he) (by omega), fun v hv => In.mono (hnodes v hv) (by omega),
      In.mono hpr (by omega), In.mono hme (by omega)⟩
  mbind (GoodAt.allocNew hI4 hc) with g s5 hI5 hl5 hg
  have hin5 : ∀ v ∈ inputs, In w0.length s5.w.length v := fun v hv => In.mono (hin v hv) (by omega)
  have hout5 : ∀ v ∈ outputs, In w0.length s5.w.length v := fun v hv => In.mono (hout v hv) (by omega)
  have hnodes5 : ∀ v ∈ nodes, In w0.length s5.w.length v := fun v hv => In.mono (hnodes v hv) (by omega)
  have hent5 : ∀ v ∈ entries.map (fun e => e.2), In w0.length s5.w.length v := by
    intro v hv
    rcases List.mem_map.mp hv with ⟨e, he, rfl⟩
    exact In.mono (hent e he) (by omega)
  -- inputs
  mbind (forM'_good inputs s5 hI5 (fun v _ s6 hI6 _ => checkInput_good g v hI6)) with u s6 hI6 hl6 hq6
  mbind (forNew_good inputs hI6 (fun v hv => In.mono (hin5 v hv) hl6)
    (fun v s7 hI7 hl7 hv => setValueOwner_good g (fun v => { v with isIn := true }) v (fun _ _ h => h) hI7 (In.mono hg (by omega)) hv.1))
    with u2 s7 hI7 hl7 hq7
  -- outputs
  mbind (forM'_good outputs s7 hI7 (fun v _ s10 hI10 _ => checkOwned_good g v hI10)) with u4 s10 hI10 hl10 hq10
  mbind (forNew_good outputs hI10 (fun v hv => In.mono (hout5 v hv) (by omega))
    (fun v s11 hI11 hl11 hv => setValueOwner_good g (fun v => { v with isOut := true }) v (fun _ _ h => h) hI11 (In.mono hg (by omega)) hv.1))
    with u5 s11 hI11 hl11 hq11
  -- initializers
  mbind (forM'_good (entries.map (fun e => e.2)) s11 hI11 (fun v _ s15 hI15 _ => checkOwned_good g v hI15))
    with u7 s15 hI15 hl15 hq15
  mbind (forNew_good (entries.map (fun e => e.2)) hI15 (fun v hv => In.mono (hent5 v hv) (by omega))
    (fun v s16 hI16 hl16 hv => setValueOwner_good g (fun v => { v with isInit := true }) v (fun _ _ h => h) hI16 (In.mono hg (by omega)) hv.1))
    with u8 s16 hI16 hl16 hq16
  mbind (forM'_good entries s16 hI16 (fun e _ s17 hI17 _ => checkInitEntry_good e hI17)) with u9 s17 hI17 hl17 hq17
  -- names, nodes
  mbind (forM'_good inputs s17 hI17 (fun v _ s20 hI20 _ => checkNamed_good v hI20)) with u11 s20 hI20 hl20 hq20
  mbind (forM'_good nodes s20 hI20 (fun v _ s21 hI21 _ => checkNodeFree_good g v hI21)) with u12 s21 hI21 hl21 hq21
  mbind (forNew_good nodes hI21 (fun v hv => In.mono (hnodes5 v hv) (by omega))
    (fun v s22 hI22 hl22 hv => setNodeGraph_good g v hI22 (In.mono hg (by omega)) hv.1))
    with u13 s22 hI22 hl22 hq22
  exact GoodAt.pure hI22 (In.mono hg (by omega))

theorem allOutputs_good : ∀ (l : List Nat) (s : St), Inv w0 allow s →
    GoodAt w0 allow (allOutputs l) s (fun _ s1 => s1 = s)
  | [], s, hI => GoodAt.pure hI rfl
  | n :: ns, s, hI => by
    unfold allOutputs
    mbind (GoodAt.readNode hI) with x s1 hI1 hl1 hq1
    obtain ⟨rfl, _⟩ := hq1
    mbind (allOutputs_good ns s1 hI1) with r s2 hI2 hl2 hq2
    subst hq2
    exact GoodAt.pure hI2 rfl

theorem unUse_good {s : St} (v n : Nat) (hI : Inv w0 allow s) (hn : w0.length ≤ n)
    (hva : allow = false → w0.length ≤ v) :
    GoodAt w0 allow (unUse v n) s (fun _ _ => True) := by
  unfold GoodAt unUse
  split
  · next vs hv =>
    refine ⟨hI.setUses hv ?_ hva, by simp, fun _ _ => trivial⟩
    rw [List.filter_filter]
    apply List.filter_congr
    intro u _
    by_cases hu : u.1 < w0.length
    · have : u.1 ≠ n := by omega
      simp [hu, this]
    · simp [hu]
  · exact ⟨hI, Nat.le_refl _, fun _ _ => trivial⟩

theorem unUses_good (n : Nat) (hn : w0.length ≤ n) :
    ∀ (l : List (Option Nat)) (s : St), Inv w0 allow s →
      (allow = false → ∀ v, some v ∈ l → w0.length ≤ v) →
      GoodAt w0 allow (unUses n l) s (fun _ _ => True)
  | [], s, hI, _ => GoodAt.pure hI trivial
  | none :: rest, s, hI, hl => by
    unfold unUses
    exact unUses_good n hn rest s hI (fun ha v hv => hl ha v (List.mem_cons_of_mem _ hv))
  | some v :: rest, s, hI, hl => by
    unfold unUses
    mbind (unUse_good v n hI hn (fun ha => hl ha v List.mem_cons_self)) with u s1 hI1 hl1 hq1
    exact unUses_good n hn rest s1 hI1 (fun ha v hv => hl ha v (List.mem_cons_of_mem _ hv))

theorem detachNode_good {s : St} (n : Nat) (hI : Inv w0 allow s) (hn : w0.length ≤ n) :
    GoodAt w0 allow (detachNode n) s (fun _ _ => True) := by
  unfold detachNode
  mbind (GoodAt.readNode hI) with ns s1 hI1 hl1 hq1
  obtain ⟨rfl, hns⟩ := hq1
  obtain ⟨_, _, _, _, _, hin, _⟩ := hI1.cells n _ hn hns
  mbind (unUses_good n hn ns.inputs s1 hI1 (fun ha v hv => (hin ha v hv).1)) with u s2 hI2 hl2 hq2
  mbind (GoodAt.readNode hI2) with ns2 s3 hI3 hl3 hq3
  obtain ⟨rfl, hns2⟩ := hq3
  obtain ⟨a, b, c, d, e, _, f2, f3⟩ := hI3.cells n _ hn hns2
  refine (GoodAt.setNew hI3 hn (c := .node { ns2 with inputs := ns2.inputs.map (fun _ => none), dev := _ })
    ⟨a, b, c, d, e, ?_, ?_, ?_⟩).mono (fun _ _ _ _ _ => trivial)
  rotate_left 2
  · intro ha c' hc' sp hsp v hv
    simp only [List.mem_map] at hc'
    obtain ⟨c0, hc0, rfl⟩ := hc'
    simp only [List.mem_filter] at hsp
    exact f3 ha c0 hc0 sp hsp.1 v hv
  · intro _ v hv
    simp at hv
  · intro hd c' hc' sp hsp v hv
    right
    simp only [List.mem_map] at hc'
    obtain ⟨c0, hc0, rfl⟩ := hc'
    simp only [List.mem_filter] at hsp
    obtain ⟨hsp0, hkeep⟩ := hsp
    rw [hv] at hkeep
    have hloc := f2 hd c0 hc0 sp hsp0 v hv
    rcases hloc with h1 | h1
    · have : ns2.inputs.contains (some v) = true := by simpa using h1
      rcases (by simpa using hkeep : ¬ some v ∈ ns2.inputs ∨ v ∈ ns2.outputs) with h2 | h2
      · exact absurd h1 h2
      · exact h2
    · exact h1

/-- `try ... except: detach; raise` keeps the invariant on both paths -/
theorem guarded_good {body : M Nat} {Q : Nat → St → Prop} {s : St} (hI : Inv w0 allow s)
    (hb : GoodAt w0 allow body s Q) : GoodAt w0 allow (guarded body) s Q := by
  obtain ⟨h1, h2, h3⟩ := hb
  unfold GoodAt guarded onError
  rcases hbs : body s with ⟨r, s'⟩
  rw [hbs] at h1 h2 h3
  cases r with
  | ok a => exact ⟨h1, h2, h3⟩
  | error e =>
    simp only
    have hd := forM'_good (w0 := w0) (allow := allow) (f := detachNode)
      (s'.created.drop s.created.length) s' h1
      (fun n hn s1 hI1 _ => detachNode_good n hI1 (h1.created n (List.mem_of_mem_drop hn)).1)
    obtain ⟨d1, d2, _⟩ := hd
    rcases hf : forM' detachNode (s'.created.drop s.created.length) s' with ⟨r2, s''⟩
    rw [hf] at d1 d2
    refine ⟨⟨d1.len, d1.old, d1.vm, d1.cells, d1.oldEq, ?_⟩, Nat.le_trans h2 d2, by intro a ha; cases ha⟩
    intro n hn
    exact d1.created n (List.mem_of_mem_take hn)

theorem cloneGraphStep_good {rec : Nat → M Nat}
    (hrec : ∀ g s, Inv w0 allow s → GoodAt w0 allow (rec g) s (NewId w0))
    (g : Nat) {s : St} (hI : Inv w0 allow s) :
    GoodAt w0 allow (cloneGraphStep allow rec g) s (NewId w0) := by
  unfold cloneGraphStep
  mbind (GoodAt.readGraph hI) with gs s1 hI1 hl1 hq1
  mbind (mapM'_good NewId.stable gs.inputs s1 hI1 (fun v _ s2 hI2 _ => cloneOrGetValue_good v hI2))
    with inputs s2 hI2 hl2 hin
  mbind (mapM'_good NewId.stable (gs.inits.map (·.2)) s2 hI2 (fun v _ s3 hI3 _ => cloneOrGetValue_good v hI3))
    with inits s3a hI3a hl3a hinits
  mbind (allOutputs_good gs.nodes s3a hI3a) with pouts s3b hI3b hl3b hq3b
  subst hq3b
  mbind (GoodAt.pendAdd pouts hI3b) with u0 s3 hI3 hl3 hq3
  mbind (mapM'_good NewId.stable gs.nodes s3 hI3 (fun n _ s4 hI4 _ => cloneNode_good hrec n hI4))
    with nodes s4 hI4 hl4 hnodes
  mbind (mapM'_good NewId.stable gs.outputs s4 hI4 (fun v _ s5 hI5 _ => getMapped_good v hI5))
    with outputs s5 hI5 hl5 hout
  exact mkGraph_good gs inputs outputs nodes inits hI5
    (fun v hv => In.mono (hin v hv) (by omega)) hout
    (fun v hv => In.mono (hnodes v hv) (by omega)) (fun v hv => In.mono (hinits v hv) (by omega))

theorem cloneGraph_good : ∀ (fuel g : Nat) (s : St), Inv w0 allow s →
    GoodAt w0 allow (cloneGraph allow fuel g) s (NewId w0)
  | 0, _, s, hI => GoodAt.fail hI
  | f + 1, g, s, hI =>
    guarded_good hI (cloneGraphStep_good (fun g' s' hI' => cloneGraph_good f g' s' hI') g hI)

end

section
variable {w0 : World} {allow : Bool}

theorem withFreshMap_good {m : M α} {Q : α → St → Prop} {s : St} (hI : Inv w0 allow s)
    (hm : ∀ s1, Inv w0 allow s1 → s1.w = s.w → GoodAt w0 allow m s1 Q)
    (hQ : ∀ a s1 vm pd cr, Q a s1 → Q a { s1 with vm := vm, pend := pd, created := cr }) :
    GoodAt w0 allow (withFreshMap m) s Q := by
  have hI0 : Inv w0 allow { s with vm := [], pend := [], created := [] } :=
    ⟨hI.len, hI.old, by simp, hI.cells, hI.oldEq, by simp⟩
  obtain ⟨h1, h2, h3⟩ := hm _ hI0 rfl
  unfold GoodAt withFreshMap
  rcases hms : m { s with vm := [], pend := [], created := [] } with ⟨r, s'⟩
  rw [hms] at h1 h2 h3
  refine ⟨⟨h1.len, h1.old, ?_, h1.cells, h1.oldEq, ?_⟩, h2, ?_⟩
  · intro p hp
    exact In.mono (hI.vm p hp) h2
  · intro n hn
    exact In.mono (hI.created n hn) h2
  · intro a ha
    exact hQ a s' s.vm s.pend s.created (h3 a ha)

theorem graphClone_good (fuel : Nat) (g : Nat) {s : St} (hI : Inv w0 allow s) :
    GoodAt w0 allow (graphClone fuel allow g) s (NewId w0) :=
  withFreshMap_good hI (fun s1 hI1 _ => cloneGraph_good fuel g s1 hI1) (fun _ _ _ _ _ h => h)

end

/-- the invariant holds initially, with the starting heap as baseline -/
theorem Inv.init (w : World) (allow : Bool) : Inv w allow { w := w } :=
  ⟨Nat.le_refl _, fun _ c0 h => ⟨c0, h, OldSame.refl _ _⟩, by simp,
    fun i c hi hc => by
      have hn : w[i]? = none := List.getElem?_eq_none hi
      rw [hn] at hc
      exact absurd hc (by simp),
    fun _ _ _ h => h, by simp⟩

theorem funcClone_good {w0 : World} (fuel : Nat) (f : Nat) {s : St} (hI : Inv w0 false s) :
    GoodAt w0 false (funcClone fuel f) s (NewId w0) := by
  refine withFreshMap_good hI (fun s1 hI1 _ => ?_) (fun _ _ _ _ _ h => h)
  mbind (GoodAt.readFunc hI1) with fs s2 hI2 hl2 hq2
  mbind (cloneGraph_good fuel fs.graph s2 hI2) with g' s3 hI3 hl3 hg'
  mbind (mapM'_good (AttrOk.stable) fs.attrs s3 hI3 (fun ka _ s4 hI4 _ => by
    mbind (GoodAt.readAttr hI4) with as s5 hI5 hl5 hq5
    exact cloneAttr_good (fun g s hI => cloneGraph_good fuel g s hI) as.name ka.2 hI5))
    with attrs s4 hI4 hl4 hattrs
  refine GoodAt.allocNew hI4 ⟨In.mono hg' (by omega), ?_⟩
  intro ka hka
  rcases hattrs ka (mem_dictOf hka) with h | h
  · exact .inl (In.mono h (by omega))
  · exact .inr h

theorem modelClone_good {w0 : World} (fuel : Nat) (m : Nat) {s : St} (hI : Inv w0 false s) :
    GoodAt w0 false (modelClone fuel m) s (NewId w0) := by
  unfold modelClone
  mbind (GoodAt.readModel hI) with ms s1 hI1 hl1 hq1
  mbind (graphClone_good fuel ms.graph hI1) with g' s2 hI2 hl2 hg'
  mbind (mapM'_good NewId.stable ms.funcs s2 hI2 (fun f _ s3 hI3 _ => funcClone_good fuel f hI3))
    with fs s3 hI3 hl3 hfs
  mbind (copyProps_good ms.props hI3) with pr s4 hI4 hl4 hpr
  mbind (GoodAt.allocNew hI4 (by trivial)) with me s5 hI5 hl5 hme
  exact GoodAt.allocNew hI5 ⟨In.mono hg' (by omega), fun f hf => In.mono (hfs f hf) (by omega),
    In.mono hpr (by omega), In.mono hme (by omega)⟩

end IrVerif.Clone

/-
The round trip and the fix-point of the extended model, assembled from the lock-step induction
(`Lemmas/ScopeExtRT.lean`), the congruence of the extended serializer (`Lemmas/ScopeExtIdem.lean`), the generic
description of the stored device configurations (`Lemmas/ScopeExtDev.lean`) and the certificate of deserialized
models (`Lemmas/ScopeExtDeser.lean`).
-/
import IrVerif.Lemmas.ScopeExtRT
import IrVerif.Lemmas.ScopeExtIdem
import IrVerif.Lemmas.ScopeExtDev
import IrVerif.Lemmas.ScopeExtDeser
import IrVerif.Lemmas.ScopeExtDevIso
namespace IrVerif.Scope

mutual
theorem extG_quiet (V : Nat → ValueS) (x : Ext) : ∀ (g : GraphT) (outer : List Table), extG V x outer g → QuietOutsG V x g
  | .mk _ ins inits nodes outs, outer, h => by
    simp only [extG] at h
    simp only [QuietOutsG]
    exact extNs_quiet' V x nodes outer _ h.2.2
theorem extNs_quiet' (V : Nat → ValueS) (x : Ext) : ∀ (ns : List NodeT) (outer : List Table) (T : Table),
    extNs V x outer T ns → QuietOutsNs V x ns
  | [], _, _, _ => trivial
  | n :: ns, outer, T, h => by
    simp only [extNs] at h
    exact ⟨extN_quiet V x n outer T h.1, extNs_quiet' V x ns outer _ h.2⟩
theorem extN_quiet (V : Nat → ValueS) (x : Ext) : ∀ (n : NodeT) (outer : List Table) (T : Table),
    extN V x outer T n → QuietOutsN V x n
  | .mk _ _ ins outs subs, outer, T, h => by
    simp only [extN] at h
    exact ⟨h.1, extGs_quiet V x subs _ h.2⟩
theorem extGs_quiet (V : Nat → ValueS) (x : Ext) : ∀ (gs : List GraphT) (scopes : List Table),
    extGs V x scopes gs → QuietOutsGs V x gs
  | [], _, _ => trivial
  | g :: gs, scopes, h => by
    simp only [extGs] at h
    exact ⟨extG_quiet V x g scopes h.1, extGs_quiet V x gs scopes h.2⟩
end

theorem extFresh_empty : ExtFresh ({} : Store) ({} : Ext) := fun _ _ => ⟨rfl, rfl⟩

/-- the round trip of a reloadable extended model whose serialization does not raise -/
theorem reloadableE_roundtrip (ver : Option Int) (w : WorldE) (h : ReloadableE w) (q : GraphE) (ws : Writes)
    (hser : serGraphE w.st.vals w.ext w.st.tdata ver w.root = .ok (q, ws)) :
    ∃ (D : WorldE) (B : Assoc),
      deserializeE q = .ok D ∧ RS w.st.vals D.st B ∧ B.map (·.1) = (replG w.st.vals [] w.root).new ∧
      TreeRelG w.st.vals B w.root D.root ∧ InfoOK2 w.st.vals D.st B (emitG w.st.vals w.root) ∧
      ConstOK2 w.st.vals w.st.tdata D.st B (allInitsG w.root) ∧
      MetaOKk w.ext D.ext B (emitG w.st.vals w.root) ∧ QuantOKk w.ext D.ext B (emitQG w.st.vals w.root) := by
  obtain ⟨⟨hok, hnd⟩, hext, hwf⟩ := h
  obtain ⟨s', x', g', B, hd, hrs, _, hk, ht, _, _, hio, hco, _, _, _, hm, hq, _, _, _⟩ :=
    rtE_graph w.st.vals w.ext w.st.tdata ver hwf w.root {} {} [] [] q ws hser hok hnd hext
      (fun _ _ => by simp) (fun _ hT => by simp at hT)
      ⟨by simp, fun _ he => by simp at he, by simp, fun _ he => by simp at he⟩ (fun _ _ => rfl) extFresh_empty
  simp only [List.map_nil, List.nil_append] at hd hrs ht hio hco hm hq
  exact ⟨⟨s', x', g'⟩, B, by simp only [deserializeE, hd], hrs, hk, ht, hio, hco, hm, hq⟩

/-- the round trip with the device configurations: when they are written (IR version gate open) and the source
    satisfies the certificate `DevCertG` (every sharding value is what its name resolves to at its node), the
    reloaded node carries the source configurations with the sharding values renamed BY IDENTITY -/
theorem reloadableE_roundtrip_devs (ver : Option Int) (hgate : ver = none ∨ ∃ v, ver = some v ∧ ¬ v < 11) (w : WorldE)
    (h : ReloadableE w) (hdc : DevCertG w.st.vals w.ext [] w.root) (q : GraphE) (ws : Writes)
    (hser : serGraphE w.st.vals w.ext w.st.tdata ver w.root = .ok (q, ws)) :
    ∃ (D : WorldE) (B : Assoc),
      deserializeE q = .ok D ∧ RS w.st.vals D.st B ∧ B.map (·.1) = (replG w.st.vals [] w.root).new ∧
      TreeRelG w.st.vals B w.root D.root ∧ InfoOK2 w.st.vals D.st B (emitG w.st.vals w.root) ∧
      ConstOK2 w.st.vals w.st.tdata D.st B (allInitsG w.root) ∧
      MetaOKk w.ext D.ext B (emitG w.st.vals w.root) ∧ QuantOKk w.ext D.ext B (emitQG w.st.vals w.root) ∧
      DevIsoG w.ext D.ext (sig B) w.root D.root := by
  obtain ⟨⟨hok, hnd⟩, hext, hwf⟩ := h
  obtain ⟨s', x', g', B, hd, hrs, _, hk, ht, _, _, hio, hco, _, _, _, hm, hq, _, _, htr⟩ :=
    rtE_graph w.st.vals w.ext w.st.tdata ver hwf w.root {} {} [] [] q ws hser hok hnd hext
      (fun _ _ => by simp) (fun _ hT => by simp at hT)
      ⟨by simp, fun _ he => by simp at he, by simp, fun _ he => by simp at he⟩ (fun _ _ => rfl) extFresh_empty
  simp only [List.map_nil, List.nil_append] at hd hrs ht hio hco hm hq htr
  exact ⟨⟨s', x', g'⟩, B, by simp only [deserializeE, hd], hrs, hk, ht, hio, hco, hm, hq,
    devIso_graph w.st.vals w.ext x' w.st.tdata ver hgate s'.nn B w.root [] q g' ws hser hdc htr⟩

/-- serializing the reloaded extended model gives the proto it was read from -/
theorem reloadableE_fixpoint (ver : Option Int) (w : WorldE) (h : ReloadableE w) (q : GraphE) (ws : Writes)
    (hser : serGraphE w.st.vals w.ext w.st.tdata ver w.root = .ok (q, ws)) :
    ∃ (D : WorldE) (ws' : Writes), deserializeE q = .ok D ∧
      serGraphE D.st.vals D.ext D.st.tdata ver D.root = .ok (q, ws') := by
  obtain ⟨D, B, hD, hrs, _, ht, hio, hco, hm, hq⟩ := reloadableE_roundtrip ver w h q ws hser
  obtain ⟨_, hext, hwf⟩ := h
  have hn : ∀ v ∈ B.map (·.1), (D.st.vals (sig B v)).name = (w.st.vals v).name := fun v hv => hrs.sig_name hv
  have himg : Img w.st.vals D.st.vals (sig B) (emitG w.st.vals w.root) :=
    ⟨fun v hv => hn v (hio v hv).1, fun v hv => (hio v hv).2,
      fun a ha b hb he => hrs.sig_inj (hio a ha).1 (hio b hb).1 he⟩
  obtain ⟨ws', hq'⟩ := img2E_serGraph (td := w.st.tdata) (td' := D.st.tdata) D.st ver rfl himg hn
    (fun a ha b hb he => hrs.sig_inj ha hb he)
    (fun v hv => (hm v hv).2) (fun v hv => (hq v hv).2) hwf
    w.root D.root q ws ht (fun _ hv => hv) (fun _ hv => hv) (extG_quiet _ _ _ _ hext)
    (fun kv hkv => by
      obtain ⟨_, hne, hc⟩ := hco kv hkv
      refine ⟨hne, fun t ht => ?_⟩
      obtain ⟨t', h1, _, _, h4⟩ := hc t ht
      exact ⟨t', h1, h4⟩)
    (deserializeE_devSpec q D hD) hser
  exact ⟨D, ws', hD, hq'⟩

end IrVerif.Scope

/-
C10 helper lemmas for `load()`'s base directory: decomposition of a model path into directory
part and file name, and of the kernel walk along it.
-/
import IrVerif.Lemmas.PathFS
namespace IrVerif.Path

theorem walk_empties (fs : FS) (f : Nat) (cur : Loc) (hd : fs.get cur = some Node.dir) (n : Nat) :
    walk fs f cur (List.replicate n []) true = some cur := by
  induction n with
  | zero => simp [walk_nil]
  | succ n ih =>
    rw [List.replicate_succ, walk_step_skip fs f cur [] _ true hd (Or.inl rfl), ih]

theorem walk_empties_some (fs : FS) (f : Nat) (cur d : Loc) (n : Nat)
    (h : walk fs f cur (List.replicate n []) true = some d) : d = cur := by
  induction n with
  | zero => simp [walk_nil] at h; exact h.symm
  | succ n ih =>
    rw [List.replicate_succ] at h
    obtain ⟨hd, _⟩ := walk_cons_inv fs f cur [] _ d h
    rw [walk_step_skip fs f cur [] _ true hd (Or.inl rfl)] at h
    exact ih h

theorem splitSep_replicate_append (n : Nat) (x : Str) :
    splitSep (List.replicate n '/' ++ x) = List.replicate n [] ++ splitSep x := by
  induction n with
  | zero => simp
  | succ n ih =>
    have := splitSep_append_sep [] (List.replicate n '/' ++ x)
    simp only [List.nil_append] at this
    rw [List.replicate_succ, List.cons_append, this, ih]
    simp [splitSep, List.replicate_succ]

theorem mem_takeWhile_imp' (q : Char → Bool) (l : Str) (x : Char) (h : x ∈ l.takeWhile q) :
    q x = true := by
  induction l with
  | nil => simp at h
  | cons a t ih =>
    by_cases ha : q a = true
    · simp only [List.takeWhile, ha, List.mem_cons] at h
      rcases h with rfl | h
      · exact ha
      · exact ih h
    · simp [List.takeWhile, ha] at h

theorem dropWhile_head (q : Char → Bool) (l : Str) :
    l.dropWhile q = [] ∨ ∃ x t, l.dropWhile q = x :: t ∧ q x = false := by
  induction l with
  | nil => left; rfl
  | cons a t ih =>
    by_cases h : q a = true
    · simpa [List.dropWhile, h] using ih
    · right
      exact ⟨a, t, by simp [List.dropWhile, h], by simpa using h⟩

/-- a path string is its directory part (empty or ending with a separator) followed by its
last piece (no separator inside) -/
theorem head_tail_decomp (p : Str) :
    p = headPart p ++ tailPart p ∧ '/' ∉ tailPart p ∧
      (headPart p = [] ∨ ∃ h', headPart p = h' ++ ['/']) := by
  refine ⟨?_, ?_, ?_⟩
  · unfold headPart tailPart
    rw [← List.reverse_append, List.takeWhile_append_dropWhile, List.reverse_reverse]
  · unfold tailPart
    intro hm
    rw [List.mem_reverse] at hm
    have := mem_takeWhile_imp' _ _ _ hm
    simp at this
  · unfold headPart
    rcases dropWhile_head (· ≠ '/') p.reverse with h | ⟨x, t, h, hx⟩
    · left; rw [h]; rfl
    · right
      have hx' : x = '/' := by simpa using hx
      subst hx'
      exact ⟨t.reverse, by rw [h]; simp⟩

theorem all_sep_replicate (s : Str) (h : s.all (· = '/') = true) : s = List.replicate s.length '/' := by
  apply List.eq_replicate_iff.mpr
  refine ⟨rfl, ?_⟩
  intro b hb
  have := List.all_eq_true.mp h b hb
  simpa using this

/-- a string is its right-stripped part followed by separators only -/
theorem rstrip_decomp (s : Str) :
    ∃ n, s = rstripSep s ++ List.replicate n '/' ∧
      (rstripSep s = [] ∨ endsWithSep (rstripSep s) = false) := by
  unfold rstripSep
  refine ⟨(s.reverse.takeWhile (· = '/')).length, ?_, ?_⟩
  · have h1 : s.reverse.takeWhile (· = '/') =
        List.replicate (s.reverse.takeWhile (· = '/')).length '/' := by
      apply List.eq_replicate_iff.mpr
      refine ⟨rfl, ?_⟩
      intro b hb
      have := mem_takeWhile_imp' _ _ _ hb
      simpa using this
    have h2 := List.takeWhile_append_dropWhile (p := (· = '/')) (l := s.reverse)
    have h3 : s = (s.reverse.dropWhile (· = '/')).reverse ++ (s.reverse.takeWhile (· = '/')).reverse := by
      rw [← List.reverse_append, h2, List.reverse_reverse]
    rw [h1, List.reverse_replicate] at h3
    exact h3
  · rcases dropWhile_head (· = '/') s.reverse with h | ⟨x, t, h, hx⟩
    · left; rw [h]; rfl
    · right
      rw [h]
      have hx' : x ≠ '/' := by simpa using hx
      simp [endsWithSep, hx']

end IrVerif.Path

namespace IrVerif.Path

theorem isabs_append (a b : Str) (ha : a ≠ []) : isabs (a ++ b) = isabs a := by
  cases a with
  | nil => exact absurd rfl ha
  | cons c r => rfl

theorem Option.bind_eq_some' {α β : Type} {o : Option α} {g : α → Option β} {b : β}
    (h : o.bind g = some b) : ∃ a, o = some a ∧ g a = some b := by
  cases o with
  | none => simp at h
  | some a => exact ⟨a, rfl, h⟩

/-- the base directory `load()` assigns resolves, in the kernel, to the very directory in which the
kernel looked up the model file's name when it opened the model path -/
theorem load_base_is_model_dir (fs : FS) (f : Nat) (cwd : Loc) (p : Str) (l : Loc)
    (hn : Clean (tailPart p)) (h : kresolve fs f cwd p true = some l) :
    ∃ d, kresolve fs f cwd (loadDir p) true = some d ∧ fs.get d = some Node.dir ∧
      walk fs f d [tailPart p] true = some l := by
  obtain ⟨hp, hns, hh⟩ := head_tail_decomp p
  have hdn_def : dirname p = (if headPart p ≠ [] ∧ (headPart p).all (· = '/') = false
      then rstripSep (headPart p) else headPart p) := rfl
  have hlb_def : loadDir p = (if dirname p = [] then DOT else dirname p) := rfl
  generalize tailPart p = name at *
  generalize headPart p = hdp at *
  have hname : splitSep name = [name] := splitSep_of_noSep _ hns
  have hpne : p ≠ [] := by
    intro e; rw [e] at hp
    have := (List.append_eq_nil_iff.mp hp.symm).2
    exact hn.1 this
  unfold kresolve at h
  simp only [hpne, if_false] at h
  rcases hh with hh | ⟨h', hh⟩
  · -- bare file name
    subst hh
    have hpe : p = name := by simpa using hp
    subst hpe
    have hab : isabs p = false := by
      have := joinSep_isabs [p] (by simpa using hn.piece)
      simpa [joinSep] using this
    have hd0 : dirname p = [] := by rw [hdn_def]; simp
    have hlb : loadDir p = DOT := by rw [hlb_def]; simp [hd0]
    rw [hname] at h
    simp only [startLoc, hab, Bool.false_eq_true, if_false] at h
    obtain ⟨hd, _⟩ := walk_cons_inv fs f cwd _ _ l h
    refine ⟨cwd, ?_, hd, h⟩
    rw [hlb]
    unfold kresolve
    have : splitSep DOT = [DOT] := by decide
    simp only [show DOT ≠ ([] : Str) by decide, if_false, startLoc,
      show isabs DOT = false by decide, Bool.false_eq_true, this]
    rw [walk_step_skip fs f cwd DOT [] true hd (Or.inr rfl), walk_nil]
  · subst hh
    have hpe : p = h' ++ '/' :: name := by simpa using hp
    have hne : h' ++ ['/'] ≠ [] := by simp
    by_cases hall : (h' ++ ['/']).all (· = '/') = true
    · -- "/", "//", ... then the file name
      have hrep := all_sep_replicate _ hall
      have hh'r : h' = List.replicate h'.length '/' := by
        have : h' ++ ['/'] = List.replicate h'.length '/' ++ ['/'] := by
          rw [← List.replicate_succ']
          simpa using hrep
        exact List.append_cancel_right this
      have hdn : dirname p = h' ++ ['/'] := by rw [hdn_def]; simp [hall]
      have hlb : loadDir p = h' ++ ['/'] := by rw [hlb_def]; simp [hdn]
      have habp : isabs p = true := by
        rw [hpe, hh'r]
        cases h'.length <;> simp [isabs, List.replicate_succ]
      have habh : isabs (h' ++ ['/']) = true := by
        rw [hh'r]
        cases h'.length <;> simp [isabs, List.replicate_succ]
      have hs' : splitSep h' = List.replicate (h'.length + 1) [] := by
        have := splitSep_replicate_append h'.length []
        rw [List.append_nil, ← hh'r] at this
        rw [this]; simp [splitSep, List.replicate_succ']
      have hsplit : splitSep p = List.replicate (h'.length + 1) [] ++ [name] := by
        rw [hpe, splitSep_append_sep, hname, hs']
      rw [hsplit] at h
      simp only [startLoc, habp, if_true] at h
      obtain ⟨d0, hw0, h⟩ := walk_append_some fs f _ _ [name] l h
      have hd0 := walk_empties_some fs f [] d0 _ hw0
      subst hd0
      refine ⟨[], ?_, fs.get_root, h⟩
      rw [hlb]
      unfold kresolve
      simp only [hne, if_false, startLoc, habh, if_true]
      have : splitSep (h' ++ ['/']) = List.replicate (h'.length + 2) [] := by
        rw [splitSep_append_sep, hs']
        simp [splitSep, List.replicate_succ']
      rw [this, walk_empties fs f [] fs.get_root]
    · have hall' : (h' ++ ['/']).all (· = '/') = false := by simpa using hall
      have hdn : dirname p = rstripSep (h' ++ ['/']) := by rw [hdn_def]; simp [hall']
      obtain ⟨n, hdec, hends⟩ := rstrip_decomp (h' ++ ['/'])
      generalize rstripSep (h' ++ ['/']) = d0 at *
      have hd0ne : d0 ≠ [] := by
        intro e
        rw [e, List.nil_append] at hdec
        rw [hdec] at hall'
        simp at hall'
      have hends' : endsWithSep d0 = false := by
        rcases hends with e | e
        · exact absurd e hd0ne
        · exact e
      have hlb : loadDir p = d0 := by rw [hlb_def]; simp [hdn, hd0ne]
      obtain ⟨j, rfl⟩ : ∃ j, n = j + 1 := by
        cases n with
        | zero =>
          rw [List.replicate_zero, List.append_nil] at hdec
          have : endsWithSep (h' ++ ['/']) = true := by simp [endsWithSep]
          rw [hdec, hends'] at this
          exact absurd this (by simp)
        | succ j => exact ⟨j, rfl⟩
      have hpe2 : p = d0 ++ '/' :: (List.replicate j '/' ++ name) := by
        rw [hp, hdec]
        simp [List.replicate_succ]
      have hsplit2 : splitSep p = splitSep d0 ++ (List.replicate j [] ++ [name]) := by
        rw [hpe2, splitSep_append_sep, splitSep_replicate_append, hname]
      have hab : isabs p = isabs d0 := by
        rw [hpe2]; exact isabs_append _ _ hd0ne
      rw [hsplit2] at h
      obtain ⟨d1, hw1, h2⟩ := walk_append_some fs f _ _ _ l h
      obtain ⟨d, hw2, h3⟩ := walk_append_some fs f _ _ [name] l h2
      have hdd := walk_empties_some fs f d1 d j hw2
      rw [hdd] at h3
      obtain ⟨hd, _⟩ := walk_cons_inv fs f d1 _ _ l h3
      refine ⟨d1, ?_, hd, h3⟩
      rw [hlb]
      unfold kresolve
      simp only [hd0ne, if_false]
      have : startLoc cwd d0 = startLoc cwd p := by unfold startLoc; rw [hab]
      rw [this]
      exact hw1

end IrVerif.Path

namespace IrVerif.Path

theorem loadDir_ne_nil (p : Str) : loadDir p ≠ [] := by
  unfold loadDir
  simp only
  split
  · simp [DOT]
  · assumption

/-- prefixing the (real) working directory does not change what the kernel resolves, from
whatever directory the resulting absolute string is resolved later -/
theorem kresolve_join_cwd (fs : FS) (f : Nat) (cwd cwd' : Loc) (hcwd : RealDir fs cwd) (s : Str)
    (hs : s ≠ []) :
    kresolve fs f cwd' (pjoin (render cwd) s) true = kresolve fs f cwd s true := by
  unfold kresolve
  simp only [pjoin_ne_nil _ _ hs, hs, if_false]
  by_cases ha : isabs s = true
  · have : pjoin (render cwd) s = s := by unfold pjoin; simp [ha]
    rw [this]
    simp [startLoc, ha]
  · have ha' : isabs s = false := by simpa using ha
    have hj : isabs (pjoin (render cwd) s) = true := by
      unfold pjoin
      simp only [ha', Bool.false_eq_true, if_false, render_ne_nil, false_or]
      split <;> simp [render, isabs]
    simp only [startLoc, hj, ha', if_true, Bool.false_eq_true, if_false]
    by_cases hc : cwd = []
    · subst hc
      have : pjoin (render []) s = '/' :: s := by
        unfold pjoin; simp [ha', render, joinSep, endsWithSep]
      have hsp := splitSep_append_sep [] s
      simp only [List.nil_append] at hsp
      rw [this, hsp]
      simp only [splitSep, List.singleton_append]
      rw [walk_step_skip fs f [] [] _ true fs.get_root (Or.inl rfl)]
    · have he := render_endsWithSep cwd (fun c h => (hcwd.1.1 c h).piece) hc
      have : pjoin (render cwd) s = render cwd ++ '/' :: s := by
        unfold pjoin; simp [ha', he, render_ne_nil]
      rw [this, splitSep_append_sep, splitSep_render cwd hcwd.1.1 hc, List.cons_append,
        walk_step_skip fs f [] [] _ true fs.get_root (Or.inl rfl)]
      have := walk_real_prefix fs f cwd [] (splitSep s) true (by simpa using hcwd)
      simpa using this

end IrVerif.Path

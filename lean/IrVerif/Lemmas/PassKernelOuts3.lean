/-
C14 (wave 5): CSE keeps the names of the graph outputs position by position.  Part 3: the walk over the graph outputs
(`cseOutputsK`) with its `replaced` dictionary, the rewrite, the pass.
-/
import IrVerif.Lemmas.PassKernelOuts2
namespace IrVerif.PassKernel
open IrVerif.Kernel IrVerif.Kernel.World

/-! ### one call at the level of the pass state -/

theorem KSt.call_of_raised (s : KSt) (op : AnyOp) (h : s.raised = true) : s.call op = s := by
  unfold KSt.call; simp [h]

theorem KSt.call_w (s : KSt) (op : AnyOp) (h : s.raised = false) : (s.call op).w = (stepAny s.w op).1 := by
  unfold KSt.call; simp [h]

theorem KSt.call_ok {s : KSt} {op : AnyOp} (h : (s.call op).raised = false) :
    s.raised = false ∧ (stepAny s.w op).2 = .ok := by
  unfold KSt.call at h
  cases hr : s.raised with
  | true => simp [hr] at h
  | false =>
    simp only [hr, Bool.false_eq_true, if_false] at h
    refine ⟨rfl, ?_⟩
    cases ho : (stepAny s.w op).2 with
    | ok => rfl
    | raised k => rw [ho] at h; simp at h

theorem KSt.call_WF (s : KSt) (op : AnyOp) (h : WF s.w) : WF (s.call op).w := by
  unfold KSt.call; split
  · exact h
  · exact stepAny_WF s.w op h

/-- a call that leaves the output list and every named value alone -/
theorem call_OK_neutral (g : Nat) (s : KSt) (op : AnyOp) (ho : OE g s.w (stepAny s.w op).1)
    (hn : NK none s.w (stepAny s.w op).1) : OK g s.w (s.call op).w ∧ OE g s.w (s.call op).w ∧ NK none s.w (s.call op).w := by
  unfold KSt.call; split
  · exact ⟨OK.refl g _, OE.refl g _, NK.refl _ _⟩
  · exact ⟨OK.of_frame ho hn (fun u hu => by simp at hu), ho, hn⟩

theorem not_out_not_mem (w : World) (hw : WF w) (g v : Nat) (h : (w.val v).isOut = false) : v ∉ (w.gr g).outputs := by
  intro hm
  have := ((C01_output_iff w hw g v).1 hm).1
  rw [h] at this; simp at this

/-- `graph.outputs[k] = x` where `x` carries the name position `k` had in `w0` -/
theorem setItem_OK_from (g : Nat) (w0 cur : World) (k x : Nat) (hok : OK g w0 cur)
    (hx : ∀ o nm, (w0.gr g).outputs[k]? = some o → (w0.val o).name = some nm → (cur.val x).name = some nm) :
    OK g w0 (stepAny cur (.one (.io g .out (.setItem (Int.ofNat k) x)))).1 := by
  have hne := ioSetItem_NK cur g .out (Int.ofNat k) x
  simp only [stepAny, step]
  rcases ioSetItem_out cur g k x with ⟨hl, _⟩ | ⟨hk, hl⟩
  · refine ⟨by rw [hl]; exact hok.1, fun i v nm hv hn => ?_⟩
    obtain ⟨v', hv', hn'⟩ := hok.2 i v nm hv hn
    exact ⟨v', by rw [hl]; exact hv', hne v' nm (by simp) hn'⟩
  · refine ⟨by rw [hl, List.length_set]; exact hok.1, fun i v nm hv hn => ?_⟩
    by_cases hik : i = k
    · subst hik
      refine ⟨x, by rw [hl]; simp [hk], hne x nm (by simp) (hx v nm hv hn)⟩
    · obtain ⟨v', hv', hn'⟩ := hok.2 i v nm hv hn
      refine ⟨v', by rw [hl, List.getElem?_set_ne (Ne.symm hik)]; exact hv', hne v' nm (by simp) hn'⟩

/-- the list after an ACCEPTED `graph.outputs[k] = x` -/
theorem setItem_list (g : Nat) (cur : World) (k x : Nat)
    (h : (stepAny cur (.one (.io g .out (.setItem (Int.ofNat k) x)))).2 = .ok) :
    k < (cur.gr g).outputs.length ∧
    ((stepAny cur (.one (.io g .out (.setItem (Int.ofNat k) x)))).1.gr g).outputs = (cur.gr g).outputs.set k x := by
  simp only [stepAny, step] at h ⊢
  rcases ioSetItem_out cur g k x with ⟨_, hno⟩ | h2
  · exact absurd h hno
  · exact h2

/-! ### the walk over the graph outputs -/

/-- invariant of the loop of `cseOutputsK` after `k` positions; `s0` = the state at the start of the loop -/
structure LInv (g : Nat) (s0 : KSt) (k : Nat) (p : KSt × List (Nat × Nat)) : Prop where
  wf : WF p.1.w
  ok : OK g s0.w p.1.w
  rest : p.1.raised = false → ∀ j, k ≤ j → (p.1.w.gr g).outputs[j]? = (s0.w.gr g).outputs[j]?
  repn : p.1.raised = false → ∀ o r, (o, r) ∈ p.2 → ∀ nm, (s0.w.val o).name = some nm → (p.1.w.val r).name = some nm
  repp : p.1.raised = false → ∀ o r, (o, r) ∈ p.2 → ∃ j, j < k ∧ (p.1.w.gr g).outputs[j]? = some r

theorem foldl_enumFrom_inv {σ : Type} (P : Nat → σ → Prop) (f : σ → Nat × Nat → σ) (L : List Nat)
    (hf : ∀ k o st, L[k]? = some o → P k st → P (k + 1) (f st (k, o))) :
    ∀ (l : List Nat) (k : Nat) (st : σ), (∀ j o, l[j]? = some o → L[k + j]? = some o) → P k st →
      P (k + l.length) ((enumFrom k l).foldl f st)
  | [], k, st, _, h => by simpa [enumFrom] using h
  | a :: l, k, st, hl, h => by
    simp only [enumFrom, List.foldl_cons, List.length_cons]
    have h1 := hf k a st (by simpa using hl 0 a (by simp)) h
    have := foldl_enumFrom_inv P f L hf l (k + 1) (f st (k, a))
      (fun j o hj => by
        have := hl (j + 1) o (by simpa using hj)
        rw [show k + 1 + j = k + (j + 1) by omega]; exact this) h1
    rw [show k + (l.length + 1) = k + 1 + l.length by omega]; exact this

/-- the body of the loop -/
def cseOutStep (g n : Nat) (rvs nvs : List Nat) (p : KSt × List (Nat × Nat)) (io : Nat × Nat) : KSt × List (Nat × Nat) :=
  if p.1.raised then p
  else
    match p.2.find? (fun q => q.1 = io.2) with
    | some q => (p.1.call (.one (.io g .out (.setItem (Int.ofNat io.1) q.2))), p.2)
    | none =>
      match (rvs.zip nvs).reverse.find? (fun q => q.1 = io.2) with
      | none => p
      | some q =>
        if (p.1.w.val q.2).isOut || (p.1.w.val q.2).isIn then
          let v := p.1.w.vals.length
          let m := p.1.w.nodes.length
          let s1 := p.1.call (.one (.newValue (p.1.w.val io.2).name))
          let s2 := s1.call (.one (.newNode "Identity" none [some q.2] none (some [v]) none))
          let s3 := s2.call (.one (.io g .out (.setItem (Int.ofNat io.1) v)))
          (s3.call (.one (.insertBefore g n [m])), (io.2, v) :: p.2)
        else
          let s1 := p.1.call (.one (.setName q.2 (p.1.w.val io.2).name))
          (s1.call (.one (.io g .out (.setItem (Int.ofNat io.1) q.2))), (io.2, q.2) :: p.2)

theorem cseOutputsK_eq (s : KSt) (g n : Nat) (rvs nvs : List Nat) :
    cseOutputsK s g n rvs nvs = ((enumFrom 0 (s.w.gr g).outputs).foldl (cseOutStep g n rvs nvs) (s, [])).1 := rfl


theorem LInv_neutral {g : Nat} {s0 : KSt} {k : Nat} {st : KSt} {rep : List (Nat × Nat)} (h : LInv g s0 k (st, rep))
    (op : AnyOp) (ho : OE g st.w (stepAny st.w op).1) (hn : NK none st.w (stepAny st.w op).1) :
    LInv g s0 k (st.call op, rep) := by
  obtain ⟨hok, hoe, hnk⟩ := call_OK_neutral g st op ho hn
  refine ⟨KSt.call_WF st op h.wf, h.ok.trans hok, fun hr j hj => ?_, fun hr o r hm nm hnm => ?_, fun hr o r hm => ?_⟩
  · have hr0 := (KSt.call_ok hr).1
    show ((st.call op).w.gr g).outputs[j]? = _
    rw [hoe]; exact h.rest hr0 j hj
  · have hr0 := (KSt.call_ok hr).1
    exact hnk r nm (by simp) (h.repn hr0 o r hm nm hnm)
  · have hr0 := (KSt.call_ok hr).1
    obtain ⟨j, hj, hjr⟩ := h.repp hr0 o r hm
    exact ⟨j, hj, by show ((st.call op).w.gr g).outputs[j]? = _; rw [hoe]; exact hjr⟩

theorem LInv_setName {g : Nat} {s0 : KSt} {k : Nat} {st : KSt} {rep : List (Nat × Nat)} (h : LInv g s0 k (st, rep))
    (nv : Nat) (t : Option String) (hnv : (st.w.val nv).isOut = false) :
    LInv g s0 k (st.call (.one (.setName nv t)), rep) := by
  have hnot := not_out_not_mem st.w h.wf g nv hnv
  have hoe0 : OE g st.w (stepAny st.w (.one (.setName nv t))).1 := setName_OE g st.w nv t
  have hnk0 : NK (some nv) st.w (stepAny st.w (.one (.setName nv t))).1 := setName_NK st.w nv t
  have hoe : OE g st.w (st.call (.one (.setName nv t))).w := by
    unfold KSt.call; split
    · exact OE.refl g _
    · exact hoe0
  have hnk : NK (some nv) st.w (st.call (.one (.setName nv t))).w := by
    unfold KSt.call; split
    · exact NK.refl _ _
    · exact hnk0
  refine ⟨KSt.call_WF st _ h.wf, h.ok.trans (OK.of_frame hoe hnk (fun u hu => by cases hu; exact hnot)),
    fun hr j hj => ?_, fun hr o r hm nm hnm => ?_, fun hr o r hm => ?_⟩
  · have hr0 := (KSt.call_ok hr).1
    show ((st.call _).w.gr g).outputs[j]? = _
    rw [hoe]; exact h.rest hr0 j hj
  · have hr0 := (KSt.call_ok hr).1
    obtain ⟨j, _, hjr⟩ := h.repp hr0 o r hm
    have hrm : r ∈ (st.w.gr g).outputs := List.mem_of_getElem? hjr
    refine hnk r nm (fun he => ?_) (h.repn hr0 o r hm nm hnm)
    cases he; exact hnot hrm
  · have hr0 := (KSt.call_ok hr).1
    obtain ⟨j, hj, hjr⟩ := h.repp hr0 o r hm
    exact ⟨j, hj, by show ((st.call _).w.gr g).outputs[j]? = _; rw [hoe]; exact hjr⟩

theorem LInv_setItem {g : Nat} {s0 : KSt} {k o : Nat} {st : KSt} {rep : List (Nat × Nat)} (rep' : List (Nat × Nat)) (x : Nat)
    (hko : (s0.w.gr g).outputs[k]? = some o) (h : LInv g s0 k (st, rep))
    (hx : st.raised = false → ∀ nm, (s0.w.val o).name = some nm → (st.w.val x).name = some nm)
    (hrepn : st.raised = false → ∀ o' r, (o', r) ∈ rep' → ∀ nm, (s0.w.val o').name = some nm → (st.w.val r).name = some nm)
    (hrepp : st.raised = false → ∀ o' r, (o', r) ∈ rep' → (∃ j, j < k ∧ (st.w.gr g).outputs[j]? = some r) ∨ r = x) :
    LInv g s0 (k + 1) (st.call (.one (.io g .out (.setItem (Int.ofNat k) x))), rep') := by
  have hnk0 := ioSetItem_NK st.w g .out (Int.ofNat k) x
  refine ⟨KSt.call_WF st _ h.wf, ?_, fun hr j hj => ?_, fun hr o' r hm nm hnm => ?_, fun hr o' r hm => ?_⟩
  · cases hr : st.raised with
    | true => rw [KSt.call_of_raised st _ hr]; exact h.ok
    | false =>
      show OK g s0.w (st.call _).w
      rw [KSt.call_w st _ hr]
      refine setItem_OK_from g s0.w st.w k x h.ok (fun o' nm ho' hn' => ?_)
      rw [hko] at ho'; cases ho'
      exact hx hr nm hn'
  · obtain ⟨hr0, hok⟩ := KSt.call_ok hr
    obtain ⟨_, hl⟩ := setItem_list g st.w k x hok
    show ((st.call _).w.gr g).outputs[j]? = _
    rw [KSt.call_w st _ hr0, hl, List.getElem?_set_ne (by omega)]
    exact h.rest hr0 j (by omega)
  · obtain ⟨hr0, _⟩ := KSt.call_ok hr
    show ((st.call _).w.val r).name = some nm
    rw [KSt.call_w st _ hr0]
    exact hnk0 r nm (by simp) (hrepn hr0 o' r hm nm hnm)
  · obtain ⟨hr0, hok⟩ := KSt.call_ok hr
    obtain ⟨hk, hl⟩ := setItem_list g st.w k x hok
    rcases hrepp hr0 o' r hm with ⟨j, hj, hjr⟩ | rfl
    · refine ⟨j, by omega, ?_⟩
      show ((st.call _).w.gr g).outputs[j]? = _
      rw [KSt.call_w st _ hr0, hl, List.getElem?_set_ne (by omega)]; exact hjr
    · refine ⟨k, by omega, ?_⟩
      show ((st.call _).w.gr g).outputs[k]? = _
      rw [KSt.call_w st _ hr0, hl]; simp [hk]


theorem LInv_weaken {g : Nat} {s0 : KSt} {k : Nat} {p : KSt × List (Nat × Nat)} (h : LInv g s0 k p) : LInv g s0 (k + 1) p :=
  ⟨h.wf, h.ok, fun hr j hj => h.rest hr j (by omega), h.repn, fun hr o r hm => by
    obtain ⟨j, hj, hjr⟩ := h.repp hr o r hm
    exact ⟨j, by omega, hjr⟩⟩

theorem cseOutStep_inv (g n : Nat) (rvs nvs : List Nat) (s0 : KSt) (k o : Nat) (p : KSt × List (Nat × Nat))
    (hko : (s0.w.gr g).outputs[k]? = some o) (h : LInv g s0 k p) :
    LInv g s0 (k + 1) (cseOutStep g n rvs nvs p (k, o)) := by
  unfold cseOutStep
  by_cases hr : p.1.raised = true
  · simp only [hr, if_true]
    exact LInv_weaken h
  · have hr' : p.1.raised = false := by simpa using hr
    simp only [hr', Bool.false_eq_true, if_false]
    have hcur : (p.1.w.gr g).outputs[k]? = some o := by rw [h.rest hr' k (Nat.le_refl k)]; exact hko
    have hname : ∀ nm, (s0.w.val o).name = some nm → (p.1.w.val o).name = some nm := by
      intro nm hn
      obtain ⟨v', hv', hn'⟩ := h.ok.2 k o nm hko hn
      rw [hcur] at hv'; cases hv'; exact hn'
    have h0 : LInv g s0 k (p.1, p.2) := h
    split
    · -- the output was replaced before: `graph.outputs[idx] = replaced[graph_output]`
      rename_i q hq
      have hqm : q ∈ p.2 := List.mem_of_find?_eq_some hq
      have hq1 : q.1 = o := by simpa using List.find?_some hq
      refine LInv_setItem p.2 q.2 hko h0 (fun hr0 nm hn => ?_) (fun hr0 => h.repn hr0)
        (fun hr0 o' r hm => Or.inl (h.repp hr0 o' r hm))
      exact h.repn hr0 o q.2 (by rw [← hq1]; exact hqm) nm hn
    · split
      · exact LInv_weaken h
      · rename_i q _
        split
        · -- a new Identity node in front of the removed node
          have h1 := LInv_neutral h0 (.one (.newValue (p.1.w.val o).name)) (newValue_OE g _ _) (newValue_NK _ _)
          have h2 := LInv_neutral h1 (.one (.newNode "Identity" none [some q.2] none (some [p.1.w.vals.length]) none))
            (newNode_OE g _ _ _ _ _ _) (newNode_NK _ _ _ _ _ _)
          have hx : ((p.1.call (.one (.newValue (p.1.w.val o).name))).call
              (.one (.newNode "Identity" none [some q.2] none (some [p.1.w.vals.length]) none))).raised = false →
              ∀ nm, (s0.w.val o).name = some nm →
              (((p.1.call (.one (.newValue (p.1.w.val o).name))).call
                (.one (.newNode "Identity" none [some q.2] none (some [p.1.w.vals.length]) none))).w.val
                  p.1.w.vals.length).name = some nm := by
            intro hr2 nm hn
            obtain ⟨hr1, _⟩ := KSt.call_ok hr2
            rw [KSt.call_w _ _ hr1]
            refine newNode_NK _ _ _ _ _ _ _ nm (by simp) ?_
            rw [KSt.call_w _ _ hr']
            show ((newValue p.1.w (p.1.w.val o).name).1.val p.1.w.vals.length).name = some nm
            rw [newValue_name]; exact hname nm hn
          have h3 := LInv_setItem ((o, p.1.w.vals.length) :: p.2) p.1.w.vals.length hko h2 hx
            (fun hr2 o' r hm nm hn => by
              rcases List.mem_cons.1 hm with he | hm
              · cases he; exact hx hr2 nm hn
              · exact h2.repn hr2 o' r hm nm hn)
            (fun hr2 o' r hm => by
              rcases List.mem_cons.1 hm with he | hm
              · cases he; exact Or.inr rfl
              · exact Or.inl (h2.repp hr2 o' r hm))
          exact LInv_neutral h3 (.one (.insertBefore g n [p.1.w.nodes.length])) (graphInsertBefore_OE g _ _ _ _)
            (graphInsertBefore_NK _ _ _ _)
        · -- the kept value takes over the name and the position
          rename_i hflags
          have hout : (p.1.w.val q.2).isOut = false := by
            simp only [Bool.or_eq_true, not_or, Bool.not_eq_true] at hflags; exact hflags.1
          have h1 := LInv_setName h0 q.2 (p.1.w.val o).name hout
          have hx : (p.1.call (.one (.setName q.2 (p.1.w.val o).name))).raised = false →
              ∀ nm, (s0.w.val o).name = some nm →
              ((p.1.call (.one (.setName q.2 (p.1.w.val o).name))).w.val q.2).name = some nm := by
            intro hr1 nm hn
            obtain ⟨_, hok⟩ := KSt.call_ok hr1
            rw [KSt.call_w _ _ hr']
            show ((setName p.1.w q.2 (p.1.w.val o).name).1.val q.2).name = some nm
            rw [setName_name _ _ _ hok]; exact hname nm hn
          exact LInv_setItem ((o, q.2) :: p.2) q.2 hko h1 hx
            (fun hr1 o' r hm nm hn => by
              rcases List.mem_cons.1 hm with he | hm
              · cases he; exact hx hr1 nm hn
              · exact h1.repn hr1 o' r hm nm hn)
            (fun hr1 o' r hm => by
              rcases List.mem_cons.1 hm with he | hm
              · cases he; exact Or.inr rfl
              · exact Or.inl (h1.repp hr1 o' r hm))

/-- the walk over the graph outputs keeps their names position by position (and C01's invariant) -/
theorem cseOutputsK_OK (s : KSt) (g n : Nat) (rvs nvs : List Nat) (hw : WF s.w) :
    OK g s.w (cseOutputsK s g n rvs nvs).w := by
  rw [cseOutputsK_eq]
  have hinit : LInv g s 0 (s, []) :=
    ⟨hw, OK.refl g _, fun _ _ _ => rfl, fun _ _ _ hm => by simp at hm, fun _ _ _ hm => by simp at hm⟩
  have := foldl_enumFrom_inv (fun k p => LInv g s k p) (cseOutStep g n rvs nvs) (s.w.gr g).outputs
    (fun k o st hko h => cseOutStep_inv g n rvs nvs s k o st hko h) (s.w.gr g).outputs 0 (s, [])
    (fun j o hj => by simpa using hj) hinit
  exact this.ok

theorem cseReplaceK_OK (exact : Bool) (s : KSt) (g n : Nat) (rvs nvs : List Nat) (hw : WF s.w) :
    OK g s.w (cseReplaceK exact s g n rvs nvs).w := by
  unfold cseReplaceK
  have h1 : OK g s.w (if rvs.any (fun v => (s.w.val v).isOut) then cseOutputsK s g n rvs nvs else s).w := by
    split
    · exact cseOutputsK_OK s g n rvs nvs hw
    · exact OK.refl g _
  refine (h1.trans (call_OK_neutral g _ _ ?_ ?_).1).trans (call_OK_neutral g _ _ ?_ ?_).1
  · cases exact
    · exact rauwMany_false_OE g _ _ _
    · exact rauwManyExact_false_OE g _ _ _
  · cases exact
    · exact rauwMany_NK _ _ _ _
    · exact rauwManyExact_NK _ _ _ _
  · exact graphRemove_OE g _ _ _ _
  · exact graphRemove_NK _ _ _ _

theorem cseStepK_OK (w0 : World) (exact : Bool) (akey : Nat → Option Nat) (g : Nat) (p : KSt × CseDict × Bool) (n : Nat)
    (h : KInv w0 p.1 ∧ OK g w0 p.1.w) :
    KInv w0 (cseStepK exact akey g p n).1 ∧ OK g w0 (cseStepK exact akey g p n).1.w := by
  refine ⟨cseStepK_inv w0 exact akey g p n h.1, ?_⟩
  unfold cseStepK
  split
  · exact h.2
  · split
    · exact h.2
    · split
      · exact h.2
      · dsimp only
        split
        · exact h.2.trans (cseReplaceK_OK exact p.1 g n _ _ h.1.wf)
        · exact h.2

theorem cseModelK_OK (exact : Bool) (akey : Nat → Option Nat) (w : World) (g : Nat) (hw : WF w) :
    OK g w (cseModelK exact akey w g).1.w := by
  simp only [cseModelK]
  have := foldl_inv (fun p : KSt × CseDict × Bool => KInv w p.1 ∧ OK g w p.1.w) (cseStepK exact akey g)
    (fun p n hp => cseStepK_OK w exact akey g p n hp) (w.gr g).nodes (⟨w, false, []⟩, [], false)
    ⟨⟨hw, rfl⟩, OK.refl g w⟩
  exact this.2

end IrVerif.PassKernel

/-
The quantization component of the extension state along an extended deserializer run (`Model/ScopeExt.lean`):

* `QExt n n' x x'`: the annotations of `x'` are those of `x` outside of the values `[n, n')` (what a run that
  starts at allocation counter `n` and ends at `n'` does: `Ext.annotate` is only called on the value that is
  being created);
* `QFresh n x`: no value at or beyond the allocation counter carries an annotation;
* `QT x qt T`: every value bound in the scope table `T` carries the annotation that the table `qt` of the
  graph gives to the key (`quantOf`).

Per phase (inputs, initializers, declared outputs, placeholders, graph outputs) and for the four mutually
recursive functions.  No hypothesis on the store is needed.
-/
import IrVerif.Lemmas.ScopeExtRTDefs
namespace IrVerif.Scope

/-- the annotations of `x'` are those of `x` outside of `[n, n')` -/
def QExt (n n' : Nat) (x x' : Ext) : Prop :=
  n ≤ n' ∧ (∀ d, d < n → x'.quant d = x.quant d) ∧ (∀ d, n' ≤ d → x'.quant d = x.quant d)

/-- no annotation at or beyond `n` -/
def QFresh (n : Nat) (x : Ext) : Prop := ∀ d, n ≤ d → x.quant d = none

/-- the values bound in `T` carry the annotation of their key -/
def QT (x : Ext) (qt : List (Name × SS)) (T : Table) : Prop := ∀ e ∈ T, x.quant e.2 = quantOf qt e.1

theorem QExt.refl (n : Nat) (x : Ext) : QExt n n x x := ⟨Nat.le_refl _, fun _ _ => rfl, fun _ _ => rfl⟩

theorem QExt.of_eq {n n' : Nat} {x x' : Ext} (hle : n ≤ n') (h : x'.quant = x.quant) : QExt n n' x x' :=
  ⟨hle, fun _ _ => by rw [h], fun _ _ => by rw [h]⟩

theorem QExt.trans {a b c : Nat} {x y z : Ext} (h1 : QExt a b x y) (h2 : QExt b c y z) : QExt a c x z :=
  ⟨Nat.le_trans h1.1 h2.1,
    fun d hd => by rw [h2.2.1 d (Nat.lt_of_lt_of_le hd h1.1), h1.2.1 d hd],
    fun d hd => by rw [h2.2.2 d hd, h1.2.2 d (Nat.le_trans h2.1 hd)]⟩

theorem QExt.mono_right {a b c : Nat} {x y : Ext} (h : QExt a b x y) (hle : b ≤ c) : QExt a c x y :=
  ⟨Nat.le_trans h.1 hle, h.2.1, fun d hd => h.2.2 d (Nat.le_trans hle hd)⟩

theorem QFresh.ext {n n' : Nat} {x x' : Ext} (h : QFresh n x) (e : QExt n n' x x') : QFresh n' x' :=
  fun d hd => by rw [e.2.2 d hd]; exact h d (Nat.le_trans e.1 hd)

theorem ExtFresh.qfresh {st : Store} {x : Ext} (h : ExtFresh st x) : QFresh st.nv x := fun d hd => (h d hd).2

theorem QFresh.mono {n n' : Nat} {x : Ext} (h : QFresh n x) (hle : n ≤ n') : QFresh n' x :=
  fun d hd => h d (Nat.le_trans hle hd)

theorem QT.ext {n n' : Nat} {x x' : Ext} {qt : List (Name × SS)} {T : Table} (h : QT x qt T)
    (hlt : ∀ e ∈ T, e.2 < n) (e : QExt n n' x x') : QT x' qt T :=
  fun a ha => by rw [e.2.1 _ (hlt a ha)]; exact h a ha

theorem QT.of_eq {x x' : Ext} {qt : List (Name × SS)} {T : Table} (h : QT x qt T)
    (hq : ∀ e ∈ T, x'.quant e.2 = x.quant e.2) : QT x' qt T :=
  fun a ha => by rw [hq a ha]; exact h a ha

/-! ### the primitive updates -/

theorem Ext.qmerge_quant (x : Ext) (v : Nat) (es : SS) : (x.merge v es).quant = x.quant := by
  unfold Ext.merge
  split <;> rfl

theorem Ext.setDevs_quant (x : Ext) (n : Nat) (d : List DevR) : (x.setDevs n d).quant = x.quant := rfl

theorem Ext.qannotate_quant_ne (x : Ext) (qt : List (Name × SS)) (v : Nat) (n : Name) (d : Nat) (h : d ≠ v) :
    (x.annotate qt v n).quant d = x.quant d := by
  unfold Ext.annotate
  split
  · rfl
  · simp only [Ext.setQuant, h, if_false]

theorem Ext.qannotate_quant_self (x : Ext) (qt : List (Name × SS)) (v : Nat) (n : Name) (h : x.quant v = none) :
    (x.annotate qt v n).quant v = quantOf qt n := by
  cases hl : qt.lookup n with
  | none => simp only [Ext.annotate, quantOf, hl, h]
  | some ps => simp only [Ext.annotate, quantOf, hl, Ext.setQuant, if_true]

theorem Ext.qnewNamed_quant_ne (x : Ext) (vt : List (Name × Info × SS)) (qt : List (Name × SS)) (v : Nat) (n : Name)
    (d : Nat) (h : d ≠ v) : (x.newNamed vt qt v n).quant d = x.quant d := by
  unfold Ext.newNamed
  split
  · rw [Ext.qannotate_quant_ne _ _ _ _ _ h, Ext.qmerge_quant]
  · exact Ext.qannotate_quant_ne _ _ _ _ _ h

theorem Ext.qnewNamed_quant_self (x : Ext) (vt : List (Name × Info × SS)) (qt : List (Name × SS)) (v : Nat) (n : Name)
    (h : x.quant v = none) : (x.newNamed vt qt v n).quant v = quantOf qt n := by
  unfold Ext.newNamed
  split
  · exact Ext.qannotate_quant_self _ _ _ _ (by rw [Ext.qmerge_quant]; exact h)
  · exact Ext.qannotate_quant_self _ _ _ _ h

theorem QExt.newNamed (x : Ext) (vt : List (Name × Info × SS)) (qt : List (Name × SS)) (n : Nat) (k : Name) :
    QExt n (n + 1) x (x.newNamed vt qt n k) :=
  ⟨Nat.le_succ _, fun d hd => Ext.qnewNamed_quant_ne _ _ _ _ _ _ (by omega),
    fun d hd => Ext.qnewNamed_quant_ne _ _ _ _ _ _ (by omega)⟩

/-- one creation of a named value that is entered into the table -/
theorem q_step {st st' : Store} {x : Ext} {T : Table} (vt : List (Name × Info × SS)) (qt : List (Name × SS))
    (k : Name) (hnv : st'.nv = st.nv + 1) (hf : QFresh st.nv x) (hlt : TableLt st T) (hq : QT x qt T) :
    QFresh st'.nv (x.newNamed vt qt st.nv k) ∧ TableLt st' ((k, st.nv) :: T) ∧
    QT (x.newNamed vt qt st.nv k) qt ((k, st.nv) :: T) := by
  refine ⟨?_, ?_, ?_⟩
  · rw [hnv]; exact hf.ext (QExt.newNamed x vt qt st.nv k)
  · intro e he
    simp only [List.mem_cons] at he
    rw [hnv]
    rcases he with rfl | he
    · exact Nat.lt_succ_self _
    · exact Nat.lt_succ_of_lt (hlt e he)
  · intro e he
    simp only [List.mem_cons] at he
    rcases he with rfl | he
    · exact Ext.qnewNamed_quant_self _ _ _ _ _ (hf _ (Nat.le_refl _))
    · rw [Ext.qnewNamed_quant_ne _ _ _ _ _ _ (Nat.ne_of_lt (hlt e he))]
      exact hq e he

/-! ### the phases of a graph -/

theorem deserInputsE_q (qt : List (Name × SS)) : ∀ (is : List VInfoE) (st : Store) (x : Ext),
    QExt st.nv (deserInputsE st x qt is).1.nv x (deserInputsE st x qt is).2.1 ∧
    (QFresh st.nv x → QT (deserInputsE st x qt is).2.1 qt ((is.map (·.name)).zip (deserInputsE st x qt is).2.2))
  | [], st, x => ⟨QExt.refl _ _, fun _ e he => by simp [deserInputsE] at he⟩
  | i :: is, st, x => by
    simp only [deserInputsE, alloc_snd, List.map_cons]
    have e1 : QExt st.nv (st.alloc { name := some i.name, info := i.info }).1.nv x
        ((x.merge st.nv i.mprops).annotate qt st.nv i.name) :=
      ⟨by simp, fun d hd => by rw [Ext.qannotate_quant_ne _ _ _ _ _ (by omega), Ext.qmerge_quant],
        fun d hd => by
          simp only [alloc_nv] at hd
          rw [Ext.qannotate_quant_ne _ _ _ _ _ (by omega), Ext.qmerge_quant]⟩
    obtain ⟨a, b⟩ := deserInputsE_q qt is (st.alloc { name := some i.name, info := i.info }).1
      ((x.merge st.nv i.mprops).annotate qt st.nv i.name)
    refine ⟨e1.trans a, fun hf => ?_⟩
    intro e he
    simp only [List.zip_cons_cons, List.mem_cons] at he
    rcases he with rfl | he
    · rw [a.2.1 st.nv (by simp)]
      exact Ext.qannotate_quant_self _ _ _ _ (by rw [Ext.qmerge_quant]; exact hf _ (Nat.le_refl _))
    · exact b (hf.ext e1) e he

theorem deserInitsE_q (vt : List (Name × Info × SS)) (qt : List (Name × SS)) :
    ∀ (ts : List TensorP) (st : Store) (x : Ext) (tbl : Table),
      QExt st.nv (deserInitsE st x tbl vt qt ts).1.nv x (deserInitsE st x tbl vt qt ts).2.1 ∧
      (QFresh st.nv x → TableLt st tbl → QT x qt tbl →
        QT (deserInitsE st x tbl vt qt ts).2.1 qt (deserInitsE st x tbl vt qt ts).2.2.1 ∧
        TableLt (deserInitsE st x tbl vt qt ts).1 (deserInitsE st x tbl vt qt ts).2.2.1)
  | [], st, x, tbl => ⟨QExt.refl _ _, fun _ hlt hq => ⟨hq, hlt⟩⟩
  | t :: ts, st, x, tbl => by
    simp only [deserInitsE]
    by_cases hn : t.name = ""
    · simp only [hn, if_true]
      exact deserInitsE_q vt qt ts st x tbl
    · simp only [hn, if_false]
      cases hl : tbl.lookup t.name with
      | some v =>
        simp only
        exact deserInitsE_q vt qt ts
          ((st.allocTensor { name := some t.name, data := t.data, ty := t.ty, sh := t.sh }).1.modify v
            fun c => { c with const := some st.nt }) x tbl
      | none =>
        simp only
        obtain ⟨_, hnv⟩ := newInit_quiet (st.allocTensor { name := some t.name, data := t.data, ty := t.ty, sh := t.sh }).1
          (eraseVT vt) t st.nt
        have hnv' : (newInit (st.allocTensor { name := some t.name, data := t.data, ty := t.ty, sh := t.sh }).1
          (eraseVT vt) t st.nt).nv = st.nv + 1 := hnv
        obtain ⟨a, b⟩ := deserInitsE_q vt qt ts
          (newInit (st.allocTensor { name := some t.name, data := t.data, ty := t.ty, sh := t.sh }).1 (eraseVT vt) t st.nt)
          (x.newNamed vt qt st.nv t.name) ((t.name, st.nv) :: tbl)
        rw [hnv'] at a
        refine ⟨(QExt.newNamed x vt qt st.nv t.name).trans a, fun hf hlt hq => ?_⟩
        obtain ⟨s1, s2, s3⟩ := q_step (st' := newInit (st.allocTensor { name := some t.name, data := t.data, ty := t.ty, sh := t.sh }).1
          (eraseVT vt) t st.nt) vt qt t.name hnv' hf hlt hq
        exact b s1 s2 s3

theorem declareOutputsE_q (vt : List (Name × Info × SS)) (qt : List (Name × SS)) :
    ∀ (ns : List Name) (st : Store) (x : Ext) (tbl : Table) (st' : Store) (x' : Ext) (tbl' : Table),
      declareOutputsE st x tbl vt qt ns = .ok (st', x', tbl') →
      QExt st.nv st'.nv x x' ∧ (QFresh st.nv x → TableLt st tbl → QT x qt tbl → QT x' qt tbl' ∧ TableLt st' tbl')
  | [], st, x, tbl, st', x', tbl', h => by
    simp only [declareOutputsE, Except.ok.injEq, Prod.mk.injEq] at h
    obtain ⟨rfl, rfl, rfl⟩ := h
    exact ⟨QExt.refl _ _, fun _ hlt hq => ⟨hq, hlt⟩⟩
  | n :: ns, st, x, tbl, st', x', tbl', h => by
    simp only [declareOutputsE] at h
    by_cases hn : n = ""
    · simp only [hn, if_true] at h
      exact declareOutputsE_q vt qt ns st x tbl st' x' tbl' h
    · simp only [hn, if_false] at h
      cases hl : tbl.lookup n with
      | some v => simp [hl] at h
      | none =>
        simp only [hl] at h
        obtain ⟨_, hnv⟩ := newNamed_quiet st (eraseVT vt) n
        obtain ⟨a, b⟩ := declareOutputsE_q vt qt ns _ _ _ st' x' tbl' h
        rw [hnv] at a
        refine ⟨(QExt.newNamed x vt qt st.nv n).trans a, fun hf hlt hq => ?_⟩
        obtain ⟨s1, s2, s3⟩ := q_step (st' := newNamed st (eraseVT vt) n) vt qt n hnv hf hlt hq
        exact b s1 s2 s3

theorem declareNodesE_q (vt : List (Name × Info × SS)) (qt : List (Name × SS)) :
    ∀ (ns : List NodeE) (st : Store) (x : Ext) (tbl : Table) (st' : Store) (x' : Ext) (tbl' : Table),
      declareNodesE st x tbl vt qt ns = .ok (st', x', tbl') →
      QExt st.nv st'.nv x x' ∧ (QFresh st.nv x → TableLt st tbl → QT x qt tbl → QT x' qt tbl' ∧ TableLt st' tbl')
  | [], st, x, tbl, st', x', tbl', h => by
    simp only [declareNodesE, Except.ok.injEq, Prod.mk.injEq] at h
    obtain ⟨rfl, rfl, rfl⟩ := h
    exact ⟨QExt.refl _ _, fun _ hlt hq => ⟨hq, hlt⟩⟩
  | n :: ns, st, x, tbl, st', x', tbl', h => by
    simp only [declareNodesE] at h
    split at h
    · simp at h
    · rename_i st1 x1 tbl1 h1
      obtain ⟨a1, b1⟩ := declareOutputsE_q vt qt _ _ _ _ _ _ _ h1
      obtain ⟨a2, b2⟩ := declareNodesE_q vt qt ns st1 x1 tbl1 st' x' tbl' h
      refine ⟨a1.trans a2, fun hf hlt hq => ?_⟩
      obtain ⟨c1, c2⟩ := b1 hf hlt hq
      exact b2 (hf.ext a1) c2 c1

theorem resolveInputsE_q (outer : List Table) (vt : List (Name × Info × SS)) (qt : List (Name × SS)) :
    ∀ (ns : List Name) (st : Store) (x : Ext) (top : Table),
      QExt st.nv (resolveInputsE st x top outer vt qt ns).1.nv x (resolveInputsE st x top outer vt qt ns).2.1 ∧
      (QFresh st.nv x → TableLt st top → QT x qt top →
        QT (resolveInputsE st x top outer vt qt ns).2.1 qt (resolveInputsE st x top outer vt qt ns).2.2.1 ∧
        TableLt (resolveInputsE st x top outer vt qt ns).1 (resolveInputsE st x top outer vt qt ns).2.2.1)
  | [], st, x, top => ⟨QExt.refl _ _, fun _ hlt hq => ⟨hq, hlt⟩⟩
  | n :: ns, st, x, top => by
    simp only [resolveInputsE]
    by_cases hn : n = ""
    · simp only [hn, if_true]
      exact resolveInputsE_q outer vt qt ns st x top
    · simp only [hn, if_false]
      cases hl : resolve n (top :: outer) with
      | some v =>
        simp only
        exact resolveInputsE_q outer vt qt ns st x top
      | none =>
        simp only
        obtain ⟨_, hnv⟩ := newNamed_quiet st (eraseVT vt) n
        obtain ⟨a, b⟩ := resolveInputsE_q outer vt qt ns (newNamed st (eraseVT vt) n)
          (x.newNamed vt qt st.nv n) ((n, st.nv) :: top)
        rw [hnv] at a
        refine ⟨(QExt.newNamed x vt qt st.nv n).trans a, fun hf hlt hq => ?_⟩
        obtain ⟨s1, s2, s3⟩ := q_step (st' := newNamed st (eraseVT vt) n) vt qt n hnv hf hlt hq
        exact b s1 s2 s3

/-- graph outputs only merge metadata -/
theorem deserOutputsE_q (tbl : Table) : ∀ (os : List VInfoE) (st : Store) (x : Ext),
    st.nv ≤ (deserOutputsE st x tbl os).1.nv ∧ (deserOutputsE st x tbl os).2.1.quant = x.quant
  | [], st, x => ⟨Nat.le_refl _, rfl⟩
  | o :: os, st, x => by
    simp only [deserOutputsE]
    cases hl : tbl.lookup o.name with
    | some v =>
      simp only
      obtain ⟨a, b⟩ := deserOutputsE_q tbl os (st.modify v fun c => { c with info := o.info }) (x.merge v o.mprops)
      exact ⟨a, by rw [b, Ext.qmerge_quant]⟩
    | none =>
      simp only
      obtain ⟨a, b⟩ := deserOutputsE_q tbl os (st.alloc { name := some o.name, info := o.info }).1
        (x.merge (st.alloc { name := some o.name, info := o.info }).2 o.mprops)
      refine ⟨?_, by rw [b, Ext.qmerge_quant]⟩
      simp only [alloc_nv] at a
      omega

/-! ### the four mutually recursive functions -/

mutual
theorem deserGraphE_qext :
    ∀ (p : GraphE) (st : Store) (x : Ext) (outer : List Table) (st' : Store) (x' : Ext) (g : GraphT),
      deserGraphE st x outer p = .ok (st', x', g) → QExt st.nv st'.nv x x'
  | .mk inputs inits vinfo nodes outputs quant, st, x, outer, st', x', g, h => by
    simp only [deserGraphE] at h
    have a1 := (deserInputsE_q (quantTable quant) inputs st x).1
    generalize deserInputsE st x (quantTable quant) inputs = rI at h a1
    obtain ⟨st1, x1, ins⟩ := rI
    simp only at h a1
    have a2 := (deserInitsE_q (vinfoTableE vinfo) (quantTable quant) inits st1 x1
      (inputTable (inputs.map VInfoE.erase) ins)).1
    generalize deserInitsE st1 x1 (inputTable (inputs.map VInfoE.erase) ins) (vinfoTableE vinfo) (quantTable quant)
      inits = rA at h a2
    obtain ⟨st2, x2, tbl2, initVals⟩ := rA
    simp only at h a2
    split at h
    · simp at h
    · rename_i st3 x3 tbl3 h3
      have a3 := (declareNodesE_q _ _ _ _ _ _ _ _ _ h3).1
      split at h
      · simp at h
      · rename_i st4 x4 tbl4 ns h4
        have a4 := deserNodesE_qext nodes st3 x3 tbl3 outer _ _ st4 x4 tbl4 ns h4
        obtain ⟨a5, b5⟩ := deserOutputsE_q tbl4 outputs st4 x4
        generalize deserOutputsE st4 x4 tbl4 outputs = rO at h a5 b5
        obtain ⟨st5, x5, outs⟩ := rO
        simp only [Except.ok.injEq, Prod.mk.injEq] at h a5 b5
        obtain ⟨rfl, rfl, _⟩ := h
        rw [(mkGraph_fst_counters st5 ins outs ns initVals).1]
        exact (((a1.trans a2).trans a3).trans a4).trans (QExt.of_eq a5 b5)
theorem deserNodesE_qext :
    ∀ (ns : List NodeE) (st : Store) (x : Ext) (top : Table) (outer : List Table) (vt : List (Name × Info × SS))
      (qt : List (Name × SS)) (st' : Store) (x' : Ext) (top' : Table) (nts : List NodeT),
      deserNodesE st x top outer vt qt ns = .ok (st', x', top', nts) → QExt st.nv st'.nv x x'
  | [], st, x, top, outer, vt, qt, st', x', top', nts, h => by
    simp only [deserNodesE, Except.ok.injEq, Prod.mk.injEq] at h
    obtain ⟨rfl, rfl, _⟩ := h
    exact QExt.refl _ _
  | n :: ns, st, x, top, outer, vt, qt, st', x', top', nts, h => by
    simp only [deserNodesE] at h
    split at h
    · simp at h
    · rename_i st1 x1 top1 nt h1
      split at h
      · simp at h
      · rename_i st2 x2 top2 nts' h2
        simp only [Except.ok.injEq, Prod.mk.injEq] at h
        obtain ⟨rfl, rfl, _⟩ := h
        exact (deserNodeE_qext n st x top outer vt qt st1 x1 top1 nt h1).trans
          (deserNodesE_qext ns st1 x1 top1 outer vt qt st2 x2 top2 nts' h2)
theorem deserNodeE_qext :
    ∀ (n : NodeE) (st : Store) (x : Ext) (top : Table) (outer : List Table) (vt : List (Name × Info × SS))
      (qt : List (Name × SS)) (st' : Store) (x' : Ext) (top' : Table) (nt : NodeT),
      deserNodeE st x top outer vt qt n = .ok (st', x', top', nt) → QExt st.nv st'.nv x x'
  | .mk inputs outputs devs subs, st, x, top, outer, vt, qt, st', x', top', nt, h => by
    simp only [deserNodeE] at h
    have a1 := (resolveInputsE_q outer vt qt inputs st x top).1
    generalize resolveInputsE st x top outer vt qt inputs = rR at h a1
    obtain ⟨st1, x1, top1, ins⟩ := rR
    simp only at h a1
    split at h
    · simp at h
    · rename_i st2 outs h2
      obtain ⟨q2, _⟩ := lookupOutputs_spec _ outputs _ _ _ h2
      split at h
      · simp at h
      · rename_i st3 x3 gs h3
        simp only [Except.ok.injEq, Prod.mk.injEq] at h
        obtain ⟨rfl, rfl, _⟩ := h
        have a3 := deserSubsE_qext subs st2 x1 (top1 :: outer) st3 x3 gs h3
        rw [mkNode_fst_nv]
        refine (a1.mono_right q2.nv_le).trans ?_
        exact ⟨a3.1, fun d hd => by rw [Ext.setDevs_quant]; exact a3.2.1 d hd,
          fun d hd => by rw [Ext.setDevs_quant]; exact a3.2.2 d hd⟩
theorem deserSubsE_qext :
    ∀ (gs : List GraphE) (st : Store) (x : Ext) (scopes : List Table) (st' : Store) (x' : Ext) (gts : List GraphT),
      deserSubsE st x scopes gs = .ok (st', x', gts) → QExt st.nv st'.nv x x'
  | [], st, x, scopes, st', x', gts, h => by
    simp only [deserSubsE, Except.ok.injEq, Prod.mk.injEq] at h
    obtain ⟨rfl, rfl, _⟩ := h
    exact QExt.refl _ _
  | g :: gs, st, x, scopes, st', x', gts, h => by
    simp only [deserSubsE] at h
    split at h
    · simp at h
    · rename_i st1 x1 gt h1
      split at h
      · simp at h
      · rename_i st2 x2 gts' h2
        simp only [Except.ok.injEq, Prod.mk.injEq] at h
        obtain ⟨rfl, rfl, _⟩ := h
        exact (deserGraphE_qext g st x scopes st1 x1 gt h1).trans (deserSubsE_qext gs st1 x1 scopes st2 x2 gts' h2)
end

/-! ### the table of a graph along its nodes -/

theorem deserNodeE_qt :
    ∀ (n : NodeE) (st : Store) (x : Ext) (top : Table) (outer : List Table) (vt : List (Name × Info × SS))
      (qt : List (Name × SS)) (st' : Store) (x' : Ext) (top' : Table) (nt : NodeT),
      QFresh st.nv x → TableLt st top → QT x qt top →
      deserNodeE st x top outer vt qt n = .ok (st', x', top', nt) → QT x' qt top' ∧ TableLt st' top'
  | .mk inputs outputs devs subs, st, x, top, outer, vt, qt, st', x', top', nt, hf, hlt, hq, h => by
    simp only [deserNodeE] at h
    obtain ⟨a1, b1⟩ := resolveInputsE_q outer vt qt inputs st x top
    have c1 := b1 hf hlt hq
    generalize resolveInputsE st x top outer vt qt inputs = rR at h a1 c1
    obtain ⟨st1, x1, top1, ins⟩ := rR
    simp only at h a1 c1
    split at h
    · simp at h
    · rename_i st2 outs h2
      obtain ⟨q2, _⟩ := lookupOutputs_spec _ outputs _ _ _ h2
      split at h
      · simp at h
      · rename_i st3 x3 gs h3
        simp only [Except.ok.injEq, Prod.mk.injEq] at h
        obtain ⟨rfl, rfl, rfl, _⟩ := h
        have a3 := deserSubsE_qext subs st2 x1 (top1 :: outer) st3 x3 gs h3
        have hlt2 : ∀ e ∈ top1, e.2 < st2.nv := fun e he => Nat.lt_of_lt_of_le (c1.2 e he) q2.nv_le
        refine ⟨(c1.1.ext hlt2 a3).of_eq (fun _ _ => by rw [Ext.setDevs_quant]), fun e he => ?_⟩
        rw [mkNode_fst_nv]
        exact Nat.lt_of_lt_of_le (hlt2 e he) a3.1

theorem deserNodesE_qt :
    ∀ (ns : List NodeE) (st : Store) (x : Ext) (top : Table) (outer : List Table) (vt : List (Name × Info × SS))
      (qt : List (Name × SS)) (st' : Store) (x' : Ext) (top' : Table) (nts : List NodeT),
      QFresh st.nv x → TableLt st top → QT x qt top →
      deserNodesE st x top outer vt qt ns = .ok (st', x', top', nts) → QT x' qt top' ∧ TableLt st' top'
  | [], st, x, top, outer, vt, qt, st', x', top', nts, _, hlt, hq, h => by
    simp only [deserNodesE, Except.ok.injEq, Prod.mk.injEq] at h
    obtain ⟨rfl, rfl, rfl, _⟩ := h
    exact ⟨hq, hlt⟩
  | n :: ns, st, x, top, outer, vt, qt, st', x', top', nts, hf, hlt, hq, h => by
    simp only [deserNodesE] at h
    split at h
    · simp at h
    · rename_i st1 x1 top1 nt h1
      split at h
      · simp at h
      · rename_i st2 x2 top2 nts' h2
        simp only [Except.ok.injEq, Prod.mk.injEq] at h
        obtain ⟨rfl, rfl, rfl, _⟩ := h
        obtain ⟨c1, c2⟩ := deserNodeE_qt n st x top outer vt qt st1 x1 top1 nt hf hlt hq h1
        exact deserNodesE_qt ns st1 x1 top1 outer vt qt st2 x2 top2 nts'
          (hf.ext (deserNodeE_qext n st x top outer vt qt st1 x1 top1 nt h1)) c2 c1 h2

end IrVerif.Scope

/-
Functions: certificate, round trip and idempotence for `deserFunction` / `serFunction`, on top of the
development for graphs (a function is a graph without initializers and without enclosing scopes; its
outputs must be bound in its scope).
-/
import IrVerif.Model.ScopeFunc
import IrVerif.Lemmas.ScopeReplDeser
namespace IrVerif.Scope

/-! ### the function inputs -/

theorem deserFInputs_spec (vi : List (Name × Info)) : ∀ (xs : List Name) (st : Store),
    (deserFInputs st vi xs).2 = List.range' st.nv xs.length ∧
    (deserFInputs st vi xs).1.nv = st.nv + xs.length ∧
    (Fresh st → Fresh (deserFInputs st vi xs).1) ∧
    Prim st.nv st (deserFInputs st vi xs).1 ∧
    (∀ v, v < st.nv → ((deserFInputs st vi xs).1.vals v).name = (st.vals v).name) := by
  intro xs
  induction xs with
  | nil => intro st; exact ⟨rfl, rfl, fun h => h, Prim.refl _ _, fun _ _ => rfl⟩
  | cons x xs ih =>
    intro st
    obtain ⟨q, hnv⟩ := newNamed_quiet st vi x
    obtain ⟨a, b, c, d, e⟩ := ih (newNamed st vi x)
    simp only [deserFInputs, List.length_cons, List.range'_succ]
    refine ⟨by rw [a, hnv], by rw [b, hnv]; omega, fun h => c (q.fresh h), ?_, fun v hv => ?_⟩
    · exact (newNamed_prim st.nv st vi x (Nat.le_refl _)).trans (d.weaken (by omega))
    · rw [e v (by omega), q.names v hv]

theorem finputTable_eq (V : Nat → ValueS) (ins ds : List Nat) :
    finputTable (ins.map (nm V)) ds = inputTable (ins.map (viOf V)) ds := by
  have : (ins.map (viOf V)).map (·.name) = ins.map (nm V) := by
    rw [List.map_map]; rfl
  simp only [finputTable, inputTable, this]

theorem rt2_finputs (V : Nat → ValueS) (vi : List (Name × Info)) :
    ∀ (ins : List Nat) (s : Store) (A : Assoc), RS V s A → ins.Nodup → (∀ v ∈ ins, v ∉ A.map (·.1)) →
      (∀ v ∈ ins, (V v).name ≠ none) →
      RS V (deserFInputs s vi (ins.map (nm V))).1 (A ++ ins.zip (List.range' s.nv ins.length)) ∧
      ∀ v ∈ ins, ((deserFInputs s vi (ins.map (nm V))).1.vals
        (sig (A ++ ins.zip (List.range' s.nv ins.length)) v)).info = declInfo vi (nm V v) := by
  intro ins
  induction ins with
  | nil => intro s A h _ _ _; exact ⟨by simpa [deserFInputs] using h, by simp⟩
  | cons v rest ih =>
    intro s A h hnd hA hn
    simp only [List.nodup_cons] at hnd
    simp only [List.map_cons, deserFInputs, List.length_cons, List.range'_succ, List.zip_cons_cons]
    have hvA := hA v (by simp)
    obtain ⟨q, hnv⟩ := newNamed_quiet s vi (nm V v)
    have h1 : RS V (newNamed s vi (nm V v)) (A ++ [(v, s.nv)]) := by
      have h0 := h.alloc v { name := some (nm V v) } hvA (by simp [name_some_of_ne_none (hn v (by simp))])
      unfold newNamed
      split
      · refine h0.same_nv rfl (fun w => ?_)
        rw [modify_vals]
        split <;> rfl
      · exact h0
    obtain ⟨r, hi⟩ := ih (newNamed s vi (nm V v)) (A ++ [(v, s.nv)]) h1 hnd.2
      (by
        intro w hw hm
        simp only [List.map_append, List.map_cons, List.map_nil, List.mem_append, List.mem_singleton] at hm
        rcases hm with hm | rfl
        · exact hA w (by simp [hw]) hm
        · exact hnd.1 hw)
      (fun w hw => hn w (by simp [hw]))
    rw [hnv] at r hi
    have e : A ++ (v, s.nv) :: rest.zip (List.range' (s.nv + 1) rest.length) =
        (A ++ [(v, s.nv)]) ++ rest.zip (List.range' (s.nv + 1) rest.length) := by simp
    rw [e]
    refine ⟨r, fun w hw => ?_⟩
    simp only [List.mem_cons] at hw
    rcases hw with rfl | hw
    · rw [sig_append_of_mem (by simp), sig_append_single hvA]
      obtain ⟨_, _, _, pr, _⟩ := deserFInputs_spec vi (rest.map (nm V)) (newNamed s vi (nm V w))
      rw [(pr.cell s.nv (by omega)).1]
      exact newNamed_cell s vi (nm V w)
    · exact hi w hw

/-! ### the serializer of a function -/

theorem serFInputs_ok (V : Nat → ValueS) : ∀ (ins : List Nat) (ns : List Name) (vis : List VInfoP),
    serFInputs V ins = .ok (ns, vis) →
    ns = ins.map (nm V) ∧ (∀ v ∈ ins, (V v).name ≠ none) ∧
    ∀ e, e ∈ vis ↔ ∃ v ∈ ins, shouldCreate (V v) = true ∧ e = ⟨nm V v, (V v).info.emit⟩ := by
  intro ins
  induction ins with
  | nil =>
    intro ns vis h
    simp only [serFInputs, Except.ok.injEq, Prod.mk.injEq] at h
    obtain ⟨rfl, rfl⟩ := h
    exact ⟨rfl, by simp, by simp⟩
  | cons v rest ih =>
    intro ns vis h
    simp only [serFInputs] at h
    split at h
    · simp at h
    · rename_i n hn
      split at h
      · simp at h
      · rename_i ns' vis' hr
        simp only [Except.ok.injEq, Prod.mk.injEq] at h
        obtain ⟨rfl, rfl⟩ := h
        obtain ⟨a, b, c⟩ := ih ns' vis' hr
        have hnm : nm V v = n := nm_of_name hn
        refine ⟨by simp [a, hnm], fun w hw => ?_, fun e => ?_⟩
        · simp only [List.mem_cons] at hw
          rcases hw with rfl | hw
          · rw [hn]; simp
          · exact b w hw
        · by_cases hsc : shouldCreate (V v) = true
          · simp only [hsc, if_true, List.mem_cons, c e]
            constructor
            · rintro (rfl | ⟨u, hu, h1, h2⟩)
              · exact ⟨v, .inl rfl, hsc, by rw [hnm]⟩
              · exact ⟨u, .inr hu, h1, h2⟩
            · rintro ⟨u, hu, h1, h2⟩
              rcases hu with rfl | hu
              · left; rw [h2, hnm]
              · exact .inr ⟨u, hu, h1, h2⟩
          · have hf : shouldCreate (V v) = false := by simpa using hsc
            simp only [hf, Bool.false_eq_true, if_false, c e]
            constructor
            · rintro ⟨u, hu, h1, h2⟩
              exact ⟨u, List.mem_cons_of_mem _ hu, h1, h2⟩
            · rintro ⟨u, hu, h1, h2⟩
              rcases List.mem_cons.mp hu with rfl | hu
              · rw [hf] at h1; cases h1
              · exact ⟨u, hu, h1, h2⟩

theorem serFInputs_of_names (V : Nat → ValueS) : ∀ (ins : List Nat), (∀ v ∈ ins, (V v).name ≠ none) →
    ∃ vis, serFInputs V ins = .ok (ins.map (nm V), vis) := by
  intro ins
  induction ins with
  | nil => intro _; exact ⟨[], rfl⟩
  | cons v rest ih =>
    intro h
    obtain ⟨vis, hv⟩ := ih (fun w hw => h w (by simp [hw]))
    have hn := name_some_of_ne_none (h v (by simp))
    exact ⟨if shouldCreate (V v) then ⟨nm V v, (V v).info.emit⟩ :: vis else vis,
      by simp only [serFInputs, hn, hv, List.map_cons]⟩

theorem serFunction_inv {V : Nat → ValueS} {td : TData} {id : FId} {gid : Nat} {ins : List Nat}
    {inits : List (Name × Nat)} {nodes : List NodeT} {outs : List Nat} {fp : FuncP} {ws : Writes}
    (h : serFunction V td (id, .mk gid ins inits nodes outs) = .ok (fp, ws)) :
    ∃ vis1 nps vis2, serFInputs V ins = .ok (ins.map (nm V), vis1) ∧ serNodes V td [] nodes = .ok (nps, vis2, ws) ∧
      (∀ v ∈ outs, (V v).name ≠ none) ∧
      fp = ⟨id, ins.map (nm V), outs.map (nm V), vis1 ++ vis2, nps⟩ := by
  simp only [serFunction] at h
  split at h
  · simp at h
  · rename_i insN vis1 hi
    split at h
    · simp at h
    · rename_i outsN ho
      split at h
      · simp at h
      · rename_i nps vis2 ws' hn
        simp only [Except.ok.injEq, Prod.mk.injEq] at h
        obtain ⟨rfl, rfl⟩ := h
        have := (serFInputs_ok V ins insN vis1 hi).1
        subst this
        rw [(serOutNames_ok ho).1]
        exact ⟨vis1, nps, vis2, hi, hn, (serOutNames_ok ho).2, rfl⟩

/-! ### the certificate of a function -/

/-- the certificate of a function graph: no initializers, no enclosing scope; inputs that share a (usable)
    name share what the proto says about that name; every output is bound in the function's scope -/
def replF (V : Nat → ValueS) : GraphT → RR
  | .mk _ ins inits nodes outs =>
    ⟨[],
      ins ++ (replDecl V (tblIns V ins) (nodes.flatMap (liveOuts V))).new ++
        (replNs V [] (replDecl V (tblIns V ins) (nodes.flatMap (liveOuts V))).tbl nodes).new,
      inits = [] ∧ (∀ v ∈ ins, (V v).name ≠ none) ∧
        (∀ a ∈ ins, ∀ b ∈ ins, nameTruthy (V a).name = true → (V a).name = (V b).name →
          (V a).info.emit = (V b).info.emit) ∧
        (replDecl V (tblIns V ins) (nodes.flatMap (liveOuts V))).ok ∧
        (replNs V [] (replDecl V (tblIns V ins) (nodes.flatMap (liveOuts V))).tbl nodes).ok ∧
        (∀ v ∈ outs, (V v).name ≠ none ∧
          (replNs V [] (replDecl V (tblIns V ins) (nodes.flatMap (liveOuts V))).tbl nodes).tbl.lookup (nm V v) = some v)⟩

/-- the values whose type / shape / documentation the proto of a function carries: named inputs and
    named node outputs, of the function and of every nested graph -/
def emitF (V : Nat → ValueS) : GraphT → List Nat
  | .mk _ ins _ nodes _ =>
    ins.filter (fun v => nameTruthy (V v).name) ++
      (nodes.flatMap (liveOuts V)).filter (fun v => nameTruthy (V v).name) ++ emitSubNs V nodes

theorem declareNodes_fresh (vi : List (Name × Info)) (ns : List NodeP) :
    ∀ (st : Store) (tbl : Table) (st' : Store) (tbl' : Table), declareNodes st tbl vi ns = .ok (st', tbl') →
      Fresh st → Fresh st' := by
  have key : ∀ (xs : List Name) (st : Store) (tbl : Table) (st' : Store) (tbl' : Table),
      declareOutputs st tbl vi xs = .ok (st', tbl') → Fresh st → Fresh st' := by
    intro xs
    induction xs with
    | nil =>
      intro st tbl st' tbl' h hf
      simp only [declareOutputs, Except.ok.injEq, Prod.mk.injEq] at h
      obtain ⟨rfl, rfl⟩ := h
      exact hf
    | cons x xs ih =>
      intro st tbl st' tbl' h hf
      simp only [declareOutputs] at h
      split at h
      · exact ih _ _ _ _ h hf
      · split at h
        · simp at h
        · exact ih _ _ _ _ h ((newNamed_quiet st vi x).1.fresh hf)
  induction ns with
  | nil =>
    intro st tbl st' tbl' h hf
    simp only [declareNodes, Except.ok.injEq, Prod.mk.injEq] at h
    obtain ⟨rfl, rfl⟩ := h
    exact hf
  | cons n ns ih =>
    intro st tbl st' tbl' h hf
    simp only [declareNodes] at h
    split at h
    · simp at h
    · rename_i st1 tbl1 h1
      exact ih _ _ _ _ h (key _ _ _ _ _ h1 hf)

theorem rt2_foutputs (A : Assoc) (T : Table) (V : Nat → ValueS) : ∀ (outs : List Nat),
    (∀ v ∈ outs, T.lookup (nm V v) = some v) → deserFOutputs (mapT A T) (outs.map (nm V)) = .ok (outs.map (sig A)) := by
  intro outs
  induction outs with
  | nil => intro _; rfl
  | cons v rest ih =>
    intro h
    have hl : (mapT A T).lookup (nm V v) = some (sig A v) := by rw [lookup_mapT, h v (by simp)]; rfl
    simp only [List.map_cons, deserFOutputs, hl, ih (fun w hw => h w (by simp [hw]))]

theorem replDecl_new_unbound (V : Nat → ValueS) : ∀ (l : List Nat) (T : Table), (replDecl V T l).ok →
    ∀ v ∈ (replDecl V T l).new, T.lookup (nm V v) = none := by
  intro l
  induction l with
  | nil => intro T _ v hv; simp [replDecl] at hv
  | cons a l ih =>
    intro T hok v hv
    simp only [replDecl] at hok hv
    split at hok
    · rename_i ht
      simp only [ht, if_true, List.mem_cons] at hv
      rcases hv with rfl | hv
      · exact hok.1
      · have := ih _ hok.2 v hv
        by_cases hne : nm V v = nm V a
        · rw [hne]; exact hok.1
        · rw [lookup_cons_ne _ _ _ _ hne] at this; exact this
    · rename_i ht
      simp only [ht, if_false] at hv
      exact ih T hok.2 v hv

/-! ### the round trip of one function -/

theorem rt2_func (V : Nat → ValueS) (td : TData) :
    ∀ (id : FId) (g : GraphT) (s : Store) (A : Assoc) (fp : FuncP) (ws : Writes),
      serFunction V td (id, g) = .ok (fp, ws) → (replF V g).ok → (replF V g).new.Nodup →
      (∀ v ∈ (replF V g).new, v ∉ A.map (·.1)) → RS V s A → Fresh s →
      ∃ (s' : Store) (g' : GraphT) (B : Assoc),
        deserFunction s fp = .ok (s', g') ∧ fp.id = id ∧ RS V s' (A ++ B) ∧ s.nv ≤ s'.nv ∧
        B.map (·.1) = (replF V g).new ∧ TreeRelG V (A ++ B) g g' ∧ Fresh s' ∧ Prim s.nv s s' ∧
        InfoOK2 V s' (A ++ B) (emitF V g) ∧ ConstOK2 V td s' (A ++ B) (allInitsG g)
  | id, .mk gid ins inits nodes outs, s, A, fp, ws, hser, hok, hnd, hnew, hrs, hfr => by
    obtain ⟨vis1, nps, vis2, hi, hn, houts_n, rfl⟩ := serFunction_inv hser
    simp only [replF] at hok hnd hnew ⊢
    obtain ⟨hinits, hins_n, hsame, okD, okN, hO⟩ := hok
    subst hinits
    generalize hrd : replDecl V (tblIns V ins) (nodes.flatMap (liveOuts V)) = rd at okD okN hO hnd hnew ⊢
    generalize hrn : replNs V [] rd.tbl nodes = rn at okN hO hnd hnew ⊢
    rw [List.nodup_append] at hnd
    obtain ⟨hnd2, hndN, hdisjN⟩ := hnd
    rw [List.nodup_append] at hnd2
    obtain ⟨hndI, hndD, hdisjD⟩ := hnd2
    have newA : ∀ v, v ∈ ins ∨ v ∈ rd.new ∨ v ∈ rn.new → v ∉ A.map (·.1) := fun v hv => hnew v (by
      simp only [List.mem_append]
      rcases hv with hv | hv | hv
      · exact .inl (.inl hv)
      · exact .inl (.inr hv)
      · exact .inr hv)
    have okD' : (replDecl V (tblIns V ins) (nodes.flatMap (liveOuts V))).ok := by rw [hrd]; exact okD
    obtain ⟨hdnew, _, hdlook⟩ := replDecl_new V _ _ okD'
    have hdunb := replDecl_new_unbound V _ _ okD'
    rw [hrd] at hdnew hdlook hdunb
    obtain ⟨_, _, hvis1⟩ := serFInputs_ok V ins _ _ hi
    have hvis2 := fun e => mem_serNodes_vi V td [] e nodes nps vis2 ws hn
    generalize hLdef : vis1 ++ vis2 = L at *
    generalize hvi : vinfoTable L = vi
    -- phase 1: inputs
    obtain ⟨r1, hi1⟩ := rt2_finputs V vi ins s A hrs hndI (fun v hv => newA v (.inl hv)) hins_n
    obtain ⟨hids, hnv1, hf1, p1, _⟩ := deserFInputs_spec vi (ins.map (nm V)) s
    simp only [List.length_map] at hids hnv1
    have f1 := hf1 hfr
    have htbl1 : finputTable (ins.map (nm V)) (List.range' s.nv ins.length) =
        mapT (A ++ ins.zip (List.range' s.nv ins.length)) (tblIns V ins) := by
      rw [finputTable_eq]
      exact rt2_inputTable V A ins _ (by simp) hndI (fun v hv => newA v (.inl hv))
    have hk1 : (A ++ ins.zip (List.range' s.nv ins.length)).map (·.1) = A.map (·.1) ++ ins := by
      rw [List.map_append, keys_zip _ _ (by simp)]
    have hsig1 := sig_zip A ins (List.range' s.nv ins.length) (by simp) hndI (fun v hv => newA v (.inl hv))
    generalize hA1 : A ++ ins.zip (List.range' s.nv ins.length) = A1 at *
    generalize hs1 : (deserFInputs s vi (ins.map (nm V))).1 = s1 at *
    have hT1 : TblIn A1 (tblIns V ins) := tblIn_tblIns V A1 ins (fun v hv => by rw [hk1]; simp [hv])
    have hinsA1 : ∀ v ∈ ins, v ∈ A1.map (·.1) := fun v hv => by rw [hk1]; simp [hv]
    -- phase 3: declare the node outputs
    have h3 := rt2_declNodes V vi nodes nps s1 A1 (tblIns V ins) (serNodes_outputs V td [] nodes nps vis2 ws hn) r1 hT1
      okD' (by rw [hrd]; exact hndD)
      (by
        rw [hrd]
        intro v hv
        rw [hk1, List.mem_append]
        rintro (h | h)
        · exact newA v (.inr (.inl hv)) h
        · exact hdisjD v h v hv rfl)
    rw [hrd] at h3
    obtain ⟨B3, s3, e3, r3, k3, t3, l3, i3, g3⟩ := h3
    have p3 := declareNodes_prim s1.nv vi nps s1 _ s3 _ (Nat.le_refl _) e3
    have f3 := declareNodes_fresh vi nps _ _ _ _ e3 f1
    have hk3 : ∀ v, v ∈ (A1 ++ B3).map (·.1) ↔ v ∈ A.map (·.1) ∨ v ∈ ins ∨ v ∈ rd.new := by
      intro v
      rw [List.map_append, List.mem_append, hk1, List.mem_append, k3]
      constructor
      · rintro ((h | h) | h)
        · exact .inl h
        · exact .inr (.inl h)
        · exact .inr (.inr h)
      · rintro (h | h | h)
        · exact .inl (.inl h)
        · exact .inl (.inr h)
        · exact .inr h
    -- phase 4: the nodes
    have okN' : (replNs V [] rd.tbl nodes).ok := by rw [hrn]; exact okN
    have h4 := rt2_nodes V td nodes s3 (A1 ++ B3) rd.tbl [] [] vi nps vis2 ws hn okN' (by rw [hrn]; exact hndN)
      (by
        rw [hrn]
        intro v hv hm
        rcases (hk3 v).mp hm with h | h | h
        · exact newA v (.inr (.inr hv)) h
        · exact hdisjN v (by simp [h]) v hv rfl
        · exact hdisjN v (by simp [h]) v hv rfl)
      t3 (fun _ hT => by simp at hT) r3 f3
    rw [hrn] at h4
    obtain ⟨s4, nts, B4, e4, r4, l4, k4, t4, tr4, f4, p4, io4, co4⟩ := h4
    simp only [List.map_nil] at e4
    generalize hA4 : A1 ++ B3 ++ B4 = A4 at *
    -- phase 5: the outputs
    have e5 := rt2_foutputs A4 rn.tbl V outs (fun v hv => (hO v hv).2)
    have houtK : ∀ v ∈ outs, v ∈ A4.map (·.1) := fun v hv => t4.lookup (hO v hv).2
    have hrun : deserFunction s ⟨id, ins.map (nm V), outs.map (nm V), L, nps⟩ =
        .ok (mkGraph s4 (List.range' s.nv ins.length) (outs.map (sig A4)) nts []) := by
      simp only [deserFunction, hvi, hids, hs1, htbl1, e3, e4, e5]
    obtain ⟨c1', _, _⟩ := mkGraph_fst_counters s4 (List.range' s.nv ins.length) (outs.map (sig A4)) nts []
    have hcell := mkGraph_cell s4 (List.range' s.nv ins.length) (outs.map (sig A4)) nts []
    have hsnd6 := mkGraph_snd s4 (List.range' s.nv ins.length) (outs.map (sig A4)) nts []
    have p6 := mkGraph_prim s4.nv s4 (List.range' s.nv ins.length) (outs.map (sig A4)) nts []
    have hle14 : s1.nv ≤ s4.nv := Nat.le_trans l3 l4
    have f6 : Fresh (mkGraph s4 (List.range' s.nv ins.length) (outs.map (sig A4)) nts []).1 := by
      apply mkGraph_fresh _ _ _ _ _ f4
      · intro v hv
        rw [List.mem_range'_1] at hv
        omega
      · intro v hv
        simp only [List.mem_map] at hv
        obtain ⟨o, ho, rfl⟩ := hv
        exact r4.sig_lt (houtK o ho)
      · intro v hv; simp at hv
    generalize hmg : mkGraph s4 (List.range' s.nv ins.length) (outs.map (sig A4)) nts [] = mg at hrun c1' hcell hsnd6 p6 f6
    obtain ⟨s6, g6⟩ := mg
    simp only at c1' hcell hsnd6 p6 f6
    have hAfull : A ++ (ins.zip (List.range' s.nv ins.length) ++ B3 ++ B4) = A4 := by
      rw [← hA4, ← hA1]; simp [List.append_assoc]
    have r6 : RS V s6 A4 := r4.same_nv c1' (fun w => by rw [hcell])
    have h34 : ∀ v, v ∈ (A1 ++ B3).map (·.1) → sig A4 v = sig (A1 ++ B3) v := fun v hv => by
      rw [← hA4]; exact sig_append_of_mem hv
    have h14 : ∀ v, v ∈ A1.map (·.1) → sig A4 v = sig A1 v := fun v hv => by
      rw [h34 v (mem_keys_append hv)]; exact sig_append_of_mem hv
    have hA34 : ∀ v, v ∈ (A1 ++ B3).map (·.1) → v ∈ A4.map (·.1) := fun v hv => by
      rw [← hA4]; exact mem_keys_append hv
    -- what a lookup in the function's value_info returns
    have hsrcIn : ∀ a ∈ ins, nameTruthy (V a).name = true → ∀ e ∈ L, e.name = nm V a →
        e.info = (V a).info.emit ∧ ∃ b ∈ ins, shouldCreate (V b) = true ∧ (V b).name = (V a).name := by
      intro a ha hta e he hname
      rw [← hLdef, List.mem_append] at he
      rcases he with he | he
      · rw [hvis1] at he
        obtain ⟨b, hb, hsc, rfl⟩ := he
        simp only at hname ⊢
        have htb : nameTruthy (V b).name = true := by
          simp only [shouldCreate, Bool.and_eq_true] at hsc; exact hsc.2
        have hnameq : (V b).name = (V a).name := by
          rw [(name_some_of_truthy htb).1, hname, (name_some_of_truthy hta).1]
        exact ⟨hsame b hb a ha htb hnameq, b, hb, hsc, hnameq⟩
      · rw [hvis2] at he
        obtain ⟨n, hn', he⟩ := he
        rw [mem_outVInfo] at he
        obtain ⟨u, hu0, _, hsc, rfl⟩ := he
        simp only at hname
        have hut : nameTruthy (V u).name = true := by
          simp only [shouldCreate, Bool.and_eq_true] at hsc; exact hsc.2
        have hmem : u ∈ rd.new := by
          rw [hdnew, List.mem_filter]
          refine ⟨?_, hut⟩
          simp only [List.mem_flatMap]
          obtain ⟨i, g, a', b, c⟩ := n
          exact ⟨_, hn', truthy_mem_stripTrailing V u b hu0 hut⟩
        exact absurd hname (tblIns_lookup_none V ins _ (hdunb u hmem) a ha).symm
    have hsrcOut : ∀ v ∈ rd.new, ∀ e ∈ L, e.name = nm V v → shouldCreate (V v) = true ∧ e.info = (V v).info.emit := by
      intro v hv e he hname
      rw [← hLdef, List.mem_append] at he
      rcases he with he | he
      · rw [hvis1] at he
        obtain ⟨b, hb, _, rfl⟩ := he
        simp only at hname
        exact absurd hname (tblIns_lookup_none V ins _ (hdunb v hv) b hb)
      · rw [hvis2] at he
        obtain ⟨n, hn', he⟩ := he
        rw [mem_outVInfo] at he
        obtain ⟨u, hu0, _, hsc, rfl⟩ := he
        simp only at hname ⊢
        have hut : nameTruthy (V u).name = true := by
          simp only [shouldCreate, Bool.and_eq_true] at hsc; exact hsc.2
        have hmem : u ∈ rd.new := by
          rw [hdnew, List.mem_filter]
          refine ⟨?_, hut⟩
          simp only [List.mem_flatMap]
          obtain ⟨i, g, a', b, c⟩ := n
          exact ⟨_, hn', truthy_mem_stripTrailing V u b hu0 hut⟩
        have h1 := hdlook u hmem
        have h2 := hdlook v hv
        rw [hname, h2] at h1
        have hEq : v = u := Option.some.inj h1
        rw [hEq]; exact ⟨hsc, rfl⟩
    refine ⟨s6, g6, ins.zip (List.range' s.nv ins.length) ++ B3 ++ B4, hrun, trivial, by rw [hAfull]; exact r6, ?_, ?_, ?_,
      f6, ((p1.trans (p3.weaken (by omega))).trans (p4.weaken (by omega))).trans (p6.weaken (by omega)), ?_, ?_⟩
    · rw [c1']; omega
    · simp only [List.map_append, keys_zip _ _ (show ins.length = (List.range' s.nv ins.length).length by simp), k3, k4]
    · rw [hAfull, hsnd6]
      simp only [TreeRelG]
      refine ⟨?_, fun v hv => hA34 v (mem_keys_append (hinsA1 v hv)), ?_, fun kv hkv => by simp at hkv, ?_, trivial, houtK⟩
      · refine (Eq.trans (List.map_congr_left (fun v hv => ?_)) hsig1).symm
        exact h14 v (hinsA1 v hv)
      · simp [mkGraphInits, initDict]
      · exact TreeRelNs_setGraph V _ _ nodes nts tr4
    · rw [hAfull]
      intro v hv
      simp only [emitF, List.mem_append, List.mem_filter] at hv
      rcases hv with (⟨hv, ht⟩ | ⟨hv, ht⟩) | hv
      · -- a named function input
        have hm1 := hinsA1 v hv
        refine ⟨hA34 v (mem_keys_append hm1), ?_⟩
        have hlt1 := r1.sig_lt hm1
        rw [h14 v hm1, hcell]
        show (s4.vals (sig A1 v)).info = _
        rw [(p4.cell _ (Nat.lt_of_lt_of_le hlt1 l3)).1, (p3.cell _ hlt1).1, hi1 v hv]
        by_cases hsc : shouldCreate (V v) = true
        · have hent : (⟨nm V v, (V v).info.emit⟩ : VInfoP) ∈ L := by
            rw [← hLdef, List.mem_append]
            left
            rw [hvis1]
            exact ⟨v, hv, hsc, rfl⟩
          have hlook : vi.lookup (nm V v) = some (V v).info.emit := by
            rw [← hvi]
            exact vinfoTable_lookup_some L _ _ (fun e he hname => (hsrcIn v hv ht e he hname).1) ⟨_, hent, rfl⟩
          simp only [declInfo, hlook]
        · have hnp : (V v).info.present = false := by
            simp only [shouldCreate, Bool.and_eq_true, ht, and_true] at hsc
            simpa using hsc
          have hlook : vi.lookup (nm V v) = none := by
            rw [← hvi]
            apply vinfoTable_lookup_none
            intro e he hname
            obtain ⟨h1, b, hb, hscb, hnameq⟩ := hsrcIn v hv ht e he hname
            have htb : nameTruthy (V b).name = true := by
              simp only [shouldCreate, Bool.and_eq_true] at hscb; exact hscb.2
            have := hsame b hb v hv htb hnameq
            have hpb : (V b).info.present = true := by
              simp only [shouldCreate, Bool.and_eq_true] at hscb; exact hscb.1
            rw [← present_emit, this, present_emit, hnp] at hpb
            cases hpb
          simp only [declInfo, hlook]
          exact (emit_of_not_present hnp).symm
      · -- a named node output
        have hvl : v ∈ rd.new := by rw [hdnew, List.mem_filter]; exact ⟨hv, ht⟩
        have hm3 : v ∈ (A1 ++ B3).map (·.1) := (hk3 v).mpr (.inr (.inr hvl))
        refine ⟨hA34 v hm3, ?_⟩
        rw [h34 v hm3, hcell]
        show (s4.vals (sig (A1 ++ B3) v)).info = _
        rw [(p4.cell _ (r3.sig_lt hm3)).1, i3 v hvl]
        by_cases hsc : shouldCreate (V v) = true
        · have hent : (⟨nm V v, (V v).info.emit⟩ : VInfoP) ∈ L := by
            rw [← hLdef, List.mem_append]
            right
            rw [hvis2]
            simp only [List.mem_flatMap] at hv
            obtain ⟨n, hn', hvn'⟩ := hv
            refine ⟨n, hn', ?_⟩
            rw [mem_outVInfo]
            obtain ⟨i, g, a, b, c⟩ := n
            exact ⟨v, stripTrailing_sub V b v hvn', by simp, hsc, rfl⟩
          have hlook : vi.lookup (nm V v) = some (V v).info.emit := by
            rw [← hvi]
            exact vinfoTable_lookup_some L _ _ (fun e he hname => (hsrcOut v hvl e he hname).2) ⟨_, hent, rfl⟩
          simp only [declInfo, hlook]
        · have hlook : vi.lookup (nm V v) = none := by
            rw [← hvi]
            exact vinfoTable_lookup_none L _ (fun e he hname => hsc (hsrcOut v hvl e he hname).1)
          simp only [declInfo, hlook]
          have hnp : (V v).info.present = false := by
            simp only [shouldCreate, Bool.and_eq_true, ht, and_true] at hsc
            simpa using hsc
          exact (emit_of_not_present hnp).symm
      · obtain ⟨hmem, hinfo⟩ := io4 v hv
        refine ⟨hmem, ?_⟩
        rw [hcell]
        exact hinfo
    · rw [hAfull]
      intro kv hkv
      simp only [allInitsG, List.nil_append] at hkv
      obtain ⟨hmem, hne, hc⟩ := co4 kv hkv
      refine ⟨hmem, hne, fun t ht => ?_⟩
      obtain ⟨t', h1, h2, h3, h4⟩ := hc t ht
      refine ⟨t', ?_, Nat.lt_of_lt_of_le h2 p6.nt_le, ?_, ?_⟩
      · rw [hcell]; exact h1
      · rw [p6.tens t' h2]; exact h3
      · simp only [Store.tdata] at h4 ⊢
        rw [p6.tens t' h2]; exact h4

/-! ### serializing the reloaded function -/

theorem img2_serFInputs {V V' : Nat → ValueS} {A : Assoc} {E : List Nat} (h : Img V V' (sig A) E)
    (hn : ∀ v ∈ A.map (·.1), (V' (sig A v)).name = (V v).name) :
    ∀ (ins : List Nat) (vis : List VInfoP), (∀ v ∈ ins, v ∈ A.map (·.1)) →
      (∀ v ∈ ins, nameTruthy (V v).name = true → v ∈ E) →
      serFInputs V ins = .ok (ins.map (nm V), vis) →
      serFInputs V' (ins.map (sig A)) = .ok (ins.map (nm V), vis) := by
  intro ins
  induction ins with
  | nil => intro vis _ _ h; simpa [serFInputs] using h
  | cons v rest ih =>
    intro vis hK hE hs
    simp only [serFInputs] at hs
    split at hs
    · simp at hs
    · rename_i n hnv
      split at hs
      · simp at hs
      · rename_i ns' vis' hr
        simp only [Except.ok.injEq, Prod.mk.injEq, List.map_cons, List.cons.injEq] at hs
        obtain ⟨⟨_, hns⟩, rfl⟩ := hs
        subst hns
        have hk := hK v (by simp)
        have ih' := ih vis' (fun w hw => hK w (by simp [hw])) (fun w hw => hE w (by simp [hw])) hr
        have hname : (V' (sig A v)).name = some n := by rw [hn v hk, hnv]
        have hnm : nm V v = n := nm_of_name hnv
        simp only [List.map_cons, serFInputs, hname, ih', hnm]
        by_cases ht : nameTruthy (V v).name = true
        · have hvE := hE v (by simp) ht
          simp only [h.shouldCreate hvE, h.info v hvE, emit_emit]
        · have hf : nameTruthy (V v).name = false := by simpa using ht
          have h1 : shouldCreate (V v) = false := by simp [shouldCreate, hf]
          have h2 : shouldCreate (V' (sig A v)) = false := by simp [shouldCreate, hn v hk, hf]
          simp [h1, h2]

theorem img2_serFunction {V V' : Nat → ValueS} {td td' : TData} {A : Assoc} {E : List Nat} (h : Img V V' (sig A) E)
    (hn : ∀ v ∈ A.map (·.1), (V' (sig A v)).name = (V v).name)
    (hinj : ∀ a ∈ A.map (·.1), ∀ b ∈ A.map (·.1), sig A a = sig A b → a = b) :
    ∀ (id : FId) (g g' : GraphT) (fp : FuncP) (ws : Writes), TreeRelG V A g g' → (∀ v ∈ emitF V g, v ∈ E) →
      ConstImg V V' td td' (sig A) (allInitsG g) →
      serFunction V td (id, g) = .ok (fp, ws) → ∃ ws', serFunction V' td' (id, g') = .ok (fp, ws')
  | id, .mk _ ins inits nodes outs, .mk _ ins' inits' nodes' outs', fp, ws, ht, hE, hc, hser => by
    simp only [TreeRelG] at ht
    obtain ⟨rfl, hinK, rfl, _, htn, rfl, houtK⟩ := ht
    obtain ⟨vis1, nps, vis2, hi, hn', houts_n, rfl⟩ := serFunction_inv hser
    have e1 := img2_serFInputs h hn ins vis1 hinK
      (fun v hv ht => hE v (by simp only [emitF, List.mem_append, List.mem_filter]; exact .inl (.inl ⟨hv, ht⟩))) hi
    have e2 := img2_serOutNames hn outs houtK houts_n
    obtain ⟨ws', e3⟩ := img2_serNodes h hn hinj nodes nodes' [] nps vis2 ws htn (fun _ hv => by simp at hv)
      (fun v hv ht => hE v (by simp only [emitF, List.mem_append, List.mem_filter]; exact .inl (.inr ⟨hv, ht⟩)))
      (fun v hv => hE v (by simp only [emitF, List.mem_append]; exact .inr hv))
      (fun kv hkv => hc kv (by simp [allInitsG, hkv])) hn'
    simp only [List.map_nil] at e3
    exact ⟨ws', by simp only [serFunction, e1, e2, e3]⟩

/-! ### what `deserFunction` builds satisfies the certificate -/

theorem deserFInputs_named (vi : List (Name × Info)) : ∀ (xs : List Name) (st : Store),
    (deserFInputs st vi xs).2.map (fun v => ((deserFInputs st vi xs).1.vals v).name) = xs.map some ∧
    ∀ v ∈ (deserFInputs st vi xs).2, ((deserFInputs st vi xs).1.vals v).info =
      declInfo vi (((deserFInputs st vi xs).1.vals v).name.getD "") := by
  intro xs
  induction xs with
  | nil => intro st; exact ⟨rfl, by simp [deserFInputs]⟩
  | cons x xs ih =>
    intro st
    obtain ⟨q, hnv⟩ := newNamed_quiet st vi x
    obtain ⟨a, b⟩ := ih (newNamed st vi x)
    obtain ⟨_, _, _, pr, keep⟩ := deserFInputs_spec vi xs (newNamed st vi x)
    have hname0 : ((deserFInputs (newNamed st vi x) vi xs).1.vals st.nv).name = some x := by
      rw [keep st.nv (by omega), newNamed_name]
    simp only [deserFInputs, List.map_cons]
    refine ⟨by rw [hname0, a], fun v hv => ?_⟩
    simp only [List.mem_cons] at hv
    rcases hv with rfl | hv
    · rw [hname0, (pr.cell st.nv (by omega)).1]
      exact newNamed_cell st vi x
    · exact b v hv

theorem finputTable_ok (vi : List (Name × Info)) (xs : List Name) (st : Store) :
    TblOK (deserFInputs st vi xs).1 st.nv (finputTable xs (deserFInputs st vi xs).2) := by
  obtain ⟨hids, hnv, _, _, _⟩ := deserFInputs_spec vi xs st
  rw [hids]
  have hmem : ∀ e ∈ finputTable xs (List.range' st.nv xs.length), st.nv ≤ e.2 ∧ e.2 < st.nv + xs.length := by
    intro e he
    simp only [finputTable, List.mem_reverse] at he
    have := (List.of_mem_zip he).2
    rw [List.mem_range'_1] at this
    exact this
  refine ⟨fun e he => by rw [hnv]; exact (hmem e he).2, fun e he => (hmem e he).1, ?_⟩
  simp only [finputTable, List.map_reverse, nodup_reverse]
  have : (List.map (fun x => x.2) (xs.zip (List.range' st.nv xs.length))) = List.range' st.nv xs.length := by
    rw [List.map_snd_zip]
    simp
  rw [this]
  exact List.nodup_range' (step := 1) (by omega)

theorem zip_map_eq {α β γ : Type} (f : β → γ) (g : α → γ) : ∀ (l1 : List α) (l2 : List β),
    l2.map f = l1.map g → ∀ e ∈ l1.zip l2, f e.2 = g e.1 := by
  intro l1
  induction l1 with
  | nil => intro l2 _ e he; simp at he
  | cons a r ih =>
    intro l2 h e he
    cases l2 with
    | nil => simp at he
    | cons b t =>
      simp only [List.map_cons, List.cons.injEq] at h
      simp only [List.zip_cons_cons, List.mem_cons] at he
      rcases he with rfl | he
      · exact h.1
      · exact ih t h.2 e he

theorem deserFOutputs_mem (tbl : Table) : ∀ (ys : List Name) (outs : List Nat), deserFOutputs tbl ys = .ok outs →
    ∀ v ∈ outs, ∃ y, tbl.lookup y = some v := by
  intro ys
  induction ys with
  | nil =>
    intro outs h v hv
    simp only [deserFOutputs, Except.ok.injEq] at h
    subst h; simp at hv
  | cons y ys ih =>
    intro outs h v hv
    simp only [deserFOutputs] at h
    split at h
    · simp at h
    · rename_i u hu
      split at h
      · simp at h
      · rename_i vs hr
        simp only [Except.ok.injEq] at h
        subst h
        simp only [List.mem_cons] at hv
        rcases hv with rfl | hv
        · exact ⟨y, hu⟩
        · exact ih vs hr v hv

theorem deserFunction_inv {st : Store} {f : FuncP} {st' : Store} {g : GraphT} (h : deserFunction st f = .ok (st', g)) :
    ∃ st2 tbl2 st3 tbl3 ns outs,
      declareNodes (deserFInputs st (vinfoTable f.vinfo) f.inputs).1
        (finputTable f.inputs (deserFInputs st (vinfoTable f.vinfo) f.inputs).2) (vinfoTable f.vinfo) f.nodes = .ok (st2, tbl2) ∧
      deserNodes st2 tbl2 [] (vinfoTable f.vinfo) f.nodes = .ok (st3, tbl3, ns) ∧
      deserFOutputs tbl3 f.outputs = .ok outs ∧
      mkGraph st3 (deserFInputs st (vinfoTable f.vinfo) f.inputs).2 outs ns [] = (st', g) := by
  simp only [deserFunction] at h
  split at h
  · simp at h
  · rename_i st2 tbl2 h2
    split at h
    · simp at h
    · rename_i st3 tbl3 ns h3
      split at h
      · simp at h
      · rename_i outs h4
        simp only [Except.ok.injEq] at h
        exact ⟨st2, tbl2, st3, tbl3, ns, outs, h2, h3, h4, h⟩

theorem deser_repl_func (f : FuncP) (st st' : Store) (g : GraphT) (hf : Fresh st)
    (h : deserFunction st f = .ok (st', g)) :
    ∀ (V : Nat → ValueS), NamesAgree V st' → (∀ v, st.nv ≤ v → v < st'.nv → CellAgree V st' v) →
      (replF V g).ok ∧ Incr st.nv st'.nv (replF V g).new := by
  intro V hV hC
  obtain ⟨st2, tbl2, st3, tbl3, ns, outs, h2, h3, h4, h5⟩ := deserFunction_inv h
  obtain ⟨hids, hnv1, hf1, p1, keep1⟩ := deserFInputs_spec (vinfoTable f.vinfo) f.inputs st
  obtain ⟨hnl, hinfo1⟩ := deserFInputs_named (vinfoTable f.vinfo) f.inputs st
  have ok1 := finputTable_ok (vinfoTable f.vinfo) f.inputs st
  have f1 := hf1 hf
  generalize hs1 : (deserFInputs st (vinfoTable f.vinfo) f.inputs).1 = s1 at *
  generalize hin : (deserFInputs st (vinfoTable f.vinfo) f.inputs).2 = ins at *
  have n1 : Named s1 (finputTable f.inputs ins) := by
    intro e he
    simp only [finputTable, List.mem_reverse] at he
    exact zip_map_eq (fun v => (s1.vals v).name) some f.inputs ins hnl e he
  have le1 : st.nv ≤ s1.nv := by rw [hnv1]; omega
  obtain ⟨q3, ok3, stb3, m3, _⟩ := declareNodes_spec (vinfoTable f.vinfo) f.nodes _ _ st.nv st2 tbl2 ok1 le1 h2
  have f2 := q3.fresh f1
  have n2 := declareNodes_named (vinfoTable f.vinfo) f.nodes _ _ st2 tbl2 n1 ok1.lt h2
  have le2 : st.nv ≤ st2.nv := Nat.le_trans le1 q3.nv_le
  have hol : TablesLt st2 [] := fun _ ht => by simp at ht
  obtain ⟨f3, m4, ok4, _⟩ := deserNodes_struct f.nodes st2 tbl2 [] (vinfoTable f.vinfo) st.nv st3 tbl3 ns f2 ok3 hol le2 h3
  obtain ⟨_, n3⟩ := deserNodes_tree f.nodes st2 tbl2 [] (vinfoTable f.vinfo) st.nv st3 tbl3 ns f2 ok3 hol le2 n2 h3
  have p3 := declareNodes_prim s1.nv (vinfoTable f.vinfo) f.nodes s1 _ st2 _ (Nat.le_refl _) h2
  have p4 := deserNodes_prim2 st2.nv f.nodes st2 tbl2 [] (vinfoTable f.vinfo) st.nv st3 tbl3 ns f2 ok3 hol le2
    (Nat.le_refl _) h3
  obtain ⟨c1, _, _⟩ := mkGraph_fst_counters st3 ins outs ns []
  have hcell := mkGraph_cell st3 ins outs ns []
  have hsnd := mkGraph_snd st3 ins outs ns []
  have e1 : st' = (mkGraph st3 ins outs ns []).1 := by rw [h5]
  have e2 : g = (mkGraph st3 ins outs ns []).2 := by rw [h5]
  rw [e1] at hV hC ⊢
  rw [e2, hsnd]
  have hV3 : NamesAgree V st3 := fun v hv => by rw [hV v (by rw [c1]; exact hv), hcell]
  have hV2 : NamesAgree V st2 := fun v hv => by rw [hV3 v (Nat.lt_of_lt_of_le hv m4.nv_le), m4.names v hv]
  have hV1 : NamesAgree V s1 := fun v hv => by rw [hV2 v (Nat.lt_of_lt_of_le hv q3.nv_le), q3.names v hv]
  have hC3 : ∀ v, st.nv ≤ v → v < st3.nv → CellAgree V st3 v := fun v h1 h2 => by
    have := hC v h1 (by rw [c1]; exact h2)
    rw [CellAgree, hcell] at this
    exact this
  -- inputs
  have hinsV : ins.map (fun v => (V v).name) = f.inputs.map some := by
    rw [← hnl]
    apply List.map_congr_left
    intro v hv
    have hvlt : v < s1.nv := by
      rw [hids, List.mem_range'_1] at hv
      rw [hnv1]; omega
    exact hV1 v hvlt
  have E1 : tblIns V ins = finputTable f.inputs ins := by
    have h2' : f.inputs = ins.map (nm V) := by
      have := congrArg (List.map (fun o : Option Name => o.getD "")) hinsV
      rw [List.map_map, List.map_map] at this
      have e1 : List.map ((fun o : Option Name => o.getD "") ∘ some) f.inputs = f.inputs := by
        have : ((fun o : Option Name => o.getD "") ∘ some) = id := rfl
        rw [this, List.map_id]
      rw [e1] at this
      exact this.symm
    simp only [tblIns, finputTable]
    congr 1
    have key : ∀ (l : List Nat), (l.map (nm V)).zip l = l.map fun v => (nm V v, v) := by
      intro l
      induction l with
      | nil => rfl
      | cons a r ih => simp [ih]
    rw [h2', key]
  have hins_n : ∀ v ∈ ins, (V v).name ≠ none := by
    intro v hv
    have : (V v).name ∈ ins.map (fun v => (V v).name) := List.mem_map_of_mem hv
    rw [hinsV, List.mem_map] at this
    obtain ⟨i, _, hi⟩ := this
    rw [← hi]; simp
  have I1 : Incr st.nv s1.nv ins := by
    rw [hids, hnv1]; exact incr_range' _ _
  have hinslt : ∀ v ∈ ins, st.nv ≤ v ∧ v < s1.nv := fun v hv => I1.2 v hv
  have hVinfo : ∀ v ∈ ins, (V v).info = declInfo (vinfoTable f.vinfo) (nm V v) := by
    intro v hv
    obtain ⟨hge, hlt⟩ := hinslt v hv
    have hlt2 : v < st2.nv := Nat.lt_of_lt_of_le hlt q3.nv_le
    rw [(hC3 v hge (Nat.lt_of_lt_of_le hlt2 m4.nv_le)).1, (p4.cell v hlt2).1, (p3.cell v hlt).1, hinfo1 v hv]
    simp only [nm, hV1 v hlt]
  have hsame : ∀ a ∈ ins, ∀ b ∈ ins, nameTruthy (V a).name = true → (V a).name = (V b).name →
      (V a).info.emit = (V b).info.emit := by
    intro a ha b hb _ hname
    rw [hVinfo a ha, hVinfo b hb]
    simp only [nm, hname]
  -- nodes
  have hdeclared : ∀ n ∈ f.nodes, ∀ y ∈ n.outputs, y ≠ "" → ∃ u, tbl2.lookup y = some u := by
    intro n hn y hy hne
    obtain ⟨_, v, hv, _⟩ := m3 y (by
      simp only [outNames, List.mem_filter, List.mem_flatMap]
      exact ⟨⟨n, hn, hy⟩, by simpa using hne⟩)
    exact ⟨v, hv⟩
  obtain ⟨rn1, rn2, I4, rn4⟩ := deser_repl_nodes f.nodes st2 tbl2 [] (vinfoTable f.vinfo) st.nv st3 tbl3 ns f2 ok3
    hol le2 n2 (fun _ hT => by simp at hT) h3 hdeclared V hV3
    (fun v hge hlt _ => hC3 v (Nat.le_trans le2 hge) hlt)
  obtain ⟨rd1, rd2, rd3, I3⟩ := repl_declareNodes V (vinfoTable f.vinfo) tbl2 f.nodes s1 _ st2 tbl2 h2 hV2 (fun _ _ h => h)
  have hlive : (ns.flatMap (liveOuts V)).filter (fun v => nameTruthy (V v).name) =
      f.nodes.flatMap (fun n => declared tbl2 n.outputs) := by
    rw [List.filter_flatMap]
    exact flatMap_congr_map rn4
  obtain ⟨df1, df2, df3⟩ := replDecl_filter V (ns.flatMap (liveOuts V)) (finputTable f.inputs ins)
  rw [hlive] at df1 df2 df3
  -- outputs
  have hNV3 : NamedV V tbl3 := NamedV.of_named n3 ok4.lt hV3
  have hO : ∀ v ∈ outs, (V v).name ≠ none ∧ tbl3.lookup (nm V v) = some v := by
    intro v hv
    obtain ⟨y, hy⟩ := deserFOutputs_mem tbl3 f.outputs outs h4 v hv
    have hname := hNV3 _ (lookup_mem _ _ _ hy)
    exact ⟨by rw [hname]; simp, by rw [nm_of_name hname]; exact hy⟩
  simp only [replF, flatMap_liveOuts_setGraph, replNs_setGraph, E1, df1, rd1, rn1]
  refine ⟨⟨by simp [mkGraphInits, initDict], hins_n, hsame, ?_, rn2, hO⟩, ?_⟩
  · exact df3.mpr ⟨rd2, replNs_live_names V [] ns tbl2 rn2⟩
  · rw [df2, rd3, c1]
    exact (I1.append I3 le1 q3.nv_le).append I4 le2 m4.nv_le

end IrVerif.Scope

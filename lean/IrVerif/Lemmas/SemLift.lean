/-
Lemmas/SemLift.lean — LiftConstantsToInitializersPass model (`liftG`) preserves the denotation:
a Constant node's value is bound at graph entry instead of at the node.
-/
import IrVerif.Model.Passes
import IrVerif.Lemmas.SemSyntax
namespace IrVerif.Passes
open IrVerif.Sem
variable {Val : Type}

/-- old environment ρ vs new environment ρ': equal except on the constants that are still to come
    in the old node list (`L`), which the new environment already holds -/
def HRel (I : Interp Val) (L : List (VId × Tensor)) (ρ ρ' : Env Val) : Prop :=
  (∀ v, v ∉ L.map Prod.fst → ρ v = ρ' v) ∧ (∀ p ∈ L, ρ' p.1 = some (I.tv p.2))

theorem liftCandidate_some {liftAll : Bool} {limit : Nat} {gouts : List VId} {op : OpId}
    {attrs : List (String × AttrData)} {outs : List VId} {p : VId × Tensor}
    (h : liftCandidate liftAll limit gouts op attrs outs = some p) :
    outs = [p.1] ∧ constOf op attrs = some p.2 := by
  unfold liftCandidate at h
  split at h
  · rename_i y t ht
    split at h
    · simp at h
    · simp only [Option.some.injEq] at h
      subst h
      exact ⟨rfl, ht⟩
  · simp at h

theorem outsTop_nodup : ∀ ns : List Node, ssaNodes ns = true → (outsTop ns).Nodup
  | [], _ => by simp [outsTop]
  | .mk op attrs ins outs bodies :: ns, hs => by
    simp only [ssaNodes, ssaN, Bool.and_eq_true, disj_iff, nodupB_iff] at hs
    obtain ⟨⟨⟨⟨hnd, _⟩, _⟩, hdn⟩, hsn⟩ := hs
    simp only [outsTop, Node.outs]
    refine List.nodup_append.2 ⟨hnd, outsTop_nodup ns hsn, ?_⟩
    intro a ha b hb hab
    subst hab
    exact hdn a (by simp [defsN, ha]) (outsTop_sub_defsNodes ns hb)

theorem liftNodes_ids_sublist (liftAll : Bool) (limit : Nat) (gouts : List VId) :
    ∀ ns : List Node, List.Sublist (((liftNodes liftAll limit gouts ns).2).map Prod.fst) (outsTop ns)
  | [] => by simp [liftNodes, outsTop]
  | .mk op attrs ins outs bodies :: ns => by
    have ih := liftNodes_ids_sublist liftAll limit gouts ns
    simp only [liftNodes, outsTop, Node.outs]
    split
    · rename_i p hp
      obtain ⟨ho, _⟩ := liftCandidate_some hp
      rw [ho]
      simpa using ih
    · exact List.Sublist.trans ih (List.sublist_append_right _ _)

theorem constOf_not_identity {op : OpId} {attrs : List (String × AttrData)} {t : Tensor}
    (h : constOf op attrs = some t) : isIdentityOp op = false := by
  unfold constOf at h
  split at h
  · rename_i hc
    simp only [isConstantOp, Bool.and_eq_true, beq_iff_eq] at hc
    simp [isIdentityOp, hc.1]
  · simp at h

theorem liftNodes_ids_sub (liftAll : Bool) (limit : Nat) (gouts : List VId) (v : VId)
    (ns : List Node) (h : v ∈ ((liftNodes liftAll limit gouts ns).2).map Prod.fst) : v ∈ outsTop ns :=
  (liftNodes_ids_sublist liftAll limit gouts ns).subset h

mutual
theorem liftG_refs (liftAll : Bool) (limit : Nat) (v : VId) : ∀ g : Graph,
    v ∈ refsG (liftG liftAll limit g) → v ∈ refsG g
  | .mk inputs outputs inits nodes, h => by
    simp only [liftG, refsG, List.mem_append] at h ⊢
    exact h.imp id (liftNodes_refs liftAll limit v outputs nodes)
theorem liftNodes_refs (liftAll : Bool) (limit : Nat) (v : VId) : ∀ (gouts : List VId) (ns : List Node),
    v ∈ refsNodes (liftNodes liftAll limit gouts ns).1 → v ∈ refsNodes ns
  | _, [], h => by simp [liftNodes, refsNodes] at h
  | gouts, .mk op attrs ins outs bodies :: ns, h => by
    simp only [liftNodes] at h
    simp only [refsNodes, List.mem_append]
    split at h
    · exact Or.inr (liftNodes_refs liftAll limit v gouts ns h)
    · simp only [refsNodes, refsN, List.mem_append] at h ⊢
      rcases h with (h | h) | h
      · exact Or.inl (Or.inl h)
      · exact Or.inl (Or.inr (liftBodies_refs liftAll limit v bodies h))
      · exact Or.inr (liftNodes_refs liftAll limit v gouts ns h)
theorem liftBodies_refs (liftAll : Bool) (limit : Nat) (v : VId) : ∀ bs : List Graph,
    v ∈ refsBodies (liftBodies liftAll limit bs) → v ∈ refsBodies bs
  | [], h => by simp [liftBodies, refsBodies] at h
  | b :: bs, h => by
    simp only [liftBodies, refsBodies, List.mem_append] at h ⊢
    exact h.imp (liftG_refs liftAll limit v b) (liftBodies_refs liftAll limit v bs)
end

mutual
theorem liftG_sound (I : Interp Val) (liftAll : Bool) (limit : Nat) : ∀ (g : Graph),
    ssaG g = true → noFwdG g = true → ∀ ρ : Env Val, evalG I (liftG liftAll limit g) ρ = evalG I g ρ
  | .mk inputs outputs inits nodes, hs, hf, ρ => by
    funext xs
    simp only [ssaG, Bool.and_eq_true, nodupB_iff, disj_iff] at hs
    simp only [noFwdG] at hf
    obtain ⟨⟨⟨hndi, hndt⟩, hdisj⟩, hsn⟩ := hs
    simp only [liftG, evalG]
    have hLsub : ∀ v ∈ ((liftNodes liftAll limit outputs nodes).2).map Prod.fst, v ∈ defsNodes nodes :=
      fun v hv => outsTop_sub_defsNodes nodes (liftNodes_ids_sub liftAll limit outputs v nodes hv)
    have hfree : inputs.filter (fun v => !((inits ++ (liftNodes liftAll limit outputs nodes).2).map Prod.fst).contains v)
        = inputs.filter (fun v => !(inits.map Prod.fst).contains v) := by
      apply List.filter_congr
      intro v hv
      congr 1
      rw [Bool.eq_iff_iff]
      simp only [List.map_append, List.contains_iff_mem, List.mem_append]
      constructor
      · rintro (h | h)
        · exact h
        · exact absurd (hLsub v h) (hdisj v (by simp [hv]))
      · exact Or.inl
    rw [hfree]
    apply List.map_congr_left
    intro o _
    symm
    refine liftNodes_sound I liftAll limit outputs nodes _ _ hsn hf ?_ o
    have hndL : ((liftNodes liftAll limit outputs nodes).2.map Prod.fst).Nodup :=
      (liftNodes_ids_sublist liftAll limit outputs nodes).nodup (outsTop_nodup nodes hsn)
    have hndAll : ((inits ++ (liftNodes liftAll limit outputs nodes).2).map Prod.fst).Nodup := by
      rw [List.map_append]
      refine List.nodup_append.2 ⟨hndt, hndL, ?_⟩
      intro a ha b hb hab
      subst hab
      exact hdisj a (by simp [ha]) (hLsub a hb)
    constructor
    · intro v hv
      by_cases hfr : v ∈ inputs.filter (fun v => !(inits.map Prod.fst).contains v)
      · rw [Env.bind_of_mem _ _ hfr, Env.bind_of_mem _ _ hfr]
      · rw [Env.bind_of_not_mem _ _ hfr, Env.bind_of_not_mem _ _ hfr]
        simp only [bindInits]
        by_cases hvi : v ∈ inits.map Prod.fst
        · obtain ⟨q, hq, rfl⟩ := List.mem_map.1 hvi
          rw [Env.bind_map_of_mem ρ Prod.fst (fun p => some (I.tv p.2)) _ q hndt hq,
            Env.bind_map_of_mem ρ Prod.fst (fun p => some (I.tv p.2)) _ q hndAll (List.mem_append_left _ hq)]
        · rw [Env.bind_of_not_mem _ _ hvi, Env.bind_of_not_mem _ _ (by
            rw [List.map_append, List.mem_append]; exact fun h => h.elim hvi hv)]
    · intro p hp
      have hpin : p.1 ∉ inputs.filter (fun v => !(inits.map Prod.fst).contains v) := fun h =>
        hdisj p.1 (by simp [(List.mem_filter.1 h).1]) (hLsub p.1 (List.mem_map.2 ⟨p, hp, rfl⟩))
      rw [Env.bind_of_not_mem _ _ hpin]
      simp only [bindInits]
      exact Env.bind_map_of_mem ρ Prod.fst (fun p => some (I.tv p.2)) _ p hndAll (List.mem_append_right _ hp)
theorem liftNodes_sound (I : Interp Val) (liftAll : Bool) (limit : Nat) (gouts : List VId) :
    ∀ (ns : List Node) (ρ ρ' : Env Val), ssaNodes ns = true → noFwdNodes ns = true →
    HRel I (liftNodes liftAll limit gouts ns).2 ρ ρ' →
    ∀ v, evalNodes I ns ρ v = evalNodes I (liftNodes liftAll limit gouts ns).1 ρ' v
  | [], ρ, ρ', _, _, h, v => by
    simp only [liftNodes, evalNodes]
    exact h.1 v (by simp [liftNodes])
  | .mk op attrs ins outs bodies :: ns, ρ, ρ', hs, hf, h, v => by
    have hs' := hs
    simp only [ssaNodes, ssaN, Bool.and_eq_true, disj_iff] at hs
    simp only [noFwdNodes, noFwdN, Bool.and_eq_true, disj_iff, Node.ins, Node.bodies, Node.outs] at hf
    obtain ⟨⟨⟨⟨_, _⟩, hsb⟩, hdn⟩, hsn⟩ := hs
    obtain ⟨⟨⟨hfw, hfr⟩, hfb⟩, hfn⟩ := hf
    simp only [liftNodes] at h ⊢
    split
    · -- the Constant node is lifted
      rename_i p hp
      rw [hp] at h
      obtain ⟨ho, hconst⟩ := liftCandidate_some hp
      subst ho
      simp only [evalNodes]
      refine liftNodes_sound I liftAll limit gouts ns _ ρ' hsn hfn ⟨?_, ?_⟩ v
      · intro w hw
        simp only [evalN, nodeResults, constOf_not_identity hconst, hconst, Bool.false_and]
        by_cases hwp : w = p.1
        · subst hwp
          simp only [Bool.false_eq_true, if_false]
          rw [Env.bind_of_mem _ _ (by simp)]
          simpa using (h.2 p (by simp)).symm
        · simp only [Bool.false_eq_true, if_false]
          rw [Env.bind_of_not_mem _ _ (by simpa using hwp)]
          exact h.1 w (by simp only [List.map_cons, List.mem_cons, not_or]; exact ⟨hwp, hw⟩)
      · intro q hq
        exact h.2 q (List.mem_cons_of_mem _ hq)
    · rename_i hp
      rw [hp] at h
      simp only at h ⊢
      simp only [evalNodes]
      refine liftNodes_sound I liftAll limit gouts ns _ _ hsn hfn ⟨?_, ?_⟩ v
      · intro w hw
        simp only [evalN]
        have hLd : ∀ u ∈ ((liftNodes liftAll limit gouts ns).2).map Prod.fst, u ∈ defsNodes ns :=
          fun u hu => outsTop_sub_defsNodes ns (liftNodes_ids_sub liftAll limit gouts u ns hu)
        have hargs : evalArgs ρ (trimNone ins) = evalArgs ρ' (trimNone ins) := by
          refine evalArgs_congr (S := fun u => u ∉ ((liftNodes liftAll limit gouts ns).2).map Prod.fst)
            (fun u hu => h.1 u hu) _ (fun u hu hL => ?_)
          have : u ∈ ins.filterMap id := by
            simp only [List.mem_filterMap, id] at hu ⊢
            obtain ⟨a, ha, rfl⟩ := hu
            exact ⟨_, mem_of_mem_trimNone ha, rfl⟩
          exact hfw u this (by simp only [defsNodes, List.mem_append]; exact Or.inr (hLd u hL))
        have hb : evalBodies I bodies ρ = evalBodies I (liftBodies liftAll limit bodies) ρ' := by
          rw [← liftBodies_sound I liftAll limit bodies hsb hfb ρ]
          refine evalBodies_congr I _ ρ ρ' (fun u hu => h.1 u (fun hL => ?_))
          exact hfr u (liftBodies_refs liftAll limit u bodies hu)
            (by simp only [List.mem_append]; exact Or.inr (hLd u hL))
        rw [hargs, hb]
        by_cases hwo : w ∈ outs
        · simp [Env.bind, hwo]
        · rw [Env.bind_of_not_mem _ _ hwo, Env.bind_of_not_mem _ _ hwo]
          exact h.1 w hw
      · intro q hq
        simp only [evalN]
        have hqo : q.1 ∉ outs := fun hqo =>
          hdn q.1 (by simp [defsN, hqo])
            (outsTop_sub_defsNodes ns (liftNodes_ids_sub liftAll limit gouts q.1 ns (List.mem_map.2 ⟨q, hq, rfl⟩)))
        rw [Env.bind_of_not_mem _ _ hqo]
        exact h.2 q hq
theorem liftBodies_sound (I : Interp Val) (liftAll : Bool) (limit : Nat) : ∀ (bs : List Graph),
    ssaBodies bs = true → noFwdBodies bs = true →
    ∀ ρ : Env Val, evalBodies I (liftBodies liftAll limit bs) ρ = evalBodies I bs ρ
  | [], _, _, _ => by simp [liftBodies, evalBodies]
  | b :: bs, hs, hf, ρ => by
    simp only [ssaBodies, Bool.and_eq_true] at hs
    simp only [noFwdBodies, Bool.and_eq_true] at hf
    simp only [liftBodies, evalBodies, liftG_sound I liftAll limit b hs.1.1 hf.1 ρ,
      liftBodies_sound I liftAll limit bs hs.2 hf.2 ρ]
end

end IrVerif.Passes

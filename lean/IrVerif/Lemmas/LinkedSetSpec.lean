/-
Facts about the abstract list-with-gaps machine `Spec` alone (pure list reasoning): these are the
English clauses of C11.  They transfer to the pointer structure through `C11_refine_*`.
-/
import IrVerif.Model.LinkedSet
namespace IrVerif.LinkedSet.Spec

/-- the index of an abstract cursor lies within the sequence -/
def ACur.InRange (L : List Nat) : ACur → Prop
  | .att k => k ≤ L.length
  | .gap k => k ≤ L.length
  | .done => True

theorem next_fwd (L : List Nat) (k : Nat) :
    (k < L.length → ∃ v, L[k]? = some v ∧ L.drop k = v :: L.drop (k + 1)) ∧
    (¬ k < L.length → L[k]? = none ∧ L.drop k = []) := by
  constructor
  · intro hk
    exact ⟨L[k], List.getElem?_eq_getElem hk, List.drop_eq_getElem_cons hk⟩
  · intro hk
    exact ⟨List.getElem?_eq_none (Nat.le_of_not_lt hk), List.drop_of_length_le (Nat.le_of_not_lt hk)⟩

theorem next_rev (L : List Nat) (k : Nat) (hk : k ≤ L.length) (hk0 : k ≠ 0) :
    ∃ v, L[k - 1]? = some v ∧ (L.take k).reverse = v :: (L.take (k - 1)).reverse := by
  obtain ⟨j, rfl⟩ : ∃ j, k = j + 1 := ⟨k - 1, by omega⟩
  have hj : j < L.length := by omega
  have e : L[j]? = some L[j] := List.getElem?_eq_getElem hj
  refine ⟨L[j], by simp, ?_⟩
  rw [List.take_add_one, e]
  simp

/-- `next()` yields the head of `rest` and leaves its tail -/
theorem rest_next (L : List Nat) (d : Dir) (c : ACur) (hc : c.InRange L) :
    rest L d c = match (next L d c).2 with
      | some v => v :: rest L d (next L d c).1
      | none => [] := by
  cases d with
  | fwd =>
    cases c with
    | done => simp [rest, next]
    | att k =>
      simp only [rest, next]
      by_cases hk : k < L.length
      · obtain ⟨v, h1, h2⟩ := (next_fwd L k).1 hk
        rw [h1, h2]
      · obtain ⟨h1, h2⟩ := (next_fwd L k).2 hk
        rw [h1, h2]
    | gap k =>
      simp only [rest, next]
      by_cases hk : k < L.length
      · obtain ⟨v, h1, h2⟩ := (next_fwd L k).1 hk
        rw [h1, h2]
      · obtain ⟨h1, h2⟩ := (next_fwd L k).2 hk
        rw [h1, h2]
  | rev =>
    cases c with
    | done => simp [rest, next]
    | att k =>
      simp only [rest, next]
      by_cases hk0 : k = 0
      · simp [hk0]
      · obtain ⟨v, h1, h2⟩ := next_rev L k hc hk0
        simp only [hk0, if_false, h1, h2]
    | gap k =>
      simp only [rest, next]
      by_cases hk0 : k = 0
      · simp [hk0]
      · obtain ⟨v, h1, h2⟩ := next_rev L k hc hk0
        simp only [hk0, if_false, h1, h2]

theorem next_inRange (L : List Nat) (d : Dir) (c : ACur) (hc : c.InRange L) :
    (next L d c).1.InRange L := by
  have hf : ∀ k, (match L[k]? with
      | some v => (ACur.att (k + 1), some v)
      | none => (ACur.done, none)).1.InRange L := by
    intro k
    by_cases hk : k < L.length
    · obtain ⟨v, h1, _⟩ := (next_fwd L k).1 hk
      rw [h1]; simp only [ACur.InRange]; omega
    · rw [((next_fwd L k).2 hk).1]; trivial
  have hr : ∀ k, k ≤ L.length → (if k = 0 then (ACur.done, (none : Option Nat)) else
      match L[k - 1]? with
      | some v => (ACur.att (k - 1), some v)
      | none => (ACur.done, none)).1.InRange L := by
    intro k hk
    by_cases hk0 : k = 0
    · simp [hk0, ACur.InRange]
    · obtain ⟨v, h1, _⟩ := next_rev L k hk hk0
      simp only [hk0, if_false, h1, ACur.InRange]; omega
  cases d <;> cases c
  · exact hf _
  · exact hf _
  · trivial
  · exact hr _ hc
  · exact hr _ hc
  · trivial

theorem next_none (L : List Nat) (d : Dir) (c : ACur) (h : (next L d c).2 = none) :
    (next L d c).1 = .done := by
  have aux : ∀ (o : Option Nat) (k : Nat),
      (match o with
        | some v => (ACur.att k, some v)
        | none => (ACur.done, none)).2 = none →
      (match o with
        | some v => (ACur.att k, some v)
        | none => (ACur.done, none)).1 = ACur.done := by
    intro o k h; cases o <;> simp_all
  cases d <;> cases c <;> simp only [next] at h ⊢
  · exact aux _ _ h
  · exact aux _ _ h
  · split
    · rfl
    · rename_i hk; simp only [hk, if_false] at h; exact aux _ _ h
  · split
    · rfl
    · rename_i hk; simp only [hk, if_false] at h; exact aux _ _ h

/-! ### removal -/

theorem rest_removeIdx (A B : List Nat) (x : Nat) (hnd : (A ++ x :: B).Nodup) (d : Dir) (c : ACur)
    (hc : c.InRange (A ++ x :: B)) :
    rest (A ++ B) d (curRemove d A.length c) = (rest (A ++ x :: B) d c).erase x ∧
    (curRemove d A.length c).InRange (A ++ B) := by
  have hxA : x ∉ A := by grind
  have hxB : x ∉ B := by grind
  have e1 : ∀ k, k ≤ A.length → (A ++ x :: B).drop k = A.drop k ++ x :: B := by
    intro k hk; rw [List.drop_append]; simp [Nat.sub_eq_zero_of_le hk]
  have e2 : ∀ k, k ≤ A.length → (A ++ B).drop k = A.drop k ++ B := by
    intro k hk; rw [List.drop_append]; simp [Nat.sub_eq_zero_of_le hk]
  have e3 : ∀ k, A.length < k → (A ++ x :: B).drop k = B.drop (k - A.length - 1) := by
    intro k hk
    rw [List.drop_append, List.drop_of_length_le (by omega)]
    obtain ⟨j, hj⟩ : ∃ j, k - A.length = j + 1 := ⟨k - A.length - 1, by omega⟩
    simp [hj]
  have e4 : ∀ k, A.length ≤ k → (A ++ B).drop k = B.drop (k - A.length) := by
    intro k hk; rw [List.drop_append, List.drop_of_length_le hk]; simp
  have t1 : ∀ k, k ≤ A.length → (A ++ x :: B).take k = A.take k := by
    intro k hk; rw [List.take_append]; simp [Nat.sub_eq_zero_of_le hk]
  have t2 : ∀ k, k ≤ A.length → (A ++ B).take k = A.take k := by
    intro k hk; rw [List.take_append]; simp [Nat.sub_eq_zero_of_le hk]
  have t3 : ∀ k, A.length < k → (A ++ x :: B).take k = A ++ x :: B.take (k - A.length - 1) := by
    intro k hk
    rw [List.take_append, List.take_of_length_le (by omega)]
    obtain ⟨j, hj⟩ : ∃ j, k - A.length = j + 1 := ⟨k - A.length - 1, by omega⟩
    simp [hj]
  have t4 : ∀ k, A.length ≤ k → (A ++ B).take k = A ++ B.take (k - A.length) := by
    intro k hk; rw [List.take_append, List.take_of_length_le hk]
  have er1 : ∀ l : List Nat, x ∉ l → l.erase x = l := fun l h => List.erase_of_not_mem h
  have hlen : (A ++ x :: B).length = A.length + B.length + 1 := by simp; omega
  have hlen' : (A ++ B).length = A.length + B.length := by simp
  cases d with
  | fwd =>
    cases c with
    | done => simp [curRemove, rest, ACur.InRange]
    | att k =>
      simp only [ACur.InRange, hlen] at hc
      simp only [curRemove]
      by_cases h1 : A.length + 1 = k
      · subst h1
        simp only [if_true, rest, ACur.InRange, hlen']
        rw [e4 _ (Nat.le_refl _), e3 _ (by omega)]
        simp [er1 _ hxB]
      · simp only [h1, if_false]
        by_cases h2 : A.length < k
        · simp only [h2, if_true, rest, ACur.InRange, hlen']
          rw [e4 _ (by omega), e3 _ h2]
          have : k - 1 - A.length = k - A.length - 1 := by omega
          rw [this, er1 _ (fun h => hxB (List.mem_of_mem_drop h))]
          exact ⟨rfl, by omega⟩
        · simp only [h2, if_false, rest, ACur.InRange, hlen']
          rw [e2 _ (by omega), e1 _ (by omega), List.erase_append]
          have : x ∉ A.drop k := fun h => hxA (List.mem_of_mem_drop h)
          simp [this]; omega
    | gap k =>
      simp only [ACur.InRange, hlen] at hc
      simp only [curRemove]
      by_cases h2 : A.length < k
      · simp only [h2, if_true, rest, ACur.InRange, hlen']
        rw [e4 _ (by omega), e3 _ h2]
        have : k - 1 - A.length = k - A.length - 1 := by omega
        rw [this, er1 _ (fun h => hxB (List.mem_of_mem_drop h))]
        exact ⟨rfl, by omega⟩
      · simp only [h2, if_false, rest, ACur.InRange, hlen']
        rw [e2 _ (by omega), e1 _ (by omega), List.erase_append]
        have : x ∉ A.drop k := fun h => hxA (List.mem_of_mem_drop h)
        simp [this]; omega
  | rev =>
    have hrev : ∀ k, A.length < k →
        ((A ++ x :: B).take k).reverse.erase x = ((A ++ B).take (k - 1)).reverse := by
      intro k hk
      rw [t3 _ hk, t4 _ (by omega)]
      have : k - 1 - A.length = k - A.length - 1 := by omega
      rw [this]
      simp only [List.reverse_append, List.reverse_cons, List.append_assoc, List.singleton_append]
      rw [List.erase_append]
      have : x ∉ (B.take (k - A.length - 1)).reverse := by
        intro h; exact hxB (List.mem_of_mem_take (List.mem_reverse.mp h))
      simp [this]
    have hrev2 : ∀ k, k ≤ A.length →
        ((A ++ x :: B).take k).reverse.erase x = ((A ++ B).take k).reverse := by
      intro k hk
      rw [t1 _ hk, t2 _ hk]
      exact er1 _ (fun h => hxA (List.mem_of_mem_take (List.mem_reverse.mp h)))
    cases c with
    | done => simp [curRemove, rest, ACur.InRange]
    | att k =>
      simp only [ACur.InRange, hlen] at hc
      simp only [curRemove]
      by_cases h1 : A.length = k
      · subst h1
        simp only [if_true, rest, ACur.InRange, hlen']
        rw [hrev2 _ (Nat.le_refl _)]
        exact ⟨rfl, by omega⟩
      · simp only [h1, if_false]
        by_cases h2 : A.length < k
        · simp only [h2, if_true, rest, ACur.InRange, hlen']
          rw [hrev _ h2]; exact ⟨rfl, by omega⟩
        · simp only [h2, if_false, rest, ACur.InRange, hlen']
          rw [hrev2 _ (by omega)]; exact ⟨rfl, by omega⟩
    | gap k =>
      simp only [ACur.InRange, hlen] at hc
      simp only [curRemove]
      by_cases h2 : A.length < k
      · simp only [h2, if_true, rest, ACur.InRange, hlen']
        rw [hrev _ h2]; exact ⟨rfl, by omega⟩
      · simp only [h2, if_false, rest, ACur.InRange, hlen']
        rw [hrev2 _ (by omega)]; exact ⟨rfl, by omega⟩

/-! ### insertion -/

/-- does a cursor still come across an element inserted at index `p`?  Forward: the element must
    land after the current element (`att`: `k ≤ p`) resp. strictly after the gap (`gap`: `k < p`);
    reverse mirrored. -/
def seen : Dir → Nat → ACur → Prop
  | _, _, .done => False
  | .fwd, p, .att k => k ≤ p
  | .fwd, p, .gap k => k < p
  | .rev, p, .att k => p ≤ k
  | .rev, p, .gap k => p < k

theorem rest_insertIdx (A B : List Nat) (x : Nat) (hx : x ∉ A ++ B) (d : Dir) (c : ACur)
    (hc : c.InRange (A ++ B)) :
    (rest (A ++ x :: B) d (curInsert d A.length c)).erase x = rest (A ++ B) d c ∧
    (curInsert d A.length c).InRange (A ++ x :: B) ∧
    (x ∈ rest (A ++ x :: B) d (curInsert d A.length c) ↔ seen d A.length c) := by
  have hxA : x ∉ A := by grind
  have hxB : x ∉ B := by grind
  have e1 : ∀ k, k ≤ A.length → (A ++ x :: B).drop k = A.drop k ++ x :: B := by
    intro k hk; rw [List.drop_append]; simp [Nat.sub_eq_zero_of_le hk]
  have e2 : ∀ k, k ≤ A.length → (A ++ B).drop k = A.drop k ++ B := by
    intro k hk; rw [List.drop_append]; simp [Nat.sub_eq_zero_of_le hk]
  have e3 : ∀ k, A.length < k → (A ++ x :: B).drop k = B.drop (k - A.length - 1) := by
    intro k hk
    rw [List.drop_append, List.drop_of_length_le (by omega)]
    obtain ⟨j, hj⟩ : ∃ j, k - A.length = j + 1 := ⟨k - A.length - 1, by omega⟩
    simp [hj]
  have e4 : ∀ k, A.length ≤ k → (A ++ B).drop k = B.drop (k - A.length) := by
    intro k hk; rw [List.drop_append, List.drop_of_length_le hk]; simp
  have t1 : ∀ k, k ≤ A.length → (A ++ x :: B).take k = A.take k := by
    intro k hk; rw [List.take_append]; simp [Nat.sub_eq_zero_of_le hk]
  have t2 : ∀ k, k ≤ A.length → (A ++ B).take k = A.take k := by
    intro k hk; rw [List.take_append]; simp [Nat.sub_eq_zero_of_le hk]
  have t3 : ∀ k, A.length < k → (A ++ x :: B).take k = A ++ x :: B.take (k - A.length - 1) := by
    intro k hk
    rw [List.take_append, List.take_of_length_le (by omega)]
    obtain ⟨j, hj⟩ : ∃ j, k - A.length = j + 1 := ⟨k - A.length - 1, by omega⟩
    simp [hj]
  have t4 : ∀ k, A.length ≤ k → (A ++ B).take k = A ++ B.take (k - A.length) := by
    intro k hk; rw [List.take_append, List.take_of_length_le hk]
  have er1 : ∀ l : List Nat, x ∉ l → l.erase x = l := fun l h => List.erase_of_not_mem h
  have hlen : (A ++ x :: B).length = A.length + B.length + 1 := by simp; omega
  have hlen' : (A ++ B).length = A.length + B.length := by simp
  -- the four shapes of "what remains"
  have fwdShift : ∀ k, A.length ≤ k →
      ((A ++ x :: B).drop (k + 1)).erase x = (A ++ B).drop k ∧ x ∉ (A ++ x :: B).drop (k + 1) := by
    intro k hk
    rw [e3 _ (by omega), e4 _ hk]
    have : k + 1 - A.length - 1 = k - A.length := by omega
    rw [this]
    have hn : x ∉ B.drop (k - A.length) := fun h => hxB (List.mem_of_mem_drop h)
    exact ⟨er1 _ hn, hn⟩
  have fwdStay : ∀ k, k ≤ A.length →
      ((A ++ x :: B).drop k).erase x = (A ++ B).drop k ∧ x ∈ (A ++ x :: B).drop k := by
    intro k hk
    rw [e1 _ hk, e2 _ hk, List.erase_append]
    have : x ∉ A.drop k := fun h => hxA (List.mem_of_mem_drop h)
    simp [this]
  have revShift : ∀ k, A.length ≤ k →
      ((A ++ x :: B).take (k + 1)).reverse.erase x = ((A ++ B).take k).reverse ∧
      x ∈ ((A ++ x :: B).take (k + 1)).reverse := by
    intro k hk
    rw [t3 _ (by omega), t4 _ hk]
    have : k + 1 - A.length - 1 = k - A.length := by omega
    rw [this]
    simp only [List.reverse_append, List.reverse_cons, List.append_assoc, List.singleton_append]
    rw [List.erase_append]
    have : x ∉ (B.take (k - A.length)).reverse := by
      intro h; exact hxB (List.mem_of_mem_take (List.mem_reverse.mp h))
    simp [this]
  have revStay : ∀ k, k ≤ A.length →
      ((A ++ x :: B).take k).reverse.erase x = ((A ++ B).take k).reverse ∧
      x ∉ ((A ++ x :: B).take k).reverse := by
    intro k hk
    rw [t1 _ hk, t2 _ hk]
    have hn : x ∉ (A.take k).reverse := fun h => hxA (List.mem_of_mem_take (List.mem_reverse.mp h))
    exact ⟨er1 _ hn, hn⟩
  cases d with
  | fwd =>
    cases c with
    | done => simp [curInsert, rest, ACur.InRange, seen]
    | att k =>
      simp only [ACur.InRange, hlen'] at hc
      simp only [curInsert, seen]
      by_cases h : A.length < k
      · obtain ⟨a, b⟩ := fwdShift k (by omega)
        simp only [h, if_true, rest, ACur.InRange, hlen]
        exact ⟨a, by omega, ⟨fun m => absurd m b, fun m => by omega⟩⟩
      · obtain ⟨a, b⟩ := fwdStay k (by omega)
        simp only [h, if_false, rest, ACur.InRange, hlen]
        exact ⟨a, by omega, ⟨fun _ => by omega, fun _ => b⟩⟩
    | gap k =>
      simp only [ACur.InRange, hlen'] at hc
      simp only [curInsert, seen]
      by_cases h : A.length ≤ k
      · obtain ⟨a, b⟩ := fwdShift k h
        simp only [h, if_true, rest, ACur.InRange, hlen]
        exact ⟨a, by omega, ⟨fun m => absurd m b, fun m => by omega⟩⟩
      · obtain ⟨a, b⟩ := fwdStay k (by omega)
        simp only [h, if_false, rest, ACur.InRange, hlen]
        exact ⟨a, by omega, ⟨fun _ => by omega, fun _ => b⟩⟩
  | rev =>
    cases c with
    | done => simp [curInsert, rest, ACur.InRange, seen]
    | att k =>
      simp only [ACur.InRange, hlen'] at hc
      simp only [curInsert, seen]
      by_cases h : A.length ≤ k
      · obtain ⟨a, b⟩ := revShift k h
        simp only [h, if_true, rest, ACur.InRange, hlen]
        exact ⟨a, by omega, ⟨fun _ => trivial, fun _ => b⟩⟩
      · obtain ⟨a, b⟩ := revStay k (by omega)
        simp only [h, if_false, rest, ACur.InRange, hlen]
        exact ⟨a, by omega, ⟨fun m => absurd m b, fun m => m.elim⟩⟩
    | gap k =>
      simp only [ACur.InRange, hlen'] at hc
      simp only [curInsert, seen]
      by_cases h : A.length < k
      · obtain ⟨a, b⟩ := revShift k (by omega)
        simp only [h, if_true, rest, ACur.InRange, hlen]
        exact ⟨a, by omega, ⟨fun _ => trivial, fun _ => b⟩⟩
      · obtain ⟨a, b⟩ := revStay k (by omega)
        simp only [h, if_false, rest, ACur.InRange, hlen]
        exact ⟨a, by omega, ⟨fun m => absurd m b, fun m => m.elim⟩⟩

/-! ### public operations: untouched elements keep their place in what a cursor still yields -/

structure St.OK (st : St) : Prop where
  nodup : st.L.Nodup
  inRange : st.c.InRange st.L

/-- what the state's cursor still yields -/
def St.rest (st : St) : List Nat := Spec.rest st.L st.d st.c

theorem filter_erase_of_false {p : Nat → Bool} : ∀ (l : List Nat) (x : Nat), p x = false →
    (l.erase x).filter p = l.filter p
  | [], _, _ => rfl
  | y :: l, x, hx => by
      by_cases hy : y = x
      · subst hy; simp [hx]
      · have : (y == x) = false := by simp [hy]
        rw [List.erase_cons, this]
        simp only [Bool.false_eq_true, if_false, List.filter_cons]
        rw [filter_erase_of_false l x hx]

theorem untouched_erase {T l : List Nat} {x : Nat} (hx : x ∈ T) :
    untouched T (l.erase x) = untouched T l :=
  filter_erase_of_false l x (by simp [hx])

theorem insertIdx_mid' (l1 l2 : List Nat) (x : Nat) : (l1 ++ l2).insertIdx l1.length x = l1 ++ x :: l2 := by
  induction l1 with
  | nil => simp
  | cons a l1 ih => simp [ih]

theorem removeIdx_spec {st : St} (h : st.OK) {x : Nat} (hx : x ∈ st.L) {T : List Nat} (hT : x ∈ T) :
    (removeIdx st (st.L.idxOf x)).OK ∧ (removeIdx st (st.L.idxOf x)).L = st.L.erase x ∧
    untouched T (removeIdx st (st.L.idxOf x)).rest = untouched T st.rest := by
  obtain ⟨A, B, hL⟩ := List.append_of_mem hx
  have hnd := h.nodup
  rw [hL] at hnd
  have hxA : x ∉ A := by grind
  have hi : st.L.idxOf x = A.length := by
    rw [hL, List.idxOf_append]; simp [hxA]
  have he : st.L.eraseIdx A.length = A ++ B := by
    rw [hL, List.eraseIdx_append_of_length_le (Nat.le_refl _)]; simp
  have hc := h.inRange
  rw [hL] at hc
  obtain ⟨r1, r2⟩ := rest_removeIdx A B x hnd st.d st.c hc
  have herase : st.L.erase x = A ++ B := by
    rw [hL, List.erase_append]; simp [hxA]
  refine ⟨⟨?_, ?_⟩, ?_, ?_⟩
  · simp only [removeIdx, hi, he]; grind
  · simp only [removeIdx, hi, he]; exact r2
  · simp only [removeIdx, hi, he, herase]
  · simp only [St.rest, removeIdx, hi, he, r1]
    rw [hL]; exact untouched_erase hT

theorem insertIdx_spec {st : St} (h : st.OK) {x p : Nat} (hx : x ∉ st.L) (hp : p ≤ st.L.length)
    {T : List Nat} (hT : x ∈ T) :
    (insertIdx st p x).OK ∧ (∀ y, y ∈ (insertIdx st p x).L ↔ y = x ∨ y ∈ st.L) ∧
    untouched T (insertIdx st p x).rest = untouched T st.rest := by
  have hL : st.L = st.L.take p ++ st.L.drop p := (List.take_append_drop p st.L).symm
  have hlen : (st.L.take p).length = p := by simp [Nat.min_eq_left hp]
  have hi : st.L.insertIdx p x = st.L.take p ++ x :: st.L.drop p := by
    have := insertIdx_mid' (st.L.take p) (st.L.drop p) x
    rw [hlen, List.take_append_drop] at this
    exact this
  have hx' : x ∉ st.L.take p ++ st.L.drop p := by rw [← hL]; exact hx
  have hc := h.inRange
  rw [hL] at hc
  obtain ⟨r1, r2, _⟩ := rest_insertIdx _ _ x hx' st.d st.c hc
  rw [hlen] at r1 r2
  have hnd := h.nodup
  refine ⟨⟨?_, ?_⟩, ?_, ?_⟩
  · simp only [insertIdx, hi]
    rw [hL] at hnd; grind
  · simp only [insertIdx, hi]; exact r2
  · intro y
    simp only [insertIdx, hi]
    constructor
    · intro hy
      simp only [List.mem_append, List.mem_cons] at hy
      rcases hy with hy | hy | hy
      · exact Or.inr (List.mem_of_mem_take hy)
      · exact Or.inl hy
      · exact Or.inr (List.mem_of_mem_drop hy)
    · rintro (rfl | hy)
      · simp
      · rw [hL] at hy
        simp only [List.mem_append, List.mem_cons] at hy ⊢
        grind
  · simp only [St.rest, insertIdx, hi]
    rw [← untouched_erase (l := Spec.rest _ _ _) hT, r1, ← hL]

/-- an abstract anchor denotes a place of the sequence -/
def AnchorOK (L : List Nat) : Option Nat → Prop
  | none => True
  | some a => a ∈ L

theorem insertOneAfter_spec {st : St} (h : st.OK) {a : Option Nat} (ha : AnchorOK st.L a) (x : Nat)
    {T : List Nat} (hT : x ∈ T) :
    (insertOneAfter st a x).1.OK ∧ AnchorOK (insertOneAfter st a x).1.L (insertOneAfter st a x).2 ∧
    untouched T (insertOneAfter st a x).1.rest = untouched T st.rest := by
  unfold insertOneAfter
  by_cases h1 : a = some x
  · simp only [h1, if_true]
    subst h1
    exact ⟨h, ha, by trivial⟩
  · simp only [h1, if_false]
    -- after the optional removal
    have key : ∃ st1 : St, st1 = (if x ∈ st.L then removeIdx st (st.L.idxOf x) else st) ∧ st1.OK ∧
        x ∉ st1.L ∧ AnchorOK st1.L a ∧ untouched T st1.rest = untouched T st.rest := by
      by_cases hx : x ∈ st.L
      · obtain ⟨o, e, u⟩ := removeIdx_spec h hx hT
        refine ⟨_, rfl, ?_⟩
        rw [if_pos hx]
        refine ⟨o, ?_, ?_, u⟩
        · rw [e]; have := h.nodup; exact fun hm => (List.Nodup.mem_erase_iff this).1 hm |>.1 rfl
        · cases a with
          | none => trivial
          | some a' =>
            simp only [AnchorOK] at ha ⊢
            rw [e]
            exact (List.mem_erase_of_ne (fun e' => h1 (by rw [e']))).2 ha
      · exact ⟨_, rfl, by rw [if_neg hx]; exact ⟨h, hx, ha, rfl⟩⟩
    obtain ⟨st1, e1, o1, hx1, ha1, u1⟩ := key
    rw [← e1]
    cases a with
    | none =>
      obtain ⟨o2, m2, u2⟩ := insertIdx_spec o1 hx1 (Nat.zero_le _) hT
      refine ⟨o2, ?_, ?_⟩
      · simp only [AnchorOK]; exact (m2 x).2 (Or.inl rfl)
      · show untouched T (insertIdx st1 0 x).rest = _
        rw [u2, u1]
    | some a' =>
      simp only [AnchorOK] at ha1
      have hlt := List.idxOf_lt_length_of_mem ha1
      obtain ⟨o2, m2, u2⟩ := insertIdx_spec o1 hx1 (p := st1.L.idxOf a' + 1) (by omega) hT
      refine ⟨o2, ?_, ?_⟩
      · simp only [AnchorOK]; exact (m2 x).2 (Or.inl rfl)
      · show untouched T (insertIdx st1 (st1.L.idxOf a' + 1) x).rest = _
        rw [u2, u1]

theorem insertManyAfter_spec {T : List Nat} : ∀ (xs : List Nat) {st : St} (_ : st.OK) {a : Option Nat}
    (_ : AnchorOK st.L a) (_ : ∀ x ∈ xs, x ∈ T),
    (insertManyAfter st a xs).OK ∧ untouched T (insertManyAfter st a xs).rest = untouched T st.rest
  | [], _, h, _, _, _ => ⟨h, rfl⟩
  | x :: xs, st, h, a, ha, hT => by
      obtain ⟨o, a', u⟩ := insertOneAfter_spec h ha x (hT x (by simp))
      obtain ⟨o2, u2⟩ := insertManyAfter_spec xs o a' (fun y hy => hT y (by simp [hy]))
      simp only [insertManyAfter]
      exact ⟨o2, by rw [u2, u]⟩

theorem anchor_last (L : List Nat) : AnchorOK L L.getLast? := by
  rcases List.eq_nil_or_concat L with rfl | ⟨A, x, rfl⟩
  · trivial
  · simp [AnchorOK]

theorem anchor_pred (L : List Nat) (a : Nat) : AnchorOK L (predOf L a) := by
  unfold predOf
  simp only
  split
  · trivial
  · cases h : L[L.idxOf a - 1]? with
    | none => trivial
    | some y => exact List.mem_of_getElem? h

theorem append_spec {st : St} (h : st.OK) (x : Nat) {T : List Nat} (hT : x ∈ T) :
    (append st x).OK ∧ untouched T (append st x).rest = untouched T st.rest := by
  obtain ⟨o, _, u⟩ := insertOneAfter_spec h (anchor_last st.L) x hT
  exact ⟨o, u⟩

theorem extend_spec {T : List Nat} : ∀ (xs : List Nat) {st : St} (_ : st.OK) (_ : ∀ x ∈ xs, x ∈ T),
    (extend st xs).OK ∧ untouched T (extend st xs).rest = untouched T st.rest
  | [], _, h, _ => ⟨h, rfl⟩
  | x :: xs, st, h, hT => by
      obtain ⟨o, u⟩ := append_spec h x (hT x (by simp))
      obtain ⟨o2, u2⟩ := extend_spec xs o (fun y hy => hT y (by simp [hy]))
      simp only [extend]
      exact ⟨o2, by rw [u2, u]⟩

/-- **every public operation**: the abstract state stays well formed, and the elements the
operation does not touch keep their multiplicity and order in what the cursor still yields. -/
theorem apply_spec {st : St} (h : st.OK) (op : Op) :
    (apply st op).1.OK ∧
    untouched (touched op) (apply st op).1.rest = untouched (touched op) st.rest := by
  cases op with
  | append v => exact append_spec h v (by simp [touched])
  | extend vs => exact extend_spec vs h (fun _ hx => hx)
  | insertAfter a vs =>
    simp only [apply, insertAfter]
    by_cases ha : a ∈ st.L
    · simp only [ha, if_true]
      exact insertManyAfter_spec vs h (a := some a) ha (fun _ hx => hx)
    · simp only [ha, if_false]; exact ⟨h, by trivial⟩
  | insertBefore a vs =>
    simp only [apply, insertBefore]
    by_cases ha : a ∈ st.L
    · simp only [ha, if_true]
      exact insertManyAfter_spec vs h (anchor_pred st.L a) (fun _ hx => hx)
    · simp only [ha, if_false]; exact ⟨h, by trivial⟩
  | remove v =>
    simp only [apply, remove]
    by_cases hv : v ∈ st.L
    · simp only [hv, if_true]
      obtain ⟨o, _, u⟩ := removeIdx_spec h hv (T := touched (.remove v)) (by simp [touched])
      exact ⟨o, u⟩
    · simp only [hv, if_false]; exact ⟨h, by trivial⟩

end IrVerif.LinkedSet.Spec

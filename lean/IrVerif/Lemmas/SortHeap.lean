/-
C12 — the Kahn loop of `Graph.sort` with the real priority queue (`Model/SortHeap.lean`: `heapq`'s binary heap on the
keys `len(nodes) - position`) pops exactly the nodes the loop of `Model/SortIds.lean` pops (`maxKey` / `erase`):
simulation `SimH` = same counters, same popped nodes, the heap list satisfies the heap invariant and holds the keys of
the abstract queue (as a multiset), every queued entry `(position, node)` has `nodes[position] = node`.
No hypothesis on the universe: with a node listed twice both loops still agree (two entries of the same node carry the
same position, `nodeIndex` being last-wins).
-/
import IrVerif.Lemmas.Heap
import IrVerif.Lemmas.SortIds
import IrVerif.Model.SortHeap

namespace IrVerif.Sort
open Heap

/-! ### `neg_node_index[node]` is a position at which `node` stands -/

def nodeIndexUpto (u : List Ent) (n : Nat) : Nat → Nat :=
  (List.range n).foldl (fun f i =>
    match u[i]? with
    | some e => fun x => if x = e.id then i else f x
    | none => f) (fun _ => 0)

theorem nodeIndex_eq (u : List Ent) : nodeIndex u = nodeIndexUpto u u.length := rfl

theorem nodeAtPos_lt {u : List Ent} {i : Nat} (hi : i < u.length) : nodeAtPos u i = u[i].id := by
  simp [nodeAtPos, List.getElem?_eq_getElem hi]

theorem nodeIndexUpto_spec (u : List Ent) : ∀ n, n ≤ u.length → ∀ p, (∃ i, i < n ∧ nodeAtPos u i = p) →
    nodeIndexUpto u n p < n ∧ nodeAtPos u (nodeIndexUpto u n p) = p
  | 0, _, _, ⟨i, hi, _⟩ => by omega
  | n + 1, hn, p, ⟨i, hi, hip⟩ => by
    have hlt : n < u.length := by omega
    have he : u[n]? = some u[n] := List.getElem?_eq_getElem hlt
    have hunf : nodeIndexUpto u (n + 1) = fun x => if x = u[n].id then n else nodeIndexUpto u n x := by
      unfold nodeIndexUpto
      rw [List.range_succ, List.foldl_append]
      simp only [List.foldl_cons, List.foldl_nil, he]
    rw [hunf]
    by_cases hp : p = u[n].id
    · simp only [hp, if_true]
      exact ⟨by omega, nodeAtPos_lt hlt⟩
    · simp only [hp, if_false]
      have hin : i ≠ n := by
        intro e; subst e; rw [nodeAtPos_lt hlt] at hip; exact hp hip.symm
      have ih := nodeIndexUpto_spec u n (by omega) p ⟨i, by omega, hip⟩
      exact ⟨by omega, ih.2⟩

theorem nodeIndex_spec (u : List Ent) {p : Nat} (hp : p ∈ idsOf u) :
    nodeIndex u p < u.length ∧ nodeAtPos u (nodeIndex u p) = p := by
  rw [nodeIndex_eq]
  apply nodeIndexUpto_spec u u.length (Nat.le_refl _)
  obtain ⟨e, he, rfl⟩ := List.mem_map.1 hp
  obtain ⟨i, hi, rfl⟩ := List.getElem_of_mem he
  exact ⟨i, hi, nodeAtPos_lt hi⟩

/-! ### simulation -/

def keyOf (n : Nat) (x : Nat × Nat) : Nat := n - x.1

/-- a queue entry `(position, node)`: `nodes[position]` is `node` -/
def EntOk (u : List Ent) (x : Nat × Nat) : Prop := x.1 < u.length ∧ nodeAtPos u x.1 = x.2

theorem maxKey_ge : ∀ {l : List (Nat × Nat)} {x : Nat × Nat}, maxKey l = some x → ∀ y ∈ l, y.1 ≤ x.1 := by
  intro l
  induction l with
  | nil => intro x h; simp [maxKey] at h
  | cons a as ih =>
    intro x h y hy
    simp only [maxKey] at h
    cases hm : maxKey as with
    | none =>
      have := maxKey_none hm; subst this
      simp [hm] at h; subst h
      simp at hy; subst hy; exact Nat.le_refl _
    | some m =>
      simp only [hm, Option.some.injEq] at h
      have ihm := ih hm
      rcases List.mem_cons.1 hy with rfl | hy
      · by_cases hc : m.1 ≤ y.1
        · simp [hc] at h; subst h; exact Nat.le_refl _
        · simp [hc] at h; subst h; omega
      · have := ihm y hy
        by_cases hc : m.1 ≤ a.1
        · simp [hc] at h; subst h; omega
        · simp [hc] at h; subst h; exact this

theorem relaxH_pos (n : Nat) (idx : Nat → Nat) (d : Nat → Int) (h : List Nat) (p : Nat) (hz : d p - 1 = 0) :
    relaxH n idx (d, h) p = (fun x => if x = p then d x - 1 else d x, heappush h (n - idx p)) := by
  simp [relaxH, hz]

theorem relaxH_neg (n : Nat) (idx : Nat → Nat) (d : Nat → Int) (h : List Nat) (p : Nat) (hz : d p - 1 ≠ 0) :
    relaxH n idx (d, h) p = (fun x => if x = p then d x - 1 else d x, h) := by
  simp [relaxH, hz]

theorem relax_simH {u : List Ent} (idx : Nat → Nat) (hidx : ∀ p ∈ idsOf u, idx p < u.length ∧ nodeAtPos u (idx p) = p)
    (ps : List Nat) (hps : ∀ p ∈ ps, p ∈ idsOf u) :
    ∀ (dep : Nat → Int) (dh : List (Nat × Nat)) (hh : List Nat), HeapFrom 0 hh →
      (∀ a, hh.count a = (dh.map (keyOf u.length)).count a) → (∀ x ∈ dh, EntOk u x) →
      (ps.foldl (relaxD idx) (dep, dh)).1 = (ps.foldl (relaxH u.length idx) (dep, hh)).1 ∧
      HeapFrom 0 (ps.foldl (relaxH u.length idx) (dep, hh)).2 ∧
      (∀ a, (ps.foldl (relaxH u.length idx) (dep, hh)).2.count a =
        ((ps.foldl (relaxD idx) (dep, dh)).2.map (keyOf u.length)).count a) ∧
      (∀ x ∈ (ps.foldl (relaxD idx) (dep, dh)).2, EntOk u x) := by
  induction ps with
  | nil => intro dep dh hh h1 h2 h3; exact ⟨rfl, h1, h2, h3⟩
  | cons p ps ih =>
    intro dep dh hh h1 h2 h3
    simp only [List.foldl_cons]
    have hp := hidx p (hps p (by simp))
    have ih' := ih (fun q hq => hps q (List.mem_cons_of_mem _ hq))
    by_cases hz : dep p - 1 = 0
    · rw [relaxD_pos idx dep dh p hz, relaxH_pos u.length idx dep hh p hz]
      have hs := heappush_spec (u.length - idx p) h1
      apply ih' _ _ _ hs.1
      · intro a
        rw [hs.2.1 a, List.map_cons, List.count_cons, List.count_cons, h2 a]
        rfl
      · intro x hx
        rcases List.mem_cons.1 hx with rfl | hx
        · exact hp
        · exact h3 x hx
    · rw [relaxD_neg idx dep dh p hz, relaxH_neg u.length idx dep hh p hz]
      exact ih' _ _ _ h1 h2 h3

structure SimH (u : List Ent) (d : DState) (s : HState) : Prop where
  depth : d.depth = s.depth
  sorted : d.sorted = s.sorted
  heap : HeapFrom 0 s.heap
  cnt : ∀ a, s.heap.count a = (d.heap.map (keyOf u.length)).count a
  ent : ∀ x ∈ d.heap, EntOk u x

theorem step_simH {u : List Ent} {preds : Nat → List Nat} (idx : Nat → Nat)
    (hidx : ∀ p ∈ idsOf u, idx p < u.length ∧ nodeAtPos u (idx p) = p)
    (hpreds : ∀ x, ∀ p ∈ preds x, p ∈ idsOf u) {d : DState} {s : HState} (sim : SimH u d s) :
    match stepD preds idx d with
    | none => stepH u preds idx s = none
    | some d' => ∃ s', stepH u preds idx s = some s' ∧ SimH u d' s' := by
  cases hm : maxKey d.heap with
  | none =>
    have hnil := maxKey_none hm
    have hs : s.heap = [] := eq_nil_of_count sim.cnt (by rw [hnil]; rfl)
    simp [stepD, hm, stepH, hs, heappop]
  | some x =>
    have hx := maxKey_mem hm
    have hmax := maxKey_ge hm
    have hkx : keyOf u.length x ∈ s.heap :=
      mem_of_count_eq (fun a => (sim.cnt a).symm) (List.mem_map_of_mem hx)
    obtain ⟨m, h1, h2, h3, h4, h5⟩ := heappop_min sim.heap (List.ne_nil_of_mem hkx)
    have hex := sim.ent x hx
    have hmk : m = keyOf u.length x := by
      have hle := h3 _ hkx
      obtain ⟨y, hy, hym⟩ := List.mem_map.1 (mem_of_count_eq sim.cnt h2)
      have := hmax y hy
      unfold keyOf at hym hle ⊢
      omega
    have hpos : u.length - m = x.1 := by
      have := hex.1; unfold keyOf at hmk; omega
    have hpe : heappop s.heap = (some m, (heappop s.heap).2) := Prod.ext h1 rfl
    have hrest : ∀ a, (heappop s.heap).2.count a = ((d.heap.erase x).map (keyOf u.length)).count a := by
      intro a
      have e1 := h5 a
      have e2 := List.perm_iff_count.1 ((List.perm_cons_erase hx).map (keyOf u.length)) a
      rw [List.count_cons] at e1
      rw [List.map_cons, List.count_cons] at e2
      rw [sim.cnt a, e2, hmk] at e1
      omega
    have hr := relax_simH idx hidx (preds x.2) (hpreds x.2) d.depth (d.heap.erase x) (heappop s.heap).2 h4 hrest
      (fun y hy => sim.ent y (List.mem_of_mem_erase hy))
    simp only [stepD, hm]
    refine ⟨_, by rw [stepH, hpe], ?_⟩
    simp only [hpos, hex.2, ← sim.depth, ← sim.sorted]
    exact ⟨hr.1, rfl, hr.2.1, hr.2.2.1, hr.2.2.2⟩

theorem loop_simH {u : List Ent} {preds : Nat → List Nat} (idx : Nat → Nat)
    (hidx : ∀ p ∈ idsOf u, idx p < u.length ∧ nodeAtPos u (idx p) = p)
    (hpreds : ∀ x, ∀ p ∈ preds x, p ∈ idsOf u) :
    ∀ (f : Nat) {d : DState} {s : HState}, SimH u d s → SimH u (loopD preds idx f d) (loopH u preds idx f s)
  | 0, _, _, sim => sim
  | f + 1, d, s, sim => by
    have hst := step_simH idx hidx hpreds sim
    simp only [loopD, loopH]
    cases hd : stepD preds idx d with
    | none => rw [hd] at hst; simp only [hst]; exact sim
    | some d' =>
      rw [hd] at hst
      obtain ⟨s', hs', sim'⟩ := hst
      simp only [hs']
      exact loop_simH idx hidx hpreds f sim'

theorem kahnHeap_sim (u : List Ent) : SimH u (kahnIds u) (kahnHeap u) := by
  unfold kahnIds kahnHeap kahnHeapInit
  have hidx : ∀ p ∈ idsOf u, nodeIndex u p < u.length ∧ nodeAtPos u (nodeIndex u p) = p :=
    fun p hp => nodeIndex_spec u hp
  apply loop_simH (nodeIndex u) hidx (fun x p hp => step1_preds_sub u x p hp)
  have hs := heapify_spec ((initHeapD u (step1 u).depth (nodeIndex u)).map (fun x => u.length - x.1))
  refine ⟨rfl, rfl, hs.1, fun a => hs.2.1 a, ?_⟩
  intro x hx
  simp only [initHeapD, List.mem_map, List.mem_filter] at hx
  obtain ⟨e, ⟨he, _⟩, rfl⟩ := hx
  exact hidx e.id (List.mem_map_of_mem he)

theorem sortHeap_eq_sortIds (g : MGraph) : sortHeap g = sortIds g := by
  unfold sortHeap sortIds
  simp only [(kahnHeap_sim (nodesOf g)).sorted]

end IrVerif.Sort

/-
The IR version < 10 format: the experimental `domain::function/value` entries that `serializeM9 true` (the code
after the repair of D320) appends to the main graph's value_info are INERT for the main graph: deserializing the
main graph with them gives what deserializing it without them gives.

Two ingredients: (1) `_deserialize_graph` depends on its value_info table only through the lookups it performs —
the names of the graph's initializer tensors and the input / output names of its OWN nodes (nested graphs use
their own table); (2) the names of the experimental entries are, by the guard of the repair, not among the
reserved names, and every non-empty name the serialized main graph is looked up with is reserved.
-/
import IrVerif.Model.ScopeFunc9
import IrVerif.Lemmas.ScopeRTMain
namespace IrVerif.Scope

/-! ### (1) the deserializer reads its value_info table only at the names it looks up -/

theorem newNamed_congr {vi vi' : List (Name × Info)} (x : Name) (h : vi.lookup x = vi'.lookup x) (st : Store) :
    newNamed st vi x = newNamed st vi' x := by
  simp only [newNamed, h]

theorem newInit_congr {vi vi' : List (Name × Info)} (t : TensorP) (h : vi.lookup t.name = vi'.lookup t.name)
    (st : Store) (tid : Nat) : newInit st vi t tid = newInit st vi' t tid := by
  simp only [newInit, h]

theorem deserInits_congr {vi vi' : List (Name × Info)} : ∀ (ts : List TensorP) (st : Store) (tbl : Table),
    (∀ t ∈ ts, vi.lookup t.name = vi'.lookup t.name) → deserInits st tbl vi ts = deserInits st tbl vi' ts
  | [], _, _, _ => rfl
  | t :: ts, st, tbl, h => by
    have ih := fun st tbl => deserInits_congr ts st tbl (fun u hu => h u (by simp [hu]))
    have hn := newInit_congr t (h t (by simp))
    simp only [deserInits, ih, hn]

theorem declareOutputs_congr {vi vi' : List (Name × Info)} : ∀ (xs : List Name) (st : Store) (tbl : Table),
    (∀ x ∈ xs, vi.lookup x = vi'.lookup x) → declareOutputs st tbl vi xs = declareOutputs st tbl vi' xs
  | [], _, _, _ => rfl
  | x :: xs, st, tbl, h => by
    have ih := fun st tbl => declareOutputs_congr xs st tbl (fun u hu => h u (by simp [hu]))
    have hn := newNamed_congr x (h x (by simp))
    simp only [declareOutputs, ih, hn]

theorem declareNodes_congr {vi vi' : List (Name × Info)} : ∀ (ns : List NodeP) (st : Store) (tbl : Table),
    (∀ n ∈ ns, ∀ x ∈ n.outputs, vi.lookup x = vi'.lookup x) → declareNodes st tbl vi ns = declareNodes st tbl vi' ns
  | [], _, _, _ => rfl
  | n :: ns, st, tbl, h => by
    have ih := fun st tbl => declareNodes_congr ns st tbl (fun m hm => h m (by simp [hm]))
    have hn := fun st tbl => declareOutputs_congr n.outputs st tbl (h n (by simp))
    simp only [declareNodes, ih, hn]

theorem resolveInputs_congr {vi vi' : List (Name × Info)} (outer : List Table) :
    ∀ (xs : List Name) (st : Store) (top : Table),
      (∀ x ∈ xs, vi.lookup x = vi'.lookup x) → resolveInputs st top outer vi xs = resolveInputs st top outer vi' xs
  | [], _, _, _ => rfl
  | x :: xs, st, top, h => by
    have ih := fun st top => resolveInputs_congr outer xs st top (fun u hu => h u (by simp [hu]))
    have hn := newNamed_congr x (h x (by simp))
    simp only [resolveInputs, ih, hn]

theorem deserNode_congr {vi vi' : List (Name × Info)} (outer : List Table) (n : NodeP) (st : Store) (top : Table)
    (h : ∀ x ∈ n.inputs, vi.lookup x = vi'.lookup x) :
    deserNode st top outer vi n = deserNode st top outer vi' n := by
  obtain ⟨i, o, s⟩ := n
  simp only [deserNode, resolveInputs_congr outer i st top h]

theorem deserNodes_congr {vi vi' : List (Name × Info)} (outer : List Table) :
    ∀ (ns : List NodeP) (st : Store) (top : Table),
      (∀ n ∈ ns, ∀ x ∈ n.inputs, vi.lookup x = vi'.lookup x) →
      deserNodes st top outer vi ns = deserNodes st top outer vi' ns
  | [], _, _, _ => by simp only [deserNodes]
  | n :: ns, st, top, h => by
    have ih := fun st top => deserNodes_congr outer ns st top (fun m hm => h m (by simp [hm]))
    have hn := fun st top => deserNode_congr outer n st top (h n (by simp))
    simp only [deserNodes, ih, hn]

/-- the names the value_info table of a graph is looked up with -/
def lookupNames (its : List TensorP) (nodes : List NodeP) : List Name :=
  its.map (·.name) ++ nodes.flatMap fun n => n.inputs ++ n.outputs

theorem deserGraph_vinfo_congr (st : Store) (outer : List Table) (ins : List VInfoP) (its : List TensorP)
    (vi vi' : List VInfoP) (nodes : List NodeP) (outs : List VInfoP)
    (h : ∀ n ∈ lookupNames its nodes, (vinfoTable vi).lookup n = (vinfoTable vi').lookup n) :
    deserGraph st outer (.mk ins its vi nodes outs) = deserGraph st outer (.mk ins its vi' nodes outs) := by
  have h1 := fun st tbl => deserInits_congr (vi := vinfoTable vi) (vi' := vinfoTable vi') its st tbl
    (fun t ht => h _ (by simp only [lookupNames, List.mem_append, List.mem_map]; exact .inl ⟨t, ht, rfl⟩))
  have h2 := fun st tbl => declareNodes_congr (vi := vinfoTable vi) (vi' := vinfoTable vi') nodes st tbl
    (fun n hn x hx => h _ (by
      simp only [lookupNames, List.mem_append, List.mem_flatMap]
      exact .inr ⟨n, hn, .inr hx⟩))
  have h3 := fun st top => deserNodes_congr (vi := vinfoTable vi) (vi' := vinfoTable vi') outer nodes st top
    (fun n hn x hx => h _ (by
      simp only [lookupNames, List.mem_append, List.mem_flatMap]
      exact .inr ⟨n, hn, .inl hx⟩))
  simp only [deserGraph, h1, h2, h3]

theorem lookup_append_of_not_key {α : Type} (A B : List (Name × α)) (n : Name) (h : ∀ e ∈ A, e.1 ≠ n) :
    (A ++ B).lookup n = B.lookup n := by
  induction A with
  | nil => rfl
  | cons e A ih =>
    obtain ⟨k, v⟩ := e
    have hk : k ≠ n := h (k, v) (by simp)
    have : (n == k) = false := by simpa using fun e => hk e.symm
    simp only [List.cons_append, List.lookup_cons, this]
    exact ih (fun e he => h e (by simp [he]))

/-- entries appended to the value_info of a graph under names the graph is never looked up with change nothing -/
theorem deserGraph_vinfo_extra (st : Store) (outer : List Table) (ins : List VInfoP) (its : List TensorP)
    (vi extra : List VInfoP) (nodes : List NodeP) (outs : List VInfoP)
    (h : ∀ e ∈ extra, e.name ∉ lookupNames its nodes) :
    deserGraph st outer (.mk ins its (vi ++ extra) nodes outs) = deserGraph st outer (.mk ins its vi nodes outs) := by
  apply deserGraph_vinfo_congr
  intro n hn
  simp only [vinfoTable, List.map_append, List.reverse_append]
  apply lookup_append_of_not_key
  intro e he
  simp only [List.mem_reverse, List.mem_map] at he
  obtain ⟨x, hx, rfl⟩ := he
  intro heq
  exact h x hx (by simpa [← heq] using hn)

/-! ### (2) the names of the experimental entries are never looked up -/

theorem expVInfo_mem (vals : Nat → ValueS) (reserved : List Name) (id : FId) :
    ∀ (vs : List Nat), ∀ e ∈ expVInfo vals reserved id vs, reserved.contains e.name = false ∧ parseExp e.name ≠ none
  | [], e, he => by simp [expVInfo] at he
  | v :: vs, e, he => by
    simp only [expVInfo] at he
    split at he
    · rename_i hc
      simp only [List.mem_cons] at he
      rcases he with rfl | he
      · simp only [Bool.and_eq_true, canParseBack, Bool.not_eq_true', beq_iff_eq] at hc
        exact ⟨hc.2.1, by rw [hc.2.2]; simp⟩
      · exact expVInfo_mem vals reserved id vs e he
    · exact expVInfo_mem vals reserved id vs e he

theorem expOfFunc_mem (vals : Nat → ValueS) (reserved : List Name) (f : FId × GraphT) :
    ∀ e ∈ expOfFunc vals reserved f, reserved.contains e.name = false ∧ parseExp e.name ≠ none := by
  intro e he
  unfold expOfFunc at he
  split at he
  · simp at he
  · obtain ⟨id, g⟩ := f
    obtain ⟨gid, ins, inits, nodes, outs⟩ := g
    simp only [List.mem_append] at he
    rcases he with he | he
    · exact expVInfo_mem vals reserved _ _ e he
    · exact expVInfo_mem vals reserved _ _ e he

theorem parseExp_empty : parseExp "" = none := by decide

theorem serInits_tensor_names (V : Nat → ValueS) (td : TData) (inames : List (Option Name)) :
    ∀ (its : List (Name × Nat)), ∀ t ∈ (serInits V td inames its).2.1, ∃ kv ∈ its, t.name = nm V kv.2
  | [], t, ht => by simp [serInits] at ht
  | (k, v) :: its, t, ht => by
    simp only [serInits] at ht
    split at ht
    · obtain ⟨kv, hkv, h⟩ := serInits_tensor_names V td inames its t ht
      exact ⟨kv, by simp [hkv], h⟩
    · simp only [List.mem_cons] at ht
      rcases ht with rfl | ht
      · exact ⟨(k, v), by simp, rfl⟩
      · obtain ⟨kv, hkv, h⟩ := serInits_tensor_names V td inames its t ht
        exact ⟨kv, by simp [hkv], h⟩

theorem serNodes_names (V : Nat → ValueS) (td : TData) (go : List Nat) :
    ∀ (nodes : List NodeT) (nps : List NodeP) (vis : List VInfoP) (ws : Writes),
      serNodes V td go nodes = .ok (nps, vis, ws) →
      ∀ np ∈ nps, ∃ n ∈ nodes, np.inputs = n.inputs.map (inName V) ∧ np.outputs = (stripTrailing V n.outputs).map (nm V)
  | [], nps, vis, ws, h => by
    simp only [serNodes, Except.ok.injEq, Prod.mk.injEq] at h
    obtain ⟨rfl, _, _⟩ := h
    simp
  | n :: ns, nps, vis, ws, h => by
    obtain ⟨np, vi1, ws1, nps', vis', ws2, h1, h2, rfl⟩ := serNodes_inv h
    obtain ⟨i, g, a, b, c⟩ := n
    obtain ⟨gps, ws', _, rfl, _⟩ := serNode_inv h1
    intro np hnp
    simp only [List.mem_cons] at hnp
    rcases hnp with rfl | hnp
    · exact ⟨.mk i g a b c, by simp, rfl, rfl⟩
    · obtain ⟨m, hm, e1, e2⟩ := serNodes_names V td go ns nps' vis' ws2 h2 np hnp
      exact ⟨m, by simp [hm], e1, e2⟩

/-- every non-empty name the serialized main graph is looked up with is a reserved name -/
theorem lookupNames_reserved (V : Nat → ValueS) (td : TData) (gid : Nat) (ins : List Nat) (inits : List (Name × Nat))
    (nodes : List NodeT) (outs : List Nat) (nps : List NodeP) (vis : List VInfoP) (ws : Writes)
    (hn : serNodes V td outs nodes = .ok (nps, vis, ws))
    (hkeys : ∀ kv ∈ inits, (V kv.2).name = some kv.1) :
    ∀ x ∈ lookupNames (serInits V td (ins.map fun v => (V v).name) inits).2.1 nps, x ≠ "" →
      x ∈ reservedNames V (.mk gid ins inits nodes outs) := by
  intro x hx hne
  simp only [lookupNames, List.mem_append, List.mem_map, List.mem_flatMap] at hx
  simp only [reservedNames, List.mem_append, List.mem_filterMap, List.mem_filter, List.mem_map, List.mem_flatMap]
  rcases hx with ⟨t, ht, rfl⟩ | ⟨np, hnp, hx⟩
  · obtain ⟨kv, hkv, hname⟩ := serInits_tensor_names V td _ inits t ht
    have hk := hkeys kv hkv
    have : t.name = kv.1 := by rw [hname]; simp [nm, hk]
    right
    exact ⟨⟨kv, hkv, this.symm⟩, by simpa [this] using hne⟩
  · obtain ⟨n, hnm, e1, e2⟩ := serNodes_names V td outs nodes nps vis ws hn np hnp
    left
    have key : ∀ v, (some v ∈ n.inputs ∨ v ∈ n.outputs) → nm V v = x →
        ∃ a, (∃ n ∈ nodes, (∃ o ∈ n.inputs, id o = some a) ∨ a ∈ n.outputs) ∧
          (match (V a).name with | some s => if s = "" then none else some s | none => none) = some x := by
      intro v hv hvx
      refine ⟨v, ⟨n, hnm, ?_⟩, ?_⟩
      · rcases hv with hv | hv
        · left; exact ⟨some v, hv, rfl⟩
        · right; exact hv
      · cases hname : (V v).name with
        | none => exact absurd (show x = "" by rw [← hvx]; simp [nm, hname]) hne
        | some s =>
          have : s = x := by simpa [nm, hname] using hvx
          subst this
          simp [hne]
    rcases hx with hx | hx
    · rw [e1, List.mem_map] at hx
      obtain ⟨o, ho, hox⟩ := hx
      cases o with
      | none => exact absurd hox.symm hne
      | some v => exact key v (.inl ho) hox
    · rw [e2, List.mem_map] at hx
      obtain ⟨v, hv, hvx⟩ := hx
      exact key v (.inr (stripTrailing_sub V _ v hv)) hvx

/-- the experimental entries that `serializeM9 true` appends to the main graph's value_info are inert: with or
    without them the main graph deserializes to the same store and tree (or the same error), in every store and
    under every scope stack -/
theorem ir9_entries_inert (m w1 : MWorld) (Q : ModelP) (h : serializeM9 true m = .ok (w1, Q))
    (hkeys : ∀ kv ∈ m.root.inits, (m.st.vals kv.2).name = some kv.1) :
    ∃ q, serializeM m = .ok (w1, q) ∧
      ∀ (st : Store) (outer : List Table), deserGraph st outer Q.graph = deserGraph st outer q.graph := by
  simp only [serializeM9] at h
  split at h
  · simp at h
  · rename_i w1' q hq
    simp only [if_true, Except.ok.injEq, Prod.mk.injEq] at h
    obtain ⟨rfl, rfl⟩ := h
    refine ⟨q, hq, fun st outer => ?_⟩
    simp only [serializeM] at hq
    split at hq
    · simp at hq
    · rename_i p ws1 hp
      split at hq
      · simp at hq
      · simp only [Except.ok.injEq, Prod.mk.injEq] at hq
        obtain ⟨_, rfl⟩ := hq
        obtain ⟨st0, root, funcs⟩ := m
        obtain ⟨gid, ins, inits, nodes, outs⟩ := root
        obtain ⟨nps, vis2, ws2, hn, rfl⟩ := serGraph_inv hp
        simp only [addVInfo]
        apply deserGraph_vinfo_extra
        intro e he hmem
        simp only [List.mem_flatMap] at he
        obtain ⟨f, _, hef⟩ := he
        obtain ⟨hres, hparse⟩ := expOfFunc_mem _ _ f e hef
        have hne : e.name ≠ "" := fun h0 => hparse (by rw [h0]; exact parseExp_empty)
        have := lookupNames_reserved st0.vals st0.tdata gid ins inits nodes outs nps vis2 ws2 hn hkeys e.name hmem hne
        simp only [List.contains_eq_mem, decide_eq_false_iff_not] at hres
        exact hres this

end IrVerif.Scope

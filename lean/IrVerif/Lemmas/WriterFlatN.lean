/-
C09: the flat writer model is the one-pool instance of the general model.  `absState` / `absLabel` / `toN`
(Model/WriterFlatN.lean) commute with `step` in both directions (a functional lock-step bisimulation), the
initial states correspond, and labels of pools other than pool 0 are never enabled — so the schedules of
`IrVerif.Writer` on `cfg` ARE the schedules of `IrVerif.WriterN` on `toN cfg`.
-/
import IrVerif.Model.WriterFlatN
import IrVerif.Lemmas.WriterInv
import IrVerif.Lemmas.WriterNInv
namespace IrVerif.Writer

/-! ### configuration -/

theorem toNTensor_default : toNTensor default = default := rfl

theorem getD_map_toN (ts : List Tensor) (i : Nat) :
    (ts.map toNTensor).getD i default = toNTensor (ts.getD i default) := by
  simp only [List.getD_eq_getElem?_getD, List.getElem?_map]
  cases ts[i]? <;> rfl

section cfg
variable (cfg : Cfg)

@[simp] theorem toN_n : (toN cfg).n = cfg.n := by simp [WriterN.Cfg.n, toN, Cfg.n]
@[simp] theorem toN_nJobs : (toN cfg).nJobs = cfg.nJobs := by simp [WriterN.Cfg.nJobs, toN, Cfg.nJobs]
@[simp] theorem toN_nPools : (toN cfg).nPools = 1 := by simp [WriterN.Cfg.nPools, toN]
@[simp] theorem toN_size (i : Nat) : (toN cfg).size i = cfg.size i := by
  simp only [WriterN.Cfg.size, toN, Cfg.size, getD_map_toN, toNTensor]
@[simp] theorem toN_obj (i : Nat) : (toN cfg).obj i = cfg.obj i := by
  simp only [WriterN.Cfg.obj, toN, Cfg.obj, getD_map_toN, toNTensor]
@[simp] theorem toN_fails (i : Nat) : (toN cfg).fails i = cfg.fails i := by
  simp only [WriterN.Cfg.fails, toN, Cfg.fails, getD_map_toN, toNTensor]
@[simp] theorem toN_cbFails (i : Nat) : (toN cfg).cbFails i = cfg.cbFails i := by
  simp only [WriterN.Cfg.cbFails, toN, Cfg.cbFails, getD_map_toN, toNTensor]
@[simp] theorem toN_job (i : Nat) : (toN cfg).job i = cfg.job i := by
  simp only [WriterN.Cfg.job, toN, Cfg.job, getD_map_toN, toNTensor]
@[simp] theorem toN_capacity : (toN cfg).capacity = cfg.capacity := rfl
@[simp] theorem toN_nObjs : (toN cfg).nObjs = cfg.nObjs := rfl
@[simp] theorem toN_files : (toN cfg).files = cfg.files := rfl
@[simp] theorem toN_pool0 : (toN cfg).pool 0 =
    ⟨cfg.workers, decide (cfg.mode = .parallel), List.range cfg.nJobs, false, none⟩ := rfl

theorem toN_jobc (j : Nat) : (toN cfg).jobc j = ⟨0, cfg.jobStarts.getD j 0, none⟩ := by
  simp only [WriterN.Cfg.jobc, toN, List.getD_eq_getElem?_getD, List.getElem?_map]
  cases cfg.jobStarts[j]? <;> rfl

@[simp] theorem toN_poolOf (i : Nat) : (toN cfg).poolOf i = 0 := by
  simp [WriterN.Cfg.poolOf, toN_jobc]

@[simp] theorem toN_hasNext (i : Nat) : (toN cfg).hasNext i = cfg.hasNext i := by
  simp [WriterN.Cfg.hasNext, Cfg.hasNext]

@[simp] theorem toN_afterT : WriterN.afterT (toN cfg) 0 = .cbAcq := by
  simp [WriterN.afterT]

theorem toN_writeTask (fs : List (List Nat)) (i : Nat) :
    WriterN.writeTask (toN cfg) fs i = writeTask cfg fs i := by
  simp only [WriterN.writeTask, writeTask, toN, getD_map_toN, toNTensor]
  rfl

end cfg

/-! ### state -/

theorem absPc_wake (p : Pc) : absPc (wake p) = WriterN.wake (absPc p) := by cases p <;> rfl

theorem map_wake (ts : List Pc) : (ts.map wake).map absPc = (ts.map absPc).map WriterN.wake := by
  simp [List.map_map, Function.comp_def, absPc_wake]

theorem abs_tasks_get (s : State) (i : Nat) : (absState s).tasks[i]? = (s.tasks[i]?).map absPc := by
  simp [absState]

theorem abs_pools0 (s : State) : (absState s).pools[0]? =
    some ⟨absMain s.main, s.queue, s.collected, s.idle, s.exited, s.shutdown⟩ := rfl

theorem abs_init (cfg : Cfg) : absState (init cfg) = WriterN.init (toN cfg) := by
  simp [absState, init, WriterN.init, WriterN.initPool, absMain, absFut, absPc, List.range_one]

theorem abs_terminal (s : State) : WriterN.terminal (absState s) = terminal s := by
  simp only [WriterN.terminal, terminal, absState, List.getD_cons_zero]
  cases s.main <;> rfl

theorem abs_finishTask (cfg : Cfg) (s : State) (i : Nat) (ok : Bool) :
    absState (finishTask cfg s i ok) = WriterN.finishTask (toN cfg) (absState s) i ok := by
  simp only [finishTask, WriterN.finishTask, toN_hasNext, toN_poolOf, toN_job]
  split
  · simp [absState, List.map_set, absPc, WriterN.firstPc]
  · cases ok <;>
      simp [absState, List.map_set, absPc, absFut, WriterN.addIdle]

theorem abs_budgetTry (cfg : Cfg) (s : State) (i : Nat) :
    absState (budgetTry cfg s i) = WriterN.budgetTry (toN cfg) (absState s) i := by
  simp only [budgetTry, WriterN.budgetTry, toN_size, toN_capacity]
  have e1 : (absState s).oversized = s.oversized := rfl
  have e2 : (absState s).inFlight = s.inFlight := rfl
  rw [e1, e2]
  split
  · split <;> simp [absState, List.map_set, absPc]
  · split <;> simp [absState, List.map_set, absPc]

theorem abs_budgetRelease (cfg : Cfg) (s : State) (i : Nat) (ok : Bool) :
    absState (budgetRelease cfg s i ok) = WriterN.budgetRelease (toN cfg) (absState s) i ok := by
  simp only [budgetRelease, WriterN.budgetRelease, abs_finishTask, toN_size, toN_capacity, toN_obj]
  congr 1
  simp [absState, absPc_wake]

theorem abs_futDone (s : State) (j : Nat) : WriterN.futDone (absState s) j = futDone s j := by
  simp only [WriterN.futDone, futDone, absState, List.getElem?_map]
  cases s.futs[j]? with
  | none => rfl
  | some f => cases f <;> rfl

theorem abs_stepTask (cfg : Cfg) (s : State) (i : Nat) :
    (stepTask cfg s i).map absState = WriterN.stepTask (toN cfg) (absState s) i := by
  simp only [stepTask, WriterN.stepTask, abs_tasks_get]
  cases h : s.tasks[i]? with
  | none => simp
  | some p =>
    have eT : (absState s).tLocks = s.tLocks := rfl
    have eC : (absState s).cbLock = s.cbLock := rfl
    cases p with
    | notStarted => simp [absPc]
    | tAcq =>
        simp only [Option.map_some, absPc, eT, toN_obj, toN_poolOf, toN_afterT]
        split <;> simp [absState, List.map_set, absPc]
    | cbAcq =>
        simp only [Option.map_some, absPc, eC]
        split <;> simp [absState, List.map_set, absPc]
    | cbBody =>
        simp only [Option.map_some, absPc, toN_cbFails, toN_poolOf, toN_pool0, toN_obj]
        split
        · simp only [Option.map_some, abs_finishTask]
          congr 2
        · simp [absState, List.map_set, absPc]
    | bAcq => simp [absPc, abs_budgetTry]
    | waiting => simp [absPc]
    | woken => simp [absPc, abs_budgetTry]
    | write =>
        simp only [Option.map_some, absPc, toN_fails]
        split
        · simp [absState, List.map_set, absPc]
        · simp [absState, List.map_set, absPc, toN_writeTask]
    | bRel ok => simp [absPc, abs_budgetRelease]
    | done ok => simp [absPc]

/-- the state of pool 0 in the translated state -/
def absPool (s : State) : WriterN.PoolSt := ⟨absMain s.main, s.queue, s.collected, s.idle, s.exited, s.shutdown⟩

theorem abs_pools (s : State) : (absState s).pools = [absPool s] := rfl

theorem fold_cancel (q : List Nat) (fs : List Fut) :
    (q.foldl (fun fs x => fs.set x Fut.cancelled) fs).map absFut =
      q.foldl (fun fs x => fs.set x WriterN.Fut.cancelled) (fs.map absFut) := by
  induction q generalizing fs with
  | nil => rfl
  | cons x q ih => simp only [List.foldl_cons, ih, List.map_set]; rfl

theorem mode_cases (cfg : Cfg) : cfg.mode = .parallel ∨ cfg.mode = .shards := by
  cases cfg.mode <;> simp

theorem abs_collectOne (cfg : Cfg) (s : State) (j : Nat) (ok : Bool) :
    absState (collectOne cfg s j ok) =
      WriterN.collectOne (toN cfg) (absState s) 0 (absPool s) j ok := by
  simp only [collectOne, WriterN.collectOne, toN_pool0, absPool, List.length_range, List.length_cons]
  cases ok with
  | true =>
      simp only [if_true]
      split
      · simp [absState, absMain]
      · simp [absState, absMain]
  | false =>
      rcases mode_cases cfg with hm | hm
      · simp [hm, absState, absMain, fold_cancel]
      · simp [hm, absState, absMain]

theorem range_get (n k : Nat) : (List.range n)[k]? = if k < n then some k else none := by
  split
  · rename_i h; simp [h]
  · rename_i h; simp [Nat.le_of_not_gt h]

theorem abs_stepMain (cfg : Cfg) (s : State) (hf : s.futs.length = cfg.nJobs) (c : Nat) :
    (stepMain cfg s c).map absState = WriterN.stepOwner (toN cfg) (absState s) 0 c := by
  simp only [stepMain, WriterN.stepOwner, abs_pools0]
  cases hm : s.main with
  | submit k =>
      simp only [absMain, toN_pool0, range_get, List.length_range]
      by_cases hk : k < cfg.nJobs
      · by_cases hk1 : k + 1 < cfg.nJobs
        · simp [hk, hk1, absState, hm, absMain]
        · simp [hk, hk1, absState, hm, absMain]
      · simp [hk]
  | collect =>
      simp only [absMain, toN_pool0]
      rcases mode_cases cfg with hmode | hmode
      · simp only [hmode, decide_true, if_true]
        by_cases hc : s.collected.contains c = true
        · have hc2 : c ∈ s.collected := by simpa using hc
          simp [hc2]
        · have hc' : s.collected.contains c = false := by simpa using hc
          by_cases hcn : c < cfg.nJobs
          · have : (List.range cfg.nJobs).contains c = true := by simp [hcn]
            simp only [hc', this, Bool.false_eq_true, if_false, Bool.not_true, Bool.or_self]
            rw [abs_futDone]
            cases futDone s c with
            | none => rfl
            | some ok =>
                simp only [Option.map_some]
                rw [abs_collectOne]; simp [absPool, hm, absMain]
          · have h1 : (List.range cfg.nJobs).contains c = false := by simp [hcn]
            have h2 : futDone s c = none := by
              simp only [futDone]
              rw [List.getElem?_eq_none (by omega)]
            have hc2 : ¬ c ∈ s.collected := by simpa using hc
            simp only [h2, Option.map_none, hc', Bool.false_eq_true, if_false, h1, Bool.not_false, Bool.or_true,
              if_true]
      · have hdec : decide (Mode.shards = Mode.parallel) = false := by decide
        simp only [hmode, range_get, hdec, Bool.false_eq_true, if_false]
        by_cases hk : s.collected.length < cfg.nJobs
        · simp only [hk, if_true]
          rw [abs_futDone]
          cases futDone s s.collected.length with
          | none => rfl
          | some ok =>
              simp only [Option.map_some]
              rw [abs_collectOne]; simp [absPool, hm, absMain]
        · have h2 : futDone s s.collected.length = none := by
            simp only [futDone]
            rw [List.getElem?_eq_none (by omega)]
          simp [h2, hk]
  | join e =>
      simp only [absMain, toN_pool0]
      by_cases he : s.exited = cfg.workers
      · simp [he, absState, hm, absMain]
      · simp [he]
  | finished e => simp [absMain]

theorem abs_stepTake (cfg : Cfg) (s : State) :
    (step cfg s .take).map absState = WriterN.stepTake (toN cfg) (absState s) 0 := by
  simp only [step, WriterN.stepTake, abs_pools0]
  cases hq : s.queue with
  | nil => simp
  | cons j q =>
      simp only []
      split
      · simp
      · simp [toN_jobc, absState, List.map_set, absFut, absPc, WriterN.firstPc, hq]

theorem abs_stepExit (cfg : Cfg) (s : State) :
    (step cfg s .exit).map absState = WriterN.stepExit (toN cfg) (absState s) 0 := by
  simp only [step, WriterN.stepExit, abs_pools0]
  split
  · simp [absState]
  · simp

/-- **lock step**: a step of the flat model is the same step of the general model on the translated
    configuration, state and label — and the other way round (both sides are functions) -/
theorem step_abs (cfg : Cfg) (s : State) (hf : s.futs.length = cfg.nJobs) (l : Label) :
    (step cfg s l).map absState = WriterN.step (toN cfg) (absState s) (absLabel l) := by
  cases l with
  | main c => exact abs_stepMain cfg s hf c
  | take => exact abs_stepTake cfg s
  | exit => exact abs_stepExit cfg s
  | task i => exact abs_stepTask cfg s i

/-- labels of the general model that are not translations of flat labels (pools other than pool 0) are
    never enabled in a translated state -/
theorem step_other (cfg : Cfg) (s : State) (l' : WriterN.Label)
    (h : (WriterN.step (toN cfg) (absState s) l').isSome = true) : ∃ l, l' = absLabel l := by
  cases l' with
  | owner q c =>
      cases q with
      | zero => exact ⟨.main c, rfl⟩
      | succ q => simp [WriterN.step, WriterN.stepOwner, absState] at h
  | take q =>
      cases q with
      | zero => exact ⟨.take, rfl⟩
      | succ q => simp [WriterN.step, WriterN.stepTake, absState] at h
  | exit q =>
      cases q with
      | zero => exact ⟨.exit, rfl⟩
      | succ q => simp [WriterN.step, WriterN.stepExit, absState] at h
  | task i => exact ⟨.task i, rfl⟩

/-! ### the invariant `futs.length = nJobs` -/

theorem fold_set_length {α : Type} (q : List Nat) (fs : List α) (v : α) :
    (q.foldl (fun fs x => fs.set x v) fs).length = fs.length := by
  induction q generalizing fs with
  | nil => rfl
  | cons x q ih => simp [ih]

theorem finishTask_futs (cfg : Cfg) (s : State) (i : Nat) (ok : Bool) :
    (finishTask cfg s i ok).futs.length = s.futs.length := by
  simp only [finishTask]; split <;> simp

theorem step_futs_length {cfg : Cfg} {s s' : State} {l : Label} (h : step cfg s l = some s') :
    s'.futs.length = s.futs.length := by
  cases l with
  | main c =>
      simp only [step, stepMain] at h
      split at h
      · split at h
        · cases h; rfl
        · simp at h
      · have key : ∀ j ok, (collectOne cfg s j ok).futs.length = s.futs.length := by
          intro j ok
          simp only [collectOne]
          split
          · split <;> rfl
          · split
            · simp [fold_set_length]
            · rfl
        split at h
        · split at h
          · simp at h
          · simp only [Option.map_eq_some_iff] at h
            obtain ⟨ok, _, rfl⟩ := h; exact key _ _
        · simp only [Option.map_eq_some_iff] at h
          obtain ⟨ok, _, rfl⟩ := h; exact key _ _
      · split at h
        · cases h; rfl
        · simp at h
      · simp at h
  | take =>
      simp only [step] at h
      split at h
      · simp at h
      · split at h
        · simp at h
        · cases h; simp
  | exit =>
      simp only [step] at h
      split at h
      · cases h; rfl
      · simp at h
  | task i =>
      simp only [step, stepTask] at h
      split at h
      · split at h
        · simp at h
        · cases h; rfl
      · split at h
        · simp at h
        · cases h; rfl
      · split at h
        · cases h; rw [finishTask_futs]
        · cases h; rfl
      · cases h; simp only [budgetTry]; split <;> split <;> rfl
      · cases h; simp only [budgetTry]; split <;> split <;> rfl
      · split at h <;> (cases h; rfl)
      · cases h; simp only [budgetRelease]; rw [finishTask_futs]
      · simp at h

theorem run_futs_length {cfg : Cfg} : ∀ (ls : List Label) {s s' : State}, run cfg s ls = some s' →
    s'.futs.length = s.futs.length
  | [], s, s', h => by simp [run] at h; subst h; rfl
  | l :: ls, s, s', h => by
      simp only [run] at h
      split at h
      · simp at h
      · rename_i s1 hs1
        rw [run_futs_length ls h, step_futs_length hs1]

/-- runs correspond -/
theorem run_abs (cfg : Cfg) : ∀ (ls : List Label) (s : State), s.futs.length = cfg.nJobs →
    (run cfg s ls).map absState = WriterN.run (toN cfg) (absState s) (ls.map absLabel)
  | [], s, _ => rfl
  | l :: ls, s, hf => by
      simp only [run, WriterN.run, List.map_cons]
      rw [← step_abs cfg s hf l]
      cases hst : step cfg s l with
      | none => rfl
      | some s1 =>
          simp only [Option.map_some]
          exact run_abs cfg ls s1 (by rw [step_futs_length hst]; exact hf)

/-! ### well-formedness carries over -/

theorem toN_pool_succ (cfg : Cfg) (q : Nat) : (toN cfg).pool (q + 1) = default := by
  simp [WriterN.Cfg.pool, toN]

theorem toN_wf {cfg : Cfg} (wf : WF cfg) : WriterN.WF (toN cfg) := by
  have q0 : ∀ q, q < (toN cfg).nPools → q = 0 := by intro q hq; simp at hq; exact hq
  have jl : ∀ j, j < (toN cfg).nJobs → j < cfg.nJobs := by intro j hj; simpa using hj
  have il : ∀ i, i < (toN cfg).n → i < cfg.n := by intro i hi; simpa using hi
  refine ⟨by simp, rfl, ?_, ?_, ?_, ?_, ?_, ?_, ?_, ?_, ?_, ?_, ?_, ?_, ?_, ?_, ?_⟩
  · intro q hq hne; exact absurd (q0 q hq) hne
  · intro q hq; rw [q0 q hq]; simpa using wf.workers_pos
  · intro q hq; rw [q0 q hq]; simpa using wf.jobs_pos
  · intro q
    cases q with
    | zero => simp [List.nodup_range]
    | succ q => rw [toN_pool_succ]; exact List.nodup_nil
  · intro q j hj
    cases q with
    | zero =>
        have : j < cfg.nJobs := by simpa using hj
        exact ⟨by simpa using this, by simp [toN_jobc], by simp⟩
    | succ q => rw [toN_pool_succ] at hj; exact absurd hj (List.not_mem_nil)
  · intro j hj; simp only [toN_jobc, toN_pool0]; simpa using jl j hj
  · intro j hj _; simp only [toN_jobc, toN_n]; exact wf.start_lt j (jl j hj)
  · intro j hj _; simp only [toN_jobc, toN_job]; exact wf.start_job j (jl j hj)
  · intro j i hj _ hi; simp only [toN_jobc] at hi; simp only [toN_job]; exact wf.start_first j i (jl j hj) hi
  · intro i hi; simp only [toN_job, toN_nJobs]; exact wf.job_lt i (il i hi)
  · intro i _; simp [toN_jobc]
  · intro i hi; simp only [toN_obj, toN_nObjs]; exact wf.obj_lt i (il i hi)
  · intro i k hik hk he; simp only [toN_job] at he ⊢; exact wf.contig i k hik (il k hk) he
  · intro j q' _ hs; simp [toN_jobc] at hs
  · intro q jp hq hp; rw [q0 q hq] at hp; simp at hp

end IrVerif.Writer

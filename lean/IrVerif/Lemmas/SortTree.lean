/-
C12 — structural facts about the node universe of a graph tree (pre-order spans, owners,
per-graph filters).  Everything here is about `Model/Sort.lean`'s traversal functions.
-/
import IrVerif.Lemmas.SortKahn
import Mathlib.Data.List.Basic
import Mathlib.Data.List.Pairwise
import Mathlib.Data.List.Nodup

namespace IrVerif.Sort
open List

/-! ## flat characterisations and the induction principle -/

theorem entsNs_eq (gid : Nat) (ns : List MNode) : entsNs gid ns = ns.flatMap (entsN gid) := by
  induction ns with
  | nil => simp [entsNs]
  | cons n ns ih => simp [entsNs, ih]

theorem entsGs_eq (gs : List MGraph) : entsGs gs = gs.flatMap (fun g => entsNs g.1 g.2) := by
  induction gs with
  | nil => simp [entsGs]
  | cons g gs ih => obtain ⟨k, ns⟩ := g; simp [entsGs, ih]

theorem entsN_eq (gid : Nat) (n : MNode) :
    entsN gid n = ⟨n.id, gid, n.inputs, subNodeIds n.subs⟩ :: entsGs n.subs := by
  cases n; simp [entsN, MNode.id, MNode.inputs, MNode.subs]

theorem subgraphsNs_eq (ns : List MNode) : subgraphsNs ns = ns.flatMap subgraphsN := by
  induction ns with
  | nil => simp [subgraphsNs]
  | cons n ns ih => simp [subgraphsNs, ih]

theorem subgraphsGs_eq (gs : List MGraph) :
    subgraphsGs gs = gs.flatMap (fun g => g :: subgraphsNs g.2) := by
  induction gs with
  | nil => simp [subgraphsGs]
  | cons g gs ih => obtain ⟨k, ns⟩ := g; simp [subgraphsGs, ih]

theorem subgraphsN_eq (n : MNode) : subgraphsN n = subgraphsGs n.subs := by
  cases n; simp [subgraphsN, MNode.subs]

mutual
theorem MNode.ind_aux {P : MNode → Prop}
    (h : ∀ n : MNode, (∀ g ∈ n.subs, ∀ m ∈ g.2, P m) → P n) : ∀ n : MNode, P n
  | .mk i ins subs => h (.mk i ins subs) (MNode.ind_auxGs h subs)
theorem MNode.ind_auxGs {P : MNode → Prop}
    (h : ∀ n : MNode, (∀ g ∈ n.subs, ∀ m ∈ g.2, P m) → P n) :
    ∀ gs : List (Nat × List MNode), ∀ g ∈ gs, ∀ m ∈ g.2, P m
  | [] => by simp
  | (k, ns) :: gs => by
    intro g hg m hm
    rcases List.mem_cons.1 hg with h1 | h1
    · rw [h1] at hm; exact MNode.ind_auxNs h ns m hm
    · exact MNode.ind_auxGs h gs g h1 m hm
theorem MNode.ind_auxNs {P : MNode → Prop}
    (h : ∀ n : MNode, (∀ g ∈ n.subs, ∀ m ∈ g.2, P m) → P n) :
    ∀ ns : List MNode, ∀ m ∈ ns, P m
  | [] => by simp
  | n :: ns => by
    intro m hm
    rcases List.mem_cons.1 hm with h1 | h1
    · rw [h1]; exact MNode.ind_aux h n
    · exact MNode.ind_auxNs h ns m h1
end

/-- structural induction over a node tree: to prove `P n` assume `P` for every node of every
    attribute graph of `n` -/
theorem MNode.ind {P : MNode → Prop}
    (h : ∀ n : MNode, (∀ g ∈ n.subs, ∀ m ∈ g.2, P m) → P n) (n : MNode) : P n :=
  MNode.ind_aux h n

/-! ## membership -/

/-- the universe entry of node `n` of graph `k` -/
def entOf (k : Nat) (n : MNode) : Ent := ⟨n.id, k, n.inputs, subNodeIds n.subs⟩

theorem entsN_cons (k : Nat) (n : MNode) : entsN k n = entOf k n :: entsGs n.subs := entsN_eq k n

theorem mem_entsNs {k : Nat} {ns : List MNode} {e : Ent} :
    e ∈ entsNs k ns ↔ ∃ m ∈ ns, e ∈ entsN k m := by
  simp [entsNs_eq, List.mem_flatMap]

theorem mem_entsGs {gs : List MGraph} {e : Ent} :
    e ∈ entsGs gs ↔ ∃ g ∈ gs, ∃ m ∈ g.2, e ∈ entsN g.1 m := by
  simp only [entsGs_eq, List.mem_flatMap, mem_entsNs]

theorem mem_entsN {k : Nat} {n : MNode} {e : Ent} :
    e ∈ entsN k n ↔ e = entOf k n ∨ ∃ g ∈ n.subs, ∃ m ∈ g.2, e ∈ entsN g.1 m := by
  rw [entsN_cons, List.mem_cons, mem_entsGs]

theorem entOf_mem_entsN (k : Nat) (n : MNode) : entOf k n ∈ entsN k n := by
  rw [entsN_cons]; simp

theorem mem_subgraphsNs {ns : List MNode} {h : MGraph} :
    h ∈ subgraphsNs ns ↔ ∃ m ∈ ns, h ∈ subgraphsN m := by
  simp [subgraphsNs_eq, List.mem_flatMap]

theorem mem_subgraphsN {n : MNode} {h : MGraph} :
    h ∈ subgraphsN n ↔ ∃ g ∈ n.subs, h = g ∨ ∃ m ∈ g.2, h ∈ subgraphsN m := by
  rw [subgraphsN_eq, subgraphsGs_eq]
  simp only [List.mem_flatMap, List.mem_cons, mem_subgraphsNs]

theorem mem_allGraphs {g h : MGraph} :
    h ∈ allGraphs g ↔ h = g ∨ ∃ m ∈ g.2, h ∈ subgraphsN m := by
  simp only [allGraphs, List.mem_cons, mem_subgraphsNs]

/-- graphs nested in a node of a nested graph are nested -/
theorem subgraphsN_trans : ∀ n : MNode, ∀ h ∈ subgraphsN n, ∀ m ∈ h.2,
    ∀ h' ∈ subgraphsN m, h' ∈ subgraphsN n := by
  intro n
  induction n using MNode.ind with
  | h n ih =>
    intro h hh m hm h' hh'
    obtain ⟨g, hg, hcase⟩ := mem_subgraphsN.1 hh
    rcases hcase with rfl | ⟨m', hm', hin⟩
    · exact mem_subgraphsN.2 ⟨h, hg, Or.inr ⟨m, hm, hh'⟩⟩
    · exact mem_subgraphsN.2 ⟨g, hg, Or.inr ⟨m', hm', ih g hg m' hm' h hin m hm h' hh'⟩⟩

theorem allGraphs_trans {g h : MGraph} (hh : h ∈ allGraphs g) {m : MNode} (hm : m ∈ h.2)
    {h' : MGraph} (hh' : h' ∈ subgraphsN m) : h' ∈ allGraphs g := by
  rcases mem_allGraphs.1 hh with rfl | ⟨m0, hm0, hin⟩
  · exact mem_allGraphs.2 (Or.inr ⟨m, hm, hh'⟩)
  · exact mem_allGraphs.2 (Or.inr ⟨m0, hm0, subgraphsN_trans m0 h hin m hm h' hh'⟩)

/-! ## spans are contiguous -/

theorem infix_flatMap_of_mem {α β : Type} (f : α → List β) {l : List α} {a : α} (h : a ∈ l) :
    f a <:+: l.flatMap f := by
  obtain ⟨s, t, rfl⟩ := List.mem_iff_append.1 h
  simp only [List.flatMap_append, List.flatMap_cons]
  exact ⟨s.flatMap f, t.flatMap f, by simp⟩

theorem entsN_infix_entsNs {k : Nat} {ns : List MNode} {m : MNode} (hm : m ∈ ns) :
    entsN k m <:+: entsNs k ns := by
  rw [entsNs_eq]; exact infix_flatMap_of_mem _ hm

theorem entsNs_infix_entsN {k : Nat} {n : MNode} {g : MGraph} (hg : g ∈ n.subs) :
    entsNs g.1 g.2 <:+: entsN k n := by
  rw [entsN_cons, entsGs_eq]
  exact List.infix_cons (infix_flatMap_of_mem (fun g : MGraph => entsNs g.1 g.2) hg)

/-- the span of a nested graph lies inside the span of the node it is nested in -/
theorem subgraph_infix : ∀ n : MNode, ∀ k, ∀ h ∈ subgraphsN n, entsNs h.1 h.2 <:+: entsN k n := by
  intro n
  induction n using MNode.ind with
  | h n ih =>
    intro k h hh
    obtain ⟨g, hg, hcase⟩ := mem_subgraphsN.1 hh
    rcases hcase with rfl | ⟨m', hm', hin⟩
    · exact entsNs_infix_entsN hg
    · exact ((ih g hg m' hm' g.1 h hin).trans (entsN_infix_entsNs hm')).trans
        (entsNs_infix_entsN hg)

theorem graph_infix {g h : MGraph} (hh : h ∈ allGraphs g) : entsNs h.1 h.2 <:+: nodesOf g := by
  rcases mem_allGraphs.1 hh with rfl | ⟨m, hm, hin⟩
  · exact List.infix_refl _
  · exact (subgraph_infix m g.1 h hin).trans (entsN_infix_entsNs hm)

theorem node_infix {g h : MGraph} (hh : h ∈ allGraphs g) {m : MNode} (hm : m ∈ h.2) :
    entsN h.1 m <:+: nodesOf g :=
  (entsN_infix_entsNs hm).trans (graph_infix hh)

theorem Before.of_infix {α : Type} {l' l : List α} (hi : l' <:+: l) {a b : α}
    (h : Before l' a b) : Before l a b := by
  obtain ⟨s, t, rfl⟩ := hi
  obtain ⟨l1, l2, rfl, hb⟩ := h
  exact ⟨s ++ l1, l2 ++ t, by simp, by simp [hb]⟩

/-! ## owners -/

/-- every entry of a span other than its root has its owner inside the span -/
theorem owner_in_span : ∀ m : MNode, ∀ k, ∀ e ∈ entsN k m,
    e = entOf k m ∨ ∃ o ∈ entsN k m, e.id ∈ o.subNodes := by
  intro m
  induction m using MNode.ind with
  | h n ih =>
    intro k e he
    rcases mem_entsN.1 he with rfl | ⟨g, hg, m', hm', hin⟩
    · exact Or.inl rfl
    · right
      have hsub : entsN g.1 m' ⊆ entsN k n :=
        ((entsN_infix_entsNs hm').trans (entsNs_infix_entsN hg)).subset
      rcases ih g hg m' hm' g.1 e hin with rfl | ⟨o, ho, hoe⟩
      · refine ⟨entOf k n, entOf_mem_entsN k n, ?_⟩
        show m'.id ∈ subNodeIds n.subs
        simp only [subNodeIds, List.mem_flatMap, List.mem_map]
        exact ⟨g, hg, m', hm', rfl⟩
      · exact ⟨o, hsub ho, hoe⟩

/-- every entry of a span is the entry of the span's root or of a node of a nested graph -/
theorem ent_is_node : ∀ m : MNode, ∀ k, ∀ e ∈ entsN k m,
    e = entOf k m ∨ ∃ h ∈ subgraphsN m, ∃ x ∈ h.2, e = entOf h.1 x := by
  intro m
  induction m using MNode.ind with
  | h n ih =>
    intro k e he
    rcases mem_entsN.1 he with rfl | ⟨g, hg, m', hm', hin⟩
    · exact Or.inl rfl
    · right
      rcases ih g hg m' hm' g.1 e hin with rfl | ⟨h, hh, x, hx, rfl⟩
      · exact ⟨g, mem_subgraphsN.2 ⟨g, hg, Or.inl rfl⟩, m', hm', rfl⟩
      · exact ⟨h, mem_subgraphsN.2 ⟨g, hg, Or.inr ⟨m', hm', hh⟩⟩, x, hx, rfl⟩

theorem ent_is_node_root {g : MGraph} {e : Ent} (he : e ∈ nodesOf g) :
    ∃ h ∈ allGraphs g, ∃ x ∈ h.2, e = entOf h.1 x := by
  obtain ⟨m, hm, hin⟩ := mem_entsNs.1 he
  rcases ent_is_node m g.1 e hin with rfl | ⟨h, hh, x, hx, rfl⟩
  · exact ⟨g, mem_allGraphs.2 (Or.inl rfl), m, hm, rfl⟩
  · exact ⟨h, mem_allGraphs.2 (Or.inr ⟨m, hm, hh⟩), x, hx, rfl⟩

/-- a nested graph has an owner entry whose `subNodes` contain all its nodes -/
theorem graph_owner : ∀ m : MNode, ∀ k, ∀ h ∈ subgraphsN m,
    ∃ o ∈ entsN k m, ∀ x ∈ h.2, x.id ∈ o.subNodes := by
  intro m
  induction m using MNode.ind with
  | h n ih =>
    intro k h hh
    obtain ⟨g, hg, hcase⟩ := mem_subgraphsN.1 hh
    rcases hcase with rfl | ⟨m', hm', hin⟩
    · refine ⟨entOf k n, entOf_mem_entsN k n, ?_⟩
      intro x hx
      show x.id ∈ subNodeIds n.subs
      simp only [subNodeIds, List.mem_flatMap, List.mem_map]
      exact ⟨h, hg, x, hx, rfl⟩
    · obtain ⟨o, ho, hall⟩ := ih g hg m' hm' g.1 h hin
      exact ⟨o, ((entsN_infix_entsNs hm').trans (entsNs_infix_entsN hg)).subset ho, hall⟩

/-! ## ids of a span = root id + all `subNodes` of the span (as multisets) -/

def idsOf (es : List Ent) : List Nat := es.map Ent.id
def subAll (es : List Ent) : List Nat := es.flatMap Ent.subNodes

theorem ids_perm_Ns {ns : List MNode}
    (h : ∀ m ∈ ns, ∀ k, (idsOf (entsN k m)).Perm (m.id :: subAll (entsN k m))) (k : Nat) :
    (idsOf (entsNs k ns)).Perm (ns.map MNode.id ++ subAll (entsNs k ns)) := by
  induction ns with
  | nil => simp [entsNs, idsOf, subAll]
  | cons n ns ih =>
    have h1 := h n (by simp) k
    have h2 := ih (fun m hm => h m (List.mem_cons_of_mem _ hm))
    rw [List.perm_iff_count] at h1 h2 ⊢
    intro a
    have := h1 a; have := h2 a
    simp only [entsNs, idsOf, subAll, List.map_append, List.flatMap_append, List.count_append,
      List.map_cons, List.count_cons] at *
    omega

theorem ids_perm_Gs {gs : List MGraph}
    (h : ∀ g ∈ gs, ∀ m ∈ g.2, ∀ k, (idsOf (entsN k m)).Perm (m.id :: subAll (entsN k m))) :
    (idsOf (entsGs gs)).Perm (subNodeIds gs ++ subAll (entsGs gs)) := by
  induction gs with
  | nil => simp [entsGs, idsOf, subAll, subNodeIds]
  | cons g gs ih =>
    obtain ⟨k, ns⟩ := g
    have h1 := ids_perm_Ns (h (k, ns) (by simp)) k
    have h2 := ih (fun g hg => h g (List.mem_cons_of_mem _ hg))
    rw [List.perm_iff_count] at h1 h2 ⊢
    intro a
    have := h1 a; have := h2 a
    simp only [entsGs, idsOf, subAll, subNodeIds, List.map_append, List.flatMap_append,
      List.count_append, List.flatMap_cons] at *
    omega

theorem ids_perm_N : ∀ m : MNode, ∀ k, (idsOf (entsN k m)).Perm (m.id :: subAll (entsN k m)) := by
  intro m
  induction m using MNode.ind with
  | h n ih =>
    intro k
    have := ids_perm_Gs ih
    rw [entsN_cons]
    simp only [idsOf, subAll, List.map_cons, List.flatMap_cons] at *
    exact List.Perm.cons _ this

theorem ids_perm_root (g : MGraph) :
    (idsOf (nodesOf g)).Perm (g.2.map MNode.id ++ subAll (nodesOf g)) :=
  ids_perm_Ns (fun m _ => ids_perm_N m) g.1

/-- with distinct node ids, a node id occurs in the `subNodes` of at most one entry -/
theorem owner_unique {g : MGraph} (hnd : (idsOf (nodesOf g)).Nodup) {e1 e2 : Ent}
    (h1 : e1 ∈ nodesOf g) (h2 : e2 ∈ nodesOf g) {x : Nat} (hx1 : x ∈ e1.subNodes)
    (hx2 : x ∈ e2.subNodes) : e1 = e2 := by
  by_contra hne
  have hnd2 : (g.2.map MNode.id ++ subAll (nodesOf g)).Nodup := (ids_perm_root g).nodup_iff.1 hnd
  have hsub : (subAll (nodesOf g)).Nodup := (List.nodup_append.1 hnd2).2.1
  have hpw := (List.nodup_flatMap.1 hsub).2
  have : Std.Symm (Function.onFun List.Disjoint Ent.subNodes) :=
    ⟨fun a b (h : List.Disjoint _ _) => List.disjoint_left.2 (fun x hx hy => List.disjoint_left.1 h hy hx)⟩
  have := hpw.forall h1 h2 hne
  exact List.disjoint_left.1 this hx1 hx2

/-- with distinct node ids, the nodes of the sorted graph itself are nobody's `subNodes` -/
theorem root_not_owned {g : MGraph} (hnd : (idsOf (nodesOf g)).Nodup) {m : MNode} (hm : m ∈ g.2)
    {e : Ent} (he : e ∈ nodesOf g) : m.id ∉ e.subNodes := by
  intro hx
  have hnd2 : (g.2.map MNode.id ++ subAll (nodesOf g)).Nodup := (ids_perm_root g).nodup_iff.1 hnd
  have := (List.nodup_append.1 hnd2).2.2 m.id (List.mem_map.2 ⟨m, hm, rfl⟩) m.id
    (List.mem_flatMap.2 ⟨e, he, hx⟩)
  exact this rfl

/-- entries with the same id are equal when ids are distinct -/
theorem ent_eq_of_id {es : List Ent} (hnd : (idsOf es).Nodup) {e1 e2 : Ent} (h1 : e1 ∈ es)
    (h2 : e2 ∈ es) (h : e1.id = e2.id) : e1 = e2 :=
  List.inj_on_of_nodup_map hnd h1 h2 h

/-! ## per-graph filters of the universe -/

def gidsOf (hs : List MGraph) : List Nat := hs.map Prod.fst

theorem gid_of_span (m : MNode) (k : Nat) {e : Ent} (he : e ∈ entsN k m) :
    e.gid = k ∨ e.gid ∈ gidsOf (subgraphsN m) := by
  rcases ent_is_node m k e he with rfl | ⟨h, hh, x, _, rfl⟩
  · exact Or.inl rfl
  · exact Or.inr (List.mem_map.2 ⟨h, hh, rfl⟩)

theorem filter_gid_nil_N (m : MNode) (k0 k : Nat) (h0 : k ≠ k0) (h : k ∉ gidsOf (subgraphsN m)) :
    (entsN k0 m).filter (fun e => e.gid == k) = [] := by
  rw [List.filter_eq_nil_iff]
  intro e he
  rcases gid_of_span m k0 he with h1 | h1
  · simp [h1]; exact fun h => h0 h.symm
  · simp; intro h2; exact h (h2 ▸ h1)

theorem filter_gid_nil_Ns (ns : List MNode) (k0 k : Nat) (h0 : k ≠ k0)
    (h : k ∉ gidsOf (subgraphsNs ns)) : (entsNs k0 ns).filter (fun e => e.gid == k) = [] := by
  rw [List.filter_eq_nil_iff]
  intro e he
  obtain ⟨m, hm, hin⟩ := mem_entsNs.1 he
  have hk : k ∉ gidsOf (subgraphsN m) := by
    intro hc
    obtain ⟨h', hh', rfl⟩ := List.mem_map.1 hc
    exact h (List.mem_map.2 ⟨h', mem_subgraphsNs.2 ⟨m, hm, hh'⟩, rfl⟩)
  have := filter_gid_nil_N m k0 k h0 hk
  rw [List.filter_eq_nil_iff] at this
  exact this e hin

theorem filter_gid_nil_Gs (gs : List MGraph) (k : Nat) (h : k ∉ gidsOf (subgraphsGs gs)) :
    (entsGs gs).filter (fun e => e.gid == k) = [] := by
  rw [List.filter_eq_nil_iff]
  intro e he
  obtain ⟨g, hg, m, hm, hin⟩ := mem_entsGs.1 he
  have hsub : ∀ h' ∈ subgraphsN m, h' ∈ subgraphsGs gs := by
    intro h' hh'
    rw [subgraphsGs_eq]
    exact List.mem_flatMap.2 ⟨g, hg, List.mem_cons_of_mem _ (mem_subgraphsNs.2 ⟨m, hm, hh'⟩)⟩
  have hgin : g ∈ subgraphsGs gs := by
    rw [subgraphsGs_eq]; exact List.mem_flatMap.2 ⟨g, hg, by simp⟩
  rcases gid_of_span m g.1 hin with h1 | h1
  · simp [h1]; intro h2; exact h (List.mem_map.2 ⟨g, hgin, h2⟩)
  · simp; intro h2
    obtain ⟨h', hh', h3⟩ := List.mem_map.1 h1
    exact h (List.mem_map.2 ⟨h', hsub h' hh', by rw [h3, h2]⟩)

/-- the entries of graph `k0` in the span of its own node list, when no nested graph is `k0` -/
theorem filter_gid_self_Ns (ns : List MNode) (k0 : Nat) (h : k0 ∉ gidsOf (subgraphsNs ns)) :
    ((entsNs k0 ns).filter (fun e => e.gid == k0)).map Ent.id = ns.map MNode.id := by
  induction ns with
  | nil => simp [entsNs]
  | cons n ns ih =>
    have h1 : k0 ∉ gidsOf (subgraphsN n) := by
      intro hc; apply h; simp only [subgraphsNs, gidsOf, List.map_append, List.mem_append]
      exact Or.inl hc
    have h2 : k0 ∉ gidsOf (subgraphsNs ns) := by
      intro hc; apply h; simp only [subgraphsNs, gidsOf, List.map_append, List.mem_append]
      exact Or.inr hc
    rw [subgraphsN_eq] at h1
    simp only [entsNs, List.filter_append, List.map_append, ih h2, entsN_cons, List.map_cons]
    rw [List.filter_cons]
    simp [entOf, filter_gid_nil_Gs n.subs k0 h1]

mutual
theorem filter_gid_N : ∀ (n : MNode) (k0 : Nat) (h : MGraph), h ∈ subgraphsN n →
    (k0 :: gidsOf (subgraphsN n)).Nodup →
    ((entsN k0 n).filter (fun e => e.gid == h.1)).map Ent.id = h.2.map MNode.id
  | .mk i ins subs, k0, h, hh, hnd => by
    simp only [subgraphsN] at hh hnd
    rw [List.nodup_cons] at hnd
    have hne : h.1 ≠ k0 := fun hc => hnd.1 (hc ▸ List.mem_map.2 ⟨h, hh, rfl⟩)
    have hne' : ¬ k0 = h.1 := fun hc => hne hc.symm
    simp only [entsN, List.filter_cons]
    simp only [beq_iff_eq, hne', if_false]
    exact filter_gid_Gs subs h hh hnd.2
theorem filter_gid_Gs : ∀ (gs : List (Nat × List MNode)) (h : MGraph), h ∈ subgraphsGs gs →
    (gidsOf (subgraphsGs gs)).Nodup →
    ((entsGs gs).filter (fun e => e.gid == h.1)).map Ent.id = h.2.map MNode.id
  | [], h, hh, _ => by simp [subgraphsGs] at hh
  | (k, ns) :: gs, h, hh, hnd => by
    simp only [subgraphsGs, List.mem_cons, List.mem_append] at hh
    simp only [subgraphsGs, gidsOf, List.map_cons, List.map_append, List.cons_append] at hnd
    rw [List.nodup_cons, List.nodup_append] at hnd
    obtain ⟨hk, hnd1, hnd2, hdisj⟩ := hnd
    simp only [entsGs, List.filter_append, List.map_append]
    rcases hh with (rfl | hh) | hh
    · -- the graph itself
      have h1 : k ∉ gidsOf (subgraphsNs ns) := fun hc => hk (List.mem_append.2 (Or.inl hc))
      have h2 : k ∉ gidsOf (subgraphsGs gs) := fun hc => hk (List.mem_append.2 (Or.inr hc))
      rw [filter_gid_self_Ns ns k h1, filter_gid_nil_Gs gs k h2]; simp
    · -- nested in a node of this graph
      have hmem : h.1 ∈ gidsOf (subgraphsNs ns) := List.mem_map.2 ⟨h, hh, rfl⟩
      have h2 : h.1 ∉ gidsOf (subgraphsGs gs) := fun hc => hdisj h.1 hmem h.1 hc rfl
      rw [filter_gid_Ns ns k h hh (List.nodup_cons.2 ⟨fun hc => hk (List.mem_append.2 (Or.inl hc)), hnd1⟩),
        filter_gid_nil_Gs gs h.1 h2]; simp
    · have hmem : h.1 ∈ gidsOf (subgraphsGs gs) := List.mem_map.2 ⟨h, hh, rfl⟩
      have h1 : h.1 ∉ gidsOf (subgraphsNs ns) := fun hc => hdisj h.1 hc h.1 hmem rfl
      have h0 : h.1 ≠ k := fun hc => hk (List.mem_append.2 (Or.inr (hc ▸ hmem)))
      rw [filter_gid_nil_Ns ns k h.1 h0 h1, filter_gid_Gs gs h hh hnd2]; simp
theorem filter_gid_Ns : ∀ (ns : List MNode) (k0 : Nat) (h : MGraph), h ∈ subgraphsNs ns →
    (k0 :: gidsOf (subgraphsNs ns)).Nodup →
    ((entsNs k0 ns).filter (fun e => e.gid == h.1)).map Ent.id = h.2.map MNode.id
  | [], _, h, hh, _ => by simp [subgraphsNs] at hh
  | n :: ns, k0, h, hh, hnd => by
    simp only [subgraphsNs, List.mem_append] at hh
    simp only [subgraphsNs, gidsOf, List.map_append] at hnd
    rw [List.nodup_cons, List.nodup_append] at hnd
    obtain ⟨hk, hnd1, hnd2, hdisj⟩ := hnd
    simp only [entsNs, List.filter_append, List.map_append]
    rcases hh with hh | hh
    · have hmem : h.1 ∈ gidsOf (subgraphsN n) := List.mem_map.2 ⟨h, hh, rfl⟩
      have h2 : h.1 ∉ gidsOf (subgraphsNs ns) := fun hc => hdisj h.1 hmem h.1 hc rfl
      have h0 : h.1 ≠ k0 := fun hc => hk (List.mem_append.2 (Or.inl (hc ▸ hmem)))
      rw [filter_gid_N n k0 h hh (List.nodup_cons.2 ⟨fun hc => hk (List.mem_append.2 (Or.inl hc)), hnd1⟩),
        filter_gid_nil_Ns ns k0 h.1 h0 h2]; simp
    · have hmem : h.1 ∈ gidsOf (subgraphsNs ns) := List.mem_map.2 ⟨h, hh, rfl⟩
      have h1 : h.1 ∉ gidsOf (subgraphsN n) := fun hc => hdisj h.1 hc h.1 hmem rfl
      have h0 : h.1 ≠ k0 := fun hc => hk (List.mem_append.2 (Or.inr (hc ▸ hmem)))
      rw [filter_gid_nil_N n k0 h.1 h0 h1,
        filter_gid_Ns ns k0 h hh (List.nodup_cons.2 ⟨fun hc => hk (List.mem_append.2 (Or.inr hc)), hnd2⟩)]
      simp
end

/-- **the entries labelled with a graph's id are exactly that graph's nodes, in order** -/
theorem filter_gid_root {g : MGraph} (hnd : (gidsOf (allGraphs g)).Nodup) {h : MGraph}
    (hh : h ∈ allGraphs g) :
    ((nodesOf g).filter (fun e => e.gid == h.1)).map Ent.id = h.2.map MNode.id := by
  simp only [allGraphs, gidsOf, List.map_cons] at hnd
  rcases List.mem_cons.1 hh with rfl | hh
  · exact filter_gid_self_Ns h.2 h.1 (List.nodup_cons.1 hnd).1
  · exact filter_gid_Ns g.2 g.1 h hh hnd

end IrVerif.Sort

/-
C19 — the complete `InlinePass`, second half of `WeakOK`: a spec whose target is outside the ghost set `subst`
(actual arguments of inlined calls, replacement values of call outputs, clones of such values) keeps its axis
clauses (in range for a known rank, not repeated after normalisation).
-/
import IrVerif.Lemmas.DeviceInlPass
namespace IrVerif.Device

/-- the second half of `WeakOK` -/
def AxInv (w : World) (S : List VId) : Prop :=
  ∀ nd ∈ w.nodes, ∀ nc ∈ nd.dev, ∀ s ∈ nc.specs, s.value ∉ S → AxesOK w s

/-- the invariant of the axis half: `WJ`, ids exist, axes fine outside `S` -/
structure AInv (C : List CId) (cfgs : List CfgS) (m : MId) (w : World) (S : List VId) : Prop where
  wj : WJ C cfgs m w
  nids : ∀ nd ∈ w.nodes, NodeIds w nd
  gids : GraphIds w
  ax : AxInv w S

theorem AxesOK_of_rank {w w' : World} {s s' : Spec} (hd : s'.dims = s.dims)
    (hr : rankOf (w'.value s'.value) = rankOf (w.value s.value)) (h : AxesOK w s) : AxesOK w' s' := by
  unfold AxesOK at h ⊢
  rw [hd, hr]; exact h

theorem AInv.tgt_lt {C : List CId} {cfgs : List CfgS} {m : MId} {w : World} {S : List VId} (h : AInv C cfgs m w S)
    {nd : NodeS} (hnd : nd ∈ w.nodes) {nc : NodeCfg} (hnc : nc ∈ nd.dev) {s : Spec} (hs : s ∈ nc.specs) :
    s.value < w.values.length :=
  InIO.lt (h.nids nd hnd) ((h.wj.hnodes nd hnd).io nc hnc s hs)

theorem AInv.node_ids {C : List CId} {cfgs : List CfgS} {m : MId} {w : World} {S : List VId} (h : AInv C cfgs m w S)
    (n : NId) : NodeIds w (w.node n) := by
  rcases node_mem_or_default w n with h1 | h1
  · exact h.nids _ h1
  · rw [h1]; exact ⟨by simp, by simp⟩

theorem graph_mem_or_default (w : World) (g : GId) : w.graph g ∈ w.graphs ∨ w.graph g = {} := by
  unfold World.graph
  by_cases h : g < w.graphs.length
  · left; simp [List.getD_eq_getElem?_getD, h]
  · right; simp [List.getD_eq_getElem?_getD, Nat.not_lt.mp h]

theorem AInv.graph_ids {C : List CId} {cfgs : List CfgS} {m : MId} {w : World} {S : List VId} (h : AInv C cfgs m w S)
    (g : GId) : ∀ v ∈ (w.graph g).inputs ++ (w.graph g).inits, v < w.values.length := by
  rcases graph_mem_or_default w g with h1 | h1
  · exact h.gids _ h1
  · rw [h1]; simp

/-- a change of the value heap only (values appended / renamed): nodes, graphs, configurations, models kept -/
theorem AInv.ext_same {C : List CId} {cfgs : List CfgS} {m : MId} {w w' : World} {S S' : List VId}
    (h : AInv C cfgs m w S) (he : Ext w w') (hn : w'.nodes = w.nodes) (hg : w'.graphs = w.graphs)
    (hc : w'.cfgs = w.cfgs) (hm : w'.models = w.models) (hs : ∀ v ∈ S, v ∈ S') : AInv C cfgs m w' S' := by
  refine ⟨h.wj.of_eq hn hc hm, ?_, ?_, ?_⟩
  · intro nd hnd; rw [hn] at hnd; exact (h.nids nd hnd).ext he
  · intro gs hgs v hv; rw [hg] at hgs; exact Nat.lt_of_lt_of_le (h.gids gs hgs v hv) he.vlen
  · intro nd hnd nc hnc s hsp hns
    rw [hn] at hnd
    have hlt := h.tgt_lt hnd hnc hsp
    exact AxesOK_of_rank rfl (he.rank _ hlt) (h.ax nd hnd nc hnc s hsp (fun hin => hns (hs _ hin)))

/-- a node appended (values possibly appended / renamed as well) -/
theorem AInv.push {C : List CId} {cfgs : List CfgS} {m : MId} {w w' : World} {S S' : List VId}
    (h : AInv C cfgs m w S) (he : Ext w w') (nd : NodeS) (hn : w'.nodes = w.nodes ++ [nd])
    (hg : w'.graphs = w.graphs) (hc : w'.cfgs = w.cfgs) (hm : w'.models = w.models) (hs : ∀ v ∈ S, v ∈ S')
    (hw : NodeWeak C cfgs nd) (hids : NodeIds w' nd)
    (hax : ∀ nc ∈ nd.dev, ∀ s ∈ nc.specs, s.value ∉ S' → AxesOK w' s) : AInv C cfgs m w' S' := by
  refine ⟨h.wj.push nd hw hn hc hm, ?_, ?_, ?_⟩
  · intro x hx
    rw [hn, List.mem_append] at hx
    rcases hx with hx | hx
    · exact (h.nids x hx).ext he
    · simp only [List.mem_singleton] at hx; rw [hx]; exact hids
  · intro gs hgs v hv; rw [hg] at hgs; exact Nat.lt_of_lt_of_le (h.gids gs hgs v hv) he.vlen
  · intro x hx nc hnc s hsp hns
    rw [hn, List.mem_append] at hx
    rcases hx with hx | hx
    · have hlt := h.tgt_lt hx hnc hsp
      exact AxesOK_of_rank rfl (he.rank _ hlt) (h.ax x hx nc hnc s hsp (fun hin => hns (hs _ hin)))
    · simp only [List.mem_singleton] at hx; subst hx; exact hax nc hnc s hsp hns

/-- what the value map of the inliner's cloner guarantees about an image: it exists, and unless it is in `S` its
    source exists, is not in `S` either and has the same rank -/
def VmI (vm : OMap) (w : World) (S : List VId) : Prop :=
  ∀ a b, oget vm a = some b → b < w.values.length ∧
    (b ∉ S → a < w.values.length ∧ a ∉ S ∧ rankOf (w.value b) = rankOf (w.value a))

theorem VmI.mono {vm : OMap} {w w' : World} {S S' : List VId} (h : VmI vm w S) (he : Ext w w')
    (hsub : ∀ v ∈ S, v ∈ S') (hfresh : ∀ v ∈ S', v ∈ S ∨ w.values.length ≤ v) : VmI vm w' S' := by
  intro a b hab
  obtain ⟨h1, h2⟩ := h a b hab
  refine ⟨Nat.lt_of_lt_of_le h1 he.vlen, ?_⟩
  intro hb
  have hb0 : b ∉ S := fun hin => hb (hsub _ hin)
  obtain ⟨ha, haS, hr⟩ := h2 hb0
  refine ⟨Nat.lt_of_lt_of_le ha he.vlen, ?_, ?_⟩
  · intro hin
    rcases hfresh a hin with h3 | h3
    · exact haS h3
    · exact absurd ha (Nat.not_lt.mpr h3)
  · rw [he.rank b h1, he.rank a ha]; exact hr

theorem olookup_cons (k : VId) (x : Option VId) (vm : OMap) (a : VId) :
    olookup ((k, x) :: vm) a = if k = a then some x else olookup vm a := by
  unfold olookup
  simp only [List.find?_cons]
  by_cases h : k = a
  · simp [h]
  · simp [h]

theorem oget_cons (k : VId) (x : Option VId) (vm : OMap) (a : VId) :
    oget ((k, x) :: vm) a = if k = a then x else oget vm a := by
  unfold oget
  rw [olookup_cons]
  split <;> rfl

theorem renameOne_ext (p : World × List String) (o : VId) : Ext p.1 (renameOne p o).1 := by
  unfold renameOne
  refine ⟨by simp, ?_, Nat.le_refl _, fun _ _ => rfl⟩
  intro v hv
  simp only [World.value, List.getD_eq_getElem?_getD, List.getElem?_set]
  by_cases h : o = v
  · subst h; simp [hv]
  · simp [h]

theorem renameOuts_ext : ∀ (outs : List VId) (p : World × List String), Ext p.1 (renameOuts p outs).1 := by
  intro outs
  induction outs with
  | nil => intro p; exact Ext.refl _
  | cons o rest ih =>
    intro p
    simp only [renameOuts]
    exact (renameOne_ext p o).trans (ih _)

/-- the relation between the states of the cloner before and after a step -/
structure CStep (C : List CId) (cfgs : List CfgS) (m : MId) (st st' : ICl) : Prop where
  ext : Ext st.w st'.w
  sub : ∀ v ∈ st.subst, v ∈ st'.subst
  fresh : ∀ v ∈ st'.subst, v ∈ st.subst ∨ st.w.values.length ≤ v
  inv : AInv C cfgs m st.w st.subst → VmI st.vm st.w st.subst →
    AInv C cfgs m st'.w st'.subst ∧ VmI st'.vm st'.w st'.subst

theorem CStep.refl (C : List CId) (cfgs : List CfgS) (m : MId) (st : ICl) : CStep C cfgs m st st :=
  ⟨Ext.refl _, fun _ h => h, fun _ h => Or.inl h, fun a b => ⟨a, b⟩⟩

theorem CStep.trans {C : List CId} {cfgs : List CfgS} {m : MId} {a b c : ICl}
    (h1 : CStep C cfgs m a b) (h2 : CStep C cfgs m b c) : CStep C cfgs m a c := by
  refine ⟨h1.ext.trans h2.ext, fun v hv => h2.sub v (h1.sub v hv), ?_, ?_⟩
  · intro v hv
    rcases h2.fresh v hv with h3 | h3
    · exact h1.fresh v h3
    · exact Or.inr (Nat.le_trans h1.ext.vlen h3)
  · intro ha hv
    obtain ⟨x, y⟩ := h1.inv ha hv
    exact h2.inv x y

theorem value_append_at (w : World) (x : ValueS) :
    World.value { w with values := w.values ++ [x] } w.values.length = x := by
  simp [World.value, List.getD_eq_getElem?_getD]

/-- `_clone_or_get_value` of an existing value -/
theorem cloneOrGetO_step {C : List CId} {cfgs : List CfgS} {m : MId} {st st' : ICl} {v : VId}
    (hc : cloneOrGetO st v = some st') :
    Ext st.w st'.w ∧ (∀ x ∈ st.subst, x ∈ st'.subst) ∧
    (∀ x ∈ st'.subst, x ∈ st.subst ∨ st.w.values.length ≤ x) ∧
    (v < st.w.values.length → AInv C cfgs m st.w st.subst → VmI st.vm st.w st.subst →
      AInv C cfgs m st'.w st'.subst ∧ VmI st'.vm st'.w st'.subst) := by
  unfold cloneOrGetO at hc
  split at hc
  · cases hc; exact ⟨Ext.refl _, fun _ h => h, fun _ h => Or.inl h, fun _ a b => ⟨a, b⟩⟩
  · cases hc
  · simp only [Option.some.injEq] at hc
    subst hc
    have hext : Ext st.w { st.w with values := st.w.values ++ [st.w.value v] } := Ext_append_values _ _
    have hsub : ∀ x ∈ st.subst, x ∈ (if v ∈ st.subst then st.subst ++ [st.w.values.length] else st.subst) := by
      intro x hx; split
      · exact List.mem_append_left _ hx
      · exact hx
    have hfresh : ∀ x ∈ (if v ∈ st.subst then st.subst ++ [st.w.values.length] else st.subst),
        x ∈ st.subst ∨ st.w.values.length ≤ x := by
      intro x hx
      split at hx
      · rw [List.mem_append] at hx
        rcases hx with hx | hx
        · exact Or.inl hx
        · simp only [List.mem_singleton] at hx; exact Or.inr (Nat.le_of_eq hx.symm)
      · exact Or.inl hx
    refine ⟨hext, hsub, hfresh, ?_⟩
    intro hv ha hvm
    refine ⟨ha.ext_same hext rfl rfl rfl rfl hsub, ?_⟩
    intro a b hab
    rw [oget_cons] at hab
    by_cases hk : v = a
    · simp only [hk, if_true, Option.some.injEq] at hab
      subst hk
      subst hab
      refine ⟨by simp, ?_⟩
      intro hb
      have hvS : v ∉ st.subst := by
        intro hin
        apply hb
        simp only [hin, if_true]
        exact List.mem_append_right _ (by simp)
      refine ⟨?_, ?_, ?_⟩
      · show v < (st.w.values ++ [st.w.value v]).length
        rw [List.length_append]; exact Nat.lt_add_right _ hv
      · show v ∉ (if v ∈ st.subst then st.subst ++ [st.w.values.length] else st.subst)
        rw [if_neg hvS]; exact hvS
      · show rankOf (World.value { st.w with values := st.w.values ++ [st.w.value v] } st.w.values.length) = _
        rw [value_append_at, hext.rank v hv]
    · simp only [hk, if_false] at hab
      exact hvm.mono hext hsub hfresh a b hab

theorem cloneValsO_step {C : List CId} {cfgs : List CfgS} {m : MId} : ∀ (vs : List VId) (st st' : ICl),
    cloneValsO st vs = some st' →
    Ext st.w st'.w ∧ (∀ x ∈ st.subst, x ∈ st'.subst) ∧
    (∀ x ∈ st'.subst, x ∈ st.subst ∨ st.w.values.length ≤ x) ∧
    ((∀ v ∈ vs, v < st.w.values.length) → AInv C cfgs m st.w st.subst → VmI st.vm st.w st.subst →
      AInv C cfgs m st'.w st'.subst ∧ VmI st'.vm st'.w st'.subst) := by
  intro vs
  induction vs with
  | nil =>
    intro st st' hc
    simp only [cloneValsO, Option.some.injEq] at hc
    subst hc
    exact ⟨Ext.refl _, fun _ h => h, fun _ h => Or.inl h, fun _ a b => ⟨a, b⟩⟩
  | cons v rest ih =>
    intro st st' hc
    simp only [cloneValsO] at hc
    cases h1 : cloneOrGetO st v with
    | none => simp [h1] at hc
    | some st1 =>
      simp only [h1] at hc
      obtain ⟨e1, s1, f1, i1⟩ := cloneOrGetO_step (C := C) (cfgs := cfgs) (m := m) h1
      obtain ⟨e2, s2, f2, i2⟩ := ih st1 st' hc
      refine ⟨e1.trans e2, fun x hx => s2 x (s1 x hx), ?_, ?_⟩
      · intro x hx
        rcases f2 x hx with h3 | h3
        · exact f1 x h3
        · exact Or.inr (Nat.le_trans e1.vlen h3)
      · intro hvs ha hvm
        obtain ⟨a1, v1⟩ := i1 (hvs v (by simp)) ha hvm
        exact i2 (fun x hx => Nat.lt_of_lt_of_le (hvs x (by simp [hx])) e1.vlen) a1 v1

theorem oimg_eq_oget (vm : OMap) (v : VId) : oimg vm v = oget vm v := rfl

theorem mem_zip_of_outPartO {outs newOuts : List VId} {a : VId} {t : Option VId}
    (h : (a, t) ∈ outPartO outs newOuts) : ∃ b, t = some b ∧ (a, b) ∈ outs.zip newOuts := by
  unfold outPartO at h
  rw [List.mem_reverse, List.mem_map] at h
  obtain ⟨p, hp, he⟩ := h
  simp only [Prod.mk.injEq] at he
  obtain ⟨rfl, rfl⟩ := he
  exact ⟨p.2, rfl, hp⟩

/-- where the specs of a cloned node come from -/
theorem clonedNodeO_specs {nd : NodeS} (hio : ∀ nc ∈ nd.dev, ∀ s ∈ nc.specs, InIO nd s.value)
    {vm vm1 : OMap} {ins : List (Option VId)} (hci : cloneInputsO vm nd.inputs = some ins) (base : Nat)
    (subs : List GId) :
    ∀ nc' ∈ (clonedNodeO nd ins (List.range' base nd.outputs.length) vm1 subs).dev, ∀ s' ∈ nc'.specs,
      ∃ nc ∈ nd.dev, ∃ s ∈ nc.specs, s'.dims = s.dims ∧
        ((s.value, s'.value) ∈ nd.outputs.zip (List.range' base nd.outputs.length) ∨
         (some s.value ∈ nd.inputs ∧ oget vm s.value = some s'.value)) := by
  have hins := cloneInputsO_eq hci
  subst hins
  have hlen : nd.outputs.length = (List.range' base nd.outputs.length).length := by simp
  intro nc' hnc' s' hs'
  simp only [clonedNodeO, remapDevO, List.mem_map] at hnc'
  obtain ⟨nc, hnc, rfl⟩ := hnc'
  simp only [List.mem_filterMap] at hs'
  obtain ⟨s, hs, hF⟩ := hs'
  refine ⟨nc, hnc, s, hs, ?_⟩
  have hv := hio nc hnc s hs
  rw [ioMapO_eq, List.append_assoc, olookup_append] at hF
  by_cases hvo : s.value ∈ nd.outputs
  · obtain ⟨x, _, hl⟩ := olookup_outPartO_of_mem hlen hvo
    obtain ⟨b, hb1, hb2⟩ := mem_zip_of_outPartO (olookup_mem hl)
    simp only [Option.some.injEq] at hb1
    subst hb1
    simp only [hl, Option.some_or] at hF
    cases hF
    exact ⟨rfl, Or.inl hb2⟩
  · have hvi : some s.value ∈ nd.inputs := by
      rcases hv with hv | hv
      · exact hv
      · exact absurd hv hvo
    rw [olookup_outPartO_of_not_mem hvo, olookup_append, olookup_inPartO] at hF
    simp only [hvi, if_true, Option.none_or, Option.some_or] at hF
    cases hi : oimg vm s.value with
    | none => simp [hi] at hF
    | some x =>
      simp only [hi, Option.some.injEq] at hF
      rw [← hF]
      exact ⟨rfl, Or.inr ⟨hvi, by rw [← oimg_eq_oget]; exact hi⟩⟩

def RecOK2 (C : List CId) (cfgs : List CfgS) (m : MId) (rec : ICl → GId → Option (ICl × GId)) : Prop :=
  ∀ st g st' g', rec st g = some (st', g') → CStep C cfgs m st st'

theorem cloneSubgraphsO_step {C : List CId} {cfgs : List CfgS} {m : MId} {rec : ICl → GId → Option (ICl × GId)}
    (hrec : RecOK2 C cfgs m rec) : ∀ (gs : List GId) (st st' : ICl) (subs : List GId),
    cloneSubgraphsO rec st gs = some (st', subs) → CStep C cfgs m st st' := by
  intro gs
  induction gs with
  | nil =>
    intro st st' subs hc
    simp only [cloneSubgraphsO, Option.some.injEq, Prod.mk.injEq] at hc
    obtain ⟨rfl, _⟩ := hc
    exact CStep.refl _ _ _ _
  | cons g rest ih =>
    intro st st' subs hc
    simp only [cloneSubgraphsO] at hc
    cases hr : rec st g with
    | none => simp [hr] at hc
    | some r =>
      obtain ⟨st1, g1⟩ := r
      simp only [hr] at hc
      cases hr2 : cloneSubgraphsO rec st1 rest with
      | none => simp [hr2] at hc
      | some r2 =>
        obtain ⟨st2, subs2⟩ := r2
        simp only [hr2, Option.map_some, Option.some.injEq, Prod.mk.injEq] at hc
        obtain ⟨rfl, _⟩ := hc
        exact (hrec st g st1 g1 hr).trans (ih st1 st2 subs2 hr2)

theorem cnWorld_ext (w : World) (nd : NodeS) (ins : List (Option VId)) (vm : OMap) (subs : List GId) :
    Ext w (cnWorld w nd ins vm subs) := Ext.of_append (nd.outputs.map w.value) rfl rfl

theorem mem_cnSubst {w : World} {nd : NodeS} {S : List VId} {x : VId} :
    x ∈ cnSubst w nd S ↔ x ∈ S ∨ ∃ o, o ∈ S ∧ (o, x) ∈ nd.outputs.zip (cnOuts w nd) := by
  unfold cnSubst
  simp only [List.mem_append, List.mem_map, List.mem_filter, decide_eq_true_eq]
  constructor
  · rintro (h | ⟨p, ⟨hp1, hp2⟩, rfl⟩)
    · exact Or.inl h
    · exact Or.inr ⟨p.1, hp2, hp1⟩
  · rintro (h | ⟨o, ho, hz⟩)
    · exact Or.inl h
    · exact Or.inr ⟨(o, x), ⟨hz, ho⟩, rfl⟩

/-- the new node of `clone_node`: invariant and value-map invariant after it -/
theorem cn_step_inv {C : List CId} {cfgs : List CfgS} {m : MId} {w0 w1 : World} {S0 S1 : List VId}
    {vm0 vmA : OMap} {nd : NodeS} {ins : List (Option VId)} (subs : List GId) (used : List String)
    (he01 : Ext w0 w1) (hsub01 : ∀ v ∈ S0, v ∈ S1) (hfresh01 : ∀ v ∈ S1, v ∈ S0 ∨ w0.values.length ≤ v)
    (hA0 : AInv C cfgs m w0 S0) (hV0 : VmI vm0 w0 S0) (hA1 : AInv C cfgs m w1 S1) (hV1 : VmI vmA w1 S1)
    (hndmem : nd ∈ w0.nodes ∨ nd = {}) (hci : cloneInputsO vm0 nd.inputs = some ins) :
    AInv C cfgs m (renameOuts (cnWorld w1 nd ins vmA subs, used) (cnOuts w1 nd)).1 (cnSubst w1 nd S1) ∧
    VmI (cnVm w1 nd vmA) (renameOuts (cnWorld w1 nd ins vmA subs, used) (cnOuts w1 nd)).1 (cnSubst w1 nd S1) := by
  have hndW : NodeWeak C cfgs nd := by
    rcases hndmem with h | h
    · exact hA0.wj.hnodes _ h
    · rw [h]; exact NodeWeak_default C cfgs
  have hndIds : NodeIds w0 nd := by
    rcases hndmem with h | h
    · exact hA0.nids _ h
    · rw [h]; exact ⟨by simp, by simp⟩
  have hndAx : ∀ nc ∈ nd.dev, ∀ s ∈ nc.specs, s.value ∉ S0 → AxesOK w0 s := by
    rcases hndmem with h | h
    · exact hA0.ax _ h
    · rw [h]; intro nc hnc; simp at hnc
  have hV01 : VmI vm0 w1 S1 := hV0.mono he01 hsub01 hfresh01
  have heC : Ext w1 (cnWorld w1 nd ins vmA subs) := cnWorld_ext _ _ _ _ _
  have heR := renameOuts_ext (cnOuts w1 nd) (cnWorld w1 nd ins vmA subs, used)
  have he1f := heC.trans heR
  obtain ⟨rn, rc, rm, rg⟩ := renameOuts_same (cnOuts w1 nd) (cnWorld w1 nd ins vmA subs, used)
  have hsubS : ∀ v ∈ S1, v ∈ cnSubst w1 nd S1 := fun v hv => mem_cnSubst.mpr (Or.inl hv)
  have hzip : ∀ o x, (o, x) ∈ nd.outputs.zip (cnOuts w1 nd) →
      (cnWorld w1 nd ins vmA subs).value x = w1.value o ∧ w1.values.length ≤ x ∧
      x < w1.values.length + nd.outputs.length ∧ o ∈ nd.outputs :=
    fun o x h => zip_range'_value h (cnWorld w1 nd ins vmA subs) rfl
  have hwclen : (cnWorld w1 nd ins vmA subs).values.length = w1.values.length + nd.outputs.length := by
    simp [cnWorld]
  have hfreshS : ∀ v ∈ cnSubst w1 nd S1, v ∈ S1 ∨ w1.values.length ≤ v := by
    intro v hv
    rcases mem_cnSubst.mp hv with h | ⟨o, _, hz⟩
    · exact Or.inl h
    · exact Or.inr (hzip o v hz).2.1
  constructor
  · refine hA1.push he1f (clonedNodeO nd ins (cnOuts w1 nd) (cnVm w1 nd vmA) subs) (by rw [rn]; rfl) (by rw [rg]; rfl)
      (by rw [rc]; rfl) (by rw [rm]; rfl) hsubS (NodeWeak_clonedNodeO hndW hci _ _) ?_ ?_
    · -- ids of the new node
      have hins := cloneInputsO_eq hci
      constructor
      · intro o ho v hov
        subst hov
        have ho' : some v ∈ nd.inputs.map (fun o => o.bind (oimg vm0)) := by rw [← hins]; exact ho
        simp only [List.mem_map] at ho'
        obtain ⟨i, _, hi2⟩ := ho'
        cases i with
        | none => simp at hi2
        | some a =>
          simp only [Option.bind_some] at hi2
          exact Nat.lt_of_lt_of_le (hV01 a v (by rw [← oimg_eq_oget]; exact hi2)).1 he1f.vlen
      · intro v hv
        have hv' : v ∈ List.range' w1.values.length nd.outputs.length := hv
        rw [List.mem_range'_1] at hv'
        exact Nat.lt_of_lt_of_le (by rw [hwclen]; exact hv'.2) heR.vlen
    · -- axes of the new node's specs
      intro nc' hnc' s' hs' hns
      obtain ⟨nc, hnc, s, hs, hd, hcase⟩ := clonedNodeO_specs hndW.io hci w1.values.length subs nc' hnc' s' hs'
      rcases hcase with hz | ⟨hvi, hog⟩
      · obtain ⟨hval, _, hlt, hmem⟩ := hzip _ _ hz
        have hoS1 : s.value ∉ S1 := fun hin => hns (mem_cnSubst.mpr (Or.inr ⟨s.value, hin, hz⟩))
        have hax0 := hndAx nc hnc s hs (fun hin => hoS1 (hsub01 _ hin))
        have ho_lt : s.value < w0.values.length := hndIds.2 _ hmem
        refine AxesOK_of_rank hd ?_ hax0
        rw [heR.rank _ (by rw [hwclen]; exact hlt), hval, he01.rank _ ho_lt]
      · obtain ⟨hb_lt, hb⟩ := hV01 s.value s'.value hog
        obtain ⟨_, haS1, hr⟩ := hb (fun hin => hns (hsubS _ hin))
        have hax0 := hndAx nc hnc s hs (fun hin => haS1 (hsub01 _ hin))
        have ha_lt : s.value < w0.values.length := hndIds.1 _ hvi _ rfl
        refine AxesOK_of_rank hd ?_ hax0
        rw [he1f.rank _ hb_lt, hr, he01.rank _ ha_lt]
  · intro a b hab
    unfold oget cnVm at hab
    rw [olookup_append] at hab
    cases hl : olookup (((nd.outputs.zip (cnOuts w1 nd)).map (fun p => (p.1, some p.2))).reverse) a with
    | none =>
      rw [hl] at hab
      simp only [Option.none_or] at hab
      exact (hV1.mono he1f hsubS hfreshS) a b hab
    | some t =>
      obtain ⟨x, hx, hz⟩ := mem_zip_of_outPartO (outs := nd.outputs) (newOuts := cnOuts w1 nd) (olookup_mem hl)
      subst hx
      rw [hl] at hab
      simp only [Option.some_or, Option.getD_some, Option.some.injEq] at hab
      subst hab
      obtain ⟨hval, hge, hlt, hmem⟩ := hzip _ _ hz
      have hx_lt : x < (renameOuts (cnWorld w1 nd ins vmA subs, used) (cnOuts w1 nd)).1.values.length :=
        Nat.lt_of_lt_of_le (by rw [hwclen]; exact hlt) heR.vlen
      refine ⟨hx_lt, ?_⟩
      intro hb
      have haS1 : a ∉ S1 := fun hin => hb (mem_cnSubst.mpr (Or.inr ⟨a, hin, hz⟩))
      have ha_lt0 : a < w0.values.length := hndIds.2 a hmem
      have ha_lt1 : a < w1.values.length := Nat.lt_of_lt_of_le ha_lt0 he01.vlen
      refine ⟨Nat.lt_of_lt_of_le ha_lt1 he1f.vlen, ?_, ?_⟩
      · intro hin
        rcases mem_cnSubst.mp hin with h | ⟨o, _, hz2⟩
        · exact haS1 h
        · exact absurd ha_lt1 (Nat.not_lt.mpr (hzip o a hz2).2.1)
      · rw [heR.rank _ (by rw [hwclen]; exact hlt), hval, he1f.rank _ ha_lt1]

theorem cloneNodeO_step {C : List CId} {cfgs : List CfgS} {m : MId} {rec : ICl → GId → Option (ICl × GId)}
    (hrec : RecOK2 C cfgs m rec) {st st' : ICl} {n k : NId}
    (hc : cloneNodeO rec st n = some (st', k)) : CStep C cfgs m st st' := by
  unfold cloneNodeO at hc
  simp only at hc
  cases hci : cloneInputsO st.vm (st.w.node n).inputs with
  | none => simp [hci] at hc
  | some ins =>
    simp only [hci] at hc
    cases hs : cloneSubgraphsO rec st (st.w.node n).subgraphs with
    | none => simp [hs] at hc
    | some r =>
      obtain ⟨st1, subs⟩ := r
      simp only [hs] at hc
      split at hc
      · cases hc
      · simp only [Option.some.injEq, Prod.mk.injEq] at hc
        obtain ⟨rfl, _⟩ := hc
        have S01 := cloneSubgraphsO_step hrec _ _ _ _ hs
        have hge : ∀ o x, (o, x) ∈ (st.w.node n).outputs.zip (cnOuts st1.w (st.w.node n)) → st1.w.values.length ≤ x :=
          fun o x h => (zip_range'_value h (cnWorld st1.w (st.w.node n) ins st1.vm subs) rfl).2.1
        refine ⟨S01.ext.trans ((cnWorld_ext st1.w (st.w.node n) ins st1.vm subs).trans
            (renameOuts_ext (cnOuts st1.w (st.w.node n)) (cnWorld st1.w (st.w.node n) ins st1.vm subs, st1.used))),
          fun v hv => mem_cnSubst.mpr (Or.inl (S01.sub v hv)), ?_, ?_⟩
        · intro v hv
          rcases mem_cnSubst.mp hv with h | ⟨o, _, hz⟩
          · exact S01.fresh v h
          · exact Or.inr (Nat.le_trans S01.ext.vlen (hge o v hz))
        · intro hA0 hV0
          obtain ⟨hA1, hV1⟩ := S01.inv hA0 hV0
          exact cn_step_inv subs st1.used S01.ext S01.sub S01.fresh hA0 hV0 hA1 hV1 (node_mem_or_default st.w n) hci

theorem cloneNodesO_step {C : List CId} {cfgs : List CfgS} {m : MId} {rec : ICl → GId → Option (ICl × GId)}
    (hrec : RecOK2 C cfgs m rec) : ∀ (ns : List NId) (st st' : ICl) (acc res : List NId),
    cloneNodesO rec st ns acc = some (st', res) → CStep C cfgs m st st' := by
  intro ns
  induction ns with
  | nil =>
    intro st st' acc res hc
    simp only [cloneNodesO, Option.some.injEq, Prod.mk.injEq] at hc
    obtain ⟨rfl, _⟩ := hc
    exact CStep.refl _ _ _ _
  | cons n rest ih =>
    intro st st' acc res hc
    simp only [cloneNodesO] at hc
    cases h1 : cloneNodeO rec st n with
    | none => simp [h1] at hc
    | some r =>
      obtain ⟨st1, k⟩ := r
      simp only [h1] at hc
      exact (cloneNodeO_step hrec h1).trans (ih st1 st' _ res hc)

theorem cloneGraphBodyO_step {C : List CId} {cfgs : List CfgS} {m : MId} {rec : ICl → GId → Option (ICl × GId)}
    (hrec : RecOK2 C cfgs m rec) {st st' : ICl} {g g' : GId}
    (hc : cloneGraphBodyO rec st g = some (st', g')) : CStep C cfgs m st st' := by
  unfold cloneGraphBodyO at hc
  simp only at hc
  cases h0 : cloneValsO st ((st.w.graph g).inputs ++ (st.w.graph g).inits) with
  | none => simp [h0] at hc
  | some st0 =>
    simp only [h0] at hc
    cases h1 : cloneNodesO rec st0 (st.w.graph g).nodes [] with
    | none => simp [h1] at hc
    | some r =>
      obtain ⟨st2, ns⟩ := r
      simp only [h1] at hc
      cases h2 : optAll ((st2.t.outsOf g).map (oget st2.vm)) with
      | none => simp [h2] at hc
      | some outs' =>
        simp only [h2, Option.some.injEq, Prod.mk.injEq] at hc
        obtain ⟨rfl, _⟩ := hc
        obtain ⟨e0, s0, f0, i0⟩ := cloneValsO_step (C := C) (cfgs := cfgs) (m := m) _ _ _ h0
        have S02 := cloneNodesO_step hrec _ _ _ _ _ h1
        refine ⟨(e0.trans S02.ext).trans (Ext.of_eq rfl rfl), fun v hv => S02.sub v (s0 v hv), ?_, ?_⟩
        · intro v hv
          rcases S02.fresh v hv with h3 | h3
          · exact f0 v h3
          · exact Or.inr (Nat.le_trans e0.vlen h3)
        · intro hA hV
          obtain ⟨a0, v0⟩ := i0 (hA.graph_ids g) hA hV
          obtain ⟨a2, v2⟩ := S02.inv a0 v0
          refine ⟨?_, v2⟩
          -- the new graph: its inputs and initializers are images under the value map
          refine ⟨a2.wj.of_eq rfl rfl rfl, a2.nids, ?_, a2.ax⟩
          intro gs hgs v hv
          have hgs' : gs ∈ st2.w.graphs ++ [(⟨(st.w.graph g).inputs.filterMap (oget st0.vm), ns,
              (st.w.graph g).inits.filterMap (oget st0.vm)⟩ : GraphS)] := hgs
          rw [List.mem_append] at hgs'
          rcases hgs' with h3 | h3
          · exact a2.gids gs h3 v hv
          · simp only [List.mem_singleton] at h3
            subst h3
            simp only [List.mem_append, List.mem_filterMap] at hv
            have hlt0 : v < st0.w.values.length := by
              rcases hv with ⟨a, _, ha⟩ | ⟨a, _, ha⟩
              · exact (v0 a v ha).1
              · exact (v0 a v ha).1
            exact Nat.lt_of_lt_of_le hlt0 S02.ext.vlen

theorem cloneGraphOF_step (C : List CId) (cfgs : List CfgS) (m : MId) :
    ∀ (f : Nat), RecOK2 C cfgs m (cloneGraphOF f) := by
  intro f
  induction f with
  | zero => intro st g st' g' hc; simp [cloneGraphOF] at hc
  | succ f ih =>
    intro st g st' g' hc
    simp only [cloneGraphOF] at hc
    exact cloneGraphBodyO_step ih hc

/-! ### the steps of `replace_nodes_and_values` -/

theorem AInv.weaken {C : List CId} {cfgs : List CfgS} {m : MId} {w : World} {S S' : List VId}
    (h : AInv C cfgs m w S) (hs : ∀ v ∈ S, v ∈ S') : AInv C cfgs m w S' :=
  h.ext_same (Ext.refl w) rfl rfl rfl rfl hs

/-- every spec of `a` is a spec of `b` -/
def SpecsSub (a b : NodeS) : Prop := ∀ nc' ∈ a.dev, ∀ s ∈ nc'.specs, ∃ nc ∈ b.dev, s ∈ nc.specs

theorem replaceInputNode_specsSub {nd : NodeS} (H : ∀ nc ∈ nd.dev, ∀ s ∈ nc.specs, InIO nd s.value) (i : Nat)
    (val : Option VId) : SpecsSub (replaceInputNode nd i val) nd := by
  intro nc' hnc' s hs
  rw [replaceInputNode_dev i val H] at hnc'
  simp only [keepIO, List.mem_map] at hnc'
  obtain ⟨nc, hnc, rfl⟩ := hnc'
  exact ⟨nc, hnc, (List.mem_filter.mp hs).1⟩

theorem NodeIds_replaceInputNode {w : World} {nd : NodeS} (h : NodeIds w nd) (i : Nat) (val : Option VId)
    (hv : ∀ v, val = some v → v < w.values.length) : NodeIds w (replaceInputNode nd i val) := by
  refine ⟨?_, ?_⟩
  · intro o ho v hov
    rw [replaceInputNode_inputs] at ho
    rcases List.mem_or_eq_of_mem_set ho with h1 | h1
    · exact h.1 o h1 v hov
    · exact hv v (h1 ▸ hov)
  · intro v hv'
    rw [replaceInputNode_outputs] at hv'
    exact h.2 v hv'

/-- a fold of conditional `replace_input_with` calls: the node stays fine, ids exist, specs only disappear -/
theorem fold_replace_spec {C : List CId} {cfgs : List CfgS} {w : World} (f : NodeS → Nat → Bool) (val : Option VId)
    (hv : ∀ v, val = some v → v < w.values.length) (nd0 : NodeS) :
    ∀ (idxs : List Nat) (nd : NodeS), NodeWeak C cfgs nd → NodeIds w nd → SpecsSub nd nd0 →
    NodeIds w (idxs.foldl (fun a i => if f a i then replaceInputNode a i val else a) nd) ∧
    SpecsSub (idxs.foldl (fun a i => if f a i then replaceInputNode a i val else a) nd) nd0 := by
  intro idxs
  induction idxs with
  | nil => intro nd _ h2 h3; exact ⟨h2, h3⟩
  | cons i rest ih =>
    intro nd h1 h2 h3
    simp only [List.foldl_cons]
    by_cases hf : f nd i = true
    · simp only [hf, if_true]
      apply ih _ (NodeWeak_replaceInputNode h1 i val) (NodeIds_replaceInputNode h2 i val hv)
      intro nc' hnc' s hs
      obtain ⟨nc, hnc, hs2⟩ := replaceInputNode_specsSub h1.io i val nc' hnc' s hs
      exact h3 nc hnc s hs2
    · simp only [hf]
      exact ih _ h1 h2 h3

theorem SpecsSub.refl (nd : NodeS) : SpecsSub nd nd := fun nc h s hs => ⟨nc, h, hs⟩

theorem rauwNode_spec {C : List CId} {cfgs : List CfgS} {w : World} {nd : NodeS} (h1 : NodeWeak C cfgs nd)
    (h2 : NodeIds w nd) (old new : VId) (hnew : new < w.values.length) :
    NodeIds w (rauwNode old new nd) ∧ SpecsSub (rauwNode old new nd) nd := by
  unfold rauwNode
  have := fold_replace_spec (C := C) (cfgs := cfgs) (w := w) (fun a i => decide (a.inputs.getD i none = some old)) (some new)
    (by intro v hv; cases hv; exact hnew) nd (List.range' 0 nd.inputs.length) nd h1 h2 (SpecsSub.refl nd)
  simpa using this

theorem detach_spec {C : List CId} {cfgs : List CfgS} {w : World} {nd : NodeS} (h1 : NodeWeak C cfgs nd)
    (h2 : NodeIds w nd) (idxs : List Nat) :
    NodeIds w (idxs.foldl (fun a i => replaceInputNode a i none) nd) ∧
    SpecsSub (idxs.foldl (fun a i => replaceInputNode a i none) nd) nd := by
  have := fold_replace_spec (C := C) (cfgs := cfgs) (w := w) (fun _ _ => true) none (by intro v hv; cases hv) nd idxs nd h1 h2
    (SpecsSub.refl nd)
  simpa using this

/-- the nodes of the heap rewritten so that ids stay and specs only disappear; values untouched -/
theorem AInv.mapNodes {C : List CId} {cfgs : List CfgS} {m : MId} {w w' : World} {S : List VId}
    (h : AInv C cfgs m w S) (hj : WJ C cfgs m w') (hv : w'.values = w.values) (hg : w'.graphs = w.graphs)
    (hn : ∀ x ∈ w'.nodes, ∃ y ∈ w.nodes, NodeIds w x ∧ SpecsSub x y) : AInv C cfgs m w' S := by
  have hval : ∀ v, w'.value v = w.value v := fun v => by simp [World.value, hv]
  refine ⟨hj, ?_, ?_, ?_⟩
  · intro x hx
    obtain ⟨y, _, h1, _⟩ := hn x hx
    exact ⟨fun o ho v hov => by rw [hv]; exact h1.1 o ho v hov, fun v hv' => by rw [hv]; exact h1.2 v hv'⟩
  · intro gs hgs v hv'
    rw [hg] at hgs; rw [hv]; exact h.gids gs hgs v hv'
  · intro x hx nc hnc s hs hns
    obtain ⟨y, hy, _, h2⟩ := hn x hx
    obtain ⟨nc0, hnc0, hs0⟩ := h2 nc hnc s hs
    have := h.ax y hy nc0 hnc0 s hs0 hns
    exact AxesOK_of_rank rfl (by rw [hval]) this

theorem rauwAll_AInv {C : List CId} {cfgs : List CfgS} {m : MId} {S : List VId} :
    ∀ (pairs : List (VId × VId)) (w : World), AInv C cfgs m w S → (∀ p ∈ pairs, p.2 < w.values.length) →
    AInv C cfgs m (rauwAll w pairs) S := by
  intro pairs
  induction pairs with
  | nil => intro w h _; exact h
  | cons p rest ih =>
    intro w h hp
    obtain ⟨old, new⟩ := p
    simp only [rauwAll]
    have hnew : new < w.values.length := hp (old, new) (by simp)
    apply ih
    · have hj : WJ C cfgs m { w with nodes := w.nodes.map (rauwNode old new) } :=
        h.wj.mapNodes (rauwNode old new) (fun nd hnd => NodeWeak_rauwNode hnd old new) rfl rfl rfl
      refine h.mapNodes (w' := { w with nodes := w.nodes.map (rauwNode old new) }) hj rfl rfl ?_
      intro x hx
      have hx' : x ∈ w.nodes.map (rauwNode old new) := hx
      rw [List.mem_map] at hx'
      obtain ⟨y, hy, rfl⟩ := hx'
      obtain ⟨a, b⟩ := rauwNode_spec (h.wj.hnodes y hy) (h.nids y hy) old new hnew
      exact ⟨y, hy, a, b⟩
    · intro q hq; exact hp q (by simp [hq])

theorem removeNode_AInv {C : List CId} {cfgs : List CfgS} {m : MId} {w : World} {S : List VId}
    (h : AInv C cfgs m w S) (g : GId) (n : NId) (safe : Bool) : AInv C cfgs m (removeNode w g n safe).1 S := by
  have hj := removeNode_WJ h.wj g n safe
  unfold removeNode at hj ⊢
  simp only at hj ⊢
  split
  · exact h
  · split
    · exact h
    · rename_i h1 h2
      simp only [h1, h2, if_false] at hj
      refine ⟨hj, ?_, ?_, ?_⟩
      · intro x hx
        have hx' : x ∈ w.nodes.set n (if safe = true then
            (List.range' 0 (w.node n).inputs.length).foldl (fun a i => replaceInputNode a i none) (w.node n)
          else w.node n) := hx
        rcases List.mem_or_eq_of_mem_set hx' with h3 | h3
        · exact h.nids x h3
        · rw [h3]
          split
          · exact (detach_spec (h.wj.node n) (h.node_ids n) _).1
          · exact h.node_ids n
      · intro gs hgs v hv
        have hgs' : gs ∈ w.graphs.set g { (w.graph g) with nodes := (w.graph g).nodes.filter (fun k => decide (k ≠ n)) } := hgs
        rcases List.mem_or_eq_of_mem_set hgs' with h3 | h3
        · exact h.gids gs h3 v hv
        · rw [h3] at hv
          exact h.graph_ids g v hv
      · intro x hx nc hnc s hs hns
        have hx' : x ∈ w.nodes.set n (if safe = true then
            (List.range' 0 (w.node n).inputs.length).foldl (fun a i => replaceInputNode a i none) (w.node n)
          else w.node n) := hx
        have hval : ∀ v, World.value _ v = w.value v := fun v => rfl
        rcases List.mem_or_eq_of_mem_set hx' with h3 | h3
        · exact AxesOK_of_rank rfl rfl (h.ax x h3 nc hnc s hs hns)
        · have hsub : SpecsSub x (w.node n) := by
            rw [h3]
            split
            · exact (detach_spec (h.wj.node n) (h.node_ids n) _).2
            · exact SpecsSub.refl _
          obtain ⟨nc0, hnc0, hs0⟩ := hsub nc hnc s hs
          rcases node_mem_or_default w n with h4 | h4
          · exact AxesOK_of_rank rfl rfl (h.ax _ h4 nc0 hnc0 s hs0 hns)
          · rw [h4] at hnc0; simp at hnc0

theorem copyOne_len (w : World) (old new : VId) : (copyOne w old new).values.length = w.values.length := by
  simp [copyOne]

theorem copyOne_value (w : World) (old new v : VId) (h : v ≠ new) : (copyOne w old new).value v = w.value v := by
  simp only [copyOne, World.value, List.getD_eq_getElem?_getD, List.getElem?_set]
  have : ¬ new = v := fun e => h e.symm
  simp [this]

theorem copyInfo_len : ∀ (pairs : List (VId × VId)) (w : World), (copyInfo w pairs).values.length = w.values.length := by
  intro pairs
  induction pairs with
  | nil => intro w; rfl
  | cons p rest ih =>
    intro w
    obtain ⟨old, new⟩ := p
    simp only [copyInfo]
    rw [ih, copyOne_len]

theorem copyInfo_value : ∀ (pairs : List (VId × VId)) (w : World) (v : VId), v ∉ pairs.map (·.2) →
    (copyInfo w pairs).value v = w.value v := by
  intro pairs
  induction pairs with
  | nil => intro w v _; rfl
  | cons p rest ih =>
    intro w v hv
    obtain ⟨old, new⟩ := p
    simp only [List.map_cons, List.mem_cons, not_or] at hv
    simp only [copyInfo]
    rw [ih _ v hv.2, copyOne_value _ _ _ _ hv.1]

theorem AInv.copyInfo {C : List CId} {cfgs : List CfgS} {m : MId} {w : World} {S S' : List VId}
    (h : AInv C cfgs m w S) (pairs : List (VId × VId)) (hp : ∀ p ∈ pairs, p.2 ∈ S') (hs : ∀ v ∈ S, v ∈ S') :
    AInv C cfgs m (IrVerif.Device.copyInfo w pairs) S' := by
  obtain ⟨a, b, c, d⟩ := copyInfo_same pairs w
  have hl := copyInfo_len pairs w
  refine ⟨h.wj.of_eq a b c, ?_, ?_, ?_⟩
  · intro x hx; rw [a] at hx
    have := h.nids x hx
    exact ⟨fun o ho v hov => by rw [hl]; exact this.1 o ho v hov, fun v hv => by rw [hl]; exact this.2 v hv⟩
  · intro gs hgs v hv; rw [d] at hgs; rw [hl]; exact h.gids gs hgs v hv
  · intro x hx nc hnc s hsp hns
    rw [a] at hx
    have hnp : s.value ∉ pairs.map (·.2) := by
      intro hin
      simp only [List.mem_map] at hin
      obtain ⟨p, hp1, hp2⟩ := hin
      exact hns (hp2 ▸ hp p hp1)
    exact AxesOK_of_rank rfl (by rw [copyInfo_value pairs w _ hnp])
      (h.ax x hx nc hnc s hsp (fun hin => hns (hs _ hin)))

theorem fwdOutsO_AInv {C : List CId} {cfgs : List CfgS} {m : MId} {S : List VId} (vm : OMap) :
    ∀ (outs : List VId) (st st' : Fwd), fwdOutsO vm st outs = some st' →
    AInv C cfgs m st.w S → VmI vm st.w S → (∀ x ∈ st.outvals, x < st.w.values.length) →
    AInv C cfgs m st'.w S ∧ (∀ x ∈ st'.outvals, x < st'.w.values.length) := by
  intro outs
  induction outs with
  | nil =>
    intro st st' hc h _ ho
    simp only [fwdOutsO, Option.some.injEq] at hc
    subst hc
    exact ⟨h, ho⟩
  | cons o rest ih =>
    intro st st' hc h hV ho
    simp only [fwdOutsO] at hc
    cases hv : oget vm o with
    | none => simp [hv] at hc
    | some val =>
      simp only [hv] at hc
      have hval_lt : val < st.w.values.length := (hV o val hv).1
      split at hc
      · refine ih _ _ hc h hV ?_
        intro x hx
        simp only [List.mem_append, List.mem_singleton] at hx
        rcases hx with hx | hx
        · exact ho x hx
        · rw [hx]; exact hval_lt
      · have he1 : Ext st.w { st.w with
            values := st.w.values ++ [({ name := (st.w.value o).name, shape := (st.w.value val).shape } : ValueS)],
            nodes := st.w.nodes ++ [{ inputs := [some val], outputs := [st.w.values.length], dev := [], subgraphs := [] }] } :=
          Ext.of_append _ rfl rfl
        have he2 := renameOuts_ext [st.w.values.length] ({ st.w with
            values := st.w.values ++ [({ name := (st.w.value o).name, shape := (st.w.value val).shape } : ValueS)],
            nodes := st.w.nodes ++ [{ inputs := [some val], outputs := [st.w.values.length], dev := [], subgraphs := [] }] },
            st.used)
        obtain ⟨rn, rc, rm, rg⟩ := renameOuts_same [st.w.values.length] ({ st.w with
            values := st.w.values ++ [({ name := (st.w.value o).name, shape := (st.w.value val).shape } : ValueS)],
            nodes := st.w.nodes ++ [{ inputs := [some val], outputs := [st.w.values.length], dev := [], subgraphs := [] }] },
            st.used)
        have he := he1.trans he2
        have hlen1 : st.w.values.length < (st.w.values ++ [({ name := (st.w.value o).name, shape := (st.w.value val).shape } : ValueS)]).length := by
          simp
        have hA : AInv C cfgs m _ S := h.push he { inputs := [some val], outputs := [st.w.values.length], dev := [], subgraphs := [] }
          (by rw [rn]) (by rw [rg]) (by rw [rc]) (by rw [rm]) (fun _ hx => hx)
          (by refine ⟨by simp, ?_⟩; intro nc hnc; simp at hnc)
          (by
            refine ⟨?_, ?_⟩
            · intro o' ho' v hov
              simp only [List.mem_singleton] at ho'
              subst ho'
              cases hov
              exact Nat.lt_of_lt_of_le hval_lt he.vlen
            · intro v hv'
              simp only [List.mem_singleton] at hv'
              subst hv'
              exact Nat.lt_of_lt_of_le hlen1 he2.vlen)
          (by intro nc hnc; simp at hnc)
        refine ih _ _ hc hA (hV.mono he (fun _ hx => hx) (fun _ hx => Or.inl hx)) ?_
        intro x hx
        simp only [List.mem_append, List.mem_singleton] at hx
        rcases hx with hx | hx
        · exact Nat.lt_of_lt_of_le (ho x hx) he.vlen
        · rw [hx]; exact Nat.lt_of_lt_of_le hlen1 he2.vlen

theorem mem_zipPadO : ∀ (fs : List VId) (ins : List (Option VId)) (a : VId) (t : Option VId),
    (a, t) ∈ zipPadO fs ins → t = none ∨ t ∈ ins := by
  intro fs
  induction fs with
  | nil => intro ins a t h; simp [zipPadO] at h
  | cons v vs ih =>
    intro ins a t h
    cases ins with
    | nil =>
      simp only [zipPadO, List.mem_cons, Prod.mk.injEq] at h
      rcases h with ⟨_, h⟩ | h
      · exact Or.inl h
      · rcases ih [] a t h with h1 | h1
        · exact Or.inl h1
        · cases h1
    | cons c cs =>
      simp only [zipPadO, List.mem_cons, Prod.mk.injEq] at h
      rcases h with ⟨_, h⟩ | h
      · exact Or.inr (by simp [h])
      · rcases ih cs a t h with h1 | h1
        · exact Or.inl h1
        · exact Or.inr (by simp [h1])

/-- the value map `_instantiate_call` starts from: every image is an actual argument, hence in `subst` -/
theorem VmI_zipPad {w : World} {nd : NodeS} (hids : NodeIds w nd) (fs : List VId) (S : List VId) :
    VmI (zipPadO fs nd.inputs).reverse w (S ++ nd.inputs.filterMap id) := by
  intro a b hab
  unfold oget at hab
  cases hl : olookup (zipPadO fs nd.inputs).reverse a with
  | none => simp [hl] at hab
  | some t =>
    simp only [hl, Option.getD_some] at hab
    subst hab
    have hm := olookup_mem hl
    rw [List.mem_reverse] at hm
    rcases mem_zipPadO _ _ _ _ hm with h1 | h1
    · cases h1
    · refine ⟨hids.1 _ h1 b rfl, ?_⟩
      intro hb
      exfalso
      apply hb
      apply List.mem_append_right
      simp only [List.mem_filterMap, id]
      exact ⟨some b, h1, rfl⟩

theorem AInv.setGraph {C : List CId} {cfgs : List CfgS} {m : MId} {w : World} {S : List VId}
    (h : AInv C cfgs m w S) (g : GId) (gs' : GraphS) (hi : gs'.inputs = (w.graph g).inputs)
    (ht : gs'.inits = (w.graph g).inits) : AInv C cfgs m (w.setGraph g gs') S := by
  refine ⟨h.wj.of_eq rfl rfl rfl, h.nids, ?_, h.ax⟩
  intro gs hgs v hv
  have hgs' : gs ∈ w.graphs.set g gs' := hgs
  rcases List.mem_or_eq_of_mem_set hgs' with h3 | h3
  · exact h.gids gs h3 v hv
  · rw [h3, hi, ht] at hv
    exact h.graph_ids g v hv

theorem AInv.mapModels {C : List CId} {cfgs : List CfgS} {m : MId} {w : World} {S : List VId}
    (h : AInv C cfgs m w S) (f : ModelS → ModelS) (hf : ∀ x, (f x).cfgs = x.cfgs) :
    AInv C cfgs m { w with models := w.models.map f } S :=
  ⟨h.wj.mapModels f hf rfl rfl rfl, h.nids, h.gids, h.ax⟩

theorem inlineCall_AInv {C : List CId} {cfgs : List CfgS} {m : MId} {fuel : Nat} {st st' : IState} {g : GId} {c : NId}
    {f : GId} {tops : List NId} (hc : inlineCall fuel st g c f = some (st', tops))
    (h : AInv C cfgs m st.w st.subst) : AInv C cfgs m st'.w st'.subst := by
  unfold inlineCall at hc
  simp only at hc
  split at hc
  · cases hc
  split at hc
  · cases hc
  cases h1 : cloneNodesO (cloneGraphOF fuel)
      { w := st.w, t := st.t, vm := (zipPadO (st.w.graph f).inputs (st.w.node c).inputs).reverse, used := st.used,
        subst := st.subst ++ (st.w.node c).inputs.filterMap id } (st.w.graph f).nodes [] with
  | none => simp [h1] at hc
  | some r =>
    obtain ⟨cl, tops0⟩ := r
    simp only [h1] at hc
    have S0 := cloneNodesO_step (cloneGraphOF_step C cfgs m fuel) _ _ _ _ _ h1
    obtain ⟨hAcl, hVcl⟩ := S0.inv (h.weaken (fun v hv => List.mem_append_left _ hv))
      (VmI_zipPad (h.node_ids c) (st.w.graph f).inputs st.subst)
    cases h2 : fwdOutsO cl.vm (Fwd.mk cl.w cl.used ((tops0.map (fun k => (cl.w.node k).outputs)).flatten) [] [])
        (cl.t.outsOf f) with
    | none => simp [h2] at hc
    | some fw =>
      simp only [h2] at hc
      obtain ⟨hAfw, hout⟩ := fwdOutsO_AInv cl.vm _ _ _ h2 hAcl hVcl (by intro x hx; simp at hx)
      split at hc
      · cases hc
      generalize hr : removeNode _ g c true = r at hc
      obtain ⟨w4, res⟩ := r
      cases res with
      | raised => simp at hc
      | ok =>
        simp only [Option.some.injEq, Prod.mk.injEq] at hc
        obtain ⟨rfl, _⟩ := hc
        have hw4 : w4 = (w4, Res.ok).1 := rfl
        show AInv C cfgs m w4 (cl.subst ++ fw.outvals)
        rw [hw4, ← hr]
        apply removeNode_AInv
        have hA1 := hAfw.copyInfo (S' := cl.subst ++ fw.outvals) ((st.w.node c).outputs.zip fw.outvals)
          (fun p hp => List.mem_append_right _ (List.of_mem_zip hp).2) (fun v hv => List.mem_append_left _ hv)
        have hA2 := rauwAll_AInv ((st.w.node c).outputs.zip fw.outvals) _ hA1
          (fun p hp => by rw [copyInfo_len]; exact hout _ (List.of_mem_zip hp).2)
        have hA3 := hA2.setGraph g
          { (World.graph (rauwAll (copyInfo fw.w ((st.w.node c).outputs.zip fw.outvals))
              ((st.w.node c).outputs.zip fw.outvals)) g) with
            nodes := (World.graph (rauwAll (copyInfo fw.w ((st.w.node c).outputs.zip fw.outvals))
              ((st.w.node c).outputs.zip fw.outvals)) g).nodes.flatMap
                (fun k => if k = c then c :: (tops0 ++ fw.nodes) else [k]) } rfl rfl
        refine hA3.mapModels _ ?_
        intro x; split <;> rfl

def RecOKa (C : List CId) (cfgs : List CfgS) (m : MId) (rec : IState → GId → Option IState) : Prop :=
  ∀ st g st', rec st g = some st' → AInv C cfgs m st.w st.subst → AInv C cfgs m st'.w st'.subst

theorem inlSubs_AInv {C : List CId} {cfgs : List CfgS} {m : MId} {rec : IState → GId → Option IState}
    (hrec : RecOKa C cfgs m rec) : ∀ (gs : List GId) (st st' : IState),
    inlSubs rec st gs = some st' → AInv C cfgs m st.w st.subst → AInv C cfgs m st'.w st'.subst := by
  intro gs
  induction gs with
  | nil => intro st st' hc h; simp only [inlSubs, Option.some.injEq] at hc; subst hc; exact h
  | cons g rest ih =>
    intro st st' hc h
    simp only [inlSubs] at hc
    cases h1 : rec st g with
    | none => simp [h1] at hc
    | some st1 =>
      simp only [h1] at hc
      exact ih st1 st' hc (hrec st g st1 h1 h)

theorem inlNodes_AInv {C : List CId} {cfgs : List CfgS} {m : MId} {rec : IState → GId → Option IState}
    (hrec : RecOKa C cfgs m rec) (fuel : Nat) (g : GId) : ∀ (k : Nat) (st st' : IState) (ns : List NId),
    inlNodes rec fuel g k st ns = some st' → AInv C cfgs m st.w st.subst → AInv C cfgs m st'.w st'.subst := by
  intro k
  induction k with
  | zero => intro st st' ns hc _; simp [inlNodes] at hc
  | succ k ih =>
    intro st st' ns hc h
    cases ns with
    | nil => simp only [inlNodes, Option.some.injEq] at hc; subst hc; exact h
    | cons n rest =>
      simp only [inlNodes] at hc
      cases hcal : st.t.calleeOf n with
      | some f =>
        simp only [hcal] at hc
        cases h1 : inlineCall fuel st g n f with
        | none => simp [h1] at hc
        | some r =>
          obtain ⟨st1, tops⟩ := r
          simp only [h1] at hc
          exact ih st1 st' _ hc (inlineCall_AInv h1 h)
      | none =>
        simp only [hcal] at hc
        cases h1 : inlSubs rec st (st.w.node n).subgraphs with
        | none => simp [h1] at hc
        | some st1 =>
          simp only [h1] at hc
          exact ih st1 st' _ hc (inlSubs_AInv hrec _ _ _ h1 h)

theorem inlGraphF_AInv (C : List CId) (cfgs : List CfgS) (m : MId) (fuel : Nat) :
    ∀ (d : Nat), RecOKa C cfgs m (inlGraphF fuel d) := by
  intro d
  induction d with
  | zero => intro st g st' hc _; simp [inlGraphF] at hc
  | succ d ih =>
    intro st g st' hc h
    simp only [inlGraphF] at hc
    exact inlNodes_AInv ih fuel g fuel _ _ _ hc h

theorem inlFuncs_AInv {C : List CId} {cfgs : List CfgS} {m : MId} (fuel : Nat) : ∀ (fs : List GId) (st st' : IState),
    inlFuncs fuel st fs = some st' → AInv C cfgs m st.w st.subst → AInv C cfgs m st'.w st'.subst := by
  intro fs
  induction fs with
  | nil => intro st st' hc h; simp only [inlFuncs, Option.some.injEq] at hc; subst hc; exact h
  | cons f rest ih =>
    intro st st' hc h
    simp only [inlFuncs] at hc
    split at hc
    · exact ih st st' hc h
    · cases h1 : inlGraphF fuel fuel st f with
      | none => simp [h1] at hc
      | some st1 =>
        simp only [h1] at hc
        exact ih st1 st' hc (inlGraphF_AInv C cfgs m fuel fuel st f st1 h1 h)

/-- `inlinePass` keeps the axis invariant -/
theorem inlinePass_AInv {C : List CId} {cfgs : List CfgS} {m : MId} {fuel : Nat} {w : World} {t : ITab} {r : IOut}
    (hc : inlinePass fuel w m t = some r) (h : AInv C cfgs m w []) : AInv C cfgs m r.w r.subst := by
  unfold inlinePass at hc
  simp only at hc
  cases h1 : inlGraphF fuel fuel { w := w, t := t } (w.model m).graph with
  | none => simp [h1] at hc
  | some st1 =>
    simp only [h1] at hc
    cases h2 : inlFuncs fuel st1 (w.model m).funcs with
    | none => simp [h2] at hc
    | some st2 =>
      simp only [h2, Option.some.injEq] at hc
      subst hc
      have h3 := inlFuncs_AInv fuel _ _ _ h2 (inlGraphF_AInv C cfgs m fuel fuel _ _ _ h1 h)
      exact ⟨dropFuncs_WJ h3.wj _, h3.nids, h3.gids, h3.ax⟩

theorem AInv_of_DevOK {w : World} (h : DevOK w) (m : MId) (hreg : HeapReg w m) (hg : GraphIds w) :
    AInv (w.model m).cfgs w.cfgs m w [] := by
  refine ⟨WJ_of_DevOK h m hreg, fun nd hnd => (h.1 nd hnd).1, hg, ?_⟩
  intro nd hnd nc hnc s hs _
  obtain ⟨_, _, hall⟩ := h.1 nd hnd
  obtain ⟨_, _, _, d⟩ := hall nc hnc
  obtain ⟨_, e1, e2, _, _⟩ := d s hs
  exact ⟨e1, e2⟩

end IrVerif.Device
